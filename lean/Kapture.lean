import Kapture.Base.DriverCore
import Kapture.Base.Vec
import Kapture.Gen.RotMat
import Kapture.Model.C05
import Kapture.Lemmas.C05
import Kapture.Props.C05
import Kapture.Drivers.C05
