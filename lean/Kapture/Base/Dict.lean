/-
  Base/Dict.lean — a Python `dict` as an insertion-ordered association list.
  `set` overwrites in place or appends (like `d[k] = v`), `erase` removes the first binding (like `del d[k]`),
  `get?` is `d.get(k)`.  The "keys are unique" invariant is a separate theorem, not a subtype.  No Mathlib.
-/
namespace Kapture.Dict

variable {κ ν : Type} [DecidableEq κ]

def get? (k : κ) : List (κ × ν) → Option ν
  | [] => none
  | (k', v) :: r => if k' = k then some v else get? k r

def set (k : κ) (v : ν) : List (κ × ν) → List (κ × ν)
  | [] => [(k, v)]
  | (k', v') :: r => if k' = k then (k, v) :: r else (k', v') :: set k v r

def erase (k : κ) : List (κ × ν) → List (κ × ν)
  | [] => []
  | (k', v') :: r => if k' = k then r else (k', v') :: erase k r

def has (k : κ) (l : List (κ × ν)) : Bool := (get? k l).isSome

def keys (l : List (κ × ν)) : List κ := l.map Prod.fst

/-- build a dict from a list of bindings, later bindings overwrite (like `dict(pairs)`) -/
def ofList (l : List (κ × ν)) : List (κ × ν) := l.foldl (fun acc kv => set kv.1 kv.2 acc) []

@[simp] theorem get?_nil (k : κ) : get? k ([] : List (κ × ν)) = none := rfl

theorem get?_set_self (k : κ) (v : ν) (l : List (κ × ν)) : get? k (set k v l) = some v := by
  induction l with
  | nil => simp [set, get?]
  | cons h t ih =>
    obtain ⟨k', v'⟩ := h
    simp only [set]
    split
    · simp [get?]
    · next hne => simp [get?, hne, ih]

theorem get?_set_ne (k k2 : κ) (v : ν) (l : List (κ × ν)) (h : k2 ≠ k) : get? k2 (set k v l) = get? k2 l := by
  induction l with
  | nil => simp [set, get?, Ne.symm h]
  | cons hd t ih =>
    obtain ⟨k', v'⟩ := hd
    simp only [set]
    split
    · next he => subst he; simp [get?, Ne.symm h]
    · next hne =>
      simp only [get?]
      split
      · rfl
      · exact ih

theorem get?_set (k k2 : κ) (v : ν) (l : List (κ × ν)) :
    get? k2 (set k v l) = if k2 = k then some v else get? k2 l := by
  split
  · next h => subst h; exact get?_set_self _ _ _
  · next h => exact get?_set_ne _ _ _ _ h

theorem get?_erase_ne (k k2 : κ) (l : List (κ × ν)) (h : k2 ≠ k) : get? k2 (erase k l) = get? k2 l := by
  induction l with
  | nil => rfl
  | cons hd t ih =>
    obtain ⟨k', v'⟩ := hd
    simp only [erase]
    split
    · next he => subst he; simp [get?, Ne.symm h]
    · next hne =>
      simp only [get?]
      split
      · rfl
      · exact ih

theorem mem_keys_iff (k : κ) (l : List (κ × ν)) : k ∈ keys l ↔ (get? k l).isSome = true := by
  induction l with
  | nil => simp [keys, get?]
  | cons hd t ih =>
    obtain ⟨k', v'⟩ := hd
    simp only [keys, List.map_cons, List.mem_cons, get?] at *
    split
    · next he => simp [he]
    · next hne =>
      constructor
      · rintro (h | h)
        · exact absurd h.symm hne
        · exact ih.mp h
      · intro h; exact Or.inr (ih.mpr h)

theorem get?_eq_none_iff (k : κ) (l : List (κ × ν)) : get? k l = none ↔ k ∉ keys l := by
  rw [mem_keys_iff]
  cases get? k l <;> simp

theorem get?_erase_self (k : κ) (l : List (κ × ν)) (hn : (keys l).Nodup) : get? k (erase k l) = none := by
  induction l with
  | nil => rfl
  | cons hd t ih =>
    obtain ⟨k', v'⟩ := hd
    simp only [keys, List.map_cons, List.nodup_cons] at hn
    simp only [erase]
    split
    · next he =>
      subst he
      exact (get?_eq_none_iff _ _).mpr hn.1
    · next hne =>
      simp only [get?, hne, if_false]
      exact ih hn.2

theorem get?_erase (k k2 : κ) (l : List (κ × ν)) (hn : (keys l).Nodup) :
    get? k2 (erase k l) = if k2 = k then none else get? k2 l := by
  split
  · next h => subst h; exact get?_erase_self _ _ hn
  · next h => exact get?_erase_ne _ _ _ h

theorem keys_set_mem (k k2 : κ) (v : ν) (l : List (κ × ν)) : k2 ∈ keys (set k v l) ↔ k2 = k ∨ k2 ∈ keys l := by
  rw [mem_keys_iff, mem_keys_iff, get?_set]
  split
  · next h => simp [h]
  · next h => simp [h]

theorem keys_erase_mem (k k2 : κ) (l : List (κ × ν)) (hn : (keys l).Nodup) :
    k2 ∈ keys (erase k l) ↔ k2 ≠ k ∧ k2 ∈ keys l := by
  rw [mem_keys_iff, mem_keys_iff, get?_erase _ _ _ hn]
  split
  · next h => simp [h]
  · next h => simp [h]

theorem nodup_set (k : κ) (v : ν) (l : List (κ × ν)) (hn : (keys l).Nodup) : (keys (set k v l)).Nodup := by
  induction l with
  | nil => simp [set, keys]
  | cons hd t ih =>
    obtain ⟨k', v'⟩ := hd
    simp only [keys, List.map_cons, List.nodup_cons] at hn
    simp only [set]
    split
    · next he => subst he; simpa [keys] using hn
    · next hne =>
      simp only [keys, List.map_cons, List.nodup_cons]
      refine ⟨?_, ih hn.2⟩
      intro hm
      have := (keys_set_mem k k' v t).mp hm
      rcases this with h | h
      · exact hne h
      · exact hn.1 h

theorem nodup_erase (k : κ) (l : List (κ × ν)) (hn : (keys l).Nodup) : (keys (erase k l)).Nodup := by
  induction l with
  | nil => simp [erase, keys]
  | cons hd t ih =>
    obtain ⟨k', v'⟩ := hd
    simp only [keys, List.map_cons, List.nodup_cons] at hn
    simp only [erase]
    split
    · exact hn.2
    · next hne =>
      simp only [keys, List.map_cons, List.nodup_cons]
      refine ⟨?_, ih hn.2⟩
      intro hm
      exact hn.1 ((keys_erase_mem k k' t hn.2).mp hm).2

theorem nodup_ofList (l : List (κ × ν)) : (keys (ofList l)).Nodup := by
  unfold ofList
  suffices h : ∀ acc : List (κ × ν), (keys acc).Nodup → (keys (l.foldl (fun acc kv => set kv.1 kv.2 acc) acc)).Nodup by
    exact h [] (by simp [keys])
  induction l with
  | nil => intro acc h; simpa
  | cons hd t ih => intro acc h; exact ih _ (nodup_set _ _ _ h)

theorem erase_eq_nil_iff (k : κ) (l : List (κ × ν)) (hn : (keys l).Nodup) (hk : k ∈ keys l) :
    erase k l = [] ↔ ∀ k2, k2 ≠ k → get? k2 l = none := by
  constructor
  · intro h k2 hne
    have := get?_erase_ne k k2 l hne
    rw [h] at this
    simpa using this.symm
  · intro h
    cases he : erase k l with
    | nil => rfl
    | cons hd t =>
      obtain ⟨k', v'⟩ := hd
      have hm : k' ∈ keys (erase k l) := by rw [he]; simp [keys]
      have := (keys_erase_mem k k' l hn).mp hm
      have h2 := h k' this.1
      rw [get?_eq_none_iff] at h2
      exact absurd this.2 h2

end Kapture.Dict
