/-
  Base/Sort.lean — `sorted(list_of_ints)` as insertion sort, with the facts the models need.
  (Python's sort of distinct ints is determined by the result being ordered and a permutation; any algorithm does.)
-/
namespace Kapture.Sort

def insertSorted (x : Int) : List Int → List Int
  | [] => [x]
  | y :: ys => if x ≤ y then x :: y :: ys else y :: insertSorted x ys

def isort (l : List Int) : List Int := l.foldr insertSorted []

theorem mem_insertSorted (x y : Int) (l : List Int) : y ∈ insertSorted x l ↔ y = x ∨ y ∈ l := by
  induction l with
  | nil => simp [insertSorted]
  | cons h t ih =>
    simp only [insertSorted]
    split
    · simp
    · simp only [List.mem_cons, ih]
      constructor
      · rintro (h | h | h) <;> simp [h]
      · rintro (h | h | h) <;> simp [h]

theorem mem_isort (y : Int) (l : List Int) : y ∈ isort l ↔ y ∈ l := by
  induction l with
  | nil => simp [isort]
  | cons h t ih =>
    simp only [isort, List.foldr_cons] at *
    rw [mem_insertSorted, ih]
    simp

theorem pairwise_lt_insertSorted (x : Int) (l : List Int) (hs : l.Pairwise (· < ·)) (hx : x ∉ l) :
    (insertSorted x l).Pairwise (· < ·) := by
  induction l with
  | nil => simp [insertSorted]
  | cons h t ih =>
    simp only [insertSorted]
    have hxh : x ≠ h := by intro e; apply hx; simp [e]
    have hxt : x ∉ t := by intro e; apply hx; simp [e]
    rw [List.pairwise_cons] at hs
    split
    · next hle =>
      have hlt : x < h := by omega
      rw [List.pairwise_cons]
      refine ⟨?_, List.pairwise_cons.mpr hs⟩
      intro a ha
      rcases List.mem_cons.mp ha with e | e
      · rw [e]; exact hlt
      · have := hs.1 a e; omega
    · next hnle =>
      rw [List.pairwise_cons]
      refine ⟨?_, ih hs.2 hxt⟩
      intro a ha
      rcases (mem_insertSorted x a t).mp ha with e | e
      · rw [e]; omega
      · exact hs.1 a e

theorem pairwise_lt_isort (l : List Int) (hn : l.Nodup) : (isort l).Pairwise (· < ·) := by
  induction l with
  | nil => simp [isort]
  | cons h t ih =>
    rw [List.nodup_cons] at hn
    simp only [isort, List.foldr_cons]
    apply pairwise_lt_insertSorted
    · exact ih hn.2
    · intro hm; exact hn.1 ((mem_isort h t).mp hm)

/-- a strictly increasing list is determined by its members -/
theorem sorted_ext (l₁ l₂ : List Int) (h₁ : l₁.Pairwise (· < ·)) (h₂ : l₂.Pairwise (· < ·))
    (hm : ∀ x, x ∈ l₁ ↔ x ∈ l₂) : l₁ = l₂ := by
  induction l₁ generalizing l₂ with
  | nil =>
    cases l₂ with
    | nil => rfl
    | cons b t => exact absurd ((hm b).mpr (by simp)) (by simp)
  | cons a s ih =>
    cases l₂ with
    | nil => exact absurd ((hm a).mp (by simp)) (by simp)
    | cons b t =>
      rw [List.pairwise_cons] at h₁ h₂
      have hab : a = b := by
        have ha := (hm a).mp (by simp)
        have hb := (hm b).mpr (by simp)
        rcases List.mem_cons.mp ha with e | e
        · exact e
        · rcases List.mem_cons.mp hb with e' | e'
          · exact e'.symm
          · have := h₂.1 a e; have := h₁.1 b e'; omega
      subst hab
      congr 1
      apply ih t h₁.2 h₂.2
      intro x
      constructor
      · intro hx
        have := (hm x).mp (by simp [hx])
        rcases List.mem_cons.mp this with e | e
        · have := h₁.1 x hx; omega
        · exact e
      · intro hx
        have := (hm x).mpr (by simp [hx])
        rcases List.mem_cons.mp this with e | e
        · have := h₂.1 x hx; omega
        · exact e

end Kapture.Sort
