/-
  Base/DriverCore.lean — line protocol shared by all model drivers.
  One JSON object per input line, one JSON object per output line.  No Mathlib.
-/
import Lean.Data.Json

namespace Kapture.Driver
open Lean

def err (msg : String) : Json := Json.mkObj [("error", Json.str msg)]

def getInt? (j : Json) : Option Int :=
  match j with
  | Json.num n => if n.exponent = 0 then some n.mantissa else none
  | Json.str s => s.toInt?
  | _ => none

def getNat? (j : Json) : Option Nat := (getInt? j).bind (fun i => if i ≥ 0 then some i.toNat else none)

def getStr? (j : Json) : Option String :=
  match j with
  | Json.str s => some s
  | _ => none

def getArr? (j : Json) : Option (Array Json) :=
  match j with
  | Json.arr a => some a
  | _ => none

def field? (j : Json) (k : String) : Option Json := (j.getObjVal? k).toOption

/-- exact rationals travel as "num/den" (or "num") strings -/
def parseRat? (s : String) : Option Rat :=
  match s.splitOn "/" with
  | [n] => n.toInt?.map (fun i => (i : Rat))
  | [n, d] => do
      let n ← n.toInt?
      let d ← d.toNat?
      if d = 0 then none else some (mkRat n d)
  | _ => none

def ratToString (r : Rat) : String := s!"{r.num}/{r.den}"

def getRat? (j : Json) : Option Rat := (getStr? j).bind parseRat?

def ratJson (r : Rat) : Json := Json.str (ratToString r)

def intJson (i : Int) : Json := Json.num ⟨i, 0⟩

def mapM? {α β} (f : α → Option β) (xs : Array α) : Option (List β) :=
  xs.toList.mapM f

partial def loop (h : IO.FS.Stream) (out : IO.FS.Stream) (handle : Json → Json) : IO Unit := do
  let line ← h.getLine
  if line.isEmpty then return ()
  let l := line.trimAscii.toString
  if l.isEmpty then
    loop h out handle
  else
    let resp := match Json.parse l with
      | Except.ok j => handle j
      | Except.error e => err s!"json: {e}"
    out.putStrLn resp.compress
    loop h out handle

def run (handle : Json → Json) : IO Unit := do
  let stdin ← IO.getStdin
  let stdout ← IO.getStdout
  loop stdin stdout handle
  stdout.flush

end Kapture.Driver
