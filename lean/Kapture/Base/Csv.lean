/-
  Base/Csv.lean — the text layer of kapture/io/csv.py: table_to_file / table_from_file, over `List Char`.
  No Mathlib.  Own definitions (not String.splitOn) so that every proof is a structural induction.
-/
namespace Kapture.Csv

abbrev Str := List Char

/-- the code points for which Python's `str.isspace()` is true (checked against CPython by the harness) -/
def pySpaceCodes : List Nat :=
  [9, 10, 11, 12, 13, 28, 29, 30, 31, 32, 133, 160, 5760, 8192, 8193, 8194, 8195, 8196, 8197, 8198, 8199, 8200, 8201, 8202,
   8232, 8233, 8239, 8287, 12288]

def isPySpace (c : Char) : Bool := pySpaceCodes.contains c.toNat

/-- str.lstrip() / rstrip() / strip() with the default (whitespace) argument -/
def lstrip (s : Str) : Str := s.dropWhile isPySpace
def rstrip (s : Str) : Str := (s.reverse.dropWhile isPySpace).reverse
def strip (s : Str) : Str := rstrip (lstrip s)

/-- `s.split(c)` for a single character: always at least one piece -/
def splitOnChar (c : Char) : Str → List Str
  | [] => [[]]
  | x :: xs =>
    if x = c then [] :: splitOnChar c xs
    else match splitOnChar c xs with
      | h :: t => (x :: h) :: t
      | [] => [[x]]

/-- `sep.join(pieces)` -/
def joinWith (sep : Str) : List Str → Str
  | [] => []
  | [p] => p
  | p :: q :: rest => p ++ sep ++ joinWith sep (q :: rest)

/-- `s.rjust(n)` -/
def rjust (n : Nat) (s : Str) : Str := List.replicate (n - s.length) ' ' ++ s

/-- apply the per-column widths of `padding` (csv.py:184-185); columns beyond the list are left alone
  (the code would raise IndexError: the writers never pass a short list) -/
def applyPadding (pad : List Nat) (fields : List Str) : List Str :=
  fields.zipIdx.map (fun fi => match pad[fi.2]? with
    | some n => rjust n fi.1
    | none => fi.1)

def commaSpace : Str := [',', ' ']

/-- one data line of table_to_file (csv.py:183-187), without the line separator -/
def renderRow (pad : Option (List Nat)) (fields : List Str) : Str :=
  joinWith commaSpace (match pad with
    | some p => applyPadding p fields
    | none => fields)

/-- one line of table_from_file (csv.py:209): split on commas, strip every field -/
def parseLine (line : Str) : List Str := (splitOnChar ',' line).map strip

/-- `file.readlines()` in text mode with universal newlines, terminators removed: split on \n, \r\n and \r -/
def splitLines : Str → List Str
  | [] => [[]]
  | '\r' :: '\n' :: rest => [] :: splitLines rest
  | '\r' :: rest => [] :: splitLines rest
  | '\n' :: rest => [] :: splitLines rest
  | c :: rest =>
    match splitLines rest with
    | h :: t => (c :: h) :: t
    | [] => [[c]]

/-- the line filter of table_from_file (csv.py:207): keep non-blank lines that do not start with '#' -/
def keepLine (l : Str) : Bool := !(strip l).isEmpty && l.head? != some '#'

/-- table_from_file (csv.py:195-211) -/
def parseFile (text : Str) : List (List Str) := ((splitLines text).filter keepLine).map parseLine

def nl : Str := ['\n']

/-- table_to_file with a header (csv.py:178-188): version line, column comment, one line per row -/
def renderFile (formatLine header : Str) (pad : Option (List Nat)) (rows : List (List Str)) : Str :=
  formatLine ++ nl ++ header ++ nl ++ (rows.map (fun r => renderRow pad r ++ nl)).flatten

/-- a field that survives the trip: no comma, no line break, nothing to strip -/
def FieldOK (f : Str) : Prop :=
  ',' ∉ f ∧ '\n' ∉ f ∧ '\r' ∉ f ∧ strip f = f

/-- a row that survives: at least one field, all fields fine, the first one non-empty and not a comment marker -/
def RowOK (r : List Str) : Prop :=
  (∀ f ∈ r, FieldOK f) ∧ ∃ f rest, r = f :: rest ∧ f ≠ [] ∧ f.head? ≠ some '#'

-- integers -------------------------------------------------------------------------------------------------------------

def digitChar (d : Nat) : Char := Char.ofNat (48 + d)

/-- decimal digits of a natural number, most significant first (fuel = n + 1) -/
def natDigits : Nat → Nat → Str
  | 0, _ => []
  | fuel + 1, n => if n < 10 then [digitChar n] else natDigits fuel (n / 10) ++ [digitChar (n % 10)]

/-- `str(int)` -/
def showInt (i : Int) : Str :=
  if i < 0 then '-' :: natDigits (i.natAbs + 1) i.natAbs else natDigits (i.natAbs + 1) i.natAbs

def digitVal (c : Char) : Option Nat :=
  if 48 ≤ c.toNat ∧ c.toNat ≤ 57 then some (c.toNat - 48) else none

def readNat (s : Str) : Option Nat :=
  if s.isEmpty then none else s.foldl (fun acc c => acc.bind (fun a => (digitVal c).map (fun d => 10 * a + d))) (some 0)

/-- `int(token)` on an already stripped token: optional sign, then ASCII digits (leading zeros accepted) -/
def readInt (s : Str) : Option Int :=
  match s with
  | '-' :: rest => (readNat rest).map (fun n => -(n : Int))
  | '+' :: rest => (readNat rest).map (fun n => (n : Int))
  | _ => (readNat s).map (fun n => (n : Int))

end Kapture.Csv
