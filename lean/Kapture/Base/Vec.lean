/-
  Base/Vec.lean — 3-vectors, 3x3 matrices and quaternions over an arbitrary carrier `K`
  that only has the core arithmetic classes.  No Mathlib: the same definitions are
  executed on `Rat` by the drivers and reasoned about under `[Field K]` in Lemmas/Props.
-/
namespace Kapture

structure V3 (K : Type) where
  x : K
  y : K
  z : K
deriving DecidableEq, Repr

structure M3 (K : Type) where
  m00 : K
  m01 : K
  m02 : K
  m10 : K
  m11 : K
  m12 : K
  m20 : K
  m21 : K
  m22 : K
deriving DecidableEq, Repr

/-- quaternion, numpy-quaternion component order (w, x, y, z) -/
structure Quat (K : Type) where
  w : K
  x : K
  y : K
  z : K
deriving DecidableEq, Repr

section ops
variable {K : Type} [Add K] [Sub K] [Mul K] [Div K] [Neg K] [OfNat K 0] [OfNat K 1]

namespace V3
def add (a b : V3 K) : V3 K := ⟨a.x + b.x, a.y + b.y, a.z + b.z⟩
def sub (a b : V3 K) : V3 K := ⟨a.x - b.x, a.y - b.y, a.z - b.z⟩
def neg (a : V3 K) : V3 K := ⟨-a.x, -a.y, -a.z⟩
/-- `t * -1.0` of `PoseTransform.inverse` -/
def mulNegOne (a : V3 K) : V3 K := ⟨a.x * (-1), a.y * (-1), a.z * (-1)⟩
def zero : V3 K := ⟨0, 0, 0⟩
def dot (a b : V3 K) : K := a.x * b.x + a.y * b.y + a.z * b.z
def norm2 (a : V3 K) : K := dot a a
end V3

namespace M3
/-- `np.matmul(M, v)` for a column vector -/
def mulVec (m : M3 K) (v : V3 K) : V3 K :=
  ⟨m.m00 * v.x + m.m01 * v.y + m.m02 * v.z,
   m.m10 * v.x + m.m11 * v.y + m.m12 * v.z,
   m.m20 * v.x + m.m21 * v.y + m.m22 * v.z⟩
def mul (a b : M3 K) : M3 K :=
  ⟨a.m00 * b.m00 + a.m01 * b.m10 + a.m02 * b.m20,
   a.m00 * b.m01 + a.m01 * b.m11 + a.m02 * b.m21,
   a.m00 * b.m02 + a.m01 * b.m12 + a.m02 * b.m22,
   a.m10 * b.m00 + a.m11 * b.m10 + a.m12 * b.m20,
   a.m10 * b.m01 + a.m11 * b.m11 + a.m12 * b.m21,
   a.m10 * b.m02 + a.m11 * b.m12 + a.m12 * b.m22,
   a.m20 * b.m00 + a.m21 * b.m10 + a.m22 * b.m20,
   a.m20 * b.m01 + a.m21 * b.m11 + a.m22 * b.m21,
   a.m20 * b.m02 + a.m21 * b.m12 + a.m22 * b.m22⟩
def transpose (a : M3 K) : M3 K :=
  ⟨a.m00, a.m10, a.m20, a.m01, a.m11, a.m21, a.m02, a.m12, a.m22⟩
def one : M3 K := ⟨1, 0, 0, 0, 1, 0, 0, 0, 1⟩
end M3

namespace Quat
/-- Hamilton product, as implemented by numpy-quaternion (`quaternion_multiply`) -/
def mul (p q : Quat K) : Quat K :=
  ⟨p.w * q.w - p.x * q.x - p.y * q.y - p.z * q.z,
   p.w * q.x + p.x * q.w + p.y * q.z - p.z * q.y,
   p.w * q.y - p.x * q.z + p.y * q.w + p.z * q.x,
   p.w * q.z + p.x * q.y - p.y * q.x + p.z * q.w⟩
def norm2 (q : Quat K) : K := q.w * q.w + q.x * q.x + q.y * q.y + q.z * q.z
/-- numpy-quaternion `quaternion_inverse`: conjugate divided by the squared norm -/
def inv (q : Quat K) : Quat K :=
  ⟨q.w / norm2 q, -q.x / norm2 q, -q.y / norm2 q, -q.z / norm2 q⟩
def one : Quat K := ⟨1, 0, 0, 0⟩
def smul (c : K) (q : Quat K) : Quat K := ⟨c * q.w, c * q.x, c * q.y, c * q.z⟩
end Quat

end ops
end Kapture
