/-
  Lemmas/C01Points.lean — arithmetic of the fixed-point number format of points3d.txt.
-/
import Kapture.Model.C01Points
import Mathlib.Algebra.Order.Round
import Mathlib.Data.Rat.Floor
import Mathlib.Tactic.Ring
import Mathlib.Tactic.Positivity
import Mathlib.Tactic.FieldSimp
import Mathlib.Tactic.Linarith

namespace Kapture.C01

theorem scale_pos (d : Nat) : (0 : Rat) < scale d := by
  unfold scale
  exact_mod_cast Nat.pos_of_ne_zero (by positivity)

theorem nearest_iff_abs (d : Nat) (x : Rat) (n : Int) : Nearest d x n ↔ |x * scale d - (n : Rat)| ≤ 1 / 2 := by
  unfold Nearest
  rw [abs_le]

theorem nearest_round (d : Nat) (x : Rat) : Nearest d x (round (x * scale d)) := by
  rw [nearest_iff_abs]
  exact abs_sub_round _

theorem nearest_within (d : Nat) (x : Rat) (n : Int) (h : Nearest d x n) : |x - readUnits d n| ≤ 1 / (2 * scale d) := by
  rw [nearest_iff_abs] at h
  have hpos := scale_pos d
  unfold readUnits
  have e : x - (n : Rat) / scale d = (x * scale d - n) / scale d := by field_simp
  rw [e, abs_div, abs_of_pos hpos, div_le_iff₀ hpos]
  calc |x * scale d - (n : Rat)| ≤ 1 / 2 := h
    _ = 1 / (2 * scale d) * scale d := by field_simp

theorem nearest_of_units (d : Nat) (m n : Int) (h : Nearest d (readUnits d m) n) : n = m := by
  rw [nearest_iff_abs] at h
  have hpos := scale_pos d
  unfold readUnits at h
  have e : (m : Rat) / scale d * scale d = m := by field_simp
  rw [e] at h
  have h2 : |((m - n : Int) : Rat)| ≤ 1 / 2 := by push_cast; exact h
  rw [← Int.cast_abs] at h2
  have h3 : |m - n| < 1 := by
    have : ((|m - n| : Int) : Rat) < 1 := lt_of_le_of_lt h2 (by norm_num)
    exact_mod_cast this
  have := Int.abs_lt_one_iff.mp h3
  omega

end Kapture.C01
