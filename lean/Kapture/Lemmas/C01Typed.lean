/-
  Lemmas/C01Typed.lean — the typed layer of C01: laws of the float codec and helper lemmas.
-/
import Kapture.Lemmas.C01
import Kapture.Model.C01Typed

namespace Kapture.C01
open Kapture.Csv Kapture.Gen.RecordSchemas

variable {F : Type}

/-- what the theorems need of Python's `str` / `float` on floats: `float(repr(x)) == x` (bit for bit: `F` is whatever set of
  floats one cares to distinguish), a float's repr is a non-empty token that survives the text layer, `float('')` raises -/
structure Lawful (c : Codec F) : Prop where
  parse_render : ∀ x, c.parse (c.render x) = some x
  render_ok : ∀ x, FieldOK (c.render x) ∧ c.render x ≠ []
  parse_empty : c.parse [] = none

theorem fieldOK_nil : FieldOK ([] : Str) := by
  refine ⟨by simp, by simp, by simp, ?_⟩
  rfl

theorem poseToList_fieldOK (c : Codec F) (h : Lawful c) (p : Pose F) : ∀ f ∈ poseToList c p, FieldOK f := by
  intro f hf
  unfold poseToList at hf
  rcases List.mem_append.mp hf with hf | hf
  · cases hr : p.r with
    | none => rw [hr] at hf; simp at hf; rw [hf]; exact fieldOK_nil
    | some q =>
      obtain ⟨w, x, y, z⟩ := q
      rw [hr] at hf
      simp only [List.mem_cons, List.not_mem_nil, or_false] at hf
      rcases hf with rfl | rfl | rfl | rfl <;> exact (h.render_ok _).1
  · cases ht : p.t with
    | none => rw [ht] at hf; simp at hf; rw [hf]; exact fieldOK_nil
    | some q =>
      obtain ⟨x, y, z⟩ := q
      rw [ht] at hf
      simp only [List.mem_cons, List.not_mem_nil, or_false] at hf
      rcases hf with rfl | rfl | rfl <;> exact (h.render_ok _).1

theorem traj_pose_roundtrip (c : Codec F) (h : Lawful c) (p : Pose F) : trajPoseOfFields c (poseToList c p) = Except.ok p := by
  obtain ⟨r, t⟩ := p
  cases r with
  | none =>
    cases t with
    | none => simp [poseToList, trajPoseOfFields, trajRotOfFields, trajTransOfFields, givenAreFloats]
    | some t =>
      obtain ⟨x, y, z⟩ := t
      simp [poseToList, trajPoseOfFields, trajRotOfFields, trajTransOfFields, givenAreFloats, h.parse_render, (h.render_ok _).2]
  | some r =>
    obtain ⟨w, x, y, z⟩ := r
    cases t with
    | none => simp [poseToList, trajPoseOfFields, trajRotOfFields, trajTransOfFields, givenAreFloats, h.parse_render, (h.render_ok _).2]
    | some t =>
      obtain ⟨a, b, d⟩ := t
      simp [poseToList, trajPoseOfFields, trajRotOfFields, trajTransOfFields, givenAreFloats, h.parse_render, (h.render_ok _).2]

theorem givenAreFloats_bad (c : Codec F) (bad : Str) (hbad : c.parse bad = none) (hnb : bad ≠ []) (toks : List Str)
    (hmem : bad ∈ toks) : givenAreFloats c toks = false := by
  unfold givenAreFloats
  rw [Bool.eq_false_iff]
  intro hall
  have := List.all_eq_true.mp hall bad hmem
  simp [hbad, hnb] at this

theorem trajRot_bad (c : Codec F) (qw qx qy qz bad : Str) (hm : bad ∈ [qw, qx, qy, qz]) (hbad : c.parse bad = none)
    (hnb : bad ≠ []) : trajRotOfFields c qw qx qy qz = Except.error DecodeErr.value := by
  unfold trajRotOfFields
  split
  · simp only [List.mem_cons, List.mem_nil_iff, or_false] at hm
    rcases hm with h | h | h | h <;> subst h <;> simp [hbad]
  · simp [givenAreFloats_bad c bad hbad hnb _ hm]

theorem trajTrans_bad (c : Codec F) (tx ty tz bad : Str) (hm : bad ∈ [tx, ty, tz]) (hbad : c.parse bad = none)
    (hnb : bad ≠ []) : trajTransOfFields c tx ty tz = Except.error DecodeErr.value := by
  unfold trajTransOfFields
  split
  · simp only [List.mem_cons, List.mem_nil_iff, or_false] at hm
    rcases hm with h | h | h <;> subst h <;> simp [hbad]
  · simp [givenAreFloats_bad c bad hbad hnb _ hm]

/-- the D31 fix as a statement: a pose field of a trajectory row that is given (not empty) and is not a float is an ERROR,
  whether or not the other fields of its group are given -/
theorem traj_bad_number_is_an_error (c : Codec F) (qw qx qy qz tx ty tz bad : Str) (hm : bad ∈ [qw, qx, qy, qz, tx, ty, tz])
    (hbad : c.parse bad = none) (hnb : bad ≠ []) :
    ∃ e, trajPoseOfFields c [qw, qx, qy, qz, tx, ty, tz] = Except.error e := by
  have hsplit : bad ∈ [qw, qx, qy, qz] ∨ bad ∈ [tx, ty, tz] := by
    simp only [List.mem_cons, List.mem_nil_iff, or_false] at hm ⊢
    rcases hm with h | h | h | h | h | h | h <;> simp [h]
  unfold trajPoseOfFields
  dsimp only
  rcases hsplit with h | h
  · rw [trajRot_bad c qw qx qy qz bad h hbad hnb]
    exact ⟨_, rfl⟩
  · rw [trajTrans_bad c tx ty tz bad h hbad hnb]
    cases trajRotOfFields c qw qx qy qz with
    | error e => exact ⟨_, rfl⟩
    | ok r => exact ⟨_, rfl⟩

theorem floatSafe_render (c : Codec F) (h : Lawful c) (x : F) : floatSafe c (c.render x) = Except.ok (some x) := by
  simp [floatSafe, h.parse_render]

theorem floatSafe_empty (c : Codec F) (h : Lawful c) : floatSafe c [] = Except.ok none := by
  simp [floatSafe, h.parse_empty, strip, lstrip, rstrip]

theorem rig_pose_roundtrip (c : Codec F) (h : Lawful c) (p : Pose F) : rigPoseOfFields c (poseToList c p) = Except.ok p := by
  obtain ⟨r, t⟩ := p
  cases r with
  | none =>
    cases t with
    | none => simp [poseToList, rigPoseOfFields, floatArrayOrNone, floatSafe_empty c h]
    | some t =>
      obtain ⟨x, y, z⟩ := t
      simp [poseToList, rigPoseOfFields, floatArrayOrNone, floatSafe_render c h, floatSafe_empty c h]
  | some r =>
    obtain ⟨w, x, y, z⟩ := r
    cases t with
    | none => simp [poseToList, rigPoseOfFields, floatArrayOrNone, floatSafe_render c h, floatSafe_empty c h]
    | some t =>
      obtain ⟨a, b, d⟩ := t
      simp [poseToList, rigPoseOfFields, floatArrayOrNone, floatSafe_render c h]

theorem floatArrayOrNone_bad (c : Codec F) (bad : Str) (hbad : c.parse bad = none) (hnb : strip bad ≠ []) :
    ∀ toks : List Str, bad ∈ toks → floatArrayOrNone c toks = Except.error DecodeErr.value := by
  have hb : floatSafe c bad = Except.error DecodeErr.value := by simp [floatSafe, hbad, hnb]
  have hval : ∀ t e, floatSafe c t = Except.error e → e = DecodeErr.value := by
    intro t e h
    unfold floatSafe at h
    split at h
    · cases h
    · split at h
      · cases h
      · cases h; rfl
  intro toks
  induction toks with
  | nil => intro h; cases h
  | cons t ts ih =>
    intro hm
    unfold floatArrayOrNone
    cases hft : floatSafe c t with
    | error e => rw [hval t e hft]
    | ok v =>
      dsimp only
      rcases List.mem_cons.mp hm with h | h
      · subst h; rw [hb] at hft; cases hft
      · rw [ih h]

theorem floatSafe_err (c : Codec F) (t : Str) (e : DecodeErr) (h : floatSafe c t = Except.error e) : e = DecodeErr.value := by
  unfold floatSafe at h
  split at h
  · cases h
  · split at h
    · cases h
    · cases h; rfl

theorem floatArrayOrNone_err (c : Codec F) : ∀ (toks : List Str) (e : DecodeErr),
    floatArrayOrNone c toks = Except.error e → e = DecodeErr.value := by
  intro toks
  induction toks with
  | nil => intro e h; cases h
  | cons t ts ih =>
    intro e h
    unfold floatArrayOrNone at h
    cases hft : floatSafe c t with
    | error e' => rw [hft] at h; cases h; exact floatSafe_err c t _ hft
    | ok v =>
      rw [hft] at h
      dsimp only at h
      cases hr : floatArrayOrNone c ts with
      | error e' => rw [hr] at h; cases h; exact ih _ hr
      | ok vs => rw [hr] at h; cases h

/-- the D30 fix as a statement: a pose token that is neither a float nor blank is an ERROR of the rigs reader, wherever it stands -/
theorem rig_bad_number_is_an_error (c : Codec F) (qw qx qy qz tx ty tz bad : Str) (hm : bad ∈ [qw, qx, qy, qz, tx, ty, tz])
    (hbad : c.parse bad = none) (hnb : strip bad ≠ []) :
    rigPoseOfFields c [qw, qx, qy, qz, tx, ty, tz] = Except.error DecodeErr.value := by
  have key := floatArrayOrNone_bad c bad hbad hnb
  have hsplit : bad ∈ [qw, qx, qy, qz] ∨ bad ∈ [tx, ty, tz] := by
    simp only [List.mem_cons, List.mem_nil_iff, or_false] at hm ⊢
    rcases hm with h | h | h | h | h | h | h <;> simp [h]
  unfold rigPoseOfFields
  dsimp only
  rcases hsplit with h | h
  · rw [key _ h]
  · rw [key _ h]
    cases hr : floatArrayOrNone c [qw, qx, qy, qz] with
    | error e => rw [floatArrayOrNone_err c _ e hr]
    | ok r => rfl

theorem decodeVal_render (c : Codec F) (h : Lawful c) (v : Val F) : decodeVal c v.ty (renderVal c v) = some v := by
  cases v with
  | int i => simp [decodeVal, renderVal, Val.ty, readInt_showInt]
  | flt x => simp [decodeVal, renderVal, Val.ty, h.parse_render]
  | str s => simp [decodeVal, renderVal, Val.ty]

theorem fields_roundtrip (c : Codec F) (h : Lawful c) (vs : List (Val F)) :
    decodeFields c (vs.map Val.ty) (vs.map (renderVal c)) = Except.ok vs := by
  induction vs with
  | nil => rfl
  | cons v vs ih =>
    simp only [List.map_cons, decodeFields, decodeVal_render c h v, ih]
    rfl

theorem renderVal_fieldOK (c : Codec F) (h : Lawful c) (v : Val F) (hs : ∀ s, v = Val.str s → FieldOK s) : FieldOK (renderVal c v) := by
  cases v with
  | int i => exact (showInt_fieldOK i).1
  | flt x => exact (h.render_ok x).1
  | str s => exact hs s rfl

-- sorting commutes with a key-preserving map ----------------------------------------------------------------------------
theorem insertBy_map {α β : Type} (le : α → α → Bool) (le' : β → β → Bool) (f : α → β)
    (hle : ∀ a b, le' (f a) (f b) = le a b) (x : α) (l : List α) :
    insertBy le' (f x) (l.map f) = (insertBy le x l).map f := by
  induction l with
  | nil => rfl
  | cons y ys ih =>
    simp only [List.map_cons, insertBy, hle]
    split
    · rfl
    · simp [ih]

theorem sortBy_map {α β : Type} (le : α → α → Bool) (le' : β → β → Bool) (f : α → β)
    (hle : ∀ a b, le' (f a) (f b) = le a b) (l : List α) : sortBy le' (l.map f) = (sortBy le l).map f := by
  induction l with
  | nil => rfl
  | cons x xs ih =>
    show insertBy le' (f x) (sortBy le' (xs.map f)) = (insertBy le x (sortBy le xs)).map f
    rw [ih, insertBy_map le le' f hle]

end Kapture.C01

namespace Kapture.C01
open Kapture.Csv Kapture.Gen.RecordSchemas
variable {F : Type}

/-- a field of a record row that its declared type cannot read makes the whole row an error, wherever it stands: the rows
  before it are fine, the rows after it are not looked at -/
theorem decodeFields_bad (c : Codec F) : ∀ (tys : List Ty) (toks : List Str) (i : Nat) (hi : i < tys.length)
    (hlen : tys.length = toks.length), decodeVal c (tys[i]) (toks[i]'(hlen ▸ hi)) = none →
    ∃ e, decodeFields c tys toks = Except.error e := by
  intro tys
  induction tys with
  | nil => intro toks i hi; simp at hi
  | cons ty tys ih =>
    intro toks i hi hlen hbad
    cases toks with
    | nil => simp at hlen
    | cons s ss =>
      unfold decodeFields
      cases i with
      | zero =>
        simp only [List.getElem_cons_zero] at hbad
        rw [hbad]
        exact ⟨_, rfl⟩
      | succ j =>
        simp only [List.getElem_cons_succ] at hbad
        cases decodeVal c ty s with
        | none => exact ⟨_, rfl⟩
        | some v =>
          dsimp only
          obtain ⟨e, he⟩ := ih ss j (by simpa using hi) (by simpa using hlen) hbad
          rw [he]
          exact ⟨e, rfl⟩

end Kapture.C01
