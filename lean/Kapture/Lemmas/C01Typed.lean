/-
  Lemmas/C01Typed.lean — the typed layer of C01: laws of the float codec and helper lemmas.
-/
import Kapture.Lemmas.C01
import Kapture.Model.C01Typed

namespace Kapture.C01
open Kapture.Csv Kapture.Gen.RecordSchemas

variable {F : Type}

/-- what the theorems need of Python's `str` / `float` on floats: `float(repr(x)) == x` (bit for bit: `F` is whatever set of
  floats one cares to distinguish), a float's repr is a non-empty token that survives the text layer, `float('')` raises -/
structure Lawful (c : Codec F) : Prop where
  parse_render : ∀ x, c.parse (c.render x) = some x
  render_ok : ∀ x, FieldOK (c.render x) ∧ c.render x ≠ []
  parse_empty : c.parse [] = none

theorem fieldOK_nil : FieldOK ([] : Str) := by
  refine ⟨by simp, by simp, by simp, ?_⟩
  rfl

theorem poseToList_fieldOK (c : Codec F) (h : Lawful c) (p : Pose F) : ∀ f ∈ poseToList c p, FieldOK f := by
  intro f hf
  unfold poseToList at hf
  rcases List.mem_append.mp hf with hf | hf
  · cases hr : p.r with
    | none => rw [hr] at hf; simp at hf; rw [hf]; exact fieldOK_nil
    | some q =>
      obtain ⟨w, x, y, z⟩ := q
      rw [hr] at hf
      simp only [List.mem_cons, List.not_mem_nil, or_false] at hf
      rcases hf with rfl | rfl | rfl | rfl <;> exact (h.render_ok _).1
  · cases ht : p.t with
    | none => rw [ht] at hf; simp at hf; rw [hf]; exact fieldOK_nil
    | some q =>
      obtain ⟨x, y, z⟩ := q
      rw [ht] at hf
      simp only [List.mem_cons, List.not_mem_nil, or_false] at hf
      rcases hf with rfl | rfl | rfl <;> exact (h.render_ok _).1

theorem traj_pose_roundtrip (c : Codec F) (h : Lawful c) (p : Pose F) : trajPoseOfFields c (poseToList c p) = Except.ok p := by
  obtain ⟨r, t⟩ := p
  cases r with
  | none =>
    cases t with
    | none => simp [poseToList, trajPoseOfFields]
    | some t =>
      obtain ⟨x, y, z⟩ := t
      simp [poseToList, trajPoseOfFields, h.parse_render, (h.render_ok _).2]
  | some r =>
    obtain ⟨w, x, y, z⟩ := r
    cases t with
    | none => simp [poseToList, trajPoseOfFields, h.parse_render, (h.render_ok _).2]
    | some t =>
      obtain ⟨a, b, d⟩ := t
      simp [poseToList, trajPoseOfFields, h.parse_render, (h.render_ok _).2]

theorem rig_pose_roundtrip (c : Codec F) (h : Lawful c) (p : Pose F) : rigPoseOfFields c (poseToList c p) = Except.ok p := by
  obtain ⟨r, t⟩ := p
  cases r with
  | none =>
    cases t with
    | none => simp [poseToList, rigPoseOfFields, h.parse_empty]
    | some t =>
      obtain ⟨x, y, z⟩ := t
      simp [poseToList, rigPoseOfFields, h.parse_render, h.parse_empty]
  | some r =>
    obtain ⟨w, x, y, z⟩ := r
    cases t with
    | none => simp [poseToList, rigPoseOfFields, h.parse_render, h.parse_empty]
    | some t =>
      obtain ⟨a, b, d⟩ := t
      simp [poseToList, rigPoseOfFields, h.parse_render]

theorem decodeVal_render (c : Codec F) (h : Lawful c) (v : Val F) : decodeVal c v.ty (renderVal c v) = some v := by
  cases v with
  | int i => simp [decodeVal, renderVal, Val.ty, readInt_showInt]
  | flt x => simp [decodeVal, renderVal, Val.ty, h.parse_render]
  | str s => simp [decodeVal, renderVal, Val.ty]

theorem fields_roundtrip (c : Codec F) (h : Lawful c) (vs : List (Val F)) :
    decodeFields c (vs.map Val.ty) (vs.map (renderVal c)) = Except.ok vs := by
  induction vs with
  | nil => rfl
  | cons v vs ih =>
    simp only [List.map_cons, decodeFields, decodeVal_render c h v, ih]
    rfl

theorem renderVal_fieldOK (c : Codec F) (h : Lawful c) (v : Val F) (hs : ∀ s, v = Val.str s → FieldOK s) : FieldOK (renderVal c v) := by
  cases v with
  | int i => exact (showInt_fieldOK i).1
  | flt x => exact (h.render_ok x).1
  | str s => exact hs s rfl

-- sorting commutes with a key-preserving map ----------------------------------------------------------------------------
theorem insertBy_map {α β : Type} (le : α → α → Bool) (le' : β → β → Bool) (f : α → β)
    (hle : ∀ a b, le' (f a) (f b) = le a b) (x : α) (l : List α) :
    insertBy le' (f x) (l.map f) = (insertBy le x l).map f := by
  induction l with
  | nil => rfl
  | cons y ys ih =>
    simp only [List.map_cons, insertBy, hle]
    split
    · rfl
    · simp [ih]

theorem sortBy_map {α β : Type} (le : α → α → Bool) (le' : β → β → Bool) (f : α → β)
    (hle : ∀ a b, le' (f a) (f b) = le a b) (l : List α) : sortBy le' (l.map f) = (sortBy le l).map f := by
  induction l with
  | nil => rfl
  | cons x xs ih =>
    show insertBy le' (f x) (sortBy le' (xs.map f)) = (insertBy le x (sortBy le xs)).map f
    rw [ih, insertBy_map le le' f hle]

end Kapture.C01
