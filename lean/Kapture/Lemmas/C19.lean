/-
  Lemmas/C19.lean — specification-side definitions for C19 and helper lemmas.
-/
import Kapture.Model.C19

namespace Kapture.C19

/-- is the part of type `t` selected for deletion by the only/skip arguments? (`only` wins when both are given) -/
def sel (a : Args) (t : String) : Bool :=
  if !a.only.isEmpty then a.only.contains t else !a.skip.contains t

/-- some part that is NOT selected (so it is kept) stores its record values as files under records_data -/
def needs (T : Tables) (a : Args) : Bool := T.storesFiles.any (fun t => !sel a t)

/-- the property's wording: the paths selected by only/skip — the text file of a selected part, the feature folder of
  a selected feature kind, and the record-data folder unless a kept part needs it -/
def Selected (T : Tables) (a : Args) (p : String) : Prop :=
  (∃ t, (t, p) ∈ T.csvFiles ∧ sel a t = true) ∨
  (∃ t, (t, p) ∈ T.featDirs ∧ sel a t = true ∧ p ≠ T.recordsDir) ∨
  (p = T.recordsDir ∧ needs T a = false)

/-- every path the dataset format owns at top level -/
def datasetPaths (T : Tables) : List String := T.csvFiles.map (·.2) ++ T.featDirs.map (·.2) ++ [T.recordsDir]

/-- facts about the tables that the argument relies on (checked on the GENERATED tables by `decide`) -/
structure WF (T : Tables) : Prop where
  stores_csv : ∀ t ∈ T.storesFiles, t ∈ csvTypes T
  disjoint : ∀ t ∈ csvTypes T, t ∉ featTypes T
  rec_not_csv : ∀ e ∈ T.csvFiles, e.2 ≠ T.recordsDir

/-! ### helper lemmas: the sorted-set functions, membership in the plan, keep-lists vs `sel` -/

theorem mem_insertS {x z : String} {l : List String} : z ∈ insertS x l ↔ z = x ∨ z ∈ l := by
  induction l with
  | nil => simp [insertS]
  | cons y ys ih =>
    simp only [insertS]
    split
    · rename_i h; subst h; simp
    · split
      · simp
      · simp only [List.mem_cons, ih]
        constructor
        · rintro (h | h | h) <;> simp [h]
        · rintro (h | h | h) <;> simp [h]

theorem mem_sortS {z : String} {l : List String} : z ∈ sortS l ↔ z ∈ l := by
  induction l with
  | nil => simp [sortS]
  | cons y ys ih =>
    have : sortS (y :: ys) = insertS y (sortS ys) := rfl
    rw [this, mem_insertS, ih]; simp

theorem string_lt_of_ne_of_not_lt {x y : String} (hne : ¬ x = y) (hlt : ¬ x < y) : y < x := by
  apply Classical.byContradiction
  intro h
  exact hne (String.le_antisymm (String.not_lt.mp h) (String.not_lt.mp hlt))

theorem pairwise_insertS {x : String} {l : List String} (h : l.Pairwise (· < ·)) :
    (insertS x l).Pairwise (· < ·) := by
  induction l with
  | nil => simp [insertS]
  | cons y ys ih =>
    rw [List.pairwise_cons] at h
    simp only [insertS]
    split
    · exact List.pairwise_cons.mpr h
    · rename_i hxy
      split
      · rename_i hlt
        refine List.pairwise_cons.mpr ⟨?_, List.pairwise_cons.mpr h⟩
        intro z hz
        rcases List.mem_cons.mp hz with rfl | hz
        · exact hlt
        · exact String.lt_trans hlt (h.1 z hz)
      · rename_i hlt
        refine List.pairwise_cons.mpr ⟨?_, ih h.2⟩
        intro z hz
        rcases mem_insertS.mp hz with rfl | hz
        · exact string_lt_of_ne_of_not_lt hxy hlt
        · exact h.1 z hz

theorem pairwise_sortS (l : List String) : (sortS l).Pairwise (· < ·) := by
  induction l with
  | nil => simp [sortS]
  | cons y ys ih => exact pairwise_insertS ih

theorem nodup_sortS (l : List String) : (sortS l).Nodup := by
  have h := pairwise_sortS l
  unfold List.Nodup
  exact h.imp (fun {a b} hab heq => by subst heq; exact String.lt_irrefl _ hab)

theorem nodup_existing (T : Tables) (a : Args) (kind : String → Kind) : (existing T a kind).Nodup := by
  unfold existing
  have h := nodup_sortS ((candidates T a).filter (fun p => (kind p).lexists))
  unfold List.Nodup at h ⊢
  exact List.pairwise_reverse.mpr (h.imp (fun {a b} hab => Ne.symm hab))

theorem mem_existing {T : Tables} {a : Args} {kind : String → Kind} {p : String} :
    p ∈ existing T a kind ↔ (p ∈ candidates T a ∧ (kind p).lexists = true) := by
  simp [existing, mem_sortS, List.mem_filter]

theorem nodup_toDelete (T : Tables) (a : Args) (kind : String → Kind) : (toDelete T a kind).Nodup := by
  unfold toDelete
  simp only
  split
  · exact (nodup_existing T a kind).erase _
  · exact nodup_existing T a kind

theorem mem_toDelete {T : Tables} {a : Args} {kind : String → Kind} {p : String} :
    p ∈ toDelete T a kind ↔
      (p ∈ candidates T a ∧ (kind p).lexists = true ∧ ¬ (mustKeep T a = true ∧ p = T.recordsDir)) := by
  unfold toDelete
  simp only
  split
  · rename_i h
    rw [Bool.and_eq_true] at h
    rw [(nodup_existing T a kind).mem_erase_iff, mem_existing]
    constructor
    · rintro ⟨h1, h2, h3⟩; exact ⟨h2, h3, fun hh => h1 hh.2⟩
    · rintro ⟨h2, h3, h1⟩; exact ⟨fun hh => h1 ⟨h.1, hh⟩, h2, h3⟩
  · rename_i h
    rw [Bool.and_eq_true, List.contains_iff_mem, mem_existing] at h
    rw [mem_existing]
    constructor
    · rintro ⟨h1, h2⟩
      refine ⟨h1, h2, ?_⟩
      rintro ⟨h3, rfl⟩
      exact h ⟨h3, h1, h2⟩
    · rintro ⟨h1, h2, _⟩; exact ⟨h1, h2⟩

theorem mem_candidates {T : Tables} {a : Args} {p : String} :
    p ∈ candidates T a ↔
      ((∃ t, (t, p) ∈ T.csvFiles ∧ t ∉ keepCsv T a) ∨ (∃ t, (t, p) ∈ T.featDirs ∧ t ∉ keepFeat T a) ∨
        p = T.recordsDir) := by
  simp [candidates, List.mem_filter]

theorem candidates_sub (T : Tables) (a : Args) (p : String) (h : p ∈ candidates T a) : p ∈ datasetPaths T := by
  rw [mem_candidates] at h
  simp only [datasetPaths, List.mem_append, List.mem_map, List.mem_singleton]
  rcases h with ⟨t, h, _⟩ | ⟨t, h, _⟩ | h
  · exact Or.inl (Or.inl ⟨(t, p), h, rfl⟩)
  · exact Or.inl (Or.inr ⟨(t, p), h, rfl⟩)
  · exact Or.inr h

theorem not_mem_keepCsv {T : Tables} (hT : WF T) (a : Args) {t : String} (ht : t ∈ csvTypes T) :
    t ∉ keepCsv T a ↔ sel a t = true := by
  have hd := hT.disjoint t ht
  unfold keepCsv sel
  by_cases ho : a.only.isEmpty = true
  · by_cases hs : a.skip.isEmpty = true
    · simp [ho, List.isEmpty_iff.mp hs]
    · simp [ho, hs, List.mem_filter, hd]
  · simp [ho, List.mem_filter, ht]

theorem not_mem_keepFeat {T : Tables} (hT : WF T) (a : Args) {t : String} (ht : t ∈ featTypes T) :
    t ∉ keepFeat T a ↔ sel a t = true := by
  have hd : t ∉ csvTypes T := fun h => hT.disjoint t h ht
  unfold keepFeat sel
  by_cases ho : a.only.isEmpty = true
  · by_cases hs : a.skip.isEmpty = true
    · simp [ho, List.isEmpty_iff.mp hs]
    · simp [ho, hs, List.mem_filter, hd]
  · simp [ho, List.mem_filter, ht]

theorem keepFeat_not_csv {T : Tables} (hT : WF T) (a : Args) {t : String} (hk : t ∈ keepFeat T a) :
    t ∉ csvTypes T := by
  unfold keepFeat at hk
  split at hk
  · exact fun hc => hT.disjoint t hc (List.mem_filter.mp hk).1
  · split at hk
    · simpa using (List.mem_filter.mp hk).2
    · simp at hk

theorem mustKeep_eq_needs {T : Tables} (hT : WF T) (a : Args) : mustKeep T a = needs T a := by
  rw [Bool.eq_iff_iff]
  unfold mustKeep needs
  simp only [List.any_eq_true, List.mem_append, List.contains_iff_mem, Bool.not_eq_true', ← Bool.not_eq_true]
  constructor
  · rintro ⟨t, hk, hs⟩
    refine ⟨t, hs, ?_⟩
    have hc := hT.stores_csv t hs
    rcases hk with hk | hk
    · intro h; exact ((not_mem_keepCsv hT a hc).mpr h) hk
    · exact absurd hc (keepFeat_not_csv hT a hk)
  · rintro ⟨t, hs, hsel⟩
    have hc := hT.stores_csv t hs
    refine ⟨t, Or.inl ?_, hs⟩
    apply Classical.byContradiction
    intro h
    exact hsel ((not_mem_keepCsv hT a hc).mp h)

end Kapture.C19
