/-
  Lemmas/C19.lean — specification-side definitions for C19 and helper lemmas.
-/
import Kapture.Model.C19

namespace Kapture.C19

/-- is the part of type `t` selected for deletion by the only/skip arguments? (`only` wins when both are given) -/
def sel (a : Args) (t : String) : Bool :=
  if !a.only.isEmpty then a.only.contains t else !a.skip.contains t

/-- some part that is NOT selected (so it is kept) stores its record values as files under records_data -/
def needs (T : Tables) (a : Args) : Bool := T.storesFiles.any (fun t => !sel a t)

/-- the property's wording: the paths selected by only/skip — the text file of a selected part, the feature folder of
  a selected feature kind, and the record-data folder unless a kept part needs it -/
def Selected (T : Tables) (a : Args) (p : String) : Prop :=
  (∃ t, (t, p) ∈ T.csvFiles ∧ sel a t = true) ∨
  (∃ t, (t, p) ∈ T.featDirs ∧ sel a t = true ∧ p ≠ T.recordsDir) ∨
  (p = T.recordsDir ∧ needs T a = false)

/-- every path the dataset format owns at top level -/
def datasetPaths (T : Tables) : List String := T.csvFiles.map (·.2) ++ T.featDirs.map (·.2) ++ [T.recordsDir]

/-- facts about the tables that the argument relies on (checked on the GENERATED tables by `decide`) -/
structure WF (T : Tables) : Prop where
  stores_csv : ∀ t ∈ T.storesFiles, t ∈ csvTypes T
  disjoint : ∀ t ∈ csvTypes T, t ∉ featTypes T
  rec_not_csv : ∀ e ∈ T.csvFiles, e.2 ≠ T.recordsDir

end Kapture.C19
