/-
  Lemmas/Csv.lean — helper lemmas about the CSV text layer (Base/Csv.lean).
-/
import Kapture.Base.Csv

namespace Kapture.Csv

/-- a string made of whitespace only -/
def AllSpace (s : Str) : Prop := ∀ c ∈ s, isPySpace c = true

/-- blanks that may surround a field on a line: whitespace but no line break -/
def Blank (s : Str) : Prop := AllSpace s ∧ '\n' ∉ s ∧ '\r' ∉ s

/-- a line terminator the reader understands -/
def IsEol (e : Str) : Prop := e = ['\n'] ∨ e = ['\r', '\n'] ∨ e = ['\r']

/-- a physical line: no line break inside -/
def LineOK (l : Str) : Prop := '\n' ∉ l ∧ '\r' ∉ l

/-- lines glued with arbitrary terminators (the last line may lack one) -/
def glue : List Str → List Str → Str
  | [], _ => []
  | [l], [] => l
  | l :: ls, e :: es => l ++ e ++ glue ls es
  | l :: ls, [] => l ++ ['\n'] ++ glue ls []

/-- a field wrapped in blanks, as the specification allows ("spaces around comma are ignored") -/
def decorate : List Str → List Str → List Str → List Str
  | l :: ls, r :: rs, f :: fs => (l ++ f ++ r) :: decorate ls rs fs
  | _, _, _ => []

-- whitespace stripping ------------------------------------------------------------------------------------------

theorem dropWhile_append_all (p : Char → Bool) (l s : Str) (h : ∀ c ∈ l, p c = true) :
    (l ++ s).dropWhile p = s.dropWhile p := by
  induction l with
  | nil => rfl
  | cons x xs ih =>
    have hx : p x = true := h x (by simp)
    simp only [List.cons_append, List.dropWhile_cons, hx, if_true]
    exact ih (fun c hc => h c (by simp [hc]))

theorem dropWhile_all (p : Char → Bool) (l : Str) (h : ∀ c ∈ l, p c = true) : l.dropWhile p = [] :=
  by
  induction l with
  | nil => rfl
  | cons x xs ih =>
    rw [List.dropWhile_cons, if_pos (h x (by simp))]
    exact ih (fun c hc => h c (by simp [hc]))

theorem length_dropWhile_le (p : Char → Bool) (l : Str) : (l.dropWhile p).length ≤ l.length := by
  induction l with
  | nil => simp
  | cons x xs ih =>
    simp only [List.dropWhile_cons]
    split
    · simp only [List.length_cons]; omega
    · simp

theorem dropWhile_cons_false (p : Char → Bool) (x : Char) (xs : Str) (h : p x = false) :
    (x :: xs).dropWhile p = x :: xs := by
  simp [h]

theorem dropWhile_eq_self_head (p : Char → Bool) (x : Char) (xs : Str) (h : (x :: xs).dropWhile p = x :: xs) :
    p x = false := by
  cases hx : p x with
  | false => rfl
  | true =>
    rw [List.dropWhile_cons, if_pos hx] at h
    have h2 := length_dropWhile_le p xs
    rw [h] at h2
    simp only [List.length_cons] at h2
    omega

theorem dropWhile_eq_self_of_length (p : Char → Bool) (l : Str) (h : l.length ≤ (l.dropWhile p).length) :
    l.dropWhile p = l := by
  cases l with
  | nil => rfl
  | cons x xs =>
    cases hx : p x with
    | false => exact dropWhile_cons_false p x xs hx
    | true =>
      rw [List.dropWhile_cons, if_pos hx] at h
      have h2 := length_dropWhile_le p xs
      simp only [List.length_cons] at h
      omega

theorem length_lstrip_le (s : Str) : (lstrip s).length ≤ s.length := length_dropWhile_le _ _

theorem length_rstrip_le (s : Str) : (rstrip s).length ≤ s.length := by
  unfold rstrip
  have := length_dropWhile_le isPySpace s.reverse
  simpa using this

theorem lstrip_of_strip_eq (f : Str) (h : strip f = f) : lstrip f = f := by
  apply dropWhile_eq_self_of_length
  have h1 := length_rstrip_le (lstrip f)
  unfold strip at h
  rw [h] at h1
  exact h1

theorem rstrip_of_strip_eq (f : Str) (h : strip f = f) : rstrip f = f := by
  have h1 := lstrip_of_strip_eq f h
  unfold strip at h
  rw [h1] at h
  exact h

theorem rstrip_nil : rstrip [] = [] := rfl

theorem lstrip_append_all (l s : Str) (h : AllSpace l) : lstrip (l ++ s) = lstrip s :=
  dropWhile_append_all _ _ _ h

theorem rstrip_append_all (s r : Str) (h : AllSpace r) : rstrip (s ++ r) = rstrip s := by
  unfold rstrip
  rw [List.reverse_append, dropWhile_append_all]
  intro c hc
  exact h c (List.mem_reverse.1 hc)

theorem lstrip_all (l : Str) (h : AllSpace l) : lstrip l = [] := dropWhile_all _ _ h

theorem strip_all (l : Str) (h : AllSpace l) : strip l = [] := by
  unfold strip; rw [lstrip_all l h]; rfl

theorem allSpace_append {l r : Str} (hl : AllSpace l) (hr : AllSpace r) : AllSpace (l ++ r) := by
  intro c hc
  rcases List.mem_append.1 hc with h | h
  · exact hl c h
  · exact hr c h

theorem allSpace_nil : AllSpace [] := by intro c hc; cases hc

theorem strip_decorated (l f r : Str) (hl : AllSpace l) (hr : AllSpace r) (hf : strip f = f) :
    strip (l ++ f ++ r) = f := by
  cases f with
  | nil =>
    rw [List.append_nil]
    exact strip_all _ (allSpace_append hl hr)
  | cons x xs =>
    have h1 := lstrip_of_strip_eq _ hf
    have h2 := rstrip_of_strip_eq _ hf
    have hx : isPySpace x = false := dropWhile_eq_self_head _ _ _ h1
    unfold strip
    rw [List.append_assoc, lstrip_append_all _ _ hl]
    have : lstrip (x :: xs ++ r) = x :: xs ++ r := dropWhile_cons_false _ _ _ hx
    rw [this, rstrip_append_all _ _ hr, h2]

-- split / join ----------------------------------------------------------------------------------------------------

theorem splitOnChar_ne_nil (c : Char) (s : Str) : splitOnChar c s ≠ [] := by
  cases s with
  | nil => simp [splitOnChar]
  | cons x xs =>
    unfold splitOnChar
    split
    · simp
    · split <;> simp

theorem splitOnChar_append_sep (c : Char) (p rest : Str) (h : c ∉ p) :
    splitOnChar c (p ++ c :: rest) = p :: splitOnChar c rest := by
  induction p with
  | nil => simp [splitOnChar]
  | cons x xs ih =>
    have hx : x ≠ c := fun e => h (by simp [e])
    have h2 := ih (fun hc => h (by simp [hc]))
    simp only [List.cons_append, splitOnChar, if_neg hx, h2]

theorem splitOnChar_none (c : Char) (p : Str) (h : c ∉ p) : splitOnChar c p = [p] := by
  induction p with
  | nil => rfl
  | cons x xs ih =>
    have hx : x ≠ c := fun e => h (by simp [e])
    have h2 := ih (fun hc => h (by simp [hc]))
    simp only [splitOnChar, if_neg hx, h2]

theorem splitOnChar_joinWith (c : Char) (ps : List Str) (hne : ps ≠ []) (h : ∀ p ∈ ps, c ∉ p) :
    splitOnChar c (joinWith [c] ps) = ps := by
  induction ps with
  | nil => contradiction
  | cons p rest ih =>
    cases rest with
    | nil => exact splitOnChar_none c p (h p (by simp))
    | cons q rest' =>
      simp only [joinWith]
      rw [List.append_assoc, List.singleton_append, splitOnChar_append_sep c p _ (h p (by simp)),
        ih (by simp) (fun p' hp' => h p' (by simp [hp']))]

/-- what ", ".join produces, seen as a ","-join: every piece but the first gets a leading space -/
def spaceTail : List Str → List Str
  | [] => []
  | p :: rest => p :: rest.map (' ' :: ·)

theorem joinWith_cons_head (sep : Str) (x : Char) (q : Str) (t : List Str) :
    joinWith sep ((x :: q) :: t) = x :: joinWith sep (q :: t) := by
  cases t <;> simp [joinWith]

theorem joinWith_commaSpace (ps : List Str) : joinWith commaSpace ps = joinWith [','] (spaceTail ps) := by
  induction ps with
  | nil => rfl
  | cons p rest ih =>
    cases rest with
    | nil => rfl
    | cons q rest' =>
      simp only [spaceTail, List.map_cons] at ih ⊢
      simp only [joinWith]
      rw [ih, joinWith_cons_head]
      simp [commaSpace]

-- decorated / padded fields --------------------------------------------------------------------------------------

/-- pointwise relation between the pieces of a line and the fields -/
inductive All₂ (R : Str → Str → Prop) : List Str → List Str → Prop
  | nil : All₂ R [] []
  | cons {p f : Str} {ps fs : List Str} : R p f → All₂ R ps fs → All₂ R (p :: ps) (f :: fs)

/-- `p` is the field `f` wrapped in whitespace -/
def Dec (p f : Str) : Prop := ∃ l r, AllSpace l ∧ AllSpace r ∧ p = l ++ f ++ r

/-- `p` is the field `f` right-justified: some spaces in front -/
def Pad (p f : Str) : Prop := ∃ k, p = List.replicate k ' ' ++ f

theorem allSpace_replicate (k : Nat) : AllSpace (List.replicate k ' ') := by
  intro c hc
  rw [List.eq_of_mem_replicate hc]
  decide

theorem Pad.dec {p f : Str} (h : Pad p f) : Dec p f := by
  obtain ⟨k, rfl⟩ := h
  exact ⟨_, [], allSpace_replicate k, allSpace_nil, by simp⟩

theorem Dec.not_mem {p f : Str} (c : Char) (hc : isPySpace c = false) (h : Dec p f) (hm : c ∈ p) : c ∈ f := by
  obtain ⟨l, r, hl, hr, rfl⟩ := h
  simp only [List.mem_append] at hm
  rcases hm with (hm | hm) | hm
  · have := hl c hm; rw [hc] at this; cases this
  · exact hm
  · have := hr c hm; rw [hc] at this; cases this

theorem Pad.not_mem {p f : Str} (c : Char) (hc : c ≠ ' ') (h : Pad p f) (hm : c ∈ p) : c ∈ f := by
  obtain ⟨k, rfl⟩ := h
  rcases List.mem_append.1 hm with hm | hm
  · exact absurd (List.eq_of_mem_replicate hm) hc
  · exact hm

theorem forall₂_not_mem {R : Str → Str → Prop} (c : Char) (hR : ∀ p f, R p f → c ∈ p → c ∈ f)
    {ps fields : List Str} (h : All₂ R ps fields) (hf : ∀ f ∈ fields, c ∉ f) : ∀ p ∈ ps, c ∉ p := by
  induction h with
  | nil => intro p hp; cases hp
  | cons hpf _ ih =>
    intro p hp
    rcases List.mem_cons.1 hp with rfl | hp
    · exact fun hm => hf _ (by simp) (hR _ _ hpf hm)
    · exact ih (fun f hf' => hf f (by simp [hf'])) p hp

theorem map_strip_of_dec {ps fields : List Str} (h : All₂ Dec ps fields) (hf : ∀ f ∈ fields, strip f = f) :
    ps.map strip = fields := by
  induction h with
  | nil => rfl
  | cons hpf _ ih =>
    obtain ⟨l, r, hl, hr, rfl⟩ := hpf
    rw [List.map_cons, strip_decorated l _ r hl hr (hf _ (by simp)), ih (fun f hf' => hf f (by simp [hf']))]

theorem forall₂_ne_nil {R : Str → Str → Prop} {ps fields : List Str} (h : All₂ R ps fields)
    (hne : fields ≠ []) : ps ≠ [] := by
  cases h with
  | nil => contradiction
  | cons _ _ => simp

theorem parseLine_joinWith_comma (ps : List Str) (hne : ps ≠ []) (h : ∀ p ∈ ps, ',' ∉ p) :
    parseLine (joinWith [','] ps) = ps.map strip := by
  unfold parseLine
  rw [splitOnChar_joinWith ',' ps hne h]

theorem parseLine_of_dec {ps fields : List Str} (hd : All₂ Dec ps fields) (hne : fields ≠ [])
    (h : ∀ f ∈ fields, FieldOK f) : parseLine (joinWith [','] ps) = fields := by
  rw [parseLine_joinWith_comma ps (forall₂_ne_nil hd hne)
    (forall₂_not_mem ',' (fun _ _ => Dec.not_mem ',' (by decide)) hd (fun f hf => (h f hf).1))]
  exact map_strip_of_dec hd (fun f hf => (h f hf).2.2.2)

theorem forall₂_dec_decorate (ls rs fields : List Str) (hl : ls.length = fields.length)
    (hr : rs.length = fields.length) (hbl : ∀ l ∈ ls, AllSpace l) (hbr : ∀ r ∈ rs, AllSpace r) :
    All₂ Dec (decorate ls rs fields) fields := by
  induction fields generalizing ls rs with
  | nil =>
    cases ls <;> cases rs <;> exact All₂.nil
  | cons f fs ih =>
    cases ls with
    | nil => simp at hl
    | cons l ls =>
      cases rs with
      | nil => simp at hr
      | cons r rs =>
        simp only [decorate]
        refine All₂.cons ⟨l, r, hbl l (by simp), hbr r (by simp), rfl⟩ (ih ls rs ?_ ?_ ?_ ?_)
        · simpa using hl
        · simpa using hr
        · exact fun l' h' => hbl l' (by simp [h'])
        · exact fun r' h' => hbr r' (by simp [h'])

-- right-justified rows

theorem forall₂_dec_spaceTail {ps fields : List Str} (h : All₂ Dec ps fields) :
    All₂ Dec (spaceTail ps) fields := by
  cases h with
  | nil => exact All₂.nil
  | cons hpf ht =>
    simp only [spaceTail]
    refine All₂.cons hpf ?_
    clear hpf
    induction ht with
    | nil => exact All₂.nil
    | cons hqf _ ih =>
      obtain ⟨l, r, hl, hr, rfl⟩ := hqf
      refine All₂.cons ⟨' ' :: l, r, ?_, hr, by simp⟩ ih
      intro c hc
      rcases List.mem_cons.1 hc with rfl | hc
      · decide
      · exact hl c hc

theorem forall₂_pad_self (fields : List Str) : All₂ Pad fields fields := by
  induction fields with
  | nil => exact All₂.nil
  | cons f fs ih => exact All₂.cons ⟨0, rfl⟩ ih

theorem forall₂_pad_zipIdx (pad : List Nat) (fields : List Str) (n : Nat) :
    All₂ Pad ((fields.zipIdx n).map (fun fi => match pad[fi.2]? with
      | some n => rjust n fi.1
      | none => fi.1)) fields := by
  induction fields generalizing n with
  | nil => exact All₂.nil
  | cons f fs ih =>
    simp only [List.zipIdx_cons, List.map_cons]
    refine All₂.cons ?_ (ih (n + 1))
    split
    · exact ⟨_, rfl⟩
    · exact ⟨0, rfl⟩

theorem forall₂_pad_render (pad : Option (List Nat)) (fields : List Str) :
    All₂ Pad (match pad with
      | some p => applyPadding p fields
      | none => fields) fields := by
  cases pad with
  | none => exact forall₂_pad_self fields
  | some p => exact forall₂_pad_zipIdx p fields 0

theorem forall₂_imp {R S : Str → Str → Prop} (hRS : ∀ p f, R p f → S p f) {ps fields : List Str}
    (h : All₂ R ps fields) : All₂ S ps fields := by
  induction h with
  | nil => exact All₂.nil
  | cons hpf _ ih => exact All₂.cons (hRS _ _ hpf) ih

theorem parseLine_of_pad {ps fields : List Str} (hd : All₂ Pad ps fields) (hne : fields ≠ [])
    (h : ∀ f ∈ fields, FieldOK f) : parseLine (joinWith commaSpace ps) = fields := by
  rw [joinWith_commaSpace]
  exact parseLine_of_dec (forall₂_dec_spaceTail (forall₂_imp (fun _ _ => Pad.dec) hd)) hne h

-- lines ----------------------------------------------------------------------------------------------------------

theorem splitLines_cons_other (c : Char) (rest : Str) (h1 : c ≠ '\n') (h2 : c ≠ '\r') :
    splitLines (c :: rest) = match splitLines rest with
      | h :: t => (c :: h) :: t
      | [] => [[c]] :=
  splitLines.eq_5 c rest (fun _ h _ => h2 h) h2 h1

theorem splitLines_append_line (l rest h : Str) (t : List Str) (hl : LineOK l) (hs : splitLines rest = h :: t) :
    splitLines (l ++ rest) = (l ++ h) :: t := by
  induction l with
  | nil => exact hs
  | cons x xs ih =>
    have h1 : x ≠ '\n' := fun e => hl.1 (by simp [e])
    have h2 : x ≠ '\r' := fun e => hl.2 (by simp [e])
    have h3 := ih ⟨fun hm => hl.1 (by simp [hm]), fun hm => hl.2 (by simp [hm])⟩
    rw [List.cons_append, splitLines_cons_other x _ h1 h2, h3]
    rfl

theorem splitLines_line (l : Str) (hl : LineOK l) : splitLines l = [l] := by
  have := splitLines_append_line l [] [] [] hl rfl
  simpa using this

theorem keepLine_nil : keepLine [] = false := by decide

theorem filter_keepLine_nil_cons (t : List Str) : ([] :: t).filter keepLine = t.filter keepLine := by
  rw [List.filter_cons, keepLine_nil]; rfl

theorem splitLines_eol (e rest : Str) (he : IsEol e) :
    ∃ t, splitLines (e ++ rest) = [] :: t ∧ t.filter keepLine = (splitLines rest).filter keepLine := by
  rcases he with rfl | rfl | rfl
  · exact ⟨_, splitLines.eq_4 rest, rfl⟩
  · exact ⟨_, splitLines.eq_2 rest, rfl⟩
  · cases rest with
    | nil => exact ⟨_, splitLines.eq_3 [] (fun _ h => by cases h), rfl⟩
    | cons c rest' =>
      by_cases hc : c = '\n'
      · subst hc
        refine ⟨_, splitLines.eq_2 rest', ?_⟩
        rw [splitLines.eq_4, filter_keepLine_nil_cons]
      · exact ⟨_, splitLines.eq_3 (c :: rest') (fun _ h => by injection h with h _; exact hc h), rfl⟩

theorem filter_splitLines_line (l e rest : Str) (hl : LineOK l) (he : IsEol e) :
    (splitLines (l ++ (e ++ rest))).filter keepLine = (l :: splitLines rest).filter keepLine := by
  obtain ⟨t, h1, h2⟩ := splitLines_eol e rest he
  rw [splitLines_append_line l _ [] t hl h1, List.append_nil, List.filter_cons, List.filter_cons, h2]

theorem filter_splitLines_glue (lines eols : List Str) (hl : ∀ l ∈ lines, LineOK l) (he : ∀ e ∈ eols, IsEol e) :
    (splitLines (glue lines eols)).filter keepLine = lines.filter keepLine := by
  induction lines generalizing eols with
  | nil => cases eols <;> exact filter_keepLine_nil_cons []
  | cons l ls ih =>
    have hl1 : LineOK l := hl l (by simp)
    have hl2 : ∀ l' ∈ ls, LineOK l' := fun l' h' => hl l' (by simp [h'])
    cases eols with
    | nil =>
      cases ls with
      | nil =>
        simp only [glue]
        rw [splitLines_line l hl1]
      | cons l' ls' =>
        simp only [glue]
        rw [List.append_assoc, filter_splitLines_line l _ _ hl1 (Or.inl rfl), List.filter_cons, ih [] hl2 he,
          ← List.filter_cons]
    | cons e es =>
      have he1 : IsEol e := he e (by simp)
      have he2 : ∀ e' ∈ es, IsEol e' := fun e' h' => he e' (by simp [h'])
      simp only [glue]
      rw [List.append_assoc, filter_splitLines_line l _ _ hl1 he1, List.filter_cons, ih es hl2 he2,
        ← List.filter_cons]

-- written rows and files -----------------------------------------------------------------------------------------

theorem all_of_dropWhile_nil (p : Char → Bool) (s : Str) (h : s.dropWhile p = []) : ∀ x ∈ s, p x = true := by
  induction s with
  | nil => intro x hx; cases hx
  | cons y ys ih =>
    cases hy : p y with
    | false => rw [dropWhile_cons_false p y ys hy] at h; cases h
    | true =>
      rw [List.dropWhile_cons, if_pos hy] at h
      intro x hx
      rcases List.mem_cons.1 hx with rfl | hx
      · exact hy
      · exact ih h x hx

theorem all_of_dropWhile_all (p : Char → Bool) (s : Str) (h : ∀ x ∈ s.dropWhile p, p x = true) :
    ∀ x ∈ s, p x = true := by
  induction s with
  | nil => intro x hx; cases hx
  | cons y ys ih =>
    cases hy : p y with
    | false => rw [dropWhile_cons_false p y ys hy] at h; exact h
    | true =>
      rw [List.dropWhile_cons, if_pos hy] at h
      intro x hx
      rcases List.mem_cons.1 hx with rfl | hx
      · exact hy
      · exact ih h x hx

theorem allSpace_of_strip_nil (s : Str) (h : strip s = []) : AllSpace s := by
  unfold strip rstrip at h
  have h1 := all_of_dropWhile_nil _ _ (List.reverse_eq_nil_iff.1 h)
  apply all_of_dropWhile_all isPySpace s
  intro x hx
  exact h1 x (List.mem_reverse.2 hx)

theorem strip_ne_nil_of_mem (s : Str) (c : Char) (hc : c ∈ s) (hs : isPySpace c = false) : strip s ≠ [] := by
  intro h
  have := allSpace_of_strip_nil s h c hc
  rw [hs] at this
  cases this

theorem keepLine_of_hash (l : Str) (h : l.head? = some '#') : keepLine l = false := by
  unfold keepLine
  rw [h]
  simp

theorem keepLine_true (l : Str) (c : Char) (hc : c ∈ l) (hs : isPySpace c = false) (hh : l.head? ≠ some '#') :
    keepLine l = true := by
  unfold keepLine
  have h1 := strip_ne_nil_of_mem l c hc hs
  simp [h1, hh]

theorem mem_joinWith (sep : Str) (ps : List Str) (c : Char) (h : c ∈ joinWith sep ps) :
    c ∈ sep ∨ ∃ p ∈ ps, c ∈ p := by
  induction ps with
  | nil => cases h
  | cons p rest ih =>
    cases rest with
    | nil => exact Or.inr ⟨p, by simp, h⟩
    | cons q rest' =>
      simp only [joinWith, List.mem_append] at h
      rcases h with (h | h) | h
      · exact Or.inr ⟨p, by simp, h⟩
      · exact Or.inl h
      · rcases ih h with h | ⟨p', hp', h⟩
        · exact Or.inl h
        · exact Or.inr ⟨p', by simp [hp'], h⟩

theorem mem_joinWith_head (sep p : Str) (rest : List Str) (c : Char) (h : c ∈ p) : c ∈ joinWith sep (p :: rest) := by
  cases rest with
  | nil => exact h
  | cons q rest' => simp [joinWith, h]

theorem head?_joinWith (sep p : Str) (rest : List Str) (h : p ≠ []) :
    (joinWith sep (p :: rest)).head? = p.head? := by
  cases p with
  | nil => contradiction
  | cons x xs => cases rest <;> simp [joinWith]

/-- the facts about one written line -/
theorem joinWith_pad_line (ps : List Str) (f : Str) (rest : List Str) (hp : All₂ Pad ps (f :: rest))
    (hf : ∀ f' ∈ f :: rest, FieldOK f') (hne : f ≠ []) (hh : f.head? ≠ some '#') :
    LineOK (joinWith commaSpace ps) ∧ keepLine (joinWith commaSpace ps) = true := by
  have hnl := forall₂_not_mem '\n' (fun _ _ => Pad.not_mem '\n' (by decide)) hp (fun f' h' => (hf f' h').2.1)
  have hcr := forall₂_not_mem '\r' (fun _ _ => Pad.not_mem '\r' (by decide)) hp (fun f' h' => (hf f' h').2.2.1)
  refine ⟨⟨?_, ?_⟩, ?_⟩
  · intro hm
    rcases mem_joinWith _ _ _ hm with h | ⟨p, hp', h⟩
    · revert h; decide
    · exact hnl p hp' h
  · intro hm
    rcases mem_joinWith _ _ _ hm with h | ⟨p, hp', h⟩
    · revert h; decide
    · exact hcr p hp' h
  · cases hp with
    | cons hpf _ =>
      obtain ⟨k, rfl⟩ := hpf
      cases f with
      | nil => contradiction
      | cons x xs =>
        have hx : isPySpace x = false :=
          dropWhile_eq_self_head _ _ _ (lstrip_of_strip_eq _ (hf (x :: xs) (by simp)).2.2.2)
        apply keepLine_true _ x (mem_joinWith_head _ _ _ _ (by simp)) hx
        rw [head?_joinWith _ _ _ (by simp)]
        cases k with
        | zero => simpa using hh
        | succ k => simp [List.replicate_succ]

theorem renderRow_line (pad : Option (List Nat)) (r : List Str) (hr : RowOK r) :
    LineOK (renderRow pad r) ∧ keepLine (renderRow pad r) = true := by
  obtain ⟨hf, f, rest, rfl, hne, hh⟩ := hr
  exact joinWith_pad_line _ f rest (forall₂_pad_render pad (f :: rest)) hf hne hh

theorem parseLine_renderRow' (pad : Option (List Nat)) (fields : List Str) (hne : fields ≠ [])
    (h : ∀ f ∈ fields, FieldOK f) : parseLine (renderRow pad fields) = fields :=
  parseLine_of_pad (forall₂_pad_render pad fields) hne h

theorem filter_splitLines_rows (pad : Option (List Nat)) (rows : List (List Str)) (hr : ∀ r ∈ rows, RowOK r) :
    (splitLines ((rows.map (fun r => renderRow pad r ++ nl)).flatten)).filter keepLine
      = rows.map (renderRow pad) := by
  induction rows with
  | nil => exact filter_keepLine_nil_cons []
  | cons r rs ih =>
    obtain ⟨h1, h2⟩ := renderRow_line pad r (hr r (by simp))
    rw [List.map_cons, List.flatten_cons, List.append_assoc, filter_splitLines_line _ nl _ h1 (Or.inl rfl),
      List.filter_cons, if_pos h2, ih (fun r' h' => hr r' (by simp [h'])), List.map_cons]

theorem map_parseLine_rows (pad : Option (List Nat)) (rows : List (List Str)) (hr : ∀ r ∈ rows, RowOK r) :
    (rows.map (renderRow pad)).map parseLine = rows := by
  induction rows with
  | nil => rfl
  | cons r rs ih =>
    have hr1 := hr r (by simp)
    have hne : r ≠ [] := by
      obtain ⟨_, f, rest, rfl, _⟩ := hr1
      simp
    rw [List.map_cons, List.map_cons, parseLine_renderRow' pad r hne hr1.1, ih (fun r' h' => hr r' (by simp [h']))]

theorem parseFile_renderFile' (formatLine header : Str) (pad : Option (List Nat)) (rows : List (List Str))
    (hf : formatLine.head? = some '#' ∧ '\n' ∉ formatLine ∧ '\r' ∉ formatLine)
    (hh : header.head? = some '#' ∧ '\n' ∉ header ∧ '\r' ∉ header)
    (hr : ∀ r ∈ rows, RowOK r) :
    parseFile (renderFile formatLine header pad rows) = rows := by
  unfold parseFile renderFile
  simp only [List.append_assoc]
  rw [filter_splitLines_line _ nl _ hf.2 (Or.inl rfl), List.filter_cons, keepLine_of_hash _ hf.1,
    filter_splitLines_line _ nl _ hh.2 (Or.inl rfl), List.filter_cons, keepLine_of_hash _ hh.1,
    filter_splitLines_rows pad rows hr]
  exact map_parseLine_rows pad rows hr

-- integers -------------------------------------------------------------------------------------------------------

/-- the step function of `readNat` -/
def readStep (acc : Option Nat) (c : Char) : Option Nat :=
  acc.bind (fun a => (digitVal c).map (fun d => 10 * a + d))

theorem readNat_eq (s : Str) : readNat s = if s.isEmpty then none else s.foldl readStep (some 0) := rfl

theorem digitVal_digitChar : ∀ d, d < 10 → digitVal (digitChar d) = some d := by decide

theorem readStep_digit (a d : Nat) (hd : d < 10) : readStep (some a) (digitChar d) = some (10 * a + d) := by
  simp [readStep, digitVal_digitChar d hd]

theorem foldl_readStep_zeros (k : Nat) : (List.replicate k '0').foldl readStep (some 0) = some 0 := by
  induction k with
  | zero => rfl
  | succ k ih =>
    rw [List.replicate_succ, List.foldl_cons]
    have : readStep (some 0) '0' = some 0 := by decide
    rw [this, ih]

theorem foldl_readStep_digits (k fuel n : Nat) (h : n < fuel) :
    (List.replicate k '0' ++ natDigits fuel n).foldl readStep (some 0) = some n := by
  induction fuel generalizing n with
  | zero => omega
  | succ fuel ih =>
    unfold natDigits
    split
    · rename_i hn
      rw [List.foldl_append, foldl_readStep_zeros, List.foldl_cons, List.foldl_nil, readStep_digit 0 n hn]
      simp
    · rename_i hn
      rw [← List.append_assoc, List.foldl_append, ih (n / 10) (by omega), List.foldl_cons, List.foldl_nil,
        readStep_digit _ _ (by omega)]
      congr 1
      omega

theorem natDigits_ne_nil (fuel n : Nat) : natDigits (fuel + 1) n ≠ [] := by
  unfold natDigits
  split <;> simp

theorem readNat_zeros_digits (k fuel n : Nat) (h : n < fuel + 1) :
    readNat (List.replicate k '0' ++ natDigits (fuel + 1) n) = some n := by
  rw [readNat_eq, foldl_readStep_digits k _ n h]
  have := natDigits_ne_nil fuel n
  simp [this]

theorem readNat_natDigits (n : Nat) : readNat (natDigits (n + 1) n) = some n := by
  have := readNat_zeros_digits 0 n n (by omega)
  simpa using this

/-- the characters `showInt` can produce -/
def IsIntChar (c : Char) : Prop := c = '-' ∨ ∃ d, d < 10 ∧ c = digitChar d

theorem natDigits_chars (fuel n : Nat) : ∀ c ∈ natDigits fuel n, ∃ d, d < 10 ∧ c = digitChar d := by
  induction fuel generalizing n with
  | zero => intro c hc; cases hc
  | succ fuel ih =>
    unfold natDigits
    split
    · rename_i hn
      intro c hc
      exact ⟨n, hn, by simpa using hc⟩
    · intro c hc
      rcases List.mem_append.1 hc with hc | hc
      · exact ih _ c hc
      · exact ⟨n % 10, by omega, by simpa using hc⟩

theorem digitChar_facts : ∀ d, d < 10 → digitChar d ≠ '-' ∧ digitChar d ≠ '+' ∧ digitChar d ≠ ',' ∧
    digitChar d ≠ '\n' ∧ digitChar d ≠ '\r' ∧ digitChar d ≠ '#' ∧ isPySpace (digitChar d) = false := by decide

theorem IsIntChar.facts {c : Char} (h : IsIntChar c) :
    c ≠ ',' ∧ c ≠ '\n' ∧ c ≠ '\r' ∧ c ≠ '#' ∧ isPySpace c = false := by
  rcases h with rfl | ⟨d, hd, rfl⟩
  · decide
  · have := digitChar_facts d hd
    exact ⟨this.2.2.1, this.2.2.2.1, this.2.2.2.2.1, this.2.2.2.2.2.1, this.2.2.2.2.2.2⟩

theorem showInt_chars (i : Int) : ∀ c ∈ showInt i, IsIntChar c := by
  unfold showInt
  split
  · intro c hc
    rcases List.mem_cons.1 hc with rfl | hc
    · exact Or.inl rfl
    · exact Or.inr (natDigits_chars _ _ c hc)
  · intro c hc
    exact Or.inr (natDigits_chars _ _ c hc)

theorem readInt_of_head (c : Char) (t : Str) (h1 : c ≠ '-') (h2 : c ≠ '+') :
    readInt (c :: t) = (readNat (c :: t)).map (fun n => (n : Int)) := by
  unfold readInt
  split
  · rename_i h; injection h with h _; exact absurd h h1
  · rename_i h; injection h with h _; exact absurd h h2
  · rfl

theorem readInt_natDigits (n : Nat) : readInt (natDigits (n + 1) n) = some (n : Int) := by
  have h := readNat_natDigits n
  have hc := natDigits_chars (n + 1) n
  cases hs : natDigits (n + 1) n with
  | nil => exact absurd hs (natDigits_ne_nil n n)
  | cons c t =>
    rw [hs] at h hc
    obtain ⟨d, hd, rfl⟩ := hc c (by simp)
    have hf := digitChar_facts d hd
    rw [readInt_of_head _ _ hf.1 hf.2.1, h]
    rfl

theorem readInt_showInt' (i : Int) : readInt (showInt i) = some i := by
  unfold showInt
  split
  · rename_i hi
    show (readNat (natDigits (i.natAbs + 1) i.natAbs)).map (fun n => -(n : Int)) = some i
    rw [readNat_natDigits]
    show some (-((i.natAbs : Nat) : Int)) = some i
    congr 1
    omega
  · rename_i hi
    rw [readInt_natDigits]
    congr 1
    omega

theorem dropWhile_none (p : Char → Bool) (s : Str) (h : ∀ c ∈ s, p c = false) : s.dropWhile p = s := by
  cases s with
  | nil => rfl
  | cons x xs => exact dropWhile_cons_false p x xs (h x (by simp))

theorem strip_none (s : Str) (h : ∀ c ∈ s, isPySpace c = false) : strip s = s := by
  unfold strip lstrip rstrip
  rw [dropWhile_none _ s h, dropWhile_none _ _ (fun c hc => h c (List.mem_reverse.1 hc)), List.reverse_reverse]

theorem showInt_ne_nil (i : Int) : showInt i ≠ [] := by
  unfold showInt
  split
  · simp
  · exact natDigits_ne_nil _ _

theorem showInt_fieldOK' (i : Int) : FieldOK (showInt i) ∧ showInt i ≠ [] ∧ (showInt i).head? ≠ some '#' := by
  have hc := showInt_chars i
  refine ⟨⟨?_, ?_, ?_, ?_⟩, showInt_ne_nil i, ?_⟩
  · exact fun hm => (hc _ hm).facts.1 rfl
  · exact fun hm => (hc _ hm).facts.2.1 rfl
  · exact fun hm => (hc _ hm).facts.2.2.1 rfl
  · exact strip_none _ (fun c h => (hc c h).facts.2.2.2.2)
  · intro hh
    exact (hc _ (List.mem_of_mem_head? hh)).facts.2.2.2.1 rfl

end Kapture.Csv
