/-
  Lemmas/C17.lean — helper lemmas for C17.
-/
import Kapture.Model.C17

namespace Kapture.C17

/-- a server that always reports the true size and serves the true content, honouring ranges -/
def honest (content : Bytes) : Server := fun _ r =>
  match r with
  | Req.probe => { fail := false, size := SizeAns.total content.length, body := [], abort := false }
  | Req.get none => { fail := false, size := SizeAns.absent, body := content, abort := false }
  | Req.get (some p) => { fail := false, size := SizeAns.absent, body := content.drop p, abort := false }

end Kapture.C17
