/-
  Lemmas/C17.lean — helper lemmas for C17.
  Frame lemmas (which fields each routine can touch), the specification of prob_status, the invariant `Justified`
  carried through the download loop, and `install_spec`, the three-way case analysis of install from which every
  property theorem follows.
-/
import Kapture.Model.C17

namespace Kapture.C17

/-- a server that always reports the true size and serves the true content, honouring ranges -/
def honest (content : Bytes) : Server := fun _ r =>
  match r with
  | Req.probe => { fail := false, size := SizeAns.total content.length, body := [], abort := false }
  | Req.get none => { fail := false, size := SizeAns.absent, body := content, abort := false }
  | Req.get (some p) => { fail := false, size := SizeAns.absent, body := content.drop p, abort := false }

/-- `w'` has the same local files/marks as `w` (only the request counter and log may differ) -/
def SameDisk (w w' : World) : Prop :=
  w'.archive = w.archive ∧ w'.installed = w.installed ∧ w'.extracted = w.extracted

/-- `w'` has the same installed mark and extraction history as `w` (the archive may differ) -/
def SameMarks (w w' : World) : Prop :=
  w'.installed = w.installed ∧ w'.extracted = w.extracted

theorem SameDisk.refl (w : World) : SameDisk w w := ⟨rfl, rfl, rfl⟩
theorem SameMarks.refl (w : World) : SameMarks w w := ⟨rfl, rfl⟩
theorem SameDisk.marks {w w' : World} (h : SameDisk w w') : SameMarks w w' := ⟨h.2.1, h.2.2⟩
theorem SameMarks.trans {a b c : World} (h1 : SameMarks a b) (h2 : SameMarks b c) : SameMarks a c :=
  ⟨h2.1.trans h1.1, h2.2.trans h1.2⟩
theorem SameDisk.trans {a b c : World} (h1 : SameDisk a b) (h2 : SameDisk b c) : SameDisk a c :=
  ⟨h2.1.trans h1.1, h2.2.1.trans h1.2.1, h2.2.2.trans h1.2.2⟩

theorem request_frame (srv : Server) (w : World) (r : Req) : SameDisk w (request srv w r).1 :=
  ⟨rfl, rfl, rfl⟩

theorem remoteSize_eq (srv : Server) (w : World) :
    ∃ r, remoteSize srv w = ((request srv w Req.probe).1, r) := by
  unfold remoteSize
  generalize request srv w Req.probe = p
  rcases p with ⟨w', resp⟩
  dsimp only
  split
  · exact ⟨_, rfl⟩
  · split <;> exact ⟨_, rfl⟩

theorem remoteSize_fst (srv : Server) (w : World) : (remoteSize srv w).1 = (request srv w Req.probe).1 := by
  obtain ⟨r, h⟩ := remoteSize_eq srv w
  rw [h]

theorem remoteSize_frame (srv : Server) (w : World) : SameDisk w (remoteSize srv w).1 := by
  rw [remoteSize_fst]; exact request_frame srv w _

theorem probStatus_frame (srv : Server) (good : Bytes → Bool) (w : World) :
    SameDisk w (probStatus srv good w).1 := by
  have h := remoteSize_frame srv w
  unfold probStatus
  split
  · exact SameDisk.refl w
  · split
    · exact SameDisk.refl w
    · split
      · simp_all
      · simp_all
      · simp_all
        split
        · assumption
        · split
          · assumption
          · split <;> assumption

theorem downloadResume_frame (srv : Server) (w : World) (pos : Option Nat) :
    SameMarks w (downloadResume srv w pos).1 := by
  have h := remoteSize_frame srv w
  unfold downloadResume
  split
  · simp_all [SameDisk, SameMarks]
  · rename_i w1 _ heq
    rw [heq] at h
    dsimp only
    have key : ∀ r, SameMarks w (request srv w1 r).1 := fun r => (h.trans (request_frame srv w1 r)).marks
    repeat' split
    all_goals first | exact key _ | (simp only [SameMarks] at key ⊢; exact key _)

theorem downloadFile_frame (srv : Server) (w : World) : SameMarks w (downloadFile srv w).1 := by
  have h := remoteSize_frame srv w
  unfold downloadFile
  split
  · split
    · rename_i heq; rw [heq] at h; exact h.marks
    · rename_i heq; rw [heq] at h; exact h.marks
    · rename_i w1 n heq; rw [heq] at h
      split
      · exact h.marks
      · split
        · exact h.marks
        · exact h.marks.trans (downloadResume_frame srv w1 _)
  · exact downloadResume_frame srv w none

theorem downloadLoop_frame (srv : Server) (good : Bytes → Bool) (n : Nat) :
    ∀ (w : World) (st : Status), SameMarks w (downloadLoop srv good n w st).1 := by
  induction n with
  | zero => intro w st; exact SameMarks.refl w
  | succ n ih =>
    intro w st
    unfold downloadLoop
    split
    · exact SameMarks.refl w
    · dsimp only
      have h0 : SameMarks w (if st = Status.corrupted then { w with archive := none } else w) := by
        split <;> exact ⟨rfl, rfl⟩
      generalize (if st = Status.corrupted then { w with archive := none } else w) = w0 at h0 ⊢
      have h1 := downloadFile_frame srv w0
      split
      · rename_i heq; rw [heq] at h1; exact h0.trans h1
      · rename_i w1 heq; rw [heq] at h1
        have h2 := (probStatus_frame srv good w1).marks
        split
        · rename_i heq2; rw [heq2] at h2; exact (h0.trans h1).trans h2
        · rename_i w2 st' heq2; rw [heq2] at h2
          exact ((h0.trans h1).trans h2).trans (ih w2 st')

theorem download_frame (srv : Server) (good : Bytes → Bool) (w : World) (st : Status) :
    SameMarks w (download srv good w st).1 := by
  unfold download
  split
  · exact SameMarks.refl w
  · exact downloadLoop_frame srv good 2 w st

/-- `prob_status` answers `installed` exactly when the mark is set -/
theorem probStatus_installed_iff (srv : Server) (good : Bytes → Bool) (w : World) :
    (probStatus srv good w).2 = Except.ok Status.installed ↔ w.installed = true := by
  unfold probStatus
  split
  · simp_all
  · rename_i hi
    simp only [hi]
    split
    · simp
    · split
      · simp
      · simp
      · repeat' split
        all_goals simp

/-- `prob_status` answers `downloaded` only for a present archive with a matching checksum -/
theorem probStatus_downloaded (srv : Server) (good : Bytes → Bool) (w : World)
    (h : (probStatus srv good w).2 = Except.ok Status.downloaded) :
    ∃ a, w.archive = some a ∧ good a = true := by
  unfold probStatus at h
  split at h
  · simp at h
  · split at h
    · simp at h
    · rename_i a ha
      refine ⟨a, ha, ?_⟩
      split at h
      · simp at h
      · simp at h
      · repeat' split at h
        all_goals simp_all

/-- a status is justified in a world: `downloaded` is only claimed for a present archive with a matching checksum -/
def Justified (good : Bytes → Bool) (w : World) (st : Status) : Prop :=
  (st = Status.downloaded → ∃ a, w.archive = some a ∧ good a = true) ∧
  (st = Status.installed → w.installed = true)

theorem probStatus_justified (srv : Server) (good : Bytes → Bool) (w w' : World) (st : Status)
    (h : probStatus srv good w = (w', Except.ok st)) : Justified good w' st := by
  have h2 := probStatus_frame srv good w
  rw [h] at h2
  constructor
  · intro hst
    subst hst
    obtain ⟨a, ha, hg⟩ := probStatus_downloaded srv good w (by rw [h])
    exact ⟨a, h2.1.trans ha, hg⟩
  · intro hst
    subst hst
    exact h2.2.1.trans ((probStatus_installed_iff srv good w).1 (by rw [h]))

theorem downloadLoop_justified (srv : Server) (good : Bytes → Bool) (n : Nat) :
    ∀ (w w' : World) (st st' : Status), Justified good w st →
      downloadLoop srv good n w st = (w', Except.ok st') → Justified good w' st' := by
  induction n with
  | zero =>
    intro w w' st st' hj h
    simp only [downloadLoop, Prod.mk.injEq, Except.ok.injEq] at h
    obtain ⟨rfl, rfl⟩ := h
    exact hj
  | succ n ih =>
    intro w w' st st' hj h
    unfold downloadLoop at h
    split at h
    · simp only [Prod.mk.injEq, Except.ok.injEq] at h
      obtain ⟨rfl, rfl⟩ := h
      exact hj
    · dsimp only at h
      split at h
      · simp at h
      · split at h
        · simp at h
        · rename_i heq2
          exact ih _ _ _ _ (probStatus_justified srv good _ _ _ heq2) h

theorem download_justified (srv : Server) (good : Bytes → Bool) (w w' : World) (st st' : Status)
    (hj : Justified good w st) (h : download srv good w st = (w', Except.ok st')) : Justified good w' st' := by
  unfold download at h
  split at h
  · simp only [Prod.mk.injEq, Except.ok.injEq] at h
    obtain ⟨rfl, rfl⟩ := h
    exact hj
  · exact downloadLoop_justified srv good 2 _ _ _ _ hj h

/-- the three possible outcomes of `install` -/
theorem install_spec (srv : Server) (good : Bytes → Bool) (force noClean : Bool) (w : World) :
    ((install srv good force noClean w).2 = Except.ok Status.installed ∧ (w.installed = true ∧ force = false) ∧
      (install srv good force noClean w).1.installed = true ∧
      (install srv good force noClean w).1.extracted = w.extracted) ∨
    ((install srv good force noClean w).2 ≠ Except.ok Status.installed ∧
      (install srv good force noClean w).1.installed = false ∧
      (install srv good force noClean w).1.extracted = w.extracted) ∨
    ((install srv good force noClean w).2 = Except.ok Status.installed ∧ (w.installed = false ∨ force = true) ∧
      (install srv good force noClean w).1.installed = true ∧
      ∃ b, good b = true ∧ (install srv good force noClean w).1.extracted = w.extracted ++ [b]) := by
  have h0 : (if force = true then { w with installed := false } else w).extracted = w.extracted ∧
      ((if force = true then { w with installed := false } else w).installed = true ↔
        (w.installed = true ∧ force = false)) := by
    cases force <;> simp
  unfold install
  dsimp only
  generalize (if force = true then { w with installed := false } else w) = w0 at h0 ⊢
  have hi := probStatus_installed_iff srv good w0
  have hf := probStatus_frame srv good w0
  split
  · rename_i w1 e heq
    rw [heq] at hi hf
    have hw0 : w0.installed = false := by
      cases hw : w0.installed
      · rfl
      · exact absurd (hi.2 hw) (by simp)
    right; left
    exact ⟨by simp, hf.2.1.trans hw0, hf.2.2.trans h0.1⟩
  · rename_i w1 heq
    rw [heq] at hi hf
    have hw0 : w0.installed = true := hi.1 rfl
    left
    exact ⟨rfl, h0.2.1 hw0, hf.2.1.trans hw0, hf.2.2.trans h0.1⟩
  · rename_i w1 st hne heq
    rw [heq] at hi hf
    have hst : st ≠ Status.installed := fun hc => hne (by rw [hc])
    have hw0 : w0.installed = false := by
      cases hw : w0.installed
      · rfl
      · exact absurd (hi.2 hw) (by simpa using hst)
    have hn : w.installed = false ∨ force = true := by
      have := h0.2
      rw [hw0] at this
      cases hwi : w.installed
      · left; rfl
      · cases hfo : force
        · exact absurd (this.2 ⟨hwi, hfo⟩) (by simp)
        · right; rfl
    have hw1i : w1.installed = false := hf.2.1.trans hw0
    have hw1e : w1.extracted = w.extracted := hf.2.2.trans h0.1
    have hj := probStatus_justified srv good w0 w1 st heq
    have hd := download_frame srv good w1 st
    split
    · rename_i w2 e heq2
      rw [heq2] at hd
      right; left
      exact ⟨by simp, hd.1.trans hw1i, hd.2.trans hw1e⟩
    · rename_i w2 st2 heq2
      rw [heq2] at hd
      have hj2 := download_justified srv good w1 w2 st st2 hj heq2
      have hw2i : w2.installed = false := hd.1.trans hw1i
      have hw2e : w2.extracted = w.extracted := hd.2.trans hw1e
      split
      · right; left
        refine ⟨?_, hw2i, hw2e⟩
        intro hc
        have hc' : st2 = Status.installed := by simpa using hc
        have := hj2.2 hc'
        rw [hw2i] at this
        cases this
      · rename_i hdn
        have hst2 : st2 = Status.downloaded := Decidable.not_not.1 hdn
        obtain ⟨a, ha, hg⟩ := hj2.1 hst2
        split
        · rename_i hnone
          rw [ha] at hnone
          cases hnone
        · rename_i a' hsome
          rw [ha] at hsome
          cases hsome
          right; right
          refine ⟨rfl, hn, ?_, a, hg, ?_⟩
          · cases noClean <;> rfl
          · cases noClean <;> simp [hw2e]

end Kapture.C17
