/-
  Lemmas/C01.lean — specification-side definitions and helper lemmas for C01 / C02.
-/
import Kapture.Props.Csv
import Kapture.Model.C01
import Kapture.Gen.SpecColumns

namespace Kapture.C01
open Kapture.Csv

/-- a token that can stand in a field: comma-free, no line break, nothing to strip (an empty token is allowed: a missing
  rotation / translation, an empty name) -/
def TokOK (t : Str) : Prop := FieldOK t

/-- an identifier / path in first position or used as a key: a non-empty token -/
def IdOK (t : Str) : Prop := FieldOK t ∧ t ≠ []

/-- the specification names some columns differently from the code's header comments -/
def columnAliases : List (String × String) :=
  [("sensor_device_id", "sensor_id"), ("rig_device_id", "rig_id"), ("x_acc", "x_accel"), ("y_acc", "y_accel"),
   ("z_acc", "z_accel")]

def unalias (c : String) : String := ((columnAliases.find? (fun a => a.1 == c)).map (·.2)).getD c

-- sorting ----------------------------------------------------------------------------------------------------------------
theorem insertBy_perm {α : Type} (le : α → α → Bool) (x : α) (l : List α) : (insertBy le x l).Perm (x :: l) := by
  induction l with
  | nil => exact List.Perm.refl _
  | cons y ys ih =>
    unfold insertBy
    split
    · exact List.Perm.refl _
    · exact (List.Perm.cons y ih).trans (List.Perm.swap x y ys)

theorem sortBy_perm' {α : Type} (le : α → α → Bool) (l : List α) : (sortBy le l).Perm l := by
  induction l with
  | nil => exact List.Perm.refl _
  | cons x xs ih =>
    show (insertBy le x (sortBy le xs)).Perm (x :: xs)
    exact (insertBy_perm le x _).trans (List.Perm.cons x ih)

theorem mem_sortBy {α : Type} (le : α → α → Bool) (l : List α) (a : α) : a ∈ sortBy le l ↔ a ∈ l :=
  (sortBy_perm' le l).mem_iff

/-- a row starting with a rendered integer survives the text layer as soon as its other fields do -/
theorem rowOK_showInt (i : Int) (rest : List Str) (h : ∀ f ∈ rest, FieldOK f) : RowOK (showInt i :: rest) := by
  obtain ⟨h1, h2, h3⟩ := showInt_fieldOK i
  refine ⟨?_, showInt i, rest, rfl, h2, h3⟩
  intro f hf
  rcases List.mem_cons.1 hf with rfl | hf
  · exact h1
  · exact h f hf

theorem formatLine_wf :
    (S Gen.Headers.formatLine).head? = some '#' ∧ '\n' ∉ S Gen.Headers.formatLine ∧ '\r' ∉ S Gen.Headers.formatLine := by
  decide

theorem headerOf_wf :
    ∀ e ∈ Gen.Headers.columns, (headerOf e.1).head? = some '#' ∧ '\n' ∉ headerOf e.1 ∧ '\r' ∉ headerOf e.1 := by
  decide +kernel

theorem headerOf_wf_of_mem (file : String) (hf : file ∈ Gen.Headers.columns.map (·.1)) :
    (headerOf file).head? = some '#' ∧ '\n' ∉ headerOf file ∧ '\r' ∉ headerOf file := by
  obtain ⟨e, he, rfl⟩ := List.mem_map.1 hf
  exact headerOf_wf e he

theorem parseFile_textFile (file : String) (rows : List (List Str)) (hf : file ∈ Gen.Headers.columns.map (·.1))
    (hr : ∀ r ∈ rows, RowOK r) : parseFile (textFile file rows) = rows :=
  parseFile_renderFile _ _ _ rows formatLine_wf (headerOf_wf_of_mem file hf) hr

theorem take_textFile (file : String) (rows : List (List Str)) :
    (textFile file rows).take (S Gen.Headers.formatLine).length = S Gen.Headers.formatLine := by
  unfold textFile renderFile
  simp only [List.append_assoc]
  exact List.take_left' rfl

/-- rows built from a sorted list are `RowOK` as soon as the rows built from the original entries are -/
theorem rowOK_map_sortBy {α : Type} (le : α → α → Bool) (f : α → List Str) (t : List α)
    (h : ∀ e ∈ t, RowOK (f e)) : ∀ r ∈ (sortBy le t).map f, RowOK r := by
  intro r hr
  obtain ⟨e, he, rfl⟩ := List.mem_map.1 hr
  exact h e ((mem_sortBy le t e).1 he)

theorem rowOK_flatMap_sortBy {α : Type} (le : α → α → Bool) (f : α → List (List Str)) (t : List α)
    (h : ∀ e ∈ t, ∀ r ∈ f e, RowOK r) : ∀ r ∈ (sortBy le t).flatMap f, RowOK r := by
  intro r hr
  obtain ⟨e, he, hre⟩ := List.mem_flatMap.1 hr
  exact h e ((mem_sortBy le t e).1 he) r hre

theorem mem_known_files :
    ∀ f ∈ ["trajectories.txt", "observations.txt", "sensors.txt", "rigs.txt", "records_camera.txt", "records_depth.txt",
      "records_lidar.txt", "records_gnss.txt", "records_accelerometer.txt", "records_gyroscope.txt", "records_magnetic.txt",
      "records_wifi.txt", "records_bluetooth.txt"], f ∈ Gen.Headers.columns.map (·.1) := by
  decide +kernel

end Kapture.C01
