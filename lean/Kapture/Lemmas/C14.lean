/-
  Lemmas/C14.lean — specification-side definitions and helper lemmas for C14 (OpenMVG export then import).
-/
import Kapture.Model.C14
import Kapture.Props.C05

set_option linter.unusedSectionVars false
set_option linter.unusedVariables false

namespace Kapture.C14
open Kapture Kapture.C05 Kapture.Gen.RotMat

/-! ## poses -/
section pose
variable {K : Type} [Field K] [DecidableEq K]

theorem importT_eq (R : M3 K) (c : V3 K) : importT R c = V3.mulNegOne (M3.mulVec R c) := by
  simp only [importT, V3.mulNegOne, V3.mk.injEq]
  refine ⟨?_, ?_, ?_⟩ <;> ring

theorem mulNegOne_mulVec (R : M3 K) (v : V3 K) : V3.mulNegOne (M3.mulVec R (V3.mulNegOne v)) = M3.mulVec R v := by
  simp only [V3.mulNegOne, M3.mulVec, V3.mk.injEq]
  refine ⟨?_, ?_, ?_⟩ <;> ring

theorem add_mulVec_zero (R : M3 K) (v : V3 K) : V3.add (M3.mulVec R V3.zero) v = v := by
  cases v; simp [V3.add, V3.zero, M3.mulVec]

theorem mulNegOne_mulNegOne (v : V3 K) : V3.mulNegOne (V3.mulNegOne v) = v := by
  cases v; simp [V3.mulNegOne]

theorem rot_mul_rot_inv (q : Quat K) (h : qnorm q ≠ 0) : M3.mul (rot q) (rot (Quat.inv q)) = M3.one := by
  rw [rot_inv _ h]; exact rot_orthogonal _ h

end pose

/-! ## identifiers -/

/-- the table `_compute_openmvg_id` builds for a sequence of keys -/
def idTable (ks : List Str) : List (Str × Nat) := ks.foldl (fun t k => computeId k t) []

theorem viewIds_eq (recs : List Rec) : viewIds recs = idTable (recs.map (·.name)) := by
  simp [viewIds, idTable, List.foldl_map]

theorem camIds_eq (recs : List Rec) : camIds recs = idTable (recs.map (·.cam)) := by
  simp [camIds, idTable, List.foldl_map]

/-- ids are 0, 1, 2, ... in insertion order and keys are unique -/
def Dense (t : List (Str × Nat)) : Prop := t.map (·.2) = List.range t.length ∧ (Dict.keys t).Nodup

theorem nextId_ge (t : List (Str × Nat)) : ∀ v ∈ t.map (·.2), v + 1 ≤ nextId t := by
  induction t with
  | nil => simp
  | cons hd tl ih =>
    obtain ⟨k, v⟩ := hd
    intro x hx
    simp only [List.map_cons, List.mem_cons] at hx
    simp only [nextId]
    rcases hx with h | h
    · subst h; exact Nat.le_max_left _ _
    · exact Nat.le_trans (ih x h) (Nat.le_max_right _ _)

theorem nextId_le (t : List (Str × Nat)) (n : Nat) (h : ∀ v ∈ t.map (·.2), v < n) : nextId t ≤ n := by
  induction t with
  | nil => simp [nextId]
  | cons hd tl ih =>
    obtain ⟨k, v⟩ := hd
    simp only [nextId]
    apply Nat.max_le.mpr
    refine ⟨?_, ?_⟩
    · exact h v (by simp)
    · exact ih (fun x hx => h x (by simp [hx]))

theorem nextId_dense (t : List (Str × Nat)) (h : t.map (·.2) = List.range t.length) : nextId t = t.length := by
  apply Nat.le_antisymm
  · apply nextId_le
    intro v hv
    rw [h] at hv
    exact List.mem_range.mp hv
  · cases hl : t.length with
    | zero => exact Nat.zero_le _
    | succ n =>
      have : n ∈ t.map (·.2) := by rw [h, hl]; exact List.mem_range.mpr (Nat.lt_succ_self n)
      exact nextId_ge t n this

theorem set_absent {ν : Type} (k : Str) (v : ν) (t : List (Str × ν)) (h : Dict.get? k t = none) :
    Dict.set k v t = t ++ [(k, v)] := by
  induction t with
  | nil => rfl
  | cons hd tl ih =>
    obtain ⟨k', v'⟩ := hd
    simp only [Dict.get?] at h
    split at h
    · cases h
    · next hne => simp [Dict.set, hne, ih h]

theorem computeId_of_has (k : Str) (t : List (Str × Nat)) (h : Dict.has k t = true) : computeId k t = t := by
  simp [computeId, h]

theorem computeId_of_not_has (k : Str) (t : List (Str × Nat)) (h : Dict.has k t = false) :
    computeId k t = t ++ [(k, nextId t)] := by
  have hn : Dict.get? k t = none := by
    simp only [Dict.has] at h
    cases hg : Dict.get? k t <;> simp_all
  simp [computeId, h, set_absent _ _ _ hn]

theorem dense_computeId (k : Str) (t : List (Str × Nat)) (h : Dense t) : Dense (computeId k t) := by
  cases hh : Dict.has k t with
  | true => rw [computeId_of_has _ _ hh]; exact h
  | false =>
    rw [computeId_of_not_has _ _ hh, nextId_dense _ h.1]
    refine ⟨?_, ?_⟩
    · simp [h.1, List.range_succ]
    · have hn : k ∉ Dict.keys t := by
        rw [Dict.mem_keys_iff]; simpa [Dict.has] using hh
      simp only [Dict.keys, List.map_append, List.map_cons, List.map_nil]
      rw [List.nodup_append]
      refine ⟨h.2, by simp, ?_⟩
      intro a ha b hb
      simp only [List.mem_singleton] at hb
      subst hb
      intro e; subst e; exact hn ha

theorem get?_computeId_of_some (k a : Str) (i : Nat) (t : List (Str × Nat)) (h : Dict.get? a t = some i) :
    Dict.get? a (computeId k t) = some i := by
  unfold computeId
  split
  · exact h
  · next hh =>
    rw [Dict.get?_set]
    split
    · next e => subst e; simp [Dict.has, h] at hh
    · exact h

theorem has_computeId_self (k : Str) (t : List (Str × Nat)) : Dict.has k (computeId k t) = true := by
  unfold computeId
  split
  · next h => exact h
  · simp [Dict.has, Dict.get?_set_self]

theorem dense_foldl (ks : List Str) (acc : List (Str × Nat)) (h : Dense acc) :
    Dense (ks.foldl (fun t k => computeId k t) acc) := by
  induction ks generalizing acc with
  | nil => exact h
  | cons k ks ih => exact ih _ (dense_computeId k acc h)

theorem get?_foldl_of_some (ks : List Str) (acc : List (Str × Nat)) (a : Str) (i : Nat) (h : Dict.get? a acc = some i) :
    Dict.get? a (ks.foldl (fun t k => computeId k t) acc) = some i := by
  induction ks generalizing acc with
  | nil => exact h
  | cons k ks ih => exact ih _ (get?_computeId_of_some k a i acc h)

theorem has_foldl_of_mem (ks : List Str) (acc : List (Str × Nat)) (a : Str) (h : a ∈ ks) :
    ∃ i, Dict.get? a (ks.foldl (fun t k => computeId k t) acc) = some i := by
  induction ks generalizing acc with
  | nil => cases h
  | cons k ks ih =>
    simp only [List.mem_cons] at h
    rcases h with h | h
    · subst h
      have := has_computeId_self a acc
      simp only [Dict.has, Option.isSome_iff_exists] at this
      obtain ⟨i, hi⟩ := this
      exact ⟨i, get?_foldl_of_some ks _ a i hi⟩
    · exact ih _ h

theorem dense_idTable (ks : List Str) : Dense (idTable ks) :=
  dense_foldl ks [] ⟨by simp, by simp [Dict.keys]⟩

theorem mem_of_get? {ν : Type} (k : Str) (v : ν) (t : List (Str × ν)) (h : Dict.get? k t = some v) : (k, v) ∈ t := by
  induction t with
  | nil => simp [Dict.get?] at h
  | cons hd tl ih =>
    obtain ⟨k', v'⟩ := hd
    simp only [Dict.get?] at h
    split at h
    · next e => cases h; subst e; simp
    · exact List.mem_cons_of_mem _ (ih h)

theorem nodup_map_inj {α β : Type} (f : α → β) (l : List α) (h : (l.map f).Nodup) (x y : α) (hx : x ∈ l) (hy : y ∈ l)
    (e : f x = f y) : x = y := by
  induction l with
  | nil => cases hx
  | cons hd tl ih =>
    simp only [List.map_cons, List.nodup_cons, List.mem_map, not_exists, not_and] at h
    simp only [List.mem_cons] at hx hy
    rcases hx with hx | hx <;> rcases hy with hy | hy
    · rw [hx, hy]
    · subst hx; exact absurd e.symm (h.1 y hy)
    · subst hy; exact absurd e (h.1 x hx)
    · exact ih h.2 hx hy

theorem dense_injective (t : List (Str × Nat)) (h : Dense t) (a b : Str) (i : Nat)
    (ha : Dict.get? a t = some i) (hb : Dict.get? b t = some i) : a = b := by
  have hnd : (t.map (·.2)).Nodup := by rw [h.1]; exact List.nodup_range
  have := nodup_map_inj (·.2) t hnd (a, i) (b, i) (mem_of_get? _ _ _ ha) (mem_of_get? _ _ _ hb) rfl
  exact (Prod.mk.inj this).1

theorem dense_lt (t : List (Str × Nat)) (h : Dense t) (a : Str) (i : Nat) (ha : Dict.get? a t = some i) : i < t.length := by
  have : i ∈ t.map (·.2) := List.mem_map.mpr ⟨(a, i), mem_of_get? _ _ _ ha, rfl⟩
  rw [h.1] at this
  exact List.mem_range.mp this

/-! ## strings: split / join / flatten / order -/

theorem splitSlash_ne_nil (s : Str) : splitSlash s ≠ [] := by
  induction s with
  | nil => simp [splitSlash]
  | cons c r ih =>
    simp only [splitSlash]
    split
    · simp
    · split <;> simp

theorem splitSlash_cons_of_ne (c : Char) (r : Str) (h : c ≠ '/') :
    ∃ hd tl, splitSlash r = hd :: tl ∧ splitSlash (c :: r) = (c :: hd) :: tl := by
  cases hs : splitSlash r with
  | nil => exact absurd hs (splitSlash_ne_nil r)
  | cons hd tl => exact ⟨hd, tl, rfl, by simp [splitSlash, h, hs]⟩

theorem splitSlash_no_slash (s : Str) : ∀ c ∈ splitSlash s, '/' ∉ c := by
  induction s with
  | nil => simp [splitSlash]
  | cons c r ih =>
    by_cases hc : c = '/'
    · subst hc
      intro x hx
      simp only [splitSlash, if_true, List.mem_cons] at hx
      rcases hx with hx | hx
      · subst hx; simp
      · exact ih x hx
    · obtain ⟨hd, tl, h1, h2⟩ := splitSlash_cons_of_ne c r hc
      rw [h2]
      rw [h1] at ih
      intro x hx
      simp only [List.mem_cons] at hx
      rcases hx with hx | hx
      · subst hx
        intro hm
        simp only [List.mem_cons] at hm
        rcases hm with hm | hm
        · exact hc hm.symm
        · exact ih hd (by simp) hm
      · exact ih x (by simp [hx])

theorem joinSlash_cons_cons (c d : Str) (r : List Str) : joinSlash (c :: d :: r) = c ++ '/' :: joinSlash (d :: r) := rfl

theorem joinSlash_splitSlash (s : Str) : joinSlash (splitSlash s) = s := by
  induction s with
  | nil => rfl
  | cons c r ih =>
    by_cases hc : c = '/'
    · subst hc
      simp only [splitSlash, if_true]
      cases hs : splitSlash r with
      | nil => exact absurd hs (splitSlash_ne_nil r)
      | cons hd tl => rw [joinSlash_cons_cons, ← hs, ih]; rfl
    · obtain ⟨hd, tl, h1, h2⟩ := splitSlash_cons_of_ne c r hc
      rw [h2]
      rw [h1] at ih
      cases tl with
      | nil => simp only [joinSlash] at ih ⊢; rw [ih]
      | cons d tl => rw [joinSlash_cons_cons] at ih ⊢; rw [← ih]; rfl

theorem splitSlash_append_slash (a b : Str) : splitSlash (a ++ '/' :: b) = splitSlash a ++ splitSlash b := by
  induction a with
  | nil => simp [splitSlash]
  | cons c r ih =>
    by_cases hc : c = '/'
    · subst hc
      simp [splitSlash, ih]
    · obtain ⟨hd, tl, h1, h2⟩ := splitSlash_cons_of_ne c r hc
      rw [h2]
      rw [h1] at ih
      simp only [List.cons_append]
      simp [splitSlash, hc, ih]

theorem splitSlash_of_no_slash (c : Str) (h : '/' ∉ c) : splitSlash c = [c] := by
  induction c with
  | nil => rfl
  | cons x r ih =>
    simp only [List.mem_cons, not_or] at h
    have hx : x ≠ '/' := fun e => h.1 e.symm
    simp [splitSlash, hx, ih h.2]

theorem splitSlash_joinSlash (l : List Str) (hl : l ≠ []) (h : ∀ c ∈ l, '/' ∉ c) : splitSlash (joinSlash l) = l := by
  induction l with
  | nil => exact absurd rfl hl
  | cons c r ih =>
    cases r with
    | nil => simpa [joinSlash] using splitSlash_of_no_slash c (h c (by simp))
    | cons d r =>
      rw [joinSlash_cons_cons, splitSlash_append_slash, splitSlash_of_no_slash c (h c (by simp)),
        ih (by simp) (fun x hx => h x (by simp [hx]))]
      rfl

theorem joinSlash_append (l m : List Str) (hl : l ≠ []) (hm : m ≠ []) :
    joinSlash (l ++ m) = joinSlash l ++ '/' :: joinSlash m := by
  induction l with
  | nil => exact absurd rfl hl
  | cons c r ih =>
    cases r with
    | nil =>
      cases m with
      | nil => exact absurd rfl hm
      | cons d m => rfl
    | cons d r =>
      have := ih (by simp)
      simp only [List.cons_append] at this ⊢
      rw [joinSlash_cons_cons, joinSlash_cons_cons, this]
      simp

theorem joinSlash_eq_nil (l : List Str) (h : ∀ c ∈ l, c ≠ []) (e : joinSlash l = []) : l = [] := by
  cases l with
  | nil => rfl
  | cons c r =>
    exfalso
    cases r with
    | nil => exact h c (by simp) (by simpa [joinSlash] using e)
    | cons d r =>
      rw [joinSlash_cons_cons] at e
      simp at e

/-- `dirname` / `basename` of export and the joins of import cancel: the path is rebuilt -/
theorem join_dropLast_getLast (p : List Str) (hp : p ≠ []) (hne : ∀ c ∈ p, c ≠ []) :
    (if joinSlash p.dropLast = [] then p.getLastD [] else joinSlash p.dropLast ++ '/' :: p.getLastD []) = joinSlash p := by
  have hdec : p.dropLast ++ [p.getLastD []] = p := by
    rw [List.getLastD_eq_getLast?, List.getLast?_eq_some_getLast hp]
    exact List.dropLast_append_getLast hp
  by_cases hd : p.dropLast = []
  · rw [hd] at hdec
    simp only [hd, joinSlash, if_true]
    rw [← hdec]; rfl
  · have hne' : joinSlash p.dropLast ≠ [] := by
      intro e
      exact hd (joinSlash_eq_nil _ (fun c hc => hne c (List.dropLast_subset p hc)) e)
    rw [if_neg hne']
    conv => rhs; rw [← hdec]
    rw [joinSlash_append _ _ hd (by simp)]
    rfl

/-! ### flattening -/

def isSep (c : Char) : Prop := c = '/' ∨ c = '_'

/-- two names that differ only by exchanging '/' and '_' at some positions -/
def sameUpToSep : Str → Str → Prop
  | [], [] => True
  | a :: as, b :: bs => (a = b ∨ (isSep a ∧ isSep b)) ∧ sameUpToSep as bs
  | _, _ => False

theorem flatChar_eq_iff (x y : Char) :
    (if x = '/' then '_' else x) = (if y = '/' then '_' else y) ↔ (x = y ∨ (isSep x ∧ isSep y)) := by
  unfold isSep
  by_cases hx : x = '/' <;> by_cases hy : y = '/'
  · rw [if_pos hx, if_pos hy, hx, hy]; simp
  · rw [if_pos hx, if_neg hy]
    constructor
    · intro e; exact Or.inr ⟨Or.inl hx, Or.inr e.symm⟩
    · rintro (e | ⟨_, e | e⟩)
      · exact absurd (e ▸ hx) hy
      · exact absurd e hy
      · exact e.symm
  · rw [if_neg hx, if_pos hy]
    constructor
    · intro e; exact Or.inr ⟨Or.inr e, Or.inl hy⟩
    · rintro (e | ⟨e | e, _⟩)
      · exact absurd (e ▸ hy) hx
      · exact absurd e hx
      · exact e
  · rw [if_neg hx, if_neg hy]
    constructor
    · intro e; exact Or.inl e
    · rintro (e | ⟨e | e, f | f⟩)
      · exact e
      · exact absurd e hx
      · exact absurd e hx
      · exact absurd f hy
      · rw [e, f]

theorem flattenStr_eq_iff_aux (a b : Str) : flattenStr a = flattenStr b ↔ sameUpToSep a b := by
  induction a generalizing b with
  | nil => cases b <;> simp [flattenStr, sameUpToSep]
  | cons x as ih =>
    cases b with
    | nil => simp [flattenStr, sameUpToSep]
    | cons y bs =>
      have ih' := ih bs
      simp only [flattenStr] at ih'
      simp only [flattenStr, List.map_cons, List.cons.injEq, sameUpToSep, ih']
      exact and_congr_left' (flatChar_eq_iff x y)

theorem flattenStr_unflatten (a : Str) (h : '_' ∉ a) :
    (flattenStr a).map (fun c => if c = '_' then '/' else c) = a := by
  induction a with
  | nil => rfl
  | cons x r ih =>
    simp only [List.mem_cons, not_or] at h
    simp only [flattenStr, List.map_cons, List.cons.injEq] at ih ⊢
    refine ⟨?_, ih h.2⟩
    by_cases hx : x = '/'
    · simp [hx]
    · have : x ≠ '_' := fun e => h.1 e.symm
      simp [hx, this]

theorem flattenStr_no_slash (a : Str) : '/' ∉ flattenStr a := by
  induction a with
  | nil => simp [flattenStr]
  | cons x r ih =>
    simp only [flattenStr, List.map_cons, List.mem_cons, not_or] at ih ⊢
    refine ⟨?_, ih⟩
    by_cases hx : x = '/'
    · simp [hx]
    · simp only [hx, if_false]; exact fun e => hx e.symm

theorem flattenStr_ne_nil (a : Str) (h : a ≠ []) : flattenStr a ≠ [] := by
  cases a with
  | nil => exact absurd rfl h
  | cons x r => simp [flattenStr]

/-! ### order -/

theorem strLt_append_left (p a b : Str) : strLt (p ++ a) (p ++ b) = strLt a b := by
  induction p with
  | nil => rfl
  | cons c r ih => simp [strLt, ih]

/-! ## the common image directory -/

theorem commonPrefix_prefix_left (a b : List Str) : commonPrefix a b <+: a := by
  induction a generalizing b with
  | nil => cases b <;> simp [commonPrefix]
  | cons x as ih =>
    cases b with
    | nil => simp [commonPrefix]
    | cons y bs =>
      simp only [commonPrefix]
      split
      · exact (List.prefix_cons_inj x).mpr (ih bs)
      · exact List.nil_prefix

theorem commonPrefix_prefix_right (a b : List Str) : commonPrefix a b <+: b := by
  induction a generalizing b with
  | nil => cases b <;> simp [commonPrefix]
  | cons x as ih =>
    cases b with
    | nil => simp [commonPrefix]
    | cons y bs =>
      simp only [commonPrefix]
      split
      · next e => subst e; exact (List.prefix_cons_inj x).mpr (ih bs)
      · exact List.nil_prefix

theorem foldl_commonPrefix_prefix (ds : List (List Str)) (d : List Str) :
    ds.foldl commonPrefix d <+: d ∧ ∀ x ∈ ds, ds.foldl commonPrefix d <+: x := by
  induction ds generalizing d with
  | nil => simp
  | cons y ys ih =>
    simp only [List.foldl_cons]
    obtain ⟨h1, h2⟩ := ih (commonPrefix d y)
    refine ⟨h1.trans (commonPrefix_prefix_left d y), ?_⟩
    intro x hx
    simp only [List.mem_cons] at hx
    rcases hx with hx | hx
    · subst hx; exact h1.trans (commonPrefix_prefix_right d x)
    · exact h2 x hx

/-- the common directory is a prefix of the directory of every image -/
theorem subRoot_prefix (recs : List Rec) (r : Rec) (h : r ∈ recs) : subRoot recs <+: dirComps r.name := by
  unfold subRoot
  cases hm : recs.map (fun r => dirComps r.name) with
  | nil =>
    have : recs = [] := by simpa using hm
    subst this; cases h
  | cons d ds =>
    have hmem : dirComps r.name ∈ recs.map (fun r => dirComps r.name) := List.mem_map.mpr ⟨r, h, rfl⟩
    rw [hm] at hmem
    obtain ⟨h1, h2⟩ := foldl_commonPrefix_prefix ds d
    simp only [List.mem_cons] at hmem
    rcases hmem with e | e
    · rw [e]; exact h1
    · exact h2 _ e

/-- a name is its common directory followed by its relative name -/
theorem relOf_decompose (sub : List Str) (name : Str) (h : sub <+: dirComps name) :
    sub ++ relOf sub name = splitSlash name ∧ relOf sub name ≠ [] := by
  have hp : sub <+: splitSlash name := h.trans (List.dropLast_prefix _)
  obtain ⟨t, ht⟩ := hp
  have hrel : relOf sub name = t := by
    unfold relOf; rw [← ht]; simp
  refine ⟨by rw [hrel, ht], ?_⟩
  rw [hrel]
  intro e
  subst e
  obtain ⟨u, hu⟩ := h
  simp only [List.append_nil] at ht
  unfold dirComps at hu
  have hl : (splitSlash name).dropLast.length = (splitSlash name).length - 1 := List.length_dropLast
  have h1 : (sub ++ u).length = (splitSlash name).length - 1 := by rw [hu, hl]
  have h2 : (splitSlash name).length = sub.length := by rw [ht]
  have h3 : 0 < (splitSlash name).length := List.length_pos_iff.mpr (splitSlash_ne_nil name)
  simp only [List.length_append] at h1
  omega

/-! ## python dict built by repeated assignment -/

/-- when equal keys carry equal values, every binding of the list is found in the dict built from it -/
theorem get?_foldl_set {κ ν : Type} [DecidableEq κ] (l : List (κ × ν)) (acc : List (κ × ν)) (k : κ) (v : ν)
    (hfun : ∀ kv ∈ l, kv.1 = k → kv.2 = v)
    (h : (∃ kv ∈ l, kv.1 = k) ∨ Dict.get? k acc = some v) :
    Dict.get? k (l.foldl (fun t kv => Dict.set kv.1 kv.2 t) acc) = some v := by
  induction l generalizing acc with
  | nil =>
    rcases h with ⟨kv, hkv, _⟩ | h
    · cases hkv
    · exact h
  | cons hd tl ih =>
    simp only [List.foldl_cons]
    apply ih _ (fun kv hkv => hfun kv (List.mem_cons_of_mem _ hkv))
    by_cases e : hd.1 = k
    · right
      rw [← e, Dict.get?_set_self, hfun hd (by simp) e]
    · rcases h with ⟨kv, hkv, hk⟩ | h
      · simp only [List.mem_cons] at hkv
        rcases hkv with hkv | hkv
        · subst hkv; exact absurd hk e
        · exact Or.inl ⟨kv, hkv, hk⟩
      · right
        rw [Dict.get?_set_ne _ _ _ _ (Ne.symm e)]
        exact h

theorem get?_foldl_set_none {κ ν : Type} [DecidableEq κ] (l : List (κ × ν)) (acc : List (κ × ν)) (k : κ)
    (hk : ∀ kv ∈ l, kv.1 ≠ k) (h : Dict.get? k acc = none) :
    Dict.get? k (l.foldl (fun t kv => Dict.set kv.1 kv.2 t) acc) = none := by
  induction l generalizing acc with
  | nil => exact h
  | cons hd tl ih =>
    simp only [List.foldl_cons]
    apply ih _ (fun kv hkv => hk kv (List.mem_cons_of_mem _ hkv))
    rw [Dict.get?_set_ne _ _ _ _ (Ne.symm (hk hd (by simp)))]
    exact h

/-! ## structure -/

/-- the observations the loop should give back: point index kept, image renamed by `ρ`, feature index kept -/
def renamedObs {α : Type} (ρ : Str → Str) : Nat → List (α × PointObs) → List (Nat × Str × Nat)
  | _, [] => []
  | i, (_, obs) :: r => obs.map (fun o => (i, ρ o.1, o.2)) ++ renamedObs ρ (i + 1) r

/-- every observed image has a view id, and import maps that id to the renamed image (a non-empty name) -/
def ObsResolved (views : List (Str × Nat)) (names : List (Nat × Str)) (ρ : Str → Str) (obs : PointObs) : Prop :=
  ∀ o ∈ obs, ∃ v, Dict.get? o.1 views = some v ∧ Dict.get? v names = some (ρ o.1) ∧ ρ o.1 ≠ []

theorem obs_loop (views : List (Str × Nat)) (names : List (Nat × Str)) (ρ : Str → Str) (idx : Nat) (obs : PointObs)
    (h : ObsResolved views names ρ obs) :
    ∃ os, exportObs views obs = some os ∧ importObs names idx os = Except.ok (obs.map (fun o => (idx, ρ o.1, o.2))) := by
  induction obs with
  | nil => exact ⟨[], rfl, rfl⟩
  | cons o r ih =>
    obtain ⟨os, h1, h2⟩ := ih (fun x hx => h x (List.mem_cons_of_mem _ hx))
    obtain ⟨v, hv1, hv2, hv3⟩ := h o (by simp)
    refine ⟨(v, o.2) :: os, ?_, ?_⟩
    · simp [exportObs, hv1, h1]
    · simp [importObs, hv2, hv3, h2]

theorem points_loop {α : Type} (views : List (Str × Nat)) (names : List (Nat × Str)) (ρ : Str → Str) (i : Nat)
    (pts : List (α × PointObs)) (h : ∀ p ∈ pts, ObsResolved views names ρ p.2) :
    ∃ st, exportPoints views i pts = some st ∧ st.map (·.1) = List.range' i pts.length ∧
      st.map (·.2.1) = pts.map (·.1) ∧ importAllObs names st = Except.ok (renamedObs ρ i pts) := by
  induction pts generalizing i with
  | nil => exact ⟨[], rfl, rfl, rfl, rfl⟩
  | cons p r ih =>
    obtain ⟨x, obs⟩ := p
    obtain ⟨st, h1, h2, h3, h4⟩ := ih (i + 1) (fun q hq => h q (List.mem_cons_of_mem _ hq))
    obtain ⟨os, ho1, ho2⟩ := obs_loop views names ρ i obs (h (x, obs) (by simp))
    refine ⟨(i, x, os) :: st, ?_, ?_, ?_, ?_⟩
    · simp [exportPoints, ho1, h1]
    · simp [h2, List.range'_succ]
    · simp [h3]
    · simp [importAllObs, ho2, h4, renamedObs]

theorem maxKey_range' {β : Type} (st : List (Nat × β)) (i n : Nat) (h : st.map (·.1) = List.range' i (n + 1)) :
    maxKey st = i + n := by
  induction st generalizing i n with
  | nil => simp at h
  | cons hd tl ih =>
    obtain ⟨k, b⟩ := hd
    simp only [List.map_cons, List.range'_succ, List.cons.injEq] at h
    obtain ⟨hk, ht⟩ := h
    subst hk
    cases n with
    | zero =>
      have : tl = [] := by simpa using ht
      subst this
      simp [maxKey]
    | succ m =>
      have := ih (k + 1) m ht
      simp only [maxKey, this]
      show max k (k + 1 + m) = k + (m + 1)
      omega

theorem importPoints_dense {α : Type} (empty : α) (st : List (Nat × α × List (Nat × Nat))) (n : Nat)
    (hk : st.map (·.1) = List.range' 0 (n + 1)) : importPoints empty st = st.map (·.2.1) := by
  unfold importPoints
  rw [maxKey_range' st 0 n hk]
  have hlen : st.length = n + 1 := by
    have := congrArg List.length hk
    simpa using this
  have hfold : st.foldl (fun t p => Dict.set p.1 p.2.1 t) ([] : List (Nat × α))
      = (st.map (fun p => (p.1, p.2.1))).foldl (fun t kv => Dict.set kv.1 kv.2 t) [] := by
    rw [List.foldl_map]
  simp only [hfold]
  apply List.ext_getElem
  · simp [hlen]
  · intro j hj1 hj2
    simp only [List.length_map, List.length_range] at hj1
    have hjs : j < st.length := by omega
    have hkey : ∀ m (hm : m < st.length), (st[m]).1 = m := by
      intro m hm
      have := List.getElem_map (·.1) (l := st) (i := m) (h := by simpa using hm)
      simp only [hk, List.getElem_range'] at this
      omega
    have hget : Dict.get? j ((st.map (fun p => (p.1, p.2.1))).foldl (fun t kv => Dict.set kv.1 kv.2 t) [])
        = some (st[j]).2.1 := by
      apply get?_foldl_set
      · intro kv hkv e
        obtain ⟨p, hp, rfl⟩ := List.mem_map.mp hkv
        obtain ⟨m, hm, rfl⟩ := List.getElem_of_mem hp
        simp only at e
        have := hkey m hm
        have hmj : m = j := by omega
        subst hmj
        rfl
      · left
        exact ⟨((st[j]).1, (st[j]).2.1), List.mem_map.mpr ⟨st[j], List.getElem_mem hjs, rfl⟩, hkey j hjs⟩
    simp [hget]

/-! ## intrinsics -/
section intr
variable {K : Type} [Field K] [DecidableEq K]

/-- the kapture cameras OpenMVG can express exactly: one focal length, and of the FULL_OPENCV rational part nothing -/
inductive Representable : Cam K → Prop
  | simplePinhole (w h : Int) (f cx cy : K) : Representable ⟨CamType.SIMPLE_PINHOLE, w, h, [f, cx, cy]⟩
  | pinhole (w h : Int) (f cx cy : K) : Representable ⟨CamType.PINHOLE, w, h, [f, f, cx, cy]⟩
  | simpleRadial (w h : Int) (f cx cy k : K) : Representable ⟨CamType.SIMPLE_RADIAL, w, h, [f, cx, cy, k]⟩
  | radial (w h : Int) (f cx cy k1 k2 : K) : Representable ⟨CamType.RADIAL, w, h, [f, cx, cy, k1, k2]⟩
  | opencv (w h : Int) (f cx cy k1 k2 p1 p2 : K) : Representable ⟨CamType.OPENCV, w, h, [f, f, cx, cy, k1, k2, p1, p2]⟩
  | fullOpencv (w h : Int) (f cx cy k1 k2 p1 p2 k3 : K) :
      Representable ⟨CamType.FULL_OPENCV, w, h, [f, f, cx, cy, k1, k2, p1, p2, k3, 0, 0, 0]⟩

/-- the camera the loop gives back: PINHOLE comes back as SIMPLE_PINHOLE, FULL_OPENCV with k3 = 0 as OPENCV -/
def canon (c : Cam K) : Cam K :=
  match c.type, c.params with
  | CamType.PINHOLE, [fx, _, cx, cy] => ⟨CamType.SIMPLE_PINHOLE, c.w, c.h, [fx, cx, cy]⟩
  | CamType.FULL_OPENCV, [fx, fy, cx, cy, k1, k2, p1, p2, k3, _, _, _] =>
    if k3 = 0 then ⟨CamType.OPENCV, c.w, c.h, [fx, fy, cx, cy, k1, k2, p1, p2]⟩ else c
  | _, _ => c

/-- every model of the statement is a special case of the Brown model [fx, fy, cx, cy, k1, k2, p1, p2, k3]
  (COLMAP's definitions of the models; FULL_OPENCV only when k4 = k5 = k6 = 0) -/
def brown (c : Cam K) : Option (List K) :=
  match c.type, c.params with
  | CamType.SIMPLE_PINHOLE, [f, cx, cy] => some [f, f, cx, cy, 0, 0, 0, 0, 0]
  | CamType.PINHOLE, [fx, fy, cx, cy] => some [fx, fy, cx, cy, 0, 0, 0, 0, 0]
  | CamType.SIMPLE_RADIAL, [f, cx, cy, k] => some [f, f, cx, cy, k, 0, 0, 0, 0]
  | CamType.RADIAL, [f, cx, cy, k1, k2] => some [f, f, cx, cy, k1, k2, 0, 0, 0]
  | CamType.OPENCV, [fx, fy, cx, cy, k1, k2, p1, p2] => some [fx, fy, cx, cy, k1, k2, p1, p2, 0]
  | CamType.FULL_OPENCV, [fx, fy, cx, cy, k1, k2, p1, p2, k3, k4, k5, k6] =>
    if k4 = 0 ∧ k5 = 0 ∧ k6 = 0 then some [fx, fy, cx, cy, k1, k2, p1, p2, k3] else none
  | _, _ => none

theorem half_double (f : K) (h2 : (2 : K) ≠ 0) : (f + f) / 2 = f := by
  field_simp; ring

end intr

/-! ## views -/

theorem exportViews_mem (flatten : Bool) (sub : List Str) (cams views : List (Str × Nat)) (recs : List Rec) (vs : List View)
    (h : exportViews flatten sub cams views recs = some vs) :
    ∀ v ∈ vs, ∃ r ∈ recs, exportView flatten sub cams views r = some v := by
  induction recs generalizing vs with
  | nil =>
    simp only [exportViews, Option.some.injEq] at h
    subst h; intro v hv; cases hv
  | cons r rs ih =>
    simp only [exportViews] at h
    split at h
    · next v0 vs0 h1 h2 =>
      simp only [Option.some.injEq] at h
      subst h
      intro v hv
      simp only [List.mem_cons] at hv
      rcases hv with hv | hv
      · subst hv; exact ⟨r, by simp, h1⟩
      · obtain ⟨r', hr', he⟩ := ih vs0 h2 v hv
        exact ⟨r', List.mem_cons_of_mem _ hr', he⟩
    · cases h

theorem exportViews_total (flatten : Bool) (sub : List Str) (cams views : List (Str × Nat)) (recs : List Rec)
    (h : ∀ r ∈ recs, ∃ v, exportView flatten sub cams views r = some v) :
    ∃ vs, exportViews flatten sub cams views recs = some vs ∧
      ∀ r ∈ recs, ∃ v ∈ vs, exportView flatten sub cams views r = some v := by
  induction recs with
  | nil => exact ⟨[], rfl, fun r hr => by cases hr⟩
  | cons r rs ih =>
    obtain ⟨vs, h1, h2⟩ := ih (fun x hx => h x (List.mem_cons_of_mem _ hx))
    obtain ⟨v, hv⟩ := h r (by simp)
    refine ⟨v :: vs, by simp [exportViews, hv, h1], ?_⟩
    intro x hx
    simp only [List.mem_cons] at hx
    rcases hx with hx | hx
    · subst hx; exact ⟨v, by simp, hv⟩
    · obtain ⟨v', hv', he⟩ := h2 x hx
      exact ⟨v', List.mem_cons_of_mem _ hv', he⟩

/-- the exported view of a record, spelled out -/
theorem exportView_eq (flatten : Bool) (sub : List Str) (cams views : List (Str × Nat)) (r : Rec) (v : View)
    (h : exportView flatten sub cams views r = some v) :
    ∃ c i, Dict.get? r.cam cams = some c ∧ Dict.get? r.name views = some i ∧
      v = { key := i, idView := i, idIntrinsic := c, idPose := i,
            localPath := joinSlash (mvgPath flatten (relOf sub r.name)).dropLast,
            filename := (mvgPath flatten (relOf sub r.name)).getLastD [] } := by
  unfold exportView at h
  split at h
  · next c i hc hi =>
    simp only [Option.some.injEq] at h
    exact ⟨c, i, hc, hi, h.symm⟩
  · cases h

theorem mvgPath_good (flatten : Bool) (rel : List Str) (hrel : rel ≠ []) (hne : ∀ c ∈ rel, c ≠ []) :
    mvgPath flatten rel ≠ [] ∧ ∀ c ∈ mvgPath flatten rel, c ≠ [] := by
  cases flatten with
  | false => simpa [mvgPath] using ⟨hrel, hne⟩
  | true =>
    simp only [mvgPath, if_true]
    refine ⟨by simp, ?_⟩
    intro c hc
    simp only [List.mem_singleton] at hc
    subst hc
    apply flattenStr_ne_nil
    intro e
    exact hrel (joinSlash_eq_nil rel hne e)

theorem joinSlash_mvgPath (flatten : Bool) (rel : List Str) :
    joinSlash (mvgPath flatten rel) = if flatten then flattenStr (joinSlash rel) else joinSlash rel := by
  cases flatten <;> simp [mvgPath, joinSlash]

theorem rel_comps_ne (sub : List Str) (name : Str) (hne : ∀ c ∈ splitSlash name, c ≠ []) :
    ∀ c ∈ relOf sub name, c ≠ [] := fun c hc => hne c (List.mem_of_mem_drop hc)

theorem rel_comps_no_slash (sub : List Str) (name : Str) : ∀ c ∈ relOf sub name, '/' ∉ c :=
  fun c hc => splitSlash_no_slash name c (List.mem_of_mem_drop hc)

theorem getLastD_splitSlash_append (a b : Str) :
    (splitSlash (a ++ '/' :: b)).getLastD [] = (splitSlash b).getLastD [] := by
  rw [splitSlash_append_slash, List.getLastD_eq_getLast?, List.getLastD_eq_getLast?,
    List.getLast?_append_of_ne_nil _ (splitSlash_ne_nil b)]

/-! ## matches -/

/-- `(n1, i1)` and `(n2, i2)` are matched in a block, whichever way round the block stores its pair -/
def pairedIn (blk : (Str × Str) × List (Nat × Nat)) (n1 : Str) (i1 : Nat) (n2 : Str) (i2 : Nat) : Prop :=
  (blk.1 = (n1, n2) ∧ (i1, i2) ∈ blk.2) ∨ (blk.1 = (n2, n1) ∧ (i2, i1) ∈ blk.2)

/-- the block import stores for an exported pair: names renamed, columns swapped when the renamed names are in the other order -/
def renamedBlock (ρ : Str → Str) (m : (Str × Str) × List (Nat × Nat)) : (Str × Str) × List (Nat × Nat) :=
  if strLt (ρ m.1.2) (ρ m.1.1) then ((ρ m.1.2, ρ m.1.1), m.2.map (fun r => (r.2, r.1))) else ((ρ m.1.1, ρ m.1.2), m.2)

/-- both images of a pair have a view id which import maps to the renamed image -/
def PairResolved (views : List (Str × Nat)) (names : List (Nat × Str)) (ρ : Str → Str) (m : (Str × Str) × List (Nat × Nat)) : Prop :=
  (∃ i, Dict.get? m.1.1 views = some i ∧ Dict.get? i names = some (ρ m.1.1)) ∧
  (∃ j, Dict.get? m.1.2 views = some j ∧ Dict.get? j names = some (ρ m.1.2))

/-! ## renamed observations, membership -/

theorem mem_renamedObs {α : Type} (ρ : Str → Str) (k : Nat) (pts : List (α × PointObs)) (x : Nat × Str × Nat) :
    x ∈ renamedObs ρ k pts ↔ ∃ j p, pts[j]? = some p ∧ ∃ o ∈ p.2, x = (k + j, ρ o.1, o.2) := by
  induction pts generalizing k with
  | nil => simp [renamedObs]
  | cons p r ih =>
    obtain ⟨a, obs⟩ := p
    simp only [renamedObs, List.mem_append, List.mem_map, ih]
    constructor
    · rintro (⟨o, ho, rfl⟩ | ⟨j, q, hq, o, ho, rfl⟩)
      · exact ⟨0, (a, obs), by simp, o, ho, by simp⟩
      · exact ⟨j + 1, q, by simpa using hq, o, ho, by simp; omega⟩
    · rintro ⟨j, q, hq, o, ho, rfl⟩
      cases j with
      | zero =>
        simp only [List.getElem?_cons_zero, Option.some.injEq] at hq
        subst hq
        exact Or.inl ⟨o, ho, by simp⟩
      | succ j =>
        simp only [List.getElem?_cons_succ] at hq
        exact Or.inr ⟨j, q, hq, o, ho, by simp; omega⟩

end Kapture.C14
