/-
  Lemmas/C14Gen.lean — the intrinsics export read off the GENERATED branch table (Gen/MvgIntrinsics.lean, translated from
  `_export_openmvg_intrinsics` and the `_get_intrinsic_*` getters on every run), to be compared with the hand-written
  `exportCam` of Model/C14.lean.
-/
import Kapture.Model.C14
import Kapture.Gen.MvgIntrinsics

namespace Kapture.C14
open Kapture

def camTypeName : CamType → String
  | .SIMPLE_PINHOLE => "SIMPLE_PINHOLE"
  | .PINHOLE => "PINHOLE"
  | .SIMPLE_RADIAL => "SIMPLE_RADIAL"
  | .RADIAL => "RADIAL"
  | .OPENCV => "OPENCV"
  | .FULL_OPENCV => "FULL_OPENCV"
  | .OPENCV_FISHEYE => "OPENCV_FISHEYE"
  | .RADIAL_FISHEYE => "RADIAL_FISHEYE"
  | .SIMPLE_RADIAL_FISHEYE => "SIMPLE_RADIAL_FISHEYE"

def mvgModelOf : String → Option MvgModel
  | "pinhole" => some .pinhole
  | "pinhole_radial_k1" => some .pinhole_radial_k1
  | "pinhole_radial_k3" => some .pinhole_radial_k3
  | "pinhole_brown_t2" => some .pinhole_brown_t2
  | "fisheye" => some .fisheye
  | _ => none

section
variable {K : Type} [Add K] [Div K] [OfNat K 0] [OfNat K 2] [DecidableEq K]

/-- the intrinsic of a camera according to the generated table: find the branch of the camera type, build the parameter list
  it hands to its getter (`camera_params[i]` for i ≥ 2 is `params[i-2]`; entries 0 and 1 are width and height, kept as the
  integers they are), read focal / principal point at 2..4 and the distortion at the getter's indexes, nest under value0
  when the getter's layout depends on the format flag and the flag is off -/
def genExportCam (v2 : Bool) (c : Cam K) : Option (Intrinsic K) :=
  let p : Nat → K := fun i => c.params.getD (i - 2) 0
  let n := c.params.length + 2
  match (Gen.MvgIntrinsics.branches n p).find? (fun b => b.1.contains (camTypeName c.type)) with
  | none => none
  | some (_, model, getter, faked) =>
    let l : Nat → K := match faked with
      | none => p
      | some fl => fun i => fl.getD i 0
    match mvgModelOf model, Gen.MvgIntrinsics.getters.find? (fun g => g.1 == getter) with
    | some m, some (_, idx, layoutFlag) =>
      let common : Common K := ⟨c.w, c.h, l 2, l 3, l 4⟩
      let disto := idx.map l
      some ⟨m, if layoutFlag && !v2 then IntrData.nested common disto else IntrData.flat common disto⟩
    | _, _ => none

end

def camTypeOf : String → Option CamType
  | "SIMPLE_PINHOLE" => some .SIMPLE_PINHOLE
  | "PINHOLE" => some .PINHOLE
  | "SIMPLE_RADIAL" => some .SIMPLE_RADIAL
  | "RADIAL" => some .RADIAL
  | "OPENCV" => some .OPENCV
  | "FULL_OPENCV" => some .FULL_OPENCV
  | "OPENCV_FISHEYE" => some .OPENCV_FISHEYE
  | "RADIAL_FISHEYE" => some .RADIAL_FISHEYE
  | "SIMPLE_RADIAL_FISHEYE" => some .SIMPLE_RADIAL_FISHEYE
  | _ => none

def mvgModelName : MvgModel → String
  | .pinhole => "pinhole"
  | .pinhole_radial_k1 => "pinhole_radial_k1"
  | .pinhole_radial_k3 => "pinhole_radial_k3"
  | .pinhole_brown_t2 => "pinhole_brown_t2"
  | .fisheye => "fisheye"

section
variable {K : Type} [OfNat K 0] [DecidableEq K]

/-- the camera an intrinsic is imported as according to the generated table of `_import_openmvg_cameras`: the branch of the
  OpenMVG model whose guard on disto_t2[2] holds; a branch that reads the common fields from "data" only cannot read a nested
  (value0) layout (KeyError); width and height are the first two entries, the rest is the parameter list -/
def genImportCam (i : Intrinsic K) : Option (Cam K) :=
  let cd := unnest i.data
  let nested := match i.data with
    | IntrData.nested _ _ => true
    | IntrData.flat _ _ => false
  let k3nz : Bool := decide (cd.2.getD 2 0 ≠ 0)
  match (Gen.MvgIntrinsics.imports ⟨cd.1.f, cd.1.cx, cd.1.cy⟩ cd.2).find?
      (fun b => b.1 == mvgModelName i.model && (b.2.1 == "always" || (b.2.1 == "k3nonzero") == k3nz)) with
  | none => none
  | some (_, _, ty, throughValue0, ents) =>
    if nested && !throughValue0 then none
    else (camTypeOf ty).map (fun t =>
      ⟨t, cd.1.w, cd.1.h, (ents.drop 2).filterMap (fun e => match e with
        | Gen.MvgIntrinsics.ImpEntry.val x => some x
        | _ => none)⟩)

end

end Kapture.C14
