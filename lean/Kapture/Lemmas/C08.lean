/-
  Lemmas/C08.lean — helper lemmas for C08.
-/
import Kapture.Model.C08

namespace Kapture.C08

/-- two lists are equal as sets -/
def SameMembers (a b : List String) : Prop := ∀ x, x ∈ a ↔ x ∈ b

theorem SameMembers.symm {a b : List String} (h : SameMembers a b) : SameMembers b a :=
  fun x => (h x).symm

/-! ### tables -/

/-- recursive characterisation of the positional comparison of two present tables -/
theorem tableEq_iff (close : String → String → Bool) : ∀ (x y : Table),
    (x.length == y.length &&
        (x.zip y).all (fun pq => pq.1.1 == pq.2.1 && close pq.1.2 pq.2.2)) = true ↔
      x.map (·.1) = y.map (·.1) ∧
        ∀ (i : Nat) (p q : Key × String), x[i]? = some p → y[i]? = some q → close p.2 q.2 = true
  | [], [] => by simp
  | [], _ :: _ => by simp
  | _ :: _, [] => by simp
  | p :: x, q :: y => by
    have ih := tableEq_iff close x y
    simp only [List.length_cons, List.zip_cons_cons, List.all_cons, List.map_cons, List.cons.injEq,
      Bool.and_eq_true, beq_iff_eq, Nat.add_right_cancel_iff] at ih ⊢
    constructor
    · rintro ⟨hl, ⟨hk, hc⟩, hall⟩
      obtain ⟨hm, hv⟩ := ih.1 ⟨hl, hall⟩
      refine ⟨⟨hk, hm⟩, ?_⟩
      intro i p' q' hp hq
      cases i with
      | zero =>
        simp only [List.getElem?_cons_zero, Option.some.injEq] at hp hq
        subst hp hq
        exact hc
      | succ i =>
        simp only [List.getElem?_cons_succ] at hp hq
        exact hv i p' q' hp hq
    · rintro ⟨⟨hk, hm⟩, hv⟩
      obtain ⟨hl, hall⟩ := ih.2 ⟨hm, fun i p' q' hp hq =>
        hv (i + 1) p' q' (by simpa using hp) (by simpa using hq)⟩
      exact ⟨hl, ⟨hk, hv 0 p q (by simp) (by simp)⟩, hall⟩

theorem equalTable_some_iff (close : String → String → Bool) (x y : Table) :
    equalTable close (some x) (some y) = true ↔
      x.map (·.1) = y.map (·.1) ∧
        ∀ (i : Nat) (p q : Key × String), x[i]? = some p → y[i]? = some q → close p.2 q.2 = true :=
  tableEq_iff close x y

theorem equalTable_some_none (close : String → String → Bool) (x : Table) :
    equalTable close (some x) none = false := rfl

theorem equalTable_none_some (close : String → String → Bool) (x : Table) :
    equalTable close none (some x) = false := rfl

theorem equalTable_none_none (close : String → String → Bool) :
    equalTable close none none = true := rfl

theorem equalTable_length_ne (close : String → String → Bool) (x y : Table) (h : x.length ≠ y.length) :
    equalTable close (some x) (some y) = false := by
  have hl : (x.length == y.length) = false := by simpa using h
  show (x.length == y.length && _) = false
  rw [hl, Bool.false_and]

theorem equalTable_imp_symm (close : String → String → Bool) (hs : ∀ v w, close v w = close w v)
    (a b : Option Table) (h : equalTable close a b = true) : equalTable close b a = true := by
  cases a with
  | none =>
    cases b with
    | none => rfl
    | some y => simp [equalTable_none_some] at h
  | some x =>
    cases b with
    | none => simp [equalTable_some_none] at h
    | some y =>
      rw [equalTable_some_iff] at h ⊢
      exact ⟨h.1.symm, fun i p q hp hq => by rw [hs]; exact h.2 i q p hq hp⟩

/-! ### sets -/

theorem equalSets_symmdiff_iff (a b : List String) :
    equalSets "symmetric_difference" a b = true ↔ SameMembers a b := by
  simp only [equalSets, beq_self_eq_true, if_true, Bool.and_eq_true, List.all_eq_true,
    List.contains_iff_mem, SameMembers]
  constructor
  · rintro ⟨h1, h2⟩ x
    exact ⟨h1 x, h2 x⟩
  · intro h
    exact ⟨fun x hx => (h x).1 hx, fun x hx => (h x).2 hx⟩

/-! ### collections -/

theorem mem_of_lookupColl {x : Coll} {ty : String} {f : String × List String}
    (h : lookupColl x ty = some f) : (ty, f) ∈ x := by
  unfold lookupColl at h
  rw [Option.map_eq_some_iff] at h
  obtain ⟨e, he, hf⟩ := h
  have h1 := List.find?_some he
  have h2 := List.mem_of_find?_eq_some he
  simp only [beq_iff_eq] at h1
  obtain ⟨e1, e2⟩ := e
  simp only at h1 hf
  subst h1 hf
  exact h2

theorem lookupColl_of_mem : ∀ {x : Coll}, (x.map (·.1)).Nodup → ∀ {ty : String} {f : String × List String},
    (ty, f) ∈ x → lookupColl x ty = some f
  | [], _, _, _, h => by simp at h
  | e :: xs, hn, ty, f, h => by
    rw [List.map_cons, List.nodup_cons] at hn
    unfold lookupColl
    rw [List.find?_cons]
    rcases List.mem_cons.1 h with h | h
    · subst h
      simp
    · have hne : (e.1 == ty) = false := by
        rw [beq_eq_false_iff_ne]
        intro heq
        apply hn.1
        rw [heq]
        exact List.mem_map.2 ⟨(ty, f), h, rfl⟩
      rw [hne]
      exact lookupColl_of_mem hn.2 h

theorem equalColl_some_iff (x y : Coll) (hx : (x.map (·.1)).Nodup) :
    equalColl "symmetric_difference" (some x) (some y) = true ↔
      SameMembers (x.map (·.1)) (y.map (·.1)) ∧
        ∀ ty cfg ms, lookupColl x ty = some (cfg, ms) →
          ∃ ms', lookupColl y ty = some (cfg, ms') ∧ SameMembers ms ms' := by
  show (equalSets _ _ _ && List.all x _) = true ↔ _
  rw [Bool.and_eq_true, equalSets_symmdiff_iff, List.all_eq_true]
  refine and_congr_right fun _ => ?_
  constructor
  · intro h ty cfg ms hl
    have := h _ (mem_of_lookupColl hl)
    simp only at this
    cases hy : lookupColl y ty with
    | none => rw [hy] at this; simp at this
    | some f =>
      rw [hy] at this
      simp only [Bool.and_eq_true, beq_iff_eq, equalSets_symmdiff_iff] at this
      obtain ⟨f1, f2⟩ := f
      exact ⟨f2, by rw [this.1], this.2⟩
  · rintro h ⟨ty, cfg, ms⟩ he
    obtain ⟨ms', hy, hm⟩ := h ty cfg ms (lookupColl_of_mem hx he)
    simp only [hy, Bool.and_eq_true, beq_iff_eq, equalSets_symmdiff_iff]
    exact ⟨trivial, hm⟩

theorem equalColl_some_imp_symm (x y : Coll) (hx : (x.map (·.1)).Nodup) (hy : (y.map (·.1)).Nodup)
    (h : equalColl "symmetric_difference" (some x) (some y) = true) :
    equalColl "symmetric_difference" (some y) (some x) = true := by
  rw [equalColl_some_iff x y hx] at h
  rw [equalColl_some_iff y x hy]
  obtain ⟨hn, H⟩ := h
  refine ⟨hn.symm, ?_⟩
  intro ty cfg ms hl
  have hmem : ty ∈ y.map (·.1) := List.mem_map.2 ⟨_, mem_of_lookupColl hl, rfl⟩
  obtain ⟨⟨ty', cfg', ms'⟩, he, hty⟩ := List.mem_map.1 ((hn ty).2 hmem)
  simp only at hty
  subst hty
  have hlx := lookupColl_of_mem hx he
  obtain ⟨ms'', hy', hm⟩ := H _ _ _ hlx
  rw [hl] at hy'
  simp only [Option.some.injEq, Prod.mk.injEq] at hy'
  obtain ⟨hc, hms⟩ := hy'
  subst hc hms
  exact ⟨ms', hlx, hm.symm⟩

theorem equalColl_imp_symm (a b : Option Coll) (ha : ∀ x, a = some x → (x.map (·.1)).Nodup)
    (hb : ∀ y, b = some y → (y.map (·.1)).Nodup)
    (h : equalColl "symmetric_difference" a b = true) :
    equalColl "symmetric_difference" b a = true := by
  cases a with
  | none =>
    cases b with
    | none => rfl
    | some y => exact absurd h (by simp [equalColl])
  | some x =>
    cases b with
    | none => exact absurd h (by simp [equalColl])
    | some y => exact equalColl_some_imp_symm x y (ha x rfl) (hb y rfl) h

end Kapture.C08
