/-
  Lemmas/C17Gen.lean — Dataset.prob_status read off the GENERATED decision list (Gen/ProbStatus.lean, translated from
  tools/kapture_download_dataset.py on every run), to be compared with the hand-written `probStatus` of Model/C17.lean.
-/
import Kapture.Lemmas.C17
import Kapture.Gen.ProbStatus

namespace Kapture.C17

def statusOfName : String → Option Status
  | "installed" => some .installed
  | "not installed" => some .notInstalled
  | "corrupted" => some .corrupted
  | "incomplete" => some .incomplete
  | "downloaded" => some .downloaded
  | _ => none

/-- the first rule whose condition holds gives the status -/
def evalRules (env : String → Bool) : List (String × String) → String → String
  | [], d => d
  | (atom, st) :: rest, d => if env atom then st else evalRules env rest d

/-- the conditions of prob_status in a world, `size` being the answer of the probe of the remote size (consulted only after
  the marker and the presence of the archive) -/
def atomEnv (good : Bytes → Bool) (w : World) (size : Option Nat) : String → Bool
  | "installed" => w.installed
  | "noArchive" => w.archive.isNone
  | "sizeUnknown" => size.isNone
  | "bigger" => match w.archive, size with
    | some a, some n => decide (a.length > n)
    | _, _ => false
  | "smaller" => match w.archive, size with
    | some a, some n => decide (a.length < n)
    | _, _ => false
  | "badSha" => match w.archive with
    | some a => !good a
    | none => true
  | _ => false

end Kapture.C17
