/-
  Lemmas/C15.lean — specification-side definitions and helper lemmas for C15 (OpenSfM export then import).
  Core Lean only (no Mathlib): `Rat` arithmetic, `Nat.toDigits`, the lexicographic order of `List Char`,
  `List.mergeSort`, and the insertion-ordered dict of Base/Dict.lean.
-/
import Kapture.Model.C15

namespace Kapture.C15
open Kapture

/-! ### arithmetic -/

theorem truncInt_intCast (a : Int) : truncInt (a : Rat) = a := by
  simp [truncInt]

theorem largest_intCast (a b : Int) : largest (a : Rat) (b : Rat) = ((max a b : Int) : Rat) := by
  unfold largest
  split <;> rename_i h <;> rw [Rat.intCast_lt_intCast] at h <;> congr 1 <;> omega

theorem largest_pos {w h : Rat} (hw : 0 < w) (hh : 0 < h) : 0 < largest w h := by
  unfold largest; split <;> assumption

/-- the generated export expression is the focal divided by the largest side -/
theorem exportFocal_def (f w h : Rat) : exportFocal f w h = f / largest w h := by
  simp [exportFocal, Gen.OsfmCamera.exportFocal]

/-- the generated import expression is the focal multiplied by the largest side -/
theorem importFocal_def (focal : Rat) (width height : Int) : importFocal focal width height = focal * largest (width : Rat) (height : Rat) := by
  simp [importFocal, Gen.OsfmCamera.importParams]

theorem hasK1_def (t : CamType) : hasK1 t = (t == .simpleRadial || t == .radial) := by
  cases t <;> decide

theorem hasK2_def (t : CamType) : hasK2 t = (t == .radial) := by
  cases t <;> decide

theorem exportFocal_mul_largest (f : Rat) {w h : Rat} (hw : 0 < w) (hh : 0 < h) :
    exportFocal f w h * largest w h = f := by
  rw [exportFocal_def]
  have hp := largest_pos hw hh
  have hne : largest w h ≠ 0 := by
    intro e; rw [e] at hp; exact absurd hp (Rat.lt_irrefl)
  exact Rat.div_mul_cancel hne

theorem digitChar_lt {a b : Nat} (hab : a < b) (hb : b < 10) : Nat.digitChar a < Nat.digitChar b := by
  have h1 := Nat.toNat_digitChar_of_lt_ten (n := a) (by omega)
  have h2 := Nat.toNat_digitChar_of_lt_ten (n := b) hb
  rw [Char.lt_def, UInt32.lt_iff_toNat_lt]
  simp only [Char.toNat] at h1 h2
  omega

theorem lt_append_of_lt : ∀ {xs ys : List Char}, xs < ys → xs.length = ys.length → ∀ (as bs : List Char),
    xs ++ as < ys ++ bs := by
  intro xs
  induction xs with
  | nil => intro ys h hl; cases ys with
    | nil => exact absurd h (List.not_lt_nil _)
    | cons y ys => simp at hl
  | cons x xs ih =>
    intro ys h hl as bs
    cases ys with
    | nil => simp at hl
    | cons y ys =>
      rw [List.cons_append, List.cons_append, List.cons_lt_cons_iff]
      rw [List.cons_lt_cons_iff] at h
      rcases h with h | ⟨h1, h2⟩
      · exact Or.inl h
      · exact Or.inr ⟨h1, ih h2 (by simpa using hl) as bs⟩

/-! ### decimal keys -/


/-- the `w` low decimal digits of `i`, most significant first -/
def padded : Nat → Nat → List Char
  | 0, _ => []
  | w + 1, i => padded w (i / 10) ++ [Nat.digitChar (i % 10)]

theorem length_padded : ∀ (w i : Nat), (padded w i).length = w := by
  intro w
  induction w with
  | zero => intro i; rfl
  | succ w ih => intro i; simp [padded, ih]

theorem padded_zero : ∀ w : Nat, padded w 0 = List.replicate w '0' := by
  intro w
  induction w with
  | zero => rfl
  | succ w ih => simp [padded, ih, List.replicate_succ']

theorem zfill_snoc (w : Nat) (xs : List Char) (c : Char) : zfill (w + 1) (xs ++ [c]) = zfill w xs ++ [c] := by
  simp [zfill]

theorem zfill_str_eq_padded : ∀ (w i : Nat), i < 10 ^ (w + 1) → zfill (w + 1) (str i) = padded (w + 1) i := by
  intro w
  induction w with
  | zero =>
    intro i hi
    have hi' : i < 10 := by simpa using hi
    simp [str, Nat.toDigits_of_lt_base hi', zfill, padded, Nat.mod_eq_of_lt hi']
  | succ w ih =>
    intro i hi
    by_cases h10 : i < 10
    · have hd : i / 10 = 0 := by omega
      have hm : i % 10 = i := by omega
      rw [padded, hd, hm, padded_zero]
      simp [str, Nat.toDigits_of_lt_base h10, zfill]
    · have hge : 10 ≤ i := by omega
      have hdiv : i / 10 < 10 ^ (w + 1) := by
        rw [Nat.div_lt_iff_lt_mul (by decide)]
        rw [Nat.pow_succ] at hi
        exact hi
      have hs : str i = str (i / 10) ++ [Nat.digitChar (i % 10)] := by
        unfold str; exact Nat.toDigits_of_base_le (by decide) hge
      rw [hs, zfill_snoc, ih (i / 10) hdiv]
      rfl

theorem padded_lt : ∀ (w i j : Nat), i < j → j < 10 ^ w → padded w i < padded w j := by
  intro w
  induction w with
  | zero => intro i j hij hj; simp at hj; omega
  | succ w ih =>
    intro i j hij hj
    have hle : i / 10 ≤ j / 10 := Nat.div_le_div_right (Nat.le_of_lt hij)
    have hjd : j / 10 < 10 ^ w := by
      rw [Nat.div_lt_iff_lt_mul (by decide)]
      rw [Nat.pow_succ] at hj
      exact hj
    simp only [padded]
    rcases Nat.lt_or_eq_of_le hle with hlt | heq
    · exact lt_append_of_lt (ih _ _ hlt hjd) (by rw [length_padded, length_padded]) _ _
    · rw [heq]
      apply List.append_left_lt
      rw [List.cons_lt_cons_iff]
      left
      exact digitChar_lt (by omega) (by omega)

theorem nbDigits_pos (n : Nat) : 0 < nbDigits n := Nat.length_toDigits_pos

theorem lt_pow_nbDigits {n i : Nat} (h : i < n) : i < 10 ^ nbDigits n := by
  have : n - 1 < 10 ^ nbDigits n :=
    (Nat.length_toDigits_le_iff (b := 10) (n := n - 1) (by decide) (nbDigits_pos n)).mp (Nat.le_refl _)
  omega

theorem pointKey_eq_padded {n i : Nat} (h : i < n) : pointKey n i = padded (nbDigits n) i := by
  have hp := nbDigits_pos n
  have hlt := lt_pow_nbDigits h
  obtain ⟨w, hw⟩ : ∃ w, nbDigits n = w + 1 := ⟨nbDigits n - 1, by omega⟩
  unfold pointKey
  rw [hw] at hlt ⊢
  exact zfill_str_eq_padded w i hlt

theorem pointKey_lt {n i j : Nat} (hij : i < j) (hj : j < n) : pointKey n i < pointKey n j := by
  rw [pointKey_eq_padded (Nat.lt_trans hij hj), pointKey_eq_padded hj]
  exact padded_lt _ _ _ hij (lt_pow_nbDigits hj)

theorem length_pointKey {n i : Nat} (h : i < n) : (pointKey n i).length = nbDigits n := by
  rw [pointKey_eq_padded h, length_padded]


/-! ### dicts, sorted keys, points -/


section dict
variable {κ ν : Type} [DecidableEq κ]

theorem set_fresh (k : κ) (v : ν) (l : List (κ × ν)) (h : k ∉ Dict.keys l) : Dict.set k v l = l ++ [(k, v)] := by
  induction l with
  | nil => rfl
  | cons hd t ih =>
    obtain ⟨k', v'⟩ := hd
    simp only [Dict.keys, List.map_cons, List.mem_cons, not_or] at h
    simp only [Dict.set]
    rw [if_neg (fun e => h.1 e.symm)]
    rw [ih (by simpa [Dict.keys] using h.2)]
    rfl

theorem foldl_set_fresh : ∀ (l acc : List (κ × ν)), (Dict.keys (acc ++ l)).Nodup →
    l.foldl (fun d kv => Dict.set kv.1 kv.2 d) acc = acc ++ l := by
  intro l
  induction l with
  | nil => intro acc _; simp
  | cons hd t ih =>
    intro acc hn
    rw [List.foldl_cons]
    have hfresh : hd.1 ∉ Dict.keys acc := by
      simp only [Dict.keys, List.map_append, List.map_cons] at hn
      rw [List.nodup_append] at hn
      intro hm
      exact hn.2.2 _ hm _ (List.mem_cons_self) rfl
    rw [set_fresh _ _ _ hfresh, ih]
    · simp
    · simpa using hn

theorem ofList_of_nodup (l : List (κ × ν)) (h : (Dict.keys l).Nodup) : Dict.ofList l = l := by
  unfold Dict.ofList
  rw [foldl_set_fresh l [] (by simpa using h)]
  rfl

theorem get?_of_mem : ∀ (l : List (κ × ν)), (Dict.keys l).Nodup → ∀ kv ∈ l, Dict.get? kv.1 l = some kv.2 := by
  intro l
  induction l with
  | nil => intro _ kv h; simp at h
  | cons hd t ih =>
    intro hn kv hm
    obtain ⟨k', v'⟩ := hd
    simp only [Dict.keys, List.map_cons, List.nodup_cons] at hn
    rcases List.mem_cons.1 hm with rfl | hm
    · simp [Dict.get?]
    · have hne : k' ≠ kv.1 := by
        intro e
        apply hn.1
        rw [e]
        exact List.mem_map.2 ⟨kv, hm, rfl⟩
      simp only [Dict.get?, if_neg hne]
      exact ih hn.2 kv hm

theorem filterMap_congr_mem {α β : Type} {f g : α → Option β} : ∀ {l : List α}, (∀ a ∈ l, f a = g a) →
    l.filterMap f = l.filterMap g := by
  intro l
  induction l with
  | nil => intro _; rfl
  | cons a t ih =>
    intro h
    rw [List.filterMap_cons, List.filterMap_cons, h a List.mem_cons_self,
      ih (fun b hb => h b (List.mem_cons_of_mem _ hb))]

theorem filterMap_get?_keys (l : List (κ × ν)) (h : (Dict.keys l).Nodup) :
    (Dict.keys l).filterMap (fun k => Dict.get? k l) = l.map Prod.snd := by
  unfold Dict.keys
  rw [List.filterMap_map, ← List.filterMap_eq_map]
  apply filterMap_congr_mem
  intro kv hm
  simp [get?_of_mem l h kv hm]
end dict

theorem keys_pairwise_lt (n : Nat) : ((List.range' 0 n).map (pointKey n)).Pairwise (· < ·) := by
  rw [List.pairwise_map]
  refine List.Pairwise.imp_of_mem ?_ (List.pairwise_lt_range')
  intro a b _ hb hab
  have : b < n := by simpa using (List.mem_range'_1.1 hb).2
  exact pointKey_lt hab this

theorem key_lt_irrefl (a : Key) : ¬ a < a := List.lt_irrefl a

theorem nodup_of_pairwise_lt {l : List Key} (h : l.Pairwise (· < ·)) : l.Nodup := by
  refine List.Pairwise.imp ?_ h
  intro a b hab e
  rw [e] at hab
  exact key_lt_irrefl b hab

theorem mergeSort_of_pairwise_lt {l : List Key} (h : l.Pairwise (· < ·)) : l.mergeSort keyLe = l := by
  apply List.mergeSort_of_pairwise
  refine List.Pairwise.imp ?_ h
  intro a b hab
  simp only [keyLe, decide_eq_true_eq]
  exact List.le_of_lt hab

theorem importPoints_of_sorted {P : Type} (d : List (Key × P)) (h : (Dict.keys d).Pairwise (· < ·)) :
    importPoints d = d.map Prod.snd := by
  unfold importPoints sortedKeys
  rw [mergeSort_of_pairwise_lt h]
  exact filterMap_get?_keys d (nodup_of_pairwise_lt h)

theorem exportPoints_keys {P : Type} (pts : List P) :
    Dict.keys (pts.zipIdx.map (fun pi => (pointKey pts.length pi.2, pi.1))) = (List.range' 0 pts.length).map (pointKey pts.length) := by
  simp only [Dict.keys, List.map_map]
  rw [← List.zipIdx_map_snd 0 pts, List.map_map]
  rfl

theorem exportPoints_eq {P : Type} (pts : List P) :
    exportPoints pts = pts.zipIdx.map (fun pi => (pointKey pts.length pi.2, pi.1)) := by
  unfold exportPoints exportPointsWith
  apply ofList_of_nodup
  rw [exportPoints_keys]
  exact nodup_of_pairwise_lt (keys_pairwise_lt _)

theorem importPoints_exportPoints {P : Type} (pts : List P) : importPoints (exportPoints pts) = pts := by
  rw [exportPoints_eq, importPoints_of_sorted]
  · rw [List.map_map]
    have : (Prod.snd ∘ fun pi : P × Nat => (pointKey pts.length pi.2, pi.1)) = Prod.fst := rfl
    rw [this, List.zipIdx_map_fst]
  · rw [exportPoints_keys]
    exact keys_pairwise_lt _



/-! ### cameras -/

theorem importFocal_exportFocal (f : Rat) {W H : Int} (hW : 0 < W) (hH : 0 < H) :
    importFocal (exportFocal f (W : Rat) (H : Rat)) W H = f := by
  rw [importFocal_def]
  exact exportFocal_mul_largest f (Rat.intCast_pos.2 hW) (Rat.intCast_pos.2 hH)

theorem loopCamera_eq (c : Camera) (W H : Int) (ht : c.type ≠ .other) (hw : c.w = (W : Rat)) (hh : c.h = (H : Rat))
    (hW : 0 < W) (hH : 0 < H) (hc : centred c = true) : loopCamera c = Except.ok (asRadial c) := by
  obtain ⟨type, w, h, f, cx, cy, k1, k2⟩ := c
  simp only at ht hw hh
  subst hw hh
  simp only [centred, Bool.and_eq_true, beq_iff_eq] at hc
  obtain ⟨hcx, hcy⟩ := hc
  subst hcx hcy
  simp only [loopCamera, exportCamera, if_neg ht, importCamera, asRadial, truncInt_intCast,
    importFocal_exportFocal f hW hH]

/-! ### shots -/

/-- the shot `exportShots` writes for one record -/
def shotOf {P : Type} (traj : List ((Int × String) × P)) (r : Int × String × Name) : Name × Shot P :=
  (r.2.2, { camera := r.2.1, pose := Dict.get? (r.1, r.2.1) traj })

theorem exportShots_eq {P : Type} (records : List (Int × String × Name)) (traj : List ((Int × String) × P))
    (hn : (records.map (fun r => r.2.2)).Nodup) : exportShots records traj = records.map (shotOf traj) := by
  have h1 : exportShots records traj = Dict.ofList (records.map (shotOf traj)) := by
    unfold exportShots Dict.ofList
    rw [List.foldl_map]
    rfl
  rw [h1]
  apply ofList_of_nodup
  simpa [Dict.keys, List.map_map, shotOf, Function.comp_def] using hn

theorem importShotsFrom_map {P : Type} (traj : List ((Int × String) × P)) :
    ∀ (records : List (Int × String × Name)) (k : Nat),
    (∀ r ∈ records, (Dict.get? (r.1, r.2.1) traj).isSome = true) →
    ∃ out, importShotsFrom k (records.map (shotOf traj)) = Except.ok out ∧ out.length = records.length ∧
      ∀ (i : Nat) (r : Int × String × Name), records[i]? = some r →
        ∃ p, Dict.get? (r.1, r.2.1) traj = some p ∧ out[i]? = some (k + i, r.2.1, r.2.2, p) := by
  intro records
  induction records with
  | nil => intro k _; exact ⟨[], rfl, rfl, by simp⟩
  | cons r rs ih =>
    intro k hp
    obtain ⟨p, hp0⟩ := Option.isSome_iff_exists.1 (hp r List.mem_cons_self)
    obtain ⟨out, ho, hl, hi⟩ := ih (k + 1) (fun r' hr' => hp r' (List.mem_cons_of_mem _ hr'))
    refine ⟨(k, r.2.1, r.2.2, p) :: out, ?_, by simp [hl], ?_⟩
    · rw [List.map_cons]
      show importShotsFrom k ((r.2.2, { camera := r.2.1, pose := Dict.get? (r.1, r.2.1) traj }) ::
        rs.map (shotOf traj)) = _
      simp only [importShotsFrom, hp0, ho]
    · intro i r' hr'
      cases i with
      | zero =>
        simp at hr'
        subst hr'
        exact ⟨p, hp0, by simp⟩
      | succ i =>
        simp at hr'
        obtain ⟨p', h1, h2⟩ := hi i r' hr'
        refine ⟨p', h1, ?_⟩
        simp only [List.getElem?_cons_succ, h2]
        congr 2
        omega

/-! ### names -/

theorem stripSuffix_addSuffix (s : List Char) (n : Name) : stripSuffix s (addSuffix s n) = n := by
  unfold stripSuffix addSuffix
  rw [List.length_append, Nat.add_sub_cancel]
  exact List.take_left' rfl

theorem hasSuffix_addSuffix (s : List Char) (n : Name) : hasSuffix s (addSuffix s n) = true := by
  unfold hasSuffix addSuffix
  rw [List.isSuffixOf_iff_suffix]
  exact List.suffix_append n s

theorem addSuffix_inj (s : List Char) {a b : Name} (h : addSuffix s a = addSuffix s b) : a = b :=
  List.append_cancel_right h

theorem importFeatureNames_export (images : List Name) : importFeatureNames (exportFeatureFiles images) = images := by
  unfold importFeatureNames exportFeatureFiles
  rw [List.filter_eq_self.2]
  · rw [List.map_map]
    conv => rhs; rw [← List.map_id images]
    apply List.map_congr_left
    intro a _
    exact stripSuffix_addSuffix _ a
  · intro a ha
    obtain ⟨n, _, rfl⟩ := List.mem_map.1 ha
    exact hasSuffix_addSuffix _ n

/-! ### matches -/

theorem importRow_exportRow_int (a b : Int) (s : Rat) :
    importRow (exportRow ((a : Rat), (b : Rat), s)) = ((a : Rat), (b : Rat), 1) := by
  simp [importRow, exportRow, truncInt_intCast]

/-- the pairs whose first image is `im1`, as the pickled dict entries -/
def group (pairs : List ((Name × Name) × List Row)) (im1 : Name) : List (Name × List (Int × Int)) :=
  (pairs.filter (fun p => p.1.1 = im1)).map (fun p => (p.1.2, p.2.map exportRow))

theorem group_keys_nodup (pairs : List ((Name × Name) × List Row)) (hn : (pairs.map (·.1)).Nodup) (im1 : Name) :
    (Dict.keys (group pairs im1)).Nodup := by
  unfold group Dict.keys
  rw [List.map_map]
  unfold List.Nodup at hn ⊢
  rw [List.pairwise_map] at hn ⊢
  refine List.Pairwise.imp_of_mem ?_ (List.Pairwise.filter _ hn)
  intro a b ha hb hab e
  have ha' : a.1.1 = im1 := by simpa using (List.mem_filter.1 ha).2
  have hb' : b.1.1 = im1 := by simpa using (List.mem_filter.1 hb).2
  apply hab
  exact Prod.ext (ha'.trans hb'.symm) e

theorem mem_importMatches_exportMatches (images : List Name) (pairs : List ((Name × Name) × List Row))
    (hn : (pairs.map (·.1)).Nodup) (x : (Name × Name) × List Row) :
    x ∈ importMatches (exportMatches images pairs) ↔
      ∃ p ∈ pairs, p.1.1 ∈ images ∧ x = (p.1, (p.2.map exportRow).map importRow) := by
  unfold importMatches exportMatches
  rw [List.filter_eq_self.2]
  · simp only [List.mem_flatMap, List.mem_map]
    constructor
    · rintro ⟨f, ⟨im1, him, rfl⟩, e, he, rfl⟩
      simp only at he ⊢
      change e ∈ Dict.ofList (group pairs im1) at he
      rw [ofList_of_nodup _ (group_keys_nodup pairs hn im1)] at he
      obtain ⟨p, hp, rfl⟩ := List.mem_map.1 he
      obtain ⟨hp1, hp2⟩ := List.mem_filter.1 hp
      have hp2' : p.1.1 = im1 := by simpa using hp2
      refine ⟨p, hp1, hp2' ▸ him, ?_⟩
      rw [stripSuffix_addSuffix, ← hp2']
    · rintro ⟨p, hp, him, rfl⟩
      refine ⟨_, ⟨p.1.1, him, rfl⟩, (p.1.2, p.2.map exportRow), ?_, ?_⟩
      · change (p.1.2, p.2.map exportRow) ∈ Dict.ofList (group pairs p.1.1)
        rw [ofList_of_nodup _ (group_keys_nodup pairs hn p.1.1)]
        exact List.mem_map.2 ⟨p, List.mem_filter.2 ⟨hp, by simp⟩, rfl⟩
      · simp only [stripSuffix_addSuffix]
  · intro f hf
    obtain ⟨n, _, rfl⟩ := List.mem_map.1 hf
    exact hasSuffix_addSuffix _ n


end Kapture.C15
