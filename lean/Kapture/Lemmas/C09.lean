/-
  Lemmas/C09.lean — specification-side definitions and helper lemmas for C09.
-/
import Kapture.Model.C09

namespace Kapture.C09
open Kapture

/-- the merged table of one attribute, `none` when the attribute is left unset -/
def mergedPart (skip : List String) (inputs : List Input) (attr : String) : Option Table :=
  (Dict.get? attr (mergeSimple skip inputs)).join

/-- first-wins specification: the entry of the earliest input that defines the key -/
def firstDefined (ts : List (Option Table)) (k : Key) : Option String :=
  ts.findSome? (fun t => t.bind (Dict.get? k))

/-- index of the first input whose collection lists image `name` under feature type `ty` -/
def firstFeatSource (ty name : String) (inputs : List (Option FeatColl)) : Option Nat :=
  inputs.zipIdx.findSome? (fun ci =>
    ci.1.bind (fun c => (Dict.get? ty c).bind (fun s => if s.images.contains name then some ci.2 else none)))

def firstMatchSource (ty : String) (p : String × String) (inputs : List (Option MatchColl)) : Option Nat :=
  inputs.zipIdx.findSome? (fun ci =>
    ci.1.bind (fun c => (Dict.get? ty c).bind (fun ps => if ps.contains p then some ci.2 else none)))

def firstFileSource (name : String) (lists : List (List String)) : Option Nat :=
  lists.zipIdx.findSome? (fun li => if li.1.contains name then some li.2 else none)

def simpleAttrs : List String :=
  ["sensors", "rigs", "trajectories", "records_camera", "records_depth", "records_lidar", "records_wifi",
   "records_bluetooth", "records_gnss", "records_accelerometer", "records_gyroscope", "records_magnetic"]

-- helper lemmas ---------------------------------------------------------------------------------------------------

section generic
variable {κ ν α β : Type} [DecidableEq κ]


/-- first-wins insertion fold over one list -/
theorem get?_insFold (f : α → κ) (g : α → ν) (l : List α) (acc : List (κ × ν)) (k : κ) :
    Dict.get? k (l.foldl (fun acc a => if Dict.has (f a) acc then acc else Dict.set (f a) (g a) acc) acc)
      = (Dict.get? k acc).or ((l.find? (fun a => decide (f a = k))).map g) := by
  induction l generalizing acc with
  | nil => simp
  | cons a t ih =>
    rw [List.foldl_cons, ih, List.find?_cons]
    by_cases hh : Dict.has (f a) acc = true
    · rw [if_pos hh]
      by_cases hk : f a = k
      · subst hk
        unfold Dict.has at hh
        cases hg : Dict.get? (f a) acc with
        | none => simp [hg] at hh
        | some v => simp
      · simp [hk]
    · rw [if_neg hh, Dict.get?_set]
      by_cases hk : f a = k
      · subst hk
        unfold Dict.has at hh
        cases hg : Dict.get? (f a) acc with
        | none => simp
        | some v => simp [hg] at hh
      · have : ¬ k = f a := fun h => hk h.symm
        simp [hk, this]


theorem nodup_insFold (f : α → κ) (g : α → ν) (l : List α) (acc : List (κ × ν))
    (hn : (Dict.keys acc).Nodup) :
    (Dict.keys (l.foldl (fun acc a => if Dict.has (f a) acc then acc else Dict.set (f a) (g a) acc) acc)).Nodup := by
  induction l generalizing acc with
  | nil => simpa using hn
  | cons a t ih =>
    rw [List.foldl_cons]
    apply ih
    split
    · exact hn
    · exact Dict.nodup_set _ _ _ hn

/-- the outer fold: a list of sources `xs`, each contributing the bindings `(f x a, g x a)` for `a ∈ L x` -/
theorem get?_insFold₂ (L : β → List α) (f : β → α → κ) (g : β → α → ν) (xs : List β) (acc : List (κ × ν)) (k : κ) :
    Dict.get? k (xs.foldl (fun acc x =>
        (L x).foldl (fun acc a => if Dict.has (f x a) acc then acc else Dict.set (f x a) (g x a) acc) acc) acc)
      = (Dict.get? k acc).or
          (xs.findSome? (fun x => ((L x).find? (fun a => decide (f x a = k))).map (g x))) := by
  induction xs generalizing acc with
  | nil => simp
  | cons x t ih =>
    rw [List.foldl_cons, ih, get?_insFold, Option.or_assoc, List.findSome?_cons]
    congr 1
    cases Option.map (g x) (List.find? (fun a => decide (f x a = k)) (L x)) <;> simp

theorem nodup_insFold₂ (L : β → List α) (f : β → α → κ) (g : β → α → ν) (xs : List β) (acc : List (κ × ν))
    (hn : (Dict.keys acc).Nodup) :
    (Dict.keys (xs.foldl (fun acc x =>
        (L x).foldl (fun acc a => if Dict.has (f x a) acc then acc else Dict.set (f x a) (g x a) acc) acc) acc)).Nodup := by
  induction xs generalizing acc with
  | nil => simpa using hn
  | cons x t ih =>
    rw [List.foldl_cons]
    exact ih _ (nodup_insFold _ _ _ _ hn)

theorem find?_fst_map_snd (k : κ) (t : List (κ × ν)) :
    (t.find? (fun a => decide (a.1 = k))).map Prod.snd = Dict.get? k t := by
  induction t with
  | nil => rfl
  | cons hd t ih =>
    obtain ⟨k', v⟩ := hd
    rw [List.find?_cons]
    by_cases h : k' = k <;> simp [Dict.get?, h, ih]

theorem find?_eq_map_const [BEq κ] [LawfulBEq κ] (k : κ) (c : ν) (l : List κ) :
    (l.find? (fun a => decide (a = k))).map (fun _ => c) = if l.contains k then some c else none := by
  induction l with
  | nil => rfl
  | cons hd t ih =>
    rw [List.find?_cons]
    by_cases h : hd = k
    · simp [h]
    · have h' : ¬ k = hd := fun e => h e.symm
      simp [h, h', ih]

theorem findSome?_filterMap' {γ δ : Type} (g : β → Option γ) (f : γ → Option δ) (l : List β) :
    (l.filterMap g).findSome? f = l.findSome? (fun a => (g a).bind f) := by
  induction l with
  | nil => rfl
  | cons a t ih =>
    rw [List.filterMap_cons, List.findSome?_cons]
    cases h : g a with
    | none => simpa using ih
    | some b =>
      rw [List.findSome?_cons, ih]
      simp

end generic

-- simple tables -------------------------------------------------------------------------------------------------------

theorem mergeTable_eq (ts : List (Option Table)) :
    mergeTable ts = ts.foldl (fun acc (x : Option Table) =>
      (x.getD []).foldl (fun acc a => if Dict.has a.1 acc then acc else Dict.set a.1 a.2 acc) acc) [] := by
  unfold mergeTable
  congr 1
  funext acc t
  cases t <;> rfl

theorem get?_mergeTable (ts : List (Option Table)) (k : Key) :
    Dict.get? k (mergeTable ts) = firstDefined ts k := by
  rw [mergeTable_eq, get?_insFold₂ (fun x : Option Table => x.getD []) (fun _ a => a.1) (fun _ a => a.2)]
  simp only [Dict.get?_nil, Option.none_or, firstDefined]
  congr 1
  funext t
  cases t with
  | none => rfl
  | some t => exact find?_fst_map_snd k t

theorem nodup_mergeTable (ts : List (Option Table)) : (Dict.keys (mergeTable ts)).Nodup := by
  rw [mergeTable_eq]
  exact nodup_insFold₂ (fun x : Option Table => x.getD []) (fun _ a => a.1) (fun _ a => a.2) ts [] (by simp [Dict.keys])

theorem mem_keys_mergeTable (ts : List (Option Table)) (k : Key) :
    k ∈ Dict.keys (mergeTable ts) ↔ ∃ t, some t ∈ ts ∧ k ∈ Dict.keys t := by
  rw [Dict.mem_keys_iff, get?_mergeTable, firstDefined, List.findSome?_isSome_iff]
  constructor
  · rintro ⟨x, hx, hs⟩
    cases x with
    | none => simp at hs
    | some t => exact ⟨t, hx, (Dict.mem_keys_iff _ _).mpr hs⟩
  · rintro ⟨t, ht, hk⟩
    exact ⟨some t, ht, (Dict.mem_keys_iff _ _).mp hk⟩

theorem mergeTable_all_none (ts : List (Option Table)) (h : ∀ t ∈ ts, t = none) : mergeTable ts = [] := by
  unfold mergeTable
  generalize ([] : Table) = acc
  induction ts generalizing acc with
  | nil => rfl
  | cons t r ih =>
    have ht : t = none := h t (by simp)
    subst ht
    rw [List.foldl_cons]
    exact ih (fun t' ht' => h t' (List.mem_cons_of_mem _ ht')) acc

-- the dispatch --------------------------------------------------------------------------------------------------------

theorem get?_map_fst {γ : Type} (F : String → γ) (l : List (String × String)) (a : String) :
    Dict.get? a (l.map (fun e => (e.1, F e.1))) = if a ∈ l.map (·.1) then some (F a) else none := by
  induction l with
  | nil => rfl
  | cons hd t ih =>
    obtain ⟨n, x⟩ := hd
    simp only [List.map_cons, Dict.get?, List.mem_cons]
    by_cases h : n = a
    · subst h; simp
    · have h' : ¬ a = n := fun e => h e.symm
      simp only [h, h', if_false, false_or]
      exact ih

theorem mergedPart_eq_of_mem (skip : List String) (inputs : List Input) (attr : String)
    (h : attr ∈ Gen.MergeDispatch.keepArity.map (·.1)) :
    mergedPart skip inputs attr =
      if guardHolds skip (guardsOf attr) then getNewIfNotEmpty (mergeTable (inputs.map (fun i => part i attr))) else none := by
  unfold mergedPart mergeSimple
  rw [get?_map_fst (fun n => if guardHolds skip (guardsOf n) then
    getNewIfNotEmpty (mergeTable (inputs.map (fun i => part i n))) else none), if_pos h]
  rfl

theorem mergedPart_eq_none_of_not_mem (skip : List String) (inputs : List Input) (attr : String)
    (h : attr ∉ Gen.MergeDispatch.keepArity.map (·.1)) : mergedPart skip inputs attr = none := by
  unfold mergedPart mergeSimple
  rw [get?_map_fst (fun n => if guardHolds skip (guardsOf n) then
    getNewIfNotEmpty (mergeTable (inputs.map (fun i => part i n))) else none), if_neg h]
  rfl

theorem guardHolds_single_skipped (skip : List String) (ty : String) (hs : ty ∈ skip) :
    guardHolds skip [[("not-skipped", [ty])]] = false := by
  simp [guardHolds, hs]

theorem getNewIfNotEmpty_of_ne_nil {α : Type} (t : List α) (h : t ≠ []) : getNewIfNotEmpty t = some t := by
  cases t with
  | nil => exact absurd rfl h
  | cons a r => rfl

-- record files / matches / features -----------------------------------------------------------------------------------

theorem get?_mergeRecordFiles (name : String) (lists : List (List String)) :
    Dict.get? name (mergeRecordFiles lists) = firstFileSource name lists := by
  unfold mergeRecordFiles firstFileSource
  rw [get?_insFold₂ (fun li : List String × Nat => li.1) (fun _ a => a) (fun li _ => li.2)]
  simp only [Dict.get?_nil, Option.none_or]
  congr 1
  funext li
  exact find?_eq_map_const name li.2 li.1

theorem get?_mergeMatchType (ty : String) (p : String × String) (inputs : List (Option MatchColl)) :
    Dict.get? p (mergeMatchType ty inputs) = firstMatchSource ty p inputs := by
  have hstep : mergeMatchType ty inputs = inputs.zipIdx.foldl (fun acc (ci : Option MatchColl × Nat) =>
      ((ci.1.bind (Dict.get? ty)).getD []).foldl
        (fun acc a => if Dict.has a acc then acc else Dict.set a ci.2 acc) acc) [] := by
    unfold mergeMatchType
    congr 1
    funext acc ci
    obtain ⟨c, i⟩ := ci
    cases c with
    | none => rfl
    | some c =>
      simp only [Option.bind_some]
      cases Dict.get? ty c <;> rfl
  rw [hstep, get?_insFold₂ (fun ci : Option MatchColl × Nat => (ci.1.bind (Dict.get? ty)).getD [])
    (fun _ a => a) (fun ci _ => ci.2)]
  simp only [Dict.get?_nil, Option.none_or, firstMatchSource]
  congr 1
  funext ci
  obtain ⟨c, i⟩ := ci
  cases c with
  | none => rfl
  | some c =>
    simp only [Option.bind_some]
    cases Dict.get? ty c with
    | none => rfl
    | some ps => exact find?_eq_map_const p i ps

theorem get?_mergeFeatType (ty name : String) (inputs : List (Option FeatColl)) :
    Dict.get? name (mergeFeatType ty inputs).2 = firstFeatSource ty name inputs := by
  unfold mergeFeatType
  simp only
  rw [get?_insFold₂ (fun s : Nat × FeatSet => s.2.images) (fun _ a => a) (fun s _ => s.1)]
  simp only [Dict.get?_nil, Option.none_or, firstFeatSource]
  rw [findSome?_filterMap']
  congr 1
  funext ci
  obtain ⟨c, i⟩ := ci
  cases c with
  | none => rfl
  | some c =>
    simp only [Option.bind_some]
    cases Dict.get? ty c with
    | none => rfl
    | some s => exact find?_eq_map_const name i s.images

-- type unions ---------------------------------------------------------------------------------------------------------

theorem mem_typesFold {ν : Type} (c : List (String × ν)) (acc : List String) (ty : String) :
    ty ∈ c.foldl (fun acc e => if acc.contains e.1 then acc else acc ++ [e.1]) acc ↔ ty ∈ acc ∨ ty ∈ Dict.keys c := by
  induction c generalizing acc with
  | nil => simp [Dict.keys]
  | cons e r ih =>
    rw [List.foldl_cons, ih]
    simp only [Dict.keys, List.map_cons, List.mem_cons]
    by_cases h : acc.contains e.1 = true
    · rw [if_pos h]
      have hm : e.1 ∈ acc := List.contains_iff_mem.mp h
      constructor
      · rintro (h1 | h1)
        · exact Or.inl h1
        · exact Or.inr (Or.inr h1)
      · rintro (h1 | h1 | h1)
        · exact Or.inl h1
        · exact Or.inl (h1 ▸ hm)
        · exact Or.inr h1
    · rw [if_neg h]
      simp only [List.mem_append, List.mem_singleton]
      constructor
      · rintro ((h1 | h1) | h1)
        · exact Or.inl h1
        · exact Or.inr (Or.inl h1)
        · exact Or.inr (Or.inr h1)
      · rintro (h1 | h1 | h1)
        · exact Or.inl (Or.inl h1)
        · exact Or.inl (Or.inr h1)
        · exact Or.inr h1

theorem mem_typesFold₂ {ν : Type} (step : List String → Option (List (String × ν)) → List String)
    (hnone : ∀ acc, step acc none = acc)
    (hsome : ∀ acc c, step acc (some c) = c.foldl (fun acc e => if acc.contains e.1 then acc else acc ++ [e.1]) acc)
    (inputs : List (Option (List (String × ν)))) (acc : List String) (ty : String) :
    ty ∈ inputs.foldl step acc ↔ ty ∈ acc ∨ ∃ c, some c ∈ inputs ∧ ty ∈ Dict.keys c := by
  induction inputs generalizing acc with
  | nil => simp
  | cons c r ih =>
    rw [List.foldl_cons, ih]
    cases c with
    | none =>
      simp only [hnone, List.mem_cons, reduceCtorEq, false_or]
    | some c =>
      simp only [hsome, mem_typesFold, List.mem_cons, Option.some.injEq]
      constructor
      · rintro ((h1 | h1) | ⟨c', h1, h2⟩)
        · exact Or.inl h1
        · exact Or.inr ⟨c, Or.inl rfl, h1⟩
        · exact Or.inr ⟨c', Or.inr h1, h2⟩
      · rintro (h1 | ⟨c', h1 | h1, h2⟩)
        · exact Or.inl (Or.inl h1)
        · exact Or.inl (Or.inr (h1 ▸ h2))
        · exact Or.inr ⟨c', h1, h2⟩

theorem mem_featTypes (inputs : List (Option FeatColl)) (ty : String) :
    ty ∈ featTypes inputs ↔ ∃ c, some c ∈ inputs ∧ ty ∈ Dict.keys c := by
  unfold featTypes
  refine (mem_typesFold₂ _ ?_ ?_ inputs [] ty).trans ?_
  · intro _; rfl
  · intro _ _; rfl
  · simp only [List.not_mem_nil, false_or]

theorem mem_matchTypes (inputs : List (Option MatchColl)) (ty : String) :
    ty ∈ matchTypes inputs ↔ ∃ c, some c ∈ inputs ∧ ty ∈ Dict.keys c := by
  unfold matchTypes
  refine (mem_typesFold₂ _ ?_ ?_ inputs [] ty).trans ?_
  · intro _; rfl
  · intro _ _; rfl
  · simp only [List.not_mem_nil, false_or]

end Kapture.C09
