/-
  Lemmas/C04.lean — specification-side definitions and helper lemmas for C04.
-/
import Kapture.Model.C04
import Std.Data.String.ToNat

namespace Kapture.C04

/-- the images the loaded dataset knows: the paths of the loaded camera records -/
def loadedImages (l : Loaded) : List String :=
  (((l.records.find? (fun kr => kr.1 == "records_camera")).map (·.2)).getD []).map (·.2.2)

def declaredOfType (d : Dir) (id ty : String) : Prop := ∃ rest, (id, ty, rest) ∈ d.sensors

def isRigId (d : Dir) (id : String) : Prop := ∃ r, r ∈ d.rigs.getD [] ∧ r.1 = id

/-- the member filter of `loadRigs` -/
def rigKeep (d : Dir) (rows : List (String × String × Tok)) (r : String × String × Tok) : Bool :=
  (sensorIds d).contains r.2.1 || (rows.map (·.1)).contains r.2.1

theorem loadRigs_ok {d : Dir} {rows out : List (String × String × Tok)} (h : loadRigs d rows = Except.ok out) :
    rows.any (fun r => (sensorIds d).contains r.1) = false ∧ out = rows.filter (rigKeep d rows) := by
  unfold loadRigs at h
  split at h
  · cases h
  · rename_i hc
    refine ⟨by simpa using hc, ?_⟩
    cases h
    rfl

theorem loadRigs_collision {d : Dir} {rows : List (String × String × Tok)}
    (hc : rows.any (fun r => (sensorIds d).contains r.1) = true) : loadRigs d rows = Except.error Err.collision := by
  unfold loadRigs
  rw [if_pos hc]

theorem loadRigsOpt_ok {d : Dir} {o rigs : Option (List (String × String × Tok))}
    (h : (match o with
      | none => Except.ok none
      | some rows => (loadRigs d rows).map some) = Except.ok rigs) :
    (∀ rows, o = some rows → rows.any (fun r => (sensorIds d).contains r.1) = false) ∧
      rigs = o.map (fun rows => rows.filter (rigKeep d rows)) := by
  cases o with
  | none =>
    cases h
    exact ⟨fun _ hh => (nomatch hh), rfl⟩
  | some rows =>
    dsimp only at h
    cases hlr : loadRigs d rows with
    | error e => rw [hlr] at h; cases h
    | ok out =>
      rw [hlr] at h
      cases h
      obtain ⟨h1, h2⟩ := loadRigs_ok hlr
      refine ⟨fun rows' hh => ?_, ?_⟩
      · cases hh; exact h1
      · rw [h2]; rfl

/-- what a successful `loadDir` returned -/
theorem loadDir_ok {cur : String} {d : Dir} {l : Loaded} (h : loadDir cur d = Except.ok l) :
    ∃ v, d.version = some v ∧ versionGt v cur = false ∧ l.version = v ∧ l.sensors = d.sensors ∧
      (∀ rows, d.rigs = some rows → rows.any (fun r => (sensorIds d).contains r.1) = false) ∧
      l.rigs = d.rigs.map (fun rows => rows.filter (rigKeep d rows)) ∧
      l.trajectories = d.trajectories.map (filterDevices (sensorIds d ++ (d.rigs.getD []).map (·.1))) ∧
      l.records = loadRecords d ∧
      ((v ≠ cur ∧ l.keypoints = none ∧ l.descriptors = none ∧ l.globalFeatures = none ∧ l.matchSets = none ∧
          l.points3d = none ∧ l.observations = none) ∨
       (v = cur ∧ l.keypoints = loadFeatures (loadedImages l) d.keypoints ∧
          l.descriptors = loadFeatures (loadedImages l) d.descriptors ∧
          l.globalFeatures = loadFeatures (loadedImages l) d.globalFeatures ∧
          l.matchSets = loadMatches (loadedImages l) d.matchSets ∧ l.points3d = d.points3d ∧
          ((d.observations = none ∧ l.observations = none) ∨
           ∃ k rows, l.keypoints = some k ∧ d.observations = some rows ∧
             l.observations = some (loadObservations k rows)))) := by
  unfold loadDir at h
  split at h
  · cases h
  · rename_i v hv
    split at h
    · cases h
    · rename_i hg
      split at h
      · cases h
      · rename_i rigs hrigs
        have hR : (∀ rows, d.rigs = some rows → rows.any (fun r => (sensorIds d).contains r.1) = false) ∧
            rigs = d.rigs.map (fun rows => rows.filter (rigKeep d rows)) := by
          exact loadRigsOpt_ok hrigs
        obtain ⟨hR1, hR2⟩ := hR
        have hg' : versionGt v cur = false := by simpa using hg
        dsimp only at h
        split at h
        · rename_i hne
          cases h
          exact ⟨v, hv, hg', rfl, rfl, hR1, hR2, rfl, rfl, Or.inl ⟨by simpa using hne, rfl, rfl, rfl, rfl, rfl, rfl⟩⟩
        · rename_i hne
          have hvc : v = cur := by simpa using hne
          split at h
          · cases h
          · split at h
            · rename_i hobs
              cases h
              exact ⟨v, hv, hg', rfl, rfl, hR1, hR2, rfl, rfl,
                Or.inr ⟨hvc, rfl, rfl, rfl, rfl, rfl, Or.inl ⟨hobs, rfl⟩⟩⟩
            · rename_i rows hobs
              split at h
              · rename_i k p hk hp
                cases h
                exact ⟨v, hv, hg', rfl, rfl, hR1, hR2, rfl, rfl,
                  Or.inr ⟨hvc, rfl, rfl, rfl, rfl, rfl, Or.inr ⟨k, rows, hk, hobs, rfl⟩⟩⟩
              · cases h


theorem mem_idsOfType {d : Dir} {id ty : String} : id ∈ idsOfType d ty ↔ declaredOfType d id ty := by
  unfold idsOfType declaredOfType
  simp only [List.mem_map, List.mem_filter, beq_iff_eq]
  constructor
  · rintro ⟨⟨a, b, c⟩, ⟨hs, rfl⟩, rfl⟩
    exact ⟨c, hs⟩
  · rintro ⟨rest, hs⟩
    exact ⟨(id, ty, rest), ⟨hs, rfl⟩, rfl⟩

theorem mem_filterDevices {ids : List String} {rows : List (Int × String × Tok)} {r : Int × String × Tok} :
    r ∈ filterDevices ids rows ↔ r ∈ rows ∧ r.2.1 ∈ ids := by
  simp [filterDevices]

theorem kindOfRecords_find {kind : String} {e : String × String}
    (h : kindOfRecords.find? (fun e => e.1 == kind) = some e) : e ∈ kindOfRecords ∧ e.1 = kind :=
  ⟨List.mem_of_find?_eq_some h, by simpa using List.find?_some h⟩

/-- where a loaded records file comes from -/
theorem mem_loadRecords_elim {d : Dir} {kind : String} {rows' : List (Int × String × Tok)}
    (h : (kind, rows') ∈ loadRecords d) :
    ∃ rows ty, (kind, rows) ∈ d.records ∧ (kind, ty) ∈ kindOfRecords ∧
      rows' = filterDevices (idsOfType d ty) rows := by
  unfold loadRecords at h
  rw [List.mem_filterMap] at h
  obtain ⟨⟨k, rows⟩, hmem, hsome⟩ := h
  dsimp only at hsome
  split at hsome
  · cases hsome
  · rename_i e he
    obtain ⟨hin, hk⟩ := kindOfRecords_find he
    split at hsome
    · cases hsome
    · cases hsome
      obtain ⟨e1, e2⟩ := e
      cases hk
      exact ⟨rows, e2, hmem, hin, rfl⟩

/-- a records file of a known kind with a declared sensor of its type is loaded -/
theorem mem_loadRecords_intro {d : Dir} {kind ty : String} {rows : List (Int × String × Tok)}
    (hk : (kind, rows) ∈ d.records) (hty : kindOfRecords.find? (fun e => e.1 == kind) = some (kind, ty))
    (hne : (idsOfType d ty).isEmpty = false) :
    (kind, filterDevices (idsOfType d ty) rows) ∈ loadRecords d := by
  unfold loadRecords
  rw [List.mem_filterMap]
  refine ⟨(kind, rows), hk, ?_⟩
  dsimp only
  rw [hty]
  dsimp only
  rw [hne, Bool.and_false]
  rfl

theorem loadFeatures_some {images : List String} {c : Option (List (String × Tok × List String))}
    {ts : List (String × Tok × List String)} (h : loadFeatures images c = some ts) :
    ∃ ds, c = some ds ∧ ts = ds.map (fun t => (t.1, t.2.1, t.2.2.filter (fun n => images.contains n))) := by
  unfold loadFeatures at h
  split at h
  · cases h
  · cases h
  · cases h
    exact ⟨_, rfl, rfl⟩

theorem loadMatches_some {images : List String} {c : Option (List (String × List (String × String)))}
    {ts : List (String × List (String × String))} (h : loadMatches images c = some ts) :
    ∃ ds, c = some ds ∧
      ts = ds.map (fun t => (t.1, t.2.filter (fun p => images.contains p.1 && images.contains p.2))) := by
  unfold loadMatches at h
  split at h
  · cases h
  · cases h
  · cases h
    exact ⟨_, rfl, rfl⟩

theorem mem_loadObservations {kps : List (String × Tok × List String)} {rows : List (Int × String × String × Int)}
    {o : Int × String × String × Int} :
    o ∈ loadObservations kps rows ↔
      (o ∈ rows ∧ ∃ cfg names, kps.find? (fun t => t.1 == o.2.1) = some (o.2.1, cfg, names) ∧ o.2.2.1 ∈ names) := by
  unfold loadObservations
  rw [List.mem_filter]
  refine and_congr_right fun _ => ?_
  split
  · rename_i hn
    simp [hn]
  · rename_i t ht
    have h1 : t.1 = o.2.1 := by simpa using List.find?_some ht
    obtain ⟨t1, cfg, names⟩ := t
    dsimp only at h1
    subst h1
    constructor
    · intro hh
      simp only [Bool.and_eq_true, List.contains_iff_mem] at hh
      exact ⟨cfg, names, ht, hh.2⟩
    · rintro ⟨cfg', names', heq, hin⟩
      rw [ht] at heq
      cases heq
      have : names.isEmpty = false := by
        cases names with
        | nil => cases hin
        | cons => rfl
      simp [this, hin]

theorem mem_deviceIds {d : Dir} {id : String} :
    id ∈ sensorIds d ++ (d.rigs.getD []).map (·.1) ↔ (id ∈ sensorIds d ∨ isRigId d id) := by
  rw [List.mem_append, List.mem_map]
  rfl

/-! ### the version comparison on the literals of `version_order_examples`

`String.splitOn` is a well-founded recursion that `decide` does not unfold: it is stepped by hand for the separator `"."`. -/

section Version
open String

theorem splitDot_end {s : String} {b i : Pos.Raw} {r : List String} (h : i.atEnd s = true) :
    s.splitOnAux "." b i 0 r = ((b.extract s i) :: r).reverse := by
  rw [String.splitOnAux, if_pos h]

theorem splitDot_match {s : String} {b i : Pos.Raw} {r : List String} (h : i.atEnd s = false)
    (hc : i.get s = '.') :
    s.splitOnAux "." b i 0 r
      = s.splitOnAux "." (i.next s) (i.next s) 0 (b.extract s ((i.next s).unoffsetBy ⟨1⟩) :: r) := by
  rw [String.splitOnAux, if_neg (by simp [h]), if_pos (by rw [hc]; decide)]
  dsimp only
  rw [if_pos (by decide)]
  rfl

theorem splitDot_skip {s : String} {b i : Pos.Raw} {r : List String} (h : i.atEnd s = false)
    (hc : (i.get s == '.') = false) :
    s.splitOnAux "." b i 0 r = s.splitOnAux "." b (i.next s) 0 r := by
  rw [String.splitOnAux, if_neg (by simp [h]), if_neg (by
    have : Pos.Raw.get "." 0 = '.' := by decide
    rw [this, hc]; decide)]
  rfl

macro "split_dot" : tactic => `(tactic|
  (unfold String.splitOn
   rw [if_neg (by decide)]
   repeat (first
     | rw [splitDot_end (by decide)]
     | rw [splitDot_match (by decide) (by decide)]
     | rw [splitDot_skip (by decide) (by decide)])
   decide))

theorem toNat_0 : "0".toNat? = some 0 := Nat.toNat?_repr 0
theorem toNat_1 : "1".toNat? = some 1 := Nat.toNat?_repr 1
theorem toNat_2 : "2".toNat? = some 2 := Nat.toNat?_repr 2
theorem toNat_10 : "10".toNat? = some 10 := Nat.toNat?_repr 10

theorem split_1_2 : "1.2".splitOn "." = ["1", "2"] := by split_dot
theorem parse_1_2 : parseVersion "1.2" = some (1, [2]) := by
  unfold parseVersion
  rw [split_1_2]
  dsimp only
  rw [toNat_1]
  simp

theorem split_2_0 : "2.0".splitOn "." = ["2", "0"] := by split_dot
theorem parse_2_0 : parseVersion "2.0" = some (2, [0]) := by
  unfold parseVersion
  rw [split_2_0]
  dsimp only
  rw [toNat_2]
  simp

theorem split_10_0 : "10.0".splitOn "." = ["10", "0"] := by split_dot
theorem parse_10_0 : parseVersion "10.0" = some (10, [0]) := by
  unfold parseVersion
  rw [split_10_0]
  dsimp only
  rw [toNat_10]
  simp

theorem split_1_0 : "1.0".splitOn "." = ["1", "0"] := by split_dot
theorem parse_1_0 : parseVersion "1.0" = some (1, [0]) := by
  unfold parseVersion
  rw [split_1_0]
  dsimp only
  rw [toNat_1]
  simp

theorem split_0_9 : "0.9".splitOn "." = ["0", "9"] := by split_dot
theorem parse_0_9 : parseVersion "0.9" = some (0, [9]) := by
  unfold parseVersion
  rw [split_0_9]
  dsimp only
  rw [toNat_0]
  simp

theorem split_1_1 : "1.1".splitOn "." = ["1", "1"] := by split_dot
theorem parse_1_1 : parseVersion "1.1" = some (1, [1]) := by
  unfold parseVersion
  rw [split_1_1]
  dsimp only
  rw [toNat_1]
  simp

theorem split_1_10 : "1.10".splitOn "." = ["1", "10"] := by split_dot
theorem parse_1_10 : parseVersion "1.10" = some (1, [1, 0]) := by
  unfold parseVersion
  rw [split_1_10]
  dsimp only
  rw [toNat_1]
  simp

theorem versionGt_examples :
    versionGt "1.2" "1.1" = true ∧ versionGt "2.0" "1.1" = true ∧ versionGt "10.0" "1.1" = true ∧
    versionGt "1.0" "1.1" = false ∧ versionGt "0.9" "1.1" = false ∧ versionGt "1.1" "1.1" = false ∧
    versionGt "1.10" "1.1" = false := by
  unfold versionGt
  rw [parse_1_2, parse_2_0, parse_10_0, parse_1_0, parse_0_9, parse_1_1, parse_1_10]
  decide

end Version

end Kapture.C04
