/-
  Lemmas/C10.lean — specification-side definitions and helper lemmas for C10.
-/
import Kapture.Model.C10

namespace Kapture.C10
open Kapture

/-- the sensor (resp. rig) mappings computed for a list of inputs -/
def sensorMaps (inputs : List InputIds) : List Mapping := (computeNewIds inputs 0 0).map (·.1)
def rigMaps (inputs : List InputIds) : List Mapping := (computeNewIds inputs 0 0).map (·.2)

/-- every fresh identifier handed out, over all inputs -/
def allNewIds (inputs : List InputIds) : List NewId :=
  (computeNewIds inputs 0 0).flatMap (fun m => m.1.map (·.2) ++ m.2.map (·.2))

/-- the disjoint union, consistently renamed: each input's entries, in input order, with the id component at `pos`
  renamed through that input's own mapping -/
def renamedConcat (pos : Nat) (tables : List (Option Table)) (mappings : List Mapping) : Except Err OutTable :=
  (tables.zip mappings).foldlM (fun acc tm =>
    match tm.1 with
    | none => Except.ok acc
    | some t => do
        let r ← t.mapM (fun kv => do
          let k ← renameAt pos tm.2 kv.1
          pure (k, kv.2))
        pure (acc ++ r)) []

def idsNodup (i : InputIds) : Prop :=
  (i.sensors.getD []).Nodup ∧ (i.rigs.getD []).Nodup

/-! ### association-list facts -/

section DictFacts
variable {κ ν : Type} [DecidableEq κ]

/-- `d[k] = v` on an absent key appends -/
theorem dict_set_absent (k : κ) (v : ν) (acc : List (κ × ν)) (h : Dict.get? k acc = none) :
    Dict.set k v acc = acc ++ [(k, v)] := by
  induction acc with
  | nil => rfl
  | cons hd t ih =>
    obtain ⟨k', v'⟩ := hd
    simp only [Dict.get?] at h
    split at h
    · cases h
    · next hne => simp [Dict.set, hne, ih h]

theorem dict_get?_of_mem (k : κ) (v : ν) (l : List (κ × ν)) (hm : (k, v) ∈ l) (hn : (l.map (·.1)).Nodup) :
    Dict.get? k l = some v := by
  induction l with
  | nil => cases hm
  | cons hd t ih =>
    obtain ⟨k', v'⟩ := hd
    simp only [List.map_cons, List.nodup_cons] at hn
    simp only [Dict.get?]
    rcases List.mem_cons.mp hm with h | h
    · cases h; simp
    · have hne : k' ≠ k := by
        intro he; subst he
        exact hn.1 (List.mem_map.mpr ⟨(k', v), h, rfl⟩)
      simp [hne, ih h hn.2]

theorem dict_mem_of_get? (k : κ) (v : ν) (l : List (κ × ν)) (h : Dict.get? k l = some v) : (k, v) ∈ l := by
  induction l with
  | nil => cases h
  | cons hd t ih =>
    obtain ⟨k', v'⟩ := hd
    simp only [Dict.get?] at h
    split at h
    · next he => cases h; subst he; exact List.mem_cons_self
    · exact List.mem_cons_of_mem _ (ih h)

omit [DecidableEq κ] in
/-- two bindings with the same value in a list with distinct values have the same key -/
theorem key_eq_of_vals_nodup (a b : κ) (n : ν) (l : List (κ × ν)) (ha : (a, n) ∈ l) (hb : (b, n) ∈ l)
    (hn : (l.map (·.2)).Nodup) : a = b := by
  induction l with
  | nil => cases ha
  | cons hd t ih =>
    obtain ⟨c, x⟩ := hd
    simp only [List.map_cons, List.nodup_cons] at hn
    rcases List.mem_cons.mp ha with h1 | h1 <;> rcases List.mem_cons.mp hb with h2 | h2
    · cases h1; cases h2; rfl
    · cases h1; exact absurd (List.mem_map.mpr ⟨(b, n), h2, rfl⟩) hn.1
    · cases h2; exact absurd (List.mem_map.mpr ⟨(a, n), h1, rfl⟩) hn.1
    · exact ih h1 h2 hn.2

end DictFacts

/-! ### fresh identifiers -/

def partMap (mk : Nat → NewId) (o : Option (List String)) (off : Nat) : Mapping :=
  match o with
  | some ids => mkMapping mk ids off
  | none => []

def partOff (o : Option (List String)) (off : Nat) : Nat :=
  match o with
  | some ids => off + ids.length
  | none => off

theorem computeNewIds_cons (i : InputIds) (rest : List InputIds) (so ro : Nat) :
    computeNewIds (i :: rest) so ro =
      (partMap NewId.sensor i.sensors so, partMap NewId.rig i.rigs ro) ::
        computeNewIds rest (partOff i.sensors so) (partOff i.rigs ro) := rfl

theorem partOff_eq (o : Option (List String)) (off : Nat) : partOff o off = off + (o.getD []).length := by
  cases o <;> simp [partOff]

theorem mkMapping_keys (mk : Nat → NewId) (ids : List String) (off : Nat) :
    (mkMapping mk ids off).map (·.1) = ids := by
  simp [mkMapping, List.map_map, Function.comp_def]

theorem mkMapping_vals (mk : Nat → NewId) (ids : List String) (off : Nat) :
    (mkMapping mk ids off).map (·.2) = (List.range ids.length).map (fun j => mk (off + j)) := by
  have : (mkMapping mk ids off).map (·.2) = (ids.zipIdx.map Prod.snd).map (fun j => mk (off + j)) := by
    simp only [mkMapping, List.map_map]; rfl
  rw [this, List.zipIdx_map_snd, List.range_eq_range']

theorem partMap_keys (mk : Nat → NewId) (o : Option (List String)) (off : Nat) :
    (partMap mk o off).map (·.1) = o.getD [] := by
  cases o <;> simp [partMap, mkMapping_keys]

theorem partMap_vals (mk : Nat → NewId) (o : Option (List String)) (off : Nat) :
    (partMap mk o off).map (·.2) = (List.range (o.getD []).length).map (fun j => mk (off + j)) := by
  cases o <;> simp [partMap, mkMapping_vals]

theorem partMap_vals_mem (mk : Nat → NewId) (o : Option (List String)) (off : Nat) (x : NewId) :
    x ∈ (partMap mk o off).map (·.2) ↔ ∃ j, j < (o.getD []).length ∧ x = mk (off + j) := by
  rw [partMap_vals]
  simp only [List.mem_map, List.mem_range]
  constructor
  · rintro ⟨j, hj, rfl⟩; exact ⟨j, hj, rfl⟩
  · rintro ⟨j, hj, rfl⟩; exact ⟨j, hj, rfl⟩

theorem partMap_vals_nodup (mk : Nat → NewId) (hmk : ∀ a b, mk a = mk b → a = b) (o : Option (List String))
    (off : Nat) : ((partMap mk o off).map (·.2)).Nodup := by
  rw [partMap_vals]
  unfold List.Nodup
  rw [List.pairwise_map]
  exact (List.nodup_range (n := (o.getD []).length)).imp
    (fun {a b} hab h => hab (by have := hmk _ _ h; omega))

/-- all identifiers handed out from offsets `so ro` on -/
def newIdsFrom (inputs : List InputIds) (so ro : Nat) : List NewId :=
  (computeNewIds inputs so ro).flatMap (fun m => m.1.map (·.2) ++ m.2.map (·.2))

theorem allNewIds_eq (inputs : List InputIds) : allNewIds inputs = newIdsFrom inputs 0 0 := rfl

theorem newIdsFrom_lower (inputs : List InputIds) : ∀ (so ro : Nat) (x : NewId), x ∈ newIdsFrom inputs so ro →
    (∃ n, x = NewId.sensor n ∧ so ≤ n) ∨ (∃ n, x = NewId.rig n ∧ ro ≤ n) := by
  induction inputs with
  | nil => intro so ro x hx; simp [newIdsFrom, computeNewIds] at hx
  | cons i rest ih =>
    intro so ro x hx
    simp only [newIdsFrom, computeNewIds_cons, List.flatMap_cons, List.mem_append] at hx
    rcases hx with (hx | hx) | hx
    · obtain ⟨j, _, rfl⟩ := (partMap_vals_mem _ _ _ _).mp hx
      exact Or.inl ⟨so + j, rfl, by omega⟩
    · obtain ⟨j, _, rfl⟩ := (partMap_vals_mem _ _ _ _).mp hx
      exact Or.inr ⟨ro + j, rfl, by omega⟩
    · have := ih _ _ x hx
      rw [partOff_eq, partOff_eq] at this
      rcases this with ⟨n, rfl, hn⟩ | ⟨n, rfl, hn⟩
      · exact Or.inl ⟨n, rfl, by omega⟩
      · exact Or.inr ⟨n, rfl, by omega⟩

theorem newIdsFrom_nodup (inputs : List InputIds) : ∀ (so ro : Nat), (newIdsFrom inputs so ro).Nodup := by
  induction inputs with
  | nil => intro so ro; simp [newIdsFrom, computeNewIds]
  | cons i rest ih =>
    intro so ro
    have hrest := ih (partOff i.sensors so) (partOff i.rigs ro)
    have hlow := newIdsFrom_lower rest (partOff i.sensors so) (partOff i.rigs ro)
    simp only [newIdsFrom, computeNewIds_cons, List.flatMap_cons]
    refine List.nodup_append.mpr ⟨?_, hrest, ?_⟩
    · refine List.nodup_append.mpr ⟨?_, ?_, ?_⟩
      · exact partMap_vals_nodup _ (fun a b h => by cases h; rfl) _ _
      · exact partMap_vals_nodup _ (fun a b h => by cases h; rfl) _ _
      · intro a ha b hb hab
        obtain ⟨j, _, rfl⟩ := (partMap_vals_mem _ _ _ _).mp ha
        obtain ⟨j', _, rfl⟩ := (partMap_vals_mem _ _ _ _).mp hb
        cases hab
    · intro a ha b hb hab
      subst hab
      have hb' := hlow a hb
      rw [partOff_eq, partOff_eq] at hb'
      rcases List.mem_append.mp ha with ha | ha
      · obtain ⟨j, hj, rfl⟩ := (partMap_vals_mem _ _ _ _).mp ha
        rcases hb' with ⟨n, hn, hle⟩ | ⟨n, hn, _⟩
        · cases hn; omega
        · cases hn
      · obtain ⟨j, hj, rfl⟩ := (partMap_vals_mem _ _ _ _).mp ha
        rcases hb' with ⟨n, hn, _⟩ | ⟨n, hn, hle⟩
        · cases hn
        · cases hn; omega

theorem computeNewIds_length (inputs : List InputIds) : ∀ so ro, (computeNewIds inputs so ro).length = inputs.length := by
  induction inputs with
  | nil => intro so ro; rfl
  | cons i rest ih => intro so ro; simp [computeNewIds_cons, ih]

theorem computeNewIds_keys (inputs : List InputIds) : ∀ (so ro n : Nat) (i : InputIds) (p : Mapping × Mapping),
    inputs[n]? = some i → (computeNewIds inputs so ro)[n]? = some p →
    p.1.map (·.1) = i.sensors.getD [] ∧ p.2.map (·.1) = i.rigs.getD [] := by
  induction inputs with
  | nil => intro so ro n i p hi; simp at hi
  | cons i0 rest ih =>
    intro so ro n i p hi hp
    rw [computeNewIds_cons] at hp
    cases n with
    | zero =>
      simp only [List.getElem?_cons_zero, Option.some.injEq] at hi hp
      subst hi; subst hp
      exact ⟨partMap_keys _ _ _, partMap_keys _ _ _⟩
    | succ n =>
      simp only [List.getElem?_cons_succ] at hi hp
      exact ih _ _ n i p hi hp

/-! ### the renamed concatenation, relationally -/

/-- one table renamed through one mapping -/
def renameTable (pos : Nat) (m : Mapping) (t : Table) : Except Err OutTable :=
  t.mapM (fun kv => do
    let k ← renameAt pos m kv.1
    pure (k, kv.2))

theorem renameTable_nil (pos : Nat) (m : Mapping) : renameTable pos m [] = Except.ok [] := by
  simp [renameTable, pure, Except.pure]

theorem renameTable_cons_ok (pos : Nat) (m : Mapping) (k : Key) (v : String) (t : Table) (r : OutTable) :
    renameTable pos m ((k, v) :: t) = Except.ok r ↔
      ∃ k' r', renameAt pos m k = Except.ok k' ∧ renameTable pos m t = Except.ok r' ∧ r = (k', v) :: r' := by
  simp only [renameTable, List.mapM_cons]
  cases h1 : renameAt pos m k with
  | error e => simp [bind, Except.bind]
  | ok k' =>
    cases h2 : List.mapM (fun kv : Key × String => do
        let k ← renameAt pos m kv.1
        pure (k, kv.2)) t with
    | error e => simp [bind, Except.bind, pure, Except.pure]
    | ok r' =>
      simp only [bind, Except.bind, pure, Except.pure, Except.ok.injEq]
      constructor
      · intro h; exact ⟨k', r', rfl, rfl, h.symm⟩
      · rintro ⟨k'', r'', hk, hr, rfl⟩; cases hk; cases hr; rfl

def rcStep (pos : Nat) (acc : OutTable) (tm : Option Table × Mapping) : Except Err OutTable :=
  match tm.1 with
  | none => Except.ok acc
  | some t => do
      let r ← renameTable pos tm.2 t
      pure (acc ++ r)

theorem renamedConcat_eq (pos : Nat) (tables : List (Option Table)) (mappings : List Mapping) :
    renamedConcat pos tables mappings = (tables.zip mappings).foldlM (rcStep pos) [] := rfl

/-- `RC pos tms rest`: `rest` is the concatenation of the renamed tables of `tms` -/
def RC (pos : Nat) : List (Option Table × Mapping) → OutTable → Prop
  | [], rest => rest = []
  | (none, _) :: tl, rest => RC pos tl rest
  | (some t, m) :: tl, rest =>
    ∃ r rest', renameTable pos m t = Except.ok r ∧ RC pos tl rest' ∧ rest = r ++ rest'

theorem rc_of_fold (pos : Nat) (tms : List (Option Table × Mapping)) : ∀ (acc out : OutTable),
    tms.foldlM (rcStep pos) acc = Except.ok out → ∃ rest, out = acc ++ rest ∧ RC pos tms rest := by
  induction tms with
  | nil =>
    intro acc out h
    simp only [List.foldlM_nil, pure, Except.pure, Except.ok.injEq] at h
    exact ⟨[], by simp [h], rfl⟩
  | cons hd tl ih =>
    intro acc out h
    obtain ⟨o, m⟩ := hd
    rw [List.foldlM_cons] at h
    cases o with
    | none =>
      simp only [rcStep, bind, Except.bind] at h
      obtain ⟨rest, h1, h2⟩ := ih acc out h
      exact ⟨rest, h1, h2⟩
    | some t =>
      simp only [rcStep] at h
      cases hr : renameTable pos m t with
      | error e => rw [hr] at h; simp [bind, Except.bind] at h
      | ok r =>
        rw [hr] at h
        simp only [bind, Except.bind, pure, Except.pure] at h
        obtain ⟨rest', h1, h2⟩ := ih (acc ++ r) out h
        exact ⟨r ++ rest', by simp [h1], r, rest', hr, h2, rfl⟩

theorem rc_of_renamedConcat (pos : Nat) (tables : List (Option Table)) (mappings : List Mapping) (out : OutTable)
    (h : renamedConcat pos tables mappings = Except.ok out) : RC pos (tables.zip mappings) out := by
  rw [renamedConcat_eq] at h
  obtain ⟨rest, h1, h2⟩ := rc_of_fold pos _ [] out h
  simpa [h1] using h2

/-! ### the merge computes the renamed concatenation -/

def mrInner (pos : Nat) (fw : Bool) (m : Mapping) (acc : OutTable) (kv : Key × String) : Except Err OutTable := do
  let k ← renameAt pos m kv.1
  if fw && Dict.has k acc then pure acc else pure (Dict.set k kv.2 acc)

def mrStep (pos : Nat) (fw : Bool) (acc : OutTable) (tm : Option Table × Mapping) : Except Err OutTable :=
  match tm.1 with
  | none => Except.ok acc
  | some t => t.foldlM (mrInner pos fw tm.2) acc

theorem mergeRenamed_eq (pos : Nat) (fw : Bool) (tables : List (Option Table)) (mappings : List Mapping) :
    mergeRenamed pos fw tables mappings = (tables.zip mappings).foldlM (mrStep pos fw) [] := rfl

theorem mr_inner_fold (pos : Nat) (fw : Bool) (m : Mapping) (t : Table) : ∀ (acc r : OutTable),
    renameTable pos m t = Except.ok r → ((acc ++ r).map (·.1)).Nodup →
    t.foldlM (mrInner pos fw m) acc = Except.ok (acc ++ r) := by
  induction t with
  | nil =>
    intro acc r hr _
    rw [renameTable_nil] at hr
    cases hr
    simp [pure, Except.pure]
  | cons hd t ih =>
    intro acc r hr hnd
    obtain ⟨k, v⟩ := hd
    obtain ⟨k', r', hk, hr', rfl⟩ := (renameTable_cons_ok _ _ _ _ _ _).mp hr
    have hnd' : (((acc ++ [(k', v)]) ++ r').map (·.1)).Nodup := by simpa using hnd
    have habs : Dict.get? k' acc = none := by
      rw [Dict.get?_eq_none_iff]
      intro hmem
      simp only [List.map_append, List.map_cons, List.nodup_append] at hnd
      exact hnd.2.2 k' hmem k' List.mem_cons_self rfl
    have hstep : mrInner pos fw m acc (k, v) = Except.ok (acc ++ [(k', v)]) := by
      simp [mrInner, hk, bind, Except.bind, Dict.has, habs, pure, Except.pure, dict_set_absent]
    rw [List.foldlM_cons, hstep]
    simp only [bind, Except.bind]
    rw [ih _ _ hr' hnd']
    simp

theorem mr_fold (pos : Nat) (fw : Bool) (tms : List (Option Table × Mapping)) : ∀ (acc rest : OutTable),
    RC pos tms rest → ((acc ++ rest).map (·.1)).Nodup →
    tms.foldlM (mrStep pos fw) acc = Except.ok (acc ++ rest) := by
  induction tms with
  | nil =>
    intro acc rest hrc _
    simp only [RC] at hrc
    subst hrc
    simp [pure, Except.pure]
  | cons hd tl ih =>
    intro acc rest hrc hnd
    obtain ⟨o, m⟩ := hd
    rw [List.foldlM_cons]
    cases o with
    | none =>
      simp only [RC] at hrc
      simp only [mrStep, bind, Except.bind]
      exact ih acc rest hrc hnd
    | some t =>
      simp only [RC] at hrc
      obtain ⟨r, rest', hr, hrc', rfl⟩ := hrc
      have hnd1 : ((acc ++ r).map (·.1)).Nodup := by
        rw [← List.append_assoc, List.map_append] at hnd
        exact (List.nodup_append.mp hnd).1
      have hnd2 : (((acc ++ r) ++ rest').map (·.1)).Nodup := by simpa using hnd
      simp only [mrStep]
      rw [mr_inner_fold pos fw m t acc r hr hnd1]
      simp only [bind, Except.bind]
      rw [ih _ _ hrc' hnd2]
      simp

/-! ### structural facts about the renamed concatenation -/

theorem renameTable_length (pos : Nat) (m : Mapping) (t : Table) : ∀ (r : OutTable),
    renameTable pos m t = Except.ok r → r.length = t.length := by
  induction t with
  | nil => intro r hr; rw [renameTable_nil] at hr; cases hr; rfl
  | cons hd t ih =>
    intro r hr
    obtain ⟨k, v⟩ := hd
    obtain ⟨k', r', _, hr', rfl⟩ := (renameTable_cons_ok _ _ _ _ _ _).mp hr
    simp [ih r' hr']

theorem rc_length (pos : Nat) (tms : List (Option Table × Mapping)) : ∀ (rest : OutTable), RC pos tms rest →
    rest.length = (tms.map (fun tm => (tm.1.getD []).length)).sum := by
  induction tms with
  | nil => intro rest h; simp only [RC] at h; subst h; rfl
  | cons hd tl ih =>
    intro rest h
    obtain ⟨o, m⟩ := hd
    cases o with
    | none => simp only [RC] at h; simp [ih rest h]
    | some t =>
      simp only [RC] at h
      obtain ⟨r, rest', hr, hrc, rfl⟩ := h
      simp [ih rest' hrc, renameTable_length pos m t r hr]

theorem renameTable_mem (pos : Nat) (m : Mapping) (t : Table) : ∀ (r : OutTable) (k : Key) (v : String) (k' : OutKey),
    renameTable pos m t = Except.ok r → (k, v) ∈ t → renameAt pos m k = Except.ok k' → (k', v) ∈ r := by
  induction t with
  | nil => intro r k v k' _ hm; cases hm
  | cons hd t ih =>
    intro r k v k' hr hm hk
    obtain ⟨k0, v0⟩ := hd
    obtain ⟨k0', r', hk0, hr', rfl⟩ := (renameTable_cons_ok _ _ _ _ _ _).mp hr
    rcases List.mem_cons.mp hm with h | h
    · cases h
      rw [hk] at hk0; cases hk0
      exact List.mem_cons_self
    · exact List.mem_cons_of_mem _ (ih r' k v k' hr' h hk)

/-- every renamed entry comes from an entry of the table -/
theorem renameTable_mem_inv (pos : Nat) (m : Mapping) (t : Table) : ∀ (r : OutTable) (k' : OutKey) (v : String),
    renameTable pos m t = Except.ok r → (k', v) ∈ r → ∃ k, (k, v) ∈ t ∧ renameAt pos m k = Except.ok k' := by
  induction t with
  | nil => intro r k' v hr hm; rw [renameTable_nil] at hr; cases hr; cases hm
  | cons hd t ih =>
    intro r k' v hr hm
    obtain ⟨k0, v0⟩ := hd
    obtain ⟨k0', r', hk0, hr', rfl⟩ := (renameTable_cons_ok _ _ _ _ _ _).mp hr
    rcases List.mem_cons.mp hm with h | h
    · cases h
      exact ⟨k0, List.mem_cons_self, hk0⟩
    · obtain ⟨k, hk1, hk2⟩ := ih r' k' v hr' h
      exact ⟨k, List.mem_cons_of_mem _ hk1, hk2⟩

theorem rc_mem (pos : Nat) (tms : List (Option Table × Mapping)) : ∀ (rest : OutTable) (t : Table) (m : Mapping)
    (k : Key) (v : String) (k' : OutKey), RC pos tms rest → (some t, m) ∈ tms → (k, v) ∈ t →
    renameAt pos m k = Except.ok k' → (k', v) ∈ rest := by
  induction tms with
  | nil => intro rest t m k v k' _ hm; cases hm
  | cons hd tl ih =>
    intro rest t m k v k' hrc hm hkv hk
    obtain ⟨o, m0⟩ := hd
    cases o with
    | none =>
      simp only [RC] at hrc
      rcases List.mem_cons.mp hm with h | h
      · cases h
      · exact ih rest t m k v k' hrc h hkv hk
    | some t0 =>
      simp only [RC] at hrc
      obtain ⟨r, rest', hr, hrc', rfl⟩ := hrc
      rcases List.mem_cons.mp hm with h | h
      · cases h
        exact List.mem_append_left _ (renameTable_mem pos m t r k v k' hr hkv hk)
      · exact List.mem_append_right _ (ih rest' t m k v k' hrc' h hkv hk)

theorem zip_getElem?_some {α β : Type} (l1 : List α) (l2 : List β) (n : Nat) (a : α) (b : β)
    (h1 : l1[n]? = some a) (h2 : l2[n]? = some b) : (a, b) ∈ l1.zip l2 := by
  have : (l1.zip l2)[n]? = some (a, b) := by
    rw [List.getElem?_zip_eq_some]
    exact ⟨h1, h2⟩
  exact List.mem_of_getElem? this

/-! ### renamed keys do not collide -/

/-- shape of a renamed key -/
theorem renameAt_ok (pos : Nat) (m : Mapping) (k : Key) (k' : OutKey) (h : renameAt pos m k = Except.ok k') :
    ∃ (id : String) (n : NewId), k[pos]? = some id ∧ (id, n) ∈ m ∧
      k' = (k.take pos).map Comp.str ++ [Comp.new n] ++ (k.drop (pos + 1)).map Comp.str := by
  unfold renameAt at h
  cases hid : k[pos]? with
  | none => rw [hid] at h; cases h
  | some id =>
    rw [hid] at h
    simp only at h
    cases hn : Dict.get? id m with
    | none => rw [hn] at h; cases h
    | some n =>
      rw [hn] at h
      simp only [Except.ok.injEq] at h
      exact ⟨id, n, rfl, dict_mem_of_get? _ _ _ hn, h.symm⟩

/-- the component at `pos` of a renamed key is a fresh identifier of the mapping -/
theorem renameAt_comp (pos : Nat) (m : Mapping) (k : Key) (k' : OutKey) (h : renameAt pos m k = Except.ok k') :
    ∃ n, k'[pos]? = some (Comp.new n) ∧ n ∈ m.map (·.2) := by
  obtain ⟨id, n, hid, hmem, rfl⟩ := renameAt_ok pos m k k' h
  refine ⟨n, ?_, List.mem_map.mpr ⟨(id, n), hmem, rfl⟩⟩
  have hlt : pos < k.length := by
    rcases List.getElem?_eq_some_iff.mp hid with ⟨hlt, _⟩
    exact hlt
  have hlen : ((k.take pos).map Comp.str).length = pos := by
    simp [List.length_take]; omega
  rw [List.append_assoc, List.getElem?_append_right (by omega), hlen]
  simp

theorem map_str_inj (a b : List String) (h : a.map Comp.str = b.map Comp.str) : a = b := by
  induction a generalizing b with
  | nil => cases b with
    | nil => rfl
    | cons _ _ => cases h
  | cons x a ih => cases b with
    | nil => cases h
    | cons y b =>
      simp only [List.map_cons, List.cons.injEq, Comp.str.injEq] at h
      rw [h.1, ih b h.2]

/-- renaming through a mapping with distinct values is injective on keys -/
theorem renameAt_inj (pos : Nat) (m : Mapping) (k1 k2 : Key) (k' : OutKey) (hv : (m.map (·.2)).Nodup)
    (h1 : renameAt pos m k1 = Except.ok k') (h2 : renameAt pos m k2 = Except.ok k') : k1 = k2 := by
  obtain ⟨id1, n1, hid1, hm1, e1⟩ := renameAt_ok pos m k1 k' h1
  obtain ⟨id2, n2, hid2, hm2, e2⟩ := renameAt_ok pos m k2 k' h2
  have hlt1 : pos < k1.length := (List.getElem?_eq_some_iff.mp hid1).1
  have hlt2 : pos < k2.length := (List.getElem?_eq_some_iff.mp hid2).1
  rw [e1, List.append_assoc, List.append_assoc] at e2
  have hlen : ((k1.take pos).map Comp.str).length = ((k2.take pos).map Comp.str).length := by
    simp [List.length_take]; omega
  obtain ⟨ha, hb⟩ := List.append_inj e2 hlen
  simp only [List.cons_append, List.nil_append, List.cons.injEq, Comp.new.injEq] at hb
  obtain ⟨hn, hd⟩ := hb
  subst hn
  have hid : id1 = id2 := key_eq_of_vals_nodup id1 id2 n1 m hm1 hm2 hv
  subst hid
  have ht := map_str_inj _ _ ha
  have hdr := map_str_inj _ _ hd
  have g1 : k1[pos] = id1 := (List.getElem?_eq_some_iff.mp hid1).2
  have g2 : k2[pos] = id1 := (List.getElem?_eq_some_iff.mp hid2).2
  calc k1 = k1.take pos ++ k1.drop pos := (List.take_append_drop pos k1).symm
    _ = k1.take pos ++ (k1[pos] :: k1.drop (pos + 1)) := by rw [List.drop_eq_getElem_cons hlt1]
    _ = k2.take pos ++ (k2[pos] :: k2.drop (pos + 1)) := by rw [ht, hdr, g1, g2]
    _ = k2.take pos ++ k2.drop pos := by rw [List.drop_eq_getElem_cons hlt2]
    _ = k2 := List.take_append_drop pos k2

theorem renameTable_keys_nodup (pos : Nat) (m : Mapping) (hv : (m.map (·.2)).Nodup) (t : Table) : ∀ (r : OutTable),
    renameTable pos m t = Except.ok r → (t.map (·.1)).Nodup → (r.map (·.1)).Nodup := by
  induction t with
  | nil => intro r hr _; rw [renameTable_nil] at hr; cases hr; simp
  | cons hd t ih =>
    intro r hr hnd
    obtain ⟨k, v⟩ := hd
    obtain ⟨k', r', hk, hr', rfl⟩ := (renameTable_cons_ok _ _ _ _ _ _).mp hr
    simp only [List.map_cons, List.nodup_cons] at hnd ⊢
    refine ⟨?_, ih r' hr' hnd.2⟩
    intro hmem
    obtain ⟨⟨k'', v2⟩, hmem2, rfl⟩ := List.mem_map.mp hmem
    obtain ⟨k2, hk2, hk2r⟩ := renameTable_mem_inv pos m t r' _ v2 hr' hmem2
    have : k = k2 := renameAt_inj pos m k k2 _ hv hk hk2r
    subst this
    exact hnd.1 (List.mem_map.mpr ⟨(k, v2), hk2, rfl⟩)

/-- every key of the renamed concatenation carries at `pos` a fresh identifier of one of the mappings -/
theorem rc_comp (pos : Nat) (tms : List (Option Table × Mapping)) : ∀ (rest : OutTable) (k' : OutKey),
    RC pos tms rest → k' ∈ rest.map (·.1) →
    ∃ n, k'[pos]? = some (Comp.new n) ∧ n ∈ (tms.map (·.2)).flatMap (fun m => m.map (·.2)) := by
  induction tms with
  | nil => intro rest k' h hm; simp only [RC] at h; subst h; cases hm
  | cons hd tl ih =>
    intro rest k' h hm
    obtain ⟨o, m⟩ := hd
    cases o with
    | none =>
      simp only [RC] at h
      obtain ⟨n, h1, h2⟩ := ih rest k' h hm
      exact ⟨n, h1, by simp only [List.map_cons, List.flatMap_cons]; exact List.mem_append_right _ h2⟩
    | some t =>
      simp only [RC] at h
      obtain ⟨r, rest', hr, hrc, rfl⟩ := h
      rw [List.map_append] at hm
      rcases List.mem_append.mp hm with hm | hm
      · obtain ⟨⟨k'', v⟩, hmem, rfl⟩ := List.mem_map.mp hm
        obtain ⟨k, _, hk⟩ := renameTable_mem_inv pos m t r _ v hr hmem
        obtain ⟨n, h1, h2⟩ := renameAt_comp pos m k _ hk
        exact ⟨n, h1, by simp only [List.map_cons, List.flatMap_cons]; exact List.mem_append_left _ h2⟩
      · obtain ⟨n, h1, h2⟩ := ih rest' k' hrc hm
        exact ⟨n, h1, by simp only [List.map_cons, List.flatMap_cons]; exact List.mem_append_right _ h2⟩

theorem rc_keys_nodup (pos : Nat) (tms : List (Option Table × Mapping)) : ∀ (rest : OutTable), RC pos tms rest →
    (∀ t m, (some t, m) ∈ tms → (t.map (·.1)).Nodup) →
    ((tms.map (·.2)).flatMap (fun m => m.map (·.2))).Nodup → (rest.map (·.1)).Nodup := by
  induction tms with
  | nil => intro rest h _ _; simp only [RC] at h; subst h; simp
  | cons hd tl ih =>
    intro rest h hk hv
    obtain ⟨o, m⟩ := hd
    simp only [List.map_cons, List.flatMap_cons] at hv
    obtain ⟨hv1, hv2, hv3⟩ := List.nodup_append.mp hv
    have hk' : ∀ t m, (some t, m) ∈ tl → (t.map (·.1)).Nodup :=
      fun t m hm => hk t m (List.mem_cons_of_mem _ hm)
    cases o with
    | none =>
      simp only [RC] at h
      exact ih rest h hk' hv2
    | some t =>
      simp only [RC] at h
      obtain ⟨r, rest', hr, hrc, rfl⟩ := h
      rw [List.map_append]
      refine List.nodup_append.mpr ⟨?_, ih rest' hrc hk' hv2, ?_⟩
      · exact renameTable_keys_nodup pos m hv1 t r hr (hk t m List.mem_cons_self)
      · intro a ha b hb hab
        subst hab
        obtain ⟨⟨k'', v⟩, hmem, rfl⟩ := List.mem_map.mp ha
        obtain ⟨k, _, hkr⟩ := renameTable_mem_inv pos m t r _ v hr hmem
        obtain ⟨n1, h1, h1m⟩ := renameAt_comp pos m k _ hkr
        obtain ⟨n2, h2, h2m⟩ := rc_comp pos tl rest' _ hrc hb
        rw [h1] at h2
        simp only [Option.some.injEq, Comp.new.injEq] at h2
        subst h2
        exact hv3 n1 h1m n1 h2m rfl

theorem zip_snd_flatMap_sublist {α β γ : Type} (f : β → List γ) (l1 : List α) : ∀ (l2 : List β),
    List.Sublist (((l1.zip l2).map (·.2)).flatMap f) (l2.flatMap f) := by
  induction l1 with
  | nil => intro l2; simp
  | cons a l1 ih =>
    intro l2
    cases l2 with
    | nil => simp
    | cons b l2 =>
      simp only [List.zip_cons_cons, List.map_cons, List.flatMap_cons]
      exact List.Sublist.append_left (ih l2) _

end Kapture.C10
