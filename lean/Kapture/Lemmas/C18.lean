/-
  Lemmas/C18.lean — specification-side definitions and helper lemmas for C18.

  The containment argument (Props/C18.lean: `extract_never_escapes`) rests on four facts proved here:
    K2  `kresolve_realpath`    where the kernel's walk succeeds, Python's lexical `realpath` gives the same path;
    R2  `realpath_after_kresolve`  a `realpath` over `cs ++ rest` whose prefix `cs` the kernel resolves to `p` continues from `p`;
    LEX `realpath_lexical`     below a path that does not exist (in a tree where nothing exists below a missing path),
                               `realpath` of `..`-free components is purely lexical;
    R3  `realpath_congr`       `realpath` depends on the tree only through its symbolic links (making directories does not
                               change it).
-/
import Kapture.Model.C18

namespace Kapture.C18

/-- no symbolic link anywhere in the tree -/
def LinkFree (fs : FS) : Prop := ∀ e ∈ fs, ∀ t, e.2 ≠ Node.link t

/-- a plain relative name: no empty / "." / ".." component, not absolute -/
def PlainName (s : String) : Prop := ∀ c ∈ split s, c ≠ "" ∧ c ≠ "." ∧ c ≠ ".."

def Inside (dest target : Path) : Prop := isPrefix dest target = true

/-- nothing exists below a path that does not exist (true of every real tree) -/
def Closed (fs : FS) : Prop := ∀ p q, lookup fs p = none → lookup fs (p ++ q) = none

theorem lookup_not_link (fs : FS) (h : LinkFree fs) (p : Path) (t : String) : lookup fs p ≠ some (Node.link t) := by
  unfold lookup
  split
  · simp
  · intro heq
    rw [Option.map_eq_some_iff] at heq
    obtain ⟨e, he, h2⟩ := heq
    exact h e (List.mem_of_find?_eq_some he) t h2

/-! ### prefixes -/

theorem isPrefix_iff {a b : Path} : isPrefix a b = true ↔ ∃ x, b = a ++ x := by
  unfold isPrefix
  constructor
  · intro h
    simp only [Bool.and_eq_true, decide_eq_true_eq, beq_iff_eq] at h
    refine ⟨b.drop a.length, ?_⟩
    have := (List.take_append_drop a.length b).symm
    rw [h.2] at this
    exact this
  · rintro ⟨x, rfl⟩
    simp

theorem isPrefix_append (a b : Path) : isPrefix a (a ++ b) = true := isPrefix_iff.mpr ⟨b, rfl⟩

theorem isPrefix_refl (a : Path) : isPrefix a a = true := isPrefix_iff.mpr ⟨[], by simp⟩

theorem isPrefix_nil (a : Path) : isPrefix [] a = true := isPrefix_iff.mpr ⟨a, by simp⟩

theorem isPrefix_length {a b : Path} (h : isPrefix a b = true) : a.length ≤ b.length := by
  obtain ⟨x, rfl⟩ := isPrefix_iff.mp h
  simp

theorem isPrefix_trans {a b c : Path} (h1 : isPrefix a b = true) (h2 : isPrefix b c = true) : isPrefix a c = true := by
  obtain ⟨x, rfl⟩ := isPrefix_iff.mp h1
  obtain ⟨y, rfl⟩ := isPrefix_iff.mp h2
  exact isPrefix_iff.mpr ⟨x ++ y, by simp⟩

theorem isPrefix_antisymm {a b : Path} (h1 : isPrefix a b = true) (h2 : isPrefix b a = true) : a = b := by
  obtain ⟨x, rfl⟩ := isPrefix_iff.mp h1
  have := isPrefix_length h2
  simp only [List.length_append] at this
  have hx : x = [] := List.eq_nil_of_length_eq_zero (by omega)
  simp [hx]

/-- two prefixes of one path are comparable -/
theorem isPrefix_comparable {a b c : Path} (h1 : isPrefix a c = true) (h2 : isPrefix b c = true) :
    isPrefix a b = true ∨ isPrefix b a = true := by
  obtain ⟨x, hx⟩ := isPrefix_iff.mp h1
  obtain ⟨y, hy⟩ := isPrefix_iff.mp h2
  rw [hx] at hy
  rcases List.append_eq_append_iff.mp hy with ⟨z, hz, _⟩ | ⟨z, hz, _⟩
  · exact Or.inl (isPrefix_iff.mpr ⟨z, hz⟩)
  · exact Or.inr (isPrefix_iff.mpr ⟨z, hz⟩)

theorem isPrefix_dropLast {a b : Path} (h : isPrefix a b = true) (hne : a ≠ b) : isPrefix a b.dropLast = true := by
  obtain ⟨x, rfl⟩ := isPrefix_iff.mp h
  have hx : x ≠ [] := by intro e; apply hne; simp [e]
  rw [List.dropLast_append_of_ne_nil hx]
  exact isPrefix_append _ _

theorem dropLast_isPrefix {a b : Path} (h : isPrefix a b = true) : isPrefix a.dropLast b = true := by
  obtain ⟨x, rfl⟩ := isPrefix_iff.mp h
  rcases List.eq_nil_or_concat a with rfl | ⟨l, c, rfl⟩
  · simp [isPrefix_nil]
  · rw [List.concat_eq_append, List.dropLast_concat]
    exact isPrefix_iff.mpr ⟨c :: x, by simp⟩

/-- `p` is dest, below dest, or an ancestor of dest: the part of the world the model knows -/
def known (dest p : Path) : Prop := isPrefix dest p = true ∨ isPrefix p dest = true

theorem known_dropLast {dest p : Path} (h : known dest p) : known dest p.dropLast := by
  rcases h with h | h
  · by_cases e : dest = p
    · subst e; exact Or.inr (dropLast_isPrefix (isPrefix_refl _))
    · exact Or.inl (isPrefix_dropLast h e)
  · exact Or.inr (dropLast_isPrefix h)

theorem known_nil (dest : Path) : known dest [] := Or.inr (isPrefix_nil _)

theorem known_self (dest : Path) : known dest dest := Or.inl (isPrefix_refl _)

/-! ### the tree as a finite map -/

theorem rel_append (dest x : Path) : rel dest (dest ++ x) = x := by simp [rel]

theorem lookup_nil (fs : FS) : lookup fs [] = some Node.dir := by simp [lookup]

theorem lookup_setNode_self (fs : FS) (p : Path) (n : Node) (hp : p ≠ []) : lookup (setNode fs p n) p = some n := by
  have hpe : p.isEmpty = false := by cases p <;> simp_all
  unfold lookup setNode
  rw [hpe]
  simp only [Bool.false_eq_true, if_false]
  split
  · rename_i hany
    induction fs with
    | nil => simp at hany
    | cons e fs ih =>
      simp only [List.map_cons, List.find?_cons]
      by_cases he : e.1 == p
      · simp [he]
      · simp only [he, Bool.false_eq_true, if_false]
        simp only [List.any_cons, he, Bool.false_or] at hany
        exact ih hany
  · rename_i hany
    have hnone : fs.find? (fun e => e.1 == p) = none := by
      rw [List.find?_eq_none]
      intro e he hh
      exact hany (List.any_eq_true.mpr ⟨e, he, hh⟩)
    simp [List.find?_append, hnone]

theorem find_map_replace_ne (fs : FS) (p q : Path) (n : Node) (hpq : (p == q) = false) :
    (fs.map (fun e => if e.1 == p then (p, n) else e)).find? (fun e => e.1 == q) = fs.find? (fun e => e.1 == q) := by
  induction fs with
  | nil => rfl
  | cons e fs ih =>
    simp only [List.map_cons, List.find?_cons]
    by_cases he : e.1 == p
    · have e1 : e.1 = p := by simpa using he
      have h2 : (e.1 == q) = false := by rw [e1]; exact hpq
      rw [if_pos he]
      simp only [hpq, h2]
      exact ih
    · rw [if_neg he]
      by_cases h2 : e.1 == q
      · simp [h2]
      · simp only [h2]
        exact ih

theorem lookup_setNode_ne (fs : FS) (p q : Path) (n : Node) (hq : q ≠ p) : lookup (setNode fs p n) q = lookup fs q := by
  have hpq : (p == q) = false := by simpa using fun e => hq e.symm
  unfold lookup
  split
  · rfl
  · congr 1
    unfold setNode
    split
    · exact find_map_replace_ne fs p q n hpq
    · simp [List.find?_append, hpq]

/-! ### `realpath`: fuel and determinism -/

theorem realpath_mono (dest : Path) (fs : FS) : ∀ (n : Nat) (cur : Path) (cs : List String) (p : Path),
    realpath dest fs n cur cs = some p → realpath dest fs (n + 1) cur cs = some p := by
  intro n
  induction n with
  | zero => intro cur cs p h; simp [realpath] at h
  | succ n ih =>
    intro cur cs p h
    cases cs with
    | nil => simpa [realpath] using h
    | cons c rest =>
      rw [realpath.eq_3] at h ⊢
      dsimp only at h ⊢
      split
      · rename_i hc; rw [if_pos hc] at h; exact ih _ _ _ h
      · rename_i hc; rw [if_neg hc] at h
        split
        · rename_i hd; rw [if_pos hd] at h; exact ih _ _ _ h
        · rename_i hd; rw [if_neg hd] at h
          split
          · rename_i t hnode
            rw [hnode] at h
            dsimp only at h
            split
            · rename_i ht; rw [if_pos ht] at h; exact ih _ _ _ h
            · rename_i ht; rw [if_neg ht] at h; exact ih _ _ _ h
          · rename_i hnode
            split at h
            · rename_i t' hnode'
              exact absurd hnode' (hnode t')
            · exact ih _ _ _ h

theorem realpath_mono_le (dest : Path) (fs : FS) {n m : Nat} (hnm : n ≤ m) {cur : Path} {cs : List String} {p : Path}
    (h : realpath dest fs n cur cs = some p) : realpath dest fs m cur cs = some p := by
  induction hnm with
  | refl => exact h
  | step _ ih => exact realpath_mono dest fs _ _ _ _ ih

/-- with whatever fuel it succeeds, `realpath` gives one answer -/
theorem realpath_det (dest : Path) (fs : FS) {n m : Nat} {cur : Path} {cs : List String} {a b : Path}
    (h1 : realpath dest fs n cur cs = some a) (h2 : realpath dest fs m cur cs = some b) : a = b := by
  have e1 := realpath_mono_le dest fs (Nat.le_max_left n m) h1
  have e2 := realpath_mono_le dest fs (Nat.le_max_right n m) h2
  rw [e1] at e2
  exact Option.some.inj e2

/-- the node `realpath` looks at -/
def nodeAt (dest : Path) (fs : FS) (p : Path) : Option Node := if isPrefix dest p then lookup fs (p.drop dest.length) else none

/-- R3: `realpath` depends on the tree only through its symbolic links -/
theorem realpath_congr (dest : Path) (fs1 fs2 : FS)
    (hl : ∀ p t, nodeAt dest fs1 p = some (Node.link t) ↔ nodeAt dest fs2 p = some (Node.link t)) :
    ∀ (n : Nat) (cur : Path) (cs : List String), realpath dest fs1 n cur cs = realpath dest fs2 n cur cs := by
  intro n
  induction n with
  | zero => intro cur cs; simp [realpath]
  | succ n ih =>
    intro cur cs
    cases cs with
    | nil => simp [realpath]
    | cons c rest =>
      rw [realpath.eq_3, realpath.eq_3]
      dsimp only
      split
      · exact ih _ _
      · split
        · exact ih _ _
        · have h1 := hl (cur ++ [c])
          unfold nodeAt at h1
          split
          · rename_i t hnode
            have := (h1 t).mp hnode
            rw [this]
            dsimp only
            split <;> exact ih _ _
          · rename_i hnode
            split
            · rename_i t' hnode'
              exact absurd ((h1 t').mpr hnode') (hnode t')
            · exact ih _ _

/-- LEX: where no symbolic link stands below `base`, `realpath` of `..`-free components is purely lexical -/
theorem realpath_lexical (dest : Path) (fs : FS) : ∀ (n : Nat) (base : Path) (cs : List String) (t : Path),
    (∀ x, x ≠ [] → ∀ l, nodeAt dest fs (base ++ x) ≠ some (Node.link l)) → ".." ∉ cs →
    realpath dest fs n base cs = some t → t = base ++ cs.filter (fun c => !(c == "" || c == ".")) := by
  intro n
  induction n with
  | zero => intro base cs t _ _ h; simp [realpath] at h
  | succ n ih =>
    intro base cs t H hdd h
    cases cs with
    | nil => simp [realpath] at h; simp [h]
    | cons c rest =>
      have hdd' : ".." ∉ rest := fun hm => hdd (List.mem_cons_of_mem _ hm)
      have hc : c ≠ ".." := fun e => hdd (by simp [e])
      rw [realpath.eq_3] at h
      dsimp only at h
      split at h
      · rename_i htriv
        rw [List.filter_cons]
        simp only [htriv, Bool.not_true, Bool.false_eq_true, if_false]
        exact ih _ _ _ H hdd' h
      · rename_i htriv
        have hcd : (c == "..") = false := by simpa using hc
        rw [if_neg (by simp [hcd])] at h
        have htf : (c == "" || c == ".") = false := by simpa using htriv
        rw [List.filter_cons]
        simp only [htf, Bool.not_false, if_true]
        have hn := H [c] (by simp)
        unfold nodeAt at hn
        split at h
        · rename_i l hnode
          exact absurd hnode (hn l)
        · have := ih (base ++ [c]) rest t (fun x hx l => by
            rw [List.append_assoc]; exact H ([c] ++ x) (by simp) l) hdd' h
          rw [this]; simp

/-! ### the kernel's walk against `realpath` -/

/-- K1: the kernel's walk only ever reaches dest, places below dest, or ancestors of dest -/
theorem kresolve_known (dest : Path) (fs : FS) : ∀ (n : Nat) (cur : Path) (cs : List String) (p : Path),
    known dest cur → kresolve dest fs n cur cs = some p → known dest p := by
  intro n
  induction n with
  | zero => intro cur cs p _ h; simp [kresolve] at h
  | succ n ih =>
    intro cur cs p hk h
    cases cs with
    | nil => simp [kresolve] at h; rw [← h]; exact hk
    | cons c rest =>
      rw [kresolve.eq_3] at h
      dsimp only at h
      split at h
      · exact ih _ _ _ hk h
      · split at h
        · exact ih _ _ _ (known_dropLast hk) h
        · split at h
          · rename_i hout
            split at h
            · rename_i hanc
              exact ih _ _ _ (Or.inr hanc) h
            · cases h
          · rename_i hin
            have hin' : isPrefix dest (cur ++ [c]) = true := by simpa using hin
            split at h
            · cases h
            · split at h
              · exact ih _ _ _ (known_nil dest) h
              · exact ih _ _ _ hk h
            · exact ih _ _ _ (Or.inl hin') h
            · split at h
              · exact ih _ _ _ (Or.inl hin') h
              · cases h

/-- K2: where the kernel's walk succeeds, the lexical `realpath` gives the same path (with the same fuel) -/
theorem kresolve_realpath (dest : Path) (fs : FS) : ∀ (n : Nat) (cur : Path) (cs : List String) (p : Path),
    kresolve dest fs n cur cs = some p → realpath dest fs n cur cs = some p := by
  intro n
  induction n with
  | zero => intro cur cs p h; simp [kresolve] at h
  | succ n ih =>
    intro cur cs p h
    cases cs with
    | nil => simpa [kresolve, realpath] using h
    | cons c rest =>
      rw [kresolve.eq_3] at h
      rw [realpath.eq_3]
      dsimp only at h ⊢
      split
      · rename_i hc; rw [if_pos hc] at h; exact ih _ _ _ h
      · rename_i hc; rw [if_neg hc] at h
        split
        · rename_i hd; rw [if_pos hd] at h; exact ih _ _ _ h
        · rename_i hd; rw [if_neg hd] at h
          split at h
          · rename_i hout
            have hout' : isPrefix dest (cur ++ [c]) = false := by simpa using hout
            split at h
            · rw [hout']
              simp only [Bool.false_eq_true, if_false]
              exact ih _ _ _ h
            · cases h
          · rename_i hin
            have hin' : isPrefix dest (cur ++ [c]) = true := by simpa using hin
            rw [hin']
            simp only [if_true]
            split at h
            · cases h
            · rename_i t hl
              rw [hl]
              dsimp only
              split
              · rename_i ht; rw [if_pos ht] at h; exact ih _ _ _ h
              · rename_i ht; rw [if_neg ht] at h; exact ih _ _ _ h
            · rename_i hl
              rw [hl]
              exact ih _ _ _ h
            · rename_i hl
              rw [hl]
              split at h
              · exact ih _ _ _ h
              · cases h

/-- R2: a `realpath` over `cs ++ rest` whose prefix `cs` the kernel resolves to `p` continues from `p`; `k` is the fuel the
  prefix consumes -/
theorem realpath_after_kresolve (dest : Path) (fs : FS) : ∀ (n : Nat) (cur : Path) (cs : List String) (p : Path),
    kresolve dest fs n cur cs = some p →
    ∃ k, ∀ j rest, realpath dest fs (k + j) cur (cs ++ rest) = realpath dest fs j p rest := by
  intro n
  induction n with
  | zero => intro cur cs p h; simp [kresolve] at h
  | succ n ih =>
    intro cur cs p h
    cases cs with
    | nil =>
      simp [kresolve] at h
      exact ⟨0, fun j rest => by simp [h]⟩
    | cons c rest0 =>
      rw [kresolve.eq_3] at h
      dsimp only at h
      -- every branch: one step of both walks, then the induction hypothesis
      have step : ∀ (cur' : Path) (cs' : List String), kresolve dest fs n cur' cs' = some p →
          (∀ j rest, realpath dest fs (j + 1) cur (c :: rest0 ++ rest) = realpath dest fs j cur' (cs' ++ rest)) →
          ∃ k, ∀ j rest, realpath dest fs (k + j) cur (c :: rest0 ++ rest) = realpath dest fs j p rest := by
        intro cur' cs' hk hstep
        obtain ⟨k, hk'⟩ := ih cur' cs' p hk
        refine ⟨k + 1, fun j rest => ?_⟩
        have : k + 1 + j = (k + j) + 1 := by omega
        rw [this, hstep, hk']
      split at h
      · rename_i hc
        refine step cur rest0 h (fun j rest => ?_)
        rw [List.cons_append, realpath.eq_3]; dsimp only; rw [if_pos hc]
      · rename_i hc
        split at h
        · rename_i hd
          refine step cur.dropLast rest0 h (fun j rest => ?_)
          rw [List.cons_append, realpath.eq_3]; dsimp only; rw [if_neg hc, if_pos hd]
        · rename_i hd
          split at h
          · rename_i hout
            have hout' : isPrefix dest (cur ++ [c]) = false := by simpa using hout
            split at h
            · refine step (cur ++ [c]) rest0 h (fun j rest => ?_)
              rw [List.cons_append, realpath.eq_3]; dsimp only; rw [if_neg hc, if_neg hd, hout']
              simp
            · cases h
          · rename_i hin
            have hin' : isPrefix dest (cur ++ [c]) = true := by simpa using hin
            split at h
            · cases h
            · rename_i t hl
              split at h
              · rename_i ht
                refine step [] (split t ++ rest0) h (fun j rest => ?_)
                rw [List.cons_append, realpath.eq_3]; dsimp only; rw [if_neg hc, if_neg hd, hin']
                simp only [if_true, hl, ht, List.append_assoc]
              · rename_i ht
                refine step cur (split t ++ rest0) h (fun j rest => ?_)
                rw [List.cons_append, realpath.eq_3]; dsimp only; rw [if_neg hc, if_neg hd, hin']
                simp only [if_true, hl, ht, List.append_assoc]
                simp
            · rename_i hl
              refine step (cur ++ [c]) rest0 h (fun j rest => ?_)
              rw [List.cons_append, realpath.eq_3]; dsimp only; rw [if_neg hc, if_neg hd, hin']
              simp only [if_true, hl]
            · rename_i hl
              split at h
              · refine step (cur ++ [c]) rest0 h (fun j rest => ?_)
                rw [List.cons_append, realpath.eq_3]; dsimp only; rw [if_neg hc, if_neg hd, hin']
                simp only [if_true, hl]
              · cases h

/-- LEX, progress form: with one unit of fuel per component (and one to finish) the lexical walk succeeds -/
theorem realpath_lexical_some (dest : Path) (fs : FS) : ∀ (cs : List String) (base : Path),
    (∀ x, x ≠ [] → ∀ l, nodeAt dest fs (base ++ x) ≠ some (Node.link l)) → ".." ∉ cs →
    realpath dest fs (cs.length + 1) base cs = some (base ++ cs.filter (fun c => !(c == "" || c == "."))) := by
  intro cs
  induction cs with
  | nil => intro base _ _; simp [realpath]
  | cons c rest ih =>
    intro base H hdd
    have hdd' : ".." ∉ rest := fun hm => hdd (List.mem_cons_of_mem _ hm)
    have hc : c ≠ ".." := fun e => hdd (by simp [e])
    rw [List.length_cons, realpath.eq_3]
    dsimp only
    split
    · rename_i htriv
      rw [List.filter_cons]
      simp only [htriv, Bool.not_true, Bool.false_eq_true, if_false]
      exact ih base H hdd'
    · rename_i htriv
      have hcd : (c == "..") = false := by simpa using hc
      have htf : (c == "" || c == ".") = false := by simpa using htriv
      rw [if_neg (by simp [hcd]), List.filter_cons]
      simp only [htf, Bool.not_false, if_true]
      have hn := H [c] (by simp)
      unfold nodeAt at hn
      split
      · rename_i l hnode
        exact absurd hnode (hn l)
      · have := ih (base ++ [c]) (fun x hx l => by
          rw [List.append_assoc]; exact H ([c] ++ x) (by simp) l) hdd'
        rw [this]; simp

/-! ### what stands at an absolute path -/

theorem existsAbs_dest (dest : Path) (fs : FS) : existsAbs dest fs dest = some Node.dir := by
  simp [existsAbs, isPrefix_refl, rel, lookup]

theorem existsAbs_outside {dest : Path} {fs : FS} {p : Path} {n : Node} (h : existsAbs dest fs p = some n)
    (hp : isPrefix dest p = false) : n = Node.dir ∧ isPrefix p dest = true := by
  unfold existsAbs at h
  rw [hp] at h
  simp only [Bool.false_eq_true, if_false] at h
  split at h
  · rename_i ha; exact ⟨(Option.some.inj h).symm, ha⟩
  · cases h

theorem existsAbs_known {dest : Path} {fs : FS} {p : Path} {n : Node} (h : existsAbs dest fs p = some n) : known dest p := by
  by_cases hp : isPrefix dest p = true
  · exact Or.inl hp
  · exact Or.inr (existsAbs_outside h (by simpa using hp)).2

/-- an existing entry that is not a directory lies strictly below dest (outside, only the ancestors of dest exist) -/
theorem nondir_strictInside {dest : Path} {fs : FS} {p : Path} {n : Node} (h : existsAbs dest fs p = some n) (hn : n ≠ Node.dir) :
    strictInside dest p = true := by
  by_cases hp : isPrefix dest p = true
  · have hne : dest ≠ p := by
      intro e; subst e
      rw [existsAbs_dest] at h
      exact hn (Option.some.inj h).symm
    have hl := isPrefix_length hp
    have : dest.length ≠ p.length := by
      intro e
      obtain ⟨x, rfl⟩ := isPrefix_iff.mp hp
      simp only [List.length_append] at e
      have : x = [] := List.eq_nil_of_length_eq_zero (by omega)
      exact hne (by simp [this])
    simp [strictInside, hp]; omega
  · exact absurd (existsAbs_outside h (by simpa using hp)).1 hn

theorem nodeAt_of_existsAbs_none {dest : Path} {fs : FS} {p : Path} (h : existsAbs dest fs p = none) : nodeAt dest fs p = none := by
  unfold existsAbs at h
  unfold nodeAt
  split
  · rename_i hp; rw [if_pos hp] at h; exact h
  · rfl

theorem nodeAt_link_iff {dest : Path} {fs : FS} {p : Path} {t : String} :
    nodeAt dest fs p = some (Node.link t) ↔ existsAbs dest fs p = some (Node.link t) := by
  unfold existsAbs nodeAt rel
  split
  · rfl
  · constructor
    · intro h; cases h
    · intro h; split at h <;> cases h

/-- one step of `realpath` over a last component that is a real name -/
theorem realpath_last_plain (dest : Path) (fs : FS) (p : Path) (last : String)
    (h1 : (last == "" || last == ".") = false) (h2 : (last == "..") = false)
    (hn : ∀ t, nodeAt dest fs (p ++ [last]) ≠ some (Node.link t)) :
    realpath dest fs 2 p [last] = some (p ++ [last]) := by
  rw [realpath.eq_3]
  dsimp only
  rw [if_neg (by simp [h1]), if_neg (by simp [h2])]
  unfold nodeAt at hn
  split
  · rename_i t hnode; exact absurd hnode (hn t)
  · simp [realpath]

theorem realpath_last_link (dest : Path) (fs : FS) (p : Path) (last t : String) (j : Nat)
    (h1 : (last == "" || last == ".") = false) (h2 : (last == "..") = false)
    (hn : nodeAt dest fs (p ++ [last]) = some (Node.link t)) :
    realpath dest fs (j + 1) p [last] = realpath dest fs j (if t.startsWith "/" then [] else p) (split t) := by
  rw [realpath.eq_3]
  dsimp only
  rw [if_neg (by simp [h1]), if_neg (by simp [h2])]
  unfold nodeAt at hn
  rw [hn]
  dsimp only
  split <;> simp

theorem dropLast_getLast {cs : List String} (h : cs ≠ []) : cs = cs.dropLast ++ [cs.getLast?.getD ""] := by
  rw [List.getLast?_eq_some_getLast h]
  exact (List.dropLast_concat_getLast h).symm

/-- KO: where `open(.., O_CREAT)` lands is what `realpath` computes, and nothing but a regular file (or nothing) is there -/
theorem kopen_realpath (dest : Path) (fs : FS) : ∀ (n : Nat) (cur : Path) (cs : List String) (q : Path),
    kopen dest fs n cur cs = Except.ok q →
    (∃ m, realpath dest fs m cur cs = some q) ∧
    (existsAbs dest fs q = none ∨ ∃ c, existsAbs dest fs q = some (Node.file c)) := by
  intro n
  induction n with
  | zero => intro cur cs q h; simp [kopen] at h
  | succ n ih =>
    intro cur cs q h
    rw [kopen.eq_2] at h
    dsimp only at h
    split at h
    · cases h
    · rename_i p hp
      split at h
      · cases h
      · split at h
        · cases h
        · rename_i hlast
          have hne : cs ≠ [] := by
            intro e; subst e; simp at hlast
          have hcs := dropLast_getLast hne
          generalize cs.getLast?.getD "" = last at hlast hcs h
          generalize cs.dropLast = dl at hp hcs
          subst hcs
          have h1 : (last == "" || last == ".") = false := by
            simp only [Bool.or_eq_true, not_or] at hlast
            simp [hlast.1.1, hlast.1.2]
          have h2 : (last == "..") = false := by
            simp only [Bool.or_eq_true, not_or] at hlast
            simpa using hlast.2
          obtain ⟨k, hk⟩ := realpath_after_kresolve dest fs FUEL cur dl p hp
          split at h
          · rename_i hex
            cases h
            refine ⟨⟨k + 2, ?_⟩, Or.inl hex⟩
            rw [hk]
            exact realpath_last_plain dest fs p last h1 h2 (by rw [nodeAt_of_existsAbs_none hex]; simp)
          · rename_i c hex
            cases h
            refine ⟨⟨k + 2, ?_⟩, Or.inr ⟨c, hex⟩⟩
            rw [hk]
            refine realpath_last_plain dest fs p last h1 h2 (fun t ht => ?_)
            rw [nodeAt_link_iff, hex] at ht
            cases ht
          · cases h
          · rename_i t hex
            have hnode := nodeAt_link_iff.mpr hex
            have hrec : kopen dest fs n (if t.startsWith "/" then [] else p) (split t) = Except.ok q := by
              split at h
              · rename_i ht; rw [if_pos ht]; exact h
              · rename_i ht; rw [if_neg ht]; exact h
            obtain ⟨⟨m, hm⟩, hq⟩ := ih _ _ _ hrec
            refine ⟨⟨k + (m + 1), ?_⟩, hq⟩
            rw [hk, realpath_last_link dest fs p last t m h1 h2 hnode]
            exact hm

/-! ### the final write of a member -/

/-- what the filter vetted, seen from the directory `p` the kernel reached for the parent: whatever `realpath` yields from
  `p` over the last component is the vetted target -/
def Vetted (dest : Path) (fs : FS) (p : Path) (rest : List String) (target : Path) : Prop :=
  ∀ j t, realpath dest fs j p rest = some t → t = target

theorem strictInside_of_ne {dest p : Path} (h : isPrefix dest p = true) (hne : dest ≠ p) : strictInside dest p = true := by
  have hl := isPrefix_length h
  have : dest.length ≠ p.length := by
    intro e
    obtain ⟨x, rfl⟩ := isPrefix_iff.mp h
    simp only [List.length_append] at e
    have : x = [] := List.eq_nil_of_length_eq_zero (by omega)
    exact hne (by simp [this])
  simp [strictInside, h]; omega

theorem strictInside_isPrefix {dest p : Path} (h : strictInside dest p = true) : isPrefix dest p = true := by
  simp only [strictInside, Bool.and_eq_true] at h; exact h.1

theorem strictInside_ne_nil {dest p : Path} (h : strictInside dest p = true) : rel dest p ≠ [] := by
  simp only [strictInside, Bool.and_eq_true, decide_eq_true_eq] at h
  intro e
  have := congrArg List.length e
  simp [rel] at this
  omega

theorem strictInside_append {dest p : Path} (h : strictInside dest p = true) (x : Path) : strictInside dest (p ++ x) = true := by
  simp only [strictInside, Bool.and_eq_true, decide_eq_true_eq] at h ⊢
  obtain ⟨y, rfl⟩ := isPrefix_iff.mp h.1
  refine ⟨isPrefix_iff.mpr ⟨y ++ x, by simp⟩, ?_⟩
  simp only [List.length_append] at h ⊢
  omega

/-- FINAL (a): nothing stands at `p/last`: the entry is created there, and that is the vetted target -/
theorem final_none_inside {dest : Path} {fs : FS} {p : Path} {last : String} {target : Path}
    (hv : Vetted dest fs p [last] target) (ht : isPrefix dest target = true)
    (h1 : (last == "" || last == ".") = false) (h2 : (last == "..") = false)
    (hex : existsAbs dest fs (p ++ [last]) = none) : strictInside dest (p ++ [last]) = true := by
  have hr := realpath_last_plain dest fs p last h1 h2 (by rw [nodeAt_of_existsAbs_none hex]; simp)
  have := hv _ _ hr
  rw [← this] at ht
  refine strictInside_of_ne ht (fun e => ?_)
  rw [← e, existsAbs_dest] at hex
  cases hex

/-- FINAL (b): a file is opened for writing through a link at `p/last`: it lands on the vetted target -/
theorem final_kopen_inside {dest : Path} {fs : FS} {p : Path} {last : String} {target q : Path} {n : Nat}
    (hv : Vetted dest fs p [last] target) (ht : isPrefix dest target = true)
    (hk : kopen dest fs n p [last] = Except.ok q) : strictInside dest q = true := by
  obtain ⟨⟨m, hm⟩, hq⟩ := kopen_realpath dest fs n p [last] q hk
  have := hv _ _ hm
  rw [← this] at ht
  refine strictInside_of_ne ht (fun e => ?_)
  rw [← e, existsAbs_dest] at hq
  rcases hq with hq | ⟨c, hq⟩ <;> cases hq

/-! ### making the parent directories -/

/-- the invariant of `os.makedirs` walking the literal parent path: `fs0` is the tree the filter looked at -/
structure WalkInv (dest : Path) (fs0 : FS) (target : Path) (last : String) (w : Walk) (todo : List String) : Prop where
  links : ∀ p t, nodeAt dest w.fs p = some (Node.link t) ↔ nodeAt dest fs0 p = some (Node.link t)
  sub : ∀ q, lookup w.fs q = none → lookup fs0 q = none
  knownCur : known dest w.cur
  fresh : w.creating = true → strictInside dest w.cur = true ∧ lookup fs0 (rel dest w.cur) = none
  vetted : Vetted dest fs0 w.cur (todo ++ [last]) target

theorem rel_append_of_prefix {dest p : Path} (h : isPrefix dest p = true) (x : Path) : rel dest (p ++ x) = rel dest p ++ x := by
  obtain ⟨y, rfl⟩ := isPrefix_iff.mp h
  simp [rel]

theorem eq_of_rel_eq {dest p q : Path} (hp : isPrefix dest p = true) (hq : isPrefix dest q = true) (h : rel dest p = rel dest q) : p = q := by
  obtain ⟨x, rfl⟩ := isPrefix_iff.mp hp
  obtain ⟨y, rfl⟩ := isPrefix_iff.mp hq
  simp [rel] at h
  rw [h]

/-- below a path that does not exist, and below a path that is neither under dest nor an ancestor of it, `realpath` meets
  no symbolic link -/
theorem no_link_below {dest : Path} {fs0 : FS} (hc : Closed fs0) {lit : Path}
    (h : (isPrefix dest lit = true ∧ lookup fs0 (rel dest lit) = none) ∨ (isPrefix dest lit = false ∧ isPrefix lit dest = false)) :
    ∀ x, x ≠ [] → ∀ l, nodeAt dest fs0 (lit ++ x) ≠ some (Node.link l) := by
  intro x _ l hl
  unfold nodeAt at hl
  rcases h with ⟨hp, hn⟩ | ⟨hp, ha⟩
  · rw [if_pos (isPrefix_trans hp (isPrefix_append _ _))] at hl
    have : List.drop dest.length (lit ++ x) = rel dest lit ++ x := rel_append_of_prefix hp x
    rw [this, hc _ x hn] at hl
    cases hl
  · split at hl
    · rename_i hpx
      rcases isPrefix_comparable hpx (isPrefix_append lit x) with h' | h'
      · rw [h'] at hp; cases hp
      · rw [h'] at ha; cases ha
    · cases hl

theorem realpath_step_plain (dest : Path) (fs : FS) (cur : Path) (c : String) (rest : List String) (j : Nat)
    (h1 : (c == "" || c == ".") = false) (h2 : (c == "..") = false)
    (hn : ∀ t, nodeAt dest fs (cur ++ [c]) ≠ some (Node.link t)) :
    realpath dest fs (j + 1) cur (c :: rest) = realpath dest fs j (cur ++ [c]) rest := by
  rw [realpath.eq_3]
  dsimp only
  rw [if_neg (by simp [h1]), if_neg (by simp [h2])]
  unfold nodeAt at hn
  split
  · rename_i t hnode; exact absurd hnode (hn t)
  · rfl

theorem nodeAt_setNode_dir {dest : Path} {fs : FS} {lit : Path} (hs : strictInside dest lit = true) (p : Path) (t : String) :
    nodeAt dest (setNode fs (rel dest lit) Node.dir) p = some (Node.link t) ↔
      (p ≠ lit ∧ nodeAt dest fs p = some (Node.link t)) := by
  unfold nodeAt
  split
  · rename_i hp
    by_cases e : p = lit
    · subst e
      have : List.drop dest.length p = rel dest p := rfl
      rw [this, lookup_setNode_self _ _ _ (strictInside_ne_nil hs)]
      simp
    · have hne : List.drop dest.length p ≠ rel dest lit := fun h => e (eq_of_rel_eq hp (strictInside_isPrefix hs) h)
      rw [lookup_setNode_ne _ _ _ _ hne]
      simp [e]
  · simp

/-- one step of the walk keeps the invariant and never makes a directory outside dest -/
theorem walkStep_inv {dest : Path} {fs0 : FS} (hc : Closed fs0) {target : Path} (ht : isPrefix dest target = true) {last : String}
    (hl2 : (last == "..") = false)
    {w : Walk} {c : String} {todo : List String} (hdd : ".." ∉ c :: todo)
    (inv : WalkInv dest fs0 target last w (c :: todo)) :
    (∀ q, walkStep dest w c ≠ Except.error (WalkErr.escaped q)) ∧
    (∀ w', walkStep dest w c = Except.ok w' → WalkInv dest fs0 target last w' todo) := by
  have hcne : c ≠ ".." := fun e => hdd (by simp [e])
  have h2 : (c == "..") = false := by simpa using hcne
  have hddrest : ".." ∉ todo ++ [last] := by
    intro hm
    rcases List.mem_append.mp hm with hm | hm
    · exact hdd (List.mem_cons_of_mem _ hm)
    · simp at hm; rw [← hm] at hl2; simp at hl2
  unfold walkStep
  split
  · -- "" or "."
    rename_i htriv
    refine ⟨fun q h => (by cases h), fun w' h => ?_⟩
    cases h
    refine { inv with vetted := fun j t hj => inv.vetted (j + 1) t ?_ }
    rw [List.cons_append, realpath.eq_3]; dsimp only; rw [if_pos htriv]; exact hj
  · rename_i htriv
    have h1 : (c == "" || c == ".") = false := by simpa using htriv
    rw [if_neg (by simp [h2])]
    dsimp only
    -- the vetted target seen from cur ++ [c], whenever no link stands there in fs0
    have vet_push : (∀ t, nodeAt dest fs0 (w.cur ++ [c]) ≠ some (Node.link t)) →
        Vetted dest fs0 (w.cur ++ [c]) (todo ++ [last]) target := by
      intro hn j t hj
      refine inv.vetted (j + 1) t ?_
      rw [List.cons_append, realpath_step_plain dest fs0 w.cur c _ j h1 h2 hn]; exact hj
    split
    · -- nothing there: mkdir
      rename_i hex
      have hnode0 : ∀ t, nodeAt dest fs0 (w.cur ++ [c]) ≠ some (Node.link t) := by
        intro t h
        have := (inv.links _ t).mpr h
        rw [nodeAt_of_existsAbs_none hex] at this
        cases this
      -- the lexical continuation below the missing component
      have hbelow : (isPrefix dest (w.cur ++ [c]) = true ∧ lookup fs0 (rel dest (w.cur ++ [c])) = none) ∨
          (isPrefix dest (w.cur ++ [c]) = false ∧ isPrefix (w.cur ++ [c]) dest = false) := by
        unfold existsAbs at hex
        by_cases hp : isPrefix dest (w.cur ++ [c]) = true
        · rw [if_pos hp] at hex
          exact Or.inl ⟨hp, inv.sub _ hex⟩
        · rw [if_neg hp] at hex
          refine Or.inr ⟨by simpa using hp, ?_⟩
          split at hex
          · cases hex
          · rename_i ha; simpa using ha
      have hlex := realpath_lexical_some dest fs0 (todo ++ [last]) (w.cur ++ [c]) (no_link_below hc hbelow) hddrest
      have htgt := vet_push hnode0 _ _ hlex
      have hstrict : strictInside dest (w.cur ++ [c]) = true := by
        rw [← htgt] at ht
        rcases isPrefix_comparable ht (isPrefix_append (w.cur ++ [c]) _) with h' | h'
        · refine strictInside_of_ne h' (fun e => ?_)
          rw [← e, existsAbs_dest] at hex; cases hex
        · rcases hbelow with ⟨hp, _⟩ | ⟨_, ha⟩
          · have e := isPrefix_antisymm hp h'
            rw [← e, existsAbs_dest] at hex; cases hex
          · rw [h'] at ha; cases ha
      rw [if_pos hstrict]
      refine ⟨fun q h => (by cases h), fun w' h => ?_⟩
      cases h
      have hp := strictInside_isPrefix hstrict
      have hnone0 : lookup fs0 (rel dest (w.cur ++ [c])) = none := by
        rcases hbelow with ⟨_, hn⟩ | ⟨hp', _⟩
        · exact hn
        · rw [hp] at hp'; cases hp'
      refine ⟨fun p t => ?_, fun q hq => ?_, Or.inl hp, fun _ => ⟨hstrict, hnone0⟩, vet_push hnode0⟩
      · rw [nodeAt_setNode_dir hstrict, inv.links]
        constructor
        · exact fun h => h.2
        · intro h
          refine ⟨fun e => ?_, h⟩
          rw [e] at h; exact hnode0 t h
      · dsimp only at hq
        by_cases e : q = rel dest (w.cur ++ [c])
        · rw [e, lookup_setNode_self _ _ _ (strictInside_ne_nil hstrict)] at hq; cases hq
        · rw [lookup_setNode_ne _ _ _ _ e] at hq; exact inv.sub q hq
    · -- a directory: enter
      rename_i hex
      refine ⟨fun q h => (by cases h), fun w' h => ?_⟩
      cases h
      have hnode0 : ∀ t, nodeAt dest fs0 (w.cur ++ [c]) ≠ some (Node.link t) := by
        intro t h
        have := nodeAt_link_iff.mp ((inv.links _ t).mpr h)
        rw [hex] at this; cases this
      refine ⟨inv.links, inv.sub, existsAbs_known hex, fun hcr => ?_, vet_push hnode0⟩
      obtain ⟨hs, hn⟩ := inv.fresh hcr
      refine ⟨strictInside_append hs _, ?_⟩
      rw [rel_append_of_prefix (strictInside_isPrefix hs)]
      exact hc _ _ hn
    · -- a file in the way
      exact ⟨fun q h => (by cases h), fun w' h => by cases h⟩
    · -- a symbolic link: the kernel follows it
      rename_i tl hex
      split
      · rename_i p hkp
        split
        · refine ⟨fun q h => (by cases h), fun w' h => ?_⟩
          cases h
          have hlink0 : nodeAt dest fs0 (w.cur ++ [c]) = some (Node.link tl) := (inv.links _ tl).mp (nodeAt_link_iff.mpr hex)
          have hcongr := realpath_congr dest w.fs fs0 inv.links
          obtain ⟨k, hk⟩ := realpath_after_kresolve dest w.fs FUEL w.cur [c] p hkp
          refine ⟨inv.links, inv.sub, kresolve_known dest w.fs FUEL w.cur [c] p inv.knownCur hkp, fun hcr => ?_, fun j t hj => ?_⟩
          · -- while creating, nothing exists below cur in fs0: no link can stand there
            exfalso
            obtain ⟨hs, hn⟩ := inv.fresh hcr
            unfold nodeAt at hlink0
            rw [if_pos (strictInside_isPrefix (strictInside_append hs _))] at hlink0
            have : List.drop dest.length (w.cur ++ [c]) = rel dest w.cur ++ [c] := rel_append_of_prefix (strictInside_isPrefix hs) _
            rw [this, hc _ _ hn] at hlink0
            cases hlink0
          · refine inv.vetted (k + j) t ?_
            have := hk j (todo ++ [last])
            rw [hcongr, hcongr] at this
            rw [show c :: todo ++ [last] = [c] ++ (todo ++ [last]) by simp, this]
            exact hj
        · exact ⟨fun q h => (by cases h), fun w' h => by cases h⟩
      · exact ⟨fun q h => (by cases h), fun w' h => by cases h⟩

/-- the whole walk: no directory is ever made outside dest, and the invariant holds where it ends -/
theorem walk_inv {dest : Path} {fs0 : FS} (hc : Closed fs0) {target : Path} (ht : isPrefix dest target = true) {last : String}
    (hl2 : (last == "..") = false) : ∀ (todo : List String) (w : Walk), ".." ∉ todo →
    WalkInv dest fs0 target last w todo →
    (∀ q, todo.foldlM (walkStep dest) w ≠ Except.error (WalkErr.escaped q)) ∧
    (∀ w', todo.foldlM (walkStep dest) w = Except.ok w' → WalkInv dest fs0 target last w' []) := by
  intro todo
  induction todo with
  | nil =>
    intro w _ inv
    refine ⟨fun q h => (by cases h), fun w' h => ?_⟩
    cases h; exact inv
  | cons c todo ih =>
    intro w hdd inv
    obtain ⟨hesc, hok⟩ := walkStep_inv hc ht hl2 hdd inv
    rw [List.foldlM_cons]
    cases hs : walkStep dest w c with
    | error e =>
      refine ⟨fun q h => ?_, fun w' h => by cases h⟩
      cases e with
      | os fs' why => cases h
      | escaped p => exact hesc p hs
    | ok w1 =>
      exact ih w1 (fun hm => hdd (List.mem_cons_of_mem _ hm)) (hok w1 hs)

/-! ### placing a vetted member -/

theorem writeAt_inside {dest : Path} {fs : FS} {q : Path} {n : Node} (h : strictInside dest q = true) :
    writeAt dest fs q n = Verdict.ok (setNode fs (rel dest q) n) := by
  simp [writeAt, h]

theorem existsAbs_of_isDirAt {dest : Path} {fs : FS} {p : Path} (h : isDirAt dest fs p = true) : existsAbs dest fs p = some Node.dir := by
  unfold isDirAt at h
  unfold existsAbs
  split
  · rename_i hp; rw [if_pos hp] at h; simpa using h
  · rename_i hp; rw [if_neg hp] at h; simp [h]

theorem vetted_congr {dest : Path} {fs fs0 : FS}
    (hl : ∀ p t, nodeAt dest fs p = some (Node.link t) ↔ nodeAt dest fs0 p = some (Node.link t))
    {p : Path} {rest : List String} {target : Path} (hv : Vetted dest fs0 p rest target) : Vetted dest fs p rest target := by
  intro j t hj
  rw [realpath_congr dest fs fs0 hl] at hj
  exact hv j t hj

/-! ### `targetpath.rstrip("/")`: the empty components a name ends with do not matter -/

theorem trimEmpty_subset : ∀ (cs : List String) (c : String), c ∈ trimEmpty cs → c ∈ cs := by
  intro cs
  induction cs with
  | nil => intro c h; simp [trimEmpty] at h
  | cons x xs ih =>
    intro c h
    unfold trimEmpty at h
    cases hr : trimEmpty xs with
    | nil =>
      rw [hr] at h
      dsimp only at h
      split at h
      · simp at h
      · simp at h; simp [h]
    | cons y ys =>
      rw [hr] at h
      dsimp only at h
      rcases List.mem_cons.mp h with h | h
      · simp [h]
      · exact List.mem_cons_of_mem _ (ih c (by rw [hr]; exact h))

theorem trimEmpty_plain : ∀ (cs : List String), (∀ c ∈ cs, c ≠ "") → trimEmpty cs = cs := by
  intro cs
  induction cs with
  | nil => intro _; rfl
  | cons x xs ih =>
    intro h
    unfold trimEmpty
    rw [ih (fun c hc => h c (List.mem_cons_of_mem _ hc))]
    cases xs with
    | nil =>
      dsimp only
      have : (x == "") = false := by simpa using h x (by simp)
      simp [this]
    | cons y ys => rfl

theorem trimEmpty_spec : ∀ (cs : List String), ∃ k, cs = trimEmpty cs ++ List.replicate k "" := by
  intro cs
  induction cs with
  | nil => exact ⟨0, by simp [trimEmpty]⟩
  | cons x xs ih =>
    obtain ⟨k, hk⟩ := ih
    unfold trimEmpty
    cases hr : trimEmpty xs with
    | nil =>
      dsimp only
      rw [hr] at hk
      split
      · rename_i hx
        have : x = "" := by simpa using hx
        subst this
        refine ⟨k + 1, ?_⟩
        rw [hk]; simp [List.replicate_succ]
      · exact ⟨k, by rw [hk]; simp⟩
    | cons y ys =>
      dsimp only
      rw [hr] at hk
      exact ⟨k, by rw [hk]; simp⟩

theorem realpath_empties (dest : Path) (fs : FS) : ∀ (k n : Nat) (cur t : Path),
    realpath dest fs n cur (List.replicate k "") = some t → t = cur := by
  intro k
  induction k with
  | zero =>
    intro n cur t h
    cases n with
    | zero => simp [realpath] at h
    | succ n => simp [realpath] at h; exact h.symm
  | succ k ih =>
    intro n cur t h
    cases n with
    | zero => simp [realpath] at h
    | succ n =>
      rw [List.replicate_succ] at h
      unfold realpath at h
      simp only [beq_self_eq_true, Bool.true_or, if_true] at h
      exact ih n cur t h

theorem realpath_drop_trailing (dest : Path) (fs : FS) (k : Nat) : ∀ (n : Nat) (cur : Path) (xs : List String) (t : Path),
    realpath dest fs n cur (xs ++ List.replicate k "") = some t → realpath dest fs n cur xs = some t := by
  intro n
  induction n with
  | zero => intro cur xs t h; simp [realpath] at h
  | succ n ih =>
    intro cur xs t h
    cases xs with
    | nil =>
      have := realpath_empties dest fs k (n + 1) cur t (by simpa using h)
      subst this
      simp [realpath]
    | cons c rest =>
      rw [List.cons_append] at h
      unfold realpath at h ⊢
      split
      · rename_i hc
        rw [if_pos hc] at h
        exact ih _ _ _ h
      · rename_i hc
        rw [if_neg hc] at h
        split
        · rename_i hc2
          rw [if_pos hc2] at h
          exact ih _ _ _ h
        · rename_i hc2
          rw [if_neg hc2] at h
          dsimp only at h ⊢
          split
          · rename_i tl hnode
            rw [hnode] at h
            dsimp only at h
            split
            · rename_i habs
              rw [if_pos habs] at h
              rw [← List.append_assoc] at h
              exact ih _ _ _ h
            · rename_i habs
              rw [if_neg habs] at h
              rw [← List.append_assoc] at h
              exact ih _ _ _ h
          · rename_i hnl
            split at h
            · rename_i tl hnode
              exact absurd hnode (hnl tl)
            · exact ih _ _ _ h

theorem realpath_trimEmpty {dest : Path} {fs : FS} {n : Nat} {cur : Path} {cs : List String} {t : Path}
    (h : realpath dest fs n cur cs = some t) : realpath dest fs n cur (trimEmpty cs) = some t := by
  obtain ⟨k, hk⟩ := trimEmpty_spec cs
  rw [hk] at h
  exact realpath_drop_trailing dest fs k n cur _ t h

/-- whatever payload is put at the place of a vetted member lands strictly below dest -/
theorem placePayload_not_escaped {dest : Path} (fs : FS) (kind : Kind) (content : Nat) (linkname : String) (cur : Path)
    (last : String) (target : Path)
    (hv : Vetted dest fs cur [last] target) (ht : isPrefix dest target = true) (hl2 : (last == "..") = false)
    (hdir : isDirAt dest fs cur = true) :
    ∀ q, placePayload dest fs kind content linkname cur last ≠ Verdict.escaped q := by
  intro q
  unfold placePayload
  dsimp only
  by_cases h1 : (last == "" || last == ".") = true
  · -- the name ends with '/.': the entry is the parent itself
    simp only [h1, if_true, Bool.true_or]
    rw [existsAbs_of_isDirAt hdir]
    cases kind <;> simp
  · have h1' : (last == "" || last == ".") = false := by simpa using h1
    simp only [h1', hl2, Bool.false_eq_true, if_false, Bool.or_false]
    have hnone : existsAbs dest fs (cur ++ [last]) = none → strictInside dest (cur ++ [last]) = true :=
      final_none_inside hv ht h1' hl2
    cases kind with
    | dir =>
      dsimp only
      cases hex : existsAbs dest fs (cur ++ [last]) with
      | none => dsimp only; rw [writeAt_inside (hnone hex)]; simp
      | some nd => simp
    | file =>
      dsimp only
      cases hex : existsAbs dest fs (cur ++ [last]) with
      | none => dsimp only; rw [writeAt_inside (hnone hex)]; simp
      | some nd =>
        cases nd with
        | file c => dsimp only; rw [writeAt_inside (nondir_strictInside hex (by simp))]; simp
        | dir => simp
        | link t =>
          dsimp only
          cases hk : kopen dest fs FUEL cur [last] with
          | error why => simp
          | ok q' => dsimp only; rw [writeAt_inside (final_kopen_inside hv ht hk)]; simp
    | sym =>
      dsimp only
      cases hex : existsAbs dest fs (cur ++ [last]) with
      | none => dsimp only; rw [writeAt_inside (hnone hex)]; simp
      | some nd =>
        cases nd with
        | file c => dsimp only; rw [writeAt_inside (nondir_strictInside hex (by simp))]; simp
        | dir => simp
        | link t => dsimp only; rw [writeAt_inside (nondir_strictInside hex (by simp))]; simp
    | hard => simp
    | special => simp

/-- the copy fallback of `makelink` extracts other members at the SAME vetted place: nothing it makes lands elsewhere -/
theorem chain_not_escaped {dest : Path} (fs : FS) (all : List Member) (cur : Path) (last : String) (target : Path) (g : Ground)
    (hv : Vetted dest fs cur [last] target) (ht : isPrefix dest target = true) (hl2 : (last == "..") = false)
    (hdir : g = Ground.free → isDirAt dest fs cur = true) :
    ∀ (fuel j : Nat) q, chain dest fs all cur last g fuel j ≠ Verdict.escaped q := by
  intro fuel
  induction fuel with
  | zero => intro j q; simp [chain]
  | succ n ih =>
    intro j q
    unfold chain
    cases all[j]? with
    | none => simp
    | some e =>
      dsimp only
      cases e.kind with
      | hard =>
        dsimp only
        cases findBefore all j (normKey e.linkname) with
        | none => simp
        | some k => exact ih k q
      | sym =>
        dsimp only
        cases g with
        | free => exact placePayload_not_escaped fs _ _ _ cur last target hv ht hl2 (hdir rfl) q
        | dirThere =>
          dsimp only
          cases findBefore all all.length (symKey e) with
          | none => simp
          | some k => exact ih k q
        | notDir =>
          dsimp only
          cases findBefore all all.length (symKey e) with
          | none => simp
          | some k => exact ih k q
      | file =>
        dsimp only
        cases g with
        | free => exact placePayload_not_escaped fs _ _ _ cur last target hv ht hl2 (hdir rfl) q
        | dirThere => simp
        | notDir => simp
      | dir =>
        dsimp only
        cases g with
        | free => exact placePayload_not_escaped fs _ _ _ cur last target hv ht hl2 (hdir rfl) q
        | dirThere => simp
        | notDir => simp
      | special =>
        dsimp only
        cases g <;> simp

theorem groundOf_free {dest : Path} {fs : FS} {cur : Path} {last : String} {curIsDir : Bool}
    (h : groundOf dest fs cur last curIsDir = Ground.free) :
    curIsDir = true ∧ (last == "" || last == ".") = false ∧ (last == "..") = false ∧ hereOf cur last = cur ++ [last] := by
  unfold groundOf at h
  split at h
  · cases h
  · rename_i hc
    split at h
    · cases h
    · rename_i hl
      have h1 : (last == "" || last == ".") = false := by
        cases h1 : (last == "" || last == ".") with
        | false => rfl
        | true =>
          exfalso; apply hl
          have : (last == "" || last == "." || last == "..") = true := by rw [h1]; rfl
          rw [this]; rfl
      have h2 : (last == "..") = false := by
        cases h2 : (last == "..") with
        | false => rfl
        | true =>
          exfalso; apply hl
          have : (last == "" || last == "." || last == "..") = true := by rw [h2]; simp
          rw [this]; rfl
      refine ⟨by simpa using hc, h1, h2, ?_⟩
      unfold hereOf
      simp only [h1, h2, Bool.false_eq_true, if_false]

/-- the entry of a vetted member is created strictly below dest: given where the walk of the parent ended -/
theorem place_final {dest : Path} (fs : FS) (arch : Arch) (m : Member) (cur : Path) (last : String) (target : Path)
    (curIsDir : Bool)
    (hv : Vetted dest fs cur [last] target) (ht : isPrefix dest target = true) (hl2 : (last == "..") = false)
    (hdir : curIsDir = true → isDirAt dest fs cur = true) :
    ∀ q, placeFinal dest fs arch m cur last curIsDir ≠ Verdict.escaped q := by
  intro q
  unfold placeFinal
  dsimp only
  have hfree : groundOf dest fs cur last curIsDir = Ground.free → isDirAt dest fs cur = true :=
    fun h => hdir (groundOf_free h).1
  have hchain := chain_not_escaped fs arch.all cur last target (groundOf dest fs cur last curIsDir) hv ht hl2 hfree
  cases m.kind with
  | special => simp
  | hard =>
    dsimp only
    cases linkSource dest fs (split m.linkname) with
    | none =>
      dsimp only
      cases findBefore arch.all arch.pos (normKey m.linkname) with
      | none => simp
      | some k => exact hchain _ k q
    | some src =>
      dsimp only
      split
      · rename_i hcond
        simp only [Bool.and_eq_true, beq_iff_eq, Option.isNone_iff_eq_none] at hcond
        obtain ⟨⟨hg, hnone⟩, _⟩ := hcond
        obtain ⟨_, h1', _, hhere⟩ := groundOf_free hg
        rw [hhere] at hnone ⊢
        rw [writeAt_inside (final_none_inside hv ht h1' hl2 hnone)]; simp
      · cases findBefore arch.all arch.pos (normKey m.linkname) with
        | none => simp
        | some k => exact hchain _ k q
  | sym =>
    dsimp only
    cases hg : groundOf dest fs cur last curIsDir with
    | free => exact placePayload_not_escaped fs _ _ _ cur last target hv ht hl2 (hfree hg) q
    | dirThere =>
      dsimp only
      cases findBefore arch.all arch.all.length (symKey m) with
      | none => simp
      | some k => rw [hg] at hchain; exact hchain _ k q
    | notDir =>
      dsimp only
      cases findBefore arch.all arch.all.length (symKey m) with
      | none => simp
      | some k => rw [hg] at hchain; exact hchain _ k q
  | file =>
    dsimp only
    cases hg : groundOf dest fs cur last curIsDir with
    | free => exact placePayload_not_escaped fs _ _ _ cur last target hv ht hl2 (hfree hg) q
    | dirThere => simp
    | notDir => simp
  | dir =>
    dsimp only
    cases hg : groundOf dest fs cur last curIsDir with
    | free => exact placePayload_not_escaped fs _ _ _ cur last target hv ht hl2 (hfree hg) q
    | dirThere => simp
    | notDir => simp

theorem placeMember_not_escaped {dest : Path} {fs : FS} (hc : Closed fs) (arch : Arch) (m : Member)
    (comps : List String) (target : Path) (hr : realpath dest fs FUEL dest comps = some target)
    (ht : isPrefix dest target = true) (hdd : ".." ∉ comps) :
    ∀ q, placeMember dest fs arch m comps ≠ Verdict.escaped q := by
  intro q
  -- split the name into the parent components and the last one
  have hsplit : ∃ dl last, comps.dropLast = dl ∧ comps.getLast?.getD "" = last ∧ ".." ∉ dl ∧ (last == "..") = false ∧
      Vetted dest fs dest (dl ++ [last]) target := by
    by_cases hne : comps = []
    · subst hne
      refine ⟨[], "", rfl, rfl, by simp, by decide, fun j t hj => ?_⟩
      -- realpath over [""] is realpath over []
      have : realpath dest fs (j - 1) dest [] = some t := by
        cases j with
        | zero => simp [realpath] at hj
        | succ j => simp only [List.nil_append] at hj; rw [realpath.eq_3] at hj; simpa using hj
      exact realpath_det dest fs this hr
    · have hcs := dropLast_getLast hne
      refine ⟨comps.dropLast, comps.getLast?.getD "", rfl, rfl, fun hm => hdd ?_, ?_, fun j t hj => ?_⟩
      · rw [hcs]; exact List.mem_append_left _ hm
      · have : comps.getLast?.getD "" ≠ ".." := fun e => hdd (by rw [hcs, e]; simp)
        simpa using this
      · rw [← hcs] at hj; exact realpath_det dest fs hj hr
  obtain ⟨dl, last, hdl, hlast, hdd1, hl2, hv0⟩ := hsplit
  unfold placeMember
  rw [hdl, hlast]
  have hinit : WalkInv dest fs target last { fs := fs, cur := dest, creating := false } dl :=
    ⟨fun _ _ => Iff.rfl, fun _ h => h, known_self dest, (fun h => by cases h), hv0⟩
  -- where the walk of the parent ends, and the invariant there
  have hwalk : ∀ w, walkUpper dest fs dl = Except.ok w → WalkInv dest fs target last w [] := by
    intro w hw
    unfold walkUpper at hw
    split at hw
    · rename_i p hkp
      cases hw
      obtain ⟨k, hk⟩ := realpath_after_kresolve dest fs FUEL dest dl p hkp
      refine ⟨fun _ _ => Iff.rfl, fun _ h => h, kresolve_known dest fs FUEL dest dl p (known_self dest) hkp, (fun h => by cases h), ?_⟩
      intro j t hj
      refine hv0 (k + j) t ?_
      rw [hk]; exact hj
    · exact (walk_inv hc ht hl2 dl _ hdd1 hinit).2 w hw
  have hnoesc : ∀ p', walkUpper dest fs dl ≠ Except.error (WalkErr.escaped p') := by
    intro p' hw
    unfold walkUpper at hw
    split at hw
    · cases hw
    · exact (walk_inv hc ht hl2 dl _ hdd1 hinit).1 p' hw
  cases hwu : walkUpper dest fs dl with
  | error e =>
    cases e with
    | os fs' why => simp
    | escaped p' => exact absurd hwu (hnoesc p')
  | ok w =>
    dsimp only
    have inv := hwalk w hwu
    exact place_final w.fs arch m w.cur last target _ (vetted_congr inv.links (by simpa using inv.vetted)) ht hl2 (fun h => h) q

/-- a member is never placed outside dest: the filter plus the `..` guard make `escaped` unreachable -/
theorem extractMember_not_escaped {dest : Path} {fs : FS} (hc : Closed fs) (arch : Arch) (m : Member) :
    ∀ q, extractMember dest fs arch m ≠ Verdict.escaped q := by
  intro q
  unfold extractMember
  dsimp only
  split
  · simp
  · rename_i hg
    have hdd : ".." ∉ split (stripSlashes m.name) := by
      intro hm
      apply hg
      simp [hm]
    split
    · simp
    · rename_i target hr
      split
      · simp
      · rename_i hp
        split
        · simp
        · split
          · simp
          · simp
          · exact placeMember_not_escaped hc arch m _ target (realpath_trimEmpty hr) (by simpa using hp)
              (fun h => hdd (trimEmpty_subset _ _ h)) q

/-! ### the tree stays a tree -/

theorem closed_setNode_existing {fs : FS} (hc : Closed fs) {k : Path} (hk : lookup fs k ≠ none) (n : Node) :
    Closed (setNode fs k n) := by
  intro p x hp
  have hpk : p ≠ k := by
    intro e; subst e
    by_cases he : p = []
    · subst he; rw [lookup_nil] at hp; cases hp
    · rw [lookup_setNode_self _ _ _ he] at hp; cases hp
  rw [lookup_setNode_ne _ _ _ _ hpk] at hp
  by_cases e : p ++ x = k
  · exact absurd (e ▸ hc p x hp) hk
  · rw [lookup_setNode_ne _ _ _ _ e]; exact hc p x hp

theorem closed_setNode_new {fs : FS} (hc : Closed fs) {pr : Path} {l : String} (hpar : lookup fs pr ≠ none) (n : Node) :
    Closed (setNode fs (pr ++ [l]) n) := by
  intro p x hp
  have hpk : p ≠ pr ++ [l] := by
    intro e; subst e
    rw [lookup_setNode_self _ _ _ (by simp)] at hp; cases hp
  rw [lookup_setNode_ne _ _ _ _ hpk] at hp
  by_cases e : p ++ x = pr ++ [l]
  · exfalso
    -- p is a proper prefix of pr ++ [l], hence a prefix of pr: pr would not exist
    have hx : x ≠ [] := by intro hx; apply hpk; simpa [hx] using e
    have : p ++ x.dropLast = pr := by
      have h1 : (p ++ x).dropLast = (pr ++ [l]).dropLast := by rw [e]
      rw [List.dropLast_append_of_ne_nil hx, List.dropLast_concat] at h1
      exact h1
    exact hpar (this ▸ hc p x.dropLast hp)
  · rw [lookup_setNode_ne _ _ _ _ e]; exact hc p x hp

theorem lookup_of_isDirAt {dest : Path} {fs : FS} {cur : Path} (hd : isDirAt dest fs cur = true) (hp : isPrefix dest cur = true) :
    lookup fs (rel dest cur) = some Node.dir := by
  unfold isDirAt at hd
  rw [if_pos hp] at hd
  simpa using hd

theorem prefix_of_strict_append {dest cur : Path} {l : String} (h : strictInside dest (cur ++ [l]) = true) : isPrefix dest cur = true := by
  have hp := strictInside_isPrefix h
  have hne : dest ≠ cur ++ [l] := by
    intro e
    simp only [strictInside, Bool.and_eq_true, decide_eq_true_eq] at h
    rw [← e] at h; omega
  have := isPrefix_dropLast hp hne
  rwa [List.dropLast_concat] at this

/-- writing an entry at `cur/l`, `cur` being an existing directory, keeps the tree closed -/
theorem closed_write {dest : Path} {fs : FS} (hc : Closed fs) {cur : Path} {l : String} (hd : isDirAt dest fs cur = true)
    (hs : strictInside dest (cur ++ [l]) = true) (n : Node) : Closed (setNode fs (rel dest (cur ++ [l])) n) := by
  have hp := prefix_of_strict_append hs
  rw [rel_append_of_prefix hp]
  exact closed_setNode_new hc (by rw [lookup_of_isDirAt hd hp]; simp) n

theorem writeAt_closed {dest : Path} {fs : FS} (hc : Closed fs) {cur : Path} {l : String} (hd : isDirAt dest fs cur = true) (n : Node) (fs' : FS)
    (h : writeAt dest fs (cur ++ [l]) n = Verdict.ok fs') : Closed fs' := by
  unfold writeAt at h
  split at h
  · rename_i hs; cases h; exact closed_write hc hd hs n
  · cases h

/-- where a file opened for writing lands: in an existing directory -/
theorem kopen_parent (dest : Path) (fs : FS) : ∀ (n : Nat) (cur : Path) (cs : List String) (q : Path),
    kopen dest fs n cur cs = Except.ok q → ∃ p l, q = p ++ [l] ∧ isDirAt dest fs p = true := by
  intro n
  induction n with
  | zero => intro cur cs q h; simp [kopen] at h
  | succ n ih =>
    intro cur cs q h
    rw [kopen.eq_2] at h
    dsimp only at h
    split at h
    · cases h
    · rename_i p hp
      split at h
      · cases h
      · rename_i hdir
        split at h
        · cases h
        · split at h
          · cases h; exact ⟨p, _, rfl, by simpa using hdir⟩
          · cases h; exact ⟨p, _, rfl, by simpa using hdir⟩
          · cases h
          · split at h <;> exact ih _ _ _ h

theorem placePayload_closed {dest : Path} {fs : FS} (hc : Closed fs) (kind : Kind) (content : Nat) (linkname : String)
    (cur : Path) (last : String)
    (hdir : isDirAt dest fs cur = true) (fs' : FS) (h : placePayload dest fs kind content linkname cur last = Verdict.ok fs') :
    Closed fs' := by
  unfold placePayload at h
  dsimp only at h
  by_cases h1 : (last == "" || last == ".") = true
  · simp only [h1, if_true, Bool.true_or] at h
    rw [existsAbs_of_isDirAt hdir] at h
    cases kind <;> simp at h
    rw [← h]; exact hc
  · have h1' : (last == "" || last == ".") = false := by simpa using h1
    by_cases h2 : (last == "..") = true
    · simp only [h1', h2, Bool.false_eq_true, if_false, if_true, Bool.or_true] at h
      cases kind <;> dsimp only at h
      · cases h
      · split at h
        · -- a directory entry named `x/..`: created at the parent of cur when nothing is there — never in a closed tree
          unfold writeAt at h
          split at h
          · rename_i hex hs
            cases h
            -- cur.dropLast is an ancestor-or-self of an existing directory below dest: it exists
            exfalso
            have hp := strictInside_isPrefix hs
            unfold existsAbs at hex
            rw [if_pos hp] at hex
            have hcur : isPrefix dest cur = true := isPrefix_trans hp (by
              rcases List.eq_nil_or_concat cur with e | ⟨l', c', e⟩
              · rw [e]; exact isPrefix_refl _
              · rw [e, List.concat_eq_append, List.dropLast_concat]; exact isPrefix_append _ _)
            have hl := lookup_of_isDirAt hdir hcur
            rcases List.eq_nil_or_concat cur with e | ⟨l', c', e⟩
            · rw [e] at hs; simp [strictInside, isPrefix] at hs
            · rw [e, List.concat_eq_append, List.dropLast_concat] at hex hp
              rw [e, List.concat_eq_append, rel_append_of_prefix hp, hc _ [c'] hex] at hl
              cases hl
          · cases h
        · cases h; exact hc
      · cases h
      · cases h
      · cases h
    · have h2' : (last == "..") = false := by simpa using h2
      simp only [h1', h2', Bool.false_eq_true, if_false, Bool.or_false] at h
      cases kind <;> dsimp only at h
      · -- file
        split at h
        · cases h
        · rename_i t _
          split at h
          · cases h
          · rename_i q hko
            obtain ⟨p', l', rfl, hd'⟩ := kopen_parent dest fs FUEL cur [last] q hko
            exact writeAt_closed hc hd' _ fs' h
        · exact writeAt_closed hc hdir _ fs' h
      · -- dir
        split at h
        · exact writeAt_closed hc hdir _ fs' h
        · cases h; exact hc
      · -- sym
        split at h
        · cases h
        · exact writeAt_closed hc hdir _ fs' h
      · cases h
      · cases h

theorem chain_closed {dest : Path} {fs : FS} (hc : Closed fs) (all : List Member) (cur : Path) (last : String) (g : Ground)
    (hdir : g = Ground.free → isDirAt dest fs cur = true) :
    ∀ (fuel j : Nat) (fs' : FS), chain dest fs all cur last g fuel j = Verdict.ok fs' → Closed fs' := by
  intro fuel
  induction fuel with
  | zero => intro j fs' h; simp [chain] at h
  | succ n ih =>
    intro j fs' h
    unfold chain at h
    cases hj : all[j]? with
    | none => rw [hj] at h; cases h
    | some e =>
      rw [hj] at h
      dsimp only at h
      cases hk : e.kind <;> rw [hk] at h <;> dsimp only at h
      · -- file
        cases g <;> dsimp only at h
        · exact placePayload_closed hc _ _ _ cur last (hdir rfl) fs' h
        · cases h
        · cases h
      · -- dir
        cases g <;> dsimp only at h
        · exact placePayload_closed hc _ _ _ cur last (hdir rfl) fs' h
        · cases h; exact hc
        · cases h
      · -- sym
        cases g <;> dsimp only at h
        · exact placePayload_closed hc _ _ _ cur last (hdir rfl) fs' h
        · cases hf : findBefore all all.length (symKey e) <;> rw [hf] at h <;> dsimp only at h
          · cases h
          · exact ih _ fs' h
        · cases hf : findBefore all all.length (symKey e) <;> rw [hf] at h <;> dsimp only at h
          · cases h
          · exact ih _ fs' h
      · -- hard
        cases hf : findBefore all j (normKey e.linkname) <;> rw [hf] at h <;> dsimp only at h
        · cases h
        · exact ih _ fs' h
      · -- special
        cases g <;> cases h

theorem placeFinal_closed {dest : Path} {fs : FS} (hc : Closed fs) (arch : Arch) (m : Member) (cur : Path) (last : String)
    (curIsDir : Bool) (hdir : curIsDir = true → isDirAt dest fs cur = true) (fs' : FS)
    (h : placeFinal dest fs arch m cur last curIsDir = Verdict.ok fs') : Closed fs' := by
  unfold placeFinal at h
  dsimp only at h
  have hfree : groundOf dest fs cur last curIsDir = Ground.free → isDirAt dest fs cur = true :=
    fun h => hdir (groundOf_free h).1
  have hchain := chain_closed hc arch.all cur last (groundOf dest fs cur last curIsDir) hfree
  cases hk : m.kind <;> rw [hk] at h <;> dsimp only at h
  · -- file
    cases hg : groundOf dest fs cur last curIsDir <;> rw [hg] at h <;> dsimp only at h
    · exact placePayload_closed hc _ _ _ cur last (hfree hg) fs' h
    · cases h
    · cases h
  · -- dir
    cases hg : groundOf dest fs cur last curIsDir <;> rw [hg] at h <;> dsimp only at h
    · exact placePayload_closed hc _ _ _ cur last (hfree hg) fs' h
    · cases h; exact hc
    · cases h
  · -- sym
    cases hg : groundOf dest fs cur last curIsDir <;> rw [hg] at h <;> dsimp only at h
    · exact placePayload_closed hc _ _ _ cur last (hfree hg) fs' h
    · cases hf : findBefore arch.all arch.all.length (symKey m) <;> rw [hf] at h <;> dsimp only at h
      · cases h
      · rw [hg] at hchain; exact hchain _ _ fs' h
    · cases hf : findBefore arch.all arch.all.length (symKey m) <;> rw [hf] at h <;> dsimp only at h
      · cases h
      · rw [hg] at hchain; exact hchain _ _ fs' h
  · -- hard
    cases hs : linkSource dest fs (split m.linkname) <;> rw [hs] at h <;> dsimp only at h
    · cases hf : findBefore arch.all arch.pos (normKey m.linkname) <;> rw [hf] at h <;> dsimp only at h
      · cases h
      · exact hchain _ _ fs' h
    · split at h
      · rename_i hcond
        simp only [Bool.and_eq_true, beq_iff_eq, Option.isNone_iff_eq_none] at hcond
        obtain ⟨⟨hg, _⟩, _⟩ := hcond
        obtain ⟨_, _, _, hhere⟩ := groundOf_free hg
        rw [hhere] at h
        exact writeAt_closed hc (hfree hg) _ fs' h
      · cases hf : findBefore arch.all arch.pos (normKey m.linkname) <;> rw [hf] at h <;> dsimp only at h
        · cases h
        · exact hchain _ _ fs' h
  · cases h

/-- making the parent directories keeps the tree closed and ends in an existing directory -/
theorem walkStep_closed {dest : Path} {w : Walk} (hc : Closed w.fs) (hd : isDirAt dest w.fs w.cur = true) {c : String} (hcd : c ≠ "..")
    (w' : Walk) (h : walkStep dest w c = Except.ok w') : Closed w'.fs ∧ isDirAt dest w'.fs w'.cur = true := by
  unfold walkStep at h
  split at h
  · cases h; exact ⟨hc, hd⟩
  · rw [if_neg (by simpa using hcd)] at h
    dsimp only at h
    split at h
    · split at h
      · rename_i hs
        cases h
        refine ⟨closed_write hc hd hs _, ?_⟩
        unfold isDirAt
        rw [if_pos (strictInside_isPrefix hs), lookup_setNode_self _ _ _ (strictInside_ne_nil hs)]
        simp
      · cases h
    · rename_i hex
      cases h
      refine ⟨hc, ?_⟩
      unfold existsAbs at hex
      unfold isDirAt
      split
      · rename_i hp; rw [if_pos hp] at hex; simp [hex]
      · rename_i hp; rw [if_neg hp] at hex
        split at hex
        · assumption
        · cases hex
    · cases h
    · split at h
      · split at h
        · rename_i hdp; cases h; exact ⟨hc, hdp⟩
        · cases h
      · cases h

theorem walk_closed {dest : Path} : ∀ (todo : List String) (w : Walk), ".." ∉ todo → Closed w.fs → isDirAt dest w.fs w.cur = true →
    ∀ w', todo.foldlM (walkStep dest) w = Except.ok w' → Closed w'.fs ∧ isDirAt dest w'.fs w'.cur = true := by
  intro todo
  induction todo with
  | nil => intro w _ hc hd w' h; cases h; exact ⟨hc, hd⟩
  | cons c todo ih =>
    intro w hdd hc hd w' h
    rw [List.foldlM_cons] at h
    cases hs : walkStep dest w c with
    | error e => rw [hs] at h; cases h
    | ok w1 =>
      rw [hs] at h
      obtain ⟨hc1, hd1⟩ := walkStep_closed hc hd (fun e => hdd (by simp [e])) w1 hs
      exact ih w1 (fun hm => hdd (List.mem_cons_of_mem _ hm)) hc1 hd1 w' h

theorem extractMember_closed {dest : Path} {fs : FS} (hc : Closed fs) (arch : Arch) (m : Member) (fs' : FS)
    (h : extractMember dest fs arch m = Verdict.ok fs') : Closed fs' := by
  unfold extractMember at h
  dsimp only at h
  split at h
  · cases h
  · rename_i hg
    have hdd : ".." ∉ split (stripSlashes m.name) := by
      intro hm; apply hg; simp [hm]
    split at h
    · cases h
    · split at h
      · cases h
      · split at h
        · cases h
        · split at h
          · cases h
          · cases h
          · unfold placeMember at h
            have hdd1 : ".." ∉ (trimEmpty (split (stripSlashes m.name))).dropLast :=
              fun hm => hdd (trimEmpty_subset _ _ (List.dropLast_subset _ hm))
            cases hwu : walkUpper dest fs (trimEmpty (split (stripSlashes m.name))).dropLast with
            | error e => rw [hwu] at h; cases e <;> cases h
            | ok w =>
              rw [hwu] at h
              dsimp only at h
              have hcw : Closed w.fs := by
                unfold walkUpper at hwu
                split at hwu
                · cases hwu; exact hc
                · exact (walk_closed _ _ hdd1 hc (by simp [isDirAt, isPrefix_refl, rel, lookup]) w hwu).1
              exact placeFinal_closed hcw arch m w.cur _ _ (fun hd => hd) fs' h

theorem writeAt_not_skipped {dest : Path} {fs : FS} {q : Path} {n : Node} {fs' : FS} : writeAt dest fs q n ≠ Verdict.skipped fs' := by
  unfold writeAt; split <;> simp

theorem placePayload_not_skipped {dest : Path} {fs : FS} (kind : Kind) (content : Nat) (linkname : String) (cur : Path)
    (last : String) (fs' : FS) : placePayload dest fs kind content linkname cur last ≠ Verdict.skipped fs' := by
  unfold placePayload
  dsimp only
  cases kind <;> dsimp only
  · split
    · simp
    · split
      · simp
      · split
        · simp
        · exact writeAt_not_skipped
      · exact writeAt_not_skipped
  · split
    · exact writeAt_not_skipped
    · simp
  · split
    · simp
    · split
      · simp
      · exact writeAt_not_skipped
  · simp
  · simp

/-- a logged ExtractError leaves the tree as it was -/
theorem chain_skipped {dest : Path} {fs : FS} (all : List Member) (cur : Path) (last : String) (g : Ground) :
    ∀ (fuel j : Nat) (fs' : FS), chain dest fs all cur last g fuel j = Verdict.skipped fs' → fs' = fs := by
  intro fuel
  induction fuel with
  | zero => intro j fs' h; simp [chain] at h
  | succ n ih =>
    intro j fs' h
    unfold chain at h
    cases hj : all[j]? with
    | none => rw [hj] at h; cases h
    | some e =>
      rw [hj] at h
      dsimp only at h
      cases hk : e.kind <;> rw [hk] at h <;> dsimp only at h
      · cases g <;> dsimp only at h
        · exact absurd h (placePayload_not_skipped _ _ _ _ _ _)
        · cases h
        · cases h
      · cases g <;> dsimp only at h
        · exact absurd h (placePayload_not_skipped _ _ _ _ _ _)
        · cases h
        · cases h
      · cases g <;> dsimp only at h
        · exact absurd h (placePayload_not_skipped _ _ _ _ _ _)
        · cases hf : findBefore all all.length (symKey e) <;> rw [hf] at h <;> dsimp only at h
          · cases h; rfl
          · exact ih _ fs' h
        · cases hf : findBefore all all.length (symKey e) <;> rw [hf] at h <;> dsimp only at h
          · cases h; rfl
          · exact ih _ fs' h
      · cases hf : findBefore all j (normKey e.linkname) <;> rw [hf] at h <;> dsimp only at h
        · cases h; rfl
        · exact ih _ fs' h
      · cases g <;> cases h

theorem placeFinal_skipped {dest : Path} {fs : FS} (arch : Arch) (m : Member) (cur : Path) (last : String) (curIsDir : Bool)
    (fs' : FS) (h : placeFinal dest fs arch m cur last curIsDir = Verdict.skipped fs') : fs' = fs := by
  unfold placeFinal at h
  dsimp only at h
  have hchain := chain_skipped (dest := dest) (fs := fs) arch.all cur last (groundOf dest fs cur last curIsDir)
  cases hk : m.kind <;> rw [hk] at h <;> dsimp only at h
  · cases hg : groundOf dest fs cur last curIsDir <;> rw [hg] at h <;> dsimp only at h
    · exact absurd h (placePayload_not_skipped _ _ _ _ _ _)
    · cases h
    · cases h
  · cases hg : groundOf dest fs cur last curIsDir <;> rw [hg] at h <;> dsimp only at h
    · exact absurd h (placePayload_not_skipped _ _ _ _ _ _)
    · cases h
    · cases h
  · cases hg : groundOf dest fs cur last curIsDir <;> rw [hg] at h <;> dsimp only at h
    · exact absurd h (placePayload_not_skipped _ _ _ _ _ _)
    · cases hf : findBefore arch.all arch.all.length (symKey m) <;> rw [hf] at h <;> dsimp only at h
      · cases h; rfl
      · rw [hg] at hchain; exact hchain _ _ fs' h
    · cases hf : findBefore arch.all arch.all.length (symKey m) <;> rw [hf] at h <;> dsimp only at h
      · cases h; rfl
      · rw [hg] at hchain; exact hchain _ _ fs' h
  · cases hs : linkSource dest fs (split m.linkname) <;> rw [hs] at h <;> dsimp only at h
    · cases hf : findBefore arch.all arch.pos (normKey m.linkname) <;> rw [hf] at h <;> dsimp only at h
      · cases h
      · exact hchain _ _ fs' h
    · split at h
      · exact absurd h writeAt_not_skipped
      · cases hf : findBefore arch.all arch.pos (normKey m.linkname) <;> rw [hf] at h <;> dsimp only at h
        · cases h; rfl
        · exact hchain _ _ fs' h
  · cases h

/-- a member that is skipped (a link whose copy fallback finds nothing) leaves a tree: at most parent directories were made -/
theorem extractMember_skipped_closed {dest : Path} {fs : FS} (hc : Closed fs) (arch : Arch) (m : Member) (fs' : FS)
    (h : extractMember dest fs arch m = Verdict.skipped fs') : Closed fs' := by
  unfold extractMember at h
  dsimp only at h
  split at h
  · cases h
  · rename_i hg
    have hdd : ".." ∉ split (stripSlashes m.name) := by
      intro hm; apply hg; simp [hm]
    split at h
    · cases h
    · split at h
      · cases h
      · split at h
        · cases h
        · split at h
          · cases h
          · cases h
          · unfold placeMember at h
            have hdd1 : ".." ∉ (trimEmpty (split (stripSlashes m.name))).dropLast :=
              fun hm => hdd (trimEmpty_subset _ _ (List.dropLast_subset _ hm))
            cases hwu : walkUpper dest fs (trimEmpty (split (stripSlashes m.name))).dropLast with
            | error e => rw [hwu] at h; cases e <;> cases h
            | ok w =>
              rw [hwu] at h
              dsimp only at h
              have hcw : Closed w.fs := by
                unfold walkUpper at hwu
                split at hwu
                · cases hwu; exact hc
                · exact (walk_closed _ _ hdd1 hc (by simp [isDirAt, isPrefix_refl, rel, lookup]) w hwu).1
              rw [placeFinal_skipped arch m w.cur _ _ fs' h]; exact hcw

/-- the whole archive: starting from a closed tree, no member is ever placed outside dest -/
theorem untarFrom_never_escapes {dest : Path} : ∀ (ms : List Member) (fs : FS) (arch : Arch), Closed fs →
    ∀ q, (untarFrom dest fs arch ms).2 ≠ some (Stop.escaped q) := by
  intro ms
  induction ms with
  | nil => intro fs arch _ q; simp [untarFrom]
  | cons m ms ih =>
    intro fs arch hc q
    rw [untarFrom]
    cases hv : extractMember dest fs arch m with
    | ok fs' => exact ih fs' _ (extractMember_closed hc arch m fs' hv) q
    | skipped fs' => exact ih fs' _ (extractMember_skipped_closed hc arch m fs' hv) q
    | filterError why => simp
    | osError fs' why => simp
    | unmodelled => simp
    | escaped p => exact absurd hv (extractMember_not_escaped hc arch m p)

theorem closed_nil : Closed [] := by
  intro p q h
  unfold lookup at h ⊢
  split at h
  · cases h
  · rename_i hp
    have : (p ++ q).isEmpty = false := by cases p <;> simp_all
    simp [this]

/-- inversion of the guards at the top of `extractMember` -/
theorem extract_ok_inv (dest : Path) (fs fs' : FS) (m : Member)
    (arch : Arch) (h : extractMember dest fs arch m = Verdict.ok fs') :
    ".." ∉ split m.name ∧ ".." ∉ split (stripSlashes m.name) ∧
    ∃ target, realpath dest fs FUEL dest (split (stripSlashes m.name)) = some target ∧ isPrefix dest target = true ∧
      m.kind ≠ Kind.special ∧
      ((m.kind = Kind.sym ∨ m.kind = Kind.hard) →
        m.linkname.startsWith "/" = false ∧
        ∃ t, realpath dest fs FUEL dest
          ((if m.kind = Kind.sym then (split (stripSlashes m.name)).dropLast else []) ++ split m.linkname) = some t ∧
          isPrefix dest t = true) ∧
      placeMember dest fs arch m (trimEmpty (split (stripSlashes m.name))) = Verdict.ok fs' := by
  unfold extractMember at h
  dsimp only at h
  split at h
  · cases h
  · rename_i hg
    simp only [Bool.or_eq_true, List.contains_iff_mem, not_or] at hg
    refine ⟨hg.1, hg.2, ?_⟩
    split at h
    · cases h
    · rename_i target ht
      refine ⟨target, ht, ?_⟩
      split at h
      · cases h
      · rename_i hp
        refine ⟨by simpa using hp, ?_⟩
        split at h
        · cases h
        · rename_i hs
          refine ⟨by simpa using hs, ?_⟩
          split at h
          · cases h
          · cases h
          · rename_i hlc
            refine ⟨?_, h⟩
            intro hk
            have hk' : (m.kind == Kind.sym || m.kind == Kind.hard) = true := by simpa using hk
            rw [if_pos hk'] at hlc
            split at hlc
            · cases hlc
            · rename_i hsl
              refine ⟨by simpa using hsl, ?_⟩
              split at hlc
              · cases hlc
              · rename_i t hrt
                split at hlc
                · rename_i hpt
                  refine ⟨t, ?_, hpt⟩
                  simpa using hrt
                · cases hlc

end Kapture.C18

namespace Kapture.C18

/-! ### benign members are extracted (link-free trees, plain names) -/

def Plain (c : String) : Prop := c ≠ "" ∧ c ≠ "." ∧ c ≠ ".."

theorem plain_flags {c : String} (h : Plain c) : (c == "" || c == ".") = false ∧ (c == "..") = false := by
  obtain ⟨h1, h2, h3⟩ := h
  exact ⟨by simp [h1, h2], by simp [h3]⟩

theorem filter_plain (cs : List String) (h : ∀ c ∈ cs, Plain c) : cs.filter (fun c => !(c == "" || c == ".")) = cs := by
  rw [List.filter_eq_self]
  intro c hc
  simp [(plain_flags (h c hc)).1]

theorem nodeAt_not_link_of_linkfree {dest : Path} {fs : FS} (h : LinkFree fs) (p : Path) (t : String) :
    nodeAt dest fs p ≠ some (Node.link t) := by
  unfold nodeAt
  split
  · exact lookup_not_link fs h _ t
  · simp

/-- in a link-free tree `realpath` of plain components is the lexical path -/
theorem realpath_plain {dest : Path} {fs : FS} (hl : LinkFree fs) (cs : List String) (hp : ∀ c ∈ cs, Plain c)
    (hlen : cs.length < FUEL) (base : Path) : realpath dest fs FUEL base cs = some (base ++ cs) := by
  have hdd : ".." ∉ cs := fun hm => (hp _ hm).2.2 rfl
  have := realpath_lexical_some dest fs cs base (fun x _ l => nodeAt_not_link_of_linkfree hl _ l) hdd
  rw [filter_plain cs hp] at this
  exact realpath_mono_le dest fs (by omega) this

theorem linkFree_setNode {fs : FS} (h : LinkFree fs) (p : Path) (n : Node) (hn : ∀ t, n ≠ Node.link t) : LinkFree (setNode fs p n) := by
  intro e he t
  unfold setNode at he
  split at he
  · rw [List.mem_map] at he
    obtain ⟨e0, he0, rfl⟩ := he
    split
    · exact hn t
    · exact h e0 he0 t
  · rcases List.mem_append.mp he with he | he
    · exact h e he t
    · simp at he; subst he; exact hn t

/-- the state of the `os.makedirs` walk along a plain path `pre` in a link-free tree with no file in the way -/
structure BenignWalk (dest : Path) (fs : FS) (w : Walk) (pre : List String) : Prop where
  cur : w.cur = dest ++ pre
  linkFree : LinkFree w.fs
  frame : ∀ q, isPrefix q pre = false → lookup w.fs q = lookup fs q
  made : ∀ q, isPrefix q pre = true → lookup w.fs q = some Node.dir

theorem existsAbs_below (dest : Path) (fs : FS) (x : Path) : existsAbs dest fs (dest ++ x) = lookup fs x := by
  simp [existsAbs, isPrefix_append, rel]

theorem isPrefix_concat_false {q pre : Path} {c : String} (h : isPrefix q (pre ++ [c]) = false) : isPrefix q pre = false := by
  cases hq : isPrefix q pre with
  | false => rfl
  | true => rw [isPrefix_trans hq (isPrefix_append pre [c])] at h; cases h

theorem isPrefix_concat_cases {q pre : Path} {c : String} (h : isPrefix q (pre ++ [c]) = true) :
    q = pre ++ [c] ∨ isPrefix q pre = true := by
  by_cases e : q = pre ++ [c]
  · exact Or.inl e
  · right
    have := isPrefix_dropLast h e
    rwa [List.dropLast_concat] at this

theorem benign_walkStep {dest : Path} {fs : FS} {w : Walk} {pre : List String} {c : String} (hc : Plain c)
    (inv : BenignWalk dest fs w pre) (hnf : ∀ k, lookup fs (pre ++ [c]) ≠ some (Node.file k)) :
    ∃ w', walkStep dest w c = Except.ok w' ∧ BenignWalk dest fs w' (pre ++ [c]) := by
  obtain ⟨h1, h2⟩ := plain_flags hc
  have hlit : w.cur ++ [c] = dest ++ (pre ++ [c]) := by rw [inv.cur, List.append_assoc]
  have hnp : isPrefix (pre ++ [c]) pre = false := by
    cases h : isPrefix (pre ++ [c]) pre with
    | false => rfl
    | true => have := isPrefix_length h; simp at this; omega
  have hfr := inv.frame _ hnp
  unfold walkStep
  rw [if_neg (by simp [h1]), if_neg (by simp [h2])]
  dsimp only
  rw [hlit, existsAbs_below]
  cases hlk : lookup w.fs (pre ++ [c]) with
  | none =>
    dsimp only
    have hs : strictInside dest (dest ++ (pre ++ [c])) = true := by simp [strictInside, isPrefix_append]
    rw [if_pos hs, rel_append]
    refine ⟨_, rfl, ⟨rfl, linkFree_setNode inv.linkFree _ _ (by simp), fun q hq => ?_, fun q hq => ?_⟩⟩
    · have hne : q ≠ pre ++ [c] := by intro e; rw [e, isPrefix_refl] at hq; cases hq
      dsimp only
      rw [lookup_setNode_ne _ _ _ _ hne]
      exact inv.frame q (isPrefix_concat_false hq)
    · dsimp only
      rcases isPrefix_concat_cases hq with e | hq'
      · rw [e, lookup_setNode_self _ _ _ (by simp)]
      · have hne : q ≠ pre ++ [c] := by intro e; rw [e] at hq'; rw [hq'] at hnp; cases hnp
        rw [lookup_setNode_ne _ _ _ _ hne]
        exact inv.made q hq'
  | some nd =>
    cases nd with
    | file k => exact absurd (hfr ▸ hlk) (hnf k)
    | link t => exact absurd hlk (lookup_not_link _ inv.linkFree _ t)
    | dir =>
      dsimp only
      refine ⟨_, rfl, ⟨rfl, inv.linkFree, fun q hq => inv.frame q (isPrefix_concat_false hq), fun q hq => ?_⟩⟩
      rcases isPrefix_concat_cases hq with e | hq'
      · rw [e]; exact hlk
      · exact inv.made q hq'

theorem benign_walk {dest : Path} {fs : FS} : ∀ (todo : List String) (w : Walk) (pre : List String),
    (∀ c ∈ todo, Plain c) → BenignWalk dest fs w pre →
    (∀ x, isPrefix x todo = true → x ≠ [] → ∀ k, lookup fs (pre ++ x) ≠ some (Node.file k)) →
    ∃ w', todo.foldlM (walkStep dest) w = Except.ok w' ∧ BenignWalk dest fs w' (pre ++ todo) := by
  intro todo
  induction todo with
  | nil => intro w pre _ inv _; exact ⟨w, rfl, by simpa using inv⟩
  | cons c todo ih =>
    intro w pre hp inv hnf
    obtain ⟨w1, hw1, inv1⟩ := benign_walkStep (hp c (by simp)) inv (hnf [c] (isPrefix_iff.mpr ⟨todo, rfl⟩) (by simp))
    obtain ⟨w2, hw2, inv2⟩ := ih w1 (pre ++ [c]) (fun c' hc' => hp c' (List.mem_cons_of_mem _ hc')) inv1 (fun x hx hne k => by
      rw [List.append_assoc]
      refine hnf ([c] ++ x) ?_ (by simp) k
      obtain ⟨y, rfl⟩ := isPrefix_iff.mp hx
      exact isPrefix_iff.mpr ⟨y, by simp⟩)
    refine ⟨w2, ?_, by simpa using inv2⟩
    rw [List.foldlM_cons, hw1]
    exact hw2

end Kapture.C18

namespace Kapture.C18

/-- where the kernel's walk of plain components succeeds in a link-free tree, every component exists: directories all the
  way, the last one a directory or a file -/
theorem kresolve_plain {dest : Path} {fs : FS} (hl : LinkFree fs) : ∀ (cs : List String) (n : Nat) (pre : List String) (p : Path),
    (∀ c ∈ cs, Plain c) → kresolve dest fs n (dest ++ pre) cs = some p →
    p = dest ++ pre ++ cs ∧
    (∀ x, isPrefix x cs = true → x ≠ [] → x ≠ cs → lookup fs (pre ++ x) = some Node.dir) ∧
    (cs ≠ [] → ∃ nd, lookup fs (pre ++ cs) = some nd ∧ ∀ t, nd ≠ Node.link t) := by
  intro cs
  induction cs with
  | nil =>
    intro n pre p _ h
    cases n with
    | zero => simp [kresolve] at h
    | succ n =>
      simp [kresolve] at h
      refine ⟨by simp [h], fun x hx hne => ?_, fun h => absurd rfl h⟩
      obtain ⟨y, hy⟩ := isPrefix_iff.mp hx
      have : x = [] := by
        have := congrArg List.length hy; simp at this; exact List.eq_nil_of_length_eq_zero (by omega)
      exact absurd this hne
  | cons c rest ih =>
    intro n pre p hp h
    have hc := hp c (by simp)
    obtain ⟨h1, h2⟩ := plain_flags hc
    cases n with
    | zero => simp [kresolve] at h
    | succ n =>
      rw [kresolve.eq_3] at h
      dsimp only at h
      rw [if_neg (by simp [h1]), if_neg (by simp [h2])] at h
      have hin : isPrefix dest (dest ++ pre ++ [c]) = true := by rw [List.append_assoc]; exact isPrefix_append _ _
      have hdrop : List.drop dest.length (dest ++ pre ++ [c]) = pre ++ [c] := by simp
      rw [if_neg (by rw [hin]; simp), hdrop] at h
      have hrest : ∀ c' ∈ rest, Plain c' := fun c' hc' => hp c' (List.mem_cons_of_mem _ hc')
      -- the common ending: after entering pre ++ [c] (a directory, or a file when nothing follows)
      have finish : ∀ nd, lookup fs (pre ++ [c]) = some nd → (∀ t, nd ≠ Node.link t) → (rest ≠ [] → nd = Node.dir) →
          kresolve dest fs n (dest ++ (pre ++ [c])) rest = some p →
          p = dest ++ pre ++ c :: rest ∧
          (∀ x, isPrefix x (c :: rest) = true → x ≠ [] → x ≠ c :: rest → lookup fs (pre ++ x) = some Node.dir) ∧
          (c :: rest ≠ [] → ∃ nd, lookup fs (pre ++ c :: rest) = some nd ∧ ∀ t, nd ≠ Node.link t) := by
        intro nd hnd hnl hdir hk
        obtain ⟨hp1, hp2, hp3⟩ := ih n (pre ++ [c]) p hrest hk
        refine ⟨by rw [hp1]; simp, fun x hx hne hne2 => ?_, fun _ => ?_⟩
        · obtain ⟨y, hy⟩ := isPrefix_iff.mp hx
          cases x with
          | nil => exact absurd rfl hne
          | cons a x' =>
            have ha : a = c := by simp at hy; exact hy.1.symm
            subst ha
            have hx' : isPrefix x' rest = true := isPrefix_iff.mpr ⟨y, by simp at hy; exact hy⟩
            by_cases hx0 : x' = []
            · subst hx0
              have hr : rest ≠ [] := by intro e; apply hne2; rw [e]
              rw [← hdir hr]; exact hnd
            · have := hp2 x' hx' hx0 (fun e => hne2 (by rw [e]))
              simpa using this
        · by_cases hr : rest = []
          · subst hr; exact ⟨nd, hnd, hnl⟩
          · obtain ⟨nd', h1', h2'⟩ := hp3 hr
            exact ⟨nd', by simpa using h1', h2'⟩
      rw [show dest ++ pre ++ [c] = dest ++ (pre ++ [c]) by simp] at h
      split at h
      · cases h
      · rename_i t hlk; exact absurd hlk (lookup_not_link fs hl _ t)
      · rename_i hlk
        exact finish Node.dir hlk (by simp) (fun _ => rfl) h
      · rename_i k hlk
        split at h
        · rename_i hall
          refine finish (Node.file k) hlk (by simp) (fun hr => ?_) h
          exfalso
          cases rest with
          | nil => exact hr rfl
          | cons c' rest' =>
            have := (plain_flags (hrest c' (by simp))).1
            simp only [List.all_cons, Bool.and_eq_true] at hall
            rw [this] at hall
            exact absurd hall.1 (by simp)
        · cases h

/-- a regular member with a plain name, in a link-free tree where no file stands on the way and the destination is not a
  directory, is extracted: the file is there with its content, the missing directories have been made, nothing else moved -/
theorem benign_member {dest : Path} {fs : FS} (hl : LinkFree fs) (arch : Arch) (m : Member) (hk : m.kind = Kind.file)
    (comps : List String) (hn0 : ".." ∉ split m.name) (hn : split (stripSlashes m.name) = comps) (hne : comps ≠ [])
    (hp : ∀ c ∈ comps, Plain c) (hlen : comps.length < FUEL)
    (hnf : ∀ x, isPrefix x comps = true → x ≠ [] → x ≠ comps → ∀ k, lookup fs x ≠ some (Node.file k))
    (htd : lookup fs comps ≠ some Node.dir) :
    ∃ fs', extractMember dest fs arch m = Verdict.ok fs' ∧ lookup fs' comps = some (Node.file m.content) ∧ LinkFree fs' ∧
      (∀ q, isPrefix q comps = false → lookup fs' q = lookup fs q) ∧
      (∀ q, isPrefix q comps = true → q ≠ comps → lookup fs' q = some Node.dir) := by
  have hcs := dropLast_getLast hne
  generalize hdl : comps.dropLast = dl at hcs
  generalize hla : comps.getLast?.getD "" = last at hcs
  have hpd : ∀ c ∈ dl, Plain c := fun c hc => hp c (by rw [hcs]; exact List.mem_append_left _ hc)
  have hpl : Plain last := hp last (by rw [hcs]; simp)
  obtain ⟨hl1, hl2⟩ := plain_flags hpl
  have hdd : ".." ∉ comps := fun hm => (hp _ hm).2.2 rfl
  -- the walk of the parent: it ends at dest ++ dl, an existing directory, having touched prefixes of dl only
  have hwalk : ∃ w, walkUpper dest fs dl = Except.ok w ∧ BenignWalk dest fs w dl := by
    unfold walkUpper
    cases hkr : kresolve dest fs FUEL dest dl with
    | some p =>
      have hkr' : kresolve dest fs FUEL (dest ++ []) dl = some p := by simpa using hkr
      obtain ⟨hp1, hp2, hp3⟩ := kresolve_plain hl dl FUEL [] p hpd hkr'
      refine ⟨_, rfl, ⟨by simpa using hp1, hl, fun _ _ => rfl, fun q hq => ?_⟩⟩
      dsimp only
      by_cases hq0 : q = []
      · rw [hq0, lookup_nil]
      · by_cases hqd : q = dl
        · have hdne : dl ≠ [] := hqd ▸ hq0
          obtain ⟨nd, hnd, hnl⟩ := hp3 hdne
          simp only [List.nil_append] at hnd
          rw [hqd, hnd]
          cases nd with
          | dir => rfl
          | link t => exact absurd rfl (hnl t)
          | file k =>
            exfalso
            refine hnf dl (by rw [hcs]; exact isPrefix_append _ _) hdne (fun e => ?_) k hnd
            have := congrArg List.length e
            rw [hcs] at this; simp at this
        · simpa using hp2 q hq hq0 hqd
    | none =>
      dsimp only
      unfold walkParent
      have := benign_walk (dest := dest) (fs := fs) dl { fs := fs, cur := dest, creating := false } [] hpd
        ⟨by simp, hl, fun _ _ => rfl, fun q hq => by
          have : q = [] := by
            obtain ⟨y, hy⟩ := isPrefix_iff.mp hq
            have := congrArg List.length hy; simp at this; exact List.eq_nil_of_length_eq_zero (by omega)
          rw [this, lookup_nil]⟩
        (fun x hx hx0 k => by
          simp only [List.nil_append]
          refine hnf x ?_ hx0 (fun e => ?_) k
          · rw [hcs]; exact isPrefix_trans hx (isPrefix_append _ _)
          · have := isPrefix_length hx
            rw [e, hcs] at this; simp at this; omega)
      simpa using this
  obtain ⟨w, hwu, inv⟩ := hwalk
  have hncp : isPrefix comps dl = false := by
    cases h : isPrefix comps dl with
    | false => rfl
    | true => have := isPrefix_length h; rw [hcs] at this; simp at this; omega
  have hdir : isDirAt dest w.fs w.cur = true := by
    rw [inv.cur]
    simp [isDirAt, isPrefix_append, rel, inv.made dl (isPrefix_refl dl)]
  have hex : existsAbs dest w.fs (w.cur ++ [last]) = lookup fs comps := by
    rw [inv.cur, List.append_assoc, existsAbs_below, ← hcs, inv.frame comps hncp]
  have hs : strictInside dest (w.cur ++ [last]) = true := by
    rw [inv.cur, List.append_assoc]; simp [strictInside, isPrefix_append]
  have hrel : rel dest (w.cur ++ [last]) = comps := by rw [inv.cur, List.append_assoc, rel_append, ← hcs]
  refine ⟨setNode w.fs comps (Node.file m.content), ?_, lookup_setNode_self _ _ _ hne,
    linkFree_setNode inv.linkFree _ _ (by simp), fun q hq => ?_, fun q hq hqc => ?_⟩
  · unfold extractMember
    dsimp only
    have hg : ((split m.name).contains ".." || (split (stripSlashes m.name)).contains "..") = false := by
      rw [hn]; simp [hn0, hdd]
    rw [hg, hn, realpath_plain hl comps hp hlen dest]
    simp only [Bool.false_eq_true, if_false, isPrefix_append, Bool.not_true, hk]
    simp only [show (Kind.file == Kind.special) = false by decide, show (Kind.file == Kind.sym || Kind.file == Kind.hard) = false by decide,
      Bool.false_eq_true, if_false]
    unfold placeMember
    rw [trimEmpty_plain comps (fun c hc => (hp c hc).1), hdl, hla, hwu]
    dsimp only
    rw [hdir]
    have hgr : groundOf dest w.fs w.cur last true = Ground.free := by
      unfold groundOf hereOf
      simp only [hl1, hl2, Bool.false_eq_true, if_false, Bool.or_false, hex, Bool.not_true, Bool.false_or]
      rw [if_neg]
      simpa using htd
    unfold placeFinal
    dsimp only
    rw [hk, hgr]
    dsimp only
    unfold placePayload
    dsimp only
    simp only [hl1, hl2, Bool.false_eq_true, if_false, Bool.or_false, hex]
    cases hlk : lookup fs comps with
    | none => dsimp only; rw [writeAt_inside hs, hrel]
    | some nd =>
      cases nd with
      | dir => exact absurd hlk htd
      | link t => exact absurd hlk (lookup_not_link fs hl _ t)
      | file k => dsimp only; rw [writeAt_inside hs, hrel]
  · have hne' : q ≠ comps := by intro e; rw [e, isPrefix_refl] at hq; cases hq
    rw [lookup_setNode_ne _ _ _ _ hne']
    refine inv.frame q ?_
    cases h : isPrefix q dl with
    | false => rfl
    | true => rw [hcs, isPrefix_trans h (isPrefix_append _ _)] at hq; cases hq
  · rw [lookup_setNode_ne _ _ _ _ hqc]
    refine inv.made q ?_
    rw [hcs] at hq
    rcases isPrefix_concat_cases hq with e | h
    · exact absurd (e.trans hcs.symm) hqc
    · exact h

end Kapture.C18

namespace Kapture.C18

/-- the components a member's name is walked by -/
def pathOf (m : Member) : List String := split (stripSlashes m.name)

/-- a regular file with a plain relative name -/
def BenignFile (m : Member) : Prop :=
  m.kind = Kind.file ∧ ".." ∉ split m.name ∧ pathOf m ≠ [] ∧ (∀ c ∈ pathOf m, Plain c) ∧ (pathOf m).length < FUEL

/-- neither path is the other or lies below it -/
def Apart (a b : Member) : Prop := isPrefix (pathOf a) (pathOf b) = false ∧ isPrefix (pathOf b) (pathOf a) = false

/-- what the tree holds while a benign archive is being extracted: the files extracted so far, and the directories above them -/
structure BenignTree (fs : FS) (done : List Member) : Prop where
  linkFree : LinkFree fs
  files : ∀ q k, lookup fs q = some (Node.file k) → ∃ d ∈ done, q = pathOf d
  dirs : ∀ q, q ≠ [] → lookup fs q = some Node.dir → ∃ d ∈ done, isPrefix q (pathOf d) = true ∧ q ≠ pathOf d

theorem benign_untarFrom {dest : Path} : ∀ (ms : List Member) (fs : FS) (arch : Arch) (done : List Member),
    BenignTree fs done → (∀ m ∈ ms, BenignFile m) → (∀ d ∈ done, ∀ m ∈ ms, Apart d m) → ms.Pairwise Apart →
    ∃ fs', untarFrom dest fs arch ms = (fs', none) ∧
      (∀ m ∈ ms, lookup fs' (pathOf m) = some (Node.file m.content)) ∧
      (∀ q, (∀ m ∈ ms, isPrefix q (pathOf m) = false) → lookup fs' q = lookup fs q) := by
  intro ms
  induction ms with
  | nil => intro fs arch done _ _ _ _; exact ⟨fs, rfl, by simp, fun _ _ => rfl⟩
  | cons m ms ih =>
    intro fs arch done inv hb hapart hpw
    obtain ⟨hk, hn0, hne, hp, hlen⟩ := hb m (by simp)
    have hnf : ∀ x, isPrefix x (pathOf m) = true → x ≠ [] → x ≠ pathOf m → ∀ k, lookup fs x ≠ some (Node.file k) := by
      intro x hx _ _ k hlk
      obtain ⟨d, hd, rfl⟩ := inv.files x k hlk
      rw [(hapart d hd m (by simp)).1] at hx; cases hx
    have htd : lookup fs (pathOf m) ≠ some Node.dir := by
      intro hlk
      obtain ⟨d, hd, hpre, _⟩ := inv.dirs _ hne hlk
      rw [(hapart d hd m (by simp)).2] at hpre; cases hpre
    obtain ⟨fs1, hex, hfile, hlf, hframe, hmade⟩ := benign_member (dest := dest) inv.linkFree arch m hk (pathOf m) hn0 rfl hne hp hlen hnf htd
    have inv1 : BenignTree fs1 (done ++ [m]) := by
      refine ⟨hlf, fun q k hq => ?_, fun q hq0 hq => ?_⟩
      · by_cases hpre : isPrefix q (pathOf m) = true
        · by_cases e : q = pathOf m
          · exact ⟨m, by simp, e⟩
          · rw [hmade q hpre e] at hq; cases hq
        · rw [hframe q (by simpa using hpre)] at hq
          obtain ⟨d, hd, e⟩ := inv.files q k hq
          exact ⟨d, List.mem_append_left _ hd, e⟩
      · by_cases hpre : isPrefix q (pathOf m) = true
        · by_cases e : q = pathOf m
          · rw [e, hfile] at hq; cases hq
          · exact ⟨m, by simp, hpre, e⟩
        · rw [hframe q (by simpa using hpre)] at hq
          obtain ⟨d, hd, h1, h2⟩ := inv.dirs q hq0 hq
          exact ⟨d, List.mem_append_left _ hd, h1, h2⟩
    have hpw' := List.pairwise_cons.mp hpw
    obtain ⟨fs', hrun, hall, hfr⟩ := ih fs1 arch.next (done ++ [m]) inv1 (fun m' hm' => hb m' (List.mem_cons_of_mem _ hm'))
      (fun d hd m' hm' => by
        rcases List.mem_append.mp hd with hd | hd
        · exact hapart d hd m' (List.mem_cons_of_mem _ hm')
        · simp at hd; subst hd; exact hpw'.1 m' hm')
      hpw'.2
    refine ⟨fs', by rw [untarFrom, hex]; exact hrun, fun m' hm' => ?_, fun q hq => ?_⟩
    · rcases List.mem_cons.mp hm' with rfl | hm'
      · rw [hfr _ (fun m'' hm'' => (hpw'.1 m'' hm'').1)]; exact hfile
      · exact hall m' hm'
    · rw [hfr q (fun m' hm' => hq m' (List.mem_cons_of_mem _ hm'))]
      exact hframe q (hq m (by simp))

end Kapture.C18

namespace Kapture.C18

/-! ### the model never gives up: `unmodelled` is unreachable from `untar` -/

theorem findBefore_lt {all : List Member} {b : Nat} {key : Nat × List String} {k : Nat}
    (h : findBefore all b key = some k) : k < b ∧ k < all.length := by
  unfold findBefore at h
  have hm := List.mem_of_find?_eq_some h
  rw [List.mem_reverse, List.mem_range] at hm
  omega

theorem writeAt_not_unmodelled {dest : Path} {fs : FS} {q : Path} {n : Node} : writeAt dest fs q n ≠ Verdict.unmodelled := by
  unfold writeAt; split <;> simp

theorem placePayload_not_unmodelled {dest : Path} {fs : FS} (kind : Kind) (content : Nat) (linkname : String) (cur : Path)
    (last : String) (hk : kind = Kind.file ∨ kind = Kind.dir ∨ kind = Kind.sym) :
    placePayload dest fs kind content linkname cur last ≠ Verdict.unmodelled := by
  unfold placePayload
  dsimp only
  rcases hk with hk | hk | hk <;> subst hk <;> dsimp only
  · split
    · simp
    · split
      · simp
      · split
        · simp
        · exact writeAt_not_unmodelled
      · exact writeAt_not_unmodelled
  · split
    · exact writeAt_not_unmodelled
    · simp
  · split
    · simp
    · split
      · simp
      · exact writeAt_not_unmodelled

/-- no special file among the members before position `bound` -/
def NoSpecialBefore (all : List Member) (bound : Nat) : Prop := ∀ j e, j < bound → all[j]? = some e → e.kind ≠ Kind.special

theorem chain_not_unmodelled {dest : Path} {fs : FS} (all : List Member) (cur : Path) (last : String) (g : Ground) (bound : Nat)
    (hns : NoSpecialBefore all bound) :
    ∀ (fuel j : Nat), j < all.length → (g = Ground.free → j < bound) → chain dest fs all cur last g fuel j ≠ Verdict.unmodelled := by
  intro fuel
  induction fuel with
  | zero => intro j _ _; simp [chain]
  | succ n ih =>
    intro j hj hb
    unfold chain
    have hsome : all[j]? = some all[j] := List.getElem?_eq_getElem hj
    rw [hsome]
    dsimp only
    cases hk : all[j].kind <;> dsimp only
    · cases g <;> dsimp only
      · exact placePayload_not_unmodelled _ _ _ _ _ (Or.inl rfl)
      · simp
      · simp
    · cases g <;> dsimp only
      · exact placePayload_not_unmodelled _ _ _ _ _ (Or.inr (Or.inl rfl))
      · simp
      · simp
    · cases g <;> dsimp only
      · exact placePayload_not_unmodelled _ _ _ _ _ (Or.inr (Or.inr rfl))
      · cases hf : findBefore all all.length (symKey all[j]) <;> dsimp only
        · simp
        · exact ih _ (findBefore_lt hf).2 (fun h => by cases h)
      · cases hf : findBefore all all.length (symKey all[j]) <;> dsimp only
        · simp
        · exact ih _ (findBefore_lt hf).2 (fun h => by cases h)
    · cases hf : findBefore all j (normKey all[j].linkname) <;> dsimp only
      · simp
      · have := findBefore_lt hf
        exact ih _ this.2 (fun h => by have := hb h; omega)
    · cases g <;> dsimp only
      · exact absurd hk (hns j _ (hb rfl) hsome)
      · simp
      · simp

theorem placeFinal_not_unmodelled {dest : Path} {fs : FS} (arch : Arch) (m : Member) (cur : Path) (last : String) (curIsDir : Bool)
    (hns : NoSpecialBefore arch.all arch.pos) :
    placeFinal dest fs arch m cur last curIsDir ≠ Verdict.unmodelled := by
  unfold placeFinal
  dsimp only
  have hchain := chain_not_unmodelled (dest := dest) (fs := fs) arch.all cur last (groundOf dest fs cur last curIsDir) arch.pos hns
  cases hk : m.kind <;> dsimp only
  · cases hg : groundOf dest fs cur last curIsDir <;> dsimp only
    · exact placePayload_not_unmodelled _ _ _ _ _ (Or.inl rfl)
    · simp
    · simp
  · cases hg : groundOf dest fs cur last curIsDir <;> dsimp only
    · exact placePayload_not_unmodelled _ _ _ _ _ (Or.inr (Or.inl rfl))
    · simp
    · simp
  · cases hg : groundOf dest fs cur last curIsDir <;> dsimp only
    · exact placePayload_not_unmodelled _ _ _ _ _ (Or.inr (Or.inr rfl))
    · cases hf : findBefore arch.all arch.all.length (symKey m) <;> dsimp only
      · simp
      · rw [hg] at hchain; exact hchain _ _ (findBefore_lt hf).2 (fun h => by cases h)
    · cases hf : findBefore arch.all arch.all.length (symKey m) <;> dsimp only
      · simp
      · rw [hg] at hchain; exact hchain _ _ (findBefore_lt hf).2 (fun h => by cases h)
  · cases hs : linkSource dest fs (split m.linkname) <;> dsimp only
    · cases hf : findBefore arch.all arch.pos (normKey m.linkname) <;> dsimp only
      · simp
      · exact hchain _ _ (findBefore_lt hf).2 (fun _ => (findBefore_lt hf).1)
    · split
      · exact writeAt_not_unmodelled
      · cases hf : findBefore arch.all arch.pos (normKey m.linkname) <;> dsimp only
        · simp
        · exact hchain _ _ (findBefore_lt hf).2 (fun _ => (findBefore_lt hf).1)
  · simp

theorem extractMember_not_unmodelled {dest : Path} {fs : FS} (arch : Arch) (m : Member)
    (hns : NoSpecialBefore arch.all arch.pos) : extractMember dest fs arch m ≠ Verdict.unmodelled := by
  unfold extractMember
  dsimp only
  split
  · simp
  · split
    · simp
    · split
      · simp
      · split
        · simp
        · split
          · simp
          · simp
          · unfold placeMember
            split
            · simp
            · simp
            · exact placeFinal_not_unmodelled arch m _ _ _ hns

/-- a special file is never extracted: the member is refused, or an earlier error has already stopped everything -/
theorem extractMember_special {dest : Path} {fs : FS} (arch : Arch) (m : Member) (hk : m.kind = Kind.special) (fs' : FS) :
    extractMember dest fs arch m ≠ Verdict.ok fs' ∧ extractMember dest fs arch m ≠ Verdict.skipped fs' := by
  unfold extractMember
  dsimp only
  split
  · simp
  · split
    · simp
    · split
      · simp
      · rw [hk]; simp

theorem untarFrom_never_unmodelled {dest : Path} : ∀ (ms : List Member) (fs : FS) (arch : Arch),
    arch.all.drop arch.pos = ms → NoSpecialBefore arch.all arch.pos →
    (untarFrom dest fs arch ms).2 ≠ some Stop.unmodelled := by
  intro ms
  induction ms with
  | nil => intro fs arch _ _; simp [untarFrom]
  | cons m ms ih =>
    intro fs arch hd hns
    rw [untarFrom]
    have hm : arch.all[arch.pos]? = some m := by
      have := congrArg List.head? hd
      simpa [List.head?_drop] using this
    have hd' : arch.next.all.drop arch.next.pos = ms := by
      show arch.all.drop (arch.pos + 1) = ms
      rw [← List.drop_drop, hd]; rfl
    have hns' : ∀ fs', (extractMember dest fs arch m = Verdict.ok fs' ∨ extractMember dest fs arch m = Verdict.skipped fs') →
        NoSpecialBefore arch.next.all arch.next.pos := by
      intro fs' hv j e hj he
      show e.kind ≠ Kind.special
      have hj' : j < arch.pos + 1 := hj
      by_cases hjp : j = arch.pos
      · subst hjp
        have he' : arch.all[arch.pos]? = some e := he
        rw [hm] at he'
        cases he'
        intro hk
        have := extractMember_special (dest := dest) (fs := fs) arch m hk fs'
        rcases hv with hv | hv
        · exact this.1 hv
        · exact this.2 hv
      · exact hns j e (by omega) he
    cases hv : extractMember dest fs arch m with
    | ok fs' => exact ih fs' _ hd' (hns' fs' (Or.inl hv))
    | skipped fs' => exact ih fs' _ hd' (hns' fs' (Or.inr hv))
    | filterError why => simp
    | osError fs' why => simp
    | unmodelled => exact absurd hv (extractMember_not_unmodelled arch m hns)
    | escaped p => simp

end Kapture.C18
