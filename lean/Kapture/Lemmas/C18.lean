/-
  Lemmas/C18.lean — specification-side definitions and helper lemmas for C18.
-/
import Kapture.Model.C18

namespace Kapture.C18

/-- no symbolic link anywhere in the tree -/
def LinkFree (fs : FS) : Prop := ∀ e ∈ fs, ∀ t, e.2 ≠ Node.link t

/-- a plain relative name: no empty / "." / ".." component, not absolute -/
def PlainName (s : String) : Prop := ∀ c ∈ split s, c ≠ "" ∧ c ≠ "." ∧ c ≠ ".."

/-- every node of the result is either a node of the input or lies at a path relative to dest (the model only HAS paths
  below dest; the theorems below say the model never needs any other: no member is accepted whose resolved location is
  not under dest) -/
def Inside (dest target : Path) : Prop := isPrefix dest target = true

theorem lookup_not_link (fs : FS) (h : LinkFree fs) (p : Path) (t : String) : lookup fs p ≠ some (Node.link t) := by
  unfold lookup
  split
  · simp
  · intro heq
    rw [Option.map_eq_some_iff] at heq
    obtain ⟨e, he, h2⟩ := heq
    exact h e (List.mem_of_find?_eq_some he) t h2


/-- inversion of the filter guards at the top of `extractMember` -/
theorem extract_ok_inv (dest : Path) (fs fs' : FS) (m : Member)
    (earlier : List Member) (h : extractMember dest fs earlier m = Verdict.ok fs') :
    ∃ target, realpath dest fs FUEL dest (split (stripSlashes m.name)) = some target ∧ isPrefix dest target = true ∧
      m.kind ≠ Kind.special ∧
      ((m.kind = Kind.sym ∨ m.kind = Kind.hard) →
        m.linkname.startsWith "/" = false ∧
        ∃ t, realpath dest fs FUEL dest
          ((if m.kind = Kind.sym then (split (stripSlashes m.name)).dropLast else []) ++ split m.linkname) = some t ∧
          isPrefix dest t = true) ∧
      ∃ w, (match kresolve dest fs FUEL dest (split (stripSlashes m.name)).dropLast with
            | some p => Except.ok { fs := fs, cur := p, creating := false }
            | none => walkParent dest fs (split (stripSlashes m.name)).dropLast) = Except.ok w ∧
          isPrefix dest w.cur = true := by
  unfold extractMember at h
  dsimp only at h
  split at h
  · cases h
  · rename_i target ht
    refine ⟨target, ht, ?_⟩
    split at h
    · cases h
    · rename_i hp
      refine ⟨by simpa using hp, ?_⟩
      split at h
      · cases h
      · rename_i hs
        refine ⟨by simpa using hs, ?_⟩
        split at h
        · cases h
        · cases h
        · rename_i hlc
          constructor
          · intro hk
            have hk' : (m.kind == Kind.sym || m.kind == Kind.hard) = true := by simpa using hk
            rw [if_pos hk'] at hlc
            split at hlc
            · cases hlc
            · rename_i hsl
              refine ⟨by simpa using hsl, ?_⟩
              split at hlc
              · cases hlc
              · rename_i t hrt
                split at hlc
                · rename_i hpt
                  refine ⟨t, ?_, hpt⟩
                  simpa using hrt
                · cases hlc
          · split at h
            · cases h
            · rename_i w hw
              refine ⟨w, hw, ?_⟩
              split at h
              · cases h
              · rename_i hpw
                simpa using hpw

theorem isPrefix_append (a b : Path) : isPrefix a (a ++ b) = true := by
  simp [isPrefix]

theorem isPrefix_length {a b : Path} (h : isPrefix a b = true) : a.length ≤ b.length := by
  simp only [isPrefix, Bool.and_eq_true, decide_eq_true_eq] at h
  exact h.1

theorem kresolve_dotdots (dest : Path) (fs : FS) : ∀ (k fuel : Nat) (cur : Path), k < fuel →
    ∃ p, kresolve dest fs fuel cur (List.replicate k "..") = some p ∧ p.length = cur.length - k := by
  intro k
  induction k with
  | zero =>
    intro fuel cur hf
    obtain ⟨f, rfl⟩ : ∃ f, fuel = f + 1 := ⟨fuel - 1, by omega⟩
    exact ⟨cur, by simp [kresolve], by simp⟩
  | succ k ih =>
    intro fuel cur hf
    obtain ⟨f, rfl⟩ : ∃ f, fuel = f + 1 := ⟨fuel - 1, by omega⟩
    obtain ⟨p, hp, hl⟩ := ih f cur.dropLast (by omega)
    refine ⟨p, ?_, ?_⟩
    · rw [List.replicate_succ, kresolve.eq_3]
      have e1 : (".." == "" || ".." == ".") = false := by decide
      have e2 : (".." == "..") = true := by decide
      simp only [e1, e2, Bool.false_eq_true, if_false, if_true]
      exact hp
    · rw [hl, List.length_dropLast]; omega

end Kapture.C18
