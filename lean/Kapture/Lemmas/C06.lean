/-
  Lemmas/C06.lean — specification-side definitions and helper lemmas for C06.
-/
import Kapture.Model.C06

namespace Kapture.C06
open Kapture

variable {G : Type}

def isRig (rigs : Rigs G) (dev : String) : Prop := (membersOf rigs dev).isSome = true

/-- "the world pose implied by the rig pose and the rig geometry": one mounting step, then any number of them.
  `Mounted rigs mul (d, g) (d', g')`: d' is reached from d by descending the rig forest, composing the member poses. -/
inductive Mounted (mul : G → G → G) (rigs : Rigs G) : String × G → String × G → Prop where
  | here (d : String) (g : G) : Mounted mul rigs (d, g) (d, g)
  | step (r : String) (g : G) (members : List (String × G)) (m : String) (gm : G) (d : String) (g' : G) :
      membersOf rigs r = some members → (m, gm) ∈ members →
      Mounted mul rigs (m, mul gm g) (d, g') → Mounted mul rigs (r, g) (d, g')

/-- every mounting chain from `d` reaches a non-rig device within n steps (nesting depth at most n) -/
def DepthLE (rigs : Rigs G) : Nat → String → Prop
  | 0, d => ¬ isRig rigs d
  | n + 1, d => ∀ members, membersOf rigs d = some members → ∀ m ∈ members, DepthLE rigs n m.1

/-- same entries, order aside -/
def SameEntries (a b : List (Entry G)) : Prop := ∀ ts d g, (∃ e ∈ a, e.ts = ts ∧ e.dev = d ∧ e.g = g) ↔ (∃ e ∈ b, e.ts = ts ∧ e.dev = d ∧ e.g = g)


/-! ### basic facts -/

theorem sameEntries_of_mem_iff {a b : List (Entry G)} (h : ∀ e, e ∈ a ↔ e ∈ b) : SameEntries a b := by
  intro ts d g
  constructor
  · rintro ⟨e, he, h1, h2, h3⟩; exact ⟨e, (h e).mp he, h1, h2, h3⟩
  · rintro ⟨e, he, h1, h2, h3⟩; exact ⟨e, (h e).mpr he, h1, h2, h3⟩

theorem not_isRig_iff (rigs : Rigs G) (d : String) : ¬ isRig rigs d ↔ membersOf rigs d = none := by
  unfold isRig
  cases membersOf rigs d <;> simp

theorem isRig_of_some {rigs : Rigs G} {d : String} {members : List (String × G)}
    (h : membersOf rigs d = some members) : isRig rigs d := by
  unfold isRig; rw [h]; rfl

theorem hasRigEntry_eq_false_iff (rigs : Rigs G) (t : List (Entry G)) :
    hasRigEntry rigs t = false ↔ ∀ e ∈ t, ¬ isRig rigs e.dev := by
  simp [hasRigEntry, isRig]

theorem depthLE_of_not_rig (rigs : Rigs G) (k : Nat) (d : String) (h : ¬ isRig rigs d) : DepthLE rigs k d := by
  cases k with
  | zero => exact h
  | succ k =>
    intro members hmo
    exact absurd (isRig_of_some hmo) h

theorem mem_removeStep (mul : G → G → G) (rigs : Rigs G) (t : List (Entry G)) (e' : Entry G) :
    e' ∈ removeStep mul rigs t ↔ ∃ e ∈ t, (membersOf rigs e.dev = none ∧ e' = e) ∨
      (∃ members m gm, membersOf rigs e.dev = some members ∧ (m, gm) ∈ members ∧
        e' = ⟨e.ts, m, mul gm e.g⟩) := by
  unfold removeStep
  rw [List.mem_flatMap]
  constructor
  · rintro ⟨e, he, h⟩
    refine ⟨e, he, ?_⟩
    cases hmo : membersOf rigs e.dev with
    | none =>
      rw [hmo] at h
      exact Or.inl ⟨rfl, List.mem_singleton.mp h⟩
    | some members =>
      rw [hmo] at h
      obtain ⟨⟨m, gm⟩, hm, rfl⟩ := List.mem_map.mp h
      exact Or.inr ⟨members, m, gm, rfl, hm, rfl⟩
  · rintro ⟨e, he, h⟩
    refine ⟨e, he, ?_⟩
    rcases h with ⟨hmo, rfl⟩ | ⟨members, m, gm, hmo, hm, rfl⟩
    · rw [hmo]; exact List.mem_singleton.mpr rfl
    · rw [hmo]; exact List.mem_map.mpr ⟨(m, gm), hm, rfl⟩

theorem Mounted.trans {mul : G → G → G} {rigs : Rigs G} {a b c : String × G}
    (h1 : Mounted mul rigs a b) (h2 : Mounted mul rigs b c) : Mounted mul rigs a c := by
  induction h1 with
  | here d g => exact h2
  | step r g members m gm d g' hmo hm _ ih =>
    exact Mounted.step r g members m gm c.1 c.2 hmo hm (ih h2)

/-! ### the replacement loop -/

theorem remove_keeps_free (mul : G → G → G) (rigs : Rigs G) (n : Nat) (t : List (Entry G)) (e : Entry G)
    (he : e ∈ t) (hf : ¬ isRig rigs e.dev) : e ∈ remove mul rigs n t := by
  induction n generalizing t with
  | zero => exact he
  | succ n ih =>
    unfold remove
    split
    · apply ih
      exact (mem_removeStep mul rigs t e).mpr ⟨e, he, Or.inl ⟨(not_isRig_iff rigs e.dev).mp hf, rfl⟩⟩
    · exact he

theorem remove_sound_aux (mul : G → G → G) (rigs : Rigs G) (n : Nat) (t : List (Entry G)) (e' : Entry G)
    (h : e' ∈ remove mul rigs n t) :
    ∃ e ∈ t, e.ts = e'.ts ∧ Mounted mul rigs (e.dev, e.g) (e'.dev, e'.g) := by
  induction n generalizing t with
  | zero => exact ⟨e', h, rfl, Mounted.here _ _⟩
  | succ n ih =>
    unfold remove at h
    split at h
    · obtain ⟨e1, he1, hts, hm1⟩ := ih _ h
      obtain ⟨e, he, hc⟩ := (mem_removeStep mul rigs t e1).mp he1
      rcases hc with ⟨_, rfl⟩ | ⟨members, m, gm, hmo, hm, rfl⟩
      · exact ⟨e1, he, hts, hm1⟩
      · exact ⟨e, he, hts, Mounted.step e.dev e.g members m gm _ _ hmo hm hm1⟩
    · exact ⟨e', h, rfl, Mounted.here _ _⟩

theorem remove_complete_aux (mul : G → G → G) (rigs : Rigs G) (d : String) (g : G) (hs : ¬ isRig rigs d)
    (n : Nat) (t : List (Entry G)) (ts : Int) (d0 : String) (g0 : G)
    (he : (⟨ts, d0, g0⟩ : Entry G) ∈ t) (hd : DepthLE rigs n d0) (hm : Mounted mul rigs (d0, g0) (d, g)) :
    ∃ e' ∈ remove mul rigs n t, e'.ts = ts ∧ e'.dev = d ∧ e'.g = g := by
  induction n generalizing t d0 g0 with
  | zero =>
    cases hm with
    | here => exact ⟨_, he, rfl, rfl, rfl⟩
    | step _ _ members m gm _ _ hmo _ _ => exact absurd (isRig_of_some hmo) hd
  | succ n ih =>
    cases hm with
    | here => exact ⟨_, remove_keeps_free mul rigs (n + 1) t _ he hs, rfl, rfl, rfl⟩
    | step _ _ members m gm _ _ hmo hmem hrest =>
      have hrig : hasRigEntry rigs t = true := by
        cases hh : hasRigEntry rigs t with
        | true => rfl
        | false =>
          exact absurd (isRig_of_some hmo) ((hasRigEntry_eq_false_iff rigs t).mp hh _ he)
      unfold remove
      rw [if_pos hrig]
      apply ih _ m (mul gm g0) _ (hd members hmo (m, gm) hmem) hrest
      exact (mem_removeStep mul rigs t _).mpr ⟨_, he, Or.inr ⟨members, m, gm, hmo, hmem, rfl⟩⟩

theorem remove_leaves_no_rig_aux (mul : G → G → G) (rigs : Rigs G) (n : Nat) (t : List (Entry G))
    (hd : ∀ e ∈ t, DepthLE rigs n e.dev) : ∀ e' ∈ remove mul rigs n t, ¬ isRig rigs e'.dev := by
  induction n generalizing t with
  | zero => exact hd
  | succ n ih =>
    unfold remove
    split
    · apply ih
      intro e1 he1
      obtain ⟨e, he, hc⟩ := (mem_removeStep mul rigs t e1).mp he1
      rcases hc with ⟨hmo, rfl⟩ | ⟨members, m, gm, hmo, hm, rfl⟩
      · exact depthLE_of_not_rig rigs n _ ((not_isRig_iff rigs _).mpr hmo)
      · exact hd e he members hmo (m, gm) hm
    · next hh =>
      have hh' : hasRigEntry rigs t = false := by simpa using hh
      exact (hasRigEntry_eq_false_iff rigs t).mp hh'

theorem remove_identity_aux (mul : G → G → G) (rigs : Rigs G) (n : Nat) (t : List (Entry G))
    (h : ∀ e ∈ t, ¬ isRig rigs e.dev) : remove mul rigs n t = t := by
  cases n with
  | zero => rfl
  | succ n =>
    unfold remove
    rw [if_neg]
    rw [(hasRigEntry_eq_false_iff rigs t).mpr h]
    exact Bool.false_ne_true

/-! ### the reversed rig dictionary -/

theorem get?_foldl_set_of_not_mem {κ ν : Type} [DecidableEq κ] (k : κ) (l acc : List (κ × ν))
    (h : k ∉ l.map Prod.fst) :
    Dict.get? k (l.foldl (fun acc kv => Dict.set kv.1 kv.2 acc) acc) = Dict.get? k acc := by
  induction l generalizing acc with
  | nil => rfl
  | cons hd tl ih =>
    simp only [List.map_cons, List.mem_cons, not_or] at h
    rw [List.foldl_cons, ih _ h.2, Dict.get?_set_ne _ _ _ _ h.1]

theorem get?_foldl_set_of_mem {κ ν : Type} [DecidableEq κ] (k : κ) (v : ν) (l acc : List (κ × ν))
    (hn : (l.map Prod.fst).Nodup) (h : (k, v) ∈ l) :
    Dict.get? k (l.foldl (fun acc kv => Dict.set kv.1 kv.2 acc) acc) = some v := by
  induction l generalizing acc with
  | nil => cases h
  | cons hd tl ih =>
    rw [List.map_cons, List.nodup_cons] at hn
    rw [List.foldl_cons]
    rcases List.mem_cons.mp h with h | h
    · subst h
      rw [get?_foldl_set_of_not_mem _ _ _ hn.1, Dict.get?_set_self]
    · exact ih _ hn.2 h

theorem mem_of_get?_foldl_set {κ ν : Type} [DecidableEq κ] (k : κ) (v : ν) (l acc : List (κ × ν))
    (h : Dict.get? k (l.foldl (fun acc kv => Dict.set kv.1 kv.2 acc) acc) = some v) :
    (k, v) ∈ l ∨ Dict.get? k acc = some v := by
  induction l generalizing acc with
  | nil => exact Or.inr h
  | cons hd tl ih =>
    rw [List.foldl_cons] at h
    rcases ih _ h with h1 | h1
    · exact Or.inl (List.mem_cons_of_mem _ h1)
    · rw [Dict.get?_set] at h1
      split at h1
      · next hk =>
        left
        have : hd = (k, v) := by
          obtain ⟨a, b⟩ := hd
          simp only [Option.some.injEq] at h1
          simp only at hk
          rw [hk, h1]
        rw [this]; exact List.mem_cons_self
      · exact Or.inr h1

theorem mem_of_get? {κ ν : Type} [DecidableEq κ] (k : κ) (v : ν) (l : List (κ × ν))
    (h : Dict.get? k l = some v) : (k, v) ∈ l := by
  induction l with
  | nil => cases h
  | cons hd tl ih =>
    obtain ⟨a, b⟩ := hd
    simp only [Dict.get?] at h
    split at h
    · next hk =>
      simp only [Option.some.injEq] at h
      rw [hk, h]; exact List.mem_cons_self
    · exact List.mem_cons_of_mem _ (ih h)

theorem get?_isSome_of_mem {κ ν : Type} [DecidableEq κ] (k : κ) (v : ν) (l : List (κ × ν))
    (h : (k, v) ∈ l) : (Dict.get? k l).isSome = true := by
  rw [← Dict.mem_keys_iff]
  exact List.mem_map.mpr ⟨(k, v), h, rfl⟩

/-- the reversed dictionary as one `dict(pairs)` over the flattened member list -/
def revPairs (inv : G → G) (rigs : Rigs G) : List (String × String × G) :=
  rigs.flatMap (fun r => r.2.map (fun m => (m.1, (r.1, inv m.2))))

theorem reverseRigs_eq (inv : G → G) (rigs : Rigs G) :
    reverseRigs inv rigs = (revPairs inv rigs).foldl (fun acc kv => Dict.set kv.1 kv.2 acc) [] := by
  unfold reverseRigs revPairs
  rw [List.foldl_flatMap]
  congr
  funext acc r
  rw [List.foldl_map]

theorem mem_revPairs (inv : G → G) (rigs : Rigs G) (m r : String) (x : G) :
    (m, (r, x)) ∈ revPairs inv rigs ↔ ∃ members gm, (r, members) ∈ rigs ∧ (m, gm) ∈ members ∧ x = inv gm := by
  unfold revPairs
  simp only [List.mem_flatMap, List.mem_map, Prod.mk.injEq]
  constructor
  · rintro ⟨⟨r', members⟩, hr, ⟨m', gm⟩, hm, rfl, rfl, rfl⟩
    exact ⟨members, gm, hr, hm, rfl⟩
  · rintro ⟨members, gm, hr, hm, rfl⟩
    exact ⟨(r, members), hr, (m, gm), hm, rfl, rfl, rfl⟩

theorem revPairs_keys (inv : G → G) (rigs : Rigs G) :
    (revPairs inv rigs).map Prod.fst = rigs.flatMap (fun r => r.2.map (·.1)) := by
  unfold revPairs
  rw [List.map_flatMap]
  congr
  funext r
  rw [List.map_map]
  rfl

/-- whatever the reversed dictionary returns for `m` is a mounting of `m` -/
theorem reverseRigs_sound (inv : G → G) (rigs : Rigs G) (m r : String) (x : G)
    (h : Dict.get? m (reverseRigs inv rigs) = some (r, x)) :
    ∃ members gm, (r, members) ∈ rigs ∧ (m, gm) ∈ members ∧ x = inv gm := by
  rw [reverseRigs_eq] at h
  rcases mem_of_get?_foldl_set _ _ _ _ h with h1 | h1
  · exact (mem_revPairs inv rigs m r x).mp h1
  · cases h1

/-- when every device is mounted at most once, the reversed dictionary returns that mounting -/
theorem reverseRigs_complete (inv : G → G) (rigs : Rigs G)
    (hone : (rigs.flatMap (fun r => r.2.map (·.1))).Nodup)
    (m r : String) (members : List (String × G)) (gm : G) (hr : (r, members) ∈ rigs) (hm : (m, gm) ∈ members) :
    Dict.get? m (reverseRigs inv rigs) = some (r, inv gm) := by
  rw [reverseRigs_eq]
  apply get?_foldl_set_of_mem
  · rw [revPairs_keys]; exact hone
  · exact (mem_revPairs inv rigs m r (inv gm)).mpr ⟨members, gm, hr, hm, rfl⟩

/-! ### the recovery pass -/

theorem entry_eq_of_key_eq (t : List (Entry G)) (hkeys : (t.map (fun e => (e.ts, e.dev))).Nodup)
    (a b : Entry G) (ha : a ∈ t) (hb : b ∈ t) (hts : a.ts = b.ts) (hdev : a.dev = b.dev) : a = b := by
  induction t with
  | nil => cases ha
  | cons hd tl ih =>
    rw [List.map_cons, List.nodup_cons] at hkeys
    rcases List.mem_cons.mp ha with ha1 | ha1 <;> rcases List.mem_cons.mp hb with hb1 | hb1
    · rw [ha1, hb1]
    · exact absurd (List.mem_map.mpr ⟨b, hb1, show (b.ts, b.dev) = (hd.ts, hd.dev) by rw [← ha1, hts, hdev]⟩) hkeys.1
    · exact absurd (List.mem_map.mpr ⟨a, ha1, show (a.ts, a.dev) = (hd.ts, hd.dev) by rw [← hb1, hts, hdev]⟩) hkeys.1
    · exact ih hkeys.2 ha1 hb1

/-- one job of the recovery pass with unspecified master sensors -/
def recJob (mul : G → G → G) (rev : List (String × String × G)) (cur : List (Entry G)) (e : Entry G) :
    List (Entry G) :=
  match Dict.get? e.dev rev with
  | none => cur
  | some (rig, x) =>
    if (cur.filter (fun c => !(c.ts == e.ts && c.dev == e.dev))).any (fun c => c.ts == e.ts && c.dev == rig)
    then cur.filter (fun c => !(c.ts == e.ts && c.dev == e.dev))
    else cur.filter (fun c => !(c.ts == e.ts && c.dev == e.dev)) ++ [⟨e.ts, rig, mul x e.g⟩]

theorem recoverStep_none (mul : G → G → G) (inv : G → G) (rigs : Rigs G) (sorted : List (Entry G)) :
    recoverStep mul inv rigs none sorted = sorted.foldl (recJob mul (reverseRigs inv rigs)) sorted := by
  rfl

theorem recJob_none {mul : G → G → G} {rev : List (String × String × G)} (cur : List (Entry G)) (e : Entry G)
    (h : Dict.get? e.dev rev = none) : recJob mul rev cur e = cur := by
  unfold recJob; rw [h]

theorem mem_filter_pop (cur : List (Entry G)) (e c : Entry G) :
    c ∈ cur.filter (fun c => !(c.ts == e.ts && c.dev == e.dev)) ↔ c ∈ cur ∧ ¬ (c.ts = e.ts ∧ c.dev = e.dev) := by
  rw [List.mem_filter]
  simp only [Bool.not_eq_true', Bool.and_eq_false_iff, beq_eq_false_iff_ne, ne_eq,
    Decidable.not_and_iff_not_or_not]

theorem mem_recJob_some {mul : G → G → G} {rev : List (String × String × G)} (cur : List (Entry G)) (e c : Entry G)
    (r : String) (x : G) (h : Dict.get? e.dev rev = some (r, x)) (hc : c ∈ recJob mul rev cur e) :
    (c ∈ cur ∧ ¬ (c.ts = e.ts ∧ c.dev = e.dev)) ∨ c = ⟨e.ts, r, mul x e.g⟩ := by
  unfold recJob at hc
  rw [h] at hc
  simp only at hc
  split at hc
  · exact Or.inl ((mem_filter_pop cur e c).mp hc)
  · rcases List.mem_append.mp hc with hc | hc
    · exact Or.inl ((mem_filter_pop cur e c).mp hc)
    · exact Or.inr (List.mem_singleton.mp hc)

theorem recJob_some_keeps {mul : G → G → G} {rev : List (String × String × G)} (cur : List (Entry G)) (e c : Entry G)
    (r : String) (x : G) (h : Dict.get? e.dev rev = some (r, x)) (hc : c ∈ cur)
    (hne : ¬ (c.ts = e.ts ∧ c.dev = e.dev)) : c ∈ recJob mul rev cur e := by
  unfold recJob
  rw [h]
  simp only
  have := (mem_filter_pop cur e c).mpr ⟨hc, hne⟩
  split
  · exact this
  · exact List.mem_append_left _ this

theorem recJob_some_has_rig {mul : G → G → G} {rev : List (String × String × G)} (cur : List (Entry G)) (e : Entry G)
    (r : String) (x : G) (h : Dict.get? e.dev rev = some (r, x)) :
    ∃ c ∈ recJob mul rev cur e, c.ts = e.ts ∧ c.dev = r := by
  unfold recJob
  rw [h]
  simp only
  split
  · next hany =>
    obtain ⟨c, hc, hp⟩ := List.any_eq_true.mp hany
    simp only [Bool.and_eq_true, beq_iff_eq] at hp
    exact ⟨c, hc, hp⟩
  · exact ⟨_, List.mem_append_right _ (List.mem_singleton.mpr rfl), rfl, rfl⟩

/-- an entry of the result of the pass was either there from the start and popped by no job, or was set by a job -/
theorem mem_foldl_recJob {mul : G → G → G} {rev : List (String × String × G)} (jobs cur : List (Entry G)) (c : Entry G)
    (hc : c ∈ jobs.foldl (recJob mul rev) cur) :
    (c ∈ cur ∧ ∀ j ∈ jobs, (Dict.get? j.dev rev).isSome = true → ¬ (c.ts = j.ts ∧ c.dev = j.dev)) ∨
    (∃ j ∈ jobs, ∃ r x, Dict.get? j.dev rev = some (r, x) ∧ c = ⟨j.ts, r, mul x j.g⟩) := by
  induction jobs generalizing cur with
  | nil => exact Or.inl ⟨hc, fun j hj => absurd hj List.not_mem_nil⟩
  | cons j0 rest ih =>
    rw [List.foldl_cons] at hc
    rcases ih _ hc with ⟨h1, h2⟩ | ⟨j, hj, r, x, hg, rfl⟩
    · cases hg : Dict.get? j0.dev rev with
      | none =>
        rw [recJob_none cur j0 hg] at h1
        refine Or.inl ⟨h1, ?_⟩
        intro j hj hs
        rcases List.mem_cons.mp hj with rfl | hj
        · rw [hg] at hs; cases hs
        · exact h2 j hj hs
      | some p =>
        obtain ⟨r, x⟩ := p
        rcases mem_recJob_some cur j0 c r x hg h1 with ⟨h3, h4⟩ | rfl
        · refine Or.inl ⟨h3, ?_⟩
          intro j hj hs
          rcases List.mem_cons.mp hj with rfl | hj
          · exact h4
          · exact h2 j hj hs
        · exact Or.inr ⟨j0, List.mem_cons_self, r, x, hg, rfl⟩
    · exact Or.inr ⟨j, List.mem_cons_of_mem _ hj, r, x, hg, rfl⟩

/-- an entry whose device is not a rig member survives the pass -/
theorem foldl_recJob_keeps {mul : G → G → G} {rev : List (String × String × G)} (jobs cur : List (Entry G)) (c : Entry G)
    (hc : c ∈ cur) (hn : Dict.get? c.dev rev = none) : c ∈ jobs.foldl (recJob mul rev) cur := by
  induction jobs generalizing cur with
  | nil => exact hc
  | cons j0 rest ih =>
    rw [List.foldl_cons]
    apply ih
    cases hg : Dict.get? j0.dev rev with
    | none => rw [recJob_none cur j0 hg]; exact hc
    | some p =>
      obtain ⟨r, x⟩ := p
      apply recJob_some_keeps cur j0 c r x hg hc
      rintro ⟨_, hd⟩
      rw [hd, hg] at hn
      cases hn

/-- every job leaves an entry of its rig at its timestamp -/
theorem foldl_recJob_has_rig {mul : G → G → G} {rev : List (String × String × G)} (jobs cur : List (Entry G))
    (j : Entry G) (r : String) (x : G) (hj : j ∈ jobs) (hg : Dict.get? j.dev rev = some (r, x))
    (hr : Dict.get? r rev = none) : ∃ c ∈ jobs.foldl (recJob mul rev) cur, c.ts = j.ts ∧ c.dev = r := by
  induction jobs generalizing cur with
  | nil => cases hj
  | cons j0 rest ih =>
    rw [List.foldl_cons]
    rcases List.mem_cons.mp hj with rfl | hj
    · obtain ⟨c, hc, h1, h2⟩ := recJob_some_has_rig (mul := mul) cur j r x hg
      exact ⟨c, foldl_recJob_keeps rest _ c hc (by rw [h2]; exact hr), h1, h2⟩
    · exact ih _ hj

/-- recovering after one replacement pass, for depth-1 rigs -/
theorem recover_remove_depth1_aux (mul : G → G → G) (inv : G → G) (rigs : Rigs G) (t : List (Entry G))
    (hinv : ∀ a b, mul (inv a) (mul a b) = b)
    (hflat : ∀ r members, (r, members) ∈ rigs → members ≠ [] ∧ ∀ m ∈ members, ¬ isRig rigs m.1)
    (hone : (rigs.flatMap (fun r => r.2.map (·.1))).Nodup)
    (hsrc : ∀ e ∈ t, (Dict.get? e.dev (reverseRigs inv rigs)).isNone = true)
    (hkeys : (t.map (fun e => (e.ts, e.dev))).Nodup) (c : Entry G) :
    c ∈ recoverStep mul inv rigs none (removeStep mul rigs t) ↔ c ∈ t := by
  rw [recoverStep_none]
  -- a rig is never a member
  have hrigfree : ∀ r members, (r, members) ∈ rigs → Dict.get? r (reverseRigs inv rigs) = none := by
    intro r members hr
    cases hg : Dict.get? r (reverseRigs inv rigs) with
    | none => rfl
    | some p =>
      obtain ⟨r', x⟩ := p
      obtain ⟨members', gm, hr', hm', _⟩ := reverseRigs_sound inv rigs r r' x hg
      exact absurd (get?_isSome_of_mem r members rigs hr) ((hflat r' members' hr').2 (r, gm) hm')
  -- the jobs: entries of the replaced trajectory that are member entries come from a rig entry of `t`
  have hjob : ∀ j ∈ removeStep mul rigs t, ∀ r x, Dict.get? j.dev (reverseRigs inv rigs) = some (r, x) →
      (⟨j.ts, r, mul x j.g⟩ : Entry G) ∈ t ∧ Dict.get? r (reverseRigs inv rigs) = none := by
    intro j hj r x hg
    obtain ⟨e, he, hcase⟩ := (mem_removeStep mul rigs t j).mp hj
    rcases hcase with ⟨_, rfl⟩ | ⟨members, m, gm, hmo, hm, rfl⟩
    · have := hsrc j he
      rw [hg] at this; cases this
    · have hr : (e.dev, members) ∈ rigs := mem_of_get? _ _ _ hmo
      have := reverseRigs_complete inv rigs hone m e.dev members gm hr hm
      simp only at hg
      rw [this] at hg
      simp only [Option.some.injEq, Prod.mk.injEq] at hg
      obtain ⟨rfl, rfl⟩ := hg
      simp only [hinv]
      exact ⟨he, hrigfree _ _ hr⟩
  constructor
  · intro hc
    rcases mem_foldl_recJob _ _ c hc with ⟨h1, h2⟩ | ⟨j, hj, r, x, hg, rfl⟩
    · obtain ⟨e, he, hcase⟩ := (mem_removeStep mul rigs t c).mp h1
      rcases hcase with ⟨_, rfl⟩ | ⟨members, m, gm, hmo, hm, rfl⟩
      · exact he
      · exfalso
        have hr : (e.dev, members) ∈ rigs := mem_of_get? _ _ _ hmo
        have := reverseRigs_complete inv rigs hone m e.dev members gm hr hm
        exact h2 _ h1 (by simp only; rw [this]; rfl) ⟨rfl, rfl⟩
    · exact (hjob j hj r x hg).1
  · intro hc
    cases hmo : membersOf rigs c.dev with
    | none =>
      apply foldl_recJob_keeps
      · exact (mem_removeStep mul rigs t c).mpr ⟨c, hc, Or.inl ⟨hmo, rfl⟩⟩
      · have := hsrc c hc
        cases hg : Dict.get? c.dev (reverseRigs inv rigs) with
        | none => rfl
        | some p => rw [hg] at this; cases this
    | some members =>
      have hr : (c.dev, members) ∈ rigs := mem_of_get? _ _ _ hmo
      obtain ⟨hne, _⟩ := hflat _ _ hr
      obtain ⟨⟨m, gm⟩, hm⟩ := List.exists_mem_of_ne_nil _ hne
      have hj : (⟨c.ts, m, mul gm c.g⟩ : Entry G) ∈ removeStep mul rigs t :=
        (mem_removeStep mul rigs t _).mpr ⟨c, hc, Or.inr ⟨members, m, gm, hmo, hm, rfl⟩⟩
      have hg := reverseRigs_complete inv rigs hone m c.dev members gm hr hm
      obtain ⟨c', hc', hts, hdev⟩ := foldl_recJob_has_rig (mul := mul) (removeStep mul rigs t) (removeStep mul rigs t)
        _ c.dev (inv gm) hj hg (hrigfree _ _ hr)
      have hc't : c' ∈ t := by
        rcases mem_foldl_recJob _ _ c' hc' with ⟨h1, _⟩ | ⟨j, hj, r, x, hg, rfl⟩
        · exfalso
          obtain ⟨e, he, hcase⟩ := (mem_removeStep mul rigs t c').mp h1
          rcases hcase with ⟨hmo', rfl⟩ | ⟨members', m', gm', hmo', hm', rfl⟩
          · rw [hdev, hmo] at hmo'; cases hmo'
          · have hr' : (e.dev, members') ∈ rigs := mem_of_get? _ _ _ hmo'
            simp only at hdev
            subst hdev
            exact absurd (isRig_of_some hmo) ((hflat _ _ hr').2 _ hm')
        · exact (hjob j hj r x hg).1
      -- same (timestamp, device) key in `t`, hence the same entry
      have : c' = c := by
        exact entry_eq_of_key_eq t hkeys c' c hc't hc hts hdev
      rw [← this]; exact hc'

/-! ### recovery with nesting and master sensors -/

/-- the master-sensor filter of `rigs_recover_inplace` as a predicate on device ids (`None` filters nothing) -/
def okOf (masters : Option (List String)) (d : String) : Bool :=
  match masters with
  | some ms => ms.contains d
  | none => true

/-- one job of the recovery pass, master-sensor filter `ok` -/
def recJobM (mul : G → G → G) (rev : List (String × String × G)) (ok : String → Bool) (cur : List (Entry G))
    (e : Entry G) : List (Entry G) :=
  match Dict.get? e.dev rev with
  | none => cur
  | some (rig, x) =>
    if !ok e.dev then cur.filter (fun c => !(c.ts == e.ts && c.dev == e.dev))
    else if (cur.filter (fun c => !(c.ts == e.ts && c.dev == e.dev))).any (fun c => c.ts == e.ts && c.dev == rig)
    then cur.filter (fun c => !(c.ts == e.ts && c.dev == e.dev))
    else cur.filter (fun c => !(c.ts == e.ts && c.dev == e.dev)) ++ [⟨e.ts, rig, mul x e.g⟩]

theorem recoverStep_eq (mul : G → G → G) (inv : G → G) (rigs : Rigs G) (masters : Option (List String))
    (sorted : List (Entry G)) :
    recoverStep mul inv rigs masters sorted
      = sorted.foldl (recJobM mul (reverseRigs inv rigs) (okOf masters)) sorted := by
  cases masters <;> rfl

theorem recJobM_none {mul : G → G → G} {rev : List (String × String × G)} {ok : String → Bool}
    (cur : List (Entry G)) (e : Entry G) (h : Dict.get? e.dev rev = none) : recJobM mul rev ok cur e = cur := by
  unfold recJobM; rw [h]

theorem mem_recJobM_some {mul : G → G → G} {rev : List (String × String × G)} {ok : String → Bool}
    (cur : List (Entry G)) (e c : Entry G) (r : String) (x : G) (h : Dict.get? e.dev rev = some (r, x))
    (hc : c ∈ recJobM mul rev ok cur e) :
    (c ∈ cur ∧ ¬ (c.ts = e.ts ∧ c.dev = e.dev)) ∨ c = ⟨e.ts, r, mul x e.g⟩ := by
  unfold recJobM at hc
  rw [h] at hc
  simp only at hc
  split at hc
  · exact Or.inl ((mem_filter_pop cur e c).mp hc)
  · split at hc
    · exact Or.inl ((mem_filter_pop cur e c).mp hc)
    · rcases List.mem_append.mp hc with hc | hc
      · exact Or.inl ((mem_filter_pop cur e c).mp hc)
      · exact Or.inr (List.mem_singleton.mp hc)

theorem recJobM_some_keeps {mul : G → G → G} {rev : List (String × String × G)} {ok : String → Bool}
    (cur : List (Entry G)) (e c : Entry G) (r : String) (x : G) (h : Dict.get? e.dev rev = some (r, x))
    (hc : c ∈ cur) (hne : ¬ (c.ts = e.ts ∧ c.dev = e.dev)) : c ∈ recJobM mul rev ok cur e := by
  unfold recJobM
  rw [h]
  simp only
  have := (mem_filter_pop cur e c).mpr ⟨hc, hne⟩
  split
  · exact this
  · split
    · exact this
    · exact List.mem_append_left _ this

theorem recJobM_some_has_rig {mul : G → G → G} {rev : List (String × String × G)} {ok : String → Bool}
    (cur : List (Entry G)) (e : Entry G) (r : String) (x : G) (h : Dict.get? e.dev rev = some (r, x))
    (hok : ok e.dev = true) : ∃ c ∈ recJobM mul rev ok cur e, c.ts = e.ts ∧ c.dev = r := by
  unfold recJobM
  rw [h]
  simp only [hok, Bool.not_true, Bool.false_eq_true, if_false]
  split
  · next hany =>
    obtain ⟨c, hc, hp⟩ := List.any_eq_true.mp hany
    simp only [Bool.and_eq_true, beq_iff_eq] at hp
    exact ⟨c, hc, hp⟩
  · exact ⟨_, List.mem_append_right _ (List.mem_singleton.mpr rfl), rfl, rfl⟩

/-- an entry of the result of a pass was there before, or was set by a job -/
theorem mem_foldl_recJobM {mul : G → G → G} {rev : List (String × String × G)} {ok : String → Bool}
    (jobs cur : List (Entry G)) (c : Entry G) (hc : c ∈ jobs.foldl (recJobM mul rev ok) cur) :
    c ∈ cur ∨ ∃ j ∈ jobs, ∃ r x, Dict.get? j.dev rev = some (r, x) ∧ c = ⟨j.ts, r, mul x j.g⟩ := by
  induction jobs generalizing cur with
  | nil => exact Or.inl hc
  | cons j0 rest ih =>
    rw [List.foldl_cons] at hc
    rcases ih _ hc with h1 | ⟨j, hj, r, x, hg, rfl⟩
    · cases hg : Dict.get? j0.dev rev with
      | none => rw [recJobM_none cur j0 hg] at h1; exact Or.inl h1
      | some p =>
        obtain ⟨r, x⟩ := p
        rcases mem_recJobM_some cur j0 c r x hg h1 with ⟨h3, _⟩ | rfl
        · exact Or.inl h3
        · exact Or.inr ⟨j0, List.mem_cons_self, r, x, hg, rfl⟩
    · exact Or.inr ⟨j, List.mem_cons_of_mem _ hj, r, x, hg, rfl⟩

/-- an entry whose device is not mounted survives the pass -/
theorem foldl_recJobM_keeps {mul : G → G → G} {rev : List (String × String × G)} {ok : String → Bool}
    (jobs cur : List (Entry G)) (c : Entry G) (hc : c ∈ cur) (hn : Dict.get? c.dev rev = none) :
    c ∈ jobs.foldl (recJobM mul rev ok) cur := by
  induction jobs generalizing cur with
  | nil => exact hc
  | cons j0 rest ih =>
    rw [List.foldl_cons]
    apply ih
    cases hg : Dict.get? j0.dev rev with
    | none => rw [recJobM_none cur j0 hg]; exact hc
    | some p =>
      obtain ⟨r, x⟩ := p
      apply recJobM_some_keeps cur j0 c r x hg hc
      rintro ⟨_, hd⟩
      rw [hd, hg] at hn
      cases hn

/-- `Up rev ok j x a`: climbing `j` times from `x` to the rig it is mounted on (as the reversed dictionary `rev` tells)
  reaches `a`, and every device left behind on the way passes the master-sensor filter `ok` -/
def Up (rev : List (String × String × G)) (ok : String → Bool) : Nat → String → String → Prop
  | 0, x, a => x = a
  | j + 1, x, a => ok x = true ∧ ∃ p gx, Dict.get? x rev = some (p, gx) ∧ Up rev ok j p a

theorem Up.snoc {rev : List (String × String × G)} {ok : String → Bool} {j : Nat} {x a p : String} {ga : G}
    (h : Up rev ok j x a) (hok : ok a = true) (hg : Dict.get? a rev = some (p, ga)) : Up rev ok (j + 1) x p := by
  induction j generalizing x with
  | zero =>
    have hx : x = a := h
    subst hx
    exact ⟨hok, p, ga, hg, rfl⟩
  | succ j ih =>
    obtain ⟨h1, q, gx, h2, h3⟩ := h
    exact ⟨h1, q, gx, h2, ih h3⟩

theorem Up.weaken {rev : List (String × String × G)} {ok : String → Bool} {j : Nat} {x a : String}
    (h : Up rev ok j x a) : Up rev (fun _ => true) j x a := by
  induction j generalizing x with
  | zero => exact h
  | succ j ih =>
    obtain ⟨_, q, gx, h2, h3⟩ := h
    exact ⟨rfl, q, gx, h2, ih h3⟩

/-- progress of one pass: an entry `j ≤ i + 1` steps below the unmounted device `a` whose job is still to come, or an
  entry `j ≤ i` steps below `a`, leaves an entry at most `i` steps below `a` at the end of the pass -/
theorem foldl_recJobM_progress {mul : G → G → G} {rev : List (String × String × G)} {ok : String → Bool}
    (a : String) (ha : Dict.get? a rev = none) (ts : Int) (i : Nat) (jobs cur : List (Entry G))
    (h : ∃ c ∈ cur, c.ts = ts ∧ ∃ j, Up rev ok j c.dev a ∧
      (j ≤ i ∨ (j ≤ i + 1 ∧ ∃ job ∈ jobs, job.ts = ts ∧ job.dev = c.dev))) :
    ∃ c ∈ jobs.foldl (recJobM mul rev ok) cur, c.ts = ts ∧ ∃ j, Up rev ok j c.dev a ∧ j ≤ i := by
  induction jobs generalizing cur with
  | nil =>
    obtain ⟨c, hc, hts, j, hup, hcase⟩ := h
    rcases hcase with hle | ⟨_, job, hjob, _⟩
    · exact ⟨c, hc, hts, j, hup, hle⟩
    · cases hjob
  | cons j0 rest ih =>
    rw [List.foldl_cons]
    apply ih
    obtain ⟨c, hc, hts, j, hup, hcase⟩ := h
    cases hg : Dict.get? j0.dev rev with
    | none =>
      rw [recJobM_none cur j0 hg]
      refine ⟨c, hc, hts, j, hup, ?_⟩
      rcases hcase with hle | ⟨hle, job, hjob, hjts, hjdev⟩
      · exact Or.inl hle
      · rcases List.mem_cons.mp hjob with rfl | hjob
        · cases j with
          | zero => exact Or.inl (Nat.zero_le _)
          | succ j' =>
            obtain ⟨_, q, gx, h2, _⟩ := hup
            rw [← hjdev, hg] at h2
            cases h2
        · exact Or.inr ⟨hle, job, hjob, hjts, hjdev⟩
    | some p =>
      obtain ⟨r, x⟩ := p
      by_cases hk : c.ts = j0.ts ∧ c.dev = j0.dev
      · cases j with
        | zero =>
          have hx : c.dev = a := hup
          rw [← hk.2, hx, ha] at hg
          cases hg
        | succ j' =>
          obtain ⟨hok, q, gx, h2, h3⟩ := hup
          rw [hk.2, hg] at h2
          simp only [Option.some.injEq, Prod.mk.injEq] at h2
          obtain ⟨rfl, rfl⟩ := h2
          rw [hk.2] at hok
          obtain ⟨c', hc', hts', hdev'⟩ := recJobM_some_has_rig (mul := mul) cur j0 r x hg hok
          refine ⟨c', hc', by rw [hts', ← hk.1, hts], j', by rw [hdev']; exact h3, Or.inl ?_⟩
          rcases hcase with hle | ⟨hle, _⟩ <;> omega
      · refine ⟨c, recJobM_some_keeps cur j0 c r x hg hc hk, hts, j, hup, ?_⟩
        rcases hcase with hle | ⟨hle, job, hjob, hjts, hjdev⟩
        · exact Or.inl hle
        · rcases List.mem_cons.mp hjob with rfl | hjob
          · exact absurd ⟨by rw [hts, hjts], hjdev.symm⟩ hk
          · exact Or.inr ⟨hle, job, hjob, hjts, hjdev⟩

/-! #### the recovered entries are the poses implied by the original ones -/

/-- the last mounting step of a chain -/
theorem Mounted.last {mul : G → G → G} {rigs : Rigs G} {a b : String × G} (h : Mounted mul rigs a b) :
    a = b ∨ ∃ r gr members gm, Mounted mul rigs a (r, gr) ∧ membersOf rigs r = some members ∧
      (b.1, gm) ∈ members ∧ b.2 = mul gm gr := by
  induction h with
  | here d g => exact Or.inl rfl
  | step r g members m gm d g' hmo hm _ ih =>
    right
    rcases ih with heq | ⟨r', gr', members', gm', hM, hmo', hm', hg'⟩
    · simp only [Prod.mk.injEq] at heq
      obtain ⟨rfl, rfl⟩ := heq
      exact ⟨r, g, members, gm, Mounted.here r g, hmo, hm, rfl⟩
    · exact ⟨r', gr', members', gm', Mounted.step r g members m gm r' gr' hmo hm hM, hmo', hm', hg'⟩

theorem get?_of_mem_nodup {κ ν : Type} [DecidableEq κ] (k : κ) (v : ν) (l : List (κ × ν))
    (hn : (l.map Prod.fst).Nodup) (h : (k, v) ∈ l) : Dict.get? k l = some v := by
  induction l with
  | nil => cases h
  | cons hd tl ih =>
    obtain ⟨k', v'⟩ := hd
    rw [List.map_cons, List.nodup_cons] at hn
    simp only [Dict.get?]
    rcases List.mem_cons.mp h with h | h
    · simp only [Prod.mk.injEq] at h
      rw [if_pos h.1.symm, h.2]
    · have hne : k' ≠ k := by
        rintro rfl
        exact hn.1 (List.mem_map.mpr ⟨(k', v), h, rfl⟩)
      rw [if_neg hne]
      exact ih hn.2 h

theorem membersOf_of_mem {rigs : Rigs G} (hrk : (rigs.map (·.1)).Nodup) {r : String} {members : List (String × G)}
    (h : (r, members) ∈ rigs) : membersOf rigs r = some members :=
  get?_of_mem_nodup r members rigs hrk h

/-- a climb in the reversed dictionary is a mounting chain of the rig forest -/
theorem Up.mounted {mul : G → G → G} {inv : G → G} {rigs : Rigs G} {ok : String → Bool}
    (hrk : (rigs.map (·.1)).Nodup) {j : Nat} {x a : String} (h : Up (reverseRigs inv rigs) ok j x a) (g : G) :
    ∃ g', Mounted mul rigs (a, g) (x, g') := by
  induction j generalizing x with
  | zero =>
    have hx : x = a := h
    subst hx
    exact ⟨g, Mounted.here _ _⟩
  | succ j ih =>
    obtain ⟨_, p, gx, h2, h3⟩ := h
    obtain ⟨gp, hM⟩ := ih h3
    obtain ⟨members, gm, hr, hm, _⟩ := reverseRigs_sound inv rigs x p gx h2
    exact ⟨mul gm gp, hM.trans (Mounted.step p gp members x gm x (mul gm gp) (membersOf_of_mem hrk hr) hm
      (Mounted.here _ _))⟩

/-- `c` is explained by the original trajectory `t`: it is the pose implied by an original entry and the rig geometry
  below it, or its device lies strictly above an original entry of that timestamp -/
def Expl (mul : G → G → G) (inv : G → G) (rigs : Rigs G) (t : List (Entry G)) (c : Entry G) : Prop :=
  ∃ e ∈ t, e.ts = c.ts ∧ (Mounted mul rigs (e.dev, e.g) (c.dev, c.g) ∨
    ∃ j, Up (reverseRigs inv rigs) (fun _ => true) (j + 1) e.dev c.dev)

/-- the rig entry set by a job for an explained entry is explained -/
theorem expl_step (mul : G → G → G) (inv : G → G) (rigs : Rigs G) (t : List (Entry G))
    (hinv : ∀ a b, mul (inv a) (mul a b) = b)
    (hone : (rigs.flatMap (fun r => r.2.map (·.1))).Nodup)
    (j0 : Entry G) (r : String) (x : G) (hg : Dict.get? j0.dev (reverseRigs inv rigs) = some (r, x))
    (h : Expl mul inv rigs t j0) : Expl mul inv rigs t ⟨j0.ts, r, mul x j0.g⟩ := by
  obtain ⟨e, he, hts, hcase⟩ := h
  refine ⟨e, he, hts, ?_⟩
  rcases hcase with hM | ⟨j, hup⟩
  · rcases hM.last with heq | ⟨r', gr, members, gm, hM', hmo, hm, hgeq⟩
    · simp only [Prod.mk.injEq] at heq
      right
      refine ⟨0, rfl, r, x, ?_, rfl⟩
      rw [heq.1]; exact hg
    · left
      have hr : (r', members) ∈ rigs := mem_of_get? _ _ _ hmo
      have := reverseRigs_complete inv rigs hone j0.dev r' members gm hr hm
      rw [this] at hg
      simp only [Option.some.injEq, Prod.mk.injEq] at hg
      obtain ⟨rfl, rfl⟩ := hg
      simp only at hgeq
      simp only [hgeq, hinv]
      exact hM'
  · right
    exact ⟨j + 1, hup.snoc rfl hg⟩

theorem foldl_recJobM_expl (mul : G → G → G) (inv : G → G) (rigs : Rigs G) (t : List (Entry G)) (ok : String → Bool)
    (hinv : ∀ a b, mul (inv a) (mul a b) = b)
    (hone : (rigs.flatMap (fun r => r.2.map (·.1))).Nodup)
    (jobs cur : List (Entry G)) (hjobs : ∀ j ∈ jobs, Expl mul inv rigs t j) (hcur : ∀ c ∈ cur, Expl mul inv rigs t c) :
    ∀ c ∈ jobs.foldl (recJobM mul (reverseRigs inv rigs) ok) cur, Expl mul inv rigs t c := by
  intro c hc
  rcases mem_foldl_recJobM jobs cur c hc with h | ⟨j, hj, r, x, hg, rfl⟩
  · exact hcur c h
  · exact expl_step mul inv rigs t hinv hone j r x hg (hjobs j hj)

/-! #### the devices below a device, and a chain of master sensors down to a sensor -/

/-- the devices reached from `d` by at most `n` mounting steps, `d` included -/
def belowList (rigs : Rigs G) : Nat → String → List String
  | 0, d => [d]
  | n + 1, d => d :: (match membersOf rigs d with
      | some members => members.flatMap (fun m => belowList rigs n m.1)
      | none => [])

theorem self_mem_belowList (rigs : Rigs G) (n : Nat) (d : String) : d ∈ belowList rigs n d := by
  cases n <;> exact List.mem_cons_self

theorem mem_belowList_succ {rigs : Rigs G} {n : Nat} {a d m : String} {gm : G} {members : List (String × G)}
    (hmo : membersOf rigs a = some members) (hm : (m, gm) ∈ members) (h : d ∈ belowList rigs n m) :
    d ∈ belowList rigs (n + 1) a := by
  unfold belowList
  rw [hmo]
  exact List.mem_cons_of_mem _ (List.mem_flatMap.mpr ⟨(m, gm), hm, h⟩)

/-- the only unmounted device at or below `a` is `a` -/
theorem belowList_unmounted (rigs : Rigs G) (n : Nat) (a d : String) (h : d ∈ belowList rigs n a)
    (hd : d ∉ rigs.flatMap (fun r => r.2.map (·.1))) : d = a := by
  induction n generalizing a with
  | zero => exact List.mem_singleton.mp h
  | succ n ih =>
    unfold belowList at h
    rcases List.mem_cons.mp h with h | h
    · exact h
    · exfalso
      cases hmo : membersOf rigs a with
      | none => rw [hmo] at h; cases h
      | some members =>
        rw [hmo] at h
        obtain ⟨m, hm, hb⟩ := List.mem_flatMap.mp h
        have := ih m.1 hb
        subst this
        exact hd (List.mem_flatMap.mpr ⟨(a, members), mem_of_get? _ _ _ hmo, List.mem_map.mpr ⟨m, hm, rfl⟩⟩)

theorem mem_belowList_of_mounted {mul : G → G → G} {rigs : Rigs G} (n : Nat) (a d : String) (g g' : G)
    (hd : DepthLE rigs n a) (hm : Mounted mul rigs (a, g) (d, g')) : d ∈ belowList rigs n a := by
  induction n generalizing a g with
  | zero =>
    cases hm with
    | here => exact self_mem_belowList rigs 0 _
    | step _ _ members m gm _ _ hmo _ _ => exact absurd (isRig_of_some hmo) hd
  | succ n ih =>
    cases hm with
    | here => exact self_mem_belowList rigs (n + 1) _
    | step _ _ members m gm _ _ hmo hmem hrest =>
      exact mem_belowList_succ hmo hmem (ih m (mul gm g) (hd members hmo (m, gm) hmem) hrest)

instance decIsRig (rigs : Rigs G) (d : String) : Decidable (isRig rigs d) := by unfold isRig; exact inferInstance

instance decDepthLE (rigs : Rigs G) : (n : Nat) → (d : String) → Decidable (DepthLE rigs n d)
  | 0, d => by unfold DepthLE isRig; exact inferInstance
  | n + 1, d =>
    match hmo : membersOf rigs d with
    | none => isTrue (by intro members h; rw [hmo] at h; cases h)
    | some ms =>
      have : Decidable (∀ m ∈ ms, DepthLE rigs n m.1) :=
        @List.decidableBAll _ (fun m => DepthLE rigs n m.1) (fun m => decDepthLE rigs n m.1) ms
      if h : ∀ m ∈ ms, DepthLE rigs n m.1 then
        isTrue (by intro members h'; rw [hmo] at h'; cases h'; exact h)
      else isFalse (fun hd => h (hd ms hmo))

/-- under a device of depth at most `n` whose rigs all have a member passing the filter, there is a sensor reached by a
  chain of such members: its pose is implied by the device's, and it climbs back to the device within `n` steps -/
theorem exists_master_leaf (mul : G → G → G) (inv : G → G) (rigs : Rigs G) (ok : String → Bool)
    (hone : (rigs.flatMap (fun r => r.2.map (·.1))).Nodup) (n : Nat) (a : String) (ga : G)
    (hd : DepthLE rigs n a)
    (hm : ∀ r ∈ belowList rigs n a, ∀ members, membersOf rigs r = some members → ∃ m ∈ members, ok m.1 = true) :
    ∃ d g j, j ≤ n ∧ ¬ isRig rigs d ∧ Mounted mul rigs (a, ga) (d, g) ∧ Up (reverseRigs inv rigs) ok j d a := by
  induction n generalizing a ga with
  | zero => exact ⟨a, ga, 0, Nat.le_refl _, hd, Mounted.here _ _, rfl⟩
  | succ n ih =>
    cases hmo : membersOf rigs a with
    | none => exact ⟨a, ga, 0, Nat.zero_le _, (not_isRig_iff rigs a).mpr hmo, Mounted.here _ _, rfl⟩
    | some members =>
      obtain ⟨⟨m, gm⟩, hmem, hok⟩ := hm a (self_mem_belowList rigs (n + 1) a) members hmo
      obtain ⟨d, g, j, hj, hleaf, hM, hup⟩ := ih m (mul gm ga) (hd members hmo (m, gm) hmem)
        (fun r hr => hm r (mem_belowList_succ hmo hmem hr))
      have hr : (a, members) ∈ rigs := mem_of_get? _ _ _ hmo
      have hg := reverseRigs_complete inv rigs hone m a members gm hr hmem
      exact ⟨d, g, j + 1, Nat.succ_le_succ hj, hleaf, Mounted.step a ga members m gm d g hmo hmem hM,
        hup.snoc hok hg⟩

/-! #### iterating the pass -/

/-- `k` passes of rigs_recover_inplace; before each pass the entries are listed by `σ` (the code sorts them by
  (timestamp, device); the results below hold for any listing that keeps the same entries) -/
def recoverIter (mul : G → G → G) (inv : G → G) (rigs : Rigs G) (masters : Option (List String))
    (σ : List (Entry G) → List (Entry G)) : Nat → List (Entry G) → List (Entry G)
  | 0, t => t
  | k + 1, t => recoverIter mul inv rigs masters σ k (recoverStep mul inv rigs masters (σ t))

theorem recoverIter_id_eq (mul : G → G → G) (inv : G → G) (rigs : Rigs G) (masters : Option (List String))
    (k : Nat) (t : List (Entry G)) :
    recoverIter mul inv rigs masters id k t
      = (List.range k).foldl (fun cur _ => recoverStep mul inv rigs masters cur) t := by
  induction k generalizing t with
  | zero => rfl
  | succ k ih =>
    rw [List.range_succ_eq_map, List.foldl_cons, List.foldl_map]
    exact ih _

theorem recoverStep_expl (mul : G → G → G) (inv : G → G) (rigs : Rigs G) (masters : Option (List String))
    (σ : List (Entry G) → List (Entry G)) (hσ : ∀ l c, c ∈ σ l ↔ c ∈ l) (t : List (Entry G))
    (hinv : ∀ a b, mul (inv a) (mul a b) = b)
    (hone : (rigs.flatMap (fun r => r.2.map (·.1))).Nodup)
    (cur : List (Entry G)) (hcur : ∀ c ∈ cur, Expl mul inv rigs t c) :
    ∀ c ∈ recoverStep mul inv rigs masters (σ cur), Expl mul inv rigs t c := by
  rw [recoverStep_eq]
  have h : ∀ c ∈ σ cur, Expl mul inv rigs t c := fun c hc => hcur c ((hσ cur c).mp hc)
  exact foldl_recJobM_expl mul inv rigs t _ hinv hone _ _ h h

theorem recoverIter_expl (mul : G → G → G) (inv : G → G) (rigs : Rigs G) (masters : Option (List String))
    (σ : List (Entry G) → List (Entry G)) (hσ : ∀ l c, c ∈ σ l ↔ c ∈ l) (t : List (Entry G))
    (hinv : ∀ a b, mul (inv a) (mul a b) = b)
    (hone : (rigs.flatMap (fun r => r.2.map (·.1))).Nodup)
    (k : Nat) (cur : List (Entry G)) (hcur : ∀ c ∈ cur, Expl mul inv rigs t c) :
    ∀ c ∈ recoverIter mul inv rigs masters σ k cur, Expl mul inv rigs t c := by
  induction k generalizing cur with
  | zero => exact hcur
  | succ k ih => exact ih _ (recoverStep_expl mul inv rigs masters σ hσ t hinv hone cur hcur)

/-- one pass brings the entries below an unmounted device one step closer to it -/
theorem recoverStep_progress (mul : G → G → G) (inv : G → G) (rigs : Rigs G) (masters : Option (List String))
    (σ : List (Entry G) → List (Entry G)) (hσ : ∀ l c, c ∈ σ l ↔ c ∈ l)
    (a : String) (ha : Dict.get? a (reverseRigs inv rigs) = none) (ts : Int) (m : Nat) (cur : List (Entry G))
    (h : ∃ c ∈ cur, c.ts = ts ∧ ∃ j, Up (reverseRigs inv rigs) (okOf masters) j c.dev a ∧ j ≤ m) :
    ∃ c ∈ recoverStep mul inv rigs masters (σ cur), c.ts = ts ∧
      ∃ j, Up (reverseRigs inv rigs) (okOf masters) j c.dev a ∧ j ≤ m - 1 := by
  rw [recoverStep_eq]
  apply foldl_recJobM_progress a ha ts (m - 1)
  obtain ⟨c, hc, hts, j, hup, hle⟩ := h
  have hc' := (hσ cur c).mpr hc
  exact ⟨c, hc', hts, j, hup, Or.inr ⟨by omega, c, hc', hts, rfl⟩⟩

theorem recoverIter_progress (mul : G → G → G) (inv : G → G) (rigs : Rigs G) (masters : Option (List String))
    (σ : List (Entry G) → List (Entry G)) (hσ : ∀ l c, c ∈ σ l ↔ c ∈ l)
    (a : String) (ha : Dict.get? a (reverseRigs inv rigs) = none) (ts : Int) (k m : Nat) (cur : List (Entry G))
    (h : ∃ c ∈ cur, c.ts = ts ∧ ∃ j, Up (reverseRigs inv rigs) (okOf masters) j c.dev a ∧ j ≤ m) :
    ∃ c ∈ recoverIter mul inv rigs masters σ k cur, c.ts = ts ∧
      ∃ j, Up (reverseRigs inv rigs) (okOf masters) j c.dev a ∧ j ≤ m - k := by
  induction k generalizing cur m with
  | zero => exact h
  | succ k ih =>
    obtain ⟨c, hc, hts, j, hup, hle⟩ :=
      ih (m - 1) _ (recoverStep_progress mul inv rigs masters σ hσ a ha ts m cur h)
    exact ⟨c, hc, hts, j, hup, by omega⟩

theorem unmounted_get?_none (inv : G → G) (rigs : Rigs G) (d : String)
    (h : d ∉ rigs.flatMap (fun r => r.2.map (·.1))) : Dict.get? d (reverseRigs inv rigs) = none := by
  cases hg : Dict.get? d (reverseRigs inv rigs) with
  | none => rfl
  | some p =>
    obtain ⟨r, x⟩ := p
    obtain ⟨members, gm, hr, hm, _⟩ := reverseRigs_sound inv rigs d r x hg
    exact absurd (List.mem_flatMap.mpr ⟨(r, members), hr, List.mem_map.mpr ⟨(d, gm), hm, rfl⟩⟩) h

/-- recovering after replacing, any nesting, any master sensors: every original entry of an unmounted device (a
  top-level rig or a free sensor) is back after at least `n` passes -/
theorem recover_remove_aux (mul : G → G → G) (inv : G → G) (rigs : Rigs G) (masters : Option (List String))
    (σ : List (Entry G) → List (Entry G)) (hσ : ∀ l c, c ∈ σ l ↔ c ∈ l) (t : List (Entry G)) (n k : Nat)
    (hinv : ∀ a b, mul (inv a) (mul a b) = b)
    (hrk : (rigs.map (·.1)).Nodup)
    (hone : (rigs.flatMap (fun r => r.2.map (·.1))).Nodup)
    (hdepth : ∀ e ∈ t, DepthLE rigs n e.dev)
    (hsingle : ∀ e ∈ t, ∀ e' ∈ t, e.ts = e'.ts → e'.dev ∈ belowList rigs n e.dev → e'.dev = e.dev)
    (hkeys : (t.map (fun e => (e.ts, e.dev))).Nodup)
    (hmaster : ∀ e ∈ t, ∀ r ∈ belowList rigs n e.dev, ∀ members, membersOf rigs r = some members →
      ∃ m ∈ members, okOf masters m.1 = true)
    (hk : n ≤ k) (e : Entry G) (he : e ∈ t) (htop : e.dev ∉ rigs.flatMap (fun r => r.2.map (·.1))) :
    e ∈ recoverIter mul inv rigs masters σ k (remove mul rigs n t) := by
  have ha := unmounted_get?_none inv rigs e.dev htop
  obtain ⟨d, g, j, hj, hleaf, hM, hup⟩ := exists_master_leaf mul inv rigs (okOf masters) hone n e.dev e.g
    (hdepth e he) (hmaster e he)
  obtain ⟨e1, he1, h1ts, h1dev, _⟩ := remove_complete_aux mul rigs d g hleaf n t e.ts e.dev e.g he (hdepth e he) hM
  obtain ⟨c, hc, hcts, j', hup', hj'⟩ := recoverIter_progress mul inv rigs masters σ hσ e.dev ha e.ts k n
    (remove mul rigs n t) ⟨e1, he1, h1ts, j, by rw [h1dev]; exact hup, hj⟩
  have hj0 : j' = 0 := by omega
  subst hj0
  have hcdev : c.dev = e.dev := hup'
  have hexpl : ∀ c ∈ remove mul rigs n t, Expl mul inv rigs t c := by
    intro c hc
    obtain ⟨e0, he0, hts0, hM0⟩ := remove_sound_aux mul rigs n t c hc
    exact ⟨e0, he0, hts0, Or.inl hM0⟩
  obtain ⟨e', he', hts', hcase⟩ := recoverIter_expl mul inv rigs masters σ hσ t hinv hone k _ hexpl c hc
  suffices hce : c = e by rw [← hce]; exact hc
  rcases hcase with hM' | ⟨i, hupi⟩
  · rcases hM'.last with heq | ⟨r', gr, members, gm, _, hmo, hm, _⟩
    · simp only [Prod.mk.injEq] at heq
      have : e' = e := entry_eq_of_key_eq t hkeys e' e he' he (by rw [hts', hcts]) (by rw [heq.1, hcdev])
      subst this
      cases c
      simp only at hcts hcdev heq
      rw [hcts, hcdev, ← heq.2]
    · exfalso
      have hr : (r', members) ∈ rigs := mem_of_get? _ _ _ hmo
      have := reverseRigs_complete inv rigs hone c.dev r' members gm hr hm
      rw [hcdev, ha] at this
      cases this
  · exfalso
    rw [hcdev] at hupi
    obtain ⟨g', hMe⟩ := hupi.mounted (mul := mul) hrk e.g
    have hbelow := mem_belowList_of_mounted n e.dev e'.dev e.g g' (hdepth e he) hMe
    have hdev := hsingle e he e' he' (by rw [hts', hcts]) hbelow
    rw [hdev] at hupi
    obtain ⟨_, p, gx, h2, _⟩ := hupi
    rw [ha] at h2
    cases h2

/-! #### nothing else is left: after `n` passes every entry sits on an unmounted device -/

theorem Up.trans {rev : List (String × String × G)} {ok : String → Bool} {j j2 : Nat} {x b a : String}
    (h1 : Up rev ok j x b) (h2 : Up rev ok j2 b a) : Up rev ok (j + j2) x a := by
  induction j generalizing x with
  | zero =>
    have hx : x = b := h1
    subst hx
    rw [Nat.zero_add]; exact h2
  | succ j ih =>
    obtain ⟨hok, p, gx, hg, h3⟩ := h1
    rw [Nat.succ_add]
    exact ⟨hok, p, gx, hg, ih h3⟩

theorem Up.unsnoc {rev : List (String × String × G)} {ok : String → Bool} {j : Nat} {x a : String}
    (h : Up rev ok (j + 1) x a) : ∃ q gq, Up rev ok j x q ∧ Dict.get? q rev = some (a, gq) := by
  induction j generalizing x with
  | zero =>
    obtain ⟨_, p, gx, hg, h3⟩ := h
    have hp : p = a := h3
    subst hp
    exact ⟨x, gx, rfl, hg⟩
  | succ j ih =>
    obtain ⟨hok, p, gx, hg, h3⟩ := h
    obtain ⟨q, gq, h4, h5⟩ := ih h3
    exact ⟨q, gq, ⟨hok, p, gx, hg, h4⟩, h5⟩

/-- a climb to a device of depth at most `n` has at most `n` steps -/
theorem Up.le_depth {inv : G → G} {rigs : Rigs G} {ok : String → Bool} (hrk : (rigs.map (·.1)).Nodup)
    {n j : Nat} {x a : String} (hd : DepthLE rigs n a) (h : Up (reverseRigs inv rigs) ok j x a) : j ≤ n := by
  induction n generalizing a j with
  | zero =>
    cases j with
    | zero => exact Nat.le_refl _
    | succ j =>
      obtain ⟨q, gq, _, hg⟩ := h.unsnoc
      obtain ⟨members, gm, hr, _, _⟩ := reverseRigs_sound inv rigs q a gq hg
      exact absurd (get?_isSome_of_mem a members rigs hr) hd
  | succ n ih =>
    cases j with
    | zero => exact Nat.zero_le _
    | succ j =>
      obtain ⟨q, gq, h1, hg⟩ := h.unsnoc
      obtain ⟨members, gm, hr, hm, _⟩ := reverseRigs_sound inv rigs q a gq hg
      exact Nat.succ_le_succ (ih (hd members (membersOf_of_mem hrk hr) (q, gm) hm) h1)

/-- a mounting chain is a climb in the reversed dictionary -/
theorem Mounted.up {mul : G → G → G} {inv : G → G} {rigs : Rigs G}
    (hone : (rigs.flatMap (fun r => r.2.map (·.1))).Nodup) {p q : String × G} (h : Mounted mul rigs p q) :
    ∃ j, Up (reverseRigs inv rigs) (fun _ => true) j q.1 p.1 := by
  induction h with
  | here d g => exact ⟨0, rfl⟩
  | step r g members m gm d g' hmo hm _ ih =>
    obtain ⟨j, hup⟩ := ih
    have hr : (r, members) ∈ rigs := mem_of_get? _ _ _ hmo
    exact ⟨j + 1, hup.snoc rfl (reverseRigs_complete inv rigs hone m r members gm hr hm)⟩

/-- an entry of the result of the pass was there from the start and popped by no job, or was set by a job -/
theorem mem_foldl_recJobM' {mul : G → G → G} {rev : List (String × String × G)} {ok : String → Bool}
    (jobs cur : List (Entry G)) (c : Entry G) (hc : c ∈ jobs.foldl (recJobM mul rev ok) cur) :
    (c ∈ cur ∧ ∀ j ∈ jobs, (Dict.get? j.dev rev).isSome = true → ¬ (c.ts = j.ts ∧ c.dev = j.dev)) ∨
    (∃ j ∈ jobs, ∃ r x, Dict.get? j.dev rev = some (r, x) ∧ c = ⟨j.ts, r, mul x j.g⟩) := by
  induction jobs generalizing cur with
  | nil => exact Or.inl ⟨hc, fun j hj => absurd hj List.not_mem_nil⟩
  | cons j0 rest ih =>
    rw [List.foldl_cons] at hc
    rcases ih _ hc with ⟨h1, h2⟩ | ⟨j, hj, r, x, hg, rfl⟩
    · cases hg : Dict.get? j0.dev rev with
      | none =>
        rw [recJobM_none cur j0 hg] at h1
        refine Or.inl ⟨h1, ?_⟩
        intro j hj hs
        rcases List.mem_cons.mp hj with rfl | hj
        · rw [hg] at hs; cases hs
        · exact h2 j hj hs
      | some p =>
        obtain ⟨r, x⟩ := p
        rcases mem_recJobM_some cur j0 c r x hg h1 with ⟨h3, h4⟩ | rfl
        · refine Or.inl ⟨h3, ?_⟩
          intro j hj hs
          rcases List.mem_cons.mp hj with rfl | hj
          · exact h4
          · exact h2 j hj hs
        · exact Or.inr ⟨j0, List.mem_cons_self, r, x, hg, rfl⟩
    · exact Or.inr ⟨j, List.mem_cons_of_mem _ hj, r, x, hg, rfl⟩

/-- after `i` passes every entry sits on an unmounted device or at least `i` steps above some device -/
theorem recoverIter_height (mul : G → G → G) (inv : G → G) (rigs : Rigs G) (masters : Option (List String))
    (σ : List (Entry G) → List (Entry G)) (hσ : ∀ l c, c ∈ σ l ↔ c ∈ l) (k i : Nat) (cur : List (Entry G))
    (h : ∀ c ∈ cur, Dict.get? c.dev (reverseRigs inv rigs) = none ∨
      ∃ x j, i ≤ j ∧ Up (reverseRigs inv rigs) (fun _ => true) j x c.dev) :
    ∀ c ∈ recoverIter mul inv rigs masters σ k cur, Dict.get? c.dev (reverseRigs inv rigs) = none ∨
      ∃ x j, i + k ≤ j ∧ Up (reverseRigs inv rigs) (fun _ => true) j x c.dev := by
  induction k generalizing cur i with
  | zero => exact h
  | succ k ih =>
    unfold recoverIter
    rw [show i + (k + 1) = (i + 1) + k by omega]
    apply ih
    intro c hc
    rw [recoverStep_eq] at hc
    rcases mem_foldl_recJobM' _ _ c hc with ⟨h1, h2⟩ | ⟨j0, hj0, r, x, hg, rfl⟩
    · left
      cases hg : Dict.get? c.dev (reverseRigs inv rigs) with
      | none => rfl
      | some p => exact absurd ⟨rfl, rfl⟩ (h2 c h1 (by rw [hg]; rfl))
    · right
      rcases h j0 ((hσ cur j0).mp hj0) with hn | ⟨x0, j, hij, hup⟩
      · rw [hn] at hg; cases hg
      · exact ⟨x0, j + 1, Nat.succ_le_succ hij, hup.snoc rfl hg⟩

/-- when the original trajectory poses unmounted devices only, nothing else is left after at least `n` passes -/
theorem recover_remove_only_aux (mul : G → G → G) (inv : G → G) (rigs : Rigs G) (masters : Option (List String))
    (σ : List (Entry G) → List (Entry G)) (hσ : ∀ l c, c ∈ σ l ↔ c ∈ l) (t : List (Entry G)) (n k : Nat)
    (hinv : ∀ a b, mul (inv a) (mul a b) = b)
    (hrk : (rigs.map (·.1)).Nodup)
    (hone : (rigs.flatMap (fun r => r.2.map (·.1))).Nodup)
    (hdepth : ∀ e ∈ t, DepthLE rigs n e.dev)
    (hsrc : ∀ e ∈ t, e.dev ∉ rigs.flatMap (fun r => r.2.map (·.1)))
    (hk : n ≤ k) (c : Entry G) (hc : c ∈ recoverIter mul inv rigs masters σ k (remove mul rigs n t)) : c ∈ t := by
  have hexpl : ∀ c ∈ remove mul rigs n t, Expl mul inv rigs t c := by
    intro c hc
    obtain ⟨e0, he0, hts0, hM0⟩ := remove_sound_aux mul rigs n t c hc
    exact ⟨e0, he0, hts0, Or.inl hM0⟩
  obtain ⟨e, he, hts, hcase⟩ := recoverIter_expl mul inv rigs masters σ hσ t hinv hone k _ hexpl c hc
  have htop := unmounted_get?_none inv rigs e.dev (hsrc e he)
  rcases hcase with hM | ⟨i, hup⟩
  · rcases hM.last with heq | ⟨r', gr, members, gm, hM', hmo, hm, _⟩
    · simp only [Prod.mk.injEq] at heq
      have : c = e := by
        cases c; cases e
        simp only at hts heq
        rw [hts, heq.1, heq.2]
      rw [this]; exact he
    · exfalso
      have hr : (r', members) ∈ rigs := mem_of_get? _ _ _ hmo
      have hg := reverseRigs_complete inv rigs hone c.dev r' members gm hr hm
      have hheight := recoverIter_height mul inv rigs masters σ hσ k 0 (remove mul rigs n t)
        (fun c _ => Or.inr ⟨c.dev, 0, Nat.le_refl _, rfl⟩) c hc
      rcases hheight with hn | ⟨x, j, hj, hupx⟩
      · rw [hn] at hg; cases hg
      · obtain ⟨j3, hup3⟩ := hM'.up (inv := inv) hone
        have hall := (hupx.snoc rfl hg).trans hup3
        have := Up.le_depth hrk (hdepth e he) hall
        omega
  · exfalso
    obtain ⟨_, p, gx, h2, _⟩ := hup
    rw [htop] at h2
    cases h2

/-! #### the depth-1 case as an instance -/

theorem removeStep_eq_self (mul : G → G → G) (rigs : Rigs G) (t : List (Entry G))
    (h : ∀ e ∈ t, ¬ isRig rigs e.dev) : removeStep mul rigs t = t := by
  induction t with
  | nil => rfl
  | cons hd tl ih =>
    have h1 : membersOf rigs hd.dev = none := (not_isRig_iff rigs hd.dev).mp (h hd List.mem_cons_self)
    have h2 := ih (fun e he => h e (List.mem_cons_of_mem _ he))
    unfold removeStep at h2 ⊢
    rw [List.flatMap_cons, h2, h1]
    rfl

theorem remove_one (mul : G → G → G) (rigs : Rigs G) (t : List (Entry G)) :
    remove mul rigs 1 t = removeStep mul rigs t := by
  unfold remove
  split
  · rfl
  · next hh =>
    have hh' : hasRigEntry rigs t = false := by simpa using hh
    exact (removeStep_eq_self mul rigs t ((hasRigEntry_eq_false_iff rigs t).mp hh')).symm

theorem unmounted_of_get?_none (inv : G → G) (rigs : Rigs G)
    (hone : (rigs.flatMap (fun r => r.2.map (·.1))).Nodup) (d : String)
    (h : (Dict.get? d (reverseRigs inv rigs)).isNone = true) : d ∉ rigs.flatMap (fun r => r.2.map (·.1)) := by
  intro hmem
  obtain ⟨⟨r, members⟩, hr, hm⟩ := List.mem_flatMap.mp hmem
  obtain ⟨⟨m, gm⟩, hm', rfl⟩ := List.mem_map.mp hm
  rw [reverseRigs_complete inv rigs hone m r members gm hr hm'] at h
  cases h

/-- the listing used by the code: `flatten(trajectories, is_sorted=True)`, sorted by (timestamp, device) -/
def keyLe (a b : Entry G) : Bool := a.ts < b.ts || (a.ts == b.ts && !(b.dev < a.dev))

def sortEntries (t : List (Entry G)) : List (Entry G) := t.mergeSort keyLe

theorem mem_sortEntries (l : List (Entry G)) (c : Entry G) : c ∈ sortEntries l ↔ c ∈ l := List.mem_mergeSort

/-! #### the loop with its early exit -/

/-- rigs_recover_inplace: at most `k` passes, stopping at the first pass without a job -/
def recoverLoop (mul : G → G → G) (inv : G → G) (rigs : Rigs G) (masters : Option (List String))
    (σ : List (Entry G) → List (Entry G)) : Nat → List (Entry G) → List (Entry G)
  | 0, t => t
  | k + 1, t =>
    if hasMemberEntry inv rigs t then recoverLoop mul inv rigs masters σ k (recoverStep mul inv rigs masters (σ t))
    else t

theorem recoverStep_no_member (mul : G → G → G) (inv : G → G) (rigs : Rigs G) (masters : Option (List String))
    (s : List (Entry G)) (h : ∀ e ∈ s, Dict.get? e.dev (reverseRigs inv rigs) = none) :
    recoverStep mul inv rigs masters s = s := by
  rw [recoverStep_eq]
  suffices hs : ∀ jobs cur : List (Entry G), (∀ e ∈ jobs, Dict.get? e.dev (reverseRigs inv rigs) = none) →
      jobs.foldl (recJobM mul (reverseRigs inv rigs) (okOf masters)) cur = cur from hs s s h
  intro jobs
  induction jobs with
  | nil => intro cur _; rfl
  | cons j0 rest ih =>
    intro cur hj
    rw [List.foldl_cons, recJobM_none cur j0 (hj j0 List.mem_cons_self)]
    exact ih cur (fun e he => hj e (List.mem_cons_of_mem _ he))

theorem mem_recoverIter_no_member (mul : G → G → G) (inv : G → G) (rigs : Rigs G) (masters : Option (List String))
    (σ : List (Entry G) → List (Entry G)) (hσ : ∀ l c, c ∈ σ l ↔ c ∈ l) (k : Nat) (t : List (Entry G))
    (h : ∀ e ∈ t, Dict.get? e.dev (reverseRigs inv rigs) = none) (c : Entry G) :
    c ∈ recoverIter mul inv rigs masters σ k t ↔ c ∈ t := by
  induction k generalizing t with
  | zero => exact Iff.rfl
  | succ k ih =>
    have hs : ∀ e ∈ σ t, Dict.get? e.dev (reverseRigs inv rigs) = none := fun e he => h e ((hσ t e).mp he)
    unfold recoverIter
    rw [recoverStep_no_member mul inv rigs masters (σ t) hs, ih (σ t) hs]
    exact hσ t c

theorem mem_recoverLoop (mul : G → G → G) (inv : G → G) (rigs : Rigs G) (masters : Option (List String))
    (σ : List (Entry G) → List (Entry G)) (hσ : ∀ l c, c ∈ σ l ↔ c ∈ l) (k : Nat) (t : List (Entry G)) (c : Entry G) :
    c ∈ recoverLoop mul inv rigs masters σ k t ↔ c ∈ recoverIter mul inv rigs masters σ k t := by
  induction k generalizing t with
  | zero => exact Iff.rfl
  | succ k ih =>
    unfold recoverLoop
    split
    · exact ih _
    · next hh =>
      have hnone : ∀ e ∈ t, Dict.get? e.dev (reverseRigs inv rigs) = none := by
        intro e he
        cases hg : Dict.get? e.dev (reverseRigs inv rigs) with
        | none => rfl
        | some p =>
          exfalso
          apply hh
          unfold hasMemberEntry
          exact List.any_eq_true.mpr ⟨e, he, by rw [hg]; rfl⟩
      exact (mem_recoverIter_no_member mul inv rigs masters σ hσ (k + 1) t hnone c).symm

end Kapture.C06
