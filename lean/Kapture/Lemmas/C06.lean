/-
  Lemmas/C06.lean — specification-side definitions and helper lemmas for C06.
-/
import Kapture.Model.C06

namespace Kapture.C06
open Kapture

variable {G : Type}

def isRig (rigs : Rigs G) (dev : String) : Prop := (membersOf rigs dev).isSome = true

/-- "the world pose implied by the rig pose and the rig geometry": one mounting step, then any number of them.
  `Mounted rigs mul (d, g) (d', g')`: d' is reached from d by descending the rig forest, composing the member poses. -/
inductive Mounted (mul : G → G → G) (rigs : Rigs G) : String × G → String × G → Prop where
  | here (d : String) (g : G) : Mounted mul rigs (d, g) (d, g)
  | step (r : String) (g : G) (members : List (String × G)) (m : String) (gm : G) (d : String) (g' : G) :
      membersOf rigs r = some members → (m, gm) ∈ members →
      Mounted mul rigs (m, mul gm g) (d, g') → Mounted mul rigs (r, g) (d, g')

/-- every mounting chain from `d` reaches a non-rig device within n steps (nesting depth at most n) -/
def DepthLE (rigs : Rigs G) : Nat → String → Prop
  | 0, d => ¬ isRig rigs d
  | n + 1, d => ∀ members, membersOf rigs d = some members → ∀ m ∈ members, DepthLE rigs n m.1

/-- same entries, order aside -/
def SameEntries (a b : List (Entry G)) : Prop := ∀ ts d g, (∃ e ∈ a, e.ts = ts ∧ e.dev = d ∧ e.g = g) ↔ (∃ e ∈ b, e.ts = ts ∧ e.dev = d ∧ e.g = g)


/-! ### basic facts -/

theorem sameEntries_of_mem_iff {a b : List (Entry G)} (h : ∀ e, e ∈ a ↔ e ∈ b) : SameEntries a b := by
  intro ts d g
  constructor
  · rintro ⟨e, he, h1, h2, h3⟩; exact ⟨e, (h e).mp he, h1, h2, h3⟩
  · rintro ⟨e, he, h1, h2, h3⟩; exact ⟨e, (h e).mpr he, h1, h2, h3⟩

theorem not_isRig_iff (rigs : Rigs G) (d : String) : ¬ isRig rigs d ↔ membersOf rigs d = none := by
  unfold isRig
  cases membersOf rigs d <;> simp

theorem isRig_of_some {rigs : Rigs G} {d : String} {members : List (String × G)}
    (h : membersOf rigs d = some members) : isRig rigs d := by
  unfold isRig; rw [h]; rfl

theorem hasRigEntry_eq_false_iff (rigs : Rigs G) (t : List (Entry G)) :
    hasRigEntry rigs t = false ↔ ∀ e ∈ t, ¬ isRig rigs e.dev := by
  simp [hasRigEntry, isRig]

theorem depthLE_of_not_rig (rigs : Rigs G) (k : Nat) (d : String) (h : ¬ isRig rigs d) : DepthLE rigs k d := by
  cases k with
  | zero => exact h
  | succ k =>
    intro members hmo
    exact absurd (isRig_of_some hmo) h

theorem mem_removeStep (mul : G → G → G) (rigs : Rigs G) (t : List (Entry G)) (e' : Entry G) :
    e' ∈ removeStep mul rigs t ↔ ∃ e ∈ t, (membersOf rigs e.dev = none ∧ e' = e) ∨
      (∃ members m gm, membersOf rigs e.dev = some members ∧ (m, gm) ∈ members ∧
        e' = ⟨e.ts, m, mul gm e.g⟩) := by
  unfold removeStep
  rw [List.mem_flatMap]
  constructor
  · rintro ⟨e, he, h⟩
    refine ⟨e, he, ?_⟩
    cases hmo : membersOf rigs e.dev with
    | none =>
      rw [hmo] at h
      exact Or.inl ⟨rfl, List.mem_singleton.mp h⟩
    | some members =>
      rw [hmo] at h
      obtain ⟨⟨m, gm⟩, hm, rfl⟩ := List.mem_map.mp h
      exact Or.inr ⟨members, m, gm, rfl, hm, rfl⟩
  · rintro ⟨e, he, h⟩
    refine ⟨e, he, ?_⟩
    rcases h with ⟨hmo, rfl⟩ | ⟨members, m, gm, hmo, hm, rfl⟩
    · rw [hmo]; exact List.mem_singleton.mpr rfl
    · rw [hmo]; exact List.mem_map.mpr ⟨(m, gm), hm, rfl⟩

theorem Mounted.trans {mul : G → G → G} {rigs : Rigs G} {a b c : String × G}
    (h1 : Mounted mul rigs a b) (h2 : Mounted mul rigs b c) : Mounted mul rigs a c := by
  induction h1 with
  | here d g => exact h2
  | step r g members m gm d g' hmo hm _ ih =>
    exact Mounted.step r g members m gm c.1 c.2 hmo hm (ih h2)

/-! ### the replacement loop -/

theorem remove_keeps_free (mul : G → G → G) (rigs : Rigs G) (n : Nat) (t : List (Entry G)) (e : Entry G)
    (he : e ∈ t) (hf : ¬ isRig rigs e.dev) : e ∈ remove mul rigs n t := by
  induction n generalizing t with
  | zero => exact he
  | succ n ih =>
    unfold remove
    split
    · apply ih
      exact (mem_removeStep mul rigs t e).mpr ⟨e, he, Or.inl ⟨(not_isRig_iff rigs e.dev).mp hf, rfl⟩⟩
    · exact he

theorem remove_sound_aux (mul : G → G → G) (rigs : Rigs G) (n : Nat) (t : List (Entry G)) (e' : Entry G)
    (h : e' ∈ remove mul rigs n t) :
    ∃ e ∈ t, e.ts = e'.ts ∧ Mounted mul rigs (e.dev, e.g) (e'.dev, e'.g) := by
  induction n generalizing t with
  | zero => exact ⟨e', h, rfl, Mounted.here _ _⟩
  | succ n ih =>
    unfold remove at h
    split at h
    · obtain ⟨e1, he1, hts, hm1⟩ := ih _ h
      obtain ⟨e, he, hc⟩ := (mem_removeStep mul rigs t e1).mp he1
      rcases hc with ⟨_, rfl⟩ | ⟨members, m, gm, hmo, hm, rfl⟩
      · exact ⟨e1, he, hts, hm1⟩
      · exact ⟨e, he, hts, Mounted.step e.dev e.g members m gm _ _ hmo hm hm1⟩
    · exact ⟨e', h, rfl, Mounted.here _ _⟩

theorem remove_complete_aux (mul : G → G → G) (rigs : Rigs G) (d : String) (g : G) (hs : ¬ isRig rigs d)
    (n : Nat) (t : List (Entry G)) (ts : Int) (d0 : String) (g0 : G)
    (he : (⟨ts, d0, g0⟩ : Entry G) ∈ t) (hd : DepthLE rigs n d0) (hm : Mounted mul rigs (d0, g0) (d, g)) :
    ∃ e' ∈ remove mul rigs n t, e'.ts = ts ∧ e'.dev = d ∧ e'.g = g := by
  induction n generalizing t d0 g0 with
  | zero =>
    cases hm with
    | here => exact ⟨_, he, rfl, rfl, rfl⟩
    | step _ _ members m gm _ _ hmo _ _ => exact absurd (isRig_of_some hmo) hd
  | succ n ih =>
    cases hm with
    | here => exact ⟨_, remove_keeps_free mul rigs (n + 1) t _ he hs, rfl, rfl, rfl⟩
    | step _ _ members m gm _ _ hmo hmem hrest =>
      have hrig : hasRigEntry rigs t = true := by
        cases hh : hasRigEntry rigs t with
        | true => rfl
        | false =>
          exact absurd (isRig_of_some hmo) ((hasRigEntry_eq_false_iff rigs t).mp hh _ he)
      unfold remove
      rw [if_pos hrig]
      apply ih _ m (mul gm g0) _ (hd members hmo (m, gm) hmem) hrest
      exact (mem_removeStep mul rigs t _).mpr ⟨_, he, Or.inr ⟨members, m, gm, hmo, hmem, rfl⟩⟩

theorem remove_leaves_no_rig_aux (mul : G → G → G) (rigs : Rigs G) (n : Nat) (t : List (Entry G))
    (hd : ∀ e ∈ t, DepthLE rigs n e.dev) : ∀ e' ∈ remove mul rigs n t, ¬ isRig rigs e'.dev := by
  induction n generalizing t with
  | zero => exact hd
  | succ n ih =>
    unfold remove
    split
    · apply ih
      intro e1 he1
      obtain ⟨e, he, hc⟩ := (mem_removeStep mul rigs t e1).mp he1
      rcases hc with ⟨hmo, rfl⟩ | ⟨members, m, gm, hmo, hm, rfl⟩
      · exact depthLE_of_not_rig rigs n _ ((not_isRig_iff rigs _).mpr hmo)
      · exact hd e he members hmo (m, gm) hm
    · next hh =>
      have hh' : hasRigEntry rigs t = false := by simpa using hh
      exact (hasRigEntry_eq_false_iff rigs t).mp hh'

theorem remove_identity_aux (mul : G → G → G) (rigs : Rigs G) (n : Nat) (t : List (Entry G))
    (h : ∀ e ∈ t, ¬ isRig rigs e.dev) : remove mul rigs n t = t := by
  cases n with
  | zero => rfl
  | succ n =>
    unfold remove
    rw [if_neg]
    rw [(hasRigEntry_eq_false_iff rigs t).mpr h]
    exact Bool.false_ne_true

/-! ### the reversed rig dictionary -/

theorem get?_foldl_set_of_not_mem {κ ν : Type} [DecidableEq κ] (k : κ) (l acc : List (κ × ν))
    (h : k ∉ l.map Prod.fst) :
    Dict.get? k (l.foldl (fun acc kv => Dict.set kv.1 kv.2 acc) acc) = Dict.get? k acc := by
  induction l generalizing acc with
  | nil => rfl
  | cons hd tl ih =>
    simp only [List.map_cons, List.mem_cons, not_or] at h
    rw [List.foldl_cons, ih _ h.2, Dict.get?_set_ne _ _ _ _ h.1]

theorem get?_foldl_set_of_mem {κ ν : Type} [DecidableEq κ] (k : κ) (v : ν) (l acc : List (κ × ν))
    (hn : (l.map Prod.fst).Nodup) (h : (k, v) ∈ l) :
    Dict.get? k (l.foldl (fun acc kv => Dict.set kv.1 kv.2 acc) acc) = some v := by
  induction l generalizing acc with
  | nil => cases h
  | cons hd tl ih =>
    rw [List.map_cons, List.nodup_cons] at hn
    rw [List.foldl_cons]
    rcases List.mem_cons.mp h with h | h
    · subst h
      rw [get?_foldl_set_of_not_mem _ _ _ hn.1, Dict.get?_set_self]
    · exact ih _ hn.2 h

theorem mem_of_get?_foldl_set {κ ν : Type} [DecidableEq κ] (k : κ) (v : ν) (l acc : List (κ × ν))
    (h : Dict.get? k (l.foldl (fun acc kv => Dict.set kv.1 kv.2 acc) acc) = some v) :
    (k, v) ∈ l ∨ Dict.get? k acc = some v := by
  induction l generalizing acc with
  | nil => exact Or.inr h
  | cons hd tl ih =>
    rw [List.foldl_cons] at h
    rcases ih _ h with h1 | h1
    · exact Or.inl (List.mem_cons_of_mem _ h1)
    · rw [Dict.get?_set] at h1
      split at h1
      · next hk =>
        left
        have : hd = (k, v) := by
          obtain ⟨a, b⟩ := hd
          simp only [Option.some.injEq] at h1
          simp only at hk
          rw [hk, h1]
        rw [this]; exact List.mem_cons_self
      · exact Or.inr h1

theorem mem_of_get? {κ ν : Type} [DecidableEq κ] (k : κ) (v : ν) (l : List (κ × ν))
    (h : Dict.get? k l = some v) : (k, v) ∈ l := by
  induction l with
  | nil => cases h
  | cons hd tl ih =>
    obtain ⟨a, b⟩ := hd
    simp only [Dict.get?] at h
    split at h
    · next hk =>
      simp only [Option.some.injEq] at h
      rw [hk, h]; exact List.mem_cons_self
    · exact List.mem_cons_of_mem _ (ih h)

theorem get?_isSome_of_mem {κ ν : Type} [DecidableEq κ] (k : κ) (v : ν) (l : List (κ × ν))
    (h : (k, v) ∈ l) : (Dict.get? k l).isSome = true := by
  rw [← Dict.mem_keys_iff]
  exact List.mem_map.mpr ⟨(k, v), h, rfl⟩

/-- the reversed dictionary as one `dict(pairs)` over the flattened member list -/
def revPairs (inv : G → G) (rigs : Rigs G) : List (String × String × G) :=
  rigs.flatMap (fun r => r.2.map (fun m => (m.1, (r.1, inv m.2))))

theorem reverseRigs_eq (inv : G → G) (rigs : Rigs G) :
    reverseRigs inv rigs = (revPairs inv rigs).foldl (fun acc kv => Dict.set kv.1 kv.2 acc) [] := by
  unfold reverseRigs revPairs
  rw [List.foldl_flatMap]
  congr
  funext acc r
  rw [List.foldl_map]

theorem mem_revPairs (inv : G → G) (rigs : Rigs G) (m r : String) (x : G) :
    (m, (r, x)) ∈ revPairs inv rigs ↔ ∃ members gm, (r, members) ∈ rigs ∧ (m, gm) ∈ members ∧ x = inv gm := by
  unfold revPairs
  simp only [List.mem_flatMap, List.mem_map, Prod.mk.injEq]
  constructor
  · rintro ⟨⟨r', members⟩, hr, ⟨m', gm⟩, hm, rfl, rfl, rfl⟩
    exact ⟨members, gm, hr, hm, rfl⟩
  · rintro ⟨members, gm, hr, hm, rfl⟩
    exact ⟨(r, members), hr, (m, gm), hm, rfl, rfl, rfl⟩

theorem revPairs_keys (inv : G → G) (rigs : Rigs G) :
    (revPairs inv rigs).map Prod.fst = rigs.flatMap (fun r => r.2.map (·.1)) := by
  unfold revPairs
  rw [List.map_flatMap]
  congr
  funext r
  rw [List.map_map]
  rfl

/-- whatever the reversed dictionary returns for `m` is a mounting of `m` -/
theorem reverseRigs_sound (inv : G → G) (rigs : Rigs G) (m r : String) (x : G)
    (h : Dict.get? m (reverseRigs inv rigs) = some (r, x)) :
    ∃ members gm, (r, members) ∈ rigs ∧ (m, gm) ∈ members ∧ x = inv gm := by
  rw [reverseRigs_eq] at h
  rcases mem_of_get?_foldl_set _ _ _ _ h with h1 | h1
  · exact (mem_revPairs inv rigs m r x).mp h1
  · cases h1

/-- when every device is mounted at most once, the reversed dictionary returns that mounting -/
theorem reverseRigs_complete (inv : G → G) (rigs : Rigs G)
    (hone : (rigs.flatMap (fun r => r.2.map (·.1))).Nodup)
    (m r : String) (members : List (String × G)) (gm : G) (hr : (r, members) ∈ rigs) (hm : (m, gm) ∈ members) :
    Dict.get? m (reverseRigs inv rigs) = some (r, inv gm) := by
  rw [reverseRigs_eq]
  apply get?_foldl_set_of_mem
  · rw [revPairs_keys]; exact hone
  · exact (mem_revPairs inv rigs m r (inv gm)).mpr ⟨members, gm, hr, hm, rfl⟩

/-! ### the recovery pass -/

theorem entry_eq_of_key_eq (t : List (Entry G)) (hkeys : (t.map (fun e => (e.ts, e.dev))).Nodup)
    (a b : Entry G) (ha : a ∈ t) (hb : b ∈ t) (hts : a.ts = b.ts) (hdev : a.dev = b.dev) : a = b := by
  induction t with
  | nil => cases ha
  | cons hd tl ih =>
    rw [List.map_cons, List.nodup_cons] at hkeys
    rcases List.mem_cons.mp ha with ha1 | ha1 <;> rcases List.mem_cons.mp hb with hb1 | hb1
    · rw [ha1, hb1]
    · exact absurd (List.mem_map.mpr ⟨b, hb1, show (b.ts, b.dev) = (hd.ts, hd.dev) by rw [← ha1, hts, hdev]⟩) hkeys.1
    · exact absurd (List.mem_map.mpr ⟨a, ha1, show (a.ts, a.dev) = (hd.ts, hd.dev) by rw [← hb1, hts, hdev]⟩) hkeys.1
    · exact ih hkeys.2 ha1 hb1

/-- one job of the recovery pass with unspecified master sensors -/
def recJob (mul : G → G → G) (rev : List (String × String × G)) (cur : List (Entry G)) (e : Entry G) :
    List (Entry G) :=
  match Dict.get? e.dev rev with
  | none => cur
  | some (rig, x) =>
    if (cur.filter (fun c => !(c.ts == e.ts && c.dev == e.dev))).any (fun c => c.ts == e.ts && c.dev == rig)
    then cur.filter (fun c => !(c.ts == e.ts && c.dev == e.dev))
    else cur.filter (fun c => !(c.ts == e.ts && c.dev == e.dev)) ++ [⟨e.ts, rig, mul x e.g⟩]

theorem recoverStep_none (mul : G → G → G) (inv : G → G) (rigs : Rigs G) (sorted : List (Entry G)) :
    recoverStep mul inv rigs none sorted = sorted.foldl (recJob mul (reverseRigs inv rigs)) sorted := by
  rfl

theorem recJob_none {mul : G → G → G} {rev : List (String × String × G)} (cur : List (Entry G)) (e : Entry G)
    (h : Dict.get? e.dev rev = none) : recJob mul rev cur e = cur := by
  unfold recJob; rw [h]

theorem mem_filter_pop (cur : List (Entry G)) (e c : Entry G) :
    c ∈ cur.filter (fun c => !(c.ts == e.ts && c.dev == e.dev)) ↔ c ∈ cur ∧ ¬ (c.ts = e.ts ∧ c.dev = e.dev) := by
  rw [List.mem_filter]
  simp only [Bool.not_eq_true', Bool.and_eq_false_iff, beq_eq_false_iff_ne, ne_eq,
    Decidable.not_and_iff_not_or_not]

theorem mem_recJob_some {mul : G → G → G} {rev : List (String × String × G)} (cur : List (Entry G)) (e c : Entry G)
    (r : String) (x : G) (h : Dict.get? e.dev rev = some (r, x)) (hc : c ∈ recJob mul rev cur e) :
    (c ∈ cur ∧ ¬ (c.ts = e.ts ∧ c.dev = e.dev)) ∨ c = ⟨e.ts, r, mul x e.g⟩ := by
  unfold recJob at hc
  rw [h] at hc
  simp only at hc
  split at hc
  · exact Or.inl ((mem_filter_pop cur e c).mp hc)
  · rcases List.mem_append.mp hc with hc | hc
    · exact Or.inl ((mem_filter_pop cur e c).mp hc)
    · exact Or.inr (List.mem_singleton.mp hc)

theorem recJob_some_keeps {mul : G → G → G} {rev : List (String × String × G)} (cur : List (Entry G)) (e c : Entry G)
    (r : String) (x : G) (h : Dict.get? e.dev rev = some (r, x)) (hc : c ∈ cur)
    (hne : ¬ (c.ts = e.ts ∧ c.dev = e.dev)) : c ∈ recJob mul rev cur e := by
  unfold recJob
  rw [h]
  simp only
  have := (mem_filter_pop cur e c).mpr ⟨hc, hne⟩
  split
  · exact this
  · exact List.mem_append_left _ this

theorem recJob_some_has_rig {mul : G → G → G} {rev : List (String × String × G)} (cur : List (Entry G)) (e : Entry G)
    (r : String) (x : G) (h : Dict.get? e.dev rev = some (r, x)) :
    ∃ c ∈ recJob mul rev cur e, c.ts = e.ts ∧ c.dev = r := by
  unfold recJob
  rw [h]
  simp only
  split
  · next hany =>
    obtain ⟨c, hc, hp⟩ := List.any_eq_true.mp hany
    simp only [Bool.and_eq_true, beq_iff_eq] at hp
    exact ⟨c, hc, hp⟩
  · exact ⟨_, List.mem_append_right _ (List.mem_singleton.mpr rfl), rfl, rfl⟩

/-- an entry of the result of the pass was either there from the start and popped by no job, or was set by a job -/
theorem mem_foldl_recJob {mul : G → G → G} {rev : List (String × String × G)} (jobs cur : List (Entry G)) (c : Entry G)
    (hc : c ∈ jobs.foldl (recJob mul rev) cur) :
    (c ∈ cur ∧ ∀ j ∈ jobs, (Dict.get? j.dev rev).isSome = true → ¬ (c.ts = j.ts ∧ c.dev = j.dev)) ∨
    (∃ j ∈ jobs, ∃ r x, Dict.get? j.dev rev = some (r, x) ∧ c = ⟨j.ts, r, mul x j.g⟩) := by
  induction jobs generalizing cur with
  | nil => exact Or.inl ⟨hc, fun j hj => absurd hj List.not_mem_nil⟩
  | cons j0 rest ih =>
    rw [List.foldl_cons] at hc
    rcases ih _ hc with ⟨h1, h2⟩ | ⟨j, hj, r, x, hg, rfl⟩
    · cases hg : Dict.get? j0.dev rev with
      | none =>
        rw [recJob_none cur j0 hg] at h1
        refine Or.inl ⟨h1, ?_⟩
        intro j hj hs
        rcases List.mem_cons.mp hj with rfl | hj
        · rw [hg] at hs; cases hs
        · exact h2 j hj hs
      | some p =>
        obtain ⟨r, x⟩ := p
        rcases mem_recJob_some cur j0 c r x hg h1 with ⟨h3, h4⟩ | rfl
        · refine Or.inl ⟨h3, ?_⟩
          intro j hj hs
          rcases List.mem_cons.mp hj with rfl | hj
          · exact h4
          · exact h2 j hj hs
        · exact Or.inr ⟨j0, List.mem_cons_self, r, x, hg, rfl⟩
    · exact Or.inr ⟨j, List.mem_cons_of_mem _ hj, r, x, hg, rfl⟩

/-- an entry whose device is not a rig member survives the pass -/
theorem foldl_recJob_keeps {mul : G → G → G} {rev : List (String × String × G)} (jobs cur : List (Entry G)) (c : Entry G)
    (hc : c ∈ cur) (hn : Dict.get? c.dev rev = none) : c ∈ jobs.foldl (recJob mul rev) cur := by
  induction jobs generalizing cur with
  | nil => exact hc
  | cons j0 rest ih =>
    rw [List.foldl_cons]
    apply ih
    cases hg : Dict.get? j0.dev rev with
    | none => rw [recJob_none cur j0 hg]; exact hc
    | some p =>
      obtain ⟨r, x⟩ := p
      apply recJob_some_keeps cur j0 c r x hg hc
      rintro ⟨_, hd⟩
      rw [hd, hg] at hn
      cases hn

/-- every job leaves an entry of its rig at its timestamp -/
theorem foldl_recJob_has_rig {mul : G → G → G} {rev : List (String × String × G)} (jobs cur : List (Entry G))
    (j : Entry G) (r : String) (x : G) (hj : j ∈ jobs) (hg : Dict.get? j.dev rev = some (r, x))
    (hr : Dict.get? r rev = none) : ∃ c ∈ jobs.foldl (recJob mul rev) cur, c.ts = j.ts ∧ c.dev = r := by
  induction jobs generalizing cur with
  | nil => cases hj
  | cons j0 rest ih =>
    rw [List.foldl_cons]
    rcases List.mem_cons.mp hj with rfl | hj
    · obtain ⟨c, hc, h1, h2⟩ := recJob_some_has_rig (mul := mul) cur j r x hg
      exact ⟨c, foldl_recJob_keeps rest _ c hc (by rw [h2]; exact hr), h1, h2⟩
    · exact ih _ hj

/-- recovering after one replacement pass, for depth-1 rigs -/
theorem recover_remove_depth1_aux (mul : G → G → G) (inv : G → G) (rigs : Rigs G) (t : List (Entry G))
    (hinv : ∀ a b, mul (inv a) (mul a b) = b)
    (hflat : ∀ r members, (r, members) ∈ rigs → members ≠ [] ∧ ∀ m ∈ members, ¬ isRig rigs m.1)
    (hone : (rigs.flatMap (fun r => r.2.map (·.1))).Nodup)
    (hsrc : ∀ e ∈ t, (Dict.get? e.dev (reverseRigs inv rigs)).isNone = true)
    (hkeys : (t.map (fun e => (e.ts, e.dev))).Nodup) (c : Entry G) :
    c ∈ recoverStep mul inv rigs none (removeStep mul rigs t) ↔ c ∈ t := by
  rw [recoverStep_none]
  -- a rig is never a member
  have hrigfree : ∀ r members, (r, members) ∈ rigs → Dict.get? r (reverseRigs inv rigs) = none := by
    intro r members hr
    cases hg : Dict.get? r (reverseRigs inv rigs) with
    | none => rfl
    | some p =>
      obtain ⟨r', x⟩ := p
      obtain ⟨members', gm, hr', hm', _⟩ := reverseRigs_sound inv rigs r r' x hg
      exact absurd (get?_isSome_of_mem r members rigs hr) ((hflat r' members' hr').2 (r, gm) hm')
  -- the jobs: entries of the replaced trajectory that are member entries come from a rig entry of `t`
  have hjob : ∀ j ∈ removeStep mul rigs t, ∀ r x, Dict.get? j.dev (reverseRigs inv rigs) = some (r, x) →
      (⟨j.ts, r, mul x j.g⟩ : Entry G) ∈ t ∧ Dict.get? r (reverseRigs inv rigs) = none := by
    intro j hj r x hg
    obtain ⟨e, he, hcase⟩ := (mem_removeStep mul rigs t j).mp hj
    rcases hcase with ⟨_, rfl⟩ | ⟨members, m, gm, hmo, hm, rfl⟩
    · have := hsrc j he
      rw [hg] at this; cases this
    · have hr : (e.dev, members) ∈ rigs := mem_of_get? _ _ _ hmo
      have := reverseRigs_complete inv rigs hone m e.dev members gm hr hm
      simp only at hg
      rw [this] at hg
      simp only [Option.some.injEq, Prod.mk.injEq] at hg
      obtain ⟨rfl, rfl⟩ := hg
      simp only [hinv]
      exact ⟨he, hrigfree _ _ hr⟩
  constructor
  · intro hc
    rcases mem_foldl_recJob _ _ c hc with ⟨h1, h2⟩ | ⟨j, hj, r, x, hg, rfl⟩
    · obtain ⟨e, he, hcase⟩ := (mem_removeStep mul rigs t c).mp h1
      rcases hcase with ⟨_, rfl⟩ | ⟨members, m, gm, hmo, hm, rfl⟩
      · exact he
      · exfalso
        have hr : (e.dev, members) ∈ rigs := mem_of_get? _ _ _ hmo
        have := reverseRigs_complete inv rigs hone m e.dev members gm hr hm
        exact h2 _ h1 (by simp only; rw [this]; rfl) ⟨rfl, rfl⟩
    · exact (hjob j hj r x hg).1
  · intro hc
    cases hmo : membersOf rigs c.dev with
    | none =>
      apply foldl_recJob_keeps
      · exact (mem_removeStep mul rigs t c).mpr ⟨c, hc, Or.inl ⟨hmo, rfl⟩⟩
      · have := hsrc c hc
        cases hg : Dict.get? c.dev (reverseRigs inv rigs) with
        | none => rfl
        | some p => rw [hg] at this; cases this
    | some members =>
      have hr : (c.dev, members) ∈ rigs := mem_of_get? _ _ _ hmo
      obtain ⟨hne, _⟩ := hflat _ _ hr
      obtain ⟨⟨m, gm⟩, hm⟩ := List.exists_mem_of_ne_nil _ hne
      have hj : (⟨c.ts, m, mul gm c.g⟩ : Entry G) ∈ removeStep mul rigs t :=
        (mem_removeStep mul rigs t _).mpr ⟨c, hc, Or.inr ⟨members, m, gm, hmo, hm, rfl⟩⟩
      have hg := reverseRigs_complete inv rigs hone m c.dev members gm hr hm
      obtain ⟨c', hc', hts, hdev⟩ := foldl_recJob_has_rig (mul := mul) (removeStep mul rigs t) (removeStep mul rigs t)
        _ c.dev (inv gm) hj hg (hrigfree _ _ hr)
      have hc't : c' ∈ t := by
        rcases mem_foldl_recJob _ _ c' hc' with ⟨h1, _⟩ | ⟨j, hj, r, x, hg, rfl⟩
        · exfalso
          obtain ⟨e, he, hcase⟩ := (mem_removeStep mul rigs t c').mp h1
          rcases hcase with ⟨hmo', rfl⟩ | ⟨members', m', gm', hmo', hm', rfl⟩
          · rw [hdev, hmo] at hmo'; cases hmo'
          · have hr' : (e.dev, members') ∈ rigs := mem_of_get? _ _ _ hmo'
            simp only at hdev
            subst hdev
            exact absurd (isRig_of_some hmo) ((hflat _ _ hr').2 _ hm')
        · exact (hjob j hj r x hg).1
      -- same (timestamp, device) key in `t`, hence the same entry
      have : c' = c := by
        exact entry_eq_of_key_eq t hkeys c' c hc't hc hts hdev
      rw [← this]; exact hc'

end Kapture.C06
