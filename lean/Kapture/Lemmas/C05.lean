/-
  Lemmas/C05.lean — helper lemmas about the generated rotation formulas over an arbitrary field.
-/
import Kapture.Model.C05
import Mathlib.Tactic.Ring
import Mathlib.Tactic.FieldSimp
import Mathlib.Tactic.LinearCombination
import Mathlib.Tactic.Linarith
import Mathlib.Algebra.Order.Field.Basic

set_option linter.unusedSectionVars false
set_option linter.unusedVariables false

namespace Kapture.C05
open Kapture Kapture.Gen.RotMat
variable {K : Type} [Field K] [DecidableEq K]

theorem qnorm_def (q : Quat K) : qnorm q = q.w * q.w + q.x * q.x + q.y * q.y + q.z * q.z := by
  simp only [qnorm]

theorem qnorm_eq_norm2 (q : Quat K) : qnorm q = Quat.norm2 q := by
  simp only [qnorm, Quat.norm2]

/-- whichever branch is taken, the result is the normalising formula -/
theorem rot_eq_norm (q : Quat K) : rot q = rotNorm q (qnorm q) := by
  unfold rot
  split
  · next h1 => rw [h1]; simp [rotUnit, rotNorm]
  · rfl

theorem qnorm_mul (p q : Quat K) : qnorm (Quat.mul p q) = qnorm p * qnorm q := by
  simp only [qnorm, Quat.mul]; ring

theorem qnorm_inv (q : Quat K) (h : qnorm q ≠ 0) : qnorm (Quat.inv q) = (qnorm q)⁻¹ := by
  have h' : Quat.norm2 q ≠ 0 := by rwa [← qnorm_eq_norm2]
  have e : Quat.norm2 q = q.w * q.w + q.x * q.x + q.y * q.y + q.z * q.z := rfl
  rw [qnorm_def, qnorm_def]
  simp only [Quat.inv]
  rw [← e]
  generalize Quat.norm2 q = n at *
  field_simp
  rw [e]; ring

theorem qnorm_inv_ne (q : Quat K) (h : qnorm q ≠ 0) : qnorm (Quat.inv q) ≠ 0 := by
  rw [qnorm_inv q h]; exact inv_ne_zero h

theorem qnorm_smul (c : K) (q : Quat K) : qnorm (Quat.smul c q) = c * c * qnorm q := by
  simp only [qnorm, Quat.smul]; ring

theorem quat_mul_assoc (a b c : Quat K) : Quat.mul (Quat.mul a b) c = Quat.mul a (Quat.mul b c) := by
  simp only [Quat.mul, Quat.mk.injEq]
  refine ⟨?_, ?_, ?_, ?_⟩ <;> ring

theorem quat_mul_inv (q : Quat K) (h : qnorm q ≠ 0) : Quat.mul q (Quat.inv q) = Quat.one := by
  have h' : Quat.norm2 q ≠ 0 := by rwa [← qnorm_eq_norm2]
  simp only [Quat.mul, Quat.inv, Quat.one, Quat.mk.injEq]
  have e : Quat.norm2 q = q.w * q.w + q.x * q.x + q.y * q.y + q.z * q.z := rfl
  generalize Quat.norm2 q = n at *
  refine ⟨?_, ?_, ?_, ?_⟩ <;> (field_simp; subst e; ring)

theorem quat_inv_mul (q : Quat K) (h : qnorm q ≠ 0) : Quat.mul (Quat.inv q) q = Quat.one := by
  have h' : Quat.norm2 q ≠ 0 := by rwa [← qnorm_eq_norm2]
  simp only [Quat.mul, Quat.inv, Quat.one, Quat.mk.injEq]
  have e : Quat.norm2 q = q.w * q.w + q.x * q.x + q.y * q.y + q.z * q.z := rfl
  generalize Quat.norm2 q = n at *
  refine ⟨?_, ?_, ?_, ?_⟩ <;> (field_simp; subst e; ring)

theorem quat_inv_inv (q : Quat K) (h : qnorm q ≠ 0) : Quat.inv (Quat.inv q) = q := by
  have hi := qnorm_inv q h
  rw [qnorm_eq_norm2, qnorm_eq_norm2] at hi
  have h' : Quat.norm2 q ≠ 0 := by rwa [← qnorm_eq_norm2]
  cases q with
  | mk w x y z =>
    simp only [Quat.inv] at hi ⊢
    rw [hi]
    simp only [Quat.mk.injEq]
    generalize Quat.norm2 (⟨w, x, y, z⟩ : Quat K) = n at *
    refine ⟨?_, ?_, ?_, ?_⟩ <;> field_simp

theorem mulVec_mul (a b : M3 K) (v : V3 K) : M3.mulVec (M3.mul a b) v = M3.mulVec a (M3.mulVec b v) := by
  simp only [M3.mulVec, M3.mul, V3.mk.injEq]
  refine ⟨?_, ?_, ?_⟩ <;> ring

theorem mulVec_add (a : M3 K) (u v : V3 K) : M3.mulVec a (V3.add u v) = V3.add (M3.mulVec a u) (M3.mulVec a v) := by
  simp only [M3.mulVec, V3.add, V3.mk.injEq]
  refine ⟨?_, ?_, ?_⟩ <;> ring

theorem mulVec_one (v : V3 K) : M3.mulVec (M3.one : M3 K) v = v := by
  cases v; simp [M3.mulVec, M3.one]

theorem add_assoc3 (u v w : V3 K) : V3.add (V3.add u v) w = V3.add u (V3.add v w) := by
  simp only [V3.add, V3.mk.injEq]
  refine ⟨?_, ?_, ?_⟩ <;> ring

/-- in an ordered field every non-zero quaternion has a non-zero squared norm, so the hypotheses
  `qnorm q ≠ 0` of the property theorems are met by every real quaternion except 0 -/
theorem qnorm_ne_zero_of_ne {F : Type} [Field F] [LinearOrder F] [IsStrictOrderedRing F]
    (q : Quat F) (h : q.w ≠ 0 ∨ q.x ≠ 0 ∨ q.y ≠ 0 ∨ q.z ≠ 0) : qnorm q ≠ 0 := by
  simp only [qnorm]
  have hw := mul_self_nonneg q.w
  have hx := mul_self_nonneg q.x
  have hy := mul_self_nonneg q.y
  have hz := mul_self_nonneg q.z
  rcases h with h | h | h | h
  all_goals
    have := mul_self_pos.mpr h
    intro e
    linarith

end Kapture.C05
