/-
  Lemmas/C16.lean — helper lemmas for C16.

  * `parseDtype_of_find_none/some`: `parseDtype` from the result of the table lookup (the lookup itself is decidable,
    `Except String String` equality is not).
  * `kStep … oStep`: the five steps of `C20.plan`, verbatim, as separate functions; `plan_eq_steps` (by `rfl`) says that
    `plan` is their sequential composition.  `*_moves` invert each step, `plan_folders_movesIn` inverts `plan`.
-/
import Kapture.Model.C16

namespace Kapture.C16
open Kapture Kapture.C20

/-- explicit type names given on the command line are single, harmless path components -/
def ParamsOK (p : Params) : Prop :=
  (∀ s, p.kp = some s → nameOK s = true ∧ s ≠ "") ∧ (∀ s, p.desc = some s → nameOK s = true ∧ s ≠ "") ∧
  (∀ s, p.gf = some s → nameOK s = true ∧ s ≠ "")

theorem parseDtype_of_find_none (s : String)
    (h : Gen.DtypeNames.accepted.find? (fun e => e.1 == s) = none) :
    parseDtype s = Except.error "ValueError" := by
  unfold parseDtype; rw [h]

theorem parseDtype_of_find_some (s : String) (e : String × String)
    (h : Gen.DtypeNames.accepted.find? (fun e => e.1 == s) = some e) :
    parseDtype s = Except.ok e.2 := by
  unfold parseDtype; rw [h]

/-- all data moves of a folder plan have the shape dir/rel ↦ dir/ty/rel -/
def MovesIn (dir : String) (f : FolderPlan) : Prop :=
  ∃ ty, ∀ m ∈ f.moves, ∃ rel, m.src = dir ++ "/" ++ rel ∧ m.dst = dir ++ "/" ++ ty ++ "/" ++ rel

theorem movesIn_map (dir ty : String) (l : List String) (f : FolderPlan)
    (h : f.moves = l.map (fun r => ⟨dir ++ "/" ++ r, dir ++ "/" ++ ty ++ "/" ++ r⟩)) : MovesIn dir f := by
  refine ⟨ty, fun m hm => ?_⟩
  rw [h] at hm
  obtain ⟨r, _, rfl⟩ := List.mem_map.mp hm
  exact ⟨r, rfl, rfl⟩

def kStep (p : Params) (t : Tree) : Except Err (Option String × Option FolderPlan) :=
  let kdir := "reconstruction/keypoints"
  (match textOf t (kdir ++ "/keypoints.txt") with
    | none => pure (p.kp, (none : Option FolderPlan))
    | some ls =>
      match firstRow ls with
      | some [name, dt, ds] =>
        if !nameOK name then throw (Err.valueError name) else
        match dtypeName dt with
        | none => throw (Err.valueError dt)
        | some dtn =>
          let ty := p.kp.getD name
          if p.kp.isNone && name.isEmpty then throw (Err.assertion "name") else
          pure (some ty, some { newCfg := some (kdir ++ "/" ++ ty ++ "/keypoints.txt", cfgLines "# name, dtype, dsize" [name, dtn, ds]),
                                oldCfg := some (kdir ++ "/keypoints.txt"),
                                moves := (deepestFirst (filesUnder t kdir ".kpt")).map (fun r => ⟨kdir ++ "/" ++ r, kdir ++ "/" ++ ty ++ "/" ++ r⟩),
                                side := [⟨kdir ++ "/extract_local_features.json", kdir ++ "/" ++ ty ++ "/extract_local_features.json"⟩] })
      | _ => throw (Err.assertion "keypoints.txt row"))

def dStep (p : Params) (t : Tree) (kpType : Option String) : Except Err (Option FolderPlan) :=
  let ddir := "reconstruction/descriptors"
  (match textOf t (ddir ++ "/descriptors.txt") with
    | none => pure (none : Option FolderPlan)
    | some ls =>
      match kpType, firstRow ls with
      | none, _ => throw (Err.assertion "keypoints_type")
      | some kt, some [name, dt, ds] =>
        if !nameOK name then throw (Err.valueError name) else
        match dtypeName dt with
        | none => throw (Err.valueError dt)
        | some dtn =>
          let ty := p.desc.getD name
          if p.desc.isNone && name.isEmpty then throw (Err.assertion "name") else
          pure (some { newCfg := some (ddir ++ "/" ++ ty ++ "/descriptors.txt",
                                       cfgLines "# name, dtype, dsize, keypoints_type, metric_type" [name, dtn, ds, kt, p.descMetric]),
                       oldCfg := some (ddir ++ "/descriptors.txt"),
                       moves := (deepestFirst (filesUnder t ddir ".desc")).map (fun r => ⟨ddir ++ "/" ++ r, ddir ++ "/" ++ ty ++ "/" ++ r⟩) })
      | _, _ => throw (Err.assertion "descriptors.txt row"))

def mStep (t : Tree) (kpType : Option String) : Except Err (Option FolderPlan) :=
  let mdir := "reconstruction/matches"
  (if hasDir t mdir then
      match kpType with
      | none => throw (Err.assertion "keypoints_type")
      | some kt => pure (some ({ newCfg := none, oldCfg := none,
                                 moves := (deepestFirst (filesUnder t mdir ".matches")).map (fun r => ⟨mdir ++ "/" ++ r, mdir ++ "/" ++ kt ++ "/" ++ r⟩),
                                 side := [⟨mdir ++ "/run_matching.json", mdir ++ "/" ++ kt ++ "/run_matching.json"⟩] } : FolderPlan))
    else pure none)

def gStep (p : Params) (t : Tree) : Except Err (Option FolderPlan) :=
  let gdir := "reconstruction/global_features"
  (match textOf t (gdir ++ "/global_features.txt") with
    | none => pure (none : Option FolderPlan)
    | some ls =>
      match firstRow ls with
      | some [name, dt, ds] =>
        if !nameOK name then throw (Err.valueError name) else
        match dtypeName dt with
        | none => throw (Err.valueError dt)
        | some dtn =>
          let ty := p.gf.getD name
          if p.gf.isNone && name.isEmpty then throw (Err.assertion "name") else
          pure (some { newCfg := some (gdir ++ "/" ++ ty ++ "/global_features.txt",
                                       cfgLines "# name, dtype, dsize, metric_type" [name, dtn, ds, p.gfMetric]),
                       oldCfg := some (gdir ++ "/global_features.txt"),
                       moves := (deepestFirst (filesUnder t gdir ".gfeat")).map (fun r => ⟨gdir ++ "/" ++ r, gdir ++ "/" ++ ty ++ "/" ++ r⟩),
                       side := [⟨gdir ++ "/extract_global_features.json", gdir ++ "/" ++ ty ++ "/extract_global_features.json"⟩] })
      | _ => throw (Err.assertion "global_features.txt row"))

def oStep (t : Tree) (kpType : Option String) : Except Err (Option (List String)) :=
  (match textOf t "reconstruction/observations.txt" with
    | none => pure none
    | some ls =>
      match kpType with
      | none => throw (Err.assertion "keypoints_type")
      | some kt => pure (some (relabelObservations kt ls)))

theorem plan_eq_steps (p : Params) (t : Tree) :
    plan p t = (do
      let (kpType, kplan) ← kStep p t
      let dplan ← dStep p t kpType
      let mplan ← mStep t kpType
      let gplan ← gStep p t
      let obs ← oStep t kpType
      pure { tables := tables10.filterMap (fun f => (textOf t f).map (fun ls => (f, upgradeTable ls))),
             folders := [kplan, dplan, mplan, gplan].filterMap id, observations := obs }) := rfl


theorem kStep_moves {p : Params} {t : Tree} {kt : Option String} {f : FolderPlan}
    (h : kStep p t = Except.ok (kt, some f)) : MovesIn "reconstruction/keypoints" f := by
  unfold kStep at h
  simp only [pure, Except.pure, throw, throwThe, MonadExceptOf.throw] at h
  repeat' split at h
  all_goals first
    | (simp only [reduceCtorEq, Except.ok.injEq, Prod.mk.injEq, and_false] at h; done)
    | skip
  simp only [Except.ok.injEq, Prod.mk.injEq, Option.some.injEq] at h
  obtain ⟨_, rfl⟩ := h
  exact movesIn_map _ _ _ _ rfl

theorem dStep_moves {p : Params} {t : Tree} {kt : Option String} {f : FolderPlan}
    (h : dStep p t kt = Except.ok (some f)) : MovesIn "reconstruction/descriptors" f := by
  unfold dStep at h
  simp only [pure, Except.pure, throw, throwThe, MonadExceptOf.throw] at h
  repeat' split at h
  all_goals first
    | (simp only [reduceCtorEq, Except.ok.injEq] at h; done)
    | skip
  simp only [Except.ok.injEq, Option.some.injEq] at h
  subst h
  exact movesIn_map _ _ _ _ rfl

theorem mStep_moves {t : Tree} {kt : Option String} {f : FolderPlan}
    (h : mStep t kt = Except.ok (some f)) : MovesIn "reconstruction/matches" f := by
  unfold mStep at h
  simp only [pure, Except.pure, throw, throwThe, MonadExceptOf.throw] at h
  repeat' split at h
  all_goals first
    | (simp only [reduceCtorEq, Except.ok.injEq] at h; done)
    | skip
  simp only [Except.ok.injEq, Option.some.injEq] at h
  subst h
  exact movesIn_map _ _ _ _ rfl

theorem gStep_moves {p : Params} {t : Tree} {f : FolderPlan}
    (h : gStep p t = Except.ok (some f)) : MovesIn "reconstruction/global_features" f := by
  unfold gStep at h
  simp only [pure, Except.pure, throw, throwThe, MonadExceptOf.throw] at h
  repeat' split at h
  all_goals first
    | (simp only [reduceCtorEq, Except.ok.injEq] at h; done)
    | skip
  simp only [Except.ok.injEq, Option.some.injEq] at h
  subst h
  exact movesIn_map _ _ _ _ rfl

/-- inversion of a successful `plan`: each folder plan comes from one of the four steps -/
theorem plan_folders_movesIn {p : Params} {t : Tree} {pl : Plan} (h : plan p t = Except.ok pl)
    {f : FolderPlan} (hf : f ∈ pl.folders) :
    ∃ dir, MovesIn dir f ∧
      dir ∈ ["reconstruction/keypoints", "reconstruction/descriptors", "reconstruction/matches", "reconstruction/global_features"] := by
  rw [plan_eq_steps] at h
  cases hk : kStep p t with
  | error e => simp [hk, bind, Except.bind] at h
  | ok kr =>
    obtain ⟨kt, kplan⟩ := kr
    cases hd : dStep p t kt with
    | error e => simp [hk, hd, bind, Except.bind] at h
    | ok dplan =>
      cases hmm : mStep t kt with
      | error e => simp [hk, hd, hmm, bind, Except.bind] at h
      | ok mplan =>
        cases hg : gStep p t with
        | error e => simp [hk, hd, hmm, hg, bind, Except.bind] at h
        | ok gplan =>
          cases ho : oStep t kt with
          | error e => simp [hk, hd, hmm, hg, ho, bind, Except.bind] at h
          | ok obs =>
            simp only [hk, hd, hmm, hg, ho, bind, Except.bind, pure, Except.pure, Except.ok.injEq] at h
            subst h
            simp only [List.mem_filterMap, List.mem_cons, List.not_mem_nil, or_false, id] at hf
            obtain ⟨o, ho', rfl⟩ := hf
            rcases ho' with rfl | rfl | rfl | rfl
            · exact ⟨_, kStep_moves hk, by simp⟩
            · exact ⟨_, dStep_moves hd, by simp⟩
            · exact ⟨_, mStep_moves hmm, by simp⟩
            · exact ⟨_, gStep_moves hg, by simp⟩

end Kapture.C16
