/-
  Lemmas/C02.lean — the specification's view of a text file ("Text files" section of kapture_format.adoc) and helper lemmas.
-/
import Kapture.Props.Csv
import Kapture.Lemmas.C01
import Kapture.Props.C01

namespace Kapture.C02
open Kapture.Csv

/-- one physical line of a specification-conformant file -/
inductive SpecLine where
  | comment (text : Str)                    -- a line starting with '#': ignored (the version line is one of them)
  | blank (ws : Str)                        -- a line containing only blank characters: ignored
  | data (ls rs fields : List Str)          -- comma separated values, with free blanks `ls[i]`, `rs[i]` around field i

def SpecLine.text : SpecLine → Str
  | SpecLine.comment t => t
  | SpecLine.blank ws => ws
  | SpecLine.data ls rs fields => joinWith [','] (decorate ls rs fields)

/-- well-formedness of a line, as the specification words it -/
def SpecLine.WF : SpecLine → Prop
  | SpecLine.comment t => t.head? = some '#' ∧ LineOK t
  | SpecLine.blank ws => Blank ws
  | SpecLine.data ls rs fields =>
      ls.length = fields.length ∧ rs.length = fields.length ∧ (∀ l ∈ ls, Blank l) ∧ (∀ r ∈ rs, Blank r) ∧ RowOK fields

/-- the content the specification assigns to a file: the fields of its data lines, in order -/
def content : List SpecLine → List (List Str)
  | [] => []
  | SpecLine.data _ _ fields :: rest => fields :: content rest
  | _ :: rest => content rest

open Kapture.C01

-- reading a conformant file ------------------------------------------------------------------------------------------

theorem mem_decorate {ls rs fs : List Str} {p : Str} (h : p ∈ decorate ls rs fs) :
    ∃ l ∈ ls, ∃ r ∈ rs, ∃ f ∈ fs, p = l ++ f ++ r := by
  induction fs generalizing ls rs with
  | nil => cases ls <;> cases rs <;> simp [decorate] at h
  | cons f fs ih =>
    cases ls with
    | nil => simp [decorate] at h
    | cons l ls =>
      cases rs with
      | nil => simp [decorate] at h
      | cons r rs =>
        simp only [decorate, List.mem_cons] at h
        rcases h with rfl | h
        · exact ⟨l, by simp, r, by simp, f, by simp, rfl⟩
        · obtain ⟨l', hl', r', hr', f', hf', e⟩ := ih h
          exact ⟨l', by simp [hl'], r', by simp [hr'], f', by simp [hf'], e⟩

/-- a character that occurs neither in the blanks nor in the fields (and is not the comma) does not occur in the line -/
theorem not_mem_data_text (c : Char) (hc : c ≠ ',') (ls rs fields : List Str) (hl : ∀ l ∈ ls, c ∉ l)
    (hr : ∀ r ∈ rs, c ∉ r) (hf : ∀ f ∈ fields, c ∉ f) : c ∉ joinWith [','] (decorate ls rs fields) := by
  intro hm
  rcases mem_joinWith _ _ _ hm with h | ⟨p, hp, h⟩
  · exact hc (by simpa using h)
  · obtain ⟨l, hl', r, hr', f, hf', rfl⟩ := mem_decorate hp
    simp only [List.mem_append] at h
    rcases h with (h | h) | h
    · exact hl l hl' h
    · exact hf f hf' h
    · exact hr r hr' h

theorem lineOK_text (l : SpecLine) (h : l.WF) : LineOK l.text := by
  cases l with
  | comment t => exact h.2
  | blank ws => exact ⟨h.2.1, h.2.2⟩
  | data ls rs fields =>
    obtain ⟨_, _, hbl, hbr, hrow, _⟩ := h
    exact ⟨not_mem_data_text '\n' (by decide) ls rs fields (fun l hl => (hbl l hl).2.1) (fun r hr => (hbr r hr).2.1)
        (fun f hf => (hrow f hf).2.1),
      not_mem_data_text '\r' (by decide) ls rs fields (fun l hl => (hbl l hl).2.2) (fun r hr => (hbr r hr).2.2)
        (fun f hf => (hrow f hf).2.2.1)⟩

theorem keepLine_blank (ws : Str) (h : AllSpace ws) : keepLine ws = false := by
  unfold keepLine
  rw [strip_all ws h]
  rfl

theorem keepLine_data (ls rs fields : List Str) (h : (SpecLine.data ls rs fields).WF) :
    keepLine (joinWith [','] (decorate ls rs fields)) = true := by
  obtain ⟨hl, hr, hbl, _, hf, f, rest, rfl, hne, hh⟩ := h
  cases ls with
  | nil => simp at hl
  | cons l ls =>
    cases rs with
    | nil => simp at hr
    | cons r rs =>
      cases f with
      | nil => contradiction
      | cons x xs =>
        have hx : isPySpace x = false :=
          dropWhile_eq_self_head _ _ _ (lstrip_of_strip_eq _ (hf (x :: xs) (by simp)).2.2.2)
        simp only [decorate]
        apply keepLine_true _ x (mem_joinWith_head _ _ _ _ (by simp)) hx
        rw [head?_joinWith _ _ _ (by simp)]
        cases l with
        | nil => simpa using hh
        | cons c l' =>
          have hc : isPySpace c = true := (hbl (c :: l') (by simp)).1 c (by simp)
          simp only [List.cons_append, List.head?_cons, ne_eq, Option.some.injEq]
          intro e
          rw [e] at hc
          revert hc
          decide

theorem parseLine_data (ls rs fields : List Str) (h : (SpecLine.data ls rs fields).WF) :
    parseLine (joinWith [','] (decorate ls rs fields)) = fields := by
  obtain ⟨hl, hr, hbl, hbr, hf, f, rest, rfl, _, _⟩ := h
  exact parseLine_decorated ls rs _ hl hr (by simp) (fun l h => (hbl l h).1) (fun r h => (hbr r h).1) hf

theorem map_parseLine_filter (lines : List SpecLine) (hw : ∀ l ∈ lines, l.WF) :
    ((lines.map SpecLine.text).filter keepLine).map parseLine = content lines := by
  induction lines with
  | nil => rfl
  | cons l rest ih =>
    have ih' := ih (fun l' h' => hw l' (by simp [h']))
    have hl := hw l (by simp)
    cases l with
    | comment t =>
      rw [List.map_cons, List.filter_cons, show (SpecLine.comment t).text = t from rfl, keepLine_of_hash t hl.1]
      exact ih'
    | blank ws =>
      rw [List.map_cons, List.filter_cons, show (SpecLine.blank ws).text = ws from rfl, keepLine_blank ws hl.1]
      exact ih'
    | data ls rs fields =>
      rw [List.map_cons, List.filter_cons,
        show (SpecLine.data ls rs fields).text = joinWith [','] (decorate ls rs fields) from rfl,
        keepLine_data ls rs fields hl, if_pos rfl, List.map_cons, parseLine_data ls rs fields hl, ih']
      rfl

-- integers -----------------------------------------------------------------------------------------------------------

theorem readInt_zeros_digits (k n : Nat) :
    readInt (List.replicate k '0' ++ natDigits (n + 1) n) = some (n : Int) := by
  have h := readNat_leading_zeros k n
  cases k with
  | zero =>
    simp only [List.replicate_zero, List.nil_append] at h ⊢
    exact readInt_natDigits n
  | succ k =>
    rw [List.replicate_succ, List.cons_append] at h ⊢
    rw [readInt_of_head _ _ (by decide) (by decide), h]
    rfl

-- written files --------------------------------------------------------------------------------------------------------

/-- `p` is the field `f` wrapped in blanks (whitespace without line breaks) -/
def BDec (p f : Str) : Prop := ∃ l r, Blank l ∧ Blank r ∧ p = l ++ f ++ r

theorem blank_nil : Blank [] := ⟨allSpace_nil, by simp, by simp⟩

theorem blank_replicate (k : Nat) : Blank (List.replicate k ' ') := by
  refine ⟨allSpace_replicate k, ?_, ?_⟩ <;>
  · intro h
    have := List.eq_of_mem_replicate h
    revert this
    decide

theorem blank_cons_space {l : Str} (h : Blank l) : Blank (' ' :: l) := by
  obtain ⟨h1, h2, h3⟩ := h
  refine ⟨?_, ?_, ?_⟩
  · intro c hc
    rcases List.mem_cons.1 hc with rfl | hc
    · decide
    · exact h1 c hc
  · intro hm
    rcases List.mem_cons.1 hm with e | hm
    · revert e; decide
    · exact h2 hm
  · intro hm
    rcases List.mem_cons.1 hm with e | hm
    · revert e; decide
    · exact h3 hm

theorem Pad.bdec {p f : Str} (h : Pad p f) : BDec p f := by
  obtain ⟨k, rfl⟩ := h
  exact ⟨_, [], blank_replicate k, blank_nil, by simp⟩

theorem all₂_bdec_spaceTail {ps fields : List Str} (h : All₂ BDec ps fields) : All₂ BDec (spaceTail ps) fields := by
  cases h with
  | nil => exact All₂.nil
  | cons hpf ht =>
    simp only [spaceTail]
    refine All₂.cons hpf ?_
    clear hpf
    induction ht with
    | nil => exact All₂.nil
    | cons hqf _ ih =>
      obtain ⟨l, r, hl, hr, rfl⟩ := hqf
      exact All₂.cons ⟨' ' :: l, r, blank_cons_space hl, hr, by simp⟩ ih

/-- pieces that are blank-wrapped fields are a `decorate` of those fields -/
theorem decorate_of_bdec {ps fields : List Str} (h : All₂ BDec ps fields) :
    ∃ ls rs, ls.length = fields.length ∧ rs.length = fields.length ∧ (∀ l ∈ ls, Blank l) ∧ (∀ r ∈ rs, Blank r) ∧
      ps = decorate ls rs fields := by
  induction h with
  | nil => exact ⟨[], [], rfl, rfl, by simp, by simp, rfl⟩
  | cons hpf _ ih =>
    obtain ⟨l, r, hl, hr, rfl⟩ := hpf
    obtain ⟨ls, rs, h1, h2, h3, h4, rfl⟩ := ih
    refine ⟨l :: ls, r :: rs, by simp [h1], by simp [h2], ?_, ?_, rfl⟩
    · intro l' h'
      rcases List.mem_cons.1 h' with rfl | h'
      · exact hl
      · exact h3 l' h'
    · intro r' h'
      rcases List.mem_cons.1 h' with rfl | h'
      · exact hr
      · exact h4 r' h'

/-- a written row is a specification data line: blanks (the justification and the space after the comma) before fields -/
theorem renderRow_specLine (pad : Option (List Nat)) (r : List Str) (hr : RowOK r) :
    ∃ ls rs, (SpecLine.data ls rs r).WF ∧ (SpecLine.data ls rs r).text = renderRow pad r := by
  have h := all₂_bdec_spaceTail (forall₂_imp (fun _ _ => Pad.bdec) (forall₂_pad_render pad r))
  obtain ⟨ls, rs, h1, h2, h3, h4, h5⟩ := decorate_of_bdec h
  refine ⟨ls, rs, ⟨h1, h2, h3, h4, hr⟩, ?_⟩
  show joinWith [','] (decorate ls rs r) = renderRow pad r
  rw [← h5]
  exact (joinWith_commaSpace _).symm

theorem rows_specLines (pad : Option (List Nat)) (rows : List (List Str)) (hr : ∀ r ∈ rows, RowOK r) :
    ∃ lines : List SpecLine, (∀ l ∈ lines, l.WF) ∧ lines.map SpecLine.text = rows.map (renderRow pad) ∧
      content lines = rows := by
  induction rows with
  | nil => exact ⟨[], by simp, rfl, rfl⟩
  | cons r rest ih =>
    obtain ⟨lines, h1, h2, h3⟩ := ih (fun r' h' => hr r' (by simp [h']))
    obtain ⟨ls, rs, hw, ht⟩ := renderRow_specLine pad r (hr r (by simp))
    refine ⟨SpecLine.data ls rs r :: lines, ?_, ?_, ?_⟩
    · intro l hl
      rcases List.mem_cons.1 hl with rfl | hl
      · exact hw
      · exact h1 l hl
    · rw [List.map_cons, List.map_cons, ht, h2]
    · show r :: content lines = r :: rest
      rw [h3]

/-- every line terminated by LF -/
theorem glue_replicate_nl (ls : List Str) :
    glue ls (List.replicate ls.length nl) = (ls.map (fun l => l ++ nl)).flatten := by
  induction ls with
  | nil => rfl
  | cons l rest ih =>
    rw [List.length_cons, List.replicate_succ]
    simp only [glue]
    rw [ih]
    simp

end Kapture.C02
