/-
  Lemmas/C12.lean — helper lemmas for C12.
-/
import Kapture.Model.C12

namespace Kapture.C12
open Kapture

/-- reading after one append: the new member wins under its own name, everything else is unchanged -/
theorem read_append_single (a : Archive) (e : String × Blob) (m : String) :
    read (a ++ [e]) m = if e.1 = m then some e.2 else read a m := by
  unfold read
  rw [List.reverse_append, List.reverse_singleton, List.singleton_append, List.find?_cons]
  by_cases h : e.1 = m
  · simp [h]
  · have : (e.1 == m) = false := by simpa using h
    simp [this, h]

theorem read_nil (n : String) : read [] n = none := rfl

/-- reading after a prepend: the older member only shows if nothing later has its name -/
theorem read_cons (e : String × Blob) (a : Archive) (n : String) :
    read (e :: a) n = (read a n).or (if e.1 = n then some e.2 else none) := by
  unfold read
  rw [List.reverse_cons, List.find?_append]
  cases h : a.reverse.find? (fun e => e.1 == n) with
  | some x => simp
  | none =>
    by_cases h2 : e.1 = n
    · simp [h2]
    · have : (e.1 == n) = false := by simpa using h2
      simp [this, h2]

theorem read_isSome_iff (a : Archive) (n : String) : (read a n).isSome = true ↔ n ∈ a.map (·.1) := by
  unfold read
  rw [Option.isSome_map, List.find?_isSome]
  constructor
  · rintro ⟨x, hx, hn⟩
    exact List.mem_map.mpr ⟨x, List.mem_reverse.mp hx, by simpa using hn⟩
  · intro h
    obtain ⟨x, hx, hn⟩ := List.mem_map.mp h
    exact ⟨x, List.mem_reverse.mpr hx, by simpa using hn⟩

theorem read_eq_none_iff (a : Archive) (n : String) : read a n = none ↔ n ∉ a.map (·.1) := by
  rw [← read_isSome_iff]
  cases read a n <;> simp

theorem read_some_mem (a : Archive) (n : String) (b : Blob) (h : read a n = some b) : (n, b) ∈ a := by
  unfold read at h
  cases hf : a.reverse.find? (fun e => e.1 == n) with
  | none => rw [hf] at h; simp at h
  | some x =>
    rw [hf] at h
    have hm : x ∈ a := List.mem_reverse.mp (List.mem_of_find?_eq_some hf)
    have hp : x.1 = n := by simpa using List.find?_some hf
    have hb : x.2 = b := by simpa using h
    obtain ⟨x1, x2⟩ := x
    simp only at hp hb
    subst hp; subst hb
    exact hm

/-- the fold that builds the directory form, over any starting dictionary -/
theorem get?_foldl_set_reverse (r : Archive) (acc : List (String × Blob)) (n : String) :
    Dict.get? n (r.reverse.foldl (fun d e => Dict.set e.1 e.2 d) acc) =
      match read r.reverse n with
      | some b => some b
      | none => Dict.get? n acc := by
  induction r with
  | nil => simp [read_nil]
  | cons e r ih =>
    rw [List.reverse_cons, List.foldl_append, read_append_single]
    simp only [List.foldl_cons, List.foldl_nil]
    rw [Dict.get?_set, ih]
    by_cases h : e.1 = n
    · simp [h]
    · have h' : ¬ n = e.1 := fun x => h x.symm
      simp [h, h']

theorem get?_foldl_set (a : Archive) (acc : List (String × Blob)) (n : String) :
    Dict.get? n (a.foldl (fun d e => Dict.set e.1 e.2 d) acc) =
      match read a n with
      | some b => some b
      | none => Dict.get? n acc := by
  have := get?_foldl_set_reverse a.reverse acc n
  rwa [List.reverse_reverse] at this

/-- with one member per name, last occurrence = first occurrence -/
theorem read_eq_get?_of_nodup (files : List (String × Blob)) (h : (files.map (·.1)).Nodup) (n : String) :
    read files n = Dict.get? n files := by
  induction files with
  | nil => rfl
  | cons e t ih =>
    obtain ⟨k, v⟩ := e
    simp only [List.map_cons, List.nodup_cons] at h
    rw [read_cons, Dict.get?]
    by_cases hk : k = n
    · subst hk
      have : read t k = none := (read_eq_none_iff _ _).mpr h.1
      simp [this]
    · rw [← ih h.2]
      simp [hk]

theorem lengthBytes_append (a c : Archive) : lengthBytes (a ++ c) = lengthBytes a + lengthBytes c := by
  unfold lengthBytes
  rw [List.map_append, List.sum_append]

theorem roundUp512_mod (n : Nat) : roundUp512 n % 512 = 0 := by
  unfold roundUp512; omega

theorem lengthBytes_mod (a : Archive) : lengthBytes a % 512 = 0 := by
  induction a with
  | nil => rfl
  | cons e t ih =>
    have h1 : lengthBytes (e :: t) = 512 + roundUp512 e.2.length + lengthBytes t := by
      simp [lengthBytes, memberBytes]
    have h2 := roundUp512_mod e.2.length
    omega

/-- reading a prefix of the log: induction on the kill point -/
theorem read_take_of_last (a : Archive) (n : String) (b : Blob) (i : Nat) (he : a[i]? = some (n, b)) :
    ∀ k, i < k → k ≤ a.length → (∀ j e, i < j → j < k → a[j]? = some e → e.1 ≠ n) →
      read (a.take k) n = some b := by
  intro k
  induction k with
  | zero => intro hi; omega
  | succ k ih =>
    intro hi hk hl
    have hlt : k < a.length := by omega
    rw [List.take_add_one, List.getElem?_eq_getElem hlt]
    simp only [Option.toList_some]
    rw [read_append_single]
    by_cases hik : i = k
    · subst hik
      rw [List.getElem?_eq_getElem hlt] at he
      have : a[i] = (n, b) := by simpa using he
      simp [this]
    · have hne : a[k].1 ≠ n := hl k a[k] (by omega) (by omega) (List.getElem?_eq_getElem hlt)
      rw [if_neg hne]
      exact ih (by omega) (by omega) (fun j e h1 h2 h3 => hl j e h1 (by omega) h3)

theorem findLatestRev_plain (l : List (String × Blob)) (n : String) :
    (findLatestRev (l.map (fun e => (e.1, Member.data e.2))) n).map (·.2) =
      (l.find? (fun e => e.1 == n)).map (fun e => Member.data e.2) := by
  induction l with
  | nil => rfl
  | cons e l ih =>
    simp only [List.map_cons, findLatestRev, List.find?_cons]
    cases h : e.1 == n <;> simp [ih]

theorem readL_plain (a : Archive) (n : String) : readL (plain a) n = read a n := by
  unfold readL findLatest read plain
  rw [List.take_length, ← List.map_reverse]
  have h := findLatestRev_plain a.reverse n
  cases hf : findLatestRev (List.map (fun e => (e.1, Member.data e.2)) a.reverse) n with
  | none =>
    rw [hf] at h
    cases hr : List.find? (fun e => e.1 == n) a.reverse with
    | none => simp
    | some e => rw [hr] at h; simp at h
  | some p =>
    rw [hf] at h
    cases hr : List.find? (fun e => e.1 == n) a.reverse with
    | none => rw [hr] at h; simp at h
    | some e =>
      rw [hr] at h
      simp only [Option.map_some, Option.some.injEq] at h
      obtain ⟨i, m⟩ := p
      simp only at h
      subst h
      simp [resolve]


/-- no symbolic-link member (what `tar` makes of a folder that went through hard-link de-duplication) -/
def NoSym (a : LArchive) : Prop := ∀ e ∈ a, ∀ t, e.2 ≠ Member.sym t

theorem findLatestRev_bounds : ∀ (l : List (String × Member)) (n : String) (j : Nat) (m : Member),
    findLatestRev l n = some (j, m) → j < l.length ∧ ∃ nm, (nm, m) ∈ l := by
  intro l
  induction l with
  | nil => intro n j m h; cases h
  | cons e older ih =>
    intro n j m h
    unfold findLatestRev at h
    split at h
    · cases h; exact ⟨by simp, e.1, by simp⟩
    · obtain ⟨h1, nm, h2⟩ := ih n j m h
      exact ⟨by simp; omega, nm, List.mem_cons_of_mem _ h2⟩

theorem findLatest_bounds {a : LArchive} {i : Nat} {t : String} {j : Nat} {m : Member}
    (h : findLatest a i t = some (j, m)) : j < i ∧ j < a.length ∧ ∃ nm, (nm, m) ∈ a := by
  unfold findLatest at h
  obtain ⟨h1, nm, h2⟩ := findLatestRev_bounds _ _ _ _ h
  rw [List.length_reverse, List.length_take] at h1
  refine ⟨by omega, by omega, nm, ?_⟩
  exact List.mem_of_mem_take (List.mem_reverse.mp h2)

theorem findLatest_append_le (a : LArchive) (x : String × Member) {i : Nat} (hi : i ≤ a.length) (t : String) :
    findLatest (a ++ [x]) i t = findLatest a i t := by
  unfold findLatest
  rw [List.take_append_of_le_length hi]

theorem resolve_append (a : LArchive) (x : String × Member) (hns : NoSym a) : ∀ (f i : Nat) (m : Member), i ≤ a.length →
    (∀ t, m ≠ Member.sym t) → resolve (a ++ [x]) f (i, m) = resolve a f (i, m) := by
  intro f
  induction f with
  | zero => intro i m _ _; rfl
  | succ f ih =>
    intro i m hi hm
    cases m with
    | data b => rfl
    | sym t => exact absurd rfl (hm t)
    | hard t =>
      unfold resolve
      rw [findLatest_append_le a x hi t]
      cases hf : findLatest a i t with
      | none => rfl
      | some p =>
        obtain ⟨j, m'⟩ := p
        obtain ⟨h1, _, nm, hmem⟩ := findLatest_bounds hf
        simp only [Option.bind_some]
        exact ih j m' (by omega) (hns _ hmem)

theorem resolve_mono (a : LArchive) : ∀ (f : Nat) (p : Nat × Member) (b : Blob), resolve a f p = some b → resolve a (f + 1) p = some b := by
  intro f
  induction f with
  | zero => intro p b h; cases h
  | succ f ih =>
    intro p b h
    obtain ⟨i, m⟩ := p
    cases m with
    | data b' => exact h
    | hard t =>
      unfold resolve at h ⊢
      cases hf : findLatest a i t with
      | none => rw [hf] at h; cases h
      | some q => rw [hf] at h; simp only [Option.bind_some] at h ⊢; exact ih q b h
    | sym t =>
      unfold resolve at h ⊢
      cases hf : findLatest a a.length t with
      | none => rw [hf] at h; cases h
      | some q => rw [hf] at h; simp only [Option.bind_some] at h ⊢; exact ih q b h

theorem findLatest_append_self (a : LArchive) (n : String) (m : Member) :
    findLatest (a ++ [(n, m)]) (a ++ [(n, m)]).length n = some (a.length, m) := by
  unfold findLatest
  rw [List.take_length, List.reverse_append]
  simp [findLatestRev]

theorem findLatest_append_other (a : LArchive) (n n' : String) (m : Member) (h : (n == n') = false) :
    findLatest (a ++ [(n, m)]) (a ++ [(n, m)]).length n' = findLatest a a.length n' := by
  unfold findLatest
  rw [List.take_length, List.take_length, List.reverse_append]
  simp [findLatestRev, h]

/-- A SECOND NAME OF AN INODE READS AS THE FIRST: a hard-link member appended to an archive (without symbolic links) reads back,
  under its own name, exactly what the name it points to reads back -/
theorem hard_link_reads_its_target (a : LArchive) (hns : NoSym a) (n t : String) :
    readL (a ++ [(n, Member.hard t)]) n = readL a t := by
  unfold readL
  rw [findLatest_append_self]
  simp only [Option.bind_some, List.length_append, List.length_singleton]
  unfold resolve
  rw [findLatest_append_le a _ (Nat.le_refl _) t]
  cases hf : findLatest a a.length t with
  | none => rfl
  | some p =>
    obtain ⟨j, m'⟩ := p
    obtain ⟨h1, _, nm, hmem⟩ := findLatest_bounds hf
    simp only [Option.bind_some]
    exact resolve_append a _ hns _ j m' (by omega) (hns _ hmem)

/-- ... and changes nothing that was readable under another name -/
theorem hard_link_leaves_other_names (a : LArchive) (hns : NoSym a) (n t n' : String) (b : Blob) (hne : (n == n') = false)
    (h : readL a n' = some b) : readL (a ++ [(n, Member.hard t)]) n' = some b := by
  unfold readL at h ⊢
  rw [findLatest_append_other a n n' _ hne]
  cases hf : findLatest a a.length n' with
  | none => rw [hf] at h; cases h
  | some p =>
    obtain ⟨j, m'⟩ := p
    rw [hf] at h
    obtain ⟨h1, _, nm, hmem⟩ := findLatest_bounds hf
    simp only [Option.bind_some, List.length_append, List.length_singleton] at h ⊢
    rw [resolve_append a _ hns _ j m' (by omega) (hns _ hmem)]
    exact resolve_mono a _ _ b h


theorem append_leaves_other_names (a : LArchive) (hns : NoSym a) (x : String × Member) (n' : String) (b : Blob)
    (hne : (x.1 == n') = false) (h : readL a n' = some b) : readL (a ++ [x]) n' = some b := by
  obtain ⟨n, m⟩ := x
  unfold readL at h ⊢
  rw [findLatest_append_other a n n' _ hne]
  cases hf : findLatest a a.length n' with
  | none => rw [hf] at h; cases h
  | some p =>
    obtain ⟨j, m'⟩ := p
    rw [hf] at h
    obtain ⟨h1, _, nm, hmem⟩ := findLatest_bounds hf
    simp only [Option.bind_some, List.length_append, List.length_singleton] at h ⊢
    rw [resolve_append a _ hns _ j m' (by omega) (hns _ hmem)]
    exact resolve_mono a _ _ b h

theorem append_data_reads (a : LArchive) (n : String) (b : Blob) : readL (a ++ [(n, Member.data b)]) n = some b := by
  unfold readL
  rw [findLatest_append_self]
  simp [resolve]

theorem noSym_append {a : LArchive} (hns : NoSym a) (x : String × Member) (hx : ∀ t, x.2 ≠ Member.sym t) : NoSym (a ++ [x]) := by
  intro e he t
  rcases List.mem_append.mp he with h | h
  · exact hns e h t
  · simp at h; subst h; exact hx t

structure PackInv (content : Nat → Blob) (st : LArchive × List (Nat × String)) (done : List (String × Nat)) : Prop where
  noSym : NoSym st.1
  reads : ∀ f ∈ done, readL st.1 f.1 = some (content f.2)
  seen : ∀ s ∈ st.2, ∃ f ∈ done, f.1 = s.2 ∧ f.2 = s.1

theorem packStep_inv (content : Nat → Blob) (st : LArchive × List (Nat × String)) (done : List (String × Nat)) (f : String × Nat)
    (inv : PackInv content st done) (hnew : ∀ g ∈ done, (f.1 == g.1) = false) :
    PackInv content (packStep content st f) (done ++ [f]) := by
  unfold packStep
  cases hs : st.2.find? (fun s => s.1 == f.2) with
  | some s =>
    dsimp only
    have hmem := List.mem_of_find?_eq_some hs
    have hino : s.1 = f.2 := by simpa using List.find?_some hs
    obtain ⟨g, hg, hg1, hg2⟩ := inv.seen s hmem
    refine ⟨noSym_append inv.noSym _ (by intro t h; cases h), ?_, ?_⟩
    · intro h hh
      rcases List.mem_append.mp hh with hh | hh
      · exact append_leaves_other_names _ inv.noSym _ _ _ (hnew h hh) (inv.reads h hh)
      · simp at hh; subst hh
        rw [hard_link_reads_its_target _ inv.noSym, ← hg1, inv.reads g hg, hg2, hino]
    · intro s' hs'
      obtain ⟨g', hg', e1, e2⟩ := inv.seen s' hs'
      exact ⟨g', List.mem_append_left _ hg', e1, e2⟩
  | none =>
    dsimp only
    refine ⟨noSym_append inv.noSym _ (by intro t h; cases h), ?_, ?_⟩
    · intro h hh
      rcases List.mem_append.mp hh with hh | hh
      · exact append_leaves_other_names _ inv.noSym _ _ _ (hnew h hh) (inv.reads h hh)
      · simp at hh; subst hh
        exact append_data_reads _ _ _
    · intro s' hs'
      rcases List.mem_cons.mp hs' with e | hs'
      · subst e; exact ⟨f, by simp, rfl, rfl⟩
      · obtain ⟨g', hg', e1, e2⟩ := inv.seen s' hs'
        exact ⟨g', List.mem_append_left _ hg', e1, e2⟩

theorem pack_fold_inv (content : Nat → Blob) : ∀ (files : List (String × Nat)) (st : LArchive × List (Nat × String))
    (done : List (String × Nat)), PackInv content st done → ((done ++ files).map (·.1)).Nodup →
    PackInv content (files.foldl (packStep content) st) (done ++ files) := by
  intro files
  induction files with
  | nil => intro st done inv _; simpa using inv
  | cons f rest ih =>
    intro st done inv hn
    rw [List.foldl_cons]
    have hnew : ∀ g ∈ done, (f.1 == g.1) = false := by
      intro g hg
      rw [List.map_append, List.map_cons] at hn
      have hne : g.1 ≠ f.1 := (List.nodup_append.mp hn).2.2 g.1 (List.mem_map_of_mem hg) f.1 (by simp)
      cases h : f.1 == g.1 with
      | false => rfl
      | true => exact absurd (beq_iff_eq.mp h).symm hne
    have := ih (packStep content st f) (done ++ [f]) (packStep_inv content st done f inv hnew) (by simpa using hn)
    simpa using this


end Kapture.C12
