/-
  Lemmas/C12.lean — helper lemmas for C12.
-/
import Kapture.Model.C12

namespace Kapture.C12
open Kapture

/-- reading after one append: the new member wins under its own name, everything else is unchanged -/
theorem read_append_single (a : Archive) (e : String × Blob) (m : String) :
    read (a ++ [e]) m = if e.1 = m then some e.2 else read a m := by
  unfold read
  rw [List.reverse_append, List.reverse_singleton, List.singleton_append, List.find?_cons]
  by_cases h : e.1 = m
  · simp [h]
  · have : (e.1 == m) = false := by simpa using h
    simp [this, h]

theorem read_nil (n : String) : read [] n = none := rfl

/-- reading after a prepend: the older member only shows if nothing later has its name -/
theorem read_cons (e : String × Blob) (a : Archive) (n : String) :
    read (e :: a) n = (read a n).or (if e.1 = n then some e.2 else none) := by
  unfold read
  rw [List.reverse_cons, List.find?_append]
  cases h : a.reverse.find? (fun e => e.1 == n) with
  | some x => simp
  | none =>
    by_cases h2 : e.1 = n
    · simp [h2]
    · have : (e.1 == n) = false := by simpa using h2
      simp [this, h2]

theorem read_isSome_iff (a : Archive) (n : String) : (read a n).isSome = true ↔ n ∈ a.map (·.1) := by
  unfold read
  rw [Option.isSome_map, List.find?_isSome]
  constructor
  · rintro ⟨x, hx, hn⟩
    exact List.mem_map.mpr ⟨x, List.mem_reverse.mp hx, by simpa using hn⟩
  · intro h
    obtain ⟨x, hx, hn⟩ := List.mem_map.mp h
    exact ⟨x, List.mem_reverse.mpr hx, by simpa using hn⟩

theorem read_eq_none_iff (a : Archive) (n : String) : read a n = none ↔ n ∉ a.map (·.1) := by
  rw [← read_isSome_iff]
  cases read a n <;> simp

theorem read_some_mem (a : Archive) (n : String) (b : Blob) (h : read a n = some b) : (n, b) ∈ a := by
  unfold read at h
  cases hf : a.reverse.find? (fun e => e.1 == n) with
  | none => rw [hf] at h; simp at h
  | some x =>
    rw [hf] at h
    have hm : x ∈ a := List.mem_reverse.mp (List.mem_of_find?_eq_some hf)
    have hp : x.1 = n := by simpa using List.find?_some hf
    have hb : x.2 = b := by simpa using h
    obtain ⟨x1, x2⟩ := x
    simp only at hp hb
    subst hp; subst hb
    exact hm

/-- the fold that builds the directory form, over any starting dictionary -/
theorem get?_foldl_set_reverse (r : Archive) (acc : List (String × Blob)) (n : String) :
    Dict.get? n (r.reverse.foldl (fun d e => Dict.set e.1 e.2 d) acc) =
      match read r.reverse n with
      | some b => some b
      | none => Dict.get? n acc := by
  induction r with
  | nil => simp [read_nil]
  | cons e r ih =>
    rw [List.reverse_cons, List.foldl_append, read_append_single]
    simp only [List.foldl_cons, List.foldl_nil]
    rw [Dict.get?_set, ih]
    by_cases h : e.1 = n
    · simp [h]
    · have h' : ¬ n = e.1 := fun x => h x.symm
      simp [h, h']

theorem get?_foldl_set (a : Archive) (acc : List (String × Blob)) (n : String) :
    Dict.get? n (a.foldl (fun d e => Dict.set e.1 e.2 d) acc) =
      match read a n with
      | some b => some b
      | none => Dict.get? n acc := by
  have := get?_foldl_set_reverse a.reverse acc n
  rwa [List.reverse_reverse] at this

/-- with one member per name, last occurrence = first occurrence -/
theorem read_eq_get?_of_nodup (files : List (String × Blob)) (h : (files.map (·.1)).Nodup) (n : String) :
    read files n = Dict.get? n files := by
  induction files with
  | nil => rfl
  | cons e t ih =>
    obtain ⟨k, v⟩ := e
    simp only [List.map_cons, List.nodup_cons] at h
    rw [read_cons, Dict.get?]
    by_cases hk : k = n
    · subst hk
      have : read t k = none := (read_eq_none_iff _ _).mpr h.1
      simp [this]
    · rw [← ih h.2]
      simp [hk]

theorem lengthBytes_append (a c : Archive) : lengthBytes (a ++ c) = lengthBytes a + lengthBytes c := by
  unfold lengthBytes
  rw [List.map_append, List.sum_append]

theorem roundUp512_mod (n : Nat) : roundUp512 n % 512 = 0 := by
  unfold roundUp512; omega

theorem lengthBytes_mod (a : Archive) : lengthBytes a % 512 = 0 := by
  induction a with
  | nil => rfl
  | cons e t ih =>
    have h1 : lengthBytes (e :: t) = 512 + roundUp512 e.2.length + lengthBytes t := by
      simp [lengthBytes, memberBytes]
    have h2 := roundUp512_mod e.2.length
    omega

/-- reading a prefix of the log: induction on the kill point -/
theorem read_take_of_last (a : Archive) (n : String) (b : Blob) (i : Nat) (he : a[i]? = some (n, b)) :
    ∀ k, i < k → k ≤ a.length → (∀ j e, i < j → j < k → a[j]? = some e → e.1 ≠ n) →
      read (a.take k) n = some b := by
  intro k
  induction k with
  | zero => intro hi; omega
  | succ k ih =>
    intro hi hk hl
    have hlt : k < a.length := by omega
    rw [List.take_add_one, List.getElem?_eq_getElem hlt]
    simp only [Option.toList_some]
    rw [read_append_single]
    by_cases hik : i = k
    · subst hik
      rw [List.getElem?_eq_getElem hlt] at he
      have : a[i] = (n, b) := by simpa using he
      simp [this]
    · have hne : a[k].1 ≠ n := hl k a[k] (by omega) (by omega) (List.getElem?_eq_getElem hlt)
      rw [if_neg hne]
      exact ih (by omega) (by omega) (fun j e h1 h2 h3 => hl j e h1 (by omega) h3)

end Kapture.C12
