/-
  Lemmas/C13Text.lean — helper lemmas for the text layer of the COLMAP reconstruction files (Model/C13Text.lean).
-/
import Kapture.Lemmas.Csv
import Kapture.Model.C13Text

namespace Kapture.C13Text
open Kapture.Csv

/-- a token: non-empty, without comma or blank -/
def TokenOK (t : Str) : Prop := t ≠ [] ∧ ∀ c ∈ t, isSep c = false

/-- an image name the format can carry: one or more tokens separated by single spaces -/
def NameOK (name : Str) : Prop := ∃ words, words ≠ [] ∧ (∀ w ∈ words, TokenOK w) ∧ name = spaceJoin words

theorem isSep_space : isSep ' ' = true := by decide

theorem splitSep_ne_nil (s : Str) : splitSep s ≠ [] := by
  cases s with
  | nil => simp [splitSep]
  | cons x xs =>
    unfold splitSep
    split
    · simp
    · split <;> simp

theorem splitSep_none (p : Str) (h : ∀ c ∈ p, isSep c = false) : splitSep p = [p] := by
  induction p with
  | nil => rfl
  | cons x xs ih =>
    have hx := h x (by simp)
    have := ih (fun c hc => h c (List.mem_cons_of_mem _ hc))
    simp [splitSep, hx, this]

theorem splitSep_append_space (p rest : Str) (h : ∀ c ∈ p, isSep c = false) :
    splitSep (p ++ ' ' :: rest) = p :: splitSep rest := by
  induction p with
  | nil => simp [splitSep, isSep_space]
  | cons x xs ih =>
    have hx := h x (by simp)
    have := ih (fun c hc => h c (List.mem_cons_of_mem _ hc))
    simp [splitSep, hx, this]

theorem joinWith_cons_cons (sep p : Str) (q : Str) (t : List Str) : joinWith sep (p :: q :: t) = p ++ sep ++ joinWith sep (q :: t) := rfl

theorem joinWith_cons_of_ne_nil (sep p : Str) (t : List Str) (ht : t ≠ []) : joinWith sep (p :: t) = p ++ sep ++ joinWith sep t := by
  cases t with
  | nil => exact absurd rfl ht
  | cons q t => rfl

theorem splitSep_spaceJoin (ps : List Str) (hne : ps ≠ []) (h : ∀ p ∈ ps, ∀ c ∈ p, isSep c = false) :
    splitSep (spaceJoin ps) = ps := by
  induction ps with
  | nil => exact absurd rfl hne
  | cons p t ih =>
    by_cases ht : t = []
    · subst ht; simpa [spaceJoin, joinWith] using splitSep_none p (h p (by simp))
    · unfold spaceJoin at ih ⊢
      rw [joinWith_cons_of_ne_nil _ _ _ ht, List.append_assoc]
      show splitSep (p ++ ' ' :: joinWith [' '] t) = p :: t
      rw [splitSep_append_space p _ (h p (by simp)), ih ht (fun q hq => h q (List.mem_cons_of_mem _ hq))]

/-- tokenising a line of tokens joined by single spaces gives the tokens back -/
theorem tokens_spaceJoin (ps : List Str) (h : ∀ p ∈ ps, TokenOK p) : tokens (spaceJoin ps) = ps := by
  by_cases hne : ps = []
  · subst hne; rfl
  · unfold tokens
    rw [splitSep_spaceJoin ps hne (fun p hp => (h p hp).2), List.filter_eq_self]
    intro p hp
    have := (h p hp).1
    cases p with
    | nil => exact absurd rfl this
    | cons _ _ => rfl

/-- a name made of several words is, inside a line, just more tokens -/
theorem spaceJoin_append_words (pre words : List Str) (hw : words ≠ []) :
    spaceJoin (pre ++ [spaceJoin words]) = spaceJoin (pre ++ words) := by
  induction pre with
  | nil => simp [spaceJoin, joinWith]
  | cons p t ih =>
    unfold spaceJoin at ih ⊢
    rw [List.cons_append, List.cons_append, joinWith_cons_of_ne_nil _ _ _ (by simp), joinWith_cons_of_ne_nil _ _ _ (by simp [hw]), ih]

theorem spaceJoin_last (pre : List Str) (w : Str) : ∃ front, spaceJoin (pre ++ [w]) = front ++ w := by
  induction pre with
  | nil => exact ⟨[], by simp [spaceJoin, joinWith]⟩
  | cons p t ih =>
    obtain ⟨front, hf⟩ := ih
    refine ⟨p ++ [' '] ++ front, ?_⟩
    unfold spaceJoin at hf ⊢
    rw [List.cons_append, joinWith_cons_of_ne_nil _ _ _ (by simp), hf]
    simp

theorem rstrip_eq_self (init : Str) (c : Char) (hc : isPySpace c = false) : rstrip (init ++ [c]) = init ++ [c] := by
  unfold rstrip
  rw [List.reverse_append]
  simp only [List.reverse_cons, List.reverse_nil, List.nil_append, List.cons_append]
  rw [List.dropWhile_cons_of_neg (by simp [hc])]
  simp

theorem isSep_false_space {c : Char} (h : isSep c = false) : isPySpace c = false := by
  unfold isSep at h
  simp only [Bool.or_eq_false_iff] at h
  exact h.2

theorem tokenOK_showInt (i : Int) : TokenOK (showInt i) := by
  refine ⟨showInt_ne_nil i, fun c hc => ?_⟩
  have := (showInt_chars i c hc).facts
  unfold isSep
  simp [this.1, this.2.2.2.2]

/-- a line that ends with a token is not touched by rstrip -/
theorem rstrip_spaceJoin (pre : List Str) (w : Str) (hw : TokenOK w) : rstrip (spaceJoin (pre ++ [w])) = spaceJoin (pre ++ [w]) := by
  obtain ⟨front, hf⟩ := spaceJoin_last pre w
  rw [hf]
  obtain ⟨hne, hc⟩ := hw
  obtain ⟨init, c, rfl⟩ : ∃ init c, w = init ++ [c] := by
    rcases List.eq_nil_or_concat w with e | ⟨l, c, e⟩
    · exact absurd e hne
    · exact ⟨l, c, by simpa using e⟩
  rw [← List.append_assoc]
  exact rstrip_eq_self _ c (isSep_false_space (hc c (by simp)))

/-! ### lines -/

theorem splitOnChar_unlines (ls : List Str) (h : ∀ l ∈ ls, '\n' ∉ l) : splitOnChar '\n' (unlines ls) = ls ++ [[]] := by
  induction ls with
  | nil => rfl
  | cons l t ih =>
    unfold unlines at ih ⊢
    simp only [List.flatMap_cons, List.append_assoc, List.singleton_append]
    rw [splitOnChar_append_sep '\n' l _ (h l (by simp)), ih (fun l' hl' => h l' (List.mem_cons_of_mem _ hl'))]
    rfl

theorem linesOf_unlines (ls : List Str) (h : ∀ l ∈ ls, '\n' ∉ l) : linesOf (unlines ls) = ls := by
  unfold linesOf
  rw [splitOnChar_unlines ls h]
  simp

theorem newline_isSep : isSep '\n' = true := by decide

theorem no_newline_of_tokens (ps : List Str) (h : ∀ p ∈ ps, ∀ c ∈ p, isSep c = false) : '\n' ∉ spaceJoin ps := by
  induction ps with
  | nil => simp [spaceJoin, joinWith]
  | cons p t ih =>
    by_cases ht : t = []
    · subst ht
      simp only [spaceJoin, joinWith]
      intro hm
      have := h p (by simp) '\n' hm
      rw [newline_isSep] at this; cases this
    · unfold spaceJoin at ih ⊢
      rw [joinWith_cons_of_ne_nil _ _ _ ht]
      intro hm
      rcases List.mem_append.1 hm with hm | hm
      · rcases List.mem_append.1 hm with hm | hm
        · have := h p (by simp) '\n' hm
          rw [newline_isSep] at this; cases this
        · simp at hm
      · exact ih (fun q hq => h q (List.mem_cons_of_mem _ hq)) hm

theorem head_spaceJoin_cons (p : Str) (t : List Str) (hp : p ≠ []) : (spaceJoin (p :: t)).head? = p.head? := by
  cases p with
  | nil => exact absurd rfl hp
  | cons x xs =>
    cases t with
    | nil => rfl
    | cons q t => rfl

end Kapture.C13Text
