/-
  Lemmas/C07.lean — abstraction, invariant and specification functions for C07, plus helper lemmas.
  (Property theorems are in Props/C07.lean.)
-/
import Kapture.Model.C07

namespace Kapture.C07
open Kapture Kapture.Sort

variable {P : Type}

/-- what a plain two-level map holds: which timestamps exist and the entry under (timestamp, device) -/
structure Abs (P : Type) where
  present : Int → Bool
  entry : Int → String → Option P

theorem Abs.ext' {a b : Abs P} (h1 : ∀ t, a.present t = b.present t) (h2 : ∀ t d, a.entry t d = b.entry t d) : a = b := by
  cases a; cases b
  simp only [Abs.mk.injEq]
  exact ⟨funext h1, funext (fun t => funext (h2 t))⟩

/-- abstraction function: forget insertion order and the cache -/
def abs (s : State P) : Abs P := ⟨fun ts => Dict.has ts s.data, entry s⟩

/-- representation invariant: keys are unique on both levels and the cache is either invalid (`[]`) or the sorted keys -/
def Inv (s : State P) : Prop :=
  (Dict.keys s.data).Nodup ∧
  (∀ ts inner, Dict.get? ts s.data = some inner → (Dict.keys inner).Nodup) ∧
  (s.cache = [] ∨ s.cache = isort (Dict.keys s.data))

/-- the sorted timestamp list is characterised by the content alone -/
def SortedKeys (a : Abs P) (l : List Int) : Prop :=
  l.Pairwise (· < ·) ∧ ∀ t, t ∈ l ↔ a.present t = true

-- plain-map semantics of the mutating operations ------------------------------------------------------------------

def Abs.setPair (a : Abs P) (ts : Int) (dev : String) (p : P) : Abs P :=
  ⟨fun t => decide (t = ts) || a.present t, fun t d => if t = ts ∧ d = dev then some p else a.entry t d⟩

def Abs.setTs (a : Abs P) (ts : Int) (inner : List (String × P)) : Abs P :=
  ⟨fun t => decide (t = ts) || a.present t,
   fun t d => if t = ts then Dict.get? d (Dict.ofList inner) else a.entry t d⟩

def Abs.delTs (a : Abs P) (ts : Int) : Abs P :=
  ⟨fun t => !decide (t = ts) && a.present t, fun t d => if t = ts then none else a.entry t d⟩

/-- deleting one entry: the entry disappears, and its timestamp disappears with it iff it held nothing else -/
def Abs.DelPair (a a' : Abs P) (ts : Int) (dev : String) : Prop :=
  (∀ t d, a'.entry t d = if t = ts ∧ d = dev then none else a.entry t d) ∧
  (∀ t, t ≠ ts → a'.present t = a.present t) ∧
  (a'.present ts = true ↔ ∃ d, d ≠ dev ∧ (a.entry ts d).isSome = true)

/-- the wording of the property for interpolation, on a plain map with sorted timestamp list `l`:
  stored pose if any; else the interpolant of the nearest earlier and the nearest later timestamps carrying the
  device, when both are within `maxI`; else nothing. -/
def interpSpec (a : Abs P) (l : List Int) (ts : Int) (dev : String) (maxI : Int) : Out P :=
  match a.entry ts dev with
  | some p => Out.pose p
  | none =>
    let lo? := (l.filter (fun t => decide (t < ts) && (a.entry t dev).isSome)).getLast?
    let up? := (l.filter (fun t => decide (t > ts) && (a.entry t dev).isSome)).head?
    match lo?, up? with
    | some lo, some up =>
      if ts - lo ≤ maxI ∧ up - ts ≤ maxI then
        match a.entry lo dev, a.entry up dev with
        | some lp, some upp => Out.interp lo lp up upp ts
        | _, _ => Out.none
      else Out.none
    | _, _ => Out.none

/-- number of decimal digits of a natural number, the reference for `num_digits` -/
def digitsRef (n : Nat) : Nat := if n < 10 then 1 else 1 + digitsRef (n / 10)

/-- `timestamp_length` on non-negative timestamps: the common digit count, or -1 -/
def tsLengthSpec (l : List Int) : Out P :=
  match l with
  | [] => Out.int (-1)
  | h :: t => if t.all (fun x => digitsRef x.natAbs = digitsRef h.natAbs) then Out.int (digitsRef h.natAbs) else Out.int (-1)

def isQuery : Op P → Bool
  | Op.hasPair .. | Op.hasTs .. | Op.getPair .. | Op.sortedList | Op.tsLength | Op.keyPairs | Op.interp .. => true
  | _ => false

/-- queries whose answer must not depend on insertion order (key_pairs lists pairs in insertion order) -/
def isOrderFreeQuery : Op P → Bool
  | Op.keyPairs => false
  | op => isQuery op


-- =====================================================================================================================
-- helper lemmas
-- =====================================================================================================================

-- Dict facts not in Base/Dict.lean ---------------------------------------------------------------------------------

theorem dict_keys_set_of_mem {κ ν : Type} [DecidableEq κ] (k : κ) (v : ν) (l : List (κ × ν))
    (h : k ∈ Dict.keys l) : Dict.keys (Dict.set k v l) = Dict.keys l := by
  induction l with
  | nil => simp [Dict.keys] at h
  | cons hd t ih =>
    obtain ⟨k', v'⟩ := hd
    simp only [Dict.set]
    split
    · next he => subst he; simp [Dict.keys]
    · next hne =>
      simp only [Dict.keys, List.map_cons, List.mem_cons] at h ⊢
      rcases h with h | h
      · exact absurd h.symm hne
      · have := ih h
        simp only [Dict.keys] at this
        rw [this]

theorem dict_has_eq {κ ν : Type} [DecidableEq κ] (k : κ) (l : List (κ × ν)) :
    Dict.has k l = (Dict.get? k l).isSome := rfl

theorem dict_mem_keys_of_get? {κ ν : Type} [DecidableEq κ] (k : κ) (v : ν) (l : List (κ × ν))
    (h : Dict.get? k l = some v) : k ∈ Dict.keys l := by
  rw [Dict.mem_keys_iff, h]; rfl

-- refresh -----------------------------------------------------------------------------------------------------------

theorem refresh_data (s : State P) : (refresh s).data = s.data := by
  unfold refresh
  split <;> rfl

theorem refresh_cache (s : State P) (h : Inv s) : (refresh s).cache = isort (Dict.keys s.data) := by
  unfold refresh
  split
  · rfl
  · next hne =>
    rcases h.2.2 with h3 | h3
    · rw [h3] at hne; simp at hne
    · exact h3

theorem entry_refresh (s : State P) : entry (refresh s) = entry s := by
  funext ts dev
  simp only [entry, refresh_data]

theorem abs_refresh (s : State P) : abs (refresh s) = abs s := by
  simp only [abs, entry_refresh, refresh_data]

theorem inv_refresh (s : State P) (h : Inv s) : Inv (refresh s) := by
  refine ⟨?_, ?_, ?_⟩
  · rw [refresh_data]; exact h.1
  · rw [refresh_data]; exact h.2.1
  · right; rw [refresh_cache s h, refresh_data]

-- the invariant ---------------------------------------------------------------------------------------------------------

theorem inv_init' : Inv (init : State P) := by
  refine ⟨?_, ?_, Or.inl rfl⟩
  · simp [init, Dict.keys]
  · intro ts inner hi
    simp [init] at hi

theorem interpolate_fst (s : State P) (ts : Int) (dev : String) (maxI : Int) :
    (interpolate s ts dev maxI).1 = s ∨ (interpolate s ts dev maxI).1 = refresh s := by
  unfold interpolate
  split
  · left; rfl
  · right; rfl

theorem inv_step' (s : State P) (op : Op P) (h : Inv s) : Inv (step s op).1 := by
  obtain ⟨h1, h2, h3⟩ := h
  cases op with
  | setPair ts dev p =>
    simp only [step]
    refine ⟨Dict.nodup_set _ _ _ h1, ?_, Or.inl rfl⟩
    intro t inner hi
    simp only [] at hi
    rw [Dict.get?_set] at hi
    split at hi
    · injection hi with hi; subst hi
      apply Dict.nodup_set
      cases hg : Dict.get? ts s.data with
      | none => simp [Dict.keys]
      | some i => exact h2 _ _ hg
    · exact h2 _ _ hi
  | setTs ts inner =>
    simp only [step]
    refine ⟨Dict.nodup_set _ _ _ h1, ?_, Or.inl rfl⟩
    intro t inner' hi
    simp only [] at hi
    rw [Dict.get?_set] at hi
    split at hi
    · injection hi with hi; subst hi
      exact Dict.nodup_ofList _
    · exact h2 _ _ hi
  | delPair ts dev =>
    simp only [step]
    split
    · exact ⟨h1, h2, h3⟩
    · next inner hg =>
      split
      · split
        · refine ⟨Dict.nodup_erase _ _ h1, ?_, Or.inl rfl⟩
          intro t inner' hi
          simp only [] at hi
          rw [Dict.get?_erase _ _ _ h1] at hi
          split at hi
          · cases hi
          · exact h2 _ _ hi
        · refine ⟨Dict.nodup_set _ _ _ h1, ?_, ?_⟩
          · intro t inner' hi
            simp only [] at hi
            rw [Dict.get?_set] at hi
            split at hi
            · injection hi with hi; subst hi
              exact Dict.nodup_erase _ _ (h2 _ _ hg)
            · exact h2 _ _ hi
          · simp only []
            rw [dict_keys_set_of_mem _ _ _ (dict_mem_keys_of_get? _ _ _ hg)]
            exact h3
      · exact ⟨h1, h2, h3⟩
  | delTs ts =>
    simp only [step]
    split
    · refine ⟨Dict.nodup_erase _ _ h1, ?_, Or.inl rfl⟩
      intro t inner' hi
      simp only [] at hi
      rw [Dict.get?_erase _ _ _ h1] at hi
      split at hi
      · cases hi
      · exact h2 _ _ hi
    · exact ⟨h1, h2, h3⟩
  | hasPair ts dev => exact ⟨h1, h2, h3⟩
  | hasTs ts => exact ⟨h1, h2, h3⟩
  | getPair ts dev =>
    simp only [step]
    split <;> exact ⟨h1, h2, h3⟩
  | sortedList => exact inv_refresh s ⟨h1, h2, h3⟩
  | tsLength => exact inv_refresh s ⟨h1, h2, h3⟩
  | keyPairs => exact ⟨h1, h2, h3⟩
  | interp ts dev maxI =>
    simp only [step]
    rcases interpolate_fst s ts dev maxI with e | e
    · rw [e]; exact ⟨h1, h2, h3⟩
    · rw [e]; exact inv_refresh s ⟨h1, h2, h3⟩

theorem inv_run (s : State P) (ops : List (Op P)) (h : Inv s) : Inv (run s ops).1 := by
  induction ops generalizing s with
  | nil => exact h
  | cons op ops ih =>
    simp only [run]
    exact ih _ (inv_step' s op h)

-- refinement ------------------------------------------------------------------------------------------------------------

theorem setPair_refines' (s : State P) (ts : Int) (dev : String) (p : P) :
    abs (step s (Op.setPair ts dev p)).1 = (abs s).setPair ts dev p ∧ (step s (Op.setPair ts dev p)).2 = Out.ok := by
  refine ⟨?_, rfl⟩
  apply Abs.ext'
  · intro t
    simp only [abs, step, Abs.setPair, dict_has_eq, Dict.get?_set]
    by_cases e : t = ts <;> simp [e]
  · intro t d
    simp only [abs, step, Abs.setPair, entry, Dict.get?_set]
    by_cases e : t = ts
    · subst e
      simp only [if_true, Option.bind_some, Dict.get?_set, true_and]
      by_cases e2 : d = dev
      · simp [e2]
      · simp only [e2, if_false]
        cases Dict.get? t s.data <;> simp
    · simp [e]

theorem setTs_refines' (s : State P) (ts : Int) (inner : List (String × P)) :
    abs (step s (Op.setTs ts inner)).1 = (abs s).setTs ts inner ∧ (step s (Op.setTs ts inner)).2 = Out.ok := by
  refine ⟨?_, rfl⟩
  apply Abs.ext'
  · intro t
    simp only [abs, step, Abs.setTs, dict_has_eq, Dict.get?_set]
    by_cases e : t = ts <;> simp [e]
  · intro t d
    simp only [abs, step, Abs.setTs, entry, Dict.get?_set]
    by_cases e : t = ts <;> simp [e]

theorem delTs_refines' (s : State P) (ts : Int) (h : Inv s) :
    if (abs s).present ts then
      abs (step s (Op.delTs ts)).1 = (abs s).delTs ts ∧ (step s (Op.delTs ts)).2 = Out.ok
    else step s (Op.delTs ts) = (s, Out.keyError) := by
  by_cases hp : Dict.has ts s.data = true
  · have hp' : (abs s).present ts = true := hp
    rw [if_pos hp']
    simp only [step, hp, if_true]
    refine ⟨?_, trivial⟩
    apply Abs.ext'
    · intro t
      simp only [abs, Abs.delTs, dict_has_eq, Dict.get?_erase _ _ _ h.1]
      by_cases e : t = ts <;> simp [e]
    · intro t d
      simp only [abs, Abs.delTs, entry, Dict.get?_erase _ _ _ h.1]
      by_cases e : t = ts <;> simp [e]
  · have hp' : ¬ (abs s).present ts = true := hp
    rw [if_neg hp']
    simp only [step, hp]
    rfl

theorem delPair_refines' (s : State P) (ts : Int) (dev : String) (h : Inv s) :
    if ((abs s).entry ts dev).isSome then
      Abs.DelPair (abs s) (abs (step s (Op.delPair ts dev)).1) ts dev ∧ (step s (Op.delPair ts dev)).2 = Out.ok
    else step s (Op.delPair ts dev) = (s, Out.keyError) := by
  obtain ⟨h1, h2, h3⟩ := h
  cases hg : Dict.get? ts s.data with
  | none =>
    have : (abs s).entry ts dev = none := by simp [abs, entry, hg]
    rw [this]
    simp [step, hg]
  | some inner =>
    have hent : ∀ d, (abs s).entry ts d = Dict.get? d inner := by intro d; simp [abs, entry, hg]
    rw [hent]
    have hni := h2 _ _ hg
    by_cases hd : Dict.has dev inner = true
    · have hd' : (Dict.get? dev inner).isSome = true := hd
      rw [if_pos hd']
      have hk : dev ∈ Dict.keys inner := (Dict.mem_keys_iff _ _).mpr hd'
      by_cases hemp : (Dict.erase dev inner).isEmpty = true
      · have hstep : step s (Op.delPair ts dev) = ({ data := Dict.erase ts s.data, cache := [] }, Out.ok) := by
          simp only [step, hg, hd, hemp, if_true]
        rw [hstep]
        have hnil : Dict.erase dev inner = [] := by simpa using hemp
        have hothers := (Dict.erase_eq_nil_iff dev inner hni hk).mp hnil
        refine ⟨⟨?_, ?_, ?_⟩, rfl⟩
        · intro t d
          simp only [abs, entry, Dict.get?_erase _ _ _ h1]
          by_cases e : t = ts
          · subst e
            simp only [if_true, true_and, Option.bind_none, hg, Option.bind_some]
            by_cases e2 : d = dev
            · simp [e2]
            · simp [e2, hothers d e2]
          · simp [e]
        · intro t hne
          simp only [abs, dict_has_eq, Dict.get?_erase _ _ _ h1, hne, if_false]
        · simp only [abs, dict_has_eq, Dict.get?_erase _ _ _ h1, if_true]
          constructor
          · intro hc; simp at hc
          · rintro ⟨d, hne, hs⟩
            have := hent d
            simp only [abs] at this
            rw [this, hothers d hne] at hs
            simp at hs
      · have hstep : step s (Op.delPair ts dev) =
            ({ s with data := Dict.set ts (Dict.erase dev inner) s.data }, Out.ok) := by
          simp only [step, hg, hd, hemp, if_true]
          rfl
        rw [hstep]
        refine ⟨⟨?_, ?_, ?_⟩, rfl⟩
        · intro t d
          simp only [abs, entry, Dict.get?_set]
          by_cases e : t = ts
          · subst e
            simp only [if_true, true_and, hg, Option.bind_some, Dict.get?_erase _ _ _ hni]
          · simp [e]
        · intro t hne
          simp only [abs, dict_has_eq, Dict.get?_set, hne, if_false]
        · simp only [abs, dict_has_eq, Dict.get?_set, if_true, Option.isSome_some, true_iff]
          cases he : Dict.erase dev inner with
          | nil => rw [he] at hemp; simp at hemp
          | cons hd' tl =>
            obtain ⟨k, v⟩ := hd'
            have hm : k ∈ Dict.keys (Dict.erase dev inner) := by rw [he]; simp [Dict.keys]
            have := (Dict.keys_erase_mem dev k inner hni).mp hm
            refine ⟨k, this.1, ?_⟩
            have e2 := hent k
            simp only [abs] at e2
            rw [e2]
            exact (Dict.mem_keys_iff _ _).mp this.2
    · have hd' : ¬ (Dict.get? dev inner).isSome = true := hd
      rw [if_neg hd']
      simp only [step, hg, hd]
      rfl

-- queries ---------------------------------------------------------------------------------------------------------------

theorem query_keeps_content' (s : State P) (op : Op P) (hq : isQuery op = true) :
    abs (step s op).1 = abs s := by
  cases op with
  | setPair ts dev p => simp [isQuery] at hq
  | setTs ts inner => simp [isQuery] at hq
  | delPair ts dev => simp [isQuery] at hq
  | delTs ts => simp [isQuery] at hq
  | hasPair ts dev => rfl
  | hasTs ts => rfl
  | getPair ts dev =>
    simp only [step]
    split <;> rfl
  | sortedList => exact abs_refresh s
  | tsLength => exact abs_refresh s
  | keyPairs => rfl
  | interp ts dev maxI =>
    simp only [step]
    rcases interpolate_fst s ts dev maxI with e | e
    · rw [e]
    · rw [e]; exact abs_refresh s

theorem hasPair_spec' (s : State P) (ts : Int) (dev : String) :
    (step s (Op.hasPair ts dev)).2 = Out.bool ((abs s).entry ts dev).isSome := by
  simp only [step, abs, entry]
  cases Dict.get? ts s.data <;> rfl

theorem getPair_spec' (s : State P) (ts : Int) (dev : String) :
    (step s (Op.getPair ts dev)).2 = (match (abs s).entry ts dev with | some p => Out.pose p | none => Out.keyError) := by
  cases h : entry s ts dev <;> simp only [step, abs, h]

-- key_pairs

theorem keyPairsOf_cons (k : Int) (inner : Inner P) (r : Data P) :
    keyPairsOf ((k, inner) :: r) = (Dict.keys inner).map (fun dev => (k, dev)) ++ keyPairsOf r := by
  simp [keyPairsOf]

theorem keyPairsOf_mem_key (d : Data P) (t : Int) (dv : String) (h : (t, dv) ∈ keyPairsOf d) : t ∈ Dict.keys d := by
  induction d with
  | nil => simp [keyPairsOf] at h
  | cons hd r ih =>
    obtain ⟨k, inner⟩ := hd
    rw [keyPairsOf_cons, List.mem_append] at h
    simp only [Dict.keys, List.map_cons, List.mem_cons]
    rcases h with h | h
    · simp only [List.mem_map, Prod.mk.injEq] at h
      obtain ⟨_, _, e, _⟩ := h
      exact Or.inl e.symm
    · exact Or.inr (ih h)

theorem keyPairsOf_mem (d : Data P) (hn : (Dict.keys d).Nodup) (t : Int) (dv : String) :
    (t, dv) ∈ keyPairsOf d ↔ ((Dict.get? t d).bind (Dict.get? dv)).isSome = true := by
  induction d with
  | nil => simp [keyPairsOf]
  | cons hd r ih =>
    obtain ⟨k, inner⟩ := hd
    simp only [Dict.keys, List.map_cons, List.nodup_cons] at hn
    rw [keyPairsOf_cons, List.mem_append]
    simp only [Dict.get?]
    by_cases e : k = t
    · subst e
      simp only [if_true, Option.bind_some]
      rw [← Dict.mem_keys_iff]
      constructor
      · rintro (h | h)
        · obtain ⟨x, hx, e⟩ := List.mem_map.mp h
          injection e with _ e
          exact e ▸ hx
        · exact absurd (keyPairsOf_mem_key r k dv h) hn.1
      · intro h
        left
        exact List.mem_map.mpr ⟨dv, h, rfl⟩
    · simp only [e, if_false]
      rw [← ih hn.2]
      constructor
      · rintro (h | h)
        · simp only [List.mem_map, Prod.mk.injEq] at h
          obtain ⟨_, _, e', _⟩ := h
          exact absurd e' e
        · exact h
      · intro h; exact Or.inr h

theorem keyPairsOf_nodup (d : Data P) (hn : (Dict.keys d).Nodup)
    (hi : ∀ ts inner, Dict.get? ts d = some inner → (Dict.keys inner).Nodup) : (keyPairsOf d).Nodup := by
  induction d with
  | nil => simp [keyPairsOf]
  | cons hd r ih =>
    obtain ⟨k, inner⟩ := hd
    simp only [Dict.keys, List.map_cons, List.nodup_cons] at hn
    rw [keyPairsOf_cons, List.nodup_append]
    refine ⟨?_, ?_, ?_⟩
    · have hin : (Dict.keys inner).Nodup := hi k inner (by simp [Dict.get?])
      unfold List.Nodup at hin ⊢
      rw [List.pairwise_map]
      exact hin.imp (fun hab e => hab (by injection e))
    · apply ih hn.2
      intro ts inner' hg
      apply hi ts inner'
      simp only [Dict.get?]
      split
      · next e =>
        subst e
        exact absurd (dict_mem_keys_of_get? _ _ _ hg) hn.1
      · exact hg
    · intro a ha b hb e
      subst e
      obtain ⟨t, dv⟩ := a
      simp only [List.mem_map, Prod.mk.injEq] at ha
      obtain ⟨_, _, e', _⟩ := ha
      subst e'
      exact hn.1 (keyPairsOf_mem_key r _ _ hb)

-- sorted list

theorem sortedKeys_isort (s : State P) (h : Inv s) : SortedKeys (abs s) (isort (Dict.keys s.data)) := by
  refine ⟨pairwise_lt_isort _ h.1, ?_⟩
  intro t
  rw [mem_isort, Dict.mem_keys_iff]
  rfl

theorem sortedKeys_unique' (a : Abs P) (l₁ l₂ : List Int) (h₁ : SortedKeys a l₁) (h₂ : SortedKeys a l₂) : l₁ = l₂ := by
  apply sorted_ext _ _ h₁.1 h₂.1
  intro x
  rw [h₁.2, h₂.2]

theorem refresh_cache_eq (s : State P) (l : List Int) (h : Inv s) (hl : SortedKeys (abs s) l) :
    (refresh s).cache = l := by
  rw [refresh_cache s h]
  exact sortedKeys_unique' _ _ _ (sortedKeys_isort s h) hl

-- digit counts ---------------------------------------------------------------------------------------------------------

theorem digitsRef_pos (n : Nat) : 1 ≤ digitsRef n := by
  rw [digitsRef]; split <;> omega

theorem digitsRef_bounds' (n : Nat) (h : 0 < n) : 10 ^ (digitsRef n - 1) ≤ n ∧ n < 10 ^ digitsRef n := by
  induction n using Nat.strongRecOn with
  | ind n ih =>
    rw [digitsRef]
    split
    · next hlt => simp; omega
    · next hge =>
      have hpos : 0 < n / 10 := by omega
      have hih := ih (n/10) (by omega) hpos
      have hd := digitsRef_pos (n/10)
      obtain ⟨d', hd'⟩ : ∃ d', digitsRef (n/10) = d' + 1 := ⟨digitsRef (n/10) - 1, by omega⟩
      rw [hd'] at hih ⊢
      have e1 : 1 + (d' + 1) - 1 = d' + 1 := by omega
      have e2 : 1 + (d' + 1) = d' + 1 + 1 := by omega
      have e3 : d' + 1 - 1 = d' := by omega
      rw [e1, e2]
      rw [e3] at hih
      simp only [Nat.pow_succ] at hih ⊢
      generalize 10 ^ d' = X at *
      omega

theorem digitsRef_mono (a b : Nat) (h : a ≤ b) : digitsRef a ≤ digitsRef b := by
  induction b using Nat.strongRecOn generalizing a with
  | ind b ih =>
    rw [digitsRef.eq_1 a, digitsRef.eq_1 b]
    by_cases hb : b < 10
    · have ha : a < 10 := by omega
      simp [ha, hb]
    · by_cases ha : a < 10
      · simp only [ha, hb, if_true, if_false]; omega
      · simp only [ha, hb, if_false]
        have := ih (b / 10) (by omega) (a / 10) (by omega)
        omega

theorem numDigits_loop (fuel : Nat) (m : Nat) (c : Int) (h : m < fuel) :
    Gen.NumDigits.loop fuel (m : Int) c = c + (digitsRef m : Int) - 1 := by
  induction fuel generalizing m c with
  | zero => omega
  | succ f ih =>
    rw [Gen.NumDigits.loop]
    rw [Int.fdiv_eq_ediv_of_nonneg _ (by decide : (0:Int) ≤ 10)]
    have hdiv : ((m : Int) / 10) = ((m / 10 : Nat) : Int) := by simp
    rw [hdiv, digitsRef]
    by_cases hlt : m < 10
    · have h0 : m / 10 = 0 := by omega
      simp [h0, hlt]
    · have h0 : m / 10 ≠ 0 := by omega
      have h0' : ((m / 10 : Nat) : Int) ≠ 0 := by omega
      simp only [h0', hlt, if_false, ne_eq, not_false_eq_true, decide_true, if_true]
      rw [ih (m/10) _ (by omega)]
      omega

theorem numDigits_spec' (n : Int) : Gen.NumDigits.numDigits n = (digitsRef n.natAbs : Int) := by
  unfold Gen.NumDigits.numDigits
  simp only []
  rw [numDigits_loop _ _ _ (by omega)]
  omega

-- interpolation -----------------------------------------------------------------------------------------------------------

theorem takeWhile_dropWhile_sorted (l : List Int) (ts : Int) (hs : l.Pairwise (· < ·)) :
    l.takeWhile (fun x => decide (x < ts)) = l.filter (fun x => decide (x < ts)) ∧
    l.dropWhile (fun x => decide (x < ts)) = l.filter (fun x => !decide (x < ts)) := by
  induction l with
  | nil => simp
  | cons a t ih =>
    rw [List.pairwise_cons] at hs
    by_cases h : a < ts
    · have := ih hs.2
      simp [h, this.1, this.2]
    · have hall : ∀ x ∈ t, ¬ x < ts := fun x hx => by have := hs.1 x hx; omega
      have f1 : t.filter (fun x => decide (x < ts)) = [] := by
        rw [List.filter_eq_nil_iff]; intro x hx; simpa using hall x hx
      have f2 : t.filter (fun x => !decide (x < ts)) = t := by
        rw [List.filter_eq_self]; intro x hx; simpa using hall x hx
      simp [h, f1, f2]

def nearest (far has : Int → Bool) (xs : List Int) : Option Int :=
  match (xs.filter has).head? with
  | some c => if far c then none else some c
  | none => none

theorem nearest_nil (far has : Int → Bool) : nearest far has [] = none := rfl

theorem nearest_cons (far has : Int → Bool) (x : Int) (xs : List Int) :
    nearest far has (x :: xs) = if has x then (if far x then none else some x) else nearest far has xs := by
  unfold nearest
  by_cases h : has x = true <;> simp [h]

theorem nearest_none_of_far (far has : Int → Bool) (xs : List Int) (h : ∀ c ∈ xs, has c = true → far c = true) :
    nearest far has xs = none := by
  induction xs with
  | nil => rfl
  | cons x xs ih =>
    rw [nearest_cons]
    split
    · next hx => simp [h x (by simp) hx]
    · exact ih (fun c hc => h c (by simp [hc]))

theorem scan_spec (pres has far : Int → Bool) (xs : List Int) (hp : ∀ x ∈ xs, pres x = true)
    (hm : xs.Pairwise (fun x y => far x = true → far y = true)) :
    scan (fun x => if pres x then some (has x) else none) far xs ≠ Scan.err ∧
    (scan (fun x => if pres x then some (has x) else none) far xs = Scan.ranOff → nearest far has xs = none) ∧
    (∀ x, scan (fun x => if pres x then some (has x) else none) far xs = Scan.stop x →
      (far x = true → nearest far has xs = none) ∧ (far x = false → nearest far has xs = some x ∧ has x = true)) := by
  induction xs with
  | nil => simp [scan, nearest_nil]
  | cons x xs ih =>
    rw [List.pairwise_cons] at hm
    have hpx : pres x = true := hp x (by simp)
    have ih' := ih (fun c hc => hp c (by simp [hc])) hm.2
    by_cases hf : far x = true
    · have hs : scan (fun x => if pres x then some (has x) else none) far (x :: xs) = Scan.stop x := by
        simp [scan, hf]
      rw [hs]
      have hn : nearest far has (x :: xs) = none := by
        apply nearest_none_of_far
        intro c hc _
        rcases List.mem_cons.mp hc with e | e
        · rw [e]; exact hf
        · exact hm.1 c e hf
      refine ⟨by simp, by simp, ?_⟩
      intro y hy
      injection hy with hy
      subst hy
      exact ⟨fun _ => hn, fun h => by rw [hf] at h; cases h⟩
    · by_cases hh : has x = true
      · have hs : scan (fun x => if pres x then some (has x) else none) far (x :: xs) = Scan.stop x := by
          simp [scan, hf, hpx, hh]
        rw [hs, nearest_cons]
        refine ⟨by simp, by simp, ?_⟩
        intro y hy
        injection hy with hy
        subst hy
        simp [hf, hh]
      · have hs : scan (fun x => if pres x then some (has x) else none) far (x :: xs) =
            scan (fun x => if pres x then some (has x) else none) far xs := by
          simp [scan, hf, hpx, hh]
        rw [hs, nearest_cons]
        simp only [hh]
        exact ih'

theorem sorted_head_le (l : List Int) (first : Int) (hs : l.Pairwise (· < ·)) (hh : l.head? = some first) :
    ∀ x ∈ l, first ≤ x := by
  cases l with
  | nil => simp at hh
  | cons a t =>
    simp at hh; subst hh
    rw [List.pairwise_cons] at hs
    intro x hx
    rcases List.mem_cons.mp hx with e | e
    · omega
    · have := hs.1 x e; omega

theorem sorted_le_last (l : List Int) (last : Int) (hs : l.Pairwise (· < ·)) (hh : l.getLast? = some last) :
    ∀ x ∈ l, x ≤ last := by
  have hr : (l.reverse).Pairwise (fun a b => b < a) := List.pairwise_reverse.mpr hs
  rw [← List.head?_reverse] at hh
  intro x hx
  have hx' : x ∈ l.reverse := List.mem_reverse.mpr hx
  cases hl : l.reverse with
  | nil => rw [hl] at hx'; simp at hx'
  | cons a t =>
    rw [hl] at hh hr hx'
    simp at hh; subst hh
    rw [List.pairwise_cons] at hr
    rcases List.mem_cons.mp hx' with e | e
    · omega
    · have := hr.1 x e; omega


theorem interpSpec_eq_nearest (ent : Int → String → Option P) (pres : Int → Bool) (l : List Int)
    (ts : Int) (dev : String) (maxI : Int) (hn : ent ts dev = none) :
    interpSpec ⟨pres, ent⟩ l ts dev maxI =
      match nearest (fun x => decide (ts - x > maxI)) (fun t => (ent t dev).isSome)
              (l.filter (fun x => decide (x < ts))).reverse,
            nearest (fun x => decide (x - ts > maxI)) (fun t => (ent t dev).isSome)
              (l.filter (fun x => !decide (x < ts))) with
      | some lo, some up =>
        (match ent lo dev, ent up dev with
         | some lp, some upp => Out.interp lo lp up upp ts
         | _, _ => Out.none)
      | _, _ => Out.none := by
  have e1 : (l.filter (fun t => decide (t < ts) && (ent t dev).isSome)).getLast? =
      (((l.filter (fun x => decide (x < ts))).reverse).filter (fun t => (ent t dev).isSome)).head? := by
    rw [List.filter_reverse, List.head?_reverse, List.filter_filter]
    congr 1
    apply List.filter_congr
    intro x _
    exact Bool.and_comm _ _
  have e2 : (l.filter (fun t => decide (t > ts) && (ent t dev).isSome)).head? =
      ((l.filter (fun x => !decide (x < ts))).filter (fun t => (ent t dev).isSome)).head? := by
    rw [List.filter_filter]
    congr 1
    apply List.filter_congr
    intro x _
    by_cases hx : x = ts
    · subst hx; simp [hn]
    · by_cases h1 : x < ts
      · have : ¬ x > ts := by omega
        simp [h1, this]
      · have : x > ts := by omega
        simp [h1, this]
  simp only [interpSpec, hn, e1, e2, nearest]
  generalize (List.filter (fun t => (ent t dev).isSome) (List.filter (fun x => decide (x < ts)) l).reverse).head? = A
  generalize (List.filter (fun t => (ent t dev).isSome) (List.filter (fun x => !decide (x < ts)) l)).head? = B
  cases A with
  | none => rfl
  | some lo =>
    cases B with
    | none =>
      by_cases h1 : ts - lo > maxI <;> simp [h1]
    | some up =>
      simp only []
      by_cases h1 : ts - lo > maxI
      · have : ¬ (ts - lo ≤ maxI ∧ up - ts ≤ maxI) := by omega
        simp [h1, this]
      · by_cases h2 : up - ts > maxI
        · have : ¬ (ts - lo ≤ maxI ∧ up - ts ≤ maxI) := by omega
          simp only [h1, h2, this, decide_false, Bool.false_eq_true, if_false]
          cases ent lo dev <;> cases ent up dev <;> rfl
        · have : (ts - lo ≤ maxI ∧ up - ts ≤ maxI) := by omega
          simp only [h1, h2, this, decide_false, Bool.false_eq_true, if_false]
          cases ent lo dev <;> cases ent up dev <;> rfl

theorem interpCore_eq (ent : Int → String → Option P) (pres : Int → Bool) (l : List Int)
    (ts : Int) (dev : String) (maxI : Int)
    (hs : l.Pairwise (· < ·)) (hp : ∀ x ∈ l, pres x = true) (hn : ent ts dev = none) :
    interpCore ent pres l ts dev maxI = interpSpec ⟨pres, ent⟩ l ts dev maxI := by
  rw [interpSpec_eq_nearest ent pres l ts dev maxI hn]
  unfold interpCore
  simp only []
  obtain ⟨tw, dw⟩ := takeWhile_dropWhile_sorted l ts hs
  rw [tw, dw]
  split
  · next first last hf hl =>
    have hfirst := sorted_head_le l first hs hf
    have hlast := sorted_le_last l last hs hl
    have hfm : first ∈ l := List.mem_of_head? hf
    have hlm : last ∈ l := List.mem_of_getLast? hl
    by_cases hg : (decide (l.length < 2) || decide (ts ≤ first) || decide (ts ≥ last)) = true
    · rw [if_pos hg]
      have hg' : ts ≤ first ∨ ts ≥ last := by
        simp only [Bool.or_eq_true, decide_eq_true_eq] at hg
        rcases hg with (hg | hg) | hg
        · have := hfirst last hlm
          have := hlast first hfm
          cases l with
          | nil => simp at hf
          | cons a t =>
            cases t with
            | nil => simp at hf hl; omega
            | cons b t' => simp at hg; omega
        · exact Or.inl hg
        · exact Or.inr hg
      rcases hg' with hg' | hg'
      · have : l.filter (fun x => decide (x < ts)) = [] := by
          rw [List.filter_eq_nil_iff]
          intro x hx
          have := hfirst x hx
          simp only [decide_eq_true_eq]; omega
        rw [this]
        rfl
      · have : nearest (fun x => decide (x - ts > maxI)) (fun t => (ent t dev).isSome)
            (l.filter (fun x => !decide (x < ts))) = none := by
          unfold nearest
          have : (l.filter (fun x => !decide (x < ts))).filter (fun t => (ent t dev).isSome) = [] := by
            rw [List.filter_eq_nil_iff]
            intro x hx
            rw [List.mem_filter] at hx
            have h1 := hlast x hx.1
            have h2 := hx.2
            simp only [Bool.not_eq_true', decide_eq_false_iff_not] at h2
            have : x = ts := by omega
            rw [this, hn]; simp
          rw [this]; rfl
        rw [this]
        split <;> first | rfl | (next h => simp at h)
    · rw [if_neg hg]
      have hg1 : first < ts := by
        simp only [Bool.or_eq_true, decide_eq_true_eq] at hg; omega
      have hg2 : ts < last := by
        simp only [Bool.or_eq_true, decide_eq_true_eq] at hg; omega
      have hmB : first ∈ (l.filter (fun x => decide (x < ts))).reverse := by
        rw [List.mem_reverse, List.mem_filter]; exact ⟨hfm, by simpa using hg1⟩
      have hmA : last ∈ l.filter (fun x => !decide (x < ts)) := by
        rw [List.mem_filter]; exact ⟨hlm, by simp; omega⟩
      have hpB : ∀ x ∈ (l.filter (fun x => decide (x < ts))).reverse, pres x = true := by
        intro x hx
        rw [List.mem_reverse, List.mem_filter] at hx
        exact hp x hx.1
      have hpA : ∀ x ∈ l.filter (fun x => !decide (x < ts)), pres x = true := by
        intro x hx
        rw [List.mem_filter] at hx
        exact hp x hx.1
      have hfB : (l.filter (fun x => decide (x < ts))).reverse.Pairwise
          (fun x y => (fun x => decide (ts - x > maxI)) x = true → (fun x => decide (ts - x > maxI)) y = true) := by
        rw [List.pairwise_reverse]
        apply (hs.filter _).imp
        intro a b hab h
        simp only [decide_eq_true_eq] at h ⊢
        omega
      have hfA : (l.filter (fun x => !decide (x < ts))).Pairwise
          (fun x y => (fun x => decide (x - ts > maxI)) x = true → (fun x => decide (x - ts > maxI)) y = true) := by
        apply (hs.filter _).imp
        intro a b hab h
        simp only [decide_eq_true_eq] at h ⊢
        omega
      have sB := scan_spec pres (fun t => (ent t dev).isSome) (fun x => decide (ts - x > maxI)) _ hpB hfB
      have sA := scan_spec pres (fun t => (ent t dev).isSome) (fun x => decide (x - ts > maxI)) _ hpA hfA
      generalize hB : (l.filter (fun x => decide (x < ts))).reverse = B at *
      generalize hA : l.filter (fun x => !decide (x < ts)) = A at *
      cases B with
      | nil => simp at hmB
      | cons b bs =>
        cases A with
        | nil => simp at hmA
        | cons a as =>
          simp only []
          generalize scan _ _ (b :: bs) = rB at sB ⊢
          generalize nearest _ _ (b :: bs) = nB at sB ⊢
          generalize scan _ _ (a :: as) = rA at sA ⊢
          generalize nearest _ _ (a :: as) = nA at sA ⊢
          obtain ⟨sB1, sB2, sB3⟩ := sB
          obtain ⟨sA1, sA2, sA3⟩ := sA
          cases rB with
          | err => exact absurd rfl sB1
          | ranOff => rw [sB2 rfl]
          | stop prev =>
            obtain ⟨pf, pn⟩ := sB3 prev rfl
            simp only []
            by_cases hfp : ts - prev > maxI
            · rw [if_pos hfp, pf (by simpa using hfp)]
            · rw [if_neg hfp]
              obtain ⟨hnB, hprev⟩ := pn (by simpa using hfp)
              rw [hnB]
              cases rA with
              | err => exact absurd rfl sA1
              | ranOff => rw [sA2 rfl]
              | stop next =>
                obtain ⟨qf, qn⟩ := sA3 next rfl
                simp only []
                by_cases hfn : next - ts > maxI
                · rw [if_pos hfn, qf (by simpa using hfn)]
                · rw [if_neg hfn]
                  obtain ⟨hnA, hnext⟩ := qn (by simpa using hfn)
                  rw [hnA]
                  simp only []
                  cases hep : ent prev dev with
                  | none => rw [hep] at hprev; simp at hprev
                  | some lp =>
                    cases hen : ent next dev with
                    | none => rw [hen] at hnext; simp at hnext
                    | some up => rfl
  · next hne =>
    cases l with
    | nil => rfl
    | cons a t => exact (hne a ((a :: t).getLast (by simp)) rfl (List.getLast?_eq_some_getLast _)).elim

theorem interp_spec' (s : State P) (ts : Int) (dev : String) (maxI : Int) (l : List Int) (h : Inv s)
    (hl : SortedKeys (abs s) l) :
    (step s (Op.interp ts dev maxI)).2 = interpSpec (abs s) l ts dev maxI := by
  simp only [step, interpolate]
  cases he : entry s ts dev with
  | some p => simp only [interpSpec, abs, he]
  | none =>
    simp only []
    rw [refresh_cache_eq s l h hl, entry_refresh, refresh_data]
    exact interpCore_eq (entry s) (fun x => Dict.has x s.data) l ts dev maxI hl.1 (fun x hx => (hl.2 x).mp hx) he

theorem interpSpec_ne (a : Abs P) (l : List Int) (ts : Int) (dev : String) (maxI : Int) :
    interpSpec a l ts dev maxI ≠ Out.keyError ∧ interpSpec a l ts dev maxI ≠ Out.indexError := by
  unfold interpSpec
  cases a.entry ts dev with
  | some p => simp
  | none =>
    simp only []
    generalize (List.filter (fun t => decide (t < ts) && (a.entry t dev).isSome) l).getLast? = A
    generalize (List.filter (fun t => decide (t > ts) && (a.entry t dev).isSome) l).head? = B
    cases A with
    | none => simp
    | some lo =>
      cases B with
      | none => simp
      | some up =>
        simp only []
        split
        · cases a.entry lo dev <;> cases a.entry up dev <;> simp
        · simp

theorem interp_total' (s : State P) (ts : Int) (dev : String) (maxI : Int) (h : Inv s) :
    (step s (Op.interp ts dev maxI)).2 ≠ Out.keyError ∧ (step s (Op.interp ts dev maxI)).2 ≠ Out.indexError := by
  rw [interp_spec' s ts dev maxI _ h (sortedKeys_isort s h)]
  exact interpSpec_ne _ _ _ _ _

-- timestamp_length ---------------------------------------------------------------------------------------------------------

theorem pyIndex_some_mem (l : List Int) (i : Int)
    (h : (0 ≤ i ∧ i < (l.length : Int)) ∨ (i < 0 ∧ -i ≤ (l.length : Int))) :
    ∃ x, pyIndex l i = some x ∧ x ∈ l := by
  unfold pyIndex
  rcases h with ⟨h1, h2⟩ | ⟨h1, h2⟩
  · have hlt : i.toNat < l.length := by omega
    rw [if_pos (by omega), List.getElem?_eq_getElem hlt]
    exact ⟨_, rfl, List.getElem_mem _⟩
  · have hle : (-i).toNat ≤ l.length := by omega
    have hlt : l.length - (-i).toNat < l.length := by omega
    rw [if_neg (by omega), if_pos hle, List.getElem?_eq_getElem hlt]
    exact ⟨_, rfl, List.getElem_mem _⟩

theorem pyIndex_neg_one (l : List Int) (h : l ≠ []) : pyIndex l (-1) = l.getLast? := by
  have hlen : 0 < l.length := List.length_pos_iff.mpr h
  unfold pyIndex
  rw [if_neg (by omega)]
  have e : (-(-1 : Int)).toNat = 1 := by decide
  rw [e, if_pos (by omega), List.getLast?_eq_getElem?]

theorem pyIndex_ofNat_last (l : List Int) : pyIndex l (Int.ofNat (l.length - 1)) = l.getLast? := by
  unfold pyIndex
  rw [if_pos (by simp), List.getLast?_eq_getElem?]
  rfl

theorem lengthIndexes_small (m : Nat) (h : m + 1 ≤ 10) :
    lengthIndexes (m + 1) = (List.range m).map (fun k => Int.ofNat (k + 1)) := by
  unfold lengthIndexes
  rw [if_neg (by omega), List.range_succ_eq_map]
  simp [List.map_map, Function.comp_def]

theorem go_all (l : List Int) (base : Int) (is : List Int)
    (h : ∀ i ∈ is, ∃ x, pyIndex l i = some x ∧ Gen.NumDigits.numDigits x = base) :
    tsLengthOf.go (P := P) l base is = Out.int base := by
  induction is with
  | nil => rfl
  | cons i is ih =>
    obtain ⟨x, hx, hd⟩ := h i (by simp)
    rw [tsLengthOf.go]
    simp only [hx, hd, ne_eq, not_true_eq_false, if_false]
    exact ih (fun j hj => h j (by simp [hj]))

theorem go_some (l : List Int) (base : Int) (is : List Int)
    (hall : ∀ i ∈ is, ∃ x, pyIndex l i = some x)
    (hex : ∃ i ∈ is, ∃ x, pyIndex l i = some x ∧ Gen.NumDigits.numDigits x ≠ base) :
    tsLengthOf.go (P := P) l base is = Out.int (-1) := by
  induction is with
  | nil => obtain ⟨i, hi, _⟩ := hex; simp at hi
  | cons i is ih =>
    obtain ⟨x, hx⟩ := hall i (by simp)
    rw [tsLengthOf.go]
    simp only [hx]
    by_cases hd : Gen.NumDigits.numDigits x = base
    · simp only [hd, ne_eq, not_true_eq_false, if_false]
      apply ih (fun j hj => hall j (by simp [hj]))
      obtain ⟨j, hj, y, hy, hny⟩ := hex
      rcases List.mem_cons.mp hj with e | e
      · subst e
        rw [hx] at hy
        injection hy with hy
        subst hy
        exact absurd hd hny
      · exact ⟨j, e, y, hy, hny⟩
    · simp only [ne_eq, hd, not_false_eq_true, if_true]


theorem lengthIndexes_mem (l : List Int) (i : Int) (hi : i ∈ lengthIndexes l.length) :
    ∃ x, pyIndex l i = some x ∧ x ∈ l := by
  apply pyIndex_some_mem
  by_cases hlen : l.length > 10
  · unfold lengthIndexes at hi
    rw [if_pos hlen] at hi
    simp only [List.mem_cons, List.not_mem_nil, or_false] at hi
    omega
  · cases hl : l.length with
    | zero =>
      rw [hl] at hi
      simp [lengthIndexes] at hi
    | succ m =>
      rw [hl, lengthIndexes_small m (by omega)] at hi
      obtain ⟨k, hk, e⟩ := List.mem_map.mp hi
      rw [List.mem_range] at hk
      subst e
      left
      simp only [Int.ofNat_eq_natCast]
      omega

theorem lengthIndexes_last (l : List Int) (hlen : 2 ≤ l.length) :
    ∃ i ∈ lengthIndexes l.length, pyIndex l i = l.getLast? := by
  have hne : l ≠ [] := by intro e; rw [e] at hlen; simp at hlen
  by_cases h10 : l.length > 10
  · refine ⟨-1, ?_, pyIndex_neg_one l hne⟩
    unfold lengthIndexes
    rw [if_pos h10]
    simp
  · refine ⟨Int.ofNat (l.length - 1), ?_, pyIndex_ofNat_last l⟩
    obtain ⟨m, hm⟩ : ∃ m, l.length = m + 1 := ⟨l.length - 1, by omega⟩
    rw [hm, lengthIndexes_small m (by omega)]
    apply List.mem_map.mpr
    refine ⟨m - 1, List.mem_range.mpr (by omega), ?_⟩
    congr 1
    omega

theorem tsLengthOf_eq (l : List Int) (hs : l.Pairwise (· < ·)) (hpos : ∀ t ∈ l, 0 ≤ t) :
    tsLengthOf (P := P) l = tsLengthSpec l := by
  cases l with
  | nil => rfl
  | cons h t =>
    have hunf : tsLengthOf (P := P) (h :: t) =
        tsLengthOf.go (h :: t) (Gen.NumDigits.numDigits h) (lengthIndexes (h :: t).length) := rfl
    rw [hunf]
    simp only [tsLengthSpec]
    have hh : ∀ x ∈ t, h < x := (List.pairwise_cons.mp hs).1
    have h0 : 0 ≤ h := hpos h (by simp)
    have hmono_h : ∀ x ∈ t, digitsRef h.natAbs ≤ digitsRef x.natAbs := by
      intro x hx
      apply digitsRef_mono
      have := hh x hx
      omega
    by_cases hall : (t.all fun x => decide (digitsRef x.natAbs = digitsRef h.natAbs)) = true
    · rw [if_pos hall, numDigits_spec']
      apply go_all
      intro i hi
      obtain ⟨x, hx, hm⟩ := lengthIndexes_mem (h :: t) i hi
      refine ⟨x, hx, ?_⟩
      rw [numDigits_spec']
      rcases List.mem_cons.mp hm with e | e
      · rw [e]
      · rw [List.all_eq_true] at hall
        have := hall x e
        simp only [decide_eq_true_eq] at this
        rw [this]
    · rw [if_neg hall]
      have hex : ∃ y ∈ t, digitsRef y.natAbs ≠ digitsRef h.natAbs := by
        apply Classical.byContradiction
        intro hc
        apply hall
        rw [List.all_eq_true]
        intro x hx
        simp only [decide_eq_true_eq]
        apply Classical.byContradiction
        intro hne
        exact hc ⟨x, hx, hne⟩
      obtain ⟨y, hy, hny⟩ := hex
      have hlen : 2 ≤ (h :: t).length := by
        cases t with
        | nil => simp at hy
        | cons _ _ => simp
      obtain ⟨i, hi, hpi⟩ := lengthIndexes_last (h :: t) hlen
      have hne : (h :: t) ≠ [] := by simp
      rw [List.getLast?_eq_some_getLast hne] at hpi
      have hlast := sorted_le_last (h :: t) _ hs (List.getLast?_eq_some_getLast hne) y (by simp [hy])
      have hylast : digitsRef y.natAbs ≤ digitsRef ((h :: t).getLast hne).natAbs := by
        apply digitsRef_mono
        have := hpos y (by simp [hy])
        omega
      have := hmono_h y hy
      apply go_some
      · intro j hj
        obtain ⟨x, hx, _⟩ := lengthIndexes_mem (h :: t) j hj
        exact ⟨x, hx⟩
      · refine ⟨i, hi, _, hpi, ?_⟩
        rw [numDigits_spec', numDigits_spec']
        omega

theorem tsLength_spec' (s : State P) (l : List Int) (h : Inv s) (hl : SortedKeys (abs s) l) (hpos : ∀ t ∈ l, 0 ≤ t) :
    (step s Op.tsLength).2 = tsLengthSpec l := by
  simp only [step]
  rw [refresh_cache_eq s l h hl]
  exact tsLengthOf_eq l hl.1 hpos


-- history independence ------------------------------------------------------------------------------------------------

theorem delPair_unique (a a1 a2 : Abs P) (ts : Int) (dev : String)
    (h1 : Abs.DelPair a a1 ts dev) (h2 : Abs.DelPair a a2 ts dev) : a1 = a2 := by
  apply Abs.ext'
  · intro t
    by_cases e : t = ts
    · subst e
      rw [Bool.eq_iff_iff, h1.2.2, h2.2.2]
    · rw [h1.2.1 t e, h2.2.1 t e]
  · intro t d
    rw [h1.1, h2.1]

theorem hasTs_spec' (s : State P) (ts : Int) :
    (step s (Op.hasTs ts)).2 = Out.bool ((abs s).present ts) := rfl

theorem same_content_same_answers' (s₁ s₂ : State P) (op : Op P) (h₁ : Inv s₁) (h₂ : Inv s₂) (e : abs s₁ = abs s₂) :
    abs (step s₁ op).1 = abs (step s₂ op).1 ∧
      (isOrderFreeQuery op = true ∨ isQuery op = false → (step s₁ op).2 = (step s₂ op).2) := by
  have hl₂ := sortedKeys_isort s₂ h₂
  have hl₁ : SortedKeys (abs s₁) (isort (Dict.keys s₂.data)) := by rw [e]; exact hl₂
  cases op with
  | setPair ts dev p =>
    have r1 := setPair_refines' s₁ ts dev p
    have r2 := setPair_refines' s₂ ts dev p
    exact ⟨by rw [r1.1, r2.1, e], fun _ => by rw [r1.2, r2.2]⟩
  | setTs ts inner =>
    have r1 := setTs_refines' s₁ ts inner
    have r2 := setTs_refines' s₂ ts inner
    exact ⟨by rw [r1.1, r2.1, e], fun _ => by rw [r1.2, r2.2]⟩
  | delTs ts =>
    have r1 := delTs_refines' s₁ ts h₁
    have r2 := delTs_refines' s₂ ts h₂
    rw [e] at r1
    by_cases hp : (abs s₂).present ts = true
    · rw [if_pos hp] at r1 r2
      exact ⟨by rw [r1.1, r2.1], fun _ => by rw [r1.2, r2.2]⟩
    · rw [if_neg hp] at r1 r2
      rw [r1, r2]
      exact ⟨e, fun _ => rfl⟩
  | delPair ts dev =>
    have r1 := delPair_refines' s₁ ts dev h₁
    have r2 := delPair_refines' s₂ ts dev h₂
    rw [e] at r1
    by_cases hp : ((abs s₂).entry ts dev).isSome = true
    · rw [if_pos hp] at r1 r2
      exact ⟨delPair_unique _ _ _ _ _ r1.1 r2.1, fun _ => by rw [r1.2, r2.2]⟩
    · rw [if_neg hp] at r1 r2
      rw [r1, r2]
      exact ⟨e, fun _ => rfl⟩
  | hasPair ts dev =>
    refine ⟨by rw [query_keeps_content' s₁ _ rfl, query_keeps_content' s₂ _ rfl, e], fun _ => ?_⟩
    rw [hasPair_spec', hasPair_spec', e]
  | hasTs ts =>
    refine ⟨by rw [query_keeps_content' s₁ _ rfl, query_keeps_content' s₂ _ rfl, e], fun _ => ?_⟩
    rw [hasTs_spec', hasTs_spec', e]
  | getPair ts dev =>
    refine ⟨by rw [query_keeps_content' s₁ _ rfl, query_keeps_content' s₂ _ rfl, e], fun _ => ?_⟩
    rw [getPair_spec', getPair_spec', e]
  | sortedList =>
    refine ⟨by rw [query_keeps_content' s₁ _ rfl, query_keeps_content' s₂ _ rfl, e], fun _ => ?_⟩
    simp only [step]
    rw [refresh_cache_eq s₁ _ h₁ hl₁, refresh_cache_eq s₂ _ h₂ hl₂]
  | tsLength =>
    refine ⟨by rw [query_keeps_content' s₁ _ rfl, query_keeps_content' s₂ _ rfl, e], fun _ => ?_⟩
    simp only [step]
    rw [refresh_cache_eq s₁ _ h₁ hl₁, refresh_cache_eq s₂ _ h₂ hl₂]
  | keyPairs =>
    refine ⟨by rw [query_keeps_content' s₁ _ rfl, query_keeps_content' s₂ _ rfl, e], fun hc => ?_⟩
    simp [isOrderFreeQuery, isQuery] at hc
  | interp ts dev maxI =>
    refine ⟨by rw [query_keeps_content' s₁ _ rfl, query_keeps_content' s₂ _ rfl, e], fun _ => ?_⟩
    rw [interp_spec' s₁ ts dev maxI _ h₁ hl₁, interp_spec' s₂ ts dev maxI _ h₂ hl₂, e]

theorem run_same_outputs (s₁ s₂ : State P) (cont : List (Op P)) (h₁ : Inv s₁) (h₂ : Inv s₂) (e : abs s₁ = abs s₂)
    (hc : ∀ op ∈ cont, isOrderFreeQuery op = true ∨ isQuery op = false) :
    (run s₁ cont).2 = (run s₂ cont).2 := by
  induction cont generalizing s₁ s₂ with
  | nil => rfl
  | cons op ops ih =>
    simp only [run]
    obtain ⟨ea, eo⟩ := same_content_same_answers' s₁ s₂ op h₁ h₂ e
    rw [eo (hc op (by simp)),
      ih _ _ (inv_step' s₁ op h₁) (inv_step' s₂ op h₂) ea (fun o ho => hc o (by simp [ho]))]


end Kapture.C07
