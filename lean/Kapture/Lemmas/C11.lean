/-
  Lemmas/C11.lean — specification-side definitions and helper lemmas for C11.
-/
import Kapture.Model.C11

namespace Kapture.C11

/-- the clouds of the inputs that have one, in input order -/
def clouds (rs : List Recon) : List (List Row) := rs.filterMap (·.points)

/-- number of points merged before input `n` -/
def offsetBefore (rs : List Recon) (n : Nat) : Nat := ((clouds (rs.take n)).map List.length).sum

/-- all inputs that have a cloud agree on its width -/
def sameWidth (rs : List Recon) : Prop :=
  ∀ r₁ ∈ rs, ∀ r₂ ∈ rs, r₁.points.isSome = true → r₂.points.isSome = true → r₁.cols = r₂.cols

/-- the expected merged observations when `off` points were merged before `rs` -/
def shiftedFrom : Nat → List Recon → List Obs
  | _, [] => []
  | off, r :: rs =>
    match r.points with
    | none => shiftedFrom off rs
    | some p => (r.obs.getD []).map (fun o => (o.1 + off, o.2)) ++ shiftedFrom (off + p.length) rs

theorem shiftedFrom_cons_none {r : Recon} {rs : List Recon} (off : Nat) (h : r.points = none) :
    shiftedFrom off (r :: rs) = shiftedFrom off rs := by
  simp [shiftedFrom, h]

theorem shiftedFrom_cons_some {r : Recon} {rs : List Recon} {p : List Row} (off : Nat) (h : r.points = some p) :
    shiftedFrom off (r :: rs) =
      (r.obs.getD []).map (fun o => (o.1 + off, o.2)) ++ shiftedFrom (off + p.length) rs := by
  simp [shiftedFrom, h]

theorem clouds_cons_none {r : Recon} {rs : List Recon} (h : r.points = none) : clouds (r :: rs) = clouds rs := by
  simp [clouds, h]

theorem clouds_cons_some {r : Recon} {rs : List Recon} {p : List Row} (h : r.points = some p) :
    clouds (r :: rs) = p :: clouds rs := by
  simp [clouds, h]

theorem offsetBefore_zero (rs : List Recon) : offsetBefore rs 0 = 0 := by
  simp [offsetBefore, clouds]

theorem offsetBefore_succ_none {r : Recon} {rs : List Recon} (n : Nat) (h : r.points = none) :
    offsetBefore (r :: rs) (n + 1) = offsetBefore rs n := by
  simp [offsetBefore, List.take_succ_cons, clouds_cons_none h]

theorem offsetBefore_succ_some {r : Recon} {rs : List Recon} {p : List Row} (n : Nat) (h : r.points = some p) :
    offsetBefore (r :: rs) (n + 1) = p.length + offsetBefore rs n := by
  simp [offsetBefore, List.take_succ_cons, clouds_cons_some h]

theorem stepRecon_none {a : Acc} {r : Recon} (h : r.points = none) : stepRecon a r = Except.ok a := by
  simp [stepRecon, h]

theorem stepRecon_some_ok {a a1 : Acc} {r : Recon} {p : List Row} (h : r.points = some p)
    (hs : stepRecon a r = Except.ok a1) :
    (a.started = true → a.cols = r.cols) ∧
    a1 = { started := true, cols := r.cols, points := a.points ++ p,
           obs := a.obs ++ (r.obs.getD []).map
             (fun o => (o.1 + (if a.started then a.points.length else 0), o.2)) } := by
  unfold stepRecon at hs
  simp only [h] at hs
  split at hs
  · cases hs
  · rename_i hc
    refine ⟨?_, ?_⟩
    · intro hst
      simpa [hst] using hc
    · cases ho : r.obs <;> simp [ho] at hs ⊢ <;> exact hs.symm

theorem stepRecon_some_succeeds {a : Acc} {r : Recon} {p : List Row} (h : r.points = some p)
    (hc : a.started = true → a.cols = r.cols) : ∃ a1, stepRecon a r = Except.ok a1 ∧ a1.started = true ∧ a1.cols = r.cols := by
  unfold stepRecon
  simp only [h]
  split
  · rename_i hbad
    exfalso
    simp at hbad
    exact hbad.2 (hc hbad.1)
  · exact ⟨_, rfl, rfl, rfl⟩

/-- the generalised fold invariant -/
theorem fold_spec : ∀ (rs : List Recon) (a a' : Acc), (a.started = false → a.points = []) →
    rs.foldlM stepRecon a = Except.ok a' →
    a'.points = a.points ++ (clouds rs).flatten ∧ a'.obs = a.obs ++ shiftedFrom a.points.length rs ∧
    (∀ r ∈ rs, r.points.isSome = true → r.cols = a'.cols) ∧ (a.started = true → a'.cols = a.cols) ∧
    (clouds rs = [] → a' = a) := by
  intro rs
  induction rs with
  | nil =>
    intro a a' _ hf
    simp [List.foldlM_nil, pure, Except.pure] at hf
    subst hf
    simp [clouds, shiftedFrom]
  | cons r rs ih =>
    intro a a' hinv hf
    rw [List.foldlM_cons] at hf
    cases hp : r.points with
    | none =>
      rw [stepRecon_none hp] at hf
      simp only [bind, Except.bind] at hf
      obtain ⟨h1, h2, h3, h4, h5⟩ := ih a a' hinv hf
      refine ⟨?_, ?_, ?_, h4, ?_⟩
      · rw [clouds_cons_none hp]; exact h1
      · rw [shiftedFrom_cons_none _ hp]; exact h2
      · intro r' hr' hs
        rcases List.mem_cons.1 hr' with rfl | hr'
        · simp [hp] at hs
        · exact h3 r' hr' hs
      · rw [clouds_cons_none hp]; exact h5
    | some p =>
      cases hs : stepRecon a r with
      | error e => rw [hs] at hf; simp [bind, Except.bind] at hf
      | ok a1 =>
        rw [hs] at hf
        simp only [bind, Except.bind] at hf
        obtain ⟨hc, ha1⟩ := stepRecon_some_ok hp hs
        have hoff : (if a.started then a.points.length else 0) = a.points.length := by
          cases hst : a.started
          · simp [hinv hst]
          · simp
        rw [hoff] at ha1
        have hinv1 : a1.started = false → a1.points = [] := by
          intro h; rw [ha1] at h; simp at h
        obtain ⟨h1, h2, h3, h4, _⟩ := ih a1 a' hinv1 hf
        have hst1 : a1.started = true := by rw [ha1]
        have hcols1 : a1.cols = r.cols := by rw [ha1]
        have hpts1 : a1.points = a.points ++ p := by rw [ha1]
        have hobs1 : a1.obs = a.obs ++ (r.obs.getD []).map (fun o => (o.1 + a.points.length, o.2)) := by rw [ha1]
        refine ⟨?_, ?_, ?_, ?_, ?_⟩
        · rw [clouds_cons_some hp, h1, hpts1]; simp
        · rw [shiftedFrom_cons_some _ hp, h2, hobs1, hpts1]; simp
        · intro r' hr' hs'
          rcases List.mem_cons.1 hr' with rfl | hr'
          · rw [h4 hst1, hcols1]
          · exact h3 r' hr' hs'
        · intro hst
          rw [h4 hst1, hcols1, hc hst]
        · intro hcl
          rw [clouds_cons_some hp] at hcl
          simp at hcl

/-- success of the fold under width agreement -/
theorem fold_succeeds : ∀ (rs : List Recon) (a : Acc), sameWidth rs →
    (a.started = true → ∀ r ∈ rs, r.points.isSome = true → a.cols = r.cols) →
    ∃ a', rs.foldlM stepRecon a = Except.ok a' := by
  intro rs
  induction rs with
  | nil => intro a _ _; exact ⟨a, rfl⟩
  | cons r rs ih =>
    intro a hw hc
    have hw' : sameWidth rs := fun r₁ h₁ r₂ h₂ =>
      hw r₁ (List.mem_cons_of_mem _ h₁) r₂ (List.mem_cons_of_mem _ h₂)
    rw [List.foldlM_cons]
    cases hp : r.points with
    | none =>
      rw [stepRecon_none hp]
      simp only [bind, Except.bind]
      exact ih a hw' (fun hst r' hr' hs => hc hst r' (List.mem_cons_of_mem _ hr') hs)
    | some p =>
      have hrs : r.points.isSome = true := by simp [hp]
      obtain ⟨a1, hs, _, hcols1⟩ :=
        stepRecon_some_succeeds (a := a) hp (fun hst => hc hst r List.mem_cons_self hrs)
      rw [hs]
      simp only [bind, Except.bind]
      apply ih a1 hw'
      intro _ r' hr' hs'
      rw [hcols1]
      exact hw r List.mem_cons_self r' (List.mem_cons_of_mem _ hr') hrs hs'

/-- what a successful merge computes -/
theorem merge_spec {rs : List Recon} {c : Nat} {pts : List Row} {obs : List Obs}
    (h : mergePointsObs rs = Except.ok (c, pts, obs)) :
    pts = (clouds rs).flatten ∧ obs = shiftedFrom 0 rs ∧
    (∀ r ∈ rs, r.points.isSome = true → r.cols = c) ∧ (clouds rs = [] → c = 6 ∧ pts = [] ∧ obs = []) := by
  unfold mergePointsObs at h
  split at h
  · rename_i a hf
    simp only [Except.ok.injEq, Prod.mk.injEq] at h
    obtain ⟨rfl, rfl, rfl⟩ := h
    obtain ⟨h1, h2, h3, _, h5⟩ := fold_spec rs _ a (fun _ => rfl) hf
    refine ⟨by simpa using h1, by simpa using h2, h3, ?_⟩
    intro hcl
    rw [h5 hcl]
    exact ⟨rfl, rfl, rfl⟩
  · cases h

/-- point `i` of input `n` sits at `i + offsetBefore rs n` in the concatenation -/
theorem flatten_getElem?_offset : ∀ (rs : List Recon) (n : Nat) (r : Recon) (p : List Row),
    rs[n]? = some r → r.points = some p → ∀ i, i < p.length →
    (clouds rs).flatten[i + offsetBefore rs n]? = p[i]? := by
  intro rs
  induction rs with
  | nil => intro n r p hr; simp at hr
  | cons r0 rs ih =>
    intro n r p hr hp i hi
    cases n with
    | zero =>
      simp at hr
      subst hr
      rw [offsetBefore_zero, clouds_cons_some hp, List.flatten_cons, Nat.add_zero,
        List.getElem?_append_left hi]
    | succ n =>
      simp at hr
      cases hp0 : r0.points with
      | none =>
        rw [offsetBefore_succ_none _ hp0, clouds_cons_none hp0]
        exact ih n r p hr hp i hi
      | some p0 =>
        rw [offsetBefore_succ_some _ hp0, clouds_cons_some hp0, List.flatten_cons,
          List.getElem?_append_right (by omega)]
        have : i + (p0.length + offsetBefore rs n) - p0.length = i + offsetBefore rs n := by omega
        rw [this]
        exact ih n r p hr hp i hi

/-- every input observation appears shifted -/
theorem mem_shiftedFrom_of_mem : ∀ (rs : List Recon) (off n : Nat) (r : Recon) (p : List Row) (os : List Obs),
    rs[n]? = some r → r.points = some p → r.obs = some os → ∀ o ∈ os,
    (o.1 + (off + offsetBefore rs n), o.2) ∈ shiftedFrom off rs := by
  intro rs
  induction rs with
  | nil => intro off n r p os hr; simp at hr
  | cons r0 rs ih =>
    intro off n r p os hr hp ho o hm
    cases n with
    | zero =>
      simp at hr
      subst hr
      rw [offsetBefore_zero, shiftedFrom_cons_some _ hp, ho]
      apply List.mem_append_left
      simp only [Option.getD_some, Nat.add_zero]
      exact List.mem_map.2 ⟨o, hm, rfl⟩
    | succ n =>
      simp at hr
      cases hp0 : r0.points with
      | none =>
        rw [offsetBefore_succ_none _ hp0, shiftedFrom_cons_none _ hp0]
        exact ih off n r p os hr hp ho o hm
      | some p0 =>
        rw [offsetBefore_succ_some _ hp0, shiftedFrom_cons_some _ hp0]
        apply List.mem_append_right
        have := ih (off + p0.length) n r p os hr hp ho o hm
        rw [Nat.add_assoc] at this
        exact this

/-- every shifted observation comes from an input -/
theorem origin_of_mem_shiftedFrom : ∀ (rs : List Recon) (off : Nat) (x : Obs), x ∈ shiftedFrom off rs →
    ∃ n r p os o', rs[n]? = some r ∧ r.points = some p ∧ r.obs = some os ∧ o' ∈ os ∧
      x = (o'.1 + (off + offsetBefore rs n), o'.2) := by
  intro rs
  induction rs with
  | nil => intro off x hx; simp [shiftedFrom] at hx
  | cons r0 rs ih =>
    intro off x hx
    cases hp0 : r0.points with
    | none =>
      rw [shiftedFrom_cons_none _ hp0] at hx
      obtain ⟨n, r, p, os, o', h1, h2, h3, h4, h5⟩ := ih off x hx
      refine ⟨n + 1, r, p, os, o', by simpa using h1, h2, h3, h4, ?_⟩
      rw [offsetBefore_succ_none _ hp0]; exact h5
    | some p0 =>
      rw [shiftedFrom_cons_some _ hp0] at hx
      rcases List.mem_append.1 hx with hx | hx
      · obtain ⟨o', ho', rfl⟩ := List.mem_map.1 hx
        cases ho : r0.obs with
        | none => rw [ho] at ho'; simp at ho'
        | some os =>
          rw [ho] at ho'
          refine ⟨0, r0, p0, os, o', by simp, hp0, ho, by simpa using ho', ?_⟩
          rw [offsetBefore_zero]; rfl
      · obtain ⟨n, r, p, os, o', h1, h2, h3, h4, h5⟩ := ih _ x hx
        refine ⟨n + 1, r, p, os, o', by simpa using h1, h2, h3, h4, ?_⟩
        rw [offsetBefore_succ_some _ hp0, h5, Nat.add_assoc]

/-- observation counts add up -/
theorem length_shiftedFrom : ∀ (rs : List Recon) (off : Nat),
    (shiftedFrom off rs).length =
      ((rs.filter (fun r => r.points.isSome)).map (fun r => (r.obs.getD []).length)).sum := by
  intro rs
  induction rs with
  | nil => intro off; simp [shiftedFrom]
  | cons r0 rs ih =>
    intro off
    cases hp0 : r0.points with
    | none => rw [shiftedFrom_cons_none _ hp0, ih]; simp [hp0]
    | some p0 => rw [shiftedFrom_cons_some _ hp0]; simp [hp0, ih]

end Kapture.C11
