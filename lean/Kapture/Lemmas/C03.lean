/-
  Lemmas/C03.lean — helper lemmas for C03.
-/
import Kapture.Model.C03

namespace Kapture.C03

/-- every element fits its item size -/
def Fits (item : Nat) (elems : List Nat) : Prop := ∀ v ∈ elems, v < 256 ^ item

/-- `pat` does not occur in `s` -/
def Free (pat s : Str) : Prop := ∀ pre post, s ≠ pre ++ pat ++ post

-- bytes ---------------------------------------------------------------------------------------------------------------

theorem length_encodeElem (item v : Nat) : (encodeElem item v).length = item := by
  induction item generalizing v with
  | zero => rfl
  | succ k ih => simp [encodeElem, ih]

theorem decodeElem_encodeElem (item v : Nat) : decodeElem (encodeElem item v) = v % 256 ^ item := by
  induction item generalizing v with
  | zero => simp [encodeElem, decodeElem, Nat.mod_one]
  | succ k ih =>
    simp only [encodeElem, decodeElem, ih]
    rw [Nat.pow_succ, Nat.mul_comm (256 ^ k) 256, Nat.mod_mul]

theorem encode_nil (item : Nat) : encode item [] = [] := rfl

theorem encode_cons (item v : Nat) (vs : List Nat) :
    encode item (v :: vs) = encodeElem item v ++ encode item vs := by
  simp [encode]

theorem length_encode (item : Nat) (elems : List Nat) : (encode item elems).length = elems.length * item := by
  induction elems with
  | nil => simp [encode_nil]
  | cons v vs ih =>
    rw [encode_cons, List.length_append, length_encodeElem, ih, List.length_cons, Nat.succ_mul, Nat.add_comm]

theorem chunks_encode (item : Nat) (hi : 0 < item) (elems : List Nat) :
    ∀ fuel, elems.length ≤ fuel → chunks item fuel (encode item elems) = elems.map (encodeElem item) := by
  induction elems with
  | nil =>
    intro fuel _
    cases fuel <;> simp [chunks, encode_nil]
  | cons v vs ih =>
    intro fuel hf
    cases fuel with
    | zero => simp at hf
    | succ f =>
      have hlen : (encodeElem item v).length = item := length_encodeElem item v
      have hne : (encodeElem item v ++ encode item vs).isEmpty = false := by
        cases hE : encodeElem item v with
        | nil => rw [hE] at hlen; simp at hlen; omega
        | cons _ _ => rfl
      have hi0 : item ≠ 0 := by omega
      rw [encode_cons, chunks]
      simp only [hne, hi0, Bool.false_or, decide_false, Bool.false_eq_true, if_false]
      rw [List.take_left' hlen, List.drop_left' hlen, ih f (by simpa using hf)]
      rfl

theorem map_decode_encodeElem (item : Nat) (elems : List Nat) (hf : Fits item elems) :
    (elems.map (encodeElem item)).map decodeElem = elems := by
  induction elems with
  | nil => rfl
  | cons v vs ih =>
    have hv : v < 256 ^ item := hf v (by simp)
    have hvs : Fits item vs := fun w hw => hf w (by simp [hw])
    simp only [List.map_cons, decodeElem_encodeElem, Nat.mod_eq_of_lt hv, ih hvs]

theorem decode_encode' (item : Nat) (elems : List Nat) (hi : 0 < item) (hf : Fits item elems) :
    decode item (encode item elems) = some elems := by
  have hi0 : item ≠ 0 := by omega
  have hmod : (encode item elems).length % item = 0 := by
    rw [length_encode]; exact Nat.mul_mod_left _ _
  have hfuel : elems.length ≤ (encode item elems).length := by
    rw [length_encode]; exact Nat.le_mul_of_pos_right _ hi
  unfold decode
  simp only [hi0, if_false, hmod, ne_eq, not_true_eq_false]
  rw [chunks_encode item hi elems _ hfuel, map_decode_encodeElem item elems hf]

theorem getElem?_encodeElem (item v k : Nat) (hk : k < item) :
    (encodeElem item v)[k]? = some ((v / 256 ^ k) % 256) := by
  induction item generalizing v k with
  | zero => omega
  | succ n ih =>
    cases k with
    | zero => simp [encodeElem]
    | succ j =>
      simp only [encodeElem, List.getElem?_cons_succ]
      rw [ih (v / 256) j (by omega), Nat.div_div_eq_div_mul, Nat.pow_succ, Nat.mul_comm]

theorem getElem?_encode (item : Nat) (elems : List Nat) (i k v : Nat)
    (hi : elems[i]? = some v) (hk : k < item) :
    (encode item elems)[i * item + k]? = some ((v / 256 ^ k) % 256) := by
  induction elems generalizing i with
  | nil => simp at hi
  | cons w ws ih =>
    have hlen : (encodeElem item w).length = item := length_encodeElem item w
    rw [encode_cons]
    cases i with
    | zero =>
      simp only [List.getElem?_cons_zero, Option.some.injEq] at hi
      subst hi
      rw [Nat.zero_mul, Nat.zero_add, List.getElem?_append_left (by omega)]
      exact getElem?_encodeElem item w k hk
    | succ j =>
      simp only [List.getElem?_cons_succ] at hi
      have hidx : (j + 1) * item + k - (encodeElem item w).length = j * item + k := by
        rw [hlen, Nat.succ_mul]; omega
      rw [List.getElem?_append_right (by rw [hlen, Nat.succ_mul]; omega), hidx]
      exact ih j hi

theorem reshapeRows_mul (rows cols : Nat) (hc : 0 < cols) : reshapeRows cols (rows * cols) = some rows := by
  have hc0 : cols ≠ 0 := by omega
  unfold reshapeRows
  simp only [hc0, if_false, Nat.mul_mod_left, ne_eq, not_true_eq_false, Nat.mul_div_cancel _ hc]

-- paths ---------------------------------------------------------------------------------------------------------------

theorem take_length_sub (x ext : Str) : (x ++ ext).take ((x ++ ext).length - ext.length) = x := by
  rw [List.length_append, Nat.add_sub_cancel]
  exact List.take_left' rfl

-- substring search ----------------------------------------------------------------------------------------------------

theorem Free.tail {pat : Str} {c : Char} {s : Str} (h : Free pat (c :: s)) : Free pat s := by
  intro pre post he
  exact h (c :: pre) post (by rw [he]; rfl)

theorem Free.not_prefix {pat s : Str} (h : Free pat s) : pat.isPrefixOf s = false := by
  cases hp : pat.isPrefixOf s with
  | false => rfl
  | true =>
    rw [List.isPrefixOf_iff_prefix] at hp
    obtain ⟨t, ht⟩ := hp
    exact absurd (by simp [← ht]) (h [] t)

theorem findSub_free (pat : Str) (n : Nat) (s : Str) (h : Free pat s) : findSub pat n s = none := by
  induction n generalizing s with
  | zero => simp [findSub, h.not_prefix]
  | succ m ih =>
    cases s with
    | nil => simp [findSub, h.not_prefix]
    | cons c t => simp [findSub, h.not_prefix, ih t h.tail]

/-- no occurrence of `pat` starts inside `a` when `a` is free of `pat` and no proper prefix of `pat` ends `a` -/
theorem not_prefix_straddle (pat a rest : Str) (c : Char) (ha : Free pat (c :: a))
    (hab : ∀ k, 0 < k → k < pat.length → ¬ (pat.take k).isSuffixOf (c :: a)) :
    pat.isPrefixOf ((c :: a) ++ pat ++ rest) = false := by
  cases hp : pat.isPrefixOf ((c :: a) ++ pat ++ rest) with
  | false => rfl
  | true =>
    exfalso
    rw [List.isPrefixOf_iff_prefix, List.append_assoc] at hp
    rcases List.prefix_or_prefix_of_prefix hp (List.prefix_append (c :: a) (pat ++ rest)) with h1 | h1
    · obtain ⟨t, ht⟩ := h1
      exact ha [] t (by simp [← ht])
    · obtain ⟨q, hq⟩ := h1
      by_cases hlt : (c :: a).length < pat.length
      · apply hab (c :: a).length (by simp) hlt
        rw [List.isSuffixOf_iff_suffix, ← hq, List.take_left' rfl]
        exact List.suffix_refl _
      · have hq' : q = [] := by
          have := congrArg List.length hq
          rw [List.length_append] at this
          apply List.eq_nil_of_length_eq_zero
          omega
        subst hq'
        exact ha [] [] (by simp [← hq])

theorem findSub_first (pat : Str) (a rest : Str) :
    ∀ n, a.length ≤ n → Free pat a →
      (∀ k, 0 < k → k < pat.length → ¬ (pat.take k).isSuffixOf a) →
      findSub pat n (a ++ pat ++ rest) = some a.length := by
  induction a with
  | nil =>
    intro n _ _ _
    have hp : pat.isPrefixOf ([] ++ pat ++ rest) = true := by
      rw [List.isPrefixOf_iff_prefix]; exact ⟨rest, by simp⟩
    cases n <;> simp only [findSub, hp, if_true, List.length_nil]
  | cons c a ih =>
    intro n hn ha hab
    cases n with
    | zero => simp at hn
    | succ m =>
      have hnp := not_prefix_straddle pat a rest c ha hab
      have hab' : ∀ k, 0 < k → k < pat.length → ¬ (pat.take k).isSuffixOf a := by
        intro k hk0 hk hs
        apply hab k hk0 hk
        rw [List.isSuffixOf_iff_suffix] at hs ⊢
        exact hs.trans (List.suffix_cons c a)
      have hrec := ih m (by simpa using hn) ha.tail hab'
      have hshape : (c :: a) ++ pat ++ rest = c :: (a ++ pat ++ rest) := rfl
      rw [hshape] at hnp ⊢
      simp only [findSub, hnp, Bool.false_eq_true, if_false, hrec, Option.map_some, List.length_cons]

theorem splitOn_pair (pat a b : Str) (hp : pat ≠ []) (ha : Free pat a) (hb : Free pat b)
    (hab : ∀ k, 0 < k → k < pat.length → ¬ (pat.take k).isSuffixOf a) :
    splitOn pat (a ++ pat ++ b).length (a ++ pat ++ b) = [a, b] := by
  have hpl : 0 < pat.length := List.length_pos_iff.mpr hp
  have hpe : pat.isEmpty = false := by cases pat with
    | nil => exact absurd rfl hp
    | cons _ _ => rfl
  obtain ⟨f, hf⟩ : ∃ f, (a ++ pat ++ b).length = f + 1 := ⟨(a ++ pat ++ b).length - 1, by
    simp only [List.length_append]; omega⟩
  have hfind := findSub_first pat a b (a ++ pat ++ b).length (by simp only [List.length_append]; omega) ha hab
  have htake : (a ++ pat ++ b).take a.length = a := by
    rw [List.append_assoc]; exact List.take_left' rfl
  have hdrop : (a ++ pat ++ b).drop (a.length + pat.length) = b := by
    exact List.drop_left' (by simp)
  rw [hf]
  rw [hf] at hfind
  simp only [splitOn, hpe, Bool.false_eq_true, if_false]
  rw [hf, hfind]
  simp only [htake, hdrop]
  cases f with
  | zero => rfl
  | succ g =>
    simp only [splitOn, hpe, Bool.false_eq_true, if_false, findSub_free pat _ b hb]

end Kapture.C03
