/-
  Lemmas/C13.lean — specification-side definitions and helper lemmas for C13 (COLMAP export then import).
-/
import Kapture.Model.C13

namespace Kapture.C13
open Kapture Kapture.Gen.PairId

/-! ## pair-id arithmetic (over the GENERATED definitions) -/

theorem maxImageId_pos : 0 < maxImageId := by unfold maxImageId; omega

/-- decoding `lo * MAX + hi` gives back (lo, hi) whenever 0 ≤ hi < MAX -/
theorem ofPairId_encode (lo hi : Int) (h0 : 0 ≤ hi) (h1 : hi < maxImageId) :
    ofPairId (lo * maxImageId + hi) = (lo, hi) := by
  have hpos := maxImageId_pos
  have hx : Int.fmod (lo * maxImageId + hi) maxImageId = hi := by
    rw [Int.fmod_eq_emod_of_nonneg _ (Int.le_of_lt hpos), Int.add_comm, Int.add_mul_emod_self_right]
    exact Int.emod_eq_of_lt h0 h1
  unfold ofPairId
  simp only [hx]
  have hd : Int.fdiv (lo * maxImageId + hi - hi) maxImageId = lo := by
    rw [Int.fdiv_eq_ediv_of_nonneg _ (Int.le_of_lt hpos), Int.add_sub_cancel]
    exact Int.mul_ediv_cancel _ (Int.ne_of_gt hpos)
  rw [hd]

theorem toPairId_of_le (a b : Int) (h : a ≤ b) : toPairId a b = a * maxImageId + b := by
  unfold toPairId
  have : ¬ a > b := by omega
  simp [this]

theorem toPairId_of_gt (a b : Int) (h : a > b) : toPairId a b = b * maxImageId + a := by
  unfold toPairId
  simp [h]

/-! ## identifier tables -/

/-- names (keys) of an identifier table are distinct -/
def NamesNodup (ids : List (String × Int)) : Prop := (ids.map Prod.fst).Nodup

/-- identifiers (values) of an identifier table are distinct -/
def IdsNodup (ids : List (String × Int)) : Prop := (ids.map Prod.snd).Nodup

/-- every identifier is a valid colmap image id for the pair-id arithmetic -/
def IdsInRange (ids : List (String × Int)) : Prop := ∀ e ∈ ids, 0 ≤ e.2 ∧ e.2 < maxImageId

theorem mem_of_idOf? : ∀ (ids : List (String × Int)) (n : String) (i : Int), idOf? ids n = some i → (n, i) ∈ ids := by
  intro ids
  induction ids with
  | nil => intro n i h; simp [idOf?] at h
  | cons hd r ih =>
    intro n i h
    obtain ⟨n0, i0⟩ := hd
    simp only [idOf?] at h
    split at h
    · next e => cases h; subst e; exact List.mem_cons_self
    · exact List.mem_cons_of_mem _ (ih n i h)

theorem mem_of_nameOf? : ∀ (ids : List (String × Int)) (n : String) (i : Int), nameOf? ids i = some n → (n, i) ∈ ids := by
  intro ids
  induction ids with
  | nil => intro n i h; simp [nameOf?] at h
  | cons hd r ih =>
    intro n i h
    obtain ⟨n0, i0⟩ := hd
    simp only [nameOf?] at h
    split at h
    · next e => cases h; subst e; exact List.mem_cons_self
    · exact List.mem_cons_of_mem _ (ih n i h)

theorem nameOf?_of_mem : ∀ (ids : List (String × Int)), IdsNodup ids → ∀ (n : String) (i : Int), (n, i) ∈ ids →
    nameOf? ids i = some n := by
  intro ids
  induction ids with
  | nil => intro _ n i h; cases h
  | cons hd r ih =>
    intro hn n i hm
    obtain ⟨n0, i0⟩ := hd
    have hn' : i0 ∉ r.map Prod.snd ∧ IdsNodup r := by
      simpa [IdsNodup, List.nodup_cons] using hn
    simp only [nameOf?]
    split
    · next e =>
      subst e
      rcases List.mem_cons.1 hm with h | h
      · cases h; rfl
      · exact absurd (List.mem_map.2 ⟨(n, i0), h, rfl⟩) hn'.1
    · next ne =>
      rcases List.mem_cons.1 hm with h | h
      · cases h; exact absurd rfl ne
      · exact ih hn'.2 n i h

theorem idOf?_of_mem : ∀ (ids : List (String × Int)), NamesNodup ids → ∀ (n : String) (i : Int), (n, i) ∈ ids →
    idOf? ids n = some i := by
  intro ids
  induction ids with
  | nil => intro _ n i h; cases h
  | cons hd r ih =>
    intro hn n i hm
    obtain ⟨n0, i0⟩ := hd
    have hn' : n0 ∉ r.map Prod.fst ∧ NamesNodup r := by
      simpa [NamesNodup, List.nodup_cons] using hn
    simp only [idOf?]
    split
    · next e =>
      subst e
      rcases List.mem_cons.1 hm with h | h
      · cases h; rfl
      · exact absurd (List.mem_map.2 ⟨(n0, i), h, rfl⟩) hn'.1
    · next ne =>
      rcases List.mem_cons.1 hm with h | h
      · cases h; exact absurd rfl ne
      · exact ih hn'.2 n i h

/-- name -> id -> name is the identity when identifiers are distinct -/
theorem nameOf?_idOf? (ids : List (String × Int)) (h : IdsNodup ids) (n : String) (i : Int)
    (hi : idOf? ids n = some i) : nameOf? ids i = some n :=
  nameOf?_of_mem ids h n i (mem_of_idOf? ids n i hi)

/-- id -> name -> id is the identity when names are distinct -/
theorem idOf?_nameOf? (ids : List (String × Int)) (h : NamesNodup ids) (n : String) (i : Int)
    (hi : nameOf? ids i = some n) : idOf? ids n = some i :=
  idOf?_of_mem ids h n i (mem_of_nameOf? ids n i hi)

/-- distinct names get distinct identifiers -/
theorem idOf?_injective (ids : List (String × Int)) (h : IdsNodup ids) (a b : String) (i : Int)
    (ha : idOf? ids a = some i) (hb : idOf? ids b = some i) : a = b := by
  have h1 := nameOf?_idOf? ids h a i ha
  have h2 := nameOf?_idOf? ids h b i hb
  rw [h1] at h2
  exact Option.some.inj h2

theorem idOf?_isSome_of_mem : ∀ (ids : List (String × Int)) (n : String), n ∈ ids.map Prod.fst →
    ∃ i, idOf? ids n = some i := by
  intro ids
  induction ids with
  | nil => intro n h; cases h
  | cons hd r ih =>
    intro n h
    obtain ⟨n0, i0⟩ := hd
    simp only [idOf?]
    split
    · exact ⟨i0, rfl⟩
    · next ne =>
      simp only [List.map_cons, List.mem_cons] at h
      rcases h with h | h
      · exact absurd h.symm ne
      · exact ih n h

/-! ### sequential assignment -/

theorem assignFrom_names : ∀ (names : List String) (k : Int), (assignFrom k names).map Prod.fst = names := by
  intro names
  induction names with
  | nil => intro k; rfl
  | cons n ns ih => intro k; simp [assignFrom, ih]

theorem assignFrom_bounds : ∀ (names : List String) (k : Int), ∀ e ∈ assignFrom k names,
    k ≤ e.2 ∧ e.2 < k + names.length := by
  intro names
  induction names with
  | nil => intro k e h; cases h
  | cons n ns ih =>
    intro k e h
    simp only [assignFrom, List.mem_cons] at h
    simp only [List.length_cons]
    rcases h with h | h
    · subst h; simp; omega
    · have := ih (k + 1) e h
      omega

theorem assignFrom_idsNodup : ∀ (names : List String) (k : Int), IdsNodup (assignFrom k names) := by
  intro names
  induction names with
  | nil => intro k; simp [IdsNodup, assignFrom]
  | cons n ns ih =>
    intro k
    simp only [IdsNodup, assignFrom, List.map_cons, List.nodup_cons]
    refine ⟨?_, ih (k + 1)⟩
    intro hm
    obtain ⟨e, he, hk⟩ := List.mem_map.1 hm
    have := assignFrom_bounds ns (k + 1) e he
    omega

theorem assignIds_names (names : List String) : (assignIds names).map Prod.fst = names := assignFrom_names names 1

theorem assignIds_idsNodup (names : List String) : IdsNodup (assignIds names) := assignFrom_idsNodup names 1

theorem assignIds_namesNodup (names : List String) (h : names.Nodup) : NamesNodup (assignIds names) := by
  unfold NamesNodup; rw [assignIds_names]; exact h

theorem assignIds_bounds (names : List String) : ∀ e ∈ assignIds names, 1 ≤ e.2 ∧ e.2 ≤ names.length := by
  intro e h
  have := assignFrom_bounds names 1 e h
  omega

theorem assignIds_inRange (names : List String) (h : (names.length : Int) < maxImageId) : IdsInRange (assignIds names) := by
  intro e he
  have := assignIds_bounds names e he
  omega

/-! ### the order of records -/

theorem insertBy_perm {α : Type} (lt : α → α → Bool) (x : α) : ∀ l : List α, (insertBy lt x l).Perm (x :: l) := by
  intro l
  induction l with
  | nil => exact List.Perm.refl _
  | cons y ys ih =>
    simp only [insertBy]
    split
    · exact List.Perm.refl _
    · exact (List.Perm.cons y ih).trans (List.Perm.swap x y ys)

theorem sortBy_perm {α : Type} (lt : α → α → Bool) : ∀ l : List α, (sortBy lt l).Perm l := by
  intro l
  induction l with
  | nil => exact List.Perm.refl _
  | cons x xs ih =>
    show (insertBy lt x (sortBy lt xs)).Perm (x :: xs)
    exact (insertBy_perm lt x _).trans (List.Perm.cons x ih)

theorem imageOrder_perm (records : List Record) : (imageOrder records).Perm (records.map (fun r => r.2.2)) :=
  (sortBy_perm recLt records).map _

theorem imageOrder_nodup (records : List Record) (h : (records.map (fun r => r.2.2)).Nodup) :
    (imageOrder records).Nodup := (imageOrder_perm records).nodup_iff.2 h

theorem imageOrder_length (records : List Record) : (imageOrder records).length = records.length := by
  have := (imageOrder_perm records).length_eq
  simpa using this

theorem mem_imageOrder (records : List Record) (n : String) : n ∈ imageOrder records ↔ n ∈ records.map (fun r => r.2.2) :=
  (imageOrder_perm records).mem_iff

/-! ## matches -/

theorem swapCols_swapCols (rows : MatchRows) : swapCols (swapCols rows) = rows := by
  induction rows with
  | nil => rfl
  | cons r rs ih =>
    simp only [swapCols, List.map_cons, List.map_map] at ih ⊢
    rw [ih]

theorem lexicalOrder_of_lt (a b : String) (h : a < b) : lexicalOrder a b = (a, b) := by
  simp [lexicalOrder, h]

theorem lexicalOrder_of_gt (a b : String) (h : a < b) : lexicalOrder b a = (a, b) := by
  have : ¬ b < a := String.lt_asymm h
  simp [lexicalOrder, this]

/-- the match loop for ANY identifier table with distinct, in-range identifiers -/
theorem match_loop_general (ids : List (String × Int)) (hn : IdsNodup ids) (hr : IdsInRange ids)
    (a b : String) (hab : a < b) (rows : MatchRows) (ia ib : Int)
    (ha : idOf? ids a = some ia) (hb : idOf? ids b = some ib) :
    (exportMatch ids ((a, b), rows)).bind (importMatch ids) = some ((a, b), rows) := by
  have hne : a ≠ b := by intro e; subst e; exact String.lt_irrefl a hab
  have hine : ia ≠ ib := by
    intro e; subst e; exact hne (idOf?_injective ids hn a b ia ha hb)
  have hna := nameOf?_idOf? ids hn a ia ha
  have hnb := nameOf?_idOf? ids hn b ib hb
  have hra := hr _ (mem_of_idOf? ids a ia ha)
  have hrb := hr _ (mem_of_idOf? ids b ib hb)
  simp only [exportMatch, ha, hb, Option.bind_some, addMatches]
  rcases Int.lt_or_gt_of_ne hine with hlt | hgt
  · have hng : ¬ ia > ib := by omega
    simp only [hng, if_false]
    unfold importMatch
    simp only [toPairId_of_le ia ib (Int.le_of_lt hlt), ofPairId_encode ia ib hrb.1 hrb.2, hna, hnb,
      lexicalOrder_of_lt a b hab]
    simp
  · simp only [hgt, if_true]
    unfold importMatch
    simp only [toPairId_of_gt ia ib hgt, ofPairId_encode ib ia hra.1 hra.2, hna, hnb,
      lexicalOrder_of_gt a b hab, swapCols_swapCols]
    have : (b, a) ≠ (a, b) := by
      intro e; exact hne (Prod.mk.inj e).2
    simp [this]

/-! ## points and tracks -/

/-- what a point looks like after the loop: coordinates, then its colour or black -/
def canon6 (row : Row) : Row := row.take 3 ++ (if row.length = 6 then row.drop 3 else [zeroTok, zeroTok, zeroTok])

theorem canon6_of_length6 (row : Row) (h : row.length = 6) : canon6 row = row := by
  simp [canon6, h]

theorem canon6_take3 (row : Row) (h : 3 ≤ row.length) : (canon6 row).take 3 = row.take 3 := by
  unfold canon6
  have hl : 3 ≤ (row.take 3).length := by rw [List.length_take]; omega
  rw [List.take_append_of_le_length hl, List.take_take]
  simp

theorem posedIds_idsNodup (ids : List (String × Int)) (posed : List String) (h : IdsNodup ids) :
    IdsNodup (posedIds ids posed) := by
  unfold IdsNodup posedIds at *
  exact (List.Sublist.map _ List.filter_sublist).nodup h

theorem mem_posedIds (ids : List (String × Int)) (posed : List String) (n : String) (i : Int)
    (hm : (n, i) ∈ ids) (hp : n ∈ posed) : (n, i) ∈ posedIds ids posed := by
  unfold posedIds
  rw [List.mem_filter]
  exact ⟨hm, by simpa using hp⟩

theorem not_mem_posedIds (ids : List (String × Int)) (posed : List String) (n : String) (i : Int)
    (hp : n ∉ posed) : (n, i) ∉ posedIds ids posed := by
  unfold posedIds
  rw [List.mem_filter]
  intro h
  exact hp (by simpa using h.2)

/-- a track of registered, posed images survives export and import -/
theorem track_loop (ids : List (String × Int)) (hn : IdsNodup ids) (posed : List String) :
    ∀ (track : List (String × Nat)), (∀ o ∈ track, o.1 ∈ posed ∧ ∃ i, idOf? ids o.1 = some i) →
    ∃ tr, optMap (fun o => (idOf? ids o.1).map (fun id => (id, o.2))) track = some tr ∧
      tr.map (fun o => ((nameOf? (posedIds ids posed) o.1).getD "unknown", o.2)) = track := by
  intro track
  induction track with
  | nil => intro _; exact ⟨[], rfl, rfl⟩
  | cons o os ih =>
    intro h
    obtain ⟨hp, i, hi⟩ := h o List.mem_cons_self
    obtain ⟨tr, htr, hback⟩ := ih (fun o' ho' => h o' (List.mem_cons_of_mem _ ho'))
    refine ⟨(i, o.2) :: tr, ?_, ?_⟩
    · simp [optMap, hi, htr]
    · have hm := mem_posedIds ids posed o.1 i (mem_of_idOf? ids o.1 i hi) hp
      have := nameOf?_of_mem _ (posedIds_idsNodup ids posed hn) o.1 i hm
      simp [this, hback]

theorem exportPointsFrom_loop (ids : List (String × Int)) (hn : IdsNodup ids) (posed : List String) :
    ∀ (pts : List (Row × List (String × Nat))) (k : Nat),
    (∀ p ∈ pts, ∀ o ∈ p.2, o.1 ∈ posed ∧ ∃ i, idOf? ids o.1 = some i) →
    ∃ lines, exportPointsFrom ids k pts = some lines ∧
      importPoints (posedIds ids posed) lines = pts.map (fun p => (canon6 p.1, p.2)) ∧
      lines.map (fun l => l.id) = (List.range pts.length).map (fun j => k + j) := by
  intro pts
  induction pts with
  | nil => intro k _; exact ⟨[], rfl, rfl, rfl⟩
  | cons p ps ih =>
    intro k h
    obtain ⟨row, track⟩ := p
    obtain ⟨tr, htr, hback⟩ := track_loop ids hn posed track (h (row, track) List.mem_cons_self)
    obtain ⟨ls, hls, himp, hid⟩ := ih (k + 1) (fun p' hp' => h p' (List.mem_cons_of_mem _ hp'))
    refine ⟨{ id := k, xyz := row.take 3,
               rgb := if row.length = 6 then row.drop 3 else [zeroTok, zeroTok, zeroTok], track := tr } :: ls, ?_, ?_, ?_⟩
    · simp only [exportPointsFrom, exportPoint, htr, hls]
    · simp only [importPoints, List.map_cons] at himp ⊢
      rw [himp]
      simp [importPoint, canon6, hback]
    · simp only [List.map_cons, List.length_cons, List.range_succ_eq_map, List.map_map, hid]
      simp only [List.cons.injEq]
      refine ⟨by simp, ?_⟩
      apply List.map_congr_left
      intro j _
      simp only [Function.comp]
      omega

/-! ## camera table -/

theorem cameraModels_lookup : ∀ e ∈ cameraModels,
    modelId? e.1 = some e.2.1 ∧ modelName? e.2.1 = some e.1 ∧ paramCount? e.1 = some e.2.2 := by
  decide +kernel

theorem cameraModels_not_unknown : ∀ e ∈ cameraModels, e.1 ≠ "UNKNOWN_CAMERA" := by
  decide +kernel

/-! ## poses -/

section poses
variable {K : Type}

theorem poseOf?_of_mem_unique : ∀ (t : Traj K) (ts : Int) (dev : String) (g : C05.Pose K),
    (∀ e ∈ t, e.ts = ts → e.dev = dev → e.g = g) → (∃ e ∈ t, e.ts = ts ∧ e.dev = dev) → poseOf? t ts dev = some g := by
  intro t
  induction t with
  | nil => intro ts dev g _ h; obtain ⟨e, he, _⟩ := h; cases he
  | cons e r ih =>
    intro ts dev g hu hex
    simp only [poseOf?]
    split
    · next hc => rw [hu e List.mem_cons_self hc.1 hc.2]
    · next hc =>
      apply ih ts dev g (fun e' he' => hu e' (List.mem_cons_of_mem _ he'))
      obtain ⟨e', he', h1, h2⟩ := hex
      rcases List.mem_cons.1 he' with h | h
      · subst h; exact absurd ⟨h1, h2⟩ hc
      · exact ⟨e', h, h1, h2⟩

end poses

end Kapture.C13
