/-
  Lemmas/C20.lean — specification-side definitions and helper lemmas for C20.
-/
import Kapture.Model.C20

namespace Kapture.C20
open Kapture

/-- the moves of one feature folder: every data file `dir/rel` goes to `dir/ty/rel` -/
def movesOf (dir ty : String) (rels : List String) : List Move :=
  rels.map (fun r => ⟨dir ++ "/" ++ r, dir ++ "/" ++ ty ++ "/" ++ r⟩)

/-- what a folder must look like afterwards, whatever the route: each file under its type, with its own content -/
def copiedFolder (t : Tree) (moves : List Move) : Tree :=
  moves.foldl (fun o m => match Dict.get? m.src t with
    | some c => Dict.set m.dst c o
    | none => o) []

/-- moves listed deepest source first -/
def DeepestFirst (moves : List Move) : Prop :=
  moves.Pairwise (fun a b => count '/' a.src ≥ count '/' b.src)

/-- every destination is exactly one level deeper than its source, sources are distinct, destinations are distinct -/
def WellFormedMoves (moves : List Move) : Prop :=
  (∀ m ∈ moves, count '/' m.dst = count '/' m.src + 1) ∧ (moves.map (·.src)).Nodup ∧ (moves.map (·.dst)).Nodup

/-! ### one move -/

theorem moveFile_nodup (t : Tree) (m : Move) (hk : (Dict.keys t).Nodup) : (Dict.keys (moveFile t m)).Nodup := by
  unfold moveFile
  split
  · exact Dict.nodup_set _ _ _ (Dict.nodup_erase _ _ hk)
  · exact hk

/-- a path that is neither the source nor the destination of a move is not affected by it -/
theorem get?_moveFile_other (t : Tree) (m : Move) (p : String) (h1 : p ≠ m.src) (h2 : p ≠ m.dst) :
    Dict.get? p (moveFile t m) = Dict.get? p t := by
  unfold moveFile
  split
  · rw [Dict.get?_set_ne _ _ _ _ h2, Dict.get?_erase_ne _ _ _ h1]
  · rfl

/-- the destination of a move whose source exists holds the source's content -/
theorem get?_moveFile_dst (t : Tree) (m : Move) (c : Content) (h : Dict.get? m.src t = some c) :
    Dict.get? m.dst (moveFile t m) = some c := by
  unfold moveFile
  rw [h]
  exact Dict.get?_set_self _ _ _

/-! ### a list of moves -/

theorem foldl_moveFile_nodup (moves : List Move) (t : Tree) (hk : (Dict.keys t).Nodup) :
    (Dict.keys (moves.foldl moveFile t)).Nodup := by
  induction moves generalizing t with
  | nil => exact hk
  | cons h tl ih => exact ih _ (moveFile_nodup t h hk)

theorem foldl_moveFile_other (moves : List Move) (t : Tree) (p : String)
    (hp : ∀ m ∈ moves, p ≠ m.src ∧ p ≠ m.dst) :
    Dict.get? p (moves.foldl moveFile t) = Dict.get? p t := by
  induction moves generalizing t with
  | nil => rfl
  | cons h tl ih =>
    rw [List.foldl_cons, ih _ (fun m hm => hp m (List.mem_cons_of_mem _ hm))]
    exact get?_moveFile_other t h p (hp h List.mem_cons_self).1 (hp h List.mem_cons_self).2

/-- the depth argument: a destination is never the source of a move that is not deeper -/
theorem dst_ne_src_of_depth (a b : Move) (ha : count '/' a.dst = count '/' a.src + 1)
    (hab : count '/' a.src ≥ count '/' b.src) : a.dst ≠ b.src := by
  intro he
  rw [he] at ha
  omega

theorem foldl_moveFile_content (moves : List Move) (t : Tree)
    (hw : WellFormedMoves moves) (hd : DeepestFirst moves) (hs : ∀ m ∈ moves, (Dict.get? m.src t).isSome)
    (m : Move) (hm : m ∈ moves) :
    Dict.get? m.dst (moves.foldl moveFile t) = Dict.get? m.src t := by
  induction moves generalizing t with
  | nil => cases hm
  | cons h tl ih =>
    obtain ⟨hdepth, hsrc, hdst⟩ := hw
    simp only [List.map_cons, List.nodup_cons, List.mem_map, not_exists, not_and] at hsrc hdst
    unfold DeepestFirst at hd
    rw [List.pairwise_cons] at hd
    have hdh := hdepth h List.mem_cons_self
    -- the head move touches no later source
    have hlater : ∀ b ∈ tl, Dict.get? b.src (moveFile t h) = Dict.get? b.src t := by
      intro b hb
      apply get?_moveFile_other
      · intro he; exact hsrc.1 b hb he
      · intro he; exact dst_ne_src_of_depth h b hdh (hd.1 b hb) he.symm
    rw [List.foldl_cons]
    rcases List.mem_cons.mp hm with rfl | hmt
    · -- the head itself: its destination survives the tail
      rw [foldl_moveFile_other tl _ m.dst]
      · have := hs m List.mem_cons_self
        cases hc : Dict.get? m.src t with
        | none => rw [hc] at this; cases this
        | some c => exact get?_moveFile_dst t m c hc
      · intro b hb
        refine ⟨dst_ne_src_of_depth m b hdh (hd.1 b hb), ?_⟩
        intro he; exact hdst.1 b hb he.symm
    · rw [ih (moveFile t h) ⟨fun b hb => hdepth b (List.mem_cons_of_mem _ hb), hsrc.2, hdst.2⟩ hd.2
        (fun b hb => by rw [hlater b hb]; exact hs b (List.mem_cons_of_mem _ hb)) hmt]
      exact hlater m hmt

/-! ### the copy route -/

/-- the step function of the copy route -/
def copyStep (t : Tree) (o : Tree) (m : Move) : Tree :=
  match Dict.get? m.src t with
  | some c => Dict.set m.dst c o
  | none => o

theorem copiedFolder_eq (t : Tree) (moves : List Move) : copiedFolder t moves = moves.foldl (copyStep t) [] := rfl

theorem foldl_copyStep_other (t : Tree) (moves : List Move) (o : Tree) (p : String)
    (hp : ∀ m ∈ moves, p ≠ m.dst) :
    Dict.get? p (moves.foldl (copyStep t) o) = Dict.get? p o := by
  induction moves generalizing o with
  | nil => rfl
  | cons h tl ih =>
    rw [List.foldl_cons, ih _ (fun m hm => hp m (List.mem_cons_of_mem _ hm))]
    unfold copyStep
    split
    · exact Dict.get?_set_ne _ _ _ _ (hp h List.mem_cons_self)
    · rfl

theorem foldl_copyStep_content (t : Tree) (moves : List Move) (o : Tree)
    (hdst : (moves.map (·.dst)).Nodup) (hs : ∀ m ∈ moves, (Dict.get? m.src t).isSome)
    (m : Move) (hm : m ∈ moves) :
    Dict.get? m.dst (moves.foldl (copyStep t) o) = Dict.get? m.src t := by
  induction moves generalizing o with
  | nil => cases hm
  | cons h tl ih =>
    simp only [List.map_cons, List.nodup_cons, List.mem_map, not_exists, not_and] at hdst
    rw [List.foldl_cons]
    rcases List.mem_cons.mp hm with rfl | hmt
    · rw [foldl_copyStep_other t tl _ m.dst (fun b hb he => hdst.1 b hb he.symm)]
      have := hs m List.mem_cons_self
      unfold copyStep
      cases hc : Dict.get? m.src t with
      | none => rw [hc] at this; cases this
      | some c => exact Dict.get?_set_self _ _ _
    · exact ih _ hdst.2 (fun b hb => hs b (List.mem_cons_of_mem _ hb)) hmt

theorem copiedFolder_content (t : Tree) (moves : List Move)
    (hdst : (moves.map (·.dst)).Nodup) (hs : ∀ m ∈ moves, (Dict.get? m.src t).isSome)
    (m : Move) (hm : m ∈ moves) :
    Dict.get? m.dst (copiedFolder t moves) = Dict.get? m.src t := by
  rw [copiedFolder_eq]
  exact foldl_copyStep_content t moves [] hdst hs m hm

/-! ### the sort -/

theorem insertByDepth_perm (m : String) (l : List String) : (insertByDepth m l).Perm (m :: l) := by
  induction l with
  | nil => exact List.Perm.refl _
  | cons x xs ih =>
    unfold insertByDepth
    split
    · exact List.Perm.refl _
    · exact ((List.Perm.cons x ih).trans (List.Perm.swap m x xs))

theorem insertByDepth_sorted (m : String) (l : List String)
    (hl : l.Pairwise (fun a b => count '/' a ≥ count '/' b)) :
    (insertByDepth m l).Pairwise (fun a b => count '/' a ≥ count '/' b) := by
  induction l with
  | nil => simp [insertByDepth]
  | cons x xs ih =>
    rw [List.pairwise_cons] at hl
    unfold insertByDepth
    split
    · next hge =>
      rw [List.pairwise_cons]
      refine ⟨?_, List.pairwise_cons.mpr hl⟩
      intro y hy
      rcases List.mem_cons.mp hy with rfl | hy
      · exact hge
      · exact Nat.le_trans (hl.1 y hy) hge
    · next hlt =>
      rw [List.pairwise_cons]
      refine ⟨?_, ih hl.2⟩
      intro y hy
      have hy' := (insertByDepth_perm m xs).mem_iff.mp hy
      rcases List.mem_cons.mp hy' with rfl | hy'
      · omega
      · exact hl.1 y hy'

/-- the pairs of point `i` in a list of entries, in file order -/
def pairsOf (i : Int) (es : List (Int × List String)) : List String := (es.filter (fun e => e.1 == i)).flatMap (·.2)

theorem pairsOf_cons (i : Int) (e : Int × List String) (rest : List (Int × List String)) :
    pairsOf i (e :: rest) = (if e.1 == i then e.2 else []) ++ pairsOf i rest := by
  unfold pairsOf
  by_cases h : e.1 == i <;> simp [List.filter_cons, h]

theorem pairsOf_of_not_any (i : Int) (es : List (Int × List String)) (h : es.any (fun e => e.1 == i) = false) : pairsOf i es = [] := by
  unfold pairsOf
  have : es.filter (fun e => e.1 == i) = [] := by
    rw [List.filter_eq_nil_iff]
    intro e he hh
    have := List.any_eq_false.mp h e he
    exact this hh
  rw [this]; rfl

theorem group_step_get (acc : List (Int × List String)) (e : Int × List String) (i : Int) :
    Dict.get? i (groupStep acc e) =
    if i = e.1 then some (((Dict.get? i acc).getD []) ++ e.2) else Dict.get? i acc := by
  unfold groupStep
  by_cases h : i = e.1
  · subst h
    cases hg : Dict.get? e.1 acc with
    | none => simp [Dict.get?_set_self]
    | some ps => simp [Dict.get?_set_self]
  · cases hg : Dict.get? e.1 acc with
    | none => simp [h, Dict.get?_set_ne _ _ _ _ h]
    | some ps => simp [h, Dict.get?_set_ne _ _ _ _ h]

theorem group_fold_get (es : List (Int × List String)) : ∀ (acc : List (Int × List String)) (i : Int),
    Dict.get? i (es.foldl groupStep acc) =
    if (es.any (fun e => e.1 == i)) then some (((Dict.get? i acc).getD []) ++ pairsOf i es) else Dict.get? i acc := by
  induction es with
  | nil => intro acc i; simp
  | cons e rest ih =>
    intro acc i
    rw [List.foldl_cons, ih, group_step_get, pairsOf_cons, List.any_cons]
    by_cases h : i = e.1
    · subst h
      have hb : (e.1 == e.1) = true := by simp
      rw [if_pos rfl, hb]
      simp only [Bool.true_or, if_true, Option.getD_some]
      cases hr : rest.any (fun x => x.1 == e.1)
      · simp [pairsOf_of_not_any _ _ hr]
      · simp [List.append_assoc]
    · have hb : (e.1 == i) = false := by simpa using fun e' => h e'.symm
      rw [if_neg h, hb, Bool.false_or]
      simp

theorem groupEntries_get (es : List (Int × List String)) (i : Int) :
    Dict.get? i (groupEntries es) = if (es.any (fun e => e.1 == i)) then some (pairsOf i es) else none := by
  have h := group_fold_get es [] i
  unfold groupEntries
  rw [h]
  simp [Dict.get?]

theorem insertGroup_perm (g : Int × List String) (l : List (Int × List String)) : (insertGroup g l).Perm (g :: l) := by
  induction l with
  | nil => exact List.Perm.refl _
  | cons h t ih =>
    unfold insertGroup
    split
    · exact List.Perm.refl _
    · exact (List.Perm.cons h ih).trans (List.Perm.swap g h t)

theorem sortGroups_perm' (l : List (Int × List String)) : (sortGroups l).Perm l := by
  induction l with
  | nil => exact List.Perm.refl _
  | cons x xs ih =>
    show (insertGroup x (sortGroups xs)).Perm (x :: xs)
    exact (insertGroup_perm x _).trans (List.Perm.cons x ih)

end Kapture.C20
