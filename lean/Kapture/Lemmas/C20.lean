/-
  Lemmas/C20.lean — specification-side definitions and helper lemmas for C20.
-/
import Kapture.Model.C20

namespace Kapture.C20
open Kapture

/-- the moves of one feature folder: every data file `dir/rel` goes to `dir/ty/rel` -/
def movesOf (dir ty : String) (rels : List String) : List Move :=
  rels.map (fun r => ⟨dir ++ "/" ++ r, dir ++ "/" ++ ty ++ "/" ++ r⟩)

/-- what a folder must look like afterwards, whatever the route: each file under its type, with its own content -/
def copiedFolder (t : Tree) (moves : List Move) : Tree :=
  moves.foldl (fun o m => match Dict.get? m.src t with
    | some c => Dict.set m.dst c o
    | none => o) []

/-- moves listed deepest source first -/
def DeepestFirst (moves : List Move) : Prop :=
  moves.Pairwise (fun a b => count '/' a.src ≥ count '/' b.src)

/-- every destination is exactly one level deeper than its source, sources are distinct, destinations are distinct -/
def WellFormedMoves (moves : List Move) : Prop :=
  (∀ m ∈ moves, count '/' m.dst = count '/' m.src + 1) ∧ (moves.map (·.src)).Nodup ∧ (moves.map (·.dst)).Nodup

/-! ### one move -/

theorem moveFile_nodup (t : Tree) (m : Move) (hk : (Dict.keys t).Nodup) : (Dict.keys (moveFile t m)).Nodup := by
  unfold moveFile
  split
  · exact Dict.nodup_set _ _ _ (Dict.nodup_erase _ _ hk)
  · exact hk

/-- a path that is neither the source nor the destination of a move is not affected by it -/
theorem get?_moveFile_other (t : Tree) (m : Move) (p : String) (h1 : p ≠ m.src) (h2 : p ≠ m.dst) :
    Dict.get? p (moveFile t m) = Dict.get? p t := by
  unfold moveFile
  split
  · rw [Dict.get?_set_ne _ _ _ _ h2, Dict.get?_erase_ne _ _ _ h1]
  · rfl

/-- the destination of a move whose source exists holds the source's content -/
theorem get?_moveFile_dst (t : Tree) (m : Move) (c : Content) (h : Dict.get? m.src t = some c) :
    Dict.get? m.dst (moveFile t m) = some c := by
  unfold moveFile
  rw [h]
  exact Dict.get?_set_self _ _ _

/-! ### a list of moves -/

theorem foldl_moveFile_nodup (moves : List Move) (t : Tree) (hk : (Dict.keys t).Nodup) :
    (Dict.keys (moves.foldl moveFile t)).Nodup := by
  induction moves generalizing t with
  | nil => exact hk
  | cons h tl ih => exact ih _ (moveFile_nodup t h hk)

theorem foldl_moveFile_other (moves : List Move) (t : Tree) (p : String)
    (hp : ∀ m ∈ moves, p ≠ m.src ∧ p ≠ m.dst) :
    Dict.get? p (moves.foldl moveFile t) = Dict.get? p t := by
  induction moves generalizing t with
  | nil => rfl
  | cons h tl ih =>
    rw [List.foldl_cons, ih _ (fun m hm => hp m (List.mem_cons_of_mem _ hm))]
    exact get?_moveFile_other t h p (hp h List.mem_cons_self).1 (hp h List.mem_cons_self).2

/-- the depth argument: a destination is never the source of a move that is not deeper -/
theorem dst_ne_src_of_depth (a b : Move) (ha : count '/' a.dst = count '/' a.src + 1)
    (hab : count '/' a.src ≥ count '/' b.src) : a.dst ≠ b.src := by
  intro he
  rw [he] at ha
  omega

theorem foldl_moveFile_content (moves : List Move) (t : Tree)
    (hw : WellFormedMoves moves) (hd : DeepestFirst moves) (hs : ∀ m ∈ moves, (Dict.get? m.src t).isSome)
    (m : Move) (hm : m ∈ moves) :
    Dict.get? m.dst (moves.foldl moveFile t) = Dict.get? m.src t := by
  induction moves generalizing t with
  | nil => cases hm
  | cons h tl ih =>
    obtain ⟨hdepth, hsrc, hdst⟩ := hw
    simp only [List.map_cons, List.nodup_cons, List.mem_map, not_exists, not_and] at hsrc hdst
    unfold DeepestFirst at hd
    rw [List.pairwise_cons] at hd
    have hdh := hdepth h List.mem_cons_self
    -- the head move touches no later source
    have hlater : ∀ b ∈ tl, Dict.get? b.src (moveFile t h) = Dict.get? b.src t := by
      intro b hb
      apply get?_moveFile_other
      · intro he; exact hsrc.1 b hb he
      · intro he; exact dst_ne_src_of_depth h b hdh (hd.1 b hb) he.symm
    rw [List.foldl_cons]
    rcases List.mem_cons.mp hm with rfl | hmt
    · -- the head itself: its destination survives the tail
      rw [foldl_moveFile_other tl _ m.dst]
      · have := hs m List.mem_cons_self
        cases hc : Dict.get? m.src t with
        | none => rw [hc] at this; cases this
        | some c => exact get?_moveFile_dst t m c hc
      · intro b hb
        refine ⟨dst_ne_src_of_depth m b hdh (hd.1 b hb), ?_⟩
        intro he; exact hdst.1 b hb he.symm
    · rw [ih (moveFile t h) ⟨fun b hb => hdepth b (List.mem_cons_of_mem _ hb), hsrc.2, hdst.2⟩ hd.2
        (fun b hb => by rw [hlater b hb]; exact hs b (List.mem_cons_of_mem _ hb)) hmt]
      exact hlater m hmt

/-! ### the copy route -/

/-- the step function of the copy route -/
def copyStep (t : Tree) (o : Tree) (m : Move) : Tree :=
  match Dict.get? m.src t with
  | some c => Dict.set m.dst c o
  | none => o

theorem copiedFolder_eq (t : Tree) (moves : List Move) : copiedFolder t moves = moves.foldl (copyStep t) [] := rfl

theorem foldl_copyStep_other (t : Tree) (moves : List Move) (o : Tree) (p : String)
    (hp : ∀ m ∈ moves, p ≠ m.dst) :
    Dict.get? p (moves.foldl (copyStep t) o) = Dict.get? p o := by
  induction moves generalizing o with
  | nil => rfl
  | cons h tl ih =>
    rw [List.foldl_cons, ih _ (fun m hm => hp m (List.mem_cons_of_mem _ hm))]
    unfold copyStep
    split
    · exact Dict.get?_set_ne _ _ _ _ (hp h List.mem_cons_self)
    · rfl

theorem foldl_copyStep_content (t : Tree) (moves : List Move) (o : Tree)
    (hdst : (moves.map (·.dst)).Nodup) (hs : ∀ m ∈ moves, (Dict.get? m.src t).isSome)
    (m : Move) (hm : m ∈ moves) :
    Dict.get? m.dst (moves.foldl (copyStep t) o) = Dict.get? m.src t := by
  induction moves generalizing o with
  | nil => cases hm
  | cons h tl ih =>
    simp only [List.map_cons, List.nodup_cons, List.mem_map, not_exists, not_and] at hdst
    rw [List.foldl_cons]
    rcases List.mem_cons.mp hm with rfl | hmt
    · rw [foldl_copyStep_other t tl _ m.dst (fun b hb he => hdst.1 b hb he.symm)]
      have := hs m List.mem_cons_self
      unfold copyStep
      cases hc : Dict.get? m.src t with
      | none => rw [hc] at this; cases this
      | some c => exact Dict.get?_set_self _ _ _
    · exact ih _ hdst.2 (fun b hb => hs b (List.mem_cons_of_mem _ hb)) hmt

theorem copiedFolder_content (t : Tree) (moves : List Move)
    (hdst : (moves.map (·.dst)).Nodup) (hs : ∀ m ∈ moves, (Dict.get? m.src t).isSome)
    (m : Move) (hm : m ∈ moves) :
    Dict.get? m.dst (copiedFolder t moves) = Dict.get? m.src t := by
  rw [copiedFolder_eq]
  exact foldl_copyStep_content t moves [] hdst hs m hm

/-! ### the sort -/

theorem insertByDepth_perm (m : String) (l : List String) : (insertByDepth m l).Perm (m :: l) := by
  induction l with
  | nil => exact List.Perm.refl _
  | cons x xs ih =>
    unfold insertByDepth
    split
    · exact List.Perm.refl _
    · exact ((List.Perm.cons x ih).trans (List.Perm.swap m x xs))

theorem insertByDepth_sorted (m : String) (l : List String)
    (hl : l.Pairwise (fun a b => count '/' a ≥ count '/' b)) :
    (insertByDepth m l).Pairwise (fun a b => count '/' a ≥ count '/' b) := by
  induction l with
  | nil => simp [insertByDepth]
  | cons x xs ih =>
    rw [List.pairwise_cons] at hl
    unfold insertByDepth
    split
    · next hge =>
      rw [List.pairwise_cons]
      refine ⟨?_, List.pairwise_cons.mpr hl⟩
      intro y hy
      rcases List.mem_cons.mp hy with rfl | hy
      · exact hge
      · exact Nat.le_trans (hl.1 y hy) hge
    · next hlt =>
      rw [List.pairwise_cons]
      refine ⟨?_, ih hl.2⟩
      intro y hy
      have hy' := (insertByDepth_perm m xs).mem_iff.mp hy
      rcases List.mem_cons.mp hy' with rfl | hy'
      · omega
      · exact hl.1 y hy'

end Kapture.C20
