/-
  Drivers/C03.lean — runs Model/C03.
  requests: {"op":"array","item":n,"rows":r,"cols":c,"bits":[naturals]}           -> {"bytes":[...], "back":{"rows":..,"cols":..,"bits":[..]}|null}
            {"op":"read","item":n,"dsize":c,"bytes":[...]}                         -> {"arr":{...}|null}
            {"op":"fpath","root":s,"kind":k,"type":t,"image":i}                    -> {"path":s,"member":s,"image_back":s}
            {"op":"mpath","root":s,"type":t,"a":i,"b":j}                           -> {"path":s,"member":s,"pair_back":[a,b]|null}
-/
import Kapture.Base.DriverCore
import Kapture.Model.C03

open Lean Kapture Kapture.Driver Kapture.C03

def nats (j : Json) : List Nat := ((getArr? j).getD #[]).toList.filterMap getNat?
def natsJson (l : List Nat) : Json := Json.arr (l.map (fun (x : Nat) => intJson (Int.ofNat x))).toArray
def arrJson (a : Arr) : Json :=
  Json.mkObj [("item", intJson a.item), ("rows", intJson a.rows), ("cols", intJson a.cols), ("bits", natsJson a.bits)]
def str? (j : Json) (k : String) : String := ((field? j k).bind getStr?).getD ""
def nat? (j : Json) (k : String) : Nat := ((field? j k).bind getNat?).getD 0
def S (s : String) : Str := s.toList
def U (s : Str) : String := String.ofList s

def kindRow (k : String) : Option (String × String × String) := Gen.FileNames.featureFiles.find? (fun e => e.1 == k)

def handle (j : Json) : Json :=
  match str? j "op" with
  | "array" =>
    let a : Arr := { item := nat? j "item", rows := nat? j "rows", cols := nat? j "cols", bits := nats ((field? j "bits").getD Json.null) }
    let bytes := toFile a
    Json.mkObj [("bytes", natsJson bytes), ("back", match fromFile a.item a.cols bytes with
      | some b => arrJson b
      | none => Json.null)]
  | "read" =>
    Json.mkObj [("arr", match fromFile (nat? j "item") (nat? j "dsize") (nats ((field? j "bytes").getD Json.null)) with
      | some b => arrJson b
      | none => Json.null)]
  | "fpath" =>
    match kindRow (str? j "kind") with
    | none => err "bad-kind"
    | some (_, dir, ext) =>
      let p := featurePath (S (str? j "root")) (S dir) (S (str? j "type")) (S (str? j "image")) (S ext)
      Json.mkObj [("path", U p), ("member", U (tarMember (S (str? j "image")) (S ext))),
        ("image_back", U (imageOfRelative (relativeOf (S (str? j "root")) (S dir) (S (str? j "type")) p) (S ext)))]
  | "mpath" =>
    match kindRow "matches" with
    | none => err "bad-kind"
    | some (_, dir, ext) =>
      let sep := S Gen.FileNames.pairSeparator
      let rel := matchRelative (S (str? j "a")) (S (str? j "b")) sep (S ext)
      let p := S (str? j "root") ++ sl ++ S dir ++ sl ++ S (str? j "type") ++ sl ++ rel
      Json.mkObj [("path", U p), ("member", U rel), ("pair_back", match pairOfRelative rel sep (S ext) with
        | some (a, b) => Json.arr #[Json.str (U a), Json.str (U b)]
        | none => Json.null)]
  | _ => err "bad-op"

def main : IO Unit := Kapture.Driver.run handle
