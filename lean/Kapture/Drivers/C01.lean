/-
  Drivers/C01.lean — runs Model/C01 (writers) and Base/Csv (reader).
  requests: {"op":"save","d":{...token-level dataset...}}  -> {"files":{relative path: text}}
            {"op":"parse","text":s}                        -> {"rows":[[fields]]}
            {"op":"spaces"}                                -> {"codes":[...]}   (the str.isspace table of the model)
            {"op":"int","tokens":[s]}                      -> {"ints":[n|null]}
-/
import Kapture.Base.DriverCore
import Kapture.Model.C01Typed
import Kapture.Model.C01Points

open Lean Kapture Kapture.Driver Kapture.Csv Kapture.C01 Kapture.Gen.RecordSchemas

def U (s : Str) : String := String.ofList s
def strsOf (j : Json) : List Str := ((getArr? j).getD #[]).toList.filterMap (fun x => (getStr? x).map S)
def rowsOf (j : Json) : List (List Str) := ((getArr? j).getD #[]).toList.map strsOf
def optRows (j : Option Json) : Option (List (List Str)) :=
  match j with
  | some Json.null => none
  | some x => some (rowsOf x)
  | none => none
def arr (j : Json) : List Json := ((getArr? j).getD #[]).toList
def objEntries' (j : Json) : List (String × Json) :=
  match j with
  | Json.obj o => o.toList.map (fun kv => (kv.1, kv.2))
  | _ => []
def nth (j : Json) (i : Nat) : Json := ((getArr? j).bind (fun a => a[i]?)).getD Json.null
def intOf (j : Json) : Int := (getInt? j).getD 0
def strOf (j : Json) : Str := S ((getStr? j).getD "")

def parseWifi (j : Option Json) : Option (List Wifi) :=
  match j with
  | some Json.null => none
  | some x => some ((arr x).map (fun e =>
      { ts := intOf (nth e 0), dev := strOf (nth e 1),
        signals := (arr (nth e 2)).map (fun s => (strOf (nth s 0), strsOf (nth s 1))) }))
  | none => none

def parseTData (j : Json) : TData :=
  { sensors := optRows (field? j "sensors"),
    rigs := optRows (field? j "rigs"),
    trajectories := match field? j "trajectories" with
      | some Json.null => none
      | some x => some ((arr x).map (fun e => (intOf (nth e 0), strOf (nth e 1), strsOf (nth e 2))))
      | none => none,
    recordsFile := (objEntries' ((field? j "recordsFile").getD Json.null)).map (fun kv =>
      (kv.1, (arr kv.2).map (fun e => (intOf (nth e 0), strOf (nth e 1), strOf (nth e 2))))),
    recordsGeneric := (objEntries' ((field? j "recordsGeneric").getD Json.null)).map (fun kv =>
      (kv.1, (arr kv.2).map (fun e => (intOf (nth e 0), strOf (nth e 1), strsOf (nth e 2))))),
    wifi := parseWifi (field? j "wifi"),
    bluetooth := parseWifi (field? j "bluetooth"),
    features := (objEntries' ((field? j "features").getD Json.null)).map (fun kv =>
      (kv.1, (objEntries' kv.2).map (fun tc => (tc.1, strsOf tc.2)))),
    observations := match field? j "observations" with
      | some Json.null => none
      | some x => some ((arr x).map (fun e =>
          { idx := intOf (nth e 0), kt := strOf (nth e 1),
            pairs := (arr (nth e 2)).map (fun p => (strOf (nth p 0), strOf (nth p 1))) }))
      | none => none,
    points := match field? j "points" with
      | some Json.null => none
      | some x => some ((match nth x 0 with
          | Json.bool b => b
          | _ => false), rowsOf (nth x 1))
      | none => none }

/-- the driver's floats are the tokens themselves: a token counts as a float when Python's float() takes it (digits, sign,
  point, exponent, inf / nan spellings, digit-group underscores) -/
def floatLike (s : Str) : Bool :=
  !s.isEmpty && s.all (fun ch => ch.isDigit || "+-._eEinfatyINFATY".toList.contains ch) &&
    (match s.head? with
     | some ch => ch.isDigit || "+-.inIN".toList.contains ch
     | none => false)

def tokenCodec : Codec Str := { render := id, parse := fun s => if floatLike s then some s else none }

def errJson : DecodeErr → Json
  | DecodeErr.arity => Json.arr #[Json.str "error", Json.str "arity"]
  | DecodeErr.value => Json.arr #[Json.str "error", Json.str "value"]

def toksJson (l : List Str) : Json := Json.arr (l.map (fun f => Json.str (U f))).toArray

def poseJson (p : Pose Str) : List Json :=
  [match p.r with
   | some (w, x, y, z) => toksJson [w, x, y, z]
   | none => Json.null,
   match p.t with
   | some (x, y, z) => toksJson [x, y, z]
   | none => Json.null]

def valTok : Val Str → Str
  | Val.int i => showInt i
  | Val.flt x => x
  | Val.str s => s

def decodeRow (kind : String) (file : String) (row : List Str) : Json :=
  let ok (l : List Json) : Json := Json.arr (Json.str "ok" :: l).toArray
  match kind with
  | "traj" => match decodeTrajRow tokenCodec row with
    | Except.ok (ts, dev, p) => ok ([intJson ts, Json.str (U dev)] ++ poseJson p)
    | Except.error e => errJson e
  | "rig" => match decodeRigRow tokenCodec row with
    | Except.ok (rig, dev, p) => ok ([Json.str (U rig), Json.str (U dev)] ++ poseJson p)
    | Except.error e => errJson e
  | "generic" => match decodeRecordRow tokenCodec (schemaOf file) row with
    | Except.ok (ts, dev, vs) => ok [intJson ts, Json.str (U dev), toksJson (vs.map valTok)]
    | Except.error e => errJson e
  | "wifi" => match decodeSignalRow tokenCodec (wifiSignal.map (·.2)) row with
    | Except.ok (ts, dev, addr, vs) => ok [intJson ts, Json.str (U dev), Json.str (U addr), toksJson (vs.map valTok)]
    | Except.error e => errJson e
  | "bluetooth" => match decodeSignalRow tokenCodec (bluetoothSignal.map (·.2)) row with
    | Except.ok (ts, dev, addr, vs) => ok [intJson ts, Json.str (U dev), Json.str (U addr), toksJson (vs.map valTok)]
    | Except.error e => errJson e
  | "filerec" => match decodeFileRecordRow row with
    | Except.ok (ts, dev, p) => ok [intJson ts, Json.str (U dev), Json.str (U p)]
    | Except.error e => errJson e
  | "obs" => match decodeObservationRow row with
    | Except.ok (idx, kt, ps) => ok [intJson idx, Json.str (U kt),
        Json.arr (ps.map (fun p => Json.arr #[Json.str (U p.1), intJson p.2])).toArray]
    | Except.error e => errJson e
  | _ => err "bad-kind"

def handle (j : Json) : Json :=
  match (field? j "op").bind getStr? with
  | some "save" =>
    let files := save (parseTData ((field? j "d").getD Json.null))
    Json.mkObj [("files", Json.mkObj (files.map (fun f => (f.1, Json.str (U f.2)))))]
  | some "parse" =>
    let rows := parseFile (strOf ((field? j "text").getD Json.null))
    Json.mkObj [("rows", Json.arr (rows.map (fun r => Json.arr (r.map (fun f => Json.str (U f))).toArray)).toArray)]
  | some "decode" =>
    -- the typed layer: every data row of a written file decoded the way its reader does
    let rows := parseFile (strOf ((field? j "text").getD Json.null))
    let kind := ((field? j "kind").bind getStr?).getD ""
    let file := ((field? j "file").bind getStr?).getD ""
    Json.mkObj [("decoded", Json.arr (rows.map (decodeRow kind file)).toArray)]
  | some "points" =>
    -- the number format of points3d.txt: is each written token a nearest count of 10^-d units of the exact value?
    let items := (((field? j "items").bind getArr?).getD #[]).toList
    Json.mkObj [("decimals", intJson (Int.ofNat Gen.Headers.pointsDecimals)),
      ("nearest", Json.arr (items.map (fun it =>
        match (it.getArrVal? 0).toOption.bind getRat?, (it.getArrVal? 1).toOption.bind getStr? with
        | some x, some t => Json.bool (tokenNearest x t.toList)
        | _, _ => Json.bool false)).toArray)]
  | some "spaces" => Json.mkObj [("codes", Json.arr (pySpaceCodes.map (fun (n : Nat) => intJson (Int.ofNat n))).toArray)]
  | some "int" =>
    Json.mkObj [("ints", Json.arr ((strsOf ((field? j "tokens").getD Json.null)).map (fun t =>
      match readInt (strip t) with
      | some i => intJson i
      | none => Json.null)).toArray)]
  | _ => err "bad-op"

def main : IO Unit := Kapture.Driver.run handle
