/-
  Drivers/C05.lean — runs Model/C05 on exact rationals.
  requests: {"op":"rot","q":[w,x,y,z]} | {"op":"compose","poses":[[w,x,y,z,tx,ty,tz],...]}
            {"op":"inverse","pose":[..7..]} | {"op":"transform","pose":[..7..],"points":[[x,y,z(,r,g,b)],...]}
            {"op":"hist","pool":[poses],"steps":[...]}  a history over pose OBJECTS (inverse / rescale in place / compose)
-/
import Kapture.Base.DriverCore
import Kapture.Model.C05

open Lean Kapture Kapture.Driver Kapture.C05

def parsePose (j : Json) : Option (Pose Rat) := do
  let a ← getArr? j
  let xs ← mapM? getRat? a
  match xs with
  | [w, x, y, z, tx, ty, tz] => some ⟨⟨w, x, y, z⟩, ⟨tx, ty, tz⟩⟩
  | _ => none

def poseJson (p : Pose Rat) : Json :=
  Json.arr #[ratJson p.r.w, ratJson p.r.x, ratJson p.r.y, ratJson p.r.z, ratJson p.t.x, ratJson p.t.y, ratJson p.t.z]

def v3Json (v : V3 Rat) : Json := Json.arr #[ratJson v.x, ratJson v.y, ratJson v.z]

def m3Json (m : M3 Rat) : Json :=
  Json.arr #[ratJson m.m00, ratJson m.m01, ratJson m.m02, ratJson m.m10, ratJson m.m11, ratJson m.m12,
             ratJson m.m20, ratJson m.m21, ratJson m.m22]

def parseRow (j : Json) : Option (Row Rat) := do
  let a ← getArr? j
  let xs ← mapM? getRat? a
  match xs with
  | [x, y, z] => some ⟨⟨x, y, z⟩, none⟩
  | [x, y, z, r, g, b] => some ⟨⟨x, y, z⟩, some ⟨r, g, b⟩⟩
  | _ => none

def handle (j : Json) : Json :=
  match (field? j "op").bind getStr? with
  | some "rot" =>
    match (field? j "q").bind getArr? |>.bind (mapM? getRat?) with
    | some [w, x, y, z] =>
      let q : Quat Rat := ⟨w, x, y, z⟩
      if Gen.RotMat.qnorm q = 0 then err "zero-norm" else Json.mkObj [("m", m3Json (rot q))]
    | _ => err "bad-q"
  | some "compose" =>
    match (field? j "poses").bind getArr? |>.bind (mapM? parsePose) with
    | some ps =>
      if ps.any (fun p => Gen.RotMat.qnorm p.r = 0) then err "zero-norm" else
      match compose ps with
      | some c => Json.mkObj [("pose", poseJson c)]
      | none => err "IndexError"
    | none => err "bad-poses"
  | some "inverse" =>
    match (field? j "pose").bind parsePose with
    | some p => if Gen.RotMat.qnorm p.r = 0 then err "zero-norm" else Json.mkObj [("pose", poseJson (inverse p))]
    | none => err "bad-pose"
  | some "transform" =>
    match (field? j "pose").bind parsePose, (field? j "points").bind getArr? |>.bind (mapM? parseRow) with
    | some p, some rows =>
      if Gen.RotMat.qnorm p.r = 0 then err "zero-norm" else
      Json.mkObj [("points", Json.arr ((transformPoints p rows).map v3Json).toArray)]
    | _, _ => err "bad-transform"
  | some "hist" =>
    -- {"op":"hist","pool":[pose...],"steps":[["inverse",i] | ["rescale",i,s] | ["compose",[i...]]]} -> {"pool":[pose...]}
    match (field? j "pool").bind getArr? |>.bind (mapM? parsePose) with
    | some pool =>
      let steps : List (HistOp Rat) := (((field? j "steps").bind getArr?).getD #[]).toList.filterMap (fun st =>
        let a := ((getArr? st).getD #[]).toList
        match a with
        | [Json.str "inverse", i] => (getNat? i).map HistOp.inverse
        | [Json.str "rescale", i, sc] => do some (HistOp.rescale (← getNat? i) (← getRat? sc))
        | [Json.str "compose", is] => some (HistOp.compose (((getArr? is).getD #[]).toList.filterMap getNat?))
        | _ => none)
      if pool.any (fun p => Gen.RotMat.qnorm p.r = 0) then err "zero-norm" else
      Json.mkObj [("pool", Json.arr ((runHist pool steps).map poseJson).toArray)]
    | none => err "bad-pool"
  | _ => err "bad-op"

def main : IO Unit := run handle
