/-
  Drivers/C13.lean — runs Model/C13 (poses on exact rationals, everything else on tokens / integers).
  requests:
    {"op":"loop",
     "cameras":[[sensor_id, model, [w,h,params... tokens]],...]      cameras in `sensors.items()` order
     "records":[[ts, sensor_id, image_name],...]
     "matches":[[name1, name2, [[i,j],...]],...]                      pairs in lexical order
     "points":[[[tokens (3 or 6)], [[image_name, feature_idx],...]],...]
     "rigs":[[rig,[[member,[w,x,y,z,tx,ty,tz]]]]], "traj":[[ts,dev,[..7 rationals..]]]}
      -> {"imageIds":[[name,id]], "cameraIds":[[sensor,id]], "dbCameras":[[id,modelId,w,h,[params]]],
          "dbMatches":[[pair_id(string),[[i,j]]]], "matches":[[name1,name2,[[i,j]]]],
          "imageCameras":[[image_name, model, [params]]], "poses":[[image_name,[7 rationals],[9 rationals]]],
          "lines":[[id,[xyz],[rgb],[[image_id,idx]]]], "points":[[[6 tokens],[[image_name,idx]]]]}   | {"error":..}
    {"op":"pair","a":"..","b":".."} -> {"pid":"..","back":["..",".."]}
    {"op":"decode","p":".."}        -> {"back":["..",".."]}
    {"op":"table"}                  -> {"table":[[name,id,count],...]}
    text layer (Model/C13Text):
    {"op":"images_txt","n":k,"entries":[[id,[7 pose tokens],cam,name,[[x,y,id],...]],...]} -> {"text":..}
    {"op":"images_pass1","text":..} -> {"images":[[id,[pose tokens],cam,name]|null,...]}
    {"op":"join","lines":[[tokens],...]} -> {"lines":[..]}        a line = its tokens joined by single blanks
    {"op":"tokens","lines":[..]} -> {"tokens":[[..],...]}          re.findall('[^,\\s]+', line)
-/
import Kapture.Base.DriverCore
import Kapture.Model.C13
import Kapture.Model.C13Text

open Lean Kapture Kapture.Driver Kapture.C05 Kapture.C13 Kapture.Gen.PairId

abbrev P13 := Pose Rat

def arr13 (j : Json) : List Json := ((getArr? j).getD #[]).toList
def nth13 (j : Json) (i : Nat) : Json := ((getArr? j).bind (fun a => a[i]?)).getD Json.null
def str13 (j : Json) : String := (getStr? j).getD ""
def fieldD (j : Json) (k : String) : Json := (field? j k).getD Json.null
def strs13 (j : Json) : List String := (arr13 j).filterMap getStr?
def bigJson (i : Int) : Json := Json.str (toString i)

def parsePose13 (j : Json) : Option P13 := do
  let a ← getArr? j
  let xs ← mapM? getRat? a
  match xs with
  | [w, x, y, z, tx, ty, tz] => some ⟨⟨w, x, y, z⟩, ⟨tx, ty, tz⟩⟩
  | _ => none

def poseJson13 (p : P13) : Json :=
  Json.arr #[ratJson p.r.w, ratJson p.r.x, ratJson p.r.y, ratJson p.r.z, ratJson p.t.x, ratJson p.t.y, ratJson p.t.z]

def m3Json13 (m : M3 Rat) : Json :=
  Json.arr #[ratJson m.m00, ratJson m.m01, ratJson m.m02, ratJson m.m10, ratJson m.m11, ratJson m.m12,
             ratJson m.m20, ratJson m.m21, ratJson m.m22]

def rowsJson13 (rows : MatchRows) : Json := Json.arr (rows.map (fun r => Json.arr #[intJson r.1, intJson r.2])).toArray
def toksJson (l : List String) : Json := Json.arr (l.map Json.str).toArray

def parseRows13 (j : Json) : MatchRows :=
  (arr13 j).filterMap (fun r => do some ((← getNat? (nth13 r 0)), (← getNat? (nth13 r 1))))

def handleLoop (j : Json) : Json :=
  let cams : List (String × Camera) := (arr13 (fieldD j "cameras")).map (fun c =>
    (str13 (nth13 c 0), { model := str13 (nth13 c 1), params := strs13 (nth13 c 2) }))
  let records : List Record := (arr13 (fieldD j "records")).map (fun r =>
    ((getInt? (nth13 r 0)).getD 0, str13 (nth13 r 1), str13 (nth13 r 2)))
  let ms : List ((String × String) × MatchRows) := (arr13 (fieldD j "matches")).map (fun m =>
    ((str13 (nth13 m 0), str13 (nth13 m 1)), parseRows13 (nth13 m 2)))
  let pts : List (Row × List (String × Nat)) := (arr13 (fieldD j "points")).map (fun p =>
    (strs13 (nth13 p 0), (arr13 (nth13 p 1)).filterMap (fun o => do some (str13 (nth13 o 0), (← getNat? (nth13 o 1))))))
  let rigs : Option (C06.Rigs P13) := (arr13 (fieldD j "rigs")).mapM (fun r => do
    let members ← (arr13 (nth13 r 1)).mapM (fun m => do
      let p ← parsePose13 (nth13 m 1)
      some (str13 (nth13 m 0), p))
    some (str13 (nth13 r 0), members))
  let traj : Option (Traj Rat) := (arr13 (fieldD j "traj")).mapM (fun e => do
    let p ← parsePose13 (nth13 e 2)
    some { ts := (getInt? (nth13 e 0)).getD 0, dev := str13 (nth13 e 1), g := p })
  match rigs, traj with
  | some rigs, some traj =>
    match exportCameras cams with
    | Except.error e => err e
    | Except.ok db =>
      let ids := imageIds records
      let camIds := cameraIds (cams.map Prod.fst)
      let dbMatches := exportMatches ids ms
      let back := importMatches ids dbMatches
      let exported := exportTrajectory rigs traj
      let posed := posedImages exported records
      let pids := posedIds ids (posed.map Prod.fst)
      match exportPoints ids pts with
      | none => err "KeyError"
      | some lines =>
        let imported := importPoints pids lines
        Json.mkObj [
          ("imageIds", Json.arr (ids.map (fun e => Json.arr #[Json.str e.1, intJson e.2])).toArray),
          ("cameraIds", Json.arr (camIds.map (fun e => Json.arr #[Json.str e.1, intJson e.2])).toArray),
          ("dbCameras", Json.arr (db.map (fun e => Json.arr #[intJson e.1, intJson e.2.modelId, Json.str e.2.width,
              Json.str e.2.height, toksJson e.2.params])).toArray),
          ("dbMatches", Json.arr (dbMatches.map (fun e => Json.arr #[bigJson e.1, rowsJson13 e.2])).toArray),
          ("matches", Json.arr (back.map (fun e => Json.arr #[Json.str e.1.1, Json.str e.1.2, rowsJson13 e.2])).toArray),
          ("imageCameras", Json.arr (records.map (fun r =>
              match imageCamera camIds db r.2.1 with
              | some c => Json.arr #[Json.str r.2.2, Json.str c.model, toksJson c.params]
              | none => Json.arr #[Json.str r.2.2, Json.null, Json.null])).toArray),
          ("poses", Json.arr (posed.map (fun e => Json.arr #[Json.str e.1, poseJson13 e.2, m3Json13 (rot e.2.r)])).toArray),
          ("lines", Json.arr (lines.map (fun l => Json.arr #[intJson l.id, toksJson l.xyz, toksJson l.rgb,
              Json.arr (l.track.map (fun o => Json.arr #[intJson o.1, intJson o.2])).toArray])).toArray),
          ("points", Json.arr (imported.map (fun p => Json.arr #[toksJson p.1,
              Json.arr (p.2.map (fun o => Json.arr #[Json.str o.1, intJson o.2])).toArray])).toArray)]
  | _, _ => err "bad-input"

def cs13 (j : Json) : Csv.Str := (str13 j).toList
def us13 (s : Csv.Str) : Json := Json.str (String.ofList s)

def handle (j : Json) : Json :=
  match (field? j "op").bind getStr? with
  | some "loop" => handleLoop j
  | some "images_txt" =>
    let es : List C13Text.ImageEntry := (arr13 (fieldD j "entries")).map (fun e =>
      { id := (getInt? (nth13 e 0)).getD 0, pose := (arr13 (nth13 e 1)).map cs13, cam := (getInt? (nth13 e 2)).getD 0,
        name := cs13 (nth13 e 3), p2d := (arr13 (nth13 e 4)).map (fun p => (cs13 (nth13 p 0), cs13 (nth13 p 1), cs13 (nth13 p 2))) })
    Json.mkObj [("text", us13 (C13Text.imagesTxt ((getNat? (fieldD j "n")).getD 0) es))]
  | some "images_pass1" =>
    Json.mkObj [("images", Json.arr ((C13Text.imagesFirstPass (cs13 (fieldD j "text"))).map (fun o =>
      match o with
      | some (id, pose, cam, name) => Json.arr #[intJson id, Json.arr (pose.map us13).toArray, intJson cam, us13 name]
      | none => Json.null)).toArray)]
  | some "join" =>
    Json.mkObj [("lines", Json.arr ((arr13 (fieldD j "lines")).map (fun l => us13 (C13Text.spaceJoin ((arr13 l).map cs13)))).toArray)]
  | some "tokens" =>
    Json.mkObj [("tokens", Json.arr ((arr13 (fieldD j "lines")).map (fun l =>
      Json.arr ((C13Text.tokens (Csv.rstrip (cs13 l))).map us13).toArray)).toArray)]
  | some "pair" =>
    match (field? j "a").bind getInt?, (field? j "b").bind getInt? with
    | some a, some b =>
      let p := toPairId a b
      let back := ofPairId p
      Json.mkObj [("pid", bigJson p), ("back", Json.arr #[bigJson back.1, bigJson back.2])]
    | _, _ => err "bad-pair"
  | some "decode" =>
    match (field? j "p").bind getInt? with
    | some p => let back := ofPairId p; Json.mkObj [("back", Json.arr #[bigJson back.1, bigJson back.2])]
    | none => err "bad-decode"
  | some "table" =>
    Json.mkObj [("table", Json.arr (cameraModels.map (fun e => Json.arr #[Json.str e.1, intJson e.2.1, intJson e.2.2])).toArray),
                ("max", bigJson maxImageId)]
  | _ => err "bad-op"

def main : IO Unit := Kapture.Driver.run handle
