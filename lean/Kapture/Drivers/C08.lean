/-
  Drivers/C08.lean — runs Model/C08.
  request : {"a":{part:{"tbl":null|[[key,val]]} | {"coll":null|[[type,config,[members]]]}}, "b":{...}, "close":[[v,w],...]}
  response: {"equal":bool,"equal_swapped":bool}   (close(v,w) := v == w or [v,w] listed; swapped uses the mirrored list)
-/
import Kapture.Base.DriverCore
import Kapture.Model.C08

open Lean Kapture Kapture.Driver Kapture.C08

def strs8 (j : Json) : List String :=
  match getArr? j with
  | some a => a.toList.filterMap getStr?
  | none => []

def parsePart (j : Json) : Part :=
  match field? j "tbl", field? j "coll" with
  | some Json.null, _ => Part.tbl none
  | some t, _ => Part.tbl ((getArr? t).map (fun a => a.toList.filterMap (fun kv => do
      let kv ← getArr? kv
      some (strs8 (← kv[0]?), (← kv[1]? >>= getStr?)))))
  | none, some Json.null => Part.coll none
  | none, some c => Part.coll ((getArr? c).map (fun a => a.toList.filterMap (fun e => do
      let e ← getArr? e
      some ((← e[0]? >>= getStr?), (← e[1]? >>= getStr?), strs8 (← e[2]?)))))
  | none, none => Part.tbl none

def parseDataset (j : Json) : Dataset := fun p =>
  match field? j p with
  | some x => parsePart x
  | none => Part.tbl none

def handle (j : Json) : Json :=
  let a := parseDataset ((field? j "a").getD Json.null)
  let b := parseDataset ((field? j "b").getD Json.null)
  let pairs : List (String × String) := (((field? j "close").bind getArr?).getD #[]).toList.filterMap (fun p =>
    match strs8 p with
    | [v, w] => some (v, w)
    | _ => none)
  let close (v w : String) : Bool := v == w || pairs.contains (v, w)
  let closeSw (v w : String) : Bool := v == w || pairs.contains (w, v)
  Json.mkObj [("equal", Json.bool (equalKapture close a b)), ("equal_swapped", Json.bool (equalKapture closeSw b a))]

def main : IO Unit := Kapture.Driver.run handle
