/-
  Drivers/C04.lean — runs Model/C04.loadDir with the current version GENERATED from csv.py.
  request : {"version":null|s,"sensors":[[id,type]],"rigs":null|[[rig,member]],"trajectories":null|[[ts,dev]],
             "records":{kind:[[ts,dev,tag]]},"keypoints":null|[[type,[names]]],"descriptors":..,"global_features":..,
             "matches":null|[[type,[[a,b]]]],"points3d":bool,"observations":null|[[idx,type,image,feature]]}
  response: {"error":cls} | the same shape with what was loaded
-/
import Kapture.Base.DriverCore
import Kapture.Model.C04

open Lean Kapture Kapture.Driver Kapture.C04

def arr4 (j : Json) : List Json := ((getArr? j).getD #[]).toList
def nth4 (j : Json) (i : Nat) : Json := ((getArr? j).bind (fun a => a[i]?)).getD Json.null
def s4 (j : Json) : String := (getStr? j).getD ""
def i4 (j : Json) : Int := (getInt? j).getD 0
def opt4 {α : Type} (j : Option Json) (f : Json → α) : Option α :=
  match j with
  | some Json.null => none
  | some x => some (f x)
  | none => none

def featColl (j : Json) : List (String × Tok × List String) :=
  (arr4 j).map (fun t => (s4 (nth4 t 0), "", (arr4 (nth4 t 1)).map s4))

def parseDir (j : Json) : Dir :=
  { version := opt4 (field? j "version") s4,
    sensors := (arr4 ((field? j "sensors").getD Json.null)).map (fun r => (s4 (nth4 r 0), s4 (nth4 r 1), "")),
    rigs := opt4 (field? j "rigs") (fun x => (arr4 x).map (fun r => (s4 (nth4 r 0), s4 (nth4 r 1), ""))),
    trajectories := opt4 (field? j "trajectories") (fun x => (arr4 x).map (fun r => (i4 (nth4 r 0), s4 (nth4 r 1), ""))),
    records := match (field? j "records").getD Json.null with
      | Json.obj o => o.toList.map (fun kv => (kv.1, (arr4 kv.2).map (fun r => (i4 (nth4 r 0), s4 (nth4 r 1), s4 (nth4 r 2)))))
      | _ => [],
    keypoints := opt4 (field? j "keypoints") featColl,
    descriptors := opt4 (field? j "descriptors") featColl,
    globalFeatures := opt4 (field? j "global_features") featColl,
    matchSets := opt4 (field? j "matches") (fun x => (arr4 x).map (fun t =>
      (s4 (nth4 t 0), (arr4 (nth4 t 1)).map (fun p => (s4 (nth4 p 0), s4 (nth4 p 1)))))),
    points3d := match field? j "points3d" with
      | some (Json.bool true) => some ""
      | _ => none,
    observations := opt4 (field? j "observations") (fun x => (arr4 x).map (fun o =>
      (i4 (nth4 o 0), s4 (nth4 o 1), s4 (nth4 o 2), i4 (nth4 o 3)))) }

def optJ {α : Type} (o : Option α) (f : α → Json) : Json :=
  match o with
  | some x => f x
  | none => Json.null

def featJ (c : List (String × Tok × List String)) : Json :=
  Json.arr (c.map (fun t => Json.arr #[Json.str t.1, Json.arr (t.2.2.map Json.str).toArray])).toArray

def handle (j : Json) : Json :=
  match loadDir Gen.Headers.currentVersion (parseDir j) with
  | Except.error e => Json.mkObj [("error", Json.str (match e with
      | Err.typeError => "TypeError"
      | Err.newerVersion => "FileNotFoundError"
      | Err.collision => "ValueError"
      | Err.assertion => "AssertionError"))]
  | Except.ok l =>
    Json.mkObj [
      ("sensors", Json.arr (l.sensors.map (fun s => Json.arr #[Json.str s.1, Json.str s.2.1])).toArray),
      ("rigs", optJ l.rigs (fun rs => Json.arr (rs.map (fun r => Json.arr #[Json.str r.1, Json.str r.2.1])).toArray)),
      ("trajectories", optJ l.trajectories (fun rs => Json.arr (rs.map (fun r => Json.arr #[intJson r.1, Json.str r.2.1])).toArray)),
      ("records", Json.mkObj (l.records.map (fun kr =>
        (kr.1, Json.arr (kr.2.map (fun r => Json.arr #[intJson r.1, Json.str r.2.1, Json.str r.2.2])).toArray)))),
      ("keypoints", optJ l.keypoints featJ), ("descriptors", optJ l.descriptors featJ),
      ("global_features", optJ l.globalFeatures featJ),
      ("matches", optJ l.matchSets (fun c => Json.arr (c.map (fun t =>
        Json.arr #[Json.str t.1, Json.arr (t.2.map (fun p => Json.arr #[Json.str p.1, Json.str p.2])).toArray])).toArray)),
      ("points3d", Json.bool l.points3d.isSome),
      ("observations", optJ l.observations (fun os => Json.arr (os.map (fun o =>
        Json.arr #[intJson o.1, Json.str o.2.1, Json.str o.2.2.1, intJson o.2.2.2])).toArray))]

def main : IO Unit := Kapture.Driver.run handle
