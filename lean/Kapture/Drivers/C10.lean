/-
  Drivers/C10.lean — runs Model/C10.
  request : {"skip":[type names], "ids":[{"sensors":null|[ids],"rigs":null|[ids]},...],
             "inputs":[{attr: null | [[key(list of str), value str], ...]}, ...]}
  response: {"mappings":[{"sensors":[[old,new]],"rigs":[[old,new]]}], "simple":{attr: null|[[key,value]]}} | {"error":"KeyError"}
-/
import Kapture.Base.DriverCore
import Kapture.Model.C09
import Kapture.Model.C10

open Lean Kapture Kapture.Driver Kapture.C10

def render : NewId → String
  | NewId.sensor n => s!"sensor{n}"
  | NewId.rig n => s!"rig{n}"

def renderComp : Comp → String
  | Comp.str s => s
  | Comp.new i => render i

def strList' (j : Json) : List String :=
  match getArr? j with
  | some a => a.toList.filterMap getStr?
  | none => []

def optStrList (j : Option Json) : Option (List String) :=
  match j with
  | some Json.null => none
  | some x => some (strList' x)
  | none => none

def parseTable' (j : Json) : Option Table :=
  match j with
  | Json.null => none
  | _ => (getArr? j).map (fun a => a.toList.filterMap (fun kv => do
      let kv ← getArr? kv
      let k ← kv[0]?
      let v ← kv[1]? >>= getStr?
      some (strList' k, v)))

def partOf (j : Json) (attr : String) : Option Table := (field? j attr).bind parseTable'

def outJson (t : OutTable) : Json :=
  Json.arr (t.map (fun kv => Json.arr #[Json.arr (kv.1.map (fun c => Json.str (renderComp c))).toArray, Json.str kv.2])).toArray

def mapJson (m : Mapping) : Json := Json.arr (m.map (fun e => Json.arr #[Json.str e.1, Json.str (render e.2)])).toArray

def handle (j : Json) : Json :=
  let skip := strList' ((field? j "skip").getD Json.null)
  let ids : List InputIds := (((field? j "ids").bind getArr?).getD #[]).toList.map (fun i =>
    { sensors := optStrList (field? i "sensors"), rigs := optStrList (field? i "rigs") })
  let inputs := (((field? j "inputs").bind getArr?).getD #[]).toList
  let maps := computeNewIds ids 0 0
  let smaps := maps.map (·.1)
  let guards (attr : String) := (Dict.get? attr Gen.MergeDispatch.remapGuards).getD []
  let mergePart (attr : String) (arity : String) : Except Err (Option OutTable) :=
    if !C09.guardHolds skip (guards attr) then Except.ok none else
    let tables := inputs.map (fun i => partOf i attr)
    let r := if attr == "rigs" then mergeRigs tables maps
      else if attr == "trajectories" then mergeTrajectories tables maps
      else if arity == "key1" then mergeRenamed 0 false tables smaps
      else if arity == "key3" then mergeRenamed 1 true tables smaps
      else mergeRenamed 1 false tables smaps
    match r with
    | Except.ok t => Except.ok (if t.isEmpty then none else some t)
    | Except.error e => Except.error e
  let parts := Gen.MergeDispatch.remapArity.mapM (fun e => (mergePart e.1 e.2).map (fun t => (e.1, t)))
  match parts with
  | Except.error _ => err "KeyError"
  | Except.ok ps =>
    Json.mkObj [
      ("mappings", Json.arr (maps.map (fun m => Json.mkObj [("sensors", mapJson m.1), ("rigs", mapJson m.2)])).toArray),
      ("simple", Json.mkObj (ps.map (fun e => (e.1, match e.2 with
        | some t => outJson t
        | none => Json.null))))]

def main : IO Unit := Kapture.Driver.run handle
