/-
  Drivers/C06.lean — runs Model/C06 with G := C05.Pose Rat (exact rationals), mul := compose2, inv := inverse.
  request : {"op":"remove"|"recover","rigs":[[rig,[[member,[w,x,y,z,tx,ty,tz]]]]],"traj":[[ts,dev,[..7..]]],
             "masters":null|[ids],"depth":n}
  response: {"traj":[[ts,dev,[..7 rationals..]]]}
-/
import Kapture.Base.DriverCore
import Kapture.Model.C05
import Kapture.Model.C06

open Lean Kapture Kapture.Driver Kapture.C05 Kapture.C06

abbrev P := Pose Rat

def parsePose6 (j : Json) : Option P := do
  let a ← getArr? j
  let xs ← mapM? getRat? a
  match xs with
  | [w, x, y, z, tx, ty, tz] => some ⟨⟨w, x, y, z⟩, ⟨tx, ty, tz⟩⟩
  | _ => none

def poseJson6 (p : P) : Json :=
  Json.arr #[ratJson p.r.w, ratJson p.r.x, ratJson p.r.y, ratJson p.r.z, ratJson p.t.x, ratJson p.t.y, ratJson p.t.z]

def arr6 (j : Json) : List Json := ((getArr? j).getD #[]).toList
def nth6 (j : Json) (i : Nat) : Json := ((getArr? j).bind (fun a => a[i]?)).getD Json.null

def keyLt (a b : Entry P) : Bool := a.ts < b.ts || (a.ts == b.ts && a.dev < b.dev)

def sortEntries (t : List (Entry P)) : List (Entry P) := (t.toArray.qsort keyLt).toList

def recoverLoop (rigs : Rigs P) (masters : Option (List String)) : Nat → List (Entry P) → List (Entry P)
  | 0, t => t
  | n + 1, t =>
    if hasMemberEntry inverse rigs t then recoverLoop rigs masters n (recoverStep compose2 inverse rigs masters (sortEntries t))
    else t

def handle (j : Json) : Json :=
  let rigs : Option (Rigs P) := (arr6 ((field? j "rigs").getD Json.null)).mapM (fun r => do
    let members ← (arr6 (nth6 r 1)).mapM (fun m => do
      let p ← parsePose6 (nth6 m 1)
      some (((getStr? (nth6 m 0)).getD ""), p))
    some (((getStr? (nth6 r 0)).getD ""), members))
  let traj : Option (List (Entry P)) := (arr6 ((field? j "traj").getD Json.null)).mapM (fun e => do
    let p ← parsePose6 (nth6 e 2)
    some { ts := (getInt? (nth6 e 0)).getD 0, dev := (getStr? (nth6 e 1)).getD "", g := p })
  let masters : Option (List String) := match field? j "masters" with
    | some Json.null => none
    | some m => some ((arr6 m).filterMap getStr?)
    | none => none
  let depth := ((field? j "depth").bind getNat?).getD 10
  match rigs, traj with
  | some rigs, some traj =>
    let out := match (field? j "op").bind getStr? with
      | some "remove" => remove compose2 rigs depth traj
      | _ => recoverLoop rigs masters depth traj
    Json.mkObj [("traj", Json.arr (out.map (fun e => Json.arr #[intJson e.ts, Json.str e.dev, poseJson6 e.g])).toArray)]
  | _, _ => err "bad-input"

def main : IO Unit := Kapture.Driver.run handle
