/-
  Drivers/C16.lean — runs Model/C16.
  requests: {"op":"dtype","names":[s]}                      -> {"results":["ok:<name>"|"ValueError"]}
            {"op":"load","present":[rel paths],"current":b} -> {"reads":[rel paths]}
            {"op":"upgrade","params":{..},"tree":[[path,["t",[lines]]|["b",id]]]} -> {"effects":[[kind,p(,q)]]} | {"error":cls}
-/
import Kapture.Base.DriverCore
import Kapture.Model.C16

open Lean Kapture Kapture.Driver Kapture.C20 Kapture.C16

def arrY (j : Json) : List Json := ((getArr? j).getD #[]).toList
def nthY (j : Json) (i : Nat) : Json := ((getArr? j).bind (fun a => a[i]?)).getD Json.null
def optSY (j : Option Json) : Option String :=
  match j with
  | some (Json.str s) => some s
  | _ => none

def parseTreeY (j : Json) : Tree :=
  (arrY j).map (fun e =>
    let c := nthY e 1
    ((getStr? (nthY e 0)).getD "", match (getStr? (nthY c 0)).getD "" with
      | "t" => Content.text ((arrY (nthY c 1)).filterMap getStr?)
      | _ => Content.blob ((getNat? (nthY c 1)).getD 0)))

def effJson : Effect → Json
  | Effect.read p => Json.arr #[Json.str "read", Json.str p]
  | Effect.write p => Json.arr #[Json.str "write", Json.str p]
  | Effect.remove p => Json.arr #[Json.str "remove", Json.str p]
  | Effect.move s d => Json.arr #[Json.str "move", Json.str s, Json.str d]

def handle (j : Json) : Json :=
  match (field? j "op").bind getStr? with
  | some "dtype" =>
    Json.mkObj [("results", Json.arr (((arrY ((field? j "names").getD Json.null)).filterMap getStr?).map (fun s =>
      match parseDtype s with
      | Except.ok t => Json.str ("ok:" ++ t)
      | Except.error e => Json.str e)).toArray)]
  | some "load" =>
    let present := (arrY ((field? j "present").getD Json.null)).filterMap getStr?
    let current := match field? j "current" with
      | some (Json.bool b) => b
      | _ => true
    Json.mkObj [("reads", Json.arr ((loadReads present current).map effJson).toArray)]
  | some "upgrade" =>
    let pj := (field? j "params").getD Json.null
    let p : Params := { kp := optSY (field? pj "kp"), desc := optSY (field? pj "desc"), gf := optSY (field? pj "gf"),
                        descMetric := (optSY (field? pj "descMetric")).getD "L2", gfMetric := (optSY (field? pj "gfMetric")).getD "L2" }
    match upgradeEffects p (parseTreeY ((field? j "tree").getD Json.null)) with
    | Except.ok es => Json.mkObj [("effects", Json.arr (es.map effJson).toArray), ("all_inside", Json.bool (es.all Effect.inside))]
    | Except.error (Err.assertion _) => err "AssertionError"
    | Except.error (Err.valueError _) => err "ValueError"
  | _ => err "bad-op"

def main : IO Unit := Kapture.Driver.run handle
