/-
  Drivers/C11.lean — runs Model/C11.
  request : {"recons":[{"points":null|[[tokens]], "cols":3|6, "obs":null|[[idx,type,image,feature],...]}, ...], "pointsOnly":bool}
  response: {"cols":c,"points":[[tokens]],"obs":[[idx,type,image,feature]]} | {"error":"ValueError"}
-/
import Kapture.Base.DriverCore
import Kapture.Model.C11

open Lean Kapture Kapture.Driver Kapture.C11

def parseRecon (j : Json) : Recon :=
  let pts : Option (List Row) := match field? j "points" with
    | some Json.null => none
    | some p => (getArr? p).map (fun a => a.toList.map (fun r => ((getArr? r).getD #[]).toList.filterMap getStr?))
    | none => none
  let obs : Option (List Obs) := match field? j "obs" with
    | some Json.null => none
    | some o => (getArr? o).map (fun a => a.toList.filterMap (fun e => do
        let e ← getArr? e
        some ((← e[0]? >>= getNat?), (← e[1]? >>= getStr?), (← e[2]? >>= getStr?), (← e[3]? >>= getNat?))))
    | none => none
  { points := pts, cols := ((field? j "cols").bind getNat?).getD 6, obs := obs }

def rowsJson (rows : List Row) : Json := Json.arr (rows.map (fun r => Json.arr (r.map Json.str).toArray)).toArray

def handle (j : Json) : Json :=
  let rs := (((field? j "recons").bind getArr?).getD #[]).toList.map parseRecon
  let pointsOnly := match field? j "pointsOnly" with
    | some (Json.bool b) => b
    | _ => false
  if pointsOnly then
    match mergePoints (rs.map (fun r => r.points.map (fun p => (r.cols, p)))) with
    | Except.ok (c, pts) => Json.mkObj [("cols", intJson c), ("points", rowsJson pts), ("obs", Json.arr #[])]
    | Except.error e => err e
  else
    match mergePointsObs rs with
    | Except.ok (c, pts, obs) =>
      Json.mkObj [("cols", intJson c), ("points", rowsJson pts),
        ("obs", Json.arr (obs.map (fun o => Json.arr #[intJson o.1, Json.str o.2.1, Json.str o.2.2.1, intJson o.2.2.2])).toArray)]
    | Except.error e => err e

def main : IO Unit := Kapture.Driver.run handle
