/-
  Drivers/C12.lean — runs Model/C12.
  request : {"appends":[[name,[bytes]],...],"k":n}
  response: {"read":[[name,[bytes]]...] (latest version of every visible name, sorted), "length":bytes on disk}
-/
import Kapture.Base.DriverCore
import Kapture.Model.C12

open Lean Kapture Kapture.Driver Kapture.C12

def handle (j : Json) : Json :=
  let appends : Archive := (((field? j "appends").bind getArr?).getD #[]).toList.filterMap (fun e => do
    let e ← getArr? e
    some ((← e[0]? >>= getStr?), ((← e[1]? >>= getArr?).toList.filterMap getNat?)))
  let k := ((field? j "k").bind getNat?).getD appends.length
  let a := crashAfter k appends
  let ns := (names a).toArray.qsort (· < ·)
  Json.mkObj [
    ("read", Json.arr (ns.map (fun n => Json.arr #[Json.str n, Json.arr (((read a n).getD []).map (fun (x : Nat) => intJson (Int.ofNat x))).toArray]))),
    ("length", intJson (lengthBytes a))]

def main : IO Unit := Kapture.Driver.run handle
