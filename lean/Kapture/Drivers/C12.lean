/-
  Drivers/C12.lean — runs Model/C12.
  request : {"appends":[[name,[bytes]],...],"k":n}
  response: {"read":[[name,[bytes]]...] (latest version of every visible name, sorted), "length":bytes on disk}
-/
import Kapture.Base.DriverCore
import Kapture.Model.C12

open Lean Kapture Kapture.Driver Kapture.C12

/-- request {"members":[[name,"data",[id]] | [name,"hard",target] | [name,"sym",target]...]} : what every name reads back -/
def handleLinks (j : Json) : Json :=
  let ms : LArchive := (((field? j "members").bind getArr?).getD #[]).toList.filterMap (fun e => do
    let e ← getArr? e
    let n ← e[0]? >>= getStr?
    let k ← e[1]? >>= getStr?
    match k with
    | "data" => some (n, Member.data ((← e[2]? >>= getArr?).toList.filterMap getNat?))
    | "hard" => some (n, Member.hard (← e[2]? >>= getStr?))
    | "sym" => some (n, Member.sym (← e[2]? >>= getStr?))
    | _ => none)
  let ns := ((ms.map (·.1)).eraseDups).toArray.qsort (· < ·)
  Json.mkObj [("reads", Json.arr (ns.map (fun n => Json.arr #[Json.str n,
    match readL ms n with
    | some b => Json.arr (b.map (fun (x : Nat) => intJson (Int.ofNat x))).toArray
    | none => Json.null])))]

def handle (j : Json) : Json :=
  if (field? j "members").isSome then handleLinks j else
  let appends : Archive := (((field? j "appends").bind getArr?).getD #[]).toList.filterMap (fun e => do
    let e ← getArr? e
    some ((← e[0]? >>= getStr?), ((← e[1]? >>= getArr?).toList.filterMap getNat?)))
  let k := ((field? j "k").bind getNat?).getD appends.length
  let a := crashAfter k appends
  let ns := (names a).toArray.qsort (· < ·)
  Json.mkObj [
    ("read", Json.arr (ns.map (fun n => Json.arr #[Json.str n, Json.arr (((read a n).getD []).map (fun (x : Nat) => intJson (Int.ofNat x))).toArray]))),
    ("length", intJson (lengthBytes a))]

def main : IO Unit := Kapture.Driver.run handle
