/-
  Drivers/C15.lean — runs Model/C15.  Rationals travel as "num/den" strings, names as JSON strings.
  requests / responses:
    {"op":"camera","type":"SIMPLE_PINHOLE"|"SIMPLE_RADIAL"|"RADIAL"|other,"params":[w,h,f,cx,cy,k1,k2]}
        -> {"exported":{"width":int,"height":int,"focal":rat,"k1":rat,"k2":rat},"imported":[w,h,f,cx,cy,k1,k2],"centred":bool}
         | {"error":"ValueError"}
    {"op":"points","n":N}
        -> {"nbDigits":k,"keys":[str,...],"order":[int,...]}     order = importPoints (exportPoints [0..N-1])
    {"op":"shots","records":[[ts,cam,image],...],"posed":[[ts,cam],...]}
        -> {"shots":[[image,cam,posed],...],"imported":[[i,cam,image,ts0,cam0],...]} | {"shots":[...],"error":"KeyError"}
    {"op":"matches","images":[image,...],"pairs":[[im1,im2,[[a,b,s],...]],...]}
        -> {"files":[[path,[[im2,[[a,b],...]],...]],...],"imported":[[im1,im2,[[a,b,s],...]],...]}
    {"op":"features","images":[image,...]}
        -> {"files":[path,...],"names":[image,...]}
-/
import Kapture.Base.DriverCore
import Kapture.Model.C15

open Lean Kapture Kapture.Driver Kapture.C15

def strJson (cs : List Char) : Json := Json.str (String.ofList cs)

def camType (s : String) : CamType :=
  if s == "SIMPLE_PINHOLE" then CamType.simplePinhole
  else if s == "SIMPLE_RADIAL" then CamType.simpleRadial
  else if s == "RADIAL" then CamType.radial
  else CamType.other

def handleCamera (j : Json) : Json :=
  let ps := ((((field? j "params").bind getArr?).getD #[]).toList.map (fun x => (getRat? x).getD 0)).toArray
  let g (i : Nat) : Rat := ps.getD i 0
  let c : Camera := { type := camType (((field? j "type").bind getStr?).getD ""), w := g 0, h := g 1, f := g 2, cx := g 3,
                      cy := g 4, k1 := g 5, k2 := g 6 }
  match exportCamera c with
  | Except.error e => err e
  | Except.ok o =>
    let i := importCamera o
    Json.mkObj [
      ("exported", Json.mkObj [("width", intJson o.width), ("height", intJson o.height), ("focal", ratJson o.focal),
                               ("k1", ratJson o.k1), ("k2", ratJson o.k2)]),
      ("imported", Json.arr #[ratJson i.w, ratJson i.h, ratJson i.f, ratJson i.cx, ratJson i.cy, ratJson i.k1, ratJson i.k2]),
      ("centred", Json.bool (centred c))]

def handlePoints (j : Json) : Json :=
  let n := ((field? j "n").bind getNat?).getD 0
  let d := exportPoints (List.range n)
  Json.mkObj [
    ("nbDigits", intJson (nbDigits n)),
    ("keys", Json.arr ((Dict.keys d).map strJson).toArray),
    ("order", Json.arr ((importPoints d).map (fun (i : Nat) => intJson i)).toArray)]

def handleShots (j : Json) : Json :=
  let records : List (Int × String × C15.Name) := (((field? j "records").bind getArr?).getD #[]).toList.filterMap (fun e => do
    let e ← getArr? e
    some ((← e[0]? >>= getInt?), (← e[1]? >>= getStr?), (← e[2]? >>= getStr?).toList))
  let traj : List ((Int × String) × (Int × String)) := (((field? j "posed").bind getArr?).getD #[]).toList.filterMap (fun e => do
    let e ← getArr? e
    let k := ((← e[0]? >>= getInt?), (← e[1]? >>= getStr?))
    some (k, k))
  let shots := exportShots records traj
  let shotsJson := Json.arr (shots.map (fun s => Json.arr #[strJson s.1, Json.str s.2.camera, Json.bool s.2.pose.isSome])).toArray
  match importShots shots with
  | Except.error e => Json.mkObj [("shots", shotsJson), ("error", Json.str e)]
  | Except.ok out =>
    Json.mkObj [("shots", shotsJson),
      ("imported", Json.arr (out.map (fun x =>
        Json.arr #[intJson x.1, Json.str x.2.1, strJson x.2.2.1, intJson x.2.2.2.1, Json.str x.2.2.2.2])).toArray)]

def parseNames (j : Json) (k : String) : List C15.Name :=
  (((field? j k).bind getArr?).getD #[]).toList.filterMap (fun e => (getStr? e).map String.toList)

def handleMatches (j : Json) : Json :=
  let images := parseNames j "images"
  let pairs : List ((C15.Name × C15.Name) × List Row) := (((field? j "pairs").bind getArr?).getD #[]).toList.filterMap (fun e => do
    let e ← getArr? e
    let rows ← e[2]? >>= getArr?
    let rows : List Row := rows.toList.filterMap (fun r => do
      let r ← getArr? r
      some ((← r[0]? >>= getRat?), (← r[1]? >>= getRat?), (← r[2]? >>= getRat?)))
    some (((← e[0]? >>= getStr?).toList, (← e[1]? >>= getStr?).toList), rows))
  let files := exportMatches images pairs
  Json.mkObj [
    ("files", Json.arr (files.map (fun f => Json.arr #[strJson f.1,
      Json.arr (f.2.map (fun e => Json.arr #[strJson e.1,
        Json.arr (e.2.map (fun r => Json.arr #[intJson r.1, intJson r.2])).toArray])).toArray])).toArray),
    ("imported", Json.arr ((importMatches files).map (fun p => Json.arr #[strJson p.1.1, strJson p.1.2,
      Json.arr (p.2.map (fun r => Json.arr #[ratJson r.1, ratJson r.2.1, ratJson r.2.2])).toArray])).toArray)]

def handleFeatures (j : Json) : Json :=
  let files := exportFeatureFiles (parseNames j "images")
  Json.mkObj [("files", Json.arr (files.map strJson).toArray),
              ("names", Json.arr ((importFeatureNames files).map strJson).toArray)]

def handle (j : Json) : Json :=
  match (field? j "op").bind getStr? with
  | some "camera" => handleCamera j
  | some "points" => handlePoints j
  | some "shots" => handleShots j
  | some "matches" => handleMatches j
  | some "features" => handleFeatures j
  | _ => err "bad-op"

def main : IO Unit := Kapture.Driver.run handle
