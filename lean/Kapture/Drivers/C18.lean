/-
  Drivers/C18.lean — runs Model/C18.untar from an empty install directory.
  request : {"dest":[absolute components],"members":[{"kind":"file|dir|sym|hard|special","name":s,"linkname":s,"content":n}]}
  response: {"tree":[[relative path, "file"|"dir"|"link", payload]] sorted, "error":null|class}
-/
import Kapture.Base.DriverCore
import Kapture.Model.C18

open Lean Kapture Kapture.Driver Kapture.C18

def handle (j : Json) : Json :=
  let dest := (((field? j "dest").bind getArr?).getD #[]).toList.filterMap getStr?
  let members : List Member := (((field? j "members").bind getArr?).getD #[]).toList.map (fun m =>
    { kind := match ((field? m "kind").bind getStr?).getD "file" with
        | "dir" => Kind.dir
        | "sym" => Kind.sym
        | "hard" => Kind.hard
        | "special" => Kind.special
        | _ => Kind.file,
      name := ((field? m "name").bind getStr?).getD "",
      linkname := ((field? m "linkname").bind getStr?).getD "",
      content := ((field? m "content").bind getNat?).getD 0 })
  let (fs, e) := untar dest [] members
  let rows := (fs.map (fun n => ("/".intercalate n.1, n.2))).toArray.qsort (fun a b => a.1 < b.1)
  Json.mkObj [
    ("tree", Json.arr (rows.map (fun r => match r.2 with
      | Node.file c => Json.arr #[Json.str r.1, Json.str "file", intJson (Int.ofNat c)]
      | Node.dir => Json.arr #[Json.str r.1, Json.str "dir", Json.null]
      | Node.link t => Json.arr #[Json.str r.1, Json.str "link", Json.str t]))),
    ("error", match e with
      | some w => Json.str w.name
      | none => Json.null)]

def main : IO Unit := Kapture.Driver.run handle
