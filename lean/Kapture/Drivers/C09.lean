/-
  Drivers/C09.lean — runs Model/C09.
  request : {"skip":[type names],
             "inputs":[{attr: null | [[key(list of str), value str], ...]}, ...],
             "feat":{"keypoints":[null | {type:{"config":str,"images":[str]}}, ...], "descriptors":[...], "global_features":[...]},
             "matches":[null | {type:[[a,b],...]}, ...],
             "recfiles":{"records_camera":[[names]...],"records_depth":[[names]...]}}
  response: {"simple":{attr: null|[[key,value]]}, "feat":{kind: null|{type:{"config":..,"images":[[name,src]]}}},
             "matches": null|{type:[[a,b,src]]}, "recfiles":{kind: null|[[name,src]]}}
-/
import Kapture.Base.DriverCore
import Kapture.Model.C09

open Lean Kapture Kapture.Driver Kapture.C09

def strList (j : Json) : List String :=
  match getArr? j with
  | some a => a.toList.filterMap getStr?
  | none => []

def parseTable (j : Json) : Option Table :=
  match j with
  | Json.null => none
  | _ => (getArr? j).map (fun a => a.toList.filterMap (fun kv => do
      let kv ← getArr? kv
      let k ← kv[0]?
      let v ← kv[1]? >>= getStr?
      some (strList k, v)))

def objEntries (j : Json) : List (String × Json) :=
  match j with
  | Json.obj o => o.toList.map (fun kv => (kv.1, kv.2))
  | _ => []

def parseInput (j : Json) : Input := (objEntries j).map (fun kv => (kv.1, parseTable kv.2))

def parseFeatColl (j : Json) : Option FeatColl :=
  match j with
  | Json.null => none
  | _ => some ((objEntries j).map (fun kv =>
      (kv.1, { config := ((field? kv.2 "config").bind getStr?).getD "", images := strList ((field? kv.2 "images").getD Json.null) })))

def parseMatchColl (j : Json) : Option MatchColl :=
  match j with
  | Json.null => none
  | _ => some ((objEntries j).map (fun kv =>
      (kv.1, ((getArr? kv.2).getD #[]).toList.filterMap (fun p =>
        match strList p with
        | [a, b] => some (a, b)
        | _ => none))))

def tableJson : Option Table → Json
  | none => Json.null
  | some t => Json.arr (t.map (fun kv => Json.arr #[Json.arr (kv.1.map Json.str).toArray, Json.str kv.2])).toArray

def listOf (j : Json) (k : String) : List Json := ((field? j k).bind getArr?).getD #[] |>.toList

def handle (j : Json) : Json :=
  let skip := strList ((field? j "skip").getD Json.null)
  let inputs := (listOf j "inputs").map parseInput
  let simple := mergeSimple skip inputs
  let feat := (field? j "feat").getD Json.null
  let featOut (kind : String) : Json :=
    let colls := (listOf feat kind).map parseFeatColl
    if !guardHolds skip (guardsOf kind) || colls.all Option.isNone then Json.null else
    let m := mergeFeat colls
    if m.isEmpty then Json.null else
    Json.mkObj (m.map (fun e => (e.1, Json.mkObj [
      ("config", match e.2.1 with
        | some c => Json.str c
        | none => Json.null),
      ("images", Json.arr (e.2.2.map (fun ns => Json.arr #[Json.str ns.1, intJson ns.2])).toArray)])))
  let mcolls := (listOf j "matches").map parseMatchColl
  let matchesOut : Json :=
    if !guardHolds skip (guardsOf "matches") || mcolls.all Option.isNone then Json.null else
    let m := mergeMatches mcolls
    if m.isEmpty then Json.null else
    Json.mkObj (m.map (fun e => (e.1, Json.arr (e.2.map (fun ps =>
      Json.arr #[Json.str ps.1.1, Json.str ps.1.2, intJson ps.2])).toArray)))
  let rec_ := (field? j "recfiles").getD Json.null
  let recOut (kind : String) : Json :=
    if !guardHolds skip (guardsOf kind) then Json.null else
    let lists := (listOf rec_ kind).map strList
    Json.arr ((mergeRecordFiles lists).map (fun ns => Json.arr #[Json.str ns.1, intJson ns.2])).toArray
  Json.mkObj [
    ("simple", Json.mkObj (simple.map (fun e => (e.1, tableJson e.2)))),
    ("feat", Json.mkObj [("keypoints", featOut "keypoints"), ("descriptors", featOut "descriptors"),
                         ("global_features", featOut "global_features")]),
    ("matches", matchesOut),
    ("recfiles", Json.mkObj [("records_camera", recOut "records_camera"), ("records_depth", recOut "records_depth")])]

def main : IO Unit := Kapture.Driver.run handle
