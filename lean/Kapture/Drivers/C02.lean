/-
  Drivers/C02.lean — the specification side of the text layer.
  requests: {"op":"render","lines":[["c",text] | ["b",blanks] | ["d",[ls],[rs],[fields]]],"eols":[s]}
              -> {"text":s,"content":[[fields]],"parsed":[[fields]]}      (parsed = Base/Csv.parseFile of the text)
            {"op":"parse","text":s} -> {"rows":[[fields]]}
-/
import Kapture.Base.DriverCore
import Kapture.Lemmas.C02

open Lean Kapture Kapture.Driver Kapture.Csv Kapture.C02

def U2 (s : Str) : String := String.ofList s
def strs2 (j : Json) : List Str := ((getArr? j).getD #[]).toList.filterMap (fun x => (getStr? x).map String.toList)
def nth2 (j : Json) (i : Nat) : Json := ((getArr? j).bind (fun a => a[i]?)).getD Json.null
def rowsJ (rows : List (List Str)) : Json := Json.arr (rows.map (fun r => Json.arr (r.map (fun f => Json.str (U2 f))).toArray)).toArray

def parseSpecLine (j : Json) : SpecLine :=
  match (getStr? (nth2 j 0)).getD "" with
  | "c" => SpecLine.comment ((getStr? (nth2 j 1)).getD "").toList
  | "b" => SpecLine.blank ((getStr? (nth2 j 1)).getD "").toList
  | _ => SpecLine.data (strs2 (nth2 j 1)) (strs2 (nth2 j 2)) (strs2 (nth2 j 3))

def handle (j : Json) : Json :=
  match (field? j "op").bind getStr? with
  | some "render" =>
    let lines := (((field? j "lines").bind getArr?).getD #[]).toList.map parseSpecLine
    let eols := strs2 ((field? j "eols").getD Json.null)
    let text := glue (lines.map SpecLine.text) eols
    Json.mkObj [("text", Json.str (U2 text)), ("content", rowsJ (content lines)), ("parsed", rowsJ (parseFile text))]
  | some "parse" => Json.mkObj [("rows", rowsJ (parseFile ((getStr? ((field? j "text").getD Json.null)).getD "").toList))]
  | _ => err "bad-op"

def main : IO Unit := Kapture.Driver.run handle
