/-
  Drivers/C17.lean — runs Model/C17 against a scripted server.
  request : {"prior":{"archive":null|[bytes],"installed":bool},"force":bool,"noClean":bool,"good":[bytes],
             "script":[{"fail":bool,"size":null|n|"garbage","content":[bytes],"honorRange":bool,"cut":null|n,
                        "extra":[bytes],"abort":bool}, ...]}
  the n-th request is answered by script[n] (the last element repeats).  sha256 is modelled as "equals `good`".
  response: {"result":..., "archive":..., "installed":..., "extracted":[[bytes]], "log":[...]}
-/
import Kapture.Base.DriverCore
import Kapture.Model.C17

open Lean Kapture Kapture.Driver Kapture.C17

structure Step where
  fail : Bool
  size : SizeAns
  content : Bytes
  honorRange : Bool
  cut : Option Nat
  extra : Bytes
  abort : Bool

def getBool (j : Json) (k : String) : Bool :=
  match field? j k with
  | some (Json.bool b) => b
  | _ => false

def getBytes (j : Json) (k : String) : Bytes :=
  match (field? j k).bind getArr? with
  | some a => a.toList.filterMap getNat?
  | none => []

def parseStep (j : Json) : Step :=
  { fail := getBool j "fail",
    size := match field? j "size" with
      | some (Json.str _) => SizeAns.garbage
      | some s => match getNat? s with
        | some n => SizeAns.total n
        | none => SizeAns.absent
      | none => SizeAns.absent,
    content := getBytes j "content",
    honorRange := getBool j "honorRange",
    cut := (field? j "cut").bind getNat?,
    extra := getBytes j "extra",
    abort := getBool j "abort" }

def stepResp (s : Step) (r : Req) : RawResp :=
  let base : Bytes := match r with
    | Req.get (some p) => if s.honorRange then s.content.drop p else s.content
    | _ => s.content
  let body := (match s.cut with
    | some k => base.take k
    | none => base) ++ s.extra
  { fail := s.fail, size := s.size, body := body, abort := s.abort }

def scripted (script : List Step) : Server := fun n r =>
  match script[n]? with
  | some s => stepResp s r
  | none => match script.getLast? with
    | some s => stepResp s r
    | none => { fail := true, size := SizeAns.absent, body := [], abort := false }

def bytesJson (b : Bytes) : Json := Json.arr (b.map (fun (x : Nat) => intJson (Int.ofNat x))).toArray

def statusStr : Status → String
  | Status.installed => "installed"
  | Status.notInstalled => "not installed"
  | Status.corrupted => "corrupted"
  | Status.incomplete => "incomplete"
  | Status.downloaded => "downloaded"

def reqStr : Req → String
  | Req.probe => "probe"
  | Req.get none => "get"
  | Req.get (some p) => s!"get:{p}"

def resStr : Except Err Status → String
  | Except.ok st => statusStr st
  | Except.error Err.valueError => "error:ValueError"
  | Except.error Err.connection => "error:ConnectionError"
  | Except.error Err.zeroDivision => "error:ZeroDivisionError"

def worldJson (w : World) (res : String) : Json :=
  Json.mkObj [
    ("result", Json.str res),
    ("archive", match w.archive with
      | some b => bytesJson b
      | none => Json.null),
    ("installed", Json.bool w.installed),
    ("extracted", Json.arr (w.extracted.map bytesJson).toArray),
    ("log", Json.arr (w.log.map (fun r => Json.str (reqStr r))).toArray)]

def parseCall (j : Json) : Call :=
  let script := match (field? j "script").bind getArr? with
    | some a => a.toList.map parseStep
    | none => []
  { force := getBool j "force", noClean := getBool j "noClean", srv := scripted script }

/-- the state after every invocation of the history (through `runCalls` on each prefix, so that what is printed is what the
  theorems are about) -/
def handle (j : Json) : Json :=
  let prior := (field? j "prior").getD Json.null
  let archive : Option Bytes := match (field? prior "archive").bind getArr? with
    | some a => some (a.toList.filterMap getNat?)
    | none => none
  let w : World := { archive := archive, installed := getBool prior "installed", extracted := [], reqs := 0, log := [] }
  let goodB := getBytes j "good"
  let calls : List Call := match (field? j "calls").bind getArr? with
    | some a => a.toList.map parseCall
    | none => []
  let good : Bytes → Bool := fun b => b == goodB
  let outs := (List.range calls.length).map (fun i =>
    let (wi, rs) := runCalls good (calls.take (i + 1)) w
    worldJson wi (match rs.getLast? with
      | some r => resStr r
      | none => "none"))
  Json.mkObj [("calls", Json.arr outs.toArray)]

def main : IO Unit := Kapture.Driver.run handle
