/-
  Drivers/C14.lean — runs Model/C14 on exact rationals.
  request  {"op":"loop","flatten":b,"v2":b,"rootBase":"records_data",
            "records":[[ts,cam,name],...],                      (exporter iteration order)
            "cameras":[[cam,type,w,h,[param rats]],...],         (kapture_data.cameras iteration order)
            "poses":[[ts,cam,[w,x,y,z,tx,ty,tz rats]],...],
            "points":null|[[X,[[name,feat],...]],...],           (X = opaque json)
            "matches":null|[[a,b,[[i,j],...]],...]}
  response {"export":{...}|{"error":e}, "import":{...}|{"error":e}, "ids":..., "regions":...}
  request  {"op":"pose","pose":[7 rats]} -> {"center":[3],"rotation":[9],"t":[3]}
  request  {"op":"cam","v2":b,"cam":[type,w,h,[params]]} -> {"intrinsic":...,"cam":...}
  request  {"op":"flatten","a":s,"b":s} -> {"fa":s,"fb":s,"lt":b,"flt":b}
-/
import Kapture.Base.DriverCore
import Kapture.Model.C14

open Lean Kapture Kapture.Driver Kapture.C05 Kapture.C14

def S (s : String) : Str := s.toList
def U (s : Str) : String := String.ofList s
def sj (s : Str) : Json := Json.str (U s)

def camTypeOf : String → Option CamType
  | "SIMPLE_PINHOLE" => some CamType.SIMPLE_PINHOLE
  | "PINHOLE" => some CamType.PINHOLE
  | "SIMPLE_RADIAL" => some CamType.SIMPLE_RADIAL
  | "RADIAL" => some CamType.RADIAL
  | "OPENCV" => some CamType.OPENCV
  | "FULL_OPENCV" => some CamType.FULL_OPENCV
  | "OPENCV_FISHEYE" => some CamType.OPENCV_FISHEYE
  | "RADIAL_FISHEYE" => some CamType.RADIAL_FISHEYE
  | "SIMPLE_RADIAL_FISHEYE" => some CamType.SIMPLE_RADIAL_FISHEYE
  | _ => none

def camTypeName : CamType → String
  | CamType.SIMPLE_PINHOLE => "SIMPLE_PINHOLE"
  | CamType.PINHOLE => "PINHOLE"
  | CamType.SIMPLE_RADIAL => "SIMPLE_RADIAL"
  | CamType.RADIAL => "RADIAL"
  | CamType.OPENCV => "OPENCV"
  | CamType.FULL_OPENCV => "FULL_OPENCV"
  | CamType.OPENCV_FISHEYE => "OPENCV_FISHEYE"
  | CamType.RADIAL_FISHEYE => "RADIAL_FISHEYE"
  | CamType.SIMPLE_RADIAL_FISHEYE => "SIMPLE_RADIAL_FISHEYE"

def mvgName : MvgModel → String
  | MvgModel.pinhole => "pinhole"
  | MvgModel.pinhole_radial_k1 => "pinhole_radial_k1"
  | MvgModel.pinhole_radial_k3 => "pinhole_radial_k3"
  | MvgModel.pinhole_brown_t2 => "pinhole_brown_t2"
  | MvgModel.fisheye => "fisheye"

def rats (l : List Rat) : Json := Json.arr (l.map ratJson).toArray
def v3Json (v : V3 Rat) : Json := rats [v.x, v.y, v.z]
def m3Json (m : M3 Rat) : Json := rats [m.m00, m.m01, m.m02, m.m10, m.m11, m.m12, m.m20, m.m21, m.m22]
def natJ (n : Nat) : Json := intJson (Int.ofNat n)
def pairsJson (l : List (Nat × Nat)) : Json := Json.arr (l.map (fun p => Json.arr #[natJ p.1, natJ p.2])).toArray

def parseCamBody (ty w h ps : Json) : Option (Cam Rat) := do
  let t ← (getStr? ty).bind camTypeOf
  let w ← getInt? w
  let h ← getInt? h
  let ps ← (getArr? ps).bind (mapM? getRat?)
  some ⟨t, w, h, ps⟩

def camJson (c : Cam Rat) : Json := Json.arr #[Json.str (camTypeName c.type), intJson c.w, intJson c.h, rats c.params]

def intrJson (i : Intrinsic Rat) : Json :=
  let (nested, c, d) := match i.data with
    | IntrData.flat c d => (false, c, d)
    | IntrData.nested c d => (true, c, d)
  Json.arr #[Json.str (mvgName i.model), Json.bool nested, intJson c.w, intJson c.h, ratJson c.f, ratJson c.cx, ratJson c.cy, rats d]

def parsePose7 (j : Json) : Option (Pose Rat) := do
  let xs ← (getArr? j).bind (mapM? getRat?)
  match xs with
  | [w, x, y, z, tx, ty, tz] => some ⟨⟨w, x, y, z⟩, ⟨tx, ty, tz⟩⟩
  | _ => none

def parsePairs (j : Json) : Option (List (Nat × Nat)) :=
  (getArr? j).bind (mapM? (fun e => do
    let a ← getArr? e
    some ((← a[0]? >>= getNat?), (← a[1]? >>= getNat?))))

def getBool (j : Json) (k : String) : Bool :=
  match field? j k with
  | some (Json.bool b) => b
  | _ => false

def parseDataset (j : Json) : Option (Dataset Rat Json) := do
  let recs ← ((field? j "records").bind getArr?).bind (mapM? (fun e => do
    let a ← getArr? e
    some ({ ts := (← a[0]? >>= getInt?), cam := S (← a[1]? >>= getStr?), name := S (← a[2]? >>= getStr?) } : Rec)))
  let cams ← ((field? j "cameras").bind getArr?).bind (mapM? (fun e => do
    let a ← getArr? e
    let c ← parseCamBody (← a[1]?) (← a[2]?) (← a[3]?) (← a[4]?)
    some (S (← a[0]? >>= getStr?), c)))
  let poses ← ((field? j "poses").bind getArr?).bind (mapM? (fun e => do
    let a ← getArr? e
    let p ← (a[2]?).bind parsePose7
    some (((← a[0]? >>= getInt?), S (← a[1]? >>= getStr?)), p)))
  let points : Option (List (Json × PointObs)) ← match field? j "points" with
    | some (Json.arr ps) => (mapM? (fun e => do
        let a ← getArr? e
        let obs ← (a[1]? >>= getArr?).bind (mapM? (fun o => do
          let oa ← getArr? o
          some (S (← oa[0]? >>= getStr?), (← oa[1]? >>= getNat?))))
        some ((← a[0]?), obs)) ps).map some
    | _ => some none
  let pairs : Option (List ((Str × Str) × List (Nat × Nat))) ← match field? j "matches" with
    | some (Json.arr ms) => (mapM? (fun e => do
        let a ← getArr? e
        let rows ← (a[2]?).bind parsePairs
        some ((S (← a[0]? >>= getStr?), S (← a[1]? >>= getStr?)), rows)) ms).map some
    | _ => some none
  some { recs := recs, cams := cams, poses := poses, points := points, pairs := pairs }

def optArr {β} (f : β → Json) : Option (List β) → Json
  | none => Json.null
  | some l => Json.arr (l.map f).toArray

def sfmJson (s : Sfm Rat Json) : Json :=
  Json.mkObj [
    ("imagesDir", sj s.imagesDir),
    ("intrinsics", Json.arr (s.intrinsics.map (fun ki => Json.arr #[natJ ki.1, intrJson ki.2])).toArray),
    ("views", Json.arr (s.views.map (fun v =>
      Json.arr #[natJ v.key, natJ v.idView, natJ v.idIntrinsic, natJ v.idPose, sj v.localPath, sj v.filename])).toArray),
    ("extrinsics", Json.arr (s.extrinsics.map (fun e => Json.arr #[natJ e.1, v3Json e.2.1, m3Json e.2.2])).toArray),
    ("structure", optArr (fun (p : Nat × Json × List (Nat × Nat)) => Json.arr #[natJ p.1, p.2.1, pairsJson p.2.2]) s.struct),
    ("matches", optArr (fun (b : (Nat × Nat) × List (Nat × Nat)) => Json.arr #[natJ b.1.1, natJ b.1.2, pairsJson b.2]) s.matchBlocks)]

def importedJson (i : Imported Rat Json) : Json :=
  Json.mkObj [
    ("cameras", Json.arr (i.cams.map (fun kc => Json.arr #[natJ kc.1, camJson kc.2])).toArray),
    ("records", Json.arr (i.recs.map (fun r => Json.arr #[natJ r.1, natJ r.2.1, sj r.2.2])).toArray),
    ("trajectories", Json.arr (i.trajectories.map (fun t =>
      Json.arr #[natJ t.1.1, natJ t.1.2, v3Json t.2.1, m3Json t.2.2])).toArray),
    ("points", match i.points with
      | none => Json.null
      | some l => Json.arr l.toArray),
    ("observations", Json.arr (i.observations.map (fun o => Json.arr #[natJ o.1, sj o.2.1, natJ o.2.2])).toArray),
    ("matches", optArr (fun (m : (Str × Str) × List (Nat × Nat)) => Json.arr #[sj m.1.1, sj m.1.2, pairsJson m.2]) i.pairs)]

def emptyXyz : Json := Json.arr #[Json.num ⟨0, 0⟩, Json.num ⟨0, 0⟩, Json.num ⟨0, 0⟩]

def handle (j : Json) : Json :=
  match (field? j "op").bind getStr? with
  | some "loop" =>
    match parseDataset j with
    | none => err "bad-dataset"
    | some d =>
      if d.poses.any (fun p => Gen.RotMat.qnorm p.2.r = 0) then err "zero-norm" else
      let flatten := getBool j "flatten"
      let rootBase := S (((field? j "rootBase").bind getStr?).getD "")
      let sub := subRoot d.recs
      let ids := Json.mkObj [
        ("cams", Json.arr ((camIds d.recs).map (fun kv => Json.arr #[sj kv.1, natJ kv.2])).toArray),
        ("views", Json.arr ((viewIds d.recs).map (fun kv => Json.arr #[sj kv.1, natJ kv.2])).toArray),
        ("subRoot", sj (joinSlash sub))]
      let regions := Json.arr (d.recs.map (fun r => Json.arr #[sj r.name, sj (regionBaseExport flatten sub r.name)])).toArray
      match exportSfm flatten (getBool j "v2") rootBase d with
      | Except.error e => Json.mkObj [("export", err e), ("ids", ids), ("regions", regions)]
      | Except.ok s =>
        let imp := match importSfm emptyXyz s with
          | Except.error e => err e
          | Except.ok i => importedJson i
        let lookFor := Json.arr (s.views.map (fun v =>
          let n := importName s.imagesDir v
          Json.arr #[natJ v.idView, sj n, sj (regionBaseImport n)])).toArray
        Json.mkObj [("export", sfmJson s), ("import", imp), ("ids", ids), ("regions", regions), ("lookFor", lookFor)]
  | some "pose" =>
    match (field? j "pose").bind parsePose7 with
    | some p =>
      if Gen.RotMat.qnorm p.r = 0 then err "zero-norm" else
      let c := exportCentre p
      let r := exportRotation p
      Json.mkObj [("center", v3Json c), ("rotation", m3Json r), ("t", v3Json (importT r c))]
    | none => err "bad-pose"
  | some "cam" =>
    match (field? j "cam").bind getArr? with
    | some a =>
      match (do parseCamBody (← a[0]?) (← a[1]?) (← a[2]?) (← a[3]?)) with
      | some c =>
        match exportCam (getBool j "v2") c with
        | some i => Json.mkObj [("intrinsic", intrJson i), ("cam", match importCam i with
            | some c2 => camJson c2
            | none => Json.null)]
        | none => err "IndexError"
      | none => err "bad-cam"
    | none => err "bad-cam"
  | some "flatten" =>
    match (field? j "a").bind getStr?, (field? j "b").bind getStr? with
    | some a, some b =>
      Json.mkObj [("fa", sj (flattenStr (S a))), ("fb", sj (flattenStr (S b))),
                  ("lt", Json.bool (strLt (S a) (S b))), ("flt", Json.bool (strLt (flattenStr (S a)) (flattenStr (S b))))]
    | _, _ => err "bad-flatten"
  | _ => err "bad-op"

def main : IO Unit := Kapture.Driver.run handle
