/-
  Drivers/C19.lean — runs Model/C19 (with the generated tables).
  request : {"only":[names],"skip":[names],"force":bool,"answer":str,"kinds":{relative path: kind name}}
  response: {"outcome":"nothing"} | {"outcome":"refused","paths":[..]} | {"outcome":"deleted","plan":[[path,action],..]}
-/
import Kapture.Base.DriverCore
import Kapture.Model.C19

open Lean Kapture Kapture.Driver Kapture.C19

def parseKind : String → Kind
  | "file" => Kind.file
  | "dir" => Kind.dir
  | "linkFile" => Kind.linkFile
  | "linkDir" => Kind.linkDir
  | "linkDangling" => Kind.linkDangling
  | _ => Kind.absent

def strs (j : Json) (k : String) : List String :=
  match (field? j k).bind getArr? with
  | some a => a.toList.filterMap getStr?
  | none => []

def handle (j : Json) : Json :=
  let kinds : String → Kind := fun p =>
    match (field? j "kinds").bind (fun o => field? o p) |>.bind getStr? with
    | some s => parseKind s
    | none => Kind.absent
  let force := match field? j "force" with
    | some (Json.bool b) => b
    | _ => false
  let a : Args := { only := strs j "only", skip := strs j "skip", force := force,
                    answer := ((field? j "answer").bind getStr?).getD "" }
  match outcome genTables a kinds with
  | Outcome.nothing => Json.mkObj [("outcome", "nothing")]
  | Outcome.refused ps => Json.mkObj [("outcome", "refused"), ("paths", Json.arr (ps.map Json.str).toArray)]
  | Outcome.deleted plan =>
    Json.mkObj [("outcome", "deleted"),
      ("plan", Json.arr (plan.map (fun e => Json.arr #[Json.str e.1, Json.str (match e.2 with
        | Action.unlink => "unlink"
        | Action.rmtree => "rmtree")])).toArray)]

def main : IO Unit := Kapture.Driver.run handle
