/-
  Drivers/C07.lean — runs Model/C07 on whole histories.  Poses/records are natural-number ids.
  request:  {"ops":[["setPair",ts,dev,p],["setTs",ts,[[dev,p],...]],["delPair",ts,dev],["delTs",ts],["hasPair",ts,dev],
                    ["hasTs",ts],["getPair",ts,dev],["sortedList"],["tsLength"],["keyPairs"],["interp",ts,dev,maxI]]}
  response: {"outs":[...]}  or {"numDigits":[...]} for {"numDigits":[n,...]}
-/
import Kapture.Base.DriverCore
import Kapture.Model.C07

open Lean Kapture Kapture.Driver Kapture.C07

def parseOp (j : Json) : Option (Op Nat) := do
  let a ← getArr? j
  let name ← a[0]? >>= getStr?
  match name with
  | "setPair" => some (Op.setPair (← a[1]? >>= getInt?) (← a[2]? >>= getStr?) (← a[3]? >>= getNat?))
  | "setTs" =>
    let inner ← (← a[2]? >>= getArr?).toList.mapM (fun kv => do
      let kv ← getArr? kv
      some ((← kv[0]? >>= getStr?), (← kv[1]? >>= getNat?)))
    some (Op.setTs (← a[1]? >>= getInt?) inner)
  | "delPair" => some (Op.delPair (← a[1]? >>= getInt?) (← a[2]? >>= getStr?))
  | "delTs" => some (Op.delTs (← a[1]? >>= getInt?))
  | "hasPair" => some (Op.hasPair (← a[1]? >>= getInt?) (← a[2]? >>= getStr?))
  | "hasTs" => some (Op.hasTs (← a[1]? >>= getInt?))
  | "getPair" => some (Op.getPair (← a[1]? >>= getInt?) (← a[2]? >>= getStr?))
  | "sortedList" => some Op.sortedList
  | "tsLength" => some Op.tsLength
  | "keyPairs" => some Op.keyPairs
  | "interp" => some (Op.interp (← a[1]? >>= getInt?) (← a[2]? >>= getStr?) (← a[3]? >>= getInt?))
  | _ => none

def outJson : Out Nat → Json
  | Out.ok => Json.str "ok"
  | Out.keyError => Json.str "KeyError"
  | Out.indexError => Json.str "IndexError"
  | Out.bool b => Json.bool b
  | Out.pose p => Json.mkObj [("pose", intJson p)]
  | Out.ints l => Json.mkObj [("ints", Json.arr (l.map intJson).toArray)]
  | Out.int i => Json.mkObj [("int", intJson i)]
  | Out.pairs l => Json.mkObj [("pairs", Json.arr (l.map (fun p => Json.arr #[intJson p.1, Json.str p.2])).toArray)]
  | Out.none => Json.null
  | Out.interp lo lp up upp ts => Json.mkObj [("interp", Json.arr #[intJson lo, intJson lp, intJson up, intJson upp, intJson ts])]

def handle (j : Json) : Json :=
  match field? j "numDigits" with
  | some nd =>
    match getArr? nd |>.bind (mapM? getInt?) with
    | some ns => Json.mkObj [("numDigits", Json.arr (ns.map (fun n => intJson (Gen.NumDigits.numDigits n))).toArray)]
    | none => err "bad-numDigits"
  | none =>
    match (field? j "ops").bind getArr? |>.bind (mapM? parseOp) with
    | some ops => Json.mkObj [("outs", Json.arr ((run init ops).2.map outJson).toArray)]
    | none => err "bad-ops"

def main : IO Unit := Kapture.Driver.run handle
