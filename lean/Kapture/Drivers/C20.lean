/-
  Drivers/C20.lean — runs Model/C20 on a file tree.
  request : {"route":"inplace"|"copy","params":{"kp":null|s,"desc":null|s,"gf":null|s,"descMetric":s,"gfMetric":s},
             "tree":[[path, ["t",[lines]] | ["b",id]], ...]}
  response: {"tree":[[path, ...]] (sorted by path)} | {"error":"AssertionError"|"ValueError"}
-/
import Kapture.Base.DriverCore
import Kapture.Model.C20

open Lean Kapture Kapture.Driver Kapture.C20

def arrX (j : Json) : List Json := ((getArr? j).getD #[]).toList
def nthX (j : Json) (i : Nat) : Json := ((getArr? j).bind (fun a => a[i]?)).getD Json.null
def optS (j : Option Json) : Option String :=
  match j with
  | some (Json.str s) => some s
  | _ => none

def parseTree (j : Json) : Tree :=
  (arrX j).map (fun e =>
    let c := nthX e 1
    ((getStr? (nthX e 0)).getD "", match (getStr? (nthX c 0)).getD "" with
      | "t" => Content.text ((arrX (nthX c 1)).filterMap getStr?)
      | _ => Content.blob ((getNat? (nthX c 1)).getD 0)))

def contentJson : Content → Json
  | Content.text ls => Json.arr #[Json.str "t", Json.arr (ls.map Json.str).toArray]
  | Content.blob i => Json.arr #[Json.str "b", intJson (Int.ofNat i)]

def handle (j : Json) : Json :=
  let pj := (field? j "params").getD Json.null
  let p : Params := { kp := optS (field? pj "kp"), desc := optS (field? pj "desc"), gf := optS (field? pj "gf"),
                      descMetric := (optS (field? pj "descMetric")).getD "L2", gfMetric := (optS (field? pj "gfMetric")).getD "L2" }
  let t := parseTree ((field? j "tree").getD Json.null)
  let r := if (optS (field? j "route")) == some "copy" then upgradeCopy p t else upgradeInplace p t
  match r with
  | Except.error (Err.assertion _) => err "AssertionError"
  | Except.error (Err.valueError _) => err "ValueError"
  | Except.ok out =>
    let sorted := out.toArray.qsort (fun a b => a.1 < b.1)
    Json.mkObj [("tree", Json.arr (sorted.map (fun e => Json.arr #[Json.str e.1, contentJson e.2])))]

def main : IO Unit := Kapture.Driver.run handle
