/-
  Props/C03.lean — property theorems for C03 (feature, match and depth arrays persist bit-exactly as raw little-endian dumps).
  Property theorems ONLY.  For EVERY item size >= 1, every number of rows (including 0) and columns >= 1, every bit pattern.
-/
import Kapture.Lemmas.C03
import Kapture.Gen.IoShapes

namespace Kapture.C03

/-- the file has no header: its size is rows x columns x item size -/
theorem file_size (a : Arr) (h : a.bits.length = a.rows * a.cols) :
    (toFile a).length = a.rows * a.cols * a.item := by
  rw [toFile, length_encode, h]

/-- little-endian, row-major: byte k of element i is bits (8k .. 8k+7) of that element -/
theorem file_is_little_endian_dump (item : Nat) (elems : List Nat) (i k : Nat) (v : Nat)
    (hi : elems[i]? = some v) (hk : k < item) :
    (encode item elems)[i * item + k]? = some ((v / 256 ^ k) % 256) :=
  getElem?_encode item elems i k v hi hk

/-- reading back what was written gives the same bits, for every element type size and every size incl. zero rows -/
theorem decode_encode (item : Nat) (elems : List Nat) (hi : 0 < item) (hf : Fits item elems) :
    decode item (encode item elems) = some elems :=
  decode_encode' item elems hi hf

/-- ... with the same shape -/
theorem fromFile_toFile (a : Arr) (hi : 0 < a.item) (hc : 0 < a.cols) (hs : a.bits.length = a.rows * a.cols)
    (hf : Fits a.item a.bits) :
    fromFile a.item a.cols (toFile a) = some a := by
  simp only [fromFile, toFile, decode_encode' a.item a.bits hi hf, hs, reshapeRows_mul a.rows a.cols hc]

/-- the image name is recovered from the file location (listing a feature folder, or a tar) -/
theorem image_of_feature_path (root dir ty image ext : Str) :
    imageOfRelative (relativeOf root dir ty (featurePath root dir ty image ext)) ext = image ∧
    imageOfRelative (tarMember image ext) ext = image := by
  have hrel : relativeOf root dir ty (featurePath root dir ty image ext) = image ++ ext := by
    unfold relativeOf featurePath
    rw [List.append_assoc _ image ext]
    exact List.drop_left' rfl
  exact ⟨by rw [hrel]; exact take_length_sub image ext, take_length_sub image ext⟩

/-- distinct images (of one type) never share a file -/
theorem feature_path_injective (root dir ty ext i₁ i₂ : Str)
    (h : featurePath root dir ty i₁ ext = featurePath root dir ty i₂ ext) : i₁ = i₂ := by
  unfold featurePath at h
  exact List.append_cancel_left (List.append_cancel_right h)

/-- the pair of image names is recovered from the location of a matches file, when no name contains the separator
  and the separator has no border (true of the generated `.overlapping/`, see `separator_border_free`) -/
theorem pair_of_match_path (a b sep ext : Str) (hs : sep ≠ [])
    (hb : ∀ k, 0 < k → k < (sep ++ sl).length → (sep ++ sl).take k ≠ (sep ++ sl).drop ((sep ++ sl).length - k))
    (ha : Free (sep ++ sl) a) (hbb : Free (sep ++ sl) b)
    (hab : ∀ k, 0 < k → k < (sep ++ sl).length → ¬ ((sep ++ sl).take k).isSuffixOf a)
    (hba : ∀ k, 0 < k → k < (sep ++ sl).length → ¬ ((sep ++ sl).drop k).isPrefixOf b) :
    pairOfRelative (matchRelative a b sep ext) sep ext = some (a, b) := by
  -- `hs`, `hb`, `hba` are not needed: `ha`, `hbb`, `hab` alone determine the split
  have _ := hs; have _ := hb; have _ := hba
  have hp : sep ++ sl ≠ [] := by simp [sl]
  have hstem : (matchRelative a b sep ext).take ((matchRelative a b sep ext).length - ext.length)
      = a ++ (sep ++ sl) ++ b := by
    have : matchRelative a b sep ext = (a ++ (sep ++ sl) ++ b) ++ ext := by
      simp [matchRelative, List.append_assoc]
    rw [this]; exact take_length_sub _ ext
  simp only [pairOfRelative, hstem, splitOn_pair (sep ++ sl) a b hp ha hbb hab]

/-- the generated separator followed by '/' has no border: no proper prefix is also a suffix -/
theorem separator_border_free :
    let p := Gen.FileNames.pairSeparator.toList ++ sl
    ∀ k, 0 < k → k < p.length → p.take k ≠ p.drop (p.length - k) := by
  have key : ∀ k, k < (Gen.FileNames.pairSeparator.toList ++ sl).length → 0 < k →
      (Gen.FileNames.pairSeparator.toList ++ sl).take k ≠
      (Gen.FileNames.pairSeparator.toList ++ sl).drop ((Gen.FileNames.pairSeparator.toList ++ sl).length - k) := by
    decide
  exact fun k hk0 hk => key k hk hk0

/-- code and specification agree on where each kind of array lives and how its files end; every extension the code
  uses is one of the binary extensions the specification lists; the tar names are the documented ones -/
theorem locations_match_specification :
    (∀ e ∈ Gen.FileNames.featureFiles, ∃ s ∈ Gen.SpecPaths.binarySections,
        e.2.1 = "reconstruction/" ++ s.1 ∧ e.2.2 = s.2.1 ∧ e.1 = s.1) ∧
    (∀ e ∈ Gen.FileNames.featureFiles, e.2.2 ∈ Gen.SpecPaths.binaryExtensions) ∧
    (∀ e ∈ Gen.FileNames.tarFiles, ∃ t ∈ Gen.SpecPaths.tarNames,
        e.2 = "reconstruction/" ++ e.1 ++ "/T/" ++ t) ∧
    ((Gen.SpecPaths.binarySections.find? (fun s => s.1 == "matches")).map (·.2.2) =
        some ("*" ++ Gen.FileNames.pairSeparator ++ "/*" ++ ".matches")) := by
  decide

-- non-vacuity: a 2 x 2 array of 16-bit elements
example : toFile { item := 2, rows := 2, cols := 2, bits := [0x0102, 0xFFFE, 0, 0x8000] } = [2, 1, 0xFE, 0xFF, 0, 0, 0, 0x80] := by decide
example : fromFile 2 2 [2, 1, 0xFE, 0xFF, 0, 0, 0, 0x80] = some { item := 2, rows := 2, cols := 2, bits := [0x0102, 0xFFFE, 0, 0x8000] } := by decide

/-- the model's assumptions about array_to_file / array_from_file are what the translator reads in the source on every run
  (Gen/IoShapes.lean): the file is opened with a truncating binary write (`'wb'`: nothing of an earlier, longer file remains),
  the array is forced to little-endian and dumped with `tofile`, it is read back from a binary read; neither function is
  decorated (no memoisation between a write and the next read) -/
theorem array_io_code_is_the_model :
    Gen.IoShapes.arrayWriteMode = "wb" ∧ Gen.IoShapes.arrayWriteByteOrder = "<" ∧ Gen.IoShapes.arrayWriteCall = "tofile" ∧
    Gen.IoShapes.arrayReadMode = "rb" := by
  decide

end Kapture.C03
