/-
  Props/C02.lean — property theorems for C02 (written text files follow the published format; conformant files load as such).
  Property theorems ONLY.  For ALL files, ALL layouts drawn freely per line.
-/
import Kapture.Lemmas.C02
import Kapture.Lemmas.C01Typed

namespace Kapture.C02
open Kapture.Csv Kapture.C01

/-- however a conformant file is laid out — blanks around commas, comment and blank lines anywhere, LF / CRLF / CR line
  ends chosen line by line — the reader extracts exactly the content the specification assigns to it -/
theorem conformant_file_loads (lines : List SpecLine) (eols : List Str) (hw : ∀ l ∈ lines, l.WF) (he : ∀ e ∈ eols, IsEol e)
    (hn : eols.length = lines.length ∨ eols.length + 1 = lines.length) :
    parseFile (glue (lines.map SpecLine.text) eols) = content lines := by
  rw [parseFile_glue _ eols ?_ he (by simpa using hn), map_parseLine_filter lines hw]
  intro t ht
  obtain ⟨l, hl, rfl⟩ := List.mem_map.1 ht
  exact lineOK_text l (hw l hl)

/-- two conformant renderings with the same content load alike -/
theorem layout_irrelevant (l₁ l₂ : List SpecLine) (e₁ e₂ : List Str) (h₁ : ∀ l ∈ l₁, l.WF) (h₂ : ∀ l ∈ l₂, l.WF)
    (he₁ : ∀ e ∈ e₁, IsEol e) (he₂ : ∀ e ∈ e₂, IsEol e)
    (hn₁ : e₁.length = l₁.length ∨ e₁.length + 1 = l₁.length) (hn₂ : e₂.length = l₂.length ∨ e₂.length + 1 = l₂.length)
    (hc : content l₁ = content l₂) :
    parseFile (glue (l₁.map SpecLine.text) e₁) = parseFile (glue (l₂.map SpecLine.text) e₂) := by
  rw [conformant_file_loads l₁ e₁ h₁ he₁ hn₁, conformant_file_loads l₂ e₂ h₂ he₂ hn₂, hc]

/-- integers may carry leading zeros (and blanks, stripped with the field) -/
theorem leading_zeros_accepted (k n : Nat) :
    readInt (List.replicate k '0' ++ natDigits (n + 1) n) = some (n : Int) ∧
    readInt ('-' :: (List.replicate k '0' ++ natDigits (n + 1) n)) = some (-(n : Int)) := by
  refine ⟨readInt_zeros_digits k n, ?_⟩
  show (readNat (List.replicate k '0' ++ natDigits (n + 1) n)).map (fun m => -(m : Int)) = some (-(n : Int))
  rw [readNat_leading_zeros k n]
  rfl

/-- TYPED reading of a conformant trajectory line: whatever the number of leading zeros on the timestamp (and whichever of the
  documented layouts the line came in, by `conformant_file_loads`), the reader finds the same integer, the same device and the
  same pose, missing parts still missing -/
theorem typed_trajectory_line_leading_zeros {F : Type} (c : Codec F) (h : Lawful c) (k n : Nat) (neg : Bool) (dev : Str) (p : Pose F) :
    decodeTrajRow c (((if neg then ['-'] else []) ++ (List.replicate k '0' ++ natDigits (n + 1) n)) :: dev :: poseToList c p) =
      Except.ok ((if neg then -(n : Int) else (n : Int)), dev, p) := by
  obtain ⟨h1, h2⟩ := leading_zeros_accepted k n
  cases neg
  · simp only [Bool.false_eq_true, if_false, List.nil_append, decodeTrajRow, h1, traj_pose_roundtrip c h]
    rfl
  · simp only [if_true, List.singleton_append, decodeTrajRow, h2, traj_pose_roundtrip c h]
    rfl

/-- every file the library writes IS a conformant file: the version line first (a comment), then the column comment, then
  one data line per row with the documented separator; its specification content is the rows written -/
theorem written_file_conforms (file : String) (rows : List (List Str)) (hf : file ∈ Gen.Headers.columns.map (·.1))
    (hr : ∀ r ∈ rows, RowOK r) :
    ∃ (lines : List SpecLine) (eols : List Str), (∀ l ∈ lines, l.WF) ∧ (∀ e ∈ eols, IsEol e) ∧ eols.length = lines.length ∧
      glue (lines.map SpecLine.text) eols = textFile file rows ∧ content lines = rows ∧
      lines.head? = some (SpecLine.comment (S Gen.Headers.formatLine)) := by
  obtain ⟨body, hw, ht, hc⟩ := rows_specLines (paddingOf file) rows hr
  have hfl := formatLine_wf
  have hh := headerOf_wf_of_mem file hf
  refine ⟨SpecLine.comment (S Gen.Headers.formatLine) :: SpecLine.comment (headerOf file) :: body,
    List.replicate (body.length + 2) nl, ?_, ?_, by simp, ?_, hc, rfl⟩
  · intro l hl
    simp only [List.mem_cons] at hl
    rcases hl with rfl | rfl | hl
    · exact ⟨hfl.1, hfl.2⟩
    · exact ⟨hh.1, hh.2⟩
    · exact hw l hl
  · intro e he
    exact Or.inl (List.eq_of_mem_replicate he)
  · have h := glue_replicate_nl
      ((SpecLine.comment (S Gen.Headers.formatLine) :: SpecLine.comment (headerOf file) :: body).map SpecLine.text)
    simp only [List.length_map, List.length_cons] at h
    rw [h]
    simp only [List.map_cons]
    rw [ht]
    unfold textFile renderFile
    simp [SpecLine.text, List.map_map, Function.comp_def]

/-- so an independent reader written from the specification alone recovers exactly what was saved -/
theorem independent_reader_recovers (file : String) (rows : List (List Str)) (hf : file ∈ Gen.Headers.columns.map (·.1))
    (hr : ∀ r ∈ rows, RowOK r) : parseFile (textFile file rows) = rows :=
  (textFile_roundtrip file rows hf hr).1

/-- code and specification agree on the columns of every file and on the version (restated from C01's tables) -/
theorem columns_match_specification :
    (∀ e ∈ Gen.Headers.columns, ∃ s ∈ Gen.SpecColumns.columns, s.1 = e.1 ∧ s.2.map unalias = e.2) ∧
    Gen.SpecColumns.version = Gen.Headers.currentVersion ∧
    S Gen.Headers.formatLine = S "# kapture format: " ++ S Gen.SpecColumns.version :=
  ⟨columns_agree_with_specification.1, columns_agree_with_specification.2, by decide⟩

end Kapture.C02
