/-
  Props/C10.lean — property theorems for C10 (merging with renamed identifiers is a disjoint union, consistently renamed).
  Property theorems ONLY.  For ANY number of inputs, any part missing in any input at any position.
-/
import Kapture.Lemmas.C10
import Kapture.Lemmas.C09

namespace Kapture.C10
open Kapture

/-- every sensor and rig of every input gets a fresh identifier distinct from all others -/
theorem new_ids_all_distinct (inputs : List InputIds) (h : ∀ i ∈ inputs, idsNodup i) : (allNewIds inputs).Nodup := by
  have _ := h  -- not needed: fresh identifiers are distinct whatever the input ids are
  rw [allNewIds_eq]
  exact newIdsFrom_nodup inputs 0 0

/-- one mapping pair per input, and the mapping of an input renames exactly the identifiers of THAT input
  (an input without sensors gets an empty mapping and does not shift the others) -/
theorem mappings_follow_inputs (inputs : List InputIds) :
    (sensorMaps inputs).length = inputs.length ∧ (rigMaps inputs).length = inputs.length ∧
    ∀ (n : Nat) (i : InputIds) (sm rm : Mapping), inputs[n]? = some i → (sensorMaps inputs)[n]? = some sm →
      (rigMaps inputs)[n]? = some rm → sm.map (·.1) = i.sensors.getD [] ∧ rm.map (·.1) = i.rigs.getD [] := by
  refine ⟨by simp [sensorMaps, computeNewIds_length], by simp [rigMaps, computeNewIds_length], ?_⟩
  intro n i sm rm hi hs hr
  simp only [sensorMaps, rigMaps, List.getElem?_map, Option.map_eq_some_iff] at hs hr
  obtain ⟨p, hp, rfl⟩ := hs
  obtain ⟨q, hq, rfl⟩ := hr
  rw [hp] at hq
  cases hq
  exact computeNewIds_keys inputs 0 0 n i p hi hp

/-- the renamed merge IS the concatenation of the inputs' entries, each renamed through its own input's mapping,
  whenever the renamed keys do not collide (which fresh identifiers guarantee: `renamed_keys_distinct`):
  nothing lost, nothing duplicated, nothing attributed to another input -/
theorem merge_is_renamed_concat (pos : Nat) (fw : Bool) (tables : List (Option Table)) (mappings : List Mapping)
    (out : OutTable) (h : renamedConcat pos tables mappings = Except.ok out) (hnd : (out.map (·.1)).Nodup) :
    mergeRenamed pos fw tables mappings = Except.ok out := by
  rw [mergeRenamed_eq]
  have := mr_fold pos fw (tables.zip mappings) [] out (rc_of_renamedConcat pos tables mappings out h)
    (by simpa using hnd)
  simpa using this

/-- counts add up -/
theorem counts_add_up (pos : Nat) (fw : Bool) (tables : List (Option Table)) (mappings : List Mapping)
    (out : OutTable) (hl : tables.length = mappings.length)
    (h : renamedConcat pos tables mappings = Except.ok out) (hnd : (out.map (·.1)).Nodup) :
    ∃ merged, mergeRenamed pos fw tables mappings = Except.ok merged ∧
      merged.length = (tables.map (fun t => (t.getD []).length)).sum := by
  refine ⟨out, merge_is_renamed_concat pos fw tables mappings out h hnd, ?_⟩
  rw [rc_length pos _ out (rc_of_renamedConcat pos tables mappings out h)]
  have hfst : (tables.zip mappings).map Prod.fst = tables := List.map_fst_zip (by omega)
  have : (tables.zip mappings).map (fun tm => (tm.1.getD []).length)
      = ((tables.zip mappings).map Prod.fst).map (fun t => (t.getD []).length) := by
    rw [List.map_map]; rfl
  rw [this, hfst]

/-- renaming position 1 (timestamp, sensor[, key3]) through pairwise value-disjoint injective mappings never makes two
  entries collide, provided each input table has distinct keys -/
theorem renamed_keys_distinct (pos : Nat) (tables : List (Option Table)) (mappings : List Mapping) (out : OutTable)
    (h : renamedConcat pos tables mappings = Except.ok out)
    (hk : ∀ t, some t ∈ tables → (t.map (·.1)).Nodup)
    (hm : (mappings.flatMap (fun m => m.map (·.2))).Nodup)
    (hmk : ∀ m ∈ mappings, (m.map (·.1)).Nodup) :
    (out.map (·.1)).Nodup := by
  have _ := hmk  -- not needed: distinct mapping values already make the renaming injective
  refine rc_keys_nodup pos (tables.zip mappings) out (rc_of_renamedConcat pos tables mappings out h) ?_ ?_
  · intro t m hmem
    exact hk t (List.of_mem_zip hmem).1
  · exact (zip_snd_flatMap_sublist (fun m : Mapping => m.map (·.2)) tables mappings).nodup hm

/-- lookup law: an entry of input n is found in the merge under the new identifier of that same input -/
theorem lookup_renamed (pos : Nat) (fw : Bool) (tables : List (Option Table)) (mappings : List Mapping) (out : OutTable)
    (h : renamedConcat pos tables mappings = Except.ok out) (hnd : (out.map (·.1)).Nodup)
    (n : Nat) (t : Table) (m : Mapping) (k : Key) (v : String) (k' : OutKey)
    (ht : tables[n]? = some (some t)) (hm : mappings[n]? = some m) (hkv : (k, v) ∈ t)
    (hr : renameAt pos m k = Except.ok k') :
    ∃ merged, mergeRenamed pos fw tables mappings = Except.ok merged ∧ Dict.get? k' merged = some v := by
  refine ⟨out, merge_is_renamed_concat pos fw tables mappings out h hnd, ?_⟩
  have hmem : (k', v) ∈ out :=
    rc_mem pos (tables.zip mappings) out t m k v k' (rc_of_renamedConcat pos tables mappings out h)
      (zip_getElem?_some tables mappings n (some t) m ht hm) hkv hr
  exact dict_get?_of_mem k' v out hmem hnd

-- non-vacuity: identical identifiers in two inputs, the first input lacking the table
example : mergeRenamed 1 false [none, some [(["5", "cam"], "img")]]
      [[("cam", NewId.sensor 0)], [("cam", NewId.sensor 1)]]
    = Except.ok [([Comp.str "5", Comp.new (NewId.sensor 1)], "img")] := by rfl
example : computeNewIds [⟨some ["cam", "gps"], none⟩, ⟨none, some ["r"]⟩, ⟨some ["cam"], some ["r"]⟩] 0 0
    = [([("cam", NewId.sensor 0), ("gps", NewId.sensor 1)], []), ([], [("r", NewId.rig 0)]),
       ([("cam", NewId.sensor 2)], [("r", NewId.rig 1)])] := by decide

/-- which parts merge_remap produces follows the skip list (guards regenerated from merge_remap's if-structure): sensors and rigs
  always; every other table part exactly when its own type is not skipped (the type the tool's command line names); observations
  exactly when neither Points3d nor Observations is skipped, 3-D points exactly when Points3d is not -/
theorem remap_parts_follow_the_skip_list (skip : List String) :
    (Dict.get? "sensors" Gen.MergeDispatch.remapGuards = some [[]] ∧ Dict.get? "rigs" Gen.MergeDispatch.remapGuards = some [[]]) ∧
    (∀ attr ∈ C09.simpleAttrs.drop 2, Dict.get? attr Gen.MergeDispatch.remapGuards =
        some [[("not-skipped", [(Dict.get? attr Gen.MergeDispatch.skipNames).getD ""])]] ∧
      (Dict.get? attr Gen.MergeDispatch.skipNames).isSome = true) ∧
    C09.guardHolds skip ((Dict.get? "observations" Gen.MergeDispatch.remapGuards).getD []) =
      (!skip.contains "Points3d" && !skip.contains "Observations") ∧
    C09.guardHolds skip ((Dict.get? "points3d" Gen.MergeDispatch.remapGuards).getD []) = !skip.contains "Points3d" := by
  refine ⟨by decide, by decide, ?_, ?_⟩
  · have e1 : (Dict.get? "observations" Gen.MergeDispatch.remapGuards).getD [] = [[("not-skipped", ["Points3d", "Observations"])]] := by
      decide
    rw [e1]
    unfold C09.guardHolds
    simp only [List.any_cons, List.any_nil, List.all_cons, List.all_nil, Bool.and_true, Bool.or_false]
    generalize skip.contains "Points3d" = a
    generalize skip.contains "Observations" = b
    cases a <;> cases b <;> decide
  · have e2 : (Dict.get? "points3d" Gen.MergeDispatch.remapGuards).getD [] = [[("not-skipped", ["Points3d", "Observations"])],
        [("else-of", ["Points3d", "Observations"]), ("not-skipped", ["Points3d"])]] := by decide
    rw [e2]
    unfold C09.guardHolds
    simp only [List.any_cons, List.any_nil, List.all_cons, List.all_nil, Bool.and_true, Bool.or_false]
    generalize skip.contains "Points3d" = a
    generalize skip.contains "Observations" = b
    cases a <;> cases b <;> decide

end Kapture.C10
