/-
  Props/C09.lean — property theorems for C09 (merging with kept identifiers is a first-wins union that loses nothing).
  Property theorems ONLY.  For ANY number of inputs, any tables, any subset of parts missing in any input, any skip list.
-/
import Kapture.Lemmas.C09

namespace Kapture.C09
open Kapture

/-- first-wins: looking a key up in the merge gives the entry of the earliest input defining it -/
theorem merge_lookup_first_wins (ts : List (Option Table)) (k : Key) :
    Dict.get? k (mergeTable ts) = firstDefined ts k :=
  get?_mergeTable ts k

/-- nothing is lost, nothing is invented: the keys of the merge are exactly the union of the inputs' keys -/
theorem merge_keys_union (ts : List (Option Table)) (k : Key) :
    k ∈ Dict.keys (mergeTable ts) ↔ ∃ t, some t ∈ ts ∧ k ∈ Dict.keys t :=
  mem_keys_mergeTable ts k

/-- each key appears once in the merge -/
theorem merge_keys_nodup (ts : List (Option Table)) : (Dict.keys (mergeTable ts)).Nodup :=
  nodup_mergeTable ts

/-- every one of the twelve table parts goes through that first-wins merge (generated dispatch table) -/
theorem all_simple_parts_dispatched : Gen.MergeDispatch.keepArity.map (·.1) = simpleAttrs := by decide

/-- what an attribute of the result is: unset when its guard fails or the union is empty, else the first-wins merge -/
theorem merged_part_eq (skip : List String) (inputs : List Input) (attr : String) (h : attr ∈ simpleAttrs) :
    mergedPart skip inputs attr =
      if guardHolds skip (guardsOf attr) then getNewIfNotEmpty (mergeTable (inputs.map (fun i => part i attr))) else none :=
  mergedPart_eq_of_mem skip inputs attr (all_simple_parts_dispatched ▸ h)

/-- parts named in the skip list are absent (each skippable table part is guarded by exactly its own type) -/
theorem skipped_parts_absent (skip : List String) (inputs : List Input) (attr ty : String)
    (hg : guardsOf attr = [[("not-skipped", [ty])]]) (hs : ty ∈ skip) :
    mergedPart skip inputs attr = none := by
  by_cases hm : attr ∈ Gen.MergeDispatch.keepArity.map (·.1)
  · rw [mergedPart_eq_of_mem skip inputs attr hm, hg, guardHolds_single_skipped skip ty hs]
    rfl
  · exact mergedPart_eq_none_of_not_mem skip inputs attr hm

/-- the generated guards: sensors and rigs are never skipped, every other table part is guarded by its own type,
  and the tool maps the command-line name of a part to that type -/
theorem generated_guards_shape :
    guardsOf "sensors" = [[]] ∧ guardsOf "rigs" = [[]] ∧
    (∀ attr ∈ simpleAttrs.drop 2, ∃ ty, guardsOf attr = [[("not-skipped", [ty])]] ∧
      Dict.get? attr Gen.MergeDispatch.skipNames = some ty) := by
  have hall : ∀ attr ∈ simpleAttrs.drop 2,
      guardsOf attr = [[("not-skipped", [(Dict.get? attr Gen.MergeDispatch.skipNames).getD ""])]] ∧
      Dict.get? attr Gen.MergeDispatch.skipNames = some ((Dict.get? attr Gen.MergeDispatch.skipNames).getD "") := by
    decide
  exact ⟨by decide, by decide, fun attr h => ⟨_, hall attr h⟩⟩

/-- the reconstruction parts follow the skip list too (guards regenerated from merge_keep_ids): observations are merged exactly
  when neither Points3d nor Observations is skipped, 3-D points exactly when Points3d is not -/
theorem reconstruction_parts_follow_the_skip_list (skip : List String) :
    guardHolds skip (guardsOf "observations") = (!skip.contains "Points3d" && !skip.contains "Observations") ∧
    guardHolds skip (guardsOf "points3d") = !skip.contains "Points3d" := by
  have e1 : guardsOf "observations" = [[("not-skipped", ["Points3d", "Observations"])]] := by decide
  have e2 : guardsOf "points3d" = [[("not-skipped", ["Points3d", "Observations"])],
      [("else-of", ["Points3d", "Observations"]), ("not-skipped", ["Points3d"])]] := by decide
  rw [e1, e2]
  unfold guardHolds
  simp only [List.any_cons, List.any_nil, List.all_cons, List.all_nil, Bool.and_true, Bool.or_false]
  generalize skip.contains "Points3d" = a
  generalize skip.contains "Observations" = b
  cases a <;> cases b <;> decide

/-- a part that is not skipped and is absent from every input stays absent -/
theorem absent_everywhere_absent (skip : List String) (inputs : List Input) (attr : String)
    (h : ∀ i ∈ inputs, part i attr = none) : mergedPart skip inputs attr = none := by
  by_cases hm : attr ∈ Gen.MergeDispatch.keepArity.map (·.1)
  · rw [mergedPart_eq_of_mem skip inputs attr hm, mergeTable_all_none]
    · split <;> rfl
    · intro t ht
      obtain ⟨i, hi, rfl⟩ := List.mem_map.mp ht
      exact h i hi
  · exact mergedPart_eq_none_of_not_mem skip inputs attr hm

/-- an unskipped part with at least one entry somewhere is present and is the first-wins union -/
theorem present_when_defined (skip : List String) (inputs : List Input) (attr : String) (h : attr ∈ simpleAttrs)
    (hg : guardHolds skip (guardsOf attr) = true) (k : Key) (v : String)
    (hk : firstDefined (inputs.map (fun i => part i attr)) k = some v) :
    ∃ t, mergedPart skip inputs attr = some t ∧ Dict.get? k t = some v := by
  have hv : Dict.get? k (mergeTable (inputs.map (fun i => part i attr))) = some v := by
    rw [merge_lookup_first_wins]; exact hk
  refine ⟨mergeTable (inputs.map (fun i => part i attr)), ?_, hv⟩
  rw [merged_part_eq skip inputs attr h, if_pos hg]
  apply getNewIfNotEmpty_of_ne_nil
  intro he
  rw [he, Dict.get?_nil] at hv
  cases hv

/-- image features: the data file of an image is taken from the first input listing that image under that type -/
theorem feature_file_source (ty name : String) (inputs : List (Option FeatColl)) :
    Dict.get? name (mergeFeatType ty inputs).2 = firstFeatSource ty name inputs :=
  get?_mergeFeatType ty name inputs

/-- image features: every merged type was in some input, and every input type is merged -/
theorem feature_types_union (inputs : List (Option FeatColl)) (ty : String) :
    ty ∈ featTypes inputs ↔ ∃ c, some c ∈ inputs ∧ ty ∈ Dict.keys c :=
  mem_featTypes inputs ty

/-- matches: the file of a pair is taken from the first input listing the pair under that keypoints type -/
theorem match_file_source (ty : String) (p : String × String) (inputs : List (Option MatchColl)) :
    Dict.get? p (mergeMatchType ty inputs) = firstMatchSource ty p inputs :=
  get?_mergeMatchType ty p inputs

/-- record data: a file name is imported from the first input listing it -/
theorem record_file_source (name : String) (lists : List (List String)) :
    Dict.get? name (mergeRecordFiles lists) = firstFileSource name lists :=
  get?_mergeRecordFiles name lists

-- non-vacuity: two inputs overlapping on one key, the first one missing a part
example : mergeTable [some [(["a"], "1"), (["b"], "2")], none, some [(["b"], "9"), (["c"], "3")]]
    = [(["a"], "1"), (["b"], "2"), (["c"], "3")] := by decide

end Kapture.C09
