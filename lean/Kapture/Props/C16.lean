/-
  Props/C16.lean — property theorems for C16 (loading or upgrading a dataset treats file contents purely as data).
  Property theorems ONLY.
-/
import Kapture.Lemmas.C16
import Kapture.Lemmas.C01Typed

namespace Kapture.C16
open Kapture Kapture.C20

/-- whatever string stands in the element-type field, the outcome is a lookup in a finite table: either one of the
  accepted types, or an error — nothing is evaluated -/
theorem parseDtype_is_table_lookup (s : String) :
    (∃ t, parseDtype s = Except.ok t ∧ (s, t) ∈ Gen.DtypeNames.accepted) ∨ parseDtype s = Except.error "ValueError" := by
  unfold parseDtype
  cases h : List.find? (fun e => e.1 == s) Gen.DtypeNames.accepted with
  | none => right; rfl
  | some e =>
    left
    refine ⟨e.2, rfl, ?_⟩
    have hm := List.mem_of_find?_eq_some h
    have hp := List.find?_some h
    have : e.1 = s := by simpa using hp
    rw [← this]; exact hm

/-- expressions with side effects are not accepted element types -/
theorem parseDtype_rejects_expressions :
    parseDtype "__import__('os').system('id')" = Except.error "ValueError" ∧
    parseDtype "float32; import os" = Except.error "ValueError" ∧
    parseDtype "open('/tmp/x','w')" = Except.error "ValueError" ∧
    parseDtype "" = Except.error "ValueError" ∧
    parseDtype "float32" = Except.ok "float32" := by
  refine ⟨parseDtype_of_find_none _ ?_, parseDtype_of_find_none _ ?_, parseDtype_of_find_none _ ?_,
    parseDtype_of_find_none _ ?_, parseDtype_of_find_some _ ("float32", "float32") ?_⟩ <;> decide +kernel

/-- loading only reads, and only files that are present under the directory -/
theorem load_effects_are_reads_inside (present : List String) (current : Bool) (h : ∀ f ∈ present, inside f = true) :
    ∀ e ∈ loadReads present current, e.isRead = true ∧ e.inside = true ∧ ∃ f ∈ present, e = Effect.read f := by
  intro e he
  unfold loadReads at he
  simp only [List.mem_map, List.mem_append] at he
  obtain ⟨f, hf, rfl⟩ := he
  have hp : f ∈ present := by
    rcases hf with hf | hf
    · have := (List.mem_filter.mp hf).2
      simp only [Bool.and_eq_true, List.contains_iff_mem] at this
      exact this.1
    · split at hf
      · exact (List.mem_filter.mp hf).1
      · simp at hf
  exact ⟨rfl, h f hp, f, hp, rfl⟩

/-- the names the upgrade derives from file CONTENT cannot leave the folder they belong to -/
theorem nameOK_single_component (n : String) (h : nameOK n = true) (hne : n ≠ "") :
    ¬ n.contains '/' ∧ n ≠ ".." ∧ n ≠ "." := by
  have _ := hne
  unfold nameOK at h
  simp only [Bool.and_eq_true, Bool.not_eq_true', bne_iff_ne, ne_eq] at h
  obtain ⟨⟨⟨h1, _⟩, h3⟩, h4⟩ := h
  exact ⟨by simp [h1], h4, h3⟩

/-- every move of the upgrade plan goes from a file of the tree to a path in the same feature folder, one level down:
  destination = folder / type / same relative name -/
theorem upgrade_moves_stay_in_folder (p : Params) (t : Tree) (pl : Plan) (h : plan p t = Except.ok pl)
    (f : FolderPlan) (hf : f ∈ pl.folders) (m : Move) (hm : m ∈ f.moves) :
    ∃ dir ty rel, m.src = dir ++ "/" ++ rel ∧ m.dst = dir ++ "/" ++ ty ++ "/" ++ rel ∧
      dir ∈ ["reconstruction/keypoints", "reconstruction/descriptors", "reconstruction/matches", "reconstruction/global_features"] := by
  obtain ⟨dir, ⟨ty, hty⟩, hdir⟩ := plan_folders_movesIn h hf
  obtain ⟨rel, h1, h2⟩ := hty m hm
  exact ⟨dir, ty, rel, h1, h2, hdir⟩

/-- "A field that is not a valid value is reported as an error", for the numbers of the table files, on the typed model of the
  readers (Model/C01Typed.lean, tied to the code by the C01 correspondence): a trajectory row whose timestamp is not an integer,
  or one of whose pose fields is neither a float nor part of an all-empty group, is a ValueError -/
theorem bad_trajectory_timestamp_is_an_error {F : Type} (c : C01.Codec F) (ts dev : Csv.Str) (pose : List Csv.Str)
    (h : Csv.readInt ts = none) : ∃ e, C01.decodeTrajRow c (ts :: dev :: pose) = Except.error e := by
  unfold C01.decodeTrajRow
  dsimp only
  rw [h]
  exact ⟨_, rfl⟩

/-- ... and a rig row one of whose pose fields is neither a float nor blank (the D30 fix: such a field used to make the rotation or
  the translation of the rig silently disappear) -/
theorem bad_rig_number_is_an_error {F : Type} (c : C01.Codec F) (qw qx qy qz tx ty tz bad : Csv.Str)
    (hm : bad ∈ [qw, qx, qy, qz, tx, ty, tz]) (hbad : c.parse bad = none) (hnb : Csv.strip bad ≠ []) :
    C01.rigPoseOfFields c [qw, qx, qy, qz, tx, ty, tz] = Except.error C01.DecodeErr.value :=
  C01.rig_bad_number_is_an_error c qw qx qy qz tx ty tz bad hm hbad hnb

/-- ... and a trajectory row one of whose pose fields is given and is not a float, whether or not the other fields of its group are
  given (the D31 fix: a field next to an empty one was not looked at) -/
theorem bad_trajectory_number_is_an_error {F : Type} (c : C01.Codec F) (qw qx qy qz tx ty tz bad : Csv.Str)
    (hm : bad ∈ [qw, qx, qy, qz, tx, ty, tz]) (hbad : c.parse bad = none) (hnb : bad ≠ []) :
    ∃ e, C01.trajPoseOfFields c [qw, qx, qy, qz, tx, ty, tz] = Except.error e :=
  C01.traj_bad_number_is_an_error c qw qx qy qz tx ty tz bad hm hbad hnb

/-- ... and a record row (gnss, accelerometer, gyroscope, magnetic; the signal rows of wifi and bluetooth go through the same
  `decodeFields`) one of whose fields its DECLARED type cannot read (the types are those of Gen/RecordSchemas.lean, regenerated
  from the record classes): the row is an error wherever the field stands -/
theorem bad_record_field_is_an_error {F : Type} (c : C01.Codec F) (tys : List Gen.RecordSchemas.Ty) (ts dev : Csv.Str)
    (toks : List Csv.Str) (i : Nat) (hi : i < tys.length) (hlen : tys.length = toks.length)
    (hbad : C01.decodeVal c (tys[i]) (toks[i]'(hlen ▸ hi)) = none) :
    ∃ e, C01.decodeRecordRow c tys (ts :: dev :: toks) = Except.error e := by
  unfold C01.decodeRecordRow
  dsimp only
  cases Csv.readInt ts with
  | none => exact ⟨_, rfl⟩
  | some t =>
    obtain ⟨e, he⟩ := C01.decodeFields_bad c tys toks i hi hlen hbad
    dsimp only
    rw [he]
    exact ⟨e, rfl⟩

end Kapture.C16
