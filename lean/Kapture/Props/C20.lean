/-
  Props/C20.lean — property theorems for C20 (upgrading a 1.0 dataset to 1.1 preserves all of its content).
  Property theorems ONLY.  For ANY tree, any number of data files, any nesting of image folders.
-/
import Kapture.Lemmas.C20

namespace Kapture.C20
open Kapture

/-- the in-place route files every data file under its type with ITS OWN content — the moves are done deepest first, so
  a file moved into `<type>/` never lands on a file that is still to be moved (the D20 defect) -/
theorem moves_preserve_content (t : Tree) (moves : List Move) (hk : (Dict.keys t).Nodup)
    (hw : WellFormedMoves moves) (hd : DeepestFirst moves) (hs : ∀ m ∈ moves, (Dict.get? m.src t).isSome)
    (m : Move) (hm : m ∈ moves) :
    Dict.get? m.dst (moves.foldl moveFile t) = Dict.get? m.src t :=
  foldl_moveFile_content moves t hw hd hs m hm

/-- ... and the two routes agree on every destination: in place (move) = copy -/
theorem routes_agree_on_data_files (t : Tree) (moves : List Move) (hk : (Dict.keys t).Nodup)
    (hw : WellFormedMoves moves) (hd : DeepestFirst moves) (hs : ∀ m ∈ moves, (Dict.get? m.src t).isSome)
    (m : Move) (hm : m ∈ moves) :
    Dict.get? m.dst (moves.foldl moveFile t) = Dict.get? m.dst (copiedFolder t moves) := by
  rw [foldl_moveFile_content moves t hw hd hs m hm, copiedFolder_content t moves hw.2.2 hs m hm]

/-- files that are neither a source nor a destination are untouched by the in-place route -/
theorem moves_leave_others (t : Tree) (moves : List Move) (hk : (Dict.keys t).Nodup) (p : String)
    (hp : ∀ m ∈ moves, p ≠ m.src ∧ p ≠ m.dst) :
    Dict.get? p (moves.foldl moveFile t) = Dict.get? p t :=
  foldl_moveFile_other moves t p hp

/-- the order the model (and the fixed code) uses is deepest first -/
theorem deepestFirst_sorted (rels : List String) :
    (deepestFirst rels).Pairwise (fun a b => count '/' a ≥ count '/' b) ∧ (deepestFirst rels).Perm rels := by
  induction rels with
  | nil => exact ⟨List.Pairwise.nil, List.Perm.refl _⟩
  | cons r rs ih =>
    exact ⟨insertByDepth_sorted r _ ih.1, (insertByDepth_perm r _).trans (List.Perm.cons r ih.2)⟩

/-- the unchanged tables keep every line after the version line, and start with the 1.1 version line -/
theorem table_content_unchanged (lines : List String) :
    (upgradeTable lines).head? = some Gen.Headers.formatLine ∧
    (upgradeTable lines).tail = (match lines with
      | l :: rest => if isVersionLine l then rest else l :: rest
      | [] => []) := by
  cases lines with
  | nil => exact ⟨rfl, rfl⟩
  | cons l rest =>
    simp only [upgradeTable]
    split <;> exact ⟨rfl, rfl⟩

/-- ... hence a reader sees the same rows: for ANY line filter that drops version lines (as every comment filter does: a version
  line starts with '#'), the upgraded table keeps exactly the lines of the original table, in the same order -/
theorem upgraded_table_same_rows (keep : String → Bool) (hv : ∀ l, isVersionLine l = true → keep l = false)
    (hf : keep Gen.Headers.formatLine = false) (lines : List String) :
    (upgradeTable lines).filter keep = lines.filter keep := by
  cases lines with
  | nil => simp [upgradeTable, hf]
  | cons l rest =>
    simp only [upgradeTable]
    split
    · rename_i h; simp [List.filter_cons, hf, hv l h]
    · simp [List.filter_cons, hf]

/-- OBSERVATIONS: after regrouping, a point index holds exactly the (image, feature) tokens of ITS rows of the 1.0 file, in file
  order — nothing lost, nothing attributed to another point; an index without rows has no group -/
theorem observations_regrouped (entries : List (Int × List String)) (i : Int) :
    Dict.get? i (groupEntries entries) =
      if entries.any (fun e => e.1 == i) then some (pairsOf i entries) else none := by
  exact groupEntries_get entries i

/-- ... the groups are written sorted by index, each of them once (a permutation of the groups) -/
theorem observation_rows_perm (l : List (Int × List String)) : (sortGroups l).Perm l := sortGroups_perm' l

/-- ... one row per group: point index, THE KEYPOINTS TYPE, then the tokens; after the 1.1 version line and the columns comment -/
theorem observations_relabelled (ty : String) (lines : List String) :
    relabelObservations ty lines =
      [Gen.Headers.formatLine, "# point3d_id, keypoints_type, [image_path, feature_id]*"] ++
        (sortGroups (groupEntries (observationEntries lines))).map
          (fun g => ", ".intercalate (String.ofList (Csv.showInt g.1) :: ty :: g.2)) := rfl

/-- both routes rewrite the tables, the descriptor files and the observations identically: they apply the same plan -/
theorem routes_share_plan (p : Params) (t : Tree) (pl : Plan) (h : plan p t = Except.ok pl) :
    (∃ t₁, upgradeInplace p t = Except.ok t₁) ∧ (∃ t₂, upgradeCopy p t = Except.ok t₂) := by
  constructor
  · unfold upgradeInplace
    rw [h]
    exact ⟨_, rfl⟩
  · unfold upgradeCopy
    rw [h]
    exact ⟨_, rfl⟩

/-- the defect D20, as a theorem about the model: moving SHALLOWEST first loses a file -/
theorem shallow_first_clobbers :
    let t : Tree := [("k/a.kpt", Content.blob 1), ("k/sift/a.kpt", Content.blob 2)]
    let bad : List Move := [⟨"k/a.kpt", "k/sift/a.kpt"⟩, ⟨"k/sift/a.kpt", "k/sift/sift/a.kpt"⟩]
    Dict.get? "k/sift/sift/a.kpt" (bad.foldl moveFile t) = some (Content.blob 1) ∧
    Dict.get? "k/sift/a.kpt" (bad.foldl moveFile t) = none ∧
    Dict.get? "k/sift/sift/a.kpt" (bad.reverse.foldl moveFile t) = some (Content.blob 2) ∧
    Dict.get? "k/sift/a.kpt" (bad.reverse.foldl moveFile t) = some (Content.blob 1) := by
  decide

end Kapture.C20
