/-
  Props/C06.lean — property theorems for C06 (switching between rig poses and per-sensor poses never moves a sensor).
  Property theorems ONLY.  `mul`/`inv` are the pose composition and inverse (C05 proves their group laws); the theorems hold
  for ANY rig forest and ANY trajectory satisfying the stated hypotheses, any number of timestamps.
-/
import Kapture.Lemmas.C06

namespace Kapture.C06
open Kapture

variable {G : Type}

/-- entries of devices that are not rigs are untouched by the replacement -/
theorem remove_keeps_free_entries (mul : G → G → G) (rigs : Rigs G) (n : Nat) (t : List (Entry G)) (e : Entry G)
    (he : e ∈ t) (hf : ¬ isRig rigs e.dev) : e ∈ remove mul rigs n t :=
  remove_keeps_free mul rigs n t e he hf

/-- soundness: every entry after the replacement is, at the same timestamp, the pose implied by some original entry and
  the rig geometry below it (rigs mounted on rigs included) -/
theorem remove_sound (mul : G → G → G) (rigs : Rigs G) (n : Nat) (t : List (Entry G)) (e' : Entry G)
    (h : e' ∈ remove mul rigs n t) :
    ∃ e ∈ t, e.ts = e'.ts ∧ Mounted mul rigs (e.dev, e.g) (e'.dev, e'.g) :=
  remove_sound_aux mul rigs n t e' h

/-- completeness: every sensor below an original entry gets exactly that implied pose, provided the nesting under that
  entry is within the pass budget -/
theorem remove_complete (mul : G → G → G) (rigs : Rigs G) (n : Nat) (t : List (Entry G)) (e : Entry G) (d : String) (g : G)
    (he : e ∈ t) (hd : DepthLE rigs n e.dev) (hm : Mounted mul rigs (e.dev, e.g) (d, g)) (hs : ¬ isRig rigs d) :
    ∃ e' ∈ remove mul rigs n t, e'.ts = e.ts ∧ e'.dev = d ∧ e'.g = g :=
  remove_complete_aux mul rigs d g hs n t e.ts e.dev e.g he hd hm

/-- no rig identifier remains when every entry's nesting depth is within the pass budget (max_depth = 10 in the code) -/
theorem remove_leaves_no_rig (mul : G → G → G) (rigs : Rigs G) (n : Nat) (t : List (Entry G))
    (hd : ∀ e ∈ t, DepthLE rigs n e.dev) : ∀ e' ∈ remove mul rigs n t, ¬ isRig rigs e'.dev :=
  remove_leaves_no_rig_aux mul rigs n t hd

/-- a trajectory without rig entries is left as it is -/
theorem remove_identity_without_rigs (mul : G → G → G) (rigs : Rigs G) (n : Nat) (t : List (Entry G))
    (h : ∀ e ∈ t, ¬ isRig rigs e.dev) : remove mul rigs n t = t :=
  remove_identity_aux mul rigs n t h

/-- recovering after replacing gives back every top-level rig pose and keeps every free entry — for rigs whose members
  are sensors (depth 1), unspecified master sensors, and a trajectory in which no rig member is posed directly.
  SUBSUMED: this is `recover_remove_exact` at `n = k = 1`, `masters = none`, `σ = id` (the `example` after
  `recover_remove_statement_toplevel` derives it from there); nesting and master sensors are covered by
  `recover_remove_nested`, `recover_remove_masters` and `recover_remove_exact`.  Kept for the record. -/
theorem recover_remove_depth1_partial (mul : G → G → G) (inv : G → G) (rigs : Rigs G) (t : List (Entry G))
    (hinv : ∀ a b, mul (inv a) (mul a b) = b)
    (hflat : ∀ r members, (r, members) ∈ rigs → members ≠ [] ∧ ∀ m ∈ members, ¬ isRig rigs m.1)
    (hrk : (rigs.map (·.1)).Nodup)
    (hone : (rigs.flatMap (fun r => r.2.map (·.1))).Nodup)      -- each device is mounted on at most one rig, once
    (hsrc : ∀ e ∈ t, (Dict.get? e.dev (reverseRigs inv rigs)).isNone = true)
    (hkeys : (t.map (fun e => (e.ts, e.dev))).Nodup) :
    SameEntries (recoverStep mul inv rigs none (removeStep mul rigs t)) t := by
  have _ := hrk   -- not needed by the proof: `hone` and `hflat` already make the reversed dictionary unambiguous
  exact sameEntries_of_mem_iff (recover_remove_depth1_aux mul inv rigs t hinv hflat hone hsrc hkeys)

/-- RECOVERY, NESTED RIGS (rigs mounted on rigs, any depth `n`), unspecified master sensors.  After `remove mul rigs n t`,
  at least `n` passes of the recovery (`k ≥ n`; further passes change nothing of what is claimed) give a trajectory that
  contains, for every ORIGINAL entry of a top-level rig (a rig mounted on no rig), an entry with the same timestamp,
  device and pose, and still contains every original entry of a free sensor (neither a rig nor mounted).
  Before each pass the entries are listed by `σ`: the code sorts them (`sortEntries`, with `mem_sortEntries`); the
  theorem holds for ANY listing that keeps the same entries, in particular for the list as produced (`σ = id`).
  Hypotheses, all decidable for concrete data except the group law: rig ids distinct, each device mounted on at most
  one rig and once, every rig non-empty, nesting depth at most `n` under every posed device, no device at or below a
  posed device is posed itself at that timestamp (`hsingle`), (timestamp, device) keys distinct.
  Only the left-inverse law of the pose group is needed (associativity is not). -/
theorem recover_remove_nested (mul : G → G → G) (inv : G → G) (rigs : Rigs G)
    (σ : List (Entry G) → List (Entry G)) (hσ : ∀ l c, c ∈ σ l ↔ c ∈ l) (t : List (Entry G)) (n k : Nat)
    (hinv : ∀ a b, mul (inv a) (mul a b) = b)
    (hne : ∀ r ∈ rigs, r.2 ≠ [])
    (hrk : (rigs.map (·.1)).Nodup)
    (hone : (rigs.flatMap (fun r => r.2.map (·.1))).Nodup)
    (hdepth : ∀ e ∈ t, DepthLE rigs n e.dev)
    (hsingle : ∀ e ∈ t, ∀ e' ∈ t, e.ts = e'.ts → e'.dev ∈ belowList rigs n e.dev → e'.dev = e.dev)
    (hkeys : (t.map (fun e => (e.ts, e.dev))).Nodup)
    (hk : n ≤ k) :
    (∀ e ∈ t, isRig rigs e.dev → e.dev ∉ rigs.flatMap (fun r => r.2.map (·.1)) →
      ∃ e' ∈ recoverIter mul inv rigs none σ k (remove mul rigs n t), e'.ts = e.ts ∧ e'.dev = e.dev ∧ e'.g = e.g) ∧
    (∀ e ∈ t, ¬ isRig rigs e.dev → e.dev ∉ rigs.flatMap (fun r => r.2.map (·.1)) →
      e ∈ recoverIter mul inv rigs none σ k (remove mul rigs n t)) := by
  have hmaster : ∀ e ∈ t, ∀ r ∈ belowList rigs n e.dev, ∀ members, membersOf rigs r = some members →
      ∃ m ∈ members, okOf none m.1 = true := by
    intro e _ r _ members hmo
    obtain ⟨m, hm⟩ := List.exists_mem_of_ne_nil _ (hne (r, members) (mem_of_get? _ _ _ hmo))
    exact ⟨m, hm, rfl⟩
  have key := fun e he htop => recover_remove_aux mul inv rigs none σ hσ t n k hinv hrk hone hdepth hsingle hkeys
    hmaster hk e he htop
  exact ⟨fun e he _ htop => ⟨e, key e he htop, rfl, rfl, rfl⟩, fun e he _ htop => key e he htop⟩

/-- RECOVERY WITH MASTER SENSORS, nested rigs: the same as `recover_remove_nested` with `master_sensors = ms`, provided
  every rig at or below a posed device lists at least one of its members in `ms` (`hmaster`; a member that is itself a
  rig counts only when its own id is in `ms`).  After `remove`, that member (or the sensors below it) is posed at every
  timestamp of the rig, which is the "one posed master member per rig and timestamp" of the property.
  Free sensors are unmounted, so the filter never drops them. -/
theorem recover_remove_masters (mul : G → G → G) (inv : G → G) (rigs : Rigs G) (ms : List String)
    (σ : List (Entry G) → List (Entry G)) (hσ : ∀ l c, c ∈ σ l ↔ c ∈ l) (t : List (Entry G)) (n k : Nat)
    (hinv : ∀ a b, mul (inv a) (mul a b) = b)
    (hrk : (rigs.map (·.1)).Nodup)
    (hone : (rigs.flatMap (fun r => r.2.map (·.1))).Nodup)
    (hdepth : ∀ e ∈ t, DepthLE rigs n e.dev)
    (hsingle : ∀ e ∈ t, ∀ e' ∈ t, e.ts = e'.ts → e'.dev ∈ belowList rigs n e.dev → e'.dev = e.dev)
    (hkeys : (t.map (fun e => (e.ts, e.dev))).Nodup)
    (hmaster : ∀ e ∈ t, ∀ r ∈ belowList rigs n e.dev, ∀ members, membersOf rigs r = some members →
      ∃ m ∈ members, m.1 ∈ ms)
    (hk : n ≤ k) :
    (∀ e ∈ t, isRig rigs e.dev → e.dev ∉ rigs.flatMap (fun r => r.2.map (·.1)) →
      ∃ e' ∈ recoverIter mul inv rigs (some ms) σ k (remove mul rigs n t),
        e'.ts = e.ts ∧ e'.dev = e.dev ∧ e'.g = e.g) ∧
    (∀ e ∈ t, ¬ isRig rigs e.dev → e.dev ∉ rigs.flatMap (fun r => r.2.map (·.1)) →
      e ∈ recoverIter mul inv rigs (some ms) σ k (remove mul rigs n t)) := by
  have hmaster' : ∀ e ∈ t, ∀ r ∈ belowList rigs n e.dev, ∀ members, membersOf rigs r = some members →
      ∃ m ∈ members, okOf (some ms) m.1 = true := by
    intro e he r hr members hmo
    obtain ⟨m, hm, hin⟩ := hmaster e he r hr members hmo
    exact ⟨m, hm, List.contains_iff_mem.mpr hin⟩
  have key := fun e he htop => recover_remove_aux mul inv rigs (some ms) σ hσ t n k hinv hrk hone hdepth hsingle hkeys
    hmaster' hk e he htop
  exact ⟨fun e he _ htop => ⟨e, key e he htop, rfl, rfl, rfl⟩, fun e he _ htop => key e he htop⟩

/-- EXACT ROUND TRIP: when the original trajectory poses unmounted devices only (top-level rigs and free sensors), `n`
  or more recovery passes after `remove` give back exactly the original entries, order aside — any nesting depth, with or
  without master sensors (`masters = none` needs only non-empty rigs: `okOf none _ = true`) -/
theorem recover_remove_exact (mul : G → G → G) (inv : G → G) (rigs : Rigs G) (masters : Option (List String))
    (σ : List (Entry G) → List (Entry G)) (hσ : ∀ l c, c ∈ σ l ↔ c ∈ l) (t : List (Entry G)) (n k : Nat)
    (hinv : ∀ a b, mul (inv a) (mul a b) = b)
    (hrk : (rigs.map (·.1)).Nodup)
    (hone : (rigs.flatMap (fun r => r.2.map (·.1))).Nodup)
    (hdepth : ∀ e ∈ t, DepthLE rigs n e.dev)
    (hsrc : ∀ e ∈ t, e.dev ∉ rigs.flatMap (fun r => r.2.map (·.1)))
    (hkeys : (t.map (fun e => (e.ts, e.dev))).Nodup)
    (hmaster : ∀ e ∈ t, ∀ r ∈ belowList rigs n e.dev, ∀ members, membersOf rigs r = some members →
      ∃ m ∈ members, okOf masters m.1 = true)
    (hk : n ≤ k) :
    SameEntries (recoverIter mul inv rigs masters σ k (remove mul rigs n t)) t := by
  apply sameEntries_of_mem_iff
  intro c
  constructor
  · exact recover_remove_only_aux mul inv rigs masters σ hσ t n k hinv hrk hone hdepth hsrc hk c
  · intro hc
    refine recover_remove_aux mul inv rigs masters σ hσ t n k hinv hrk hone hdepth ?_ hkeys hmaster hk c hc (hsrc c hc)
    -- a device at or below a posed device that is posed itself would be mounted, unless it is that device
    intro e he e' he' _ hbelow
    exact belowList_unmounted rigs n e.dev e'.dev hbelow (hsrc e' he')

/-- `recover_remove_nested` in the shape of `recover_remove_statement` (passes chained on the list as produced), for the
  entries of top-level rigs: `k = n` passes do -/
theorem recover_remove_statement_toplevel (mul : G → G → G) (inv : G → G) (rigs : Rigs G) (t : List (Entry G)) (n : Nat)
    (hinv : ∀ a b, mul (inv a) (mul a b) = b)
    (hne : ∀ r ∈ rigs, r.2 ≠ [])
    (hrk : (rigs.map (·.1)).Nodup)
    (hone : (rigs.flatMap (fun r => r.2.map (·.1))).Nodup)
    (hdepth : ∀ e ∈ t, DepthLE rigs n e.dev)
    (hsingle : ∀ e ∈ t, ∀ e' ∈ t, e.ts = e'.ts → e'.dev ∈ belowList rigs n e.dev → e'.dev = e.dev)
    (hkeys : (t.map (fun e => (e.ts, e.dev))).Nodup) :
    ∀ e ∈ t, isRig rigs e.dev → e.dev ∉ rigs.flatMap (fun r => r.2.map (·.1)) →
      ∃ t', (∃ k, t' = (List.range k).foldl (fun cur _ => recoverStep mul inv rigs none cur) (remove mul rigs n t)) ∧
        ∃ e' ∈ t', e'.ts = e.ts ∧ e'.dev = e.dev ∧ e'.g = e.g := by
  intro e he hrig htop
  refine ⟨_, ⟨n, rfl⟩, ?_⟩
  rw [← recoverIter_id_eq]
  exact (recover_remove_nested mul inv rigs id (fun _ _ => Iff.rfl) t n n hinv hne hrk hone hdepth hsingle hkeys
    (Nat.le_refl n)).1 e he hrig htop

/-- the loop as the code runs it — at most `k` passes, stopping at the first pass without a job — ends with the same
  entries as `k` full passes, so `recover_remove_nested`, `recover_remove_masters` and `recover_remove_exact` hold for it
  (`k = max_depth = 10`, `σ = sortEntries`) -/
theorem recoverLoop_same_entries (mul : G → G → G) (inv : G → G) (rigs : Rigs G) (masters : Option (List String))
    (σ : List (Entry G) → List (Entry G)) (hσ : ∀ l c, c ∈ σ l ↔ c ∈ l) (k : Nat) (t : List (Entry G)) :
    SameEntries (recoverLoop mul inv rigs masters σ k t) (recoverIter mul inv rigs masters σ k t) :=
  sameEntries_of_mem_iff (mem_recoverLoop mul inv rigs masters σ hσ k t)

-- `recover_remove_depth1_partial` is an instance of `recover_remove_exact`
example (mul : G → G → G) (inv : G → G) (rigs : Rigs G) (t : List (Entry G))
    (hinv : ∀ a b, mul (inv a) (mul a b) = b)
    (hflat : ∀ r members, (r, members) ∈ rigs → members ≠ [] ∧ ∀ m ∈ members, ¬ isRig rigs m.1)
    (hrk : (rigs.map (·.1)).Nodup)
    (hone : (rigs.flatMap (fun r => r.2.map (·.1))).Nodup)
    (hsrc : ∀ e ∈ t, (Dict.get? e.dev (reverseRigs inv rigs)).isNone = true)
    (hkeys : (t.map (fun e => (e.ts, e.dev))).Nodup) :
    SameEntries (recoverStep mul inv rigs none (removeStep mul rigs t)) t := by
  have h := recover_remove_exact mul inv rigs none id (fun _ _ => Iff.rfl) t 1 1 hinv hrk hone
    (fun e _ members hmo m hm => (hflat _ _ (mem_of_get? _ _ _ hmo)).2 m hm)
    (fun e he => unmounted_of_get?_none inv rigs hone e.dev (hsrc e he)) hkeys
    (fun e _ r _ members hmo => by
      obtain ⟨m, hm⟩ := List.exists_mem_of_ne_nil _ (hflat _ _ (mem_of_get? _ _ _ hmo)).1
      exact ⟨m, hm, rfl⟩)
    (Nat.le_refl 1)
  rw [remove_one] at h
  exact h

/-- the first wording of the recovery half, kept as a definition: it grants only the group laws and the depth bound, and
  asks for EVERY posed rig.  PROVED for the entries of top-level rigs under the well-formedness hypotheses the property's
  quantifier grants: `recover_remove_statement_toplevel` (this very shape), `recover_remove_nested` (masters = none),
  `recover_remove_masters` (masters = some ms), `recover_remove_exact` (exact round trip).  NOT claimed for a posed rig
  that is itself mounted on an unposed rig: the passes go on and replace its entry by its parent's. -/
def recover_remove_statement (mul : G → G → G) (inv : G → G) (rigs : Rigs G) (masters : Option (List String))
    (t : List (Entry G)) (n : Nat) : Prop :=
  (∀ a b, mul (inv a) (mul a b) = b) → (∀ a b c, mul (mul a b) c = mul a (mul b c)) →
  (∀ e ∈ t, DepthLE rigs n e.dev) →
  ∀ e ∈ t, isRig rigs e.dev →
    ∃ t', (∃ k, t' = (List.range k).foldl (fun cur _ => recoverStep mul inv rigs masters cur) (remove mul rigs n t)) ∧
      ∃ e' ∈ t', e'.ts = e.ts ∧ e'.dev = e.dev ∧ e'.g = e.g

-- non-vacuity: a rig mounted on a rig, poses as integers under addition
example : remove (fun a b => a + b) [("top", [("sub", (10 : Int)), ("camA", 1)]), ("sub", [("camB", 100)])] 10
      [⟨5, "top", 1000⟩, ⟨5, "free", 7⟩]
    = [⟨5, "camB", 1110⟩, ⟨5, "camA", 1001⟩, ⟨5, "free", 7⟩] := by decide
example : recoverStep (fun a b => a + b) (fun a => -a) [("top", [("camA", (1 : Int)), ("camB", 2)])] none
      [⟨5, "camA", 1001⟩, ⟨5, "camB", 1002⟩, ⟨5, "free", 7⟩]
    = [⟨5, "free", 7⟩, ⟨5, "top", 1000⟩] := by decide

-- non-vacuity of the recovery theorems: a rig mounted on a rig ("sub" on "top"), poses as integers under addition
example : recoverIter (fun a b => a + b) (fun a => -a)
      [("top", [("sub", (10 : Int)), ("camA", 1)]), ("sub", [("camB", 100), ("camC", 200)])] none id 2
      (remove (fun a b => a + b) [("top", [("sub", (10 : Int)), ("camA", 1)]), ("sub", [("camB", 100), ("camC", 200)])] 2
        [⟨5, "top", 1000⟩, ⟨5, "free", 7⟩, ⟨6, "sub", 50⟩])
    = [⟨5, "free", 7⟩, ⟨5, "top", 1000⟩, ⟨6, "top", 40⟩] := by decide
-- master sensors: "sub" is recovered from camC only, "top" from "sub" only
example : recoverIter (fun a b => a + b) (fun a => -a)
      [("top", [("sub", (10 : Int)), ("camA", 1)]), ("sub", [("camB", 100), ("camC", 200)])] (some ["camC", "sub"]) id 2
      (remove (fun a b => a + b) [("top", [("sub", (10 : Int)), ("camA", 1)]), ("sub", [("camB", 100), ("camC", 200)])] 2
        [⟨5, "top", 1000⟩, ⟨5, "free", 7⟩])
    = [⟨5, "free", 7⟩, ⟨5, "top", 1000⟩] := by decide
-- the hypotheses of `recover_remove_nested` / `recover_remove_masters` / `recover_remove_exact` hold on that input
example :
    let rigs : Rigs Int := [("top", [("sub", 10), ("camA", 1)]), ("sub", [("camB", 100), ("camC", 200)])]
    let t : List (Entry Int) := [⟨5, "top", 1000⟩, ⟨5, "free", 7⟩]
    SameEntries (recoverIter (fun a b => a + b) (fun a => -a) rigs (some ["camC", "sub"]) id 2
      (remove (fun a b => a + b) rigs 2 t)) t := by
  intro rigs t
  exact recover_remove_exact (fun a b => a + b) (fun a => -a) rigs (some ["camC", "sub"]) id (fun _ _ => Iff.rfl) t 2 2
    (by intro a b; omega) (by decide) (by decide) (by decide) (by decide) (by decide) (by decide) (Nat.le_refl 2)
example :
    let rigs : Rigs Int := [("top", [("sub", 10), ("camA", 1)]), ("sub", [("camB", 100), ("camC", 200)])]
    let t : List (Entry Int) := [⟨5, "top", 1000⟩, ⟨5, "free", 7⟩, ⟨6, "sub", 50⟩, ⟨6, "camA", 9⟩]
    ∃ e' ∈ recoverIter (fun a b => a + b) (fun a => -a) rigs none sortEntries 2 (remove (fun a b => a + b) rigs 2 t),
      e'.ts = 5 ∧ e'.dev = "top" ∧ e'.g = 1000 := by
  intro rigs t
  exact (recover_remove_nested (fun a b => a + b) (fun a => -a) rigs sortEntries mem_sortEntries t 2 2
    (by intro a b; omega) (by decide) (by decide) (by decide) (by decide) (by decide) (by decide) (Nat.le_refl 2)).1
    ⟨5, "top", 1000⟩ (by decide) (by decide) (by decide)

-- the loop with early exit, max_depth = 10, on the same nested input
example : recoverLoop (fun a b => a + b) (fun a => -a)
      [("top", [("sub", (10 : Int)), ("camA", 1)]), ("sub", [("camB", 100), ("camC", 200)])] none id 10
      (remove (fun a b => a + b) [("top", [("sub", (10 : Int)), ("camA", 1)]), ("sub", [("camB", 100), ("camC", 200)])] 10
        [⟨5, "top", 1000⟩, ⟨5, "free", 7⟩])
    = [⟨5, "free", 7⟩, ⟨5, "top", 1000⟩] := by decide

end Kapture.C06
