/-
  Props/C06.lean — property theorems for C06 (switching between rig poses and per-sensor poses never moves a sensor).
  Property theorems ONLY.  `mul`/`inv` are the pose composition and inverse (C05 proves their group laws); the theorems hold
  for ANY rig forest and ANY trajectory satisfying the stated hypotheses, any number of timestamps.
-/
import Kapture.Lemmas.C06

namespace Kapture.C06
open Kapture

variable {G : Type}

/-- entries of devices that are not rigs are untouched by the replacement -/
theorem remove_keeps_free_entries (mul : G → G → G) (rigs : Rigs G) (n : Nat) (t : List (Entry G)) (e : Entry G)
    (he : e ∈ t) (hf : ¬ isRig rigs e.dev) : e ∈ remove mul rigs n t :=
  remove_keeps_free mul rigs n t e he hf

/-- soundness: every entry after the replacement is, at the same timestamp, the pose implied by some original entry and
  the rig geometry below it (rigs mounted on rigs included) -/
theorem remove_sound (mul : G → G → G) (rigs : Rigs G) (n : Nat) (t : List (Entry G)) (e' : Entry G)
    (h : e' ∈ remove mul rigs n t) :
    ∃ e ∈ t, e.ts = e'.ts ∧ Mounted mul rigs (e.dev, e.g) (e'.dev, e'.g) :=
  remove_sound_aux mul rigs n t e' h

/-- completeness: every sensor below an original entry gets exactly that implied pose, provided the nesting under that
  entry is within the pass budget -/
theorem remove_complete (mul : G → G → G) (rigs : Rigs G) (n : Nat) (t : List (Entry G)) (e : Entry G) (d : String) (g : G)
    (he : e ∈ t) (hd : DepthLE rigs n e.dev) (hm : Mounted mul rigs (e.dev, e.g) (d, g)) (hs : ¬ isRig rigs d) :
    ∃ e' ∈ remove mul rigs n t, e'.ts = e.ts ∧ e'.dev = d ∧ e'.g = g :=
  remove_complete_aux mul rigs d g hs n t e.ts e.dev e.g he hd hm

/-- no rig identifier remains when every entry's nesting depth is within the pass budget (max_depth = 10 in the code) -/
theorem remove_leaves_no_rig (mul : G → G → G) (rigs : Rigs G) (n : Nat) (t : List (Entry G))
    (hd : ∀ e ∈ t, DepthLE rigs n e.dev) : ∀ e' ∈ remove mul rigs n t, ¬ isRig rigs e'.dev :=
  remove_leaves_no_rig_aux mul rigs n t hd

/-- a trajectory without rig entries is left as it is -/
theorem remove_identity_without_rigs (mul : G → G → G) (rigs : Rigs G) (n : Nat) (t : List (Entry G))
    (h : ∀ e ∈ t, ¬ isRig rigs e.dev) : remove mul rigs n t = t :=
  remove_identity_aux mul rigs n t h

/-- recovering after replacing gives back every top-level rig pose and keeps every free entry — for rigs whose members
  are sensors (depth 1), unspecified master sensors, and a trajectory in which no rig member is posed directly
  (PARTIAL: the full statement, with nesting and master sensors, is `recover_remove_statement`) -/
theorem recover_remove_depth1_partial (mul : G → G → G) (inv : G → G) (rigs : Rigs G) (t : List (Entry G))
    (hinv : ∀ a b, mul (inv a) (mul a b) = b)
    (hflat : ∀ r members, (r, members) ∈ rigs → members ≠ [] ∧ ∀ m ∈ members, ¬ isRig rigs m.1)
    (hrk : (rigs.map (·.1)).Nodup)
    (hone : (rigs.flatMap (fun r => r.2.map (·.1))).Nodup)      -- each device is mounted on at most one rig, once
    (hsrc : ∀ e ∈ t, (Dict.get? e.dev (reverseRigs inv rigs)).isNone = true)
    (hkeys : (t.map (fun e => (e.ts, e.dev))).Nodup) :
    SameEntries (recoverStep mul inv rigs none (removeStep mul rigs t)) t := by
  have _ := hrk   -- not needed by the proof: `hone` and `hflat` already make the reversed dictionary unambiguous
  exact sameEntries_of_mem_iff (recover_remove_depth1_aux mul inv rigs t hinv hflat hone hsrc hkeys)

/-- the full statement of the recovery half (nesting up to max_depth, master sensors naming one posed member per rig and
  timestamp): recovering from member poses that agree with the rig geometry gives back every top-level rig pose -/
def recover_remove_statement (mul : G → G → G) (inv : G → G) (rigs : Rigs G) (masters : Option (List String))
    (t : List (Entry G)) (n : Nat) : Prop :=
  (∀ a b, mul (inv a) (mul a b) = b) → (∀ a b c, mul (mul a b) c = mul a (mul b c)) →
  (∀ e ∈ t, DepthLE rigs n e.dev) →
  ∀ e ∈ t, isRig rigs e.dev →
    ∃ t', (∃ k, t' = (List.range k).foldl (fun cur _ => recoverStep mul inv rigs masters cur) (remove mul rigs n t)) ∧
      ∃ e' ∈ t', e'.ts = e.ts ∧ e'.dev = e.dev ∧ e'.g = e.g

-- non-vacuity: a rig mounted on a rig, poses as integers under addition
example : remove (fun a b => a + b) [("top", [("sub", (10 : Int)), ("camA", 1)]), ("sub", [("camB", 100)])] 10
      [⟨5, "top", 1000⟩, ⟨5, "free", 7⟩]
    = [⟨5, "camB", 1110⟩, ⟨5, "camA", 1001⟩, ⟨5, "free", 7⟩] := by decide
example : recoverStep (fun a b => a + b) (fun a => -a) [("top", [("camA", (1 : Int)), ("camB", 2)])] none
      [⟨5, "camA", 1001⟩, ⟨5, "camB", 1002⟩, ⟨5, "free", 7⟩]
    = [⟨5, "free", 7⟩, ⟨5, "top", 1000⟩] := by decide

end Kapture.C06
