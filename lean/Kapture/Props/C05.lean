/-
  Props/C05.lean — property theorems for C05 (poses form a rigid-transform group).
  Property theorems ONLY; helper lemmas live in Lemmas/C05.lean.
  All statements are over an arbitrary field `K` and hold for every quaternion with non-zero squared norm
  (in an ordered field: every non-zero quaternion, `qnorm_ne_zero_of_ne`), every translation, every point,
  and pose lists of any length.  `rot` is built from the two branches GENERATED from `_as_rotation_matrix_njit`.
-/
import Kapture.Lemmas.C05

set_option linter.unusedSectionVars false
set_option linter.unusedVariables false

namespace Kapture.C05
open Kapture Kapture.Gen.RotMat
variable {K : Type} [Field K] [DecidableEq K]

/-- the two generated branches coincide on unit quaternions -/
theorem branches_agree (q : Quat K) (h : qnorm q = 1) : rotUnit q = rotNorm q (qnorm q) := by
  rw [h]; simp [rotUnit, rotNorm]

/-- the rotation matrix is multiplicative: R(pq) = R(p) R(q) -/
theorem rot_mul (p q : Quat K) (hp : qnorm p ≠ 0) (hq : qnorm q ≠ 0) :
    rot (Quat.mul p q) = M3.mul (rot p) (rot q) := by
  rw [rot_eq_norm, rot_eq_norm p, rot_eq_norm q, qnorm_mul]
  have hn := qnorm_def p
  have hm := qnorm_def q
  generalize qnorm p = n at *
  generalize qnorm q = m at *
  simp only [rotNorm, M3.mul, Quat.mul, M3.mk.injEq]
  refine ⟨?_, ?_, ?_, ?_, ?_, ?_, ?_, ?_, ?_⟩ <;> (field_simp; subst hn hm; ring)

/-- R(q) is orthogonal: R Rᵀ = I -/
theorem rot_orthogonal (q : Quat K) (h : qnorm q ≠ 0) :
    M3.mul (rot q) (M3.transpose (rot q)) = M3.one := by
  rw [rot_eq_norm]
  have hn := qnorm_def q
  generalize qnorm q = n at *
  simp only [rotNorm, M3.mul, M3.transpose, M3.one, M3.mk.injEq]
  refine ⟨?_, ?_, ?_, ?_, ?_, ?_, ?_, ?_, ?_⟩ <;> (field_simp; subst hn; ring)

/-- the matrix of the inverse quaternion is the transpose -/
theorem rot_inv (q : Quat K) (h : qnorm q ≠ 0) : rot (Quat.inv q) = M3.transpose (rot q) := by
  rw [rot_eq_norm, rot_eq_norm q, qnorm_inv q h]
  have h' : Quat.norm2 q ≠ 0 := by rwa [← qnorm_eq_norm2]
  have e : Quat.norm2 q = qnorm q := (qnorm_eq_norm2 q).symm
  simp only [rotNorm, M3.transpose, Quat.inv, M3.mk.injEq]
  rw [e]
  generalize qnorm q = n at *
  refine ⟨?_, ?_, ?_, ?_, ?_, ?_, ?_, ?_, ?_⟩ <;> (field_simp; try ring)

/-- non-unit clause: the rotation is that of the normalised quaternion — any non-zero scaling is irrelevant -/
theorem rot_scale_invariant (c : K) (q : Quat K) (hc : c ≠ 0) (h : qnorm q ≠ 0) :
    rot (Quat.smul c q) = rot q := by
  rw [rot_eq_norm, rot_eq_norm q, qnorm_smul]
  have hn := qnorm_def q
  generalize qnorm q = n at *
  simp only [rotNorm, Quat.smul, M3.mk.injEq]
  refine ⟨?_, ?_, ?_, ?_, ?_, ?_, ?_, ?_, ?_⟩ <;> (field_simp; try ring)

/-- composing is associative (exactly, both parts) -/
theorem compose2_assoc (a b c : Pose K) (ha : qnorm a.r ≠ 0) (hb : qnorm b.r ≠ 0) :
    compose2 (compose2 a b) c = compose2 a (compose2 b c) := by
  simp only [compose2, Pose.mk.injEq]
  refine ⟨quat_mul_assoc _ _ _, ?_⟩
  rw [rot_mul _ _ ha hb, mulVec_mul, mulVec_add, add_assoc3]

theorem compose2_qnorm (a b : Pose K) : qnorm (compose2 a b).r = qnorm a.r * qnorm b.r := by
  simp only [compose2, qnorm_mul]

private theorem foldl_qnorm_ne (ps : List (Pose K)) (p : Pose K) (hp : qnorm p.r ≠ 0)
    (h : ∀ x ∈ ps, qnorm x.r ≠ 0) : qnorm (ps.foldl compose2 p).r ≠ 0 := by
  induction ps generalizing p with
  | nil => simpa
  | cons x xs ih =>
    simp only [List.foldl_cons]
    apply ih
    · rw [compose2_qnorm]; exact mul_ne_zero hp (h x (by simp))
    · intro y hy; exact h y (by simp [hy])

private theorem foldl_compose2_assoc (ps : List (Pose K)) (a b : Pose K) (ha : qnorm a.r ≠ 0) (hb : qnorm b.r ≠ 0)
    (h : ∀ x ∈ ps, qnorm x.r ≠ 0) :
    ps.foldl compose2 (compose2 a b) = compose2 a (ps.foldl compose2 b) := by
  induction ps generalizing b with
  | nil => rfl
  | cons x xs ih =>
    simp only [List.foldl_cons]
    rw [compose2_assoc a b x ha hb]
    apply ih
    · rw [compose2_qnorm]; exact mul_ne_zero hb (h x (by simp))
    · intro y hy; exact h y (by simp [hy])

/-- associativity for chains of ANY length: composing a concatenation equals composing the two halves and
  then composing the results — hence every bracketing of a chain gives the same pose. -/
theorem compose_append (xs ys : List (Pose K)) (x y cx cy : Pose K)
    (hx : ∀ p ∈ x :: xs, qnorm p.r ≠ 0) (hy : ∀ p ∈ y :: ys, qnorm p.r ≠ 0)
    (ex : compose (x :: xs) = some cx) (ey : compose (y :: ys) = some cy) :
    compose ((x :: xs) ++ (y :: ys)) = some (compose2 cx cy) := by
  simp only [compose, Option.some.injEq, List.cons_append, List.foldl_append, List.foldl_cons] at *
  subst ex ey
  have hcx : qnorm (xs.foldl compose2 x).r ≠ 0 :=
    foldl_qnorm_ne xs x (hx x (by simp)) (fun p hp => hx p (by simp [hp]))
  exact foldl_compose2_assoc ys _ y hcx (hy y (by simp)) (fun p hp => hy p (by simp [hp]))

/-- composing a pose with its inverse is exactly the identity pose (both orders) -/
theorem compose_inverse_right (p : Pose K) (h : qnorm p.r ≠ 0) : compose2 p (inverse p) = identity := by
  simp only [compose2, inverse, identity, Pose.mk.injEq]
  refine ⟨quat_mul_inv _ h, ?_⟩
  rw [← mulVec_mul, rot_inv _ h, rot_orthogonal _ h, mulVec_one]
  simp only [V3.add, V3.mulNegOne, V3.zero, V3.mk.injEq]
  refine ⟨?_, ?_, ?_⟩ <;> ring

theorem compose_inverse_left (p : Pose K) (h : qnorm p.r ≠ 0) : compose2 (inverse p) p = identity := by
  simp only [compose2, inverse, identity, Pose.mk.injEq]
  refine ⟨quat_inv_mul _ h, ?_⟩
  rw [← mulVec_add]
  have : V3.add p.t (V3.mulNegOne p.t) = V3.zero := by
    simp only [V3.add, V3.mulNegOne, V3.zero, V3.mk.injEq]
    refine ⟨?_, ?_, ?_⟩ <;> ring
  rw [this]
  simp only [M3.mulVec, V3.zero, V3.mk.injEq]
  refine ⟨?_, ?_, ?_⟩ <;> ring

/-- inverting twice returns the pose, exactly -/
theorem inverse_inverse (p : Pose K) (h : qnorm p.r ≠ 0) : inverse (inverse p) = p := by
  have hi := qnorm_inv_ne _ h
  cases p with
  | mk r t =>
    simp only [inverse, Pose.mk.injEq]
    refine ⟨quat_inv_inv _ h, ?_⟩
    rw [quat_inv_inv _ h]
    have e : ∀ v : V3 K, V3.mulNegOne (M3.mulVec (rot (Quat.inv r)) (V3.mulNegOne v))
        = M3.mulVec (rot (Quat.inv r)) v := by
      intro v
      simp only [V3.mulNegOne, M3.mulVec, V3.mk.injEq]
      refine ⟨?_, ?_, ?_⟩ <;> ring
    rw [e, ← mulVec_mul]
    have : M3.mul (rot r) (rot (Quat.inv r)) = M3.one := by
      rw [rot_inv _ h]; exact rot_orthogonal _ h
    rw [this, mulVec_one]

/-- transforming by a composition equals transforming successively, right-most first -/
theorem transform_compose2 (a b : Pose K) (x : V3 K) (ha : qnorm a.r ≠ 0) (hb : qnorm b.r ≠ 0) :
    transform (compose2 a b) x = transform a (transform b x) := by
  simp only [transform, compose2]
  rw [rot_mul _ _ ha hb, mulVec_mul, mulVec_add, add_assoc3]

/-- chain law for chains of ANY length, by induction on the list -/
theorem transform_compose_chain (ps : List (Pose K)) (c : Pose K) (x : V3 K)
    (h : ∀ p ∈ ps, qnorm p.r ≠ 0) (e : compose ps = some c) :
    transform c x = ps.foldr transform x := by
  cases ps with
  | nil => simp [compose] at e
  | cons p ps =>
    simp only [compose, Option.some.injEq] at e
    subst e
    have hp := h p (by simp)
    have hps : ∀ q ∈ ps, qnorm q.r ≠ 0 := fun q hq => h q (by simp [hq])
    clear h
    induction ps generalizing p x with
    | nil => rfl
    | cons q qs ih =>
      simp only [List.foldl_cons, List.foldr_cons]
      have hq := hps q (by simp)
      have hqs : ∀ r ∈ qs, qnorm r.r ≠ 0 := fun r hr => hps r (by simp [hr])
      rw [foldl_compose2_assoc qs p q hp hq hqs]
      have hf : qnorm (qs.foldl compose2 q).r ≠ 0 := foldl_qnorm_ne qs q hq hqs
      rw [transform_compose2 _ _ _ hp hf, ih (p := q) (x := x) hq hqs]
      rfl

/-- point transforms preserve (squared) distances -/
theorem transform_isometry (p : Pose K) (x y : V3 K) (h : qnorm p.r ≠ 0) :
    V3.norm2 (V3.sub (transform p x) (transform p y)) = V3.norm2 (V3.sub x y) := by
  simp only [transform]
  rw [rot_eq_norm]
  have hn := qnorm_def p.r
  generalize qnorm p.r = n at *
  simp only [rotNorm, M3.mulVec, V3.add, V3.sub, V3.norm2, V3.dot]
  field_simp
  subst hn
  ring

/-- the inverse pose undoes the point transform -/
theorem transform_inverse (p : Pose K) (x : V3 K) (h : qnorm p.r ≠ 0) :
    transform (inverse p) (transform p x) = x := by
  rw [← transform_compose2 _ _ _ (by simpa [inverse] using qnorm_inv_ne _ h) h, compose_inverse_left p h]
  cases x
  simp only [transform, identity, rot_eq_norm, rotNorm, Quat.one, qnorm, M3.mulVec, V3.add, V3.zero]
  simp

/-- colour columns never influence transformed coordinates; one output row per input row -/
theorem transformPoints_ignores_rgb (p : Pose K) (rows : List (Row K)) :
    transformPoints p rows = transformPoints p (rows.map (fun r => { r with rgb := none }))
    ∧ (transformPoints p rows).length = rows.length := by
  simp [transformPoints, List.map_map, Function.comp_def]

/-- every real non-zero quaternion satisfies the hypothesis of the theorems above -/
theorem hypotheses_met_by_nonzero {F : Type} [Field F] [LinearOrder F] [IsStrictOrderedRing F]
    (q : Quat F) (h : q ≠ ⟨0, 0, 0, 0⟩) : qnorm q ≠ 0 := by
  apply qnorm_ne_zero_of_ne
  by_contra hc
  simp only [not_or, not_not] at hc
  apply h
  cases q
  simp_all

-- non-vacuity: a concrete non-unit quaternion over ℚ meets the hypotheses, and the chain law's premise
-- `compose ps = some c` is met by a 3-element chain
example : qnorm (⟨1, 2, 3, 4⟩ : Quat ℚ) ≠ 0 := by simp only [qnorm]; norm_num
example : ∃ c, compose [(⟨⟨1, 2, 3, 4⟩, ⟨1, 0, 0⟩⟩ : Pose ℚ), ⟨⟨0, 1, 0, 0⟩, ⟨0, 5, 0⟩⟩, ⟨⟨1, 1, 0, 0⟩, ⟨0, 0, 7⟩⟩] = some c :=
  ⟨_, rfl⟩

/-- rescaling (the in-place mutator) commutes with inversion: the inverse of a rescaled pose is the rescaled inverse -/
theorem inverse_rescale (s : K) (p : Pose K) : inverse (rescale s p) = rescale s (inverse p) := by
  simp only [inverse, rescale, Pose.mk.injEq, true_and]
  simp only [M3.mulVec, V3.mulNegOne, V3.mk.injEq]
  refine ⟨?_, ?_, ?_⟩ <;> ring

/-- HISTORIES of pose objects: rescaling one object changes that object only — every other object of the pool, results of earlier
  `inverse` / `compose` calls included, stays what it was; so `p.inverse()` asked again later is the inverse of what `p` is then -/
theorem rescale_touches_one_object (pool : List (Pose K)) (i j : Nat) (s : K) (h : j ≠ i) :
    (histStep pool (HistOp.rescale i s))[j]? = pool[j]? := by
  simp only [histStep]
  cases pool[i]? with
  | none => rfl
  | some p => simp [List.getElem?_set, h.symm]

end Kapture.C05
