/-
  Props/C04.lean — property theorems for C04 (a loaded dataset has no dangling references and loses nothing that resolves).
  Property theorems ONLY.  For EVERY directory content (any rows, any dangling entries, any version string).
-/
import Kapture.Lemmas.C04

namespace Kapture.C04

/-- every loaded record refers to a declared sensor of the matching kind -/
theorem records_closed (cur : String) (d : Dir) (l : Loaded) (h : loadDir cur d = Except.ok l)
    (kind : String) (rows : List (Int × String × Tok)) (hk : (kind, rows) ∈ l.records)
    (r : Int × String × Tok) (hr : r ∈ rows) :
    ∃ ty, (kind, ty) ∈ kindOfRecords ∧ declaredOfType d r.2.1 ty := by
  obtain ⟨v, -, -, -, -, -, -, -, hrec, -⟩ := loadDir_ok h
  rw [hrec] at hk
  obtain ⟨rows₀, ty, -, hin, rfl⟩ := mem_loadRecords_elim hk
  exact ⟨ty, hin, mem_idsOfType.1 (mem_filterDevices.1 hr).2⟩

/-- ... and no record whose sensor is declared with the matching kind is dropped -/
theorem records_complete (cur : String) (d : Dir) (l : Loaded) (h : loadDir cur d = Except.ok l)
    (kind ty : String) (rows : List (Int × String × Tok)) (hk : (kind, rows) ∈ d.records)
    (hty : kindOfRecords.find? (fun e => e.1 == kind) = some (kind, ty))
    (r : Int × String × Tok) (hr : r ∈ rows) (hd : declaredOfType d r.2.1 ty) :
    ∃ rows', (kind, rows') ∈ l.records ∧ r ∈ rows' := by
  obtain ⟨v, -, -, -, -, -, -, -, hrec, -⟩ := loadDir_ok h
  have hin : r.2.1 ∈ idsOfType d ty := mem_idsOfType.2 hd
  have hne : (idsOfType d ty).isEmpty = false := by
    cases hids : idsOfType d ty with
    | nil => rw [hids] at hin; cases hin
    | cons => rfl
  exact ⟨_, hrec ▸ mem_loadRecords_intro hk hty hne, mem_filterDevices.2 ⟨hr, hin⟩⟩

/-- every loaded trajectory entry refers to a declared sensor or rig; none that does is dropped -/
theorem trajectories_closed_complete (cur : String) (d : Dir) (l : Loaded) (h : loadDir cur d = Except.ok l)
    (rows : List (Int × String × Tok)) (hd : d.trajectories = some rows) :
    ∃ rows', l.trajectories = some rows' ∧
      ∀ r, r ∈ rows' ↔ (r ∈ rows ∧ (r.2.1 ∈ sensorIds d ∨ isRigId d r.2.1)) := by
  obtain ⟨v, -, -, -, -, -, -, htraj, -, -⟩ := loadDir_ok h
  rw [hd] at htraj
  refine ⟨_, htraj, fun r => ?_⟩
  rw [mem_filterDevices, mem_deviceIds]

/-- every loaded rig member is a declared sensor or a rig; none that is, is dropped; and a rig id that collides with a
  sensor id makes the load fail -/
theorem rigs_closed_complete (cur : String) (d : Dir) (l : Loaded) (h : loadDir cur d = Except.ok l)
    (rows : List (String × String × Tok)) (hd : d.rigs = some rows) :
    (∀ r ∈ rows, r.1 ∉ sensorIds d) ∧
    ∃ rows', l.rigs = some rows' ∧
      ∀ r, r ∈ rows' ↔ (r ∈ rows ∧ (r.2.1 ∈ sensorIds d ∨ isRigId d r.2.1)) := by
  obtain ⟨v, -, -, -, -, hcol, hrigs, -, -, -⟩ := loadDir_ok h
  have hc := hcol rows hd
  rw [hd] at hrigs
  refine ⟨fun r hr hin => ?_, _, hrigs, fun r => ?_⟩
  · rw [List.any_eq_false] at hc
    exact hc r hr (List.contains_iff_mem.2 hin)
  · rw [List.mem_filter]
    refine and_congr_right fun _ => ?_
    unfold rigKeep isRigId
    rw [hd]
    simp only [Bool.or_eq_true, List.contains_iff_mem, List.mem_map, Option.getD_some]

theorem collision_rejected (cur : String) (d : Dir) (v : String) (rows : List (String × String × Tok))
    (hv : d.version = some v) (hg : versionGt v cur = false) (hd : d.rigs = some rows)
    (r : String × String × Tok) (hr : r ∈ rows) (hc : r.1 ∈ sensorIds d) :
    loadDir cur d = Except.error Err.collision := by
  have hany : rows.any (fun r => (sensorIds d).contains r.1) = true :=
    List.any_eq_true.2 ⟨r, hr, List.contains_iff_mem.2 hc⟩
  unfold loadDir
  rw [hv]
  dsimp only
  rw [hg, hd]
  dsimp only
  rw [loadRigs_collision hany]
  rfl

/-- every loaded feature entry is a known image (a loaded camera record) whose data file exists; none such is dropped -/
theorem keypoints_closed_complete (cur : String) (d : Dir) (l : Loaded) (h : loadDir cur d = Except.ok l)
    (ts : List (String × Tok × List String)) (hk : l.keypoints = some ts) :
    ∃ ds, d.keypoints = some ds ∧ ts.map (·.1) = ds.map (·.1) ∧
      ∀ ty cfg names, (ty, cfg, names) ∈ ts →
        ∃ onDisk, (ty, cfg, onDisk) ∈ ds ∧ ∀ n, n ∈ names ↔ (n ∈ onDisk ∧ n ∈ loadedImages l) := by
  obtain ⟨v, -, -, -, -, -, -, -, -, hrest⟩ := loadDir_ok h
  rcases hrest with ⟨-, hkn, -⟩ | ⟨-, hkp, -⟩
  · rw [hkn] at hk; cases hk
  · rw [hkp] at hk
    obtain ⟨ds, hds, rfl⟩ := loadFeatures_some hk
    refine ⟨ds, hds, ?_, ?_⟩
    · rw [List.map_map]; rfl
    · intro ty cfg names hmem
      rw [List.mem_map] at hmem
      obtain ⟨⟨ty', cfg', onDisk⟩, hin, heq⟩ := hmem
      cases heq
      refine ⟨onDisk, hin, fun n => ?_⟩
      simp only [List.mem_filter, List.contains_iff_mem]

/-- every loaded match pair joins two known images -/
theorem matches_closed (cur : String) (d : Dir) (l : Loaded) (h : loadDir cur d = Except.ok l)
    (ts : List (String × List (String × String))) (hk : l.matchSets = some ts)
    (ty : String) (ps : List (String × String)) (ht : (ty, ps) ∈ ts) (p : String × String) (hp : p ∈ ps) :
    p.1 ∈ loadedImages l ∧ p.2 ∈ loadedImages l := by
  obtain ⟨v, -, -, -, -, -, -, -, -, hrest⟩ := loadDir_ok h
  rcases hrest with ⟨-, -, -, -, hmn, -⟩ | ⟨-, -, -, -, hm, -⟩
  · rw [hmn] at hk; cases hk
  · rw [hm] at hk
    obtain ⟨ds, -, rfl⟩ := loadMatches_some hk
    rw [List.mem_map] at ht
    obtain ⟨⟨ty', ps'⟩, -, heq⟩ := ht
    cases heq
    simpa only [List.mem_filter, Bool.and_eq_true, List.contains_iff_mem] using (List.mem_filter.1 hp).2

/-- every loaded observation refers to a loaded keypoints type and to an image of that type; none such is dropped -/
theorem observations_closed_complete (cur : String) (d : Dir) (l : Loaded) (h : loadDir cur d = Except.ok l)
    (obs : List (Int × String × String × Int)) (ho : l.observations = some obs) :
    ∃ kps rows, l.keypoints = some kps ∧ d.observations = some rows ∧
      ∀ o, o ∈ obs ↔ (o ∈ rows ∧ ∃ cfg names, kps.find? (fun t => t.1 == o.2.1) = some (o.2.1, cfg, names) ∧ o.2.2.1 ∈ names) := by
  obtain ⟨v, -, -, -, -, -, -, -, -, hrest⟩ := loadDir_ok h
  rcases hrest with ⟨-, -, -, -, -, -, hon⟩ | ⟨-, -, -, -, -, -, ⟨-, hon⟩ | ⟨k, rows, hkp, hobs, hlo⟩⟩
  · rw [hon] at ho; cases ho
  · rw [hon] at ho; cases ho
  · rw [hlo] at ho
    cases ho
    exact ⟨k, rows, hkp, hobs, fun o => mem_loadObservations⟩

/-- a directory declaring a newer version is refused -/
theorem newer_refused (cur : String) (d : Dir) (v : String) (hv : d.version = some v) (hg : versionGt v cur = true) :
    loadDir cur d = Except.error Err.newerVersion := by
  unfold loadDir
  rw [hv]
  dsimp only
  rw [if_pos hg]

/-- a directory declaring another (not newer) version loads its sensors-side files only, exactly as it would under
  the current version, without the reconstruction -/
theorem older_sensors_only (cur : String) (d : Dir) (v : String) (l : Loaded) (hv : d.version = some v)
    (hne : v ≠ cur) (h : loadDir cur d = Except.ok l) :
    l.keypoints = none ∧ l.descriptors = none ∧ l.globalFeatures = none ∧ l.matchSets = none ∧
    l.points3d = none ∧ l.observations = none ∧
    ∀ l', loadDir cur { d with version := some cur } = Except.ok l' →
      l'.sensors = l.sensors ∧ l'.rigs = l.rigs ∧ l'.trajectories = l.trajectories ∧ l'.records = l.records := by
  obtain ⟨v', hv', -, -, hs, -, hr, ht, hrec, hrest⟩ := loadDir_ok h
  rw [hv] at hv'
  cases hv'
  rcases hrest with ⟨-, h1, h2, h3, h4, h5, h6⟩ | ⟨heq, -⟩
  · refine ⟨h1, h2, h3, h4, h5, h6, fun l' h' => ?_⟩
    obtain ⟨v'', -, -, -, hs', -, hr', ht', hrec', -⟩ := loadDir_ok h'
    exact ⟨hs'.trans hs.symm, hr'.trans hr.symm, ht'.trans ht.symm, hrec'.trans hrec.symm⟩
  · exact absurd heq hne

/-- the decimal comparison: 1.2, 2.0, 10.0 are newer than 1.1; 1.0, 0.9, 1.1, 1.10 are not -/
theorem version_order_examples :
    versionGt "1.2" "1.1" = true ∧ versionGt "2.0" "1.1" = true ∧ versionGt "10.0" "1.1" = true ∧
    versionGt "1.0" "1.1" = false ∧ versionGt "0.9" "1.1" = false ∧ versionGt "1.1" "1.1" = false ∧
    versionGt "1.10" "1.1" = false :=
  versionGt_examples

end Kapture.C04
