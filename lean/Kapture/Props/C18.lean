/-
  Props/C18.lean — property theorems for C18 (unpacking a dataset archive never writes outside the install directory).
  Property theorems ONLY.
-/
import Kapture.Lemmas.C18

namespace Kapture.C18

/-- lexical resolution without links: `..` pops, `.` and empty are skipped, anything else is pushed -/
theorem realpath_linkfree_step (dest : Path) (fs : FS) (h : LinkFree fs) (fuel : Nat) (cur : Path) (c : String) (rest : List String)
    (hc : c ≠ "" ∧ c ≠ "." ∧ c ≠ "..") :
    realpath dest fs (fuel + 1) cur (c :: rest) = realpath dest fs fuel (cur ++ [c]) rest := by
  obtain ⟨h1, h2, h3⟩ := hc
  have e1 : (c == "" || c == ".") = false := by simp [h1, h2]
  have e2 : (c == "..") = false := by simp [h3]
  rw [realpath.eq_3]
  simp only [e1, e2, Bool.false_eq_true, if_false]
  split
  · rename_i t heq
    split at heq
    · exact absurd heq (lookup_not_link fs h _ t)
    · cases heq
  · rfl

/-- a member is only ever extracted when its resolved destination is inside the install directory: whatever the
  member's name (any mix of `..`, `.`, empty and absolute components) and whatever links the tree holds -/
theorem accepted_member_inside (dest : Path) (fs fs' : FS) (m : Member)
    (earlier : List Member) (h : extractMember dest fs earlier m = Verdict.ok fs') :
    ∃ target, realpath dest fs FUEL dest (split (stripSlashes m.name)) = some target ∧ Inside dest target := by
  obtain ⟨target, ht, hp, _⟩ := extract_ok_inv dest fs fs' m earlier h
  exact ⟨target, ht, hp⟩

/-- a symbolic or hard link is only ever created when its target is relative and resolves inside the install directory -/
theorem accepted_link_inside (dest : Path) (fs fs' : FS) (m : Member) (hk : m.kind = Kind.sym ∨ m.kind = Kind.hard)
    (earlier : List Member) (h : extractMember dest fs earlier m = Verdict.ok fs') :
    m.linkname.startsWith "/" = false ∧
    ∃ t, realpath dest fs FUEL dest
          ((if m.kind = Kind.sym then (split (stripSlashes m.name)).dropLast else []) ++ split m.linkname) = some t ∧
      Inside dest t := by
  obtain ⟨_, _, _, _, hl, _⟩ := extract_ok_inv dest fs fs' m earlier h
  exact hl hk

/-- special files (devices, fifos) are never extracted -/
theorem special_rejected (dest : Path) (fs : FS) (earlier : List Member) (m : Member) (hk : m.kind = Kind.special) :
    ∀ fs', extractMember dest fs earlier m ≠ Verdict.ok fs' := by
  intro fs' h
  obtain ⟨_, _, _, hs, _⟩ := extract_ok_inv dest fs fs' m earlier h
  exact hs hk

/-- extraction of a whole archive stops at the first refused member and keeps what was extracted before: the result is the
  fold of the accepted prefix -/
theorem untar_stops_at_first_error (dest : Path) (fs : FS) (earlier : List Member) (m : Member) (ms : List Member) (why : String)
    (h : extractMember dest fs earlier m = Verdict.filterError why) :
    untarFrom dest fs earlier (m :: ms) = (fs, some why) := by
  rw [untarFrom, h]

/-- a name made of `..` components only can never be accepted from an empty install directory
  (it resolves strictly above dest) -/
theorem dotdot_rejected (dest : Path) (k : Nat) (hd : dest ≠ []) (hk : 0 < k) (hk2 : k ≤ dest.length) (m : Member)
    (hn : split (stripSlashes m.name) = List.replicate k ".." ++ ["x"]) (hf : k + 2 ≤ FUEL) :
    ∀ earlier fs', extractMember dest [] earlier m ≠ Verdict.ok fs' := by
  intro earlier fs' h
  obtain ⟨_, _, _, _, _, w, hw, hpw⟩ := extract_ok_inv dest [] fs' m earlier h
  have hdl : (split (stripSlashes m.name)).dropLast = List.replicate k ".." := by
    rw [hn, List.dropLast_concat]
  obtain ⟨p, hp, hlen⟩ := kresolve_dotdots dest [] k FUEL dest (by omega)
  rw [hdl, hp] at hw
  cases hw
  have := isPrefix_length hpw
  have : 0 < dest.length := List.length_pos_iff.mpr hd
  simp only at *
  omega

/-- PARTIAL — the full statement for link-free trees: a regular file with a plain relative name is always extracted, at
  dest/name, with its content (benign archives are extracted entirely) -/
theorem benign_file_extracted_partial (dest : Path) (fs : FS) (m : Member) (hl : LinkFree fs) (hk : m.kind = Kind.file)
    (c : String) (hn : split (stripSlashes m.name) = [c]) (hc : c ≠ "" ∧ c ≠ "." ∧ c ≠ "..")
    (hfree : lookup fs [c] = none) :
    ∀ earlier, extractMember dest fs earlier m = Verdict.ok (setNode fs [c] (Node.file m.content)) := by
  intro earlier
  have hr : realpath dest fs FUEL dest [c] = some (dest ++ [c]) := by
    show realpath dest fs (199 + 1) dest [c] = _
    rw [realpath_linkfree_step dest fs hl 199 dest c [] hc]
    rfl
  have hkr : kresolve dest fs FUEL dest [] = some dest := rfl
  unfold extractMember
  dsimp only
  simp only [hn, hr]
  have hself : isPrefix dest dest = true := by simpa using isPrefix_append dest []
  have hdir : isDirAt dest fs dest = true := by simp [isDirAt, hself, rel, lookup]
  simp [isPrefix_append, hself, hk, hkr, hc.1, hc.2.1, hc.2.2, rel, hfree, hdir]

end Kapture.C18
