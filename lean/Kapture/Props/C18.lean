/-
  Props/C18.lean — property theorems for C18 (unpacking a dataset archive never writes outside the install directory).
  Property theorems ONLY.

  The model (Model/C18.lean) computes, at every site where the real code creates or replaces a file-system entry, the
  PHYSICAL path the kernel would use — following symbolic links the way the kernel does, making missing parent directories
  the way `os.makedirs` does on the literal path — independently of what the filter vetted with Python's lexical
  `realpath`; an entry that would land anywhere but strictly below the install directory is the verdict `escaped`.
-/
import Kapture.Lemmas.C18
import Kapture.Gen.IoShapes

namespace Kapture.C18

/-- THE PROPERTY, one member: whatever the member's kind, name and link target, whatever the tree already holds (symbolic
  links included, created by arch members or standing there before), no entry is created or replaced anywhere but
  strictly below the install directory.  `Closed` (nothing exists below a path that does not exist) holds of every real
  tree. -/
theorem member_never_escapes (dest : Path) (fs : FS) (hc : Closed fs) (arch : Arch) (m : Member) :
    ∀ q, extractMember dest fs arch m ≠ Verdict.escaped q :=
  extractMember_not_escaped hc arch m

/-- ... and a tree stays a tree, so the statement can be chained over the members of an archive -/
theorem tree_stays_closed (dest : Path) (fs fs' : FS) (hc : Closed fs) (arch : Arch) (m : Member)
    (h : extractMember dest fs arch m = Verdict.ok fs') : Closed fs' :=
  extractMember_closed hc arch m fs' h

/-- THE PROPERTY, whole archives: extracting ANY archive (any number of members, any mix of files, directories, symbolic and
  hard links, special files, any names and targets) into an install directory holding any tree never creates or replaces
  an entry outside that directory -/
theorem untar_never_escapes_from (dest : Path) (fs : FS) (hc : Closed fs) (ms : List Member) :
    ∀ q, (untar dest fs ms).2 ≠ some (Stop.escaped q) :=
  untarFrom_never_escapes ms fs _ hc

/-- in particular from an empty install directory (what the correspondence harness runs) -/
theorem untar_never_escapes (dest : Path) (ms : List Member) :
    ∀ q, (untar dest [] ms).2 ≠ some (Stop.escaped q) :=
  untar_never_escapes_from dest [] closed_nil ms

/-- THE MODEL NEVER GIVES UP: whatever the archive, the extraction modelled here runs to its end or to the first fatal error of
  the real code — the verdict `unmodelled` (a special file that a link's copy fallback would have to make) is unreachable,
  because a special member stops the extraction before any later link can name it.  With `untar_never_escapes_from` this
  makes the containment statement one about EVERY archive, hard links and their copy fallbacks included. -/
theorem untar_never_unmodelled (dest : Path) (fs : FS) (ms : List Member) : (untar dest fs ms).2 ≠ some Stop.unmodelled :=
  untarFrom_never_unmodelled ms fs _ (by simp) (fun j e hj _ => by simp at hj)

/-- a member that is skipped (a link whose copy fallback finds nothing to copy: a logged ExtractError) leaves a tree with at
  most new parent directories, all inside -/
theorem skipped_member_keeps_tree (dest : Path) (fs fs' : FS) (hc : Closed fs) (arch : Arch) (m : Member)
    (h : extractMember dest fs arch m = Verdict.skipped fs') : Closed fs' :=
  extractMember_skipped_closed hc arch m fs' h

-- (the copy fallbacks cannot be exhibited by `decide`: names go through String.splitOn, which the kernel does not reduce; the
-- archives of harness/c18.py `FALLBACK_CASES` run them on the model's executable definitions and on the real code on every run)

-- non-vacuity: entries ARE created (a missing parent directory, then the file), through `writeAt`, the only way the
-- model touches the tree
example : placeMember ["inst"] [] ⟨[], 0⟩ { kind := Kind.file, name := "d/x", linkname := "", content := 1 } ["d", "x"]
    = Verdict.ok [(["d"], Node.dir), (["d", "x"], Node.file 1)] := by decide +kernel

/-- the model's assumptions about the code of untar_file are what the translator reads in the source on every run
  (Gen/IoShapes.lean): every member name goes through the `..` guard before extraction, the extraction filter is `data`,
  and attributes are not applied (`set_attrs=False`: modes come from the umask, owner read/write).  And about the tarfile of
  the interpreter: `makelink` falls back to copying after an OSError or an AttributeError (what `chain` models), and the
  extraction functions are, syntax tree for syntax tree, the ones the model was transcribed from (the translator refuses
  any other fingerprint) -/
theorem untar_code_is_the_model :
    Gen.IoShapes.untarDotDotGuard = true ∧ Gen.IoShapes.untarFilter = "data" ∧ Gen.IoShapes.untarSetAttrs = false ∧
    "OSError" ∈ Gen.IoShapes.tarfileLinkFallbackOn ∧ "AttributeError" ∈ Gen.IoShapes.tarfileLinkFallbackOn := by
  decide

/-- why the `..` guard of untar_file is needed (the defect D29, as a theorem about the model): WITHOUT it the `data` filter
  accepts a name that leaves the install directory through a component that does not exist and comes back — the member
  itself resolves inside — and `os.makedirs` then makes that component OUTSIDE -/
theorem without_guard_a_directory_is_made_outside :
    realpath ["p", "inst"] [] FUEL ["p", "inst"] ["..", "new", "..", "inst", "x"] = some ["p", "inst", "x"] ∧
    placeMember ["p", "inst"] [] ⟨[], 0⟩ { kind := Kind.file, name := "", linkname := "", content := 1 } ["..", "new", "..", "inst", "x"]
      = Verdict.escaped ["p", "new"] := by
  constructor <;> decide +kernel

/-- a member name with a `..` component is refused outright, before anything is touched -/
theorem dotdot_refused (dest : Path) (fs : FS) (arch : Arch) (m : Member) (h : ".." ∈ split m.name) :
    extractMember dest fs arch m = Verdict.filterError "OutsideDestinationError" := by
  unfold extractMember
  simp [h]

/-- lexical resolution without links: `..` pops, `.` and empty are skipped, anything else is pushed -/
theorem realpath_linkfree_step (dest : Path) (fs : FS) (h : LinkFree fs) (fuel : Nat) (cur : Path) (c : String) (rest : List String)
    (hc : c ≠ "" ∧ c ≠ "." ∧ c ≠ "..") :
    realpath dest fs (fuel + 1) cur (c :: rest) = realpath dest fs fuel (cur ++ [c]) rest := by
  obtain ⟨h1, h2, h3⟩ := hc
  refine realpath_step_plain dest fs cur c rest fuel (by simp [h1, h2]) (by simp [h3]) (fun t ht => ?_)
  unfold nodeAt at ht
  split at ht
  · exact lookup_not_link fs h _ t ht
  · cases ht

/-- a member is only ever extracted when its resolved destination is inside the install directory: whatever the
  member's name (any mix of `.`, empty and absolute components) and whatever links the tree holds -/
theorem accepted_member_inside (dest : Path) (fs fs' : FS) (m : Member)
    (arch : Arch) (h : extractMember dest fs arch m = Verdict.ok fs') :
    ∃ target, realpath dest fs FUEL dest (split (stripSlashes m.name)) = some target ∧ Inside dest target := by
  obtain ⟨_, _, target, ht, hp, _⟩ := extract_ok_inv dest fs fs' m arch h
  exact ⟨target, ht, hp⟩

/-- a symbolic or hard link is only ever created when its target is relative and resolves inside the install directory -/
theorem accepted_link_inside (dest : Path) (fs fs' : FS) (m : Member) (hk : m.kind = Kind.sym ∨ m.kind = Kind.hard)
    (arch : Arch) (h : extractMember dest fs arch m = Verdict.ok fs') :
    m.linkname.startsWith "/" = false ∧
    ∃ t, realpath dest fs FUEL dest
          ((if m.kind = Kind.sym then (split (stripSlashes m.name)).dropLast else []) ++ split m.linkname) = some t ∧
      Inside dest t := by
  obtain ⟨_, _, _, _, _, _, hl, _⟩ := extract_ok_inv dest fs fs' m arch h
  exact hl hk

/-- special files (devices, fifos) are never extracted -/
theorem special_rejected (dest : Path) (fs : FS) (arch : Arch) (m : Member) (hk : m.kind = Kind.special) :
    ∀ fs', extractMember dest fs arch m ≠ Verdict.ok fs' := by
  intro fs' h
  obtain ⟨_, _, _, _, _, hs, _⟩ := extract_ok_inv dest fs fs' m arch h
  exact hs hk

/-- extraction of a whole archive stops at the first refused member and keeps what was extracted before: the result is the
  fold of the accepted prefix -/
theorem untar_stops_at_first_error (dest : Path) (fs : FS) (arch : Arch) (m : Member) (ms : List Member) (why : String)
    (h : extractMember dest fs arch m = Verdict.filterError why) :
    untarFrom dest fs arch (m :: ms) = (fs, some (Stop.filter why)) := by
  rw [untarFrom, h]

/-- BENIGN MEMBERS ARE EXTRACTED, one member: a regular file with a plain relative name of any depth (no empty, `.` or `..`
  component), in a link-free tree where no regular file stands on the way and the destination is not a directory, is
  extracted — the file is there with its content, the missing parent directories have been made, every other path holds what
  it held -/
theorem benign_member_extracted (dest : Path) (fs : FS) (hl : LinkFree fs) (arch : Arch) (m : Member)
    (hb : BenignFile m)
    (hnf : ∀ x, isPrefix x (pathOf m) = true → x ≠ [] → x ≠ pathOf m → ∀ k, lookup fs x ≠ some (Node.file k))
    (htd : lookup fs (pathOf m) ≠ some Node.dir) :
    ∃ fs', extractMember dest fs arch m = Verdict.ok fs' ∧ lookup fs' (pathOf m) = some (Node.file m.content) ∧
      (∀ q, isPrefix q (pathOf m) = false → lookup fs' q = lookup fs q) ∧
      (∀ q, isPrefix q (pathOf m) = true → q ≠ pathOf m → lookup fs' q = some Node.dir) := by
  obtain ⟨hk, hn0, hne, hp, hlen⟩ := hb
  obtain ⟨fs', h1, h2, _, h4, h5⟩ := benign_member (dest := dest) hl arch m hk (pathOf m) hn0 rfl hne hp hlen hnf htd
  exact ⟨fs', h1, h2, h4, h5⟩

/-- BENIGN ARCHIVES ARE EXTRACTED ENTIRELY: an archive of regular files with plain relative names, no name being another
  one or lying below another one, unpacked into an empty install directory: extraction ends without error and EVERY member
  is there with its content — for any number of members and any nesting depth (below the fuel of `realpath`).
  PARTIAL with respect to the property's "benign archive": directory members and repeated names are not covered by this
  theorem (the oracle checks them on the real extraction); permissions are outside the model. -/
theorem benign_archive_extracted (dest : Path) (ms : List Member) (hb : ∀ m ∈ ms, BenignFile m) (hpw : ms.Pairwise Apart) :
    ∃ fs', untar dest [] ms = (fs', none) ∧ ∀ m ∈ ms, lookup fs' (pathOf m) = some (Node.file m.content) := by
  have h0 : BenignTree [] [] := by
    refine ⟨fun e he => by simp at he, fun q k hq => ?_, fun q hq0 hq => ?_⟩
    · unfold lookup at hq; split at hq <;> simp at hq
    · unfold lookup at hq
      split at hq
      · rename_i hqe; exact absurd (List.isEmpty_iff.mp hqe) hq0
      · simp at hq
  obtain ⟨fs', h1, h2, _⟩ := benign_untarFrom (dest := dest) ms [] _ [] h0 hb (fun d hd => by simp at hd) hpw
  exact ⟨fs', h1, h2⟩

end Kapture.C18
