/-
  Props/C12.lean — property theorems for C12 (a tar-packed feature store equals its directory form; appends are durable).
  Property theorems ONLY.  For ANY archive (any names, any blobs, any number of overwrites) and ANY kill point k.
-/
import Kapture.Lemmas.C12
import Kapture.Gen.IoShapes

namespace Kapture.C12
open Kapture

/-- an appended array is visible, complete and the latest version under its name; other names are unaffected -/
theorem append_visible (a : Archive) (n : String) (b : Blob) :
    read (a ++ [(n, b)]) n = some b ∧ ∀ m, m ≠ n → read (a ++ [(n, b)]) m = read a m := by
  refine ⟨?_, fun m hm => ?_⟩
  · rw [read_append_single]; simp
  · rw [read_append_single]; exact if_neg (fun h => hm h.symm)

/-- reading the archive and reading its directory form agree on every name -/
theorem read_eq_dir (a : Archive) (n : String) : read a n = Dict.get? n (toDir a) := by
  unfold toDir
  rw [get?_foldl_set]
  cases read a n <;> simp

/-- packing a folder (one file per name) changes nothing observable: same names, same bytes under each name -/
theorem pack_equals_dir (files : List (String × Blob)) (h : (files.map (·.1)).Nodup) :
    (∀ n, read (pack files) n = Dict.get? n files) ∧ (∀ n, n ∈ names (pack files) ↔ n ∈ files.map (·.1)) := by
  refine ⟨fun n => read_eq_get?_of_nodup files h n, fun n => ?_⟩
  unfold names pack
  rw [Dict.mem_keys_iff, ← read_eq_dir, read_isSome_iff]

/-- durability: after a kill following the k-th completed append, a reader sees every one of those k appends as the
  latest version under its name (unless a LATER completed append overwrote it) -/
theorem crash_prefix_visible (a : Archive) (k i : Nat) (n : String) (b : Blob) (hk : k ≤ a.length) (hi : i < k)
    (he : a[i]? = some (n, b)) (hl : ∀ j e, i < j → j < k → a[j]? = some e → e.1 ≠ n) :
    read (crashAfter k a) n = some b := by
  unfold crashAfter
  exact read_take_of_last a n b i he k hi hk hl

/-- ... and sees nothing of the appends that had not completed -/
theorem crash_prefix_only (a : Archive) (k : Nat) (n : String) (b : Blob) (h : read (crashAfter k a) n = some b) :
    ∃ i, i < k ∧ a[i]? = some (n, b) := by
  unfold crashAfter at h
  obtain ⟨i, hi⟩ := List.mem_iff_getElem?.mp (read_some_mem _ _ _ h)
  rw [List.getElem?_take] at hi
  by_cases hlt : i < k
  · exact ⟨i, hlt, by simpa [hlt] using hi⟩
  · simp [hlt] at hi

/-- the file grows by exactly one header block plus the padded data per append, and member i starts where the
  first i members end -/
theorem length_law (a : Archive) (n : String) (b : Blob) :
    lengthBytes (a ++ [(n, b)]) = lengthBytes a + 512 + roundUp512 b.length ∧
    lengthBytes a % 512 = 0 ∧ b.length ≤ roundUp512 b.length ∧ roundUp512 b.length < b.length + 512 := by
  refine ⟨?_, lengthBytes_mod a, ?_, ?_⟩
  · rw [lengthBytes_append]
    simp [lengthBytes, memberBytes]
    omega
  · unfold roundUp512; omega
  · unfold roundUp512; omega

theorem length_monotone (a : Archive) (k : Nat) : lengthBytes (crashAfter k a) ≤ lengthBytes a := by
  unfold crashAfter
  have h := lengthBytes_append (a.take k) (a.drop k)
  rw [List.take_append_drop] at h
  omega

-- non-vacuity: an overwrite followed by a kill
example : read (crashAfter 2 [("a.kpt", [1]), ("a.kpt", [2, 3]), ("b.kpt", [9])]) "a.kpt" = some [2, 3] := by decide
example : lengthBytes [("a.kpt", [1]), ("a.kpt", [2, 3])] = 512 + 512 + 512 + 512 := by decide

/-- the append-log model's assumptions about TarHandler are what the translator reads in the source on every run
  (Gen/IoShapes.lean): an append is exactly "little-endian bytes, addfile, flush, re-index", flush() hands the bytes to the
  operating system (`fileobj.flush()`), and a reader's index keeps the LAST member of a name -/
theorem tar_code_is_the_model :
    Gen.IoShapes.tarAppendIsAddfileThenFlush = true ∧ Gen.IoShapes.tarFlush = "self.fid.fileobj.flush()" ∧
    Gen.IoShapes.tarIndexLastWins = true := by
  decide

/-- ARCHIVES WITH LINK MEMBERS (a folder that went through hard-link de-duplication, packed by `tar`): on an archive without
  links the reader that resolves links is the reader of the append log, so everything above carries over -/
theorem link_free_archive_reads_as_before (a : Archive) (n : String) : readL (plain a) n = read a n := readL_plain a n

/-- a second name of an inode reads as the first: a hard-link member appended to ANY archive without symbolic links reads back,
  under its own name, exactly what the name it points to reads back (the bytes, or nothing when that name resolves to nothing) -/
theorem second_name_reads_as_the_first (a : LArchive) (hns : NoSym a) (n t : String) :
    readL (a ++ [(n, Member.hard t)]) n = readL a t := hard_link_reads_its_target a hns n t

/-- ... and it changes nothing that was readable under another name -/
theorem link_member_leaves_other_names (a : LArchive) (hns : NoSym a) (n t n' : String) (b : Blob) (hne : (n == n') = false)
    (h : readL a n' = some b) : readL (a ++ [(n, Member.hard t)]) n' = some b :=
  hard_link_leaves_other_names a hns n t n' b hne h

-- non-vacuity: two images sharing one inode, then a third file; the link reads the data, a link to a missing name reads nothing
example : readL [("a.kpt", Member.data [1, 2]), ("b.kpt", Member.hard "a.kpt"), ("c.kpt", Member.data [3])] "b.kpt" = some [1, 2] ∧
    readL [("b.kpt", Member.hard "a.kpt"), ("a.kpt", Member.data [1, 2])] "b.kpt" = none ∧
    readL [("a.kpt", Member.data [1]), ("l", Member.sym "l")] "l" = none := by decide

/-- A DE-DUPLICATED FOLDER PACKED BY `tar` READS AS THE FOLDER: files that share an inode are stored once and as hard links, and
  every name reads back the content of its inode — for any number of files, any sharing pattern -/
theorem dedup_pack_reads_as_dir (content : Nat → Blob) (files : List (String × Nat)) (hn : (files.map (·.1)).Nodup) :
    ∀ f ∈ files, readL (packInodes content files) f.1 = some (content f.2) := by
  have inv0 : PackInv content ([], []) [] :=
    ⟨fun e he => by simp at he, fun f hf => by simp at hf, fun s hs => by simp at hs⟩
  have := pack_fold_inv content files ([], []) [] inv0 (by simpa using hn)
  intro f hf
  exact this.reads f (by simpa using hf)


-- non-vacuity: three files, the first two sharing an inode: stored once and as a hard link; every name reads its inode's content
example : packInodes (fun i => [i, i]) [("a.kpt", 7), ("b.kpt", 7), ("c.kpt", 9)] =
      [("a.kpt", Member.data [7, 7]), ("b.kpt", Member.hard "a.kpt"), ("c.kpt", Member.data [9, 9])] ∧
    readL (packInodes (fun i => [i, i]) [("a.kpt", 7), ("b.kpt", 7), ("c.kpt", 9)]) "b.kpt" = some [7, 7] := by decide

end Kapture.C12
