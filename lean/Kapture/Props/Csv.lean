/-
  Props/Csv.lean — the text-layer theorems shared by C01 (save/load round trip) and C02 (format conformance).
  For ALL field contents, ALL numbers of rows and columns, ALL paddings, ALL layouts.
-/
import Kapture.Lemmas.Csv

namespace Kapture.Csv

/-- a written line parses back to exactly its fields, whatever the right-justification widths -/
theorem parseLine_renderRow (pad : Option (List Nat)) (fields : List Str) (hne : fields ≠ [])
    (h : ∀ f ∈ fields, FieldOK f) : parseLine (renderRow pad fields) = fields :=
  parseLine_renderRow' pad fields hne h

/-- a written file parses back to exactly its rows: the two header lines are comments, nothing else is dropped -/
theorem parseFile_renderFile (formatLine header : Str) (pad : Option (List Nat)) (rows : List (List Str))
    (hf : formatLine.head? = some '#' ∧ '\n' ∉ formatLine ∧ '\r' ∉ formatLine)
    (hh : header.head? = some '#' ∧ '\n' ∉ header ∧ '\r' ∉ header)
    (hr : ∀ r ∈ rows, RowOK r) :
    parseFile (renderFile formatLine header pad rows) = rows :=
  parseFile_renderFile' formatLine header pad rows hf hh hr

/-- hence saving what was loaded from a saved file reproduces the file byte for byte -/
theorem resave_identical (formatLine header : Str) (pad : Option (List Nat)) (rows : List (List Str))
    (hf : formatLine.head? = some '#' ∧ '\n' ∉ formatLine ∧ '\r' ∉ formatLine)
    (hh : header.head? = some '#' ∧ '\n' ∉ header ∧ '\r' ∉ header)
    (hr : ∀ r ∈ rows, RowOK r) :
    renderFile formatLine header pad (parseFile (renderFile formatLine header pad rows)) =
      renderFile formatLine header pad rows := by
  rw [parseFile_renderFile formatLine header pad rows hf hh hr]

/-- layout freedom inside a line: any blanks around any field are ignored -/
theorem parseLine_decorated (ls rs fields : List Str) (hl : ls.length = fields.length) (hr : rs.length = fields.length)
    (hne : fields ≠ []) (hbl : ∀ l ∈ ls, AllSpace l) (hbr : ∀ r ∈ rs, AllSpace r) (h : ∀ f ∈ fields, FieldOK f) :
    parseLine (joinWith [','] (decorate ls rs fields)) = fields :=
  parseLine_of_dec (forall₂_dec_decorate ls rs fields hl hr hbl hbr) hne h

/-- layout freedom between lines: whichever terminators (LF, CRLF, CR) end the lines, the content is the kept lines;
  so blank lines and comment lines may be inserted anywhere -/
theorem parseFile_glue (lines eols : List Str) (hl : ∀ l ∈ lines, LineOK l) (he : ∀ e ∈ eols, IsEol e)
    (hn : eols.length = lines.length ∨ eols.length + 1 = lines.length) :
    parseFile (glue lines eols) = ((lines.filter keepLine).map parseLine) := by
  have _ := hn  -- the count of terminators is immaterial: `glue` ends missing ones with LF and ignores extra ones
  unfold parseFile
  rw [filter_splitLines_glue lines eols hl he]

/-- integers: `int(str(i)) = i`, also for negative and 19-digit values, and leading zeros are accepted -/
theorem readInt_showInt (i : Int) : readInt (showInt i) = some i := readInt_showInt' i

theorem readNat_leading_zeros (k : Nat) (n : Nat) :
    readNat (List.replicate k '0' ++ natDigits (n + 1) n) = some n :=
  readNat_zeros_digits k n n (Nat.lt_succ_self n)

/-- showInt produces a field that survives the text layer -/
theorem showInt_fieldOK (i : Int) : FieldOK (showInt i) ∧ showInt i ≠ [] ∧ (showInt i).head? ≠ some '#' :=
  showInt_fieldOK' i

-- non-vacuity
example : parseFile ("# kapture format: 1.1\n# timestamp, device_id, image_path\n       5, cam 0, a/b c.jpg\r\n\n#x\n-7,c,d".toList)
    = [["5".toList, "cam 0".toList, "a/b c.jpg".toList], ["-7".toList, "c".toList, "d".toList]] := by decide
example : showInt (-9223372036854775807) = "-9223372036854775807".toList := by decide

end Kapture.Csv
