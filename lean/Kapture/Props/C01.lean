/-
  Props/C01.lean — property theorems for C01 (saving a dataset and loading it back returns the same dataset), at the layer the
  model covers: files, headers, padding, row order and flattening on top of the proved text layer (Props/Csv.lean).
  Property theorems ONLY.  For ALL datasets: any number of rows, any tokens satisfying the explicit well-formedness predicates.
-/
import Kapture.Lemmas.C01Typed
import Kapture.Lemmas.C01Points

namespace Kapture.C01
open Kapture.Csv Kapture.Gen.RecordSchemas

/-- the generated version line and every generated header are comment lines without line breaks -/
theorem headers_wellformed :
    ((S Gen.Headers.formatLine).head? = some '#' ∧ '\n' ∉ S Gen.Headers.formatLine ∧ '\r' ∉ S Gen.Headers.formatLine) ∧
    ∀ e ∈ Gen.Headers.columns, (headerOf e.1).head? = some '#' ∧ '\n' ∉ headerOf e.1 ∧ '\r' ∉ headerOf e.1 :=
  ⟨formatLine_wf, headerOf_wf⟩

/-- every text file the model writes reads back to exactly its rows, and re-saving those rows is byte-identical -/
theorem textFile_roundtrip (file : String) (rows : List (List Str)) (hf : file ∈ Gen.Headers.columns.map (·.1))
    (hr : ∀ r ∈ rows, RowOK r) :
    parseFile (textFile file rows) = rows ∧ textFile file (parseFile (textFile file rows)) = textFile file rows := by
  have h1 := parseFile_textFile file rows hf hr
  exact ⟨h1, by rw [h1]⟩

/-- the version line comes first in every file -/
theorem version_line_first (file : String) (rows : List (List Str)) :
    (textFile file rows).take (S Gen.Headers.formatLine).length = S Gen.Headers.formatLine :=
  take_textFile file rows

/-- sorting rows for output neither loses nor duplicates an entry -/
theorem sortBy_perm {α : Type} (le : α → α → Bool) (l : List α) : (sortBy le l).Perm l :=
  sortBy_perm' le l

/-- trajectories: one row per entry, every row survives the text layer, timestamps parse back to the same integer
  (negative and 19-digit ones included) -/
theorem trajectories_roundtrip (t : List (Int × Str × List Str))
    (h : ∀ e ∈ t, IdOK e.2.1 ∧ ∀ x ∈ e.2.2, TokOK x) :
    parseFile (textFile "trajectories.txt" (trajectoryRows t)) = trajectoryRows t ∧
    (trajectoryRows t).Perm (t.map (fun e => showInt e.1 :: e.2.1 :: e.2.2)) ∧
    ∀ e ∈ t, readInt (showInt e.1) = some e.1 := by
  refine ⟨?_, (sortBy_perm _ t).map _, fun e _ => readInt_showInt e.1⟩
  apply parseFile_textFile _ _ (mem_known_files _ (by simp))
  apply rowOK_map_sortBy
  intro e he
  apply rowOK_showInt
  intro f hf
  rcases List.mem_cons.1 hf with rfl | hf
  · exact (h e he).1.1
  · exact (h e he).2 f hf

/-- records stored as files (camera, depth, lidar) -/
theorem file_records_roundtrip (file : String) (hf : file ∈ ["records_camera.txt", "records_depth.txt", "records_lidar.txt"])
    (t : List (Int × Str × Str)) (h : ∀ e ∈ t, IdOK e.2.1 ∧ TokOK e.2.2) :
    parseFile (textFile file (fileRecordRows t)) = fileRecordRows t ∧
    (fileRecordRows t).Perm (t.map (fun e => [showInt e.1, e.2.1, e.2.2])) := by
  refine ⟨?_, (sortBy_perm _ t).map _⟩
  apply parseFile_textFile _ _ (mem_known_files _ (by
    simp only [List.mem_cons, List.not_mem_nil, or_false] at hf
    rcases hf with rfl | rfl | rfl <;> simp))
  apply rowOK_map_sortBy
  intro e he
  apply rowOK_showInt
  intro f hf'
  simp only [List.mem_cons, List.not_mem_nil, or_false] at hf'
  rcases hf' with rfl | rfl
  · exact (h e he).1.1
  · exact (h e he).2

/-- records stored as values (gnss, accelerometer, gyroscope, magnetic) -/
theorem generic_records_roundtrip (file : String)
    (hf : file ∈ ["records_gnss.txt", "records_accelerometer.txt", "records_gyroscope.txt", "records_magnetic.txt"])
    (t : List (Int × Str × List Str)) (h : ∀ e ∈ t, IdOK e.2.1 ∧ ∀ x ∈ e.2.2, TokOK x) :
    parseFile (textFile file (genericRecordRows t)) = genericRecordRows t := by
  apply parseFile_textFile _ _ (mem_known_files _ (by
    simp only [List.mem_cons, List.not_mem_nil, or_false] at hf
    rcases hf with rfl | rfl | rfl | rfl <;> simp))
  apply rowOK_map_sortBy
  intro e he
  apply rowOK_showInt
  intro f hf'
  rcases List.mem_cons.1 hf' with rfl | hf'
  · exact (h e he).1.1
  · exact (h e he).2 f hf'

/-- wifi / bluetooth: one row per signal, keyed by (timestamp, device, address) -/
theorem wifi_roundtrip (file : String) (hf : file ∈ ["records_wifi.txt", "records_bluetooth.txt"]) (t : List Wifi)
    (h : ∀ w ∈ t, IdOK w.dev ∧ ∀ s ∈ w.signals, TokOK s.1 ∧ ∀ x ∈ s.2, TokOK x) :
    parseFile (textFile file (wifiRows t)) = wifiRows t ∧
    (wifiRows t).length = (t.map (fun w => w.signals.length)).sum := by
  constructor
  · apply parseFile_textFile _ _ (mem_known_files _ (by
      simp only [List.mem_cons, List.not_mem_nil, or_false] at hf
      rcases hf with rfl | rfl <;> simp))
    apply rowOK_flatMap_sortBy
    intro w hw r hr
    obtain ⟨s, hs, rfl⟩ := List.mem_map.1 hr
    apply rowOK_showInt
    intro f hf'
    rcases List.mem_cons.1 hf' with rfl | hf'
    · exact (h w hw).1.1
    · rcases List.mem_cons.1 hf' with rfl | hf'
      · exact ((h w hw).2 s hs).1
      · exact ((h w hw).2 s hs).2 f hf'
  · unfold wifiRows
    rw [List.length_flatMap]
    simp only [List.length_map]
    exact ((sortBy_perm _ t).map _).sum_nat

/-- observations: one row per (point, keypoints type) with its (image, feature) pairs flattened in order -/
theorem observations_roundtrip (t : List Obs)
    (h : ∀ o ∈ t, TokOK o.kt ∧ ∀ p ∈ o.pairs, TokOK p.1 ∧ TokOK p.2) :
    parseFile (textFile "observations.txt" (observationRows t)) = observationRows t := by
  apply parseFile_textFile _ _ (mem_known_files _ (by simp))
  apply rowOK_map_sortBy
  intro o ho
  apply rowOK_showInt
  intro f hf
  rcases List.mem_cons.1 hf with rfl | hf
  · exact (h o ho).1
  · obtain ⟨p, hp, hfp⟩ := List.mem_flatMap.1 hf
    simp only [List.mem_cons, List.not_mem_nil, or_false] at hfp
    rcases hfp with rfl | rfl
    · exact ((h o ho).2 p hp).1
    · exact ((h o ho).2 p hp).2

/-- sensors and rigs are written in dictionary order as they are -/
theorem sensors_rigs_roundtrip (rows : List (List Str)) (h : ∀ r ∈ rows, RowOK r) :
    parseFile (textFile "sensors.txt" rows) = rows ∧ parseFile (textFile "rigs.txt" rows) = rows :=
  ⟨(textFile_roundtrip "sensors.txt" rows (mem_known_files _ (by simp)) h).1,
   (textFile_roundtrip "rigs.txt" rows (mem_known_files _ (by simp)) h).1⟩

-- the typed layer ------------------------------------------------------------------------------------------------------
-- values -> tokens -> text -> tokens -> values.  `F` is any type of floats with a `Lawful` codec (float(repr(x)) == x ...).

/-- a pose with or without rotation, with or without translation, comes back as it is through BOTH pose readers (the one of
  trajectories.txt and the one of rigs.txt, which are written differently) -/
theorem pose_roundtrip {F : Type} (c : Codec F) (h : Lawful c) (p : Pose F) :
    trajPoseOfFields c (poseToList c p) = Except.ok p ∧ rigPoseOfFields c (poseToList c p) = Except.ok p :=
  ⟨traj_pose_roundtrip c h p, rig_pose_roundtrip c h p⟩

/-- TYPED trajectories: writing any trajectory (any number of entries, negative and 19-digit timestamps, partial poses) and
  decoding every row of the file that was written yields exactly the entries, sorted by (timestamp, device): same keys, same
  integers, the same floats, missing parts still missing -/
theorem typed_trajectories_roundtrip {F : Type} (c : Codec F) (h : Lawful c) (t : List (Int × Str × Pose F))
    (hid : ∀ e ∈ t, IdOK e.2.1) :
    (parseFile (textFile "trajectories.txt" (trajectoryRows (t.map (trajEntryTokens c))))).map (decodeTrajRow c) =
      (sortBy (fun a b => keyLe (a.1, a.2.1) (b.1, b.2.1)) t).map Except.ok := by
  have h1 := (trajectories_roundtrip (t.map (trajEntryTokens c)) (by
    intro e he
    obtain ⟨e0, he0, rfl⟩ := List.mem_map.1 he
    exact ⟨hid e0 he0, poseToList_fieldOK c h e0.2.2⟩)).1
  rw [h1]
  unfold trajectoryRows
  rw [sortBy_map (fun a b => keyLe (a.1, a.2.1) (b.1, b.2.1)) _ (trajEntryTokens c) (fun a b => rfl)]
  simp only [List.map_map]
  apply List.map_congr_left
  intro e _
  simp [trajEntryTokens, decodeTrajRow, readInt_showInt, traj_pose_roundtrip c h]
  rfl

/-- TYPED rigs: rows in dictionary order, every (rig, device, pose) comes back -/
theorem typed_rigs_roundtrip {F : Type} (c : Codec F) (h : Lawful c) (rigs : List (Str × Str × Pose F))
    (hid : ∀ e ∈ rigs, IdOK e.1 ∧ e.1.head? ≠ some '#' ∧ FieldOK e.2.1) :
    (parseFile (textFile "rigs.txt" (rigs.map (rigRow c)))).map (decodeRigRow c) = rigs.map Except.ok := by
  have h1 := (sensors_rigs_roundtrip (rigs.map (rigRow c)) (by
    intro r hr
    obtain ⟨e, he, rfl⟩ := List.mem_map.1 hr
    obtain ⟨h1, h2, h3⟩ := hid e he
    refine ⟨fun f hf => ?_, e.1, _, rfl, h1.2, h2⟩
    rcases List.mem_cons.1 hf with rfl | hf
    · exact h1.1
    · rcases List.mem_cons.1 hf with rfl | hf
      · exact h3
      · exact poseToList_fieldOK c h _ f hf)).2
  rw [h1, List.map_map]
  apply List.map_congr_left
  intro e _
  simp [rigRow, decodeRigRow, rig_pose_roundtrip c h]
  rfl

/-- TYPED records stored as values: for each of the four files, entries whose fields have the types DECLARED by the record class
  (Gen/RecordSchemas.lean, from dataclasses.fields of the live class) come back with the same integers, floats and strings -/
theorem typed_generic_records_roundtrip {F : Type} (c : Codec F) (h : Lawful c) (file : String)
    (hf : file ∈ ["records_gnss.txt", "records_accelerometer.txt", "records_gyroscope.txt", "records_magnetic.txt"])
    (t : List (Int × Str × List (Val F)))
    (ht : ∀ e ∈ t, IdOK e.2.1 ∧ e.2.2.map Val.ty = schemaOf file ∧ ∀ v ∈ e.2.2, ∀ s, v = Val.str s → FieldOK s) :
    (parseFile (textFile file (genericRecordRows (t.map (recordEntryTokens c))))).map (decodeRecordRow c (schemaOf file)) =
      (sortBy (fun a b => keyLe (a.1, a.2.1) (b.1, b.2.1)) t).map Except.ok := by
  have h1 := generic_records_roundtrip file hf (t.map (recordEntryTokens c)) (by
    intro e he
    obtain ⟨e0, he0, rfl⟩ := List.mem_map.1 he
    refine ⟨(ht e0 he0).1, fun x hx => ?_⟩
    obtain ⟨v, hv, rfl⟩ := List.mem_map.1 hx
    exact renderVal_fieldOK c h v ((ht e0 he0).2.2 v hv))
  rw [h1]
  unfold genericRecordRows
  rw [sortBy_map (fun a b => keyLe (a.1, a.2.1) (b.1, b.2.1)) _ (recordEntryTokens c) (fun a b => rfl)]
  simp only [List.map_map]
  apply List.map_congr_left
  intro e he
  have hty := (ht e ((mem_sortBy _ t e).1 he)).2.1
  simp only [Function.comp, recordEntryTokens, decodeRecordRow, readInt_showInt]
  rw [← hty, fields_roundtrip c h]
  rfl

/-- the fields a record class declares are, name for name, the columns its writer announces after timestamp and device -/
theorem schemas_match_headers :
    ∀ e ∈ generic, ∃ h ∈ Gen.Headers.columns, h.1 = e.1 ∧ h.2 = ["timestamp", "device_id"] ++ e.2.map (·.1) := by
  decide +kernel

/-- TYPED records stored as files and observations: timestamps, point indices and feature indices come back as the same
  integers, names as the same strings -/
theorem typed_file_record_row (ts : Int) (dev path : Str) : decodeFileRecordRow [showInt ts, dev, path] = Except.ok (ts, dev, path) := by
  simp [decodeFileRecordRow, readInt_showInt]

theorem typed_observation_row (idx : Int) (kt : Str) (pairs : List (Str × Int)) :
    decodeObservationRow (showInt idx :: kt :: pairs.flatMap (fun p => [p.1, showInt p.2])) = Except.ok (idx, kt, pairs) := by
  have hp : decodePairs (pairs.flatMap (fun p => [p.1, showInt p.2])) = Except.ok pairs := by
    induction pairs with
    | nil => rfl
    | cons p ps ih =>
      simp only [List.flatMap_cons, List.cons_append, List.nil_append, decodePairs, readInt_showInt, ih]
      rfl
  simp only [decodeObservationRow, readInt_showInt, hp]
  rfl

/-- TYPED radio signals (wifi, bluetooth): a signal's fields of the declared types come back as they were -/
theorem typed_signal_row {F : Type} (c : Codec F) (h : Lawful c) (ts : Int) (dev addr : Str) (vs : List (Val F)) :
    decodeSignalRow c (vs.map Val.ty) (showInt ts :: dev :: addr :: vs.map (renderVal c)) = Except.ok (ts, dev, addr, vs) := by
  simp only [decodeSignalRow, readInt_showInt, fields_roundtrip c h]
  rfl

-- non-vacuity of `Lawful`: integers rendered in decimal are a lawful codec
example : Lawful ({ render := showInt, parse := readInt } : Codec Int) :=
  ⟨readInt_showInt, fun x => ⟨(showInt_fieldOK x).1, (showInt_fieldOK x).2.1⟩, by decide⟩

-- C02 ------------------------------------------------------------------------------------------------------------------

/-- 3-D POINT COORDINATES: the writer prints each number with `Gen.Headers.pointsDecimals` digits after the point (regenerated from
    the fmt of points3d_to_file), i.e. as a whole count of 10^-d units nearest to the value.  For EVERY value and WHICHEVER nearest
    count is printed (no assumption on the tie rule), the number read back is within 1e-10 of the value — in fact within half that -/
theorem points_within_1e10 (x : Rat) (n : Int) (h : Nearest Gen.Headers.pointsDecimals x n) :
    |x - readUnits Gen.Headers.pointsDecimals n| ≤ 1 / 10 ^ 10 := by
  have h1 := nearest_within _ x n h
  have h2 : (1 : Rat) / (2 * scale Gen.Headers.pointsDecimals) ≤ 1 / 10 ^ 10 := by
    unfold scale Gen.Headers.pointsDecimals; norm_num
  exact le_trans h1 h2

/-- every value has such a count: nothing is unwritable -/
theorem points_writable (x : Rat) : ∃ n, Nearest Gen.Headers.pointsDecimals x n := ⟨_, nearest_round _ x⟩

/-- saving the RELOADED points again: a value that was read from a count of units can only be printed as that same count, so the
    second points3d.txt has the same numbers digit for digit -/
theorem points_resave_same_units (m n : Int) (h : Nearest Gen.Headers.pointsDecimals (readUnits Gen.Headers.pointsDecimals m) n) :
    n = m := nearest_of_units _ m n h

/-- non-vacuity and the reader of tokens: "-12.0000000035" is 120000000035 units below zero, nearest to -12.00000000351 -/
example : unitsOfToken Gen.Headers.pointsDecimals "-12.0000000035".toList = some (-120000000035) ∧
    Nearest Gen.Headers.pointsDecimals (-1200000000351 / 100000000000) (-120000000035) := by
  constructor
  · decide +kernel
  · unfold Nearest scale Gen.Headers.pointsDecimals; norm_num

/-- the columns the code writes are, file by file and position by position, the columns the specification documents
  (modulo the five documented aliases), and both agree on the format version -/
theorem columns_agree_with_specification :
    (∀ e ∈ Gen.Headers.columns, ∃ s ∈ Gen.SpecColumns.columns, s.1 = e.1 ∧ s.2.map unalias = e.2) ∧
    Gen.SpecColumns.version = Gen.Headers.currentVersion := by
  decide +kernel

-- non-vacuity: a trajectory with a negative, a 19-digit timestamp and a missing translation
example : trajectoryRows [(9223372036854775807, S "cam", [S "1.0", S "", S "", S ""]), (-5, S "ünï cam", [S "0.5"])]
    = [[S "-5", S "ünï cam", S "0.5"], [S "9223372036854775807", S "cam", S "1.0", S "", S "", S ""]] := by decide

end Kapture.C01
