/-
  Props/C01.lean — property theorems for C01 (saving a dataset and loading it back returns the same dataset), at the layer the
  model covers: files, headers, padding, row order and flattening on top of the proved text layer (Props/Csv.lean).
  Property theorems ONLY.  For ALL datasets: any number of rows, any tokens satisfying the explicit well-formedness predicates.
-/
import Kapture.Lemmas.C01

namespace Kapture.C01
open Kapture.Csv

/-- the generated version line and every generated header are comment lines without line breaks -/
theorem headers_wellformed :
    ((S Gen.Headers.formatLine).head? = some '#' ∧ '\n' ∉ S Gen.Headers.formatLine ∧ '\r' ∉ S Gen.Headers.formatLine) ∧
    ∀ e ∈ Gen.Headers.columns, (headerOf e.1).head? = some '#' ∧ '\n' ∉ headerOf e.1 ∧ '\r' ∉ headerOf e.1 :=
  ⟨formatLine_wf, headerOf_wf⟩

/-- every text file the model writes reads back to exactly its rows, and re-saving those rows is byte-identical -/
theorem textFile_roundtrip (file : String) (rows : List (List Str)) (hf : file ∈ Gen.Headers.columns.map (·.1))
    (hr : ∀ r ∈ rows, RowOK r) :
    parseFile (textFile file rows) = rows ∧ textFile file (parseFile (textFile file rows)) = textFile file rows := by
  have h1 := parseFile_textFile file rows hf hr
  exact ⟨h1, by rw [h1]⟩

/-- the version line comes first in every file -/
theorem version_line_first (file : String) (rows : List (List Str)) :
    (textFile file rows).take (S Gen.Headers.formatLine).length = S Gen.Headers.formatLine :=
  take_textFile file rows

/-- sorting rows for output neither loses nor duplicates an entry -/
theorem sortBy_perm {α : Type} (le : α → α → Bool) (l : List α) : (sortBy le l).Perm l :=
  sortBy_perm' le l

/-- trajectories: one row per entry, every row survives the text layer, timestamps parse back to the same integer
  (negative and 19-digit ones included) -/
theorem trajectories_roundtrip (t : List (Int × Str × List Str))
    (h : ∀ e ∈ t, IdOK e.2.1 ∧ ∀ x ∈ e.2.2, TokOK x) :
    parseFile (textFile "trajectories.txt" (trajectoryRows t)) = trajectoryRows t ∧
    (trajectoryRows t).Perm (t.map (fun e => showInt e.1 :: e.2.1 :: e.2.2)) ∧
    ∀ e ∈ t, readInt (showInt e.1) = some e.1 := by
  refine ⟨?_, (sortBy_perm _ t).map _, fun e _ => readInt_showInt e.1⟩
  apply parseFile_textFile _ _ (mem_known_files _ (by simp))
  apply rowOK_map_sortBy
  intro e he
  apply rowOK_showInt
  intro f hf
  rcases List.mem_cons.1 hf with rfl | hf
  · exact (h e he).1.1
  · exact (h e he).2 f hf

/-- records stored as files (camera, depth, lidar) -/
theorem file_records_roundtrip (file : String) (hf : file ∈ ["records_camera.txt", "records_depth.txt", "records_lidar.txt"])
    (t : List (Int × Str × Str)) (h : ∀ e ∈ t, IdOK e.2.1 ∧ TokOK e.2.2) :
    parseFile (textFile file (fileRecordRows t)) = fileRecordRows t ∧
    (fileRecordRows t).Perm (t.map (fun e => [showInt e.1, e.2.1, e.2.2])) := by
  refine ⟨?_, (sortBy_perm _ t).map _⟩
  apply parseFile_textFile _ _ (mem_known_files _ (by
    simp only [List.mem_cons, List.not_mem_nil, or_false] at hf
    rcases hf with rfl | rfl | rfl <;> simp))
  apply rowOK_map_sortBy
  intro e he
  apply rowOK_showInt
  intro f hf'
  simp only [List.mem_cons, List.not_mem_nil, or_false] at hf'
  rcases hf' with rfl | rfl
  · exact (h e he).1.1
  · exact (h e he).2

/-- records stored as values (gnss, accelerometer, gyroscope, magnetic) -/
theorem generic_records_roundtrip (file : String)
    (hf : file ∈ ["records_gnss.txt", "records_accelerometer.txt", "records_gyroscope.txt", "records_magnetic.txt"])
    (t : List (Int × Str × List Str)) (h : ∀ e ∈ t, IdOK e.2.1 ∧ ∀ x ∈ e.2.2, TokOK x) :
    parseFile (textFile file (genericRecordRows t)) = genericRecordRows t := by
  apply parseFile_textFile _ _ (mem_known_files _ (by
    simp only [List.mem_cons, List.not_mem_nil, or_false] at hf
    rcases hf with rfl | rfl | rfl | rfl <;> simp))
  apply rowOK_map_sortBy
  intro e he
  apply rowOK_showInt
  intro f hf'
  rcases List.mem_cons.1 hf' with rfl | hf'
  · exact (h e he).1.1
  · exact (h e he).2 f hf'

/-- wifi / bluetooth: one row per signal, keyed by (timestamp, device, address) -/
theorem wifi_roundtrip (file : String) (hf : file ∈ ["records_wifi.txt", "records_bluetooth.txt"]) (t : List Wifi)
    (h : ∀ w ∈ t, IdOK w.dev ∧ ∀ s ∈ w.signals, TokOK s.1 ∧ ∀ x ∈ s.2, TokOK x) :
    parseFile (textFile file (wifiRows t)) = wifiRows t ∧
    (wifiRows t).length = (t.map (fun w => w.signals.length)).sum := by
  constructor
  · apply parseFile_textFile _ _ (mem_known_files _ (by
      simp only [List.mem_cons, List.not_mem_nil, or_false] at hf
      rcases hf with rfl | rfl <;> simp))
    apply rowOK_flatMap_sortBy
    intro w hw r hr
    obtain ⟨s, hs, rfl⟩ := List.mem_map.1 hr
    apply rowOK_showInt
    intro f hf'
    rcases List.mem_cons.1 hf' with rfl | hf'
    · exact (h w hw).1.1
    · rcases List.mem_cons.1 hf' with rfl | hf'
      · exact ((h w hw).2 s hs).1
      · exact ((h w hw).2 s hs).2 f hf'
  · unfold wifiRows
    rw [List.length_flatMap]
    simp only [List.length_map]
    exact ((sortBy_perm _ t).map _).sum_nat

/-- observations: one row per (point, keypoints type) with its (image, feature) pairs flattened in order -/
theorem observations_roundtrip (t : List Obs)
    (h : ∀ o ∈ t, TokOK o.kt ∧ ∀ p ∈ o.pairs, TokOK p.1 ∧ TokOK p.2) :
    parseFile (textFile "observations.txt" (observationRows t)) = observationRows t := by
  apply parseFile_textFile _ _ (mem_known_files _ (by simp))
  apply rowOK_map_sortBy
  intro o ho
  apply rowOK_showInt
  intro f hf
  rcases List.mem_cons.1 hf with rfl | hf
  · exact (h o ho).1
  · obtain ⟨p, hp, hfp⟩ := List.mem_flatMap.1 hf
    simp only [List.mem_cons, List.not_mem_nil, or_false] at hfp
    rcases hfp with rfl | rfl
    · exact ((h o ho).2 p hp).1
    · exact ((h o ho).2 p hp).2

/-- sensors and rigs are written in dictionary order as they are -/
theorem sensors_rigs_roundtrip (rows : List (List Str)) (h : ∀ r ∈ rows, RowOK r) :
    parseFile (textFile "sensors.txt" rows) = rows ∧ parseFile (textFile "rigs.txt" rows) = rows :=
  ⟨(textFile_roundtrip "sensors.txt" rows (mem_known_files _ (by simp)) h).1,
   (textFile_roundtrip "rigs.txt" rows (mem_known_files _ (by simp)) h).1⟩

-- C02 ------------------------------------------------------------------------------------------------------------------

/-- the columns the code writes are, file by file and position by position, the columns the specification documents
  (modulo the five documented aliases), and both agree on the format version -/
theorem columns_agree_with_specification :
    (∀ e ∈ Gen.Headers.columns, ∃ s ∈ Gen.SpecColumns.columns, s.1 = e.1 ∧ s.2.map unalias = e.2) ∧
    Gen.SpecColumns.version = Gen.Headers.currentVersion := by
  decide +kernel

-- non-vacuity: a trajectory with a negative, a 19-digit timestamp and a missing translation
example : trajectoryRows [(9223372036854775807, S "cam", [S "1.0", S "", S "", S ""]), (-5, S "ünï cam", [S "0.5"])]
    = [[S "-5", S "ünï cam", S "0.5"], [S "9223372036854775807", S "cam", S "1.0", S "", S "", S ""]] := by decide

end Kapture.C01
