/-
  Props/C17.lean — property theorems for C17 (an archive is unpacked and marked installed only if its SHA-256 matches).
  Property theorems ONLY.  Every theorem is for EVERY server function (any behaviour, different on every request),
  every prior local state, both values of force and no_cleaning.
-/
import Kapture.Lemmas.C17
import Kapture.Lemmas.C17Gen

namespace Kapture.C17

/-- whatever the server does, an install call extracts at most one archive, and only one whose checksum matches -/
theorem extract_implies_sha (srv : Server) (good : Bytes → Bool) (force noClean : Bool) (w : World) :
    (install srv good force noClean w).1.extracted = w.extracted ∨
    ∃ b, good b = true ∧ (install srv good force noClean w).1.extracted = w.extracted ++ [b] := by
  rcases install_spec srv good force noClean w with ⟨_, _, _, he⟩ | ⟨_, _, he⟩ | ⟨_, _, _, he⟩
  · exact Or.inl he
  · exact Or.inl he
  · exact Or.inr he

/-- the dataset is marked installed afterwards only if this call extracted a verified archive,
  or it was already marked and force was not given -/
theorem marked_implies (srv : Server) (good : Bytes → Bool) (force noClean : Bool) (w : World)
    (h : (install srv good force noClean w).1.installed = true) :
    (∃ b, good b = true ∧ (install srv good force noClean w).1.extracted = w.extracted ++ [b]) ∨
    (w.installed = true ∧ force = false ∧ (install srv good force noClean w).1.extracted = w.extracted) := by
  rcases install_spec srv good force noClean w with ⟨_, ⟨hw, hf⟩, _, he⟩ | ⟨_, hi, _⟩ | ⟨_, _, _, he⟩
  · exact Or.inr ⟨hw, hf, he⟩
  · rw [hi] at h; cases h
  · exact Or.inl he

/-- any other outcome (a reported status other than installed, or an exception) leaves nothing extracted and nothing marked -/
theorem failure_leaves_nothing (srv : Server) (good : Bytes → Bool) (force noClean : Bool) (w : World)
    (h : (install srv good force noClean w).2 ≠ Except.ok Status.installed) :
    (install srv good force noClean w).1.extracted = w.extracted ∧
    (install srv good force noClean w).1.installed = false := by
  rcases install_spec srv good force noClean w with ⟨hr, _⟩ | ⟨_, hi, he⟩ | ⟨hr, _⟩
  · exact absurd hr h
  · exact ⟨he, hi⟩
  · exact absurd hr h

/-- a reported success that was not a mere "already installed" did extract a verified archive -/
theorem success_means_verified (srv : Server) (good : Bytes → Bool) (force noClean : Bool) (w : World)
    (h : (install srv good force noClean w).2 = Except.ok Status.installed) (hn : w.installed = false ∨ force = true) :
    ∃ b, good b = true ∧ (install srv good force noClean w).1.extracted = w.extracted ++ [b] ∧
      (install srv good force noClean w).1.installed = true := by
  rcases install_spec srv good force noClean w with ⟨_, ⟨hw, hf⟩, _⟩ | ⟨hr, _⟩ | ⟨_, _, hi, b, hg, he⟩
  · rcases hn with hn | hn
    · rw [hw] at hn; cases hn
    · rw [hf] at hn; cases hn
  · exact absurd h hr
  · exact ⟨b, hg, he, hi⟩

/-- the status `downloaded` is only ever reported for a present archive whose checksum matches -/
theorem downloaded_means_verified (srv : Server) (good : Bytes → Bool) (w : World)
    (h : (probStatus srv good w).2 = Except.ok Status.downloaded) :
    ∃ b, (probStatus srv good w).1.archive = some b ∧ good b = true := by
  obtain ⟨a, ha, hg⟩ := probStatus_downloaded srv good w h
  exact ⟨a, (probStatus_frame srv good w).1.trans ha, hg⟩

/-- non-vacuity / liveness: against an honest server a fresh install succeeds and extracts exactly the content -/
theorem honest_server_installs (content : Bytes) (good : Bytes → Bool) (hg : good content = true) (noClean : Bool)
    (w : World) (h0 : w.archive = none) (h1 : w.installed = false) :
    (install (honest content) good false noClean w).2 = Except.ok Status.installed ∧
    (install (honest content) good false noClean w).1.extracted = w.extracted ++ [content] := by
  cases noClean <;>
  simp [install, probStatus, download, downloadLoop, downloadFile, downloadResume, remoteSize, request, honest,
    h0, h1, hg]

/-- ... and a partial archive that is a prefix of the content is resumed to the full content -/
theorem honest_server_resumes (content : Bytes) (good : Bytes → Bool) (hg : good content = true) (k : Nat)
    (hk : 0 < k) (hk2 : k < content.length) (w : World) (h0 : w.archive = some (content.take k)) (h1 : w.installed = false) :
    (install (honest content) good false true w).1.extracted = w.extracted ++ [content] := by
  have hlen : (content.take k).length = k := by rw [List.length_take]; omega
  have hne : content.length ≠ k := by omega
  have hk0 : k ≠ 0 := by omega
  have hnlt : ¬ content.length < k := by omega
  have hc0 : content.length ≠ 0 := by omega
  simp [install, probStatus, download, downloadLoop, downloadFile, downloadResume, remoteSize, request, honest,
    h0, h1, hg, hlen, hne, hk0, hk2, hnlt, hc0, List.take_append_drop]

/-- the hand-written `probStatus` IS the decision list GENERATED from Dataset.prob_status on every run (Gen/ProbStatus.lean: the
  ordered conditions marker / no archive / size unknown / bigger / smaller / checksum mismatch and the default `downloaded`; the
  translator also checks that is_sha256_consistent hashes the archive and compares it with the published checksum and nothing
  else, and that install() tests `status != 'downloaded'` before untar_file): whenever the model answers, it answers what the
  first matching generated rule says -/
theorem probStatus_follows_generated_rules (srv : Server) (good : Bytes → Bool) (w : World) :
    match (probStatus srv good w).2 with
    | Except.ok st =>
      statusOfName (evalRules (atomEnv good w (match (remoteSize srv w).2 with
        | Except.ok s => s
        | Except.error _ => none)) Gen.ProbStatus.rules Gen.ProbStatus.defaultStatus) = some st
    | Except.error _ => True := by
  unfold probStatus
  cases hi : w.installed
  · cases ha : w.archive with
    | none => simp [hi, ha, evalRules, atomEnv, Gen.ProbStatus.rules, statusOfName]
    | some a =>
      simp only [Bool.false_eq_true, if_false]
      cases hr : remoteSize srv w with
      | mk w' r =>
        cases r with
        | error e => simp
        | ok s =>
          cases s with
          | none => simp [evalRules, atomEnv, Gen.ProbStatus.rules, statusOfName, hi, ha]
          | some n =>
            simp only
            by_cases h1 : a.length > n
            · simp [h1, evalRules, atomEnv, Gen.ProbStatus.rules, statusOfName, hi, ha]
            · by_cases h2 : a.length < n
              · simp [h1, h2, evalRules, atomEnv, Gen.ProbStatus.rules, statusOfName, hi, ha]
              · cases hg : good a <;>
                  simp [h1, h2, hg, evalRules, atomEnv, Gen.ProbStatus.rules, Gen.ProbStatus.defaultStatus, statusOfName, hi, ha]
  · simp [hi, evalRules, atomEnv, Gen.ProbStatus.rules, statusOfName]

/-- ... and the status under which the model extracts is the generated gate of install() -/
theorem install_gate_is_generated : statusOfName Gen.ProbStatus.installGate = some Status.downloaded := rfl

/-- HISTORIES: whatever sequence of invocations is made on one install directory (any flags, any server behaviour, each
  starting from whatever the previous ones left on disk), everything ever extracted along the way has the published
  checksum -/
theorem history_extracts_only_verified (good : Bytes → Bool) (calls : List Call) (w : World) :
    ∃ bs, (runCalls good calls w).1.extracted = w.extracted ++ bs ∧ ∀ b ∈ bs, good b = true := by
  induction calls generalizing w with
  | nil => exact ⟨[], by simp [runCalls], by simp⟩
  | cons c cs ih =>
    obtain ⟨bs, hbs, hg⟩ := ih (install c.srv good c.force c.noClean { w with reqs := 0, log := [] }).1
    rcases extract_implies_sha c.srv good c.force c.noClean { w with reqs := 0, log := [] } with he | ⟨b, hb, he⟩
    · exact ⟨bs, by simp only [runCalls]; rw [hbs, he], hg⟩
    · refine ⟨b :: bs, by simp only [runCalls]; rw [hbs, he]; simp, ?_⟩
      intro x hx
      rcases List.mem_cons.mp hx with rfl | hx
      · exact hb
      · exact hg x hx

/-- ... and the dataset is marked installed at the end of a history only if it was marked before it or some invocation of
  the history extracted a verified archive -/
theorem history_marked_implies (good : Bytes → Bool) (calls : List Call) (w : World)
    (h : (runCalls good calls w).1.installed = true) :
    w.installed = true ∨ ∃ b bs, good b = true ∧ (runCalls good calls w).1.extracted = w.extracted ++ b :: bs := by
  induction calls generalizing w with
  | nil => exact Or.inl (by simpa [runCalls] using h)
  | cons c cs ih =>
    simp only [runCalls] at h ⊢
    obtain ⟨bs, hbs, _⟩ := history_extracts_only_verified good cs (install c.srv good c.force c.noClean { w with reqs := 0, log := [] }).1
    rcases ih _ h with h1 | ⟨b, bs', hb, he⟩
    · rcases marked_implies c.srv good c.force c.noClean { w with reqs := 0, log := [] } h1 with ⟨b, hb, he⟩ | ⟨hw, _, _⟩
      · exact Or.inr ⟨b, bs, hb, by rw [hbs, he]; simp⟩
      · exact Or.inl hw
    · rcases extract_implies_sha c.srv good c.force c.noClean { w with reqs := 0, log := [] } with he1 | ⟨b1, hb1, he1⟩
      · exact Or.inr ⟨b, bs', hb, by rw [he, he1]⟩
      · exact Or.inr ⟨b1, b :: bs', hb1, by rw [he, he1]; simp⟩

/-- a history made of one invocation is that invocation -/
theorem history_single (good : Bytes → Bool) (c : Call) (w : World) :
    runCalls good [c] w = ((install c.srv good c.force c.noClean { w with reqs := 0, log := [] }).1,
                           [(install c.srv good c.force c.noClean { w with reqs := 0, log := [] }).2]) := by
  simp [runCalls]

end Kapture.C17
