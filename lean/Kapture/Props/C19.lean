/-
  Props/C19.lean — property theorems for C19 (clearing a dataset directory removes only dataset files, with consent).
  Property theorems ONLY.  For ALL only/skip selections, ALL answers, ALL directory states (`kind`).
-/
import Kapture.Lemmas.C19

namespace Kapture.C19

/-- the generated tables satisfy the side conditions (a renamed file, a type listed twice, ... breaks this) -/
theorem tables_wellformed : WF genTables := by sorry

/-- nothing is deleted unless forced or answered y/Y -/
theorem no_consent_no_change (T : Tables) (a : Args) (kind : String → Kind) (h : consent a = false) :
    ∀ plan, outcome T a kind ≠ Outcome.deleted plan := by sorry

/-- with consent, what is deleted is the whole plan, and it is non-empty exactly when something selected exists -/
theorem consent_deletes_plan (T : Tables) (a : Args) (kind : String → Kind) (h : consent a = true) :
    outcome T a kind =
      if (toDelete T a kind).isEmpty then Outcome.nothing
      else Outcome.deleted ((toDelete T a kind).map (fun p => (p, (kind p).action))) := by sorry

/-- the plan is EXACTLY the existing paths selected by only/skip (with the record data kept when a kept part needs it) -/
theorem deleted_exact (T : Tables) (hT : WF T) (a : Args) (kind : String → Kind) (p : String) :
    p ∈ toDelete T a kind ↔ ((kind p).lexists = true ∧ Selected T a p) := by sorry

theorem deleted_exact_gen (a : Args) (kind : String → Kind) (p : String) :
    p ∈ toDelete genTables a kind ↔ ((kind p).lexists = true ∧ Selected genTables a p) := by sorry

/-- no path is visited twice -/
theorem plan_nodup (T : Tables) (a : Args) (kind : String → Kind) : (toDelete T a kind).Nodup := by sorry

/-- files the user keeps alongside are never in the plan: only the format's own top-level paths are -/
theorem foreign_untouched (T : Tables) (a : Args) (kind : String → Kind) (p : String) (h : p ∈ toDelete T a kind) :
    p ∈ datasetPaths T := by sorry

/-- parts named in skip survive -/
theorem skip_survives (T : Tables) (hT : WF T) (a : Args) (kind : String → Kind) (t p : String)
    (ho : a.only = []) (hs : t ∈ a.skip) (hp : (t, p) ∈ T.csvFiles ∨ ((t, p) ∈ T.featDirs ∧ p ≠ T.recordsDir))
    (huniq : ∀ t' , ((t', p) ∈ T.csvFiles ∨ (t', p) ∈ T.featDirs) → t' = t) :
    p ∉ toDelete T a kind := by sorry

/-- the record data survive whenever a kept part needs them -/
theorem records_kept_when_needed (T : Tables) (hT : WF T) (a : Args) (kind : String → Kind) (h : needs T a = true) :
    T.recordsDir ∉ toDelete T a kind := by sorry

/-- a symbolic link standing for a dataset path is unlinked, never followed -/
theorem link_unlinked (k : Kind) (h : k = Kind.linkFile ∨ k = Kind.linkDir ∨ k = Kind.linkDangling) :
    k.action = Action.unlink := by sorry

-- non-vacuity: a selection that keeps record data while deleting records_camera.txt, on a directory holding both
example : needs genTables ⟨["RecordsCamera"], [], true, ""⟩ = true := by decide
example : outcome genTables ⟨["RecordsCamera"], [], true, ""⟩
    (fun p => if p = "sensors/records_camera.txt" ∨ p = "sensors/records_data" then Kind.dir else Kind.absent)
    = Outcome.deleted [("sensors/records_camera.txt", Action.rmtree)] := by decide

end Kapture.C19
