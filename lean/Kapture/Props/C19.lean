/-
  Props/C19.lean — property theorems for C19 (clearing a dataset directory removes only dataset files, with consent).
  Property theorems ONLY.  For ALL only/skip selections, ALL answers, ALL directory states (`kind`).
-/
import Kapture.Lemmas.C19

namespace Kapture.C19

/-- the generated tables satisfy the side conditions (a renamed file, a type listed twice, ... breaks this) -/
theorem tables_wellformed : WF genTables := ⟨by decide, by decide, by decide⟩

/-- nothing is deleted unless forced or answered y/Y -/
theorem no_consent_no_change (T : Tables) (a : Args) (kind : String → Kind) (h : consent a = false) :
    ∀ plan, outcome T a kind ≠ Outcome.deleted plan := by
  intro plan
  unfold outcome
  simp only [h]
  split
  · exact fun hh => Outcome.noConfusion hh
  · simp

/-- with consent, what is deleted is the whole plan, and it is non-empty exactly when something selected exists -/
theorem consent_deletes_plan (T : Tables) (a : Args) (kind : String → Kind) (h : consent a = true) :
    outcome T a kind =
      if (toDelete T a kind).isEmpty then Outcome.nothing
      else Outcome.deleted ((toDelete T a kind).map (fun p => (p, (kind p).action))) := by
  unfold outcome
  simp only [h, if_true]

/-- the plan is EXACTLY the existing paths selected by only/skip (with the record data kept when a kept part needs it) -/
theorem deleted_exact (T : Tables) (hT : WF T) (a : Args) (kind : String → Kind) (p : String) :
    p ∈ toDelete T a kind ↔ ((kind p).lexists = true ∧ Selected T a p) := by
  rw [mem_toDelete, mem_candidates, mustKeep_eq_needs hT]
  unfold Selected
  have hcsv : ∀ t, (t, p) ∈ T.csvFiles → (t ∉ keepCsv T a ↔ sel a t = true) := fun t h =>
    not_mem_keepCsv hT a (List.mem_map.mpr ⟨(t, p), h, rfl⟩)
  have hfeat : ∀ t, (t, p) ∈ T.featDirs → (t ∉ keepFeat T a ↔ sel a t = true) := fun t h =>
    not_mem_keepFeat hT a (List.mem_map.mpr ⟨(t, p), h, rfl⟩)
  by_cases hp : p = T.recordsDir
  · have hnc : ¬ ∃ t, (t, p) ∈ T.csvFiles ∧ sel a t = true := by
      rintro ⟨t, h, _⟩; exact hT.rec_not_csv (t, p) h hp
    constructor
    · rintro ⟨_, hl, hn⟩
      refine ⟨hl, Or.inr (Or.inr ⟨hp, ?_⟩)⟩
      cases hneeds : needs T a with
      | false => rfl
      | true => exact absurd ⟨hneeds, hp⟩ hn
    · rintro ⟨hl, hs⟩
      refine ⟨Or.inr (Or.inr hp), hl, ?_⟩
      rcases hs with hs | ⟨_, _, _, hne⟩ | ⟨_, hn⟩
      · exact absurd hs hnc
      · exact absurd hp hne
      · rintro ⟨h1, _⟩; rw [hn] at h1; exact Bool.noConfusion h1
  · constructor
    · rintro ⟨hc, hl, _⟩
      refine ⟨hl, ?_⟩
      rcases hc with ⟨t, h, hk⟩ | ⟨t, h, hk⟩ | h
      · exact Or.inl ⟨t, h, (hcsv t h).mp hk⟩
      · exact Or.inr (Or.inl ⟨t, h, (hfeat t h).mp hk, hp⟩)
      · exact absurd h hp
    · rintro ⟨hl, hs⟩
      refine ⟨?_, hl, fun hh => hp hh.2⟩
      rcases hs with ⟨t, h, hk⟩ | ⟨t, h, hk, _⟩ | ⟨h, _⟩
      · exact Or.inl ⟨t, h, (hcsv t h).mpr hk⟩
      · exact Or.inr (Or.inl ⟨t, h, (hfeat t h).mpr hk⟩)
      · exact absurd h hp

theorem deleted_exact_gen (a : Args) (kind : String → Kind) (p : String) :
    p ∈ toDelete genTables a kind ↔ ((kind p).lexists = true ∧ Selected genTables a p) :=
  deleted_exact genTables tables_wellformed a kind p

/-- no path is visited twice -/
theorem plan_nodup (T : Tables) (a : Args) (kind : String → Kind) : (toDelete T a kind).Nodup :=
  nodup_toDelete T a kind

/-- files the user keeps alongside are never in the plan: only the format's own top-level paths are -/
theorem foreign_untouched (T : Tables) (a : Args) (kind : String → Kind) (p : String) (h : p ∈ toDelete T a kind) :
    p ∈ datasetPaths T :=
  candidates_sub T a p (mem_toDelete.mp h).1

/-- parts named in skip survive -/
theorem skip_survives (T : Tables) (hT : WF T) (a : Args) (kind : String → Kind) (t p : String)
    (ho : a.only = []) (hs : t ∈ a.skip) (hp : (t, p) ∈ T.csvFiles ∨ ((t, p) ∈ T.featDirs ∧ p ≠ T.recordsDir))
    (huniq : ∀ t' , ((t', p) ∈ T.csvFiles ∨ (t', p) ∈ T.featDirs) → t' = t) :
    p ∉ toDelete T a kind := by
  rw [deleted_exact T hT]
  have hsel : sel a t = false := by simp [sel, ho, hs]
  rintro ⟨_, h | h | h⟩
  · obtain ⟨t', h1, h2⟩ := h
    rw [huniq t' (Or.inl h1), hsel] at h2; exact Bool.noConfusion h2
  · obtain ⟨t', h1, h2, _⟩ := h
    rw [huniq t' (Or.inr h1), hsel] at h2; exact Bool.noConfusion h2
  · rcases hp with hp | hp
    · exact hT.rec_not_csv (t, p) hp h.1
    · exact hp.2 h.1

/-- the record data survive whenever a kept part needs them -/
theorem records_kept_when_needed (T : Tables) (hT : WF T) (a : Args) (kind : String → Kind) (h : needs T a = true) :
    T.recordsDir ∉ toDelete T a kind := by
  rw [deleted_exact T hT]
  rintro ⟨_, h1 | h1 | h1⟩
  · obtain ⟨t, h1, _⟩ := h1
    exact hT.rec_not_csv (t, T.recordsDir) h1 rfl
  · obtain ⟨_, _, _, hne⟩ := h1
    exact hne rfl
  · rw [h] at h1; exact Bool.noConfusion h1.2

/-- a symbolic link standing for a dataset path is unlinked, never followed -/
theorem link_unlinked (k : Kind) (h : k = Kind.linkFile ∨ k = Kind.linkDir ∨ k = Kind.linkDangling) :
    k.action = Action.unlink := by
  rcases h with rfl | rfl | rfl <;> rfl

-- non-vacuity: a selection that keeps record data while deleting records_camera.txt, on a directory holding both
example : needs genTables ⟨["RecordsCamera"], [], true, ""⟩ = true := by decide
example : outcome genTables ⟨["RecordsCamera"], [], true, ""⟩
    (fun p => if p = "sensors/records_camera.txt" ∨ p = "sensors/records_data" then Kind.dir else Kind.absent)
    = Outcome.deleted [("sensors/records_camera.txt", Action.rmtree)] := by decide

end Kapture.C19
