/-
  Props/C07.lean — property theorems for C07 (containers act as plain maps whatever the edit history).
  Property theorems ONLY.  Definitions of `abs`, `Inv`, the plain-map semantics and `interpSpec` are in Lemmas/C07.lean.
  Everything is for ALL states / histories of ANY length over ANY timestamps and device names.
-/
import Kapture.Lemmas.C07

namespace Kapture.C07
open Kapture Kapture.Sort

variable {P : Type}

/-- the invariant holds initially and is preserved by every operation, hence in every reachable state -/
theorem inv_init : Inv (init : State P) := by sorry

theorem inv_step (s : State P) (op : Op P) (h : Inv s) : Inv (step s op).1 := by sorry

theorem inv_reachable (ops : List (Op P)) : Inv (run (init : State P) ops).1 := by sorry

/-- refinement: each mutating operation acts on the content exactly like the plain map operation -/
theorem setPair_refines (s : State P) (ts : Int) (dev : String) (p : P) (h : Inv s) :
    abs (step s (Op.setPair ts dev p)).1 = (abs s).setPair ts dev p ∧ (step s (Op.setPair ts dev p)).2 = Out.ok := by sorry

theorem setTs_refines (s : State P) (ts : Int) (inner : List (String × P)) (h : Inv s) :
    abs (step s (Op.setTs ts inner)).1 = (abs s).setTs ts inner ∧ (step s (Op.setTs ts inner)).2 = Out.ok := by sorry

theorem delTs_refines (s : State P) (ts : Int) (h : Inv s) :
    if (abs s).present ts then
      abs (step s (Op.delTs ts)).1 = (abs s).delTs ts ∧ (step s (Op.delTs ts)).2 = Out.ok
    else step s (Op.delTs ts) = (s, Out.keyError) := by sorry

theorem delPair_refines (s : State P) (ts : Int) (dev : String) (h : Inv s) :
    if ((abs s).entry ts dev).isSome then
      Abs.DelPair (abs s) (abs (step s (Op.delPair ts dev)).1) ts dev ∧ (step s (Op.delPair ts dev)).2 = Out.ok
    else step s (Op.delPair ts dev) = (s, Out.keyError) := by sorry

/-- queries never change the content (some refresh the cache) -/
theorem query_keeps_content (s : State P) (op : Op P) (hq : isQuery op = true) :
    abs (step s op).1 = abs s := by sorry

/-- membership and lookup answer from the content -/
theorem hasPair_spec (s : State P) (ts : Int) (dev : String) :
    (step s (Op.hasPair ts dev)).2 = Out.bool ((abs s).entry ts dev).isSome := by sorry

theorem hasTs_spec (s : State P) (ts : Int) :
    (step s (Op.hasTs ts)).2 = Out.bool ((abs s).present ts) := by sorry

theorem getPair_spec (s : State P) (ts : Int) (dev : String) :
    (step s (Op.getPair ts dev)).2 = (match (abs s).entry ts dev with | some p => Out.pose p | none => Out.keyError) := by sorry

/-- `key_pairs` lists exactly the stored (timestamp, device) pairs, each once -/
theorem keyPairs_spec (s : State P) (h : Inv s) :
    ∃ l, (step s Op.keyPairs).2 = Out.pairs l ∧ l.Nodup ∧ ∀ t d, (t, d) ∈ l ↔ ((abs s).entry t d).isSome = true := by sorry

/-- the sorted-timestamp list is the strictly increasing list of the timestamps present, whatever the cache held -/
theorem sortedList_spec (s : State P) (h : Inv s) :
    ∃ l, (step s Op.sortedList).2 = Out.ints l ∧ SortedKeys (abs s) l := by sorry

/-- a content has exactly one sorted key list -/
theorem sortedKeys_unique (a : Abs P) (l₁ l₂ : List Int) (h₁ : SortedKeys a l₁) (h₂ : SortedKeys a l₂) : l₁ = l₂ := by sorry

/-- interpolation: the stored pose when one exists, otherwise the interpolant of the two nearest poses of that
  device when both lie within the allowed interval, otherwise nothing -/
theorem interp_spec (s : State P) (ts : Int) (dev : String) (maxI : Int) (l : List Int) (h : Inv s)
    (hl : SortedKeys (abs s) l) :
    (step s (Op.interp ts dev maxI)).2 = interpSpec (abs s) l ts dev maxI := by sorry

/-- ... and never fails -/
theorem interp_total (s : State P) (ts : Int) (dev : String) (maxI : Int) (h : Inv s) :
    (step s (Op.interp ts dev maxI)).2 ≠ Out.keyError ∧ (step s (Op.interp ts dev maxI)).2 ≠ Out.indexError := by sorry

/-- the reference digit count is the usual one: d digits means 10^(d-1) ≤ n < 10^d -/
theorem digitsRef_bounds (n : Nat) (h : 0 < n) : 10 ^ (digitsRef n - 1) ≤ n ∧ n < 10 ^ digitsRef n := by sorry

/-- `num_digits` (generated from the source) counts decimal digits of |n| -/
theorem numDigits_spec (n : Int) : Gen.NumDigits.numDigits n = (digitsRef n.natAbs : Int) := by sorry

/-- timestamp length on non-negative timestamps: the common digit count or -1 (sampling 9 positions of a sorted list
  is enough because the digit count is monotone) -/
theorem tsLength_spec (s : State P) (l : List Int) (h : Inv s) (hl : SortedKeys (abs s) l) (hpos : ∀ t ∈ l, 0 ≤ t) :
    (step s Op.tsLength).2 = tsLengthSpec l := by sorry

/-- history independence, one step: two states with the same content answer every order-free query alike,
  and every operation leaves them with the same content -/
theorem same_content_same_answers (s₁ s₂ : State P) (op : Op P) (h₁ : Inv s₁) (h₂ : Inv s₂) (e : abs s₁ = abs s₂) :
    abs (step s₁ op).1 = abs (step s₂ op).1 ∧ (isOrderFreeQuery op = true ∨ isQuery op = false → (step s₁ op).2 = (step s₂ op).2) := by sorry

/-- history independence, whole histories: whatever two edit/query histories led to the same content,
  every continuation made of order-free operations produces the same outputs -/
theorem history_independent (h₁ h₂ cont : List (Op P))
    (e : abs (run (init : State P) h₁).1 = abs (run (init : State P) h₂).1)
    (hc : ∀ op ∈ cont, isOrderFreeQuery op = true ∨ isQuery op = false) :
    (run (run (init : State P) h₁).1 cont).2 = (run (run (init : State P) h₂).1 cont).2 := by sorry

-- non-vacuity: a reachable state with a warm cache, an empty timestamp and a stored pose
example : ∃ s : State Nat, Inv s ∧ s.cache ≠ [] ∧ (abs s).present 20 = true ∧ (abs s).entry 10 "a" = some 1 :=
  ⟨(run init [Op.setPair 10 "a" 1, Op.setTs 20 [], Op.sortedList]).1, inv_reachable _, by decide, by decide, by decide⟩

end Kapture.C07
