import Kapture.Model.C07
namespace Kapture.C07
theorem placeholder : True := trivial
end Kapture.C07
