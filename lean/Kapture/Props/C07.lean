/-
  Props/C07.lean — property theorems for C07 (containers act as plain maps whatever the edit history).
  Property theorems ONLY.  Definitions of `abs`, `Inv`, the plain-map semantics and `interpSpec` are in Lemmas/C07.lean.
  Everything is for ALL states / histories of ANY length over ANY timestamps and device names.
-/
import Kapture.Lemmas.C07

namespace Kapture.C07
open Kapture Kapture.Sort

variable {P : Type}

/-- the invariant holds initially and is preserved by every operation, hence in every reachable state -/
theorem inv_init : Inv (init : State P) := inv_init'

theorem inv_step (s : State P) (op : Op P) (h : Inv s) : Inv (step s op).1 := inv_step' s op h

theorem inv_reachable (ops : List (Op P)) : Inv (run (init : State P) ops).1 := inv_run init ops inv_init

/-- refinement: each mutating operation acts on the content exactly like the plain map operation -/
theorem setPair_refines (s : State P) (ts : Int) (dev : String) (p : P) (h : Inv s) :
    abs (step s (Op.setPair ts dev p)).1 = (abs s).setPair ts dev p ∧ (step s (Op.setPair ts dev p)).2 = Out.ok := by
  have _ := h  -- (holds even without the invariant)
  exact setPair_refines' s ts dev p

theorem setTs_refines (s : State P) (ts : Int) (inner : List (String × P)) (h : Inv s) :
    abs (step s (Op.setTs ts inner)).1 = (abs s).setTs ts inner ∧ (step s (Op.setTs ts inner)).2 = Out.ok := by
  have _ := h  -- (holds even without the invariant)
  exact setTs_refines' s ts inner

theorem delTs_refines (s : State P) (ts : Int) (h : Inv s) :
    if (abs s).present ts then
      abs (step s (Op.delTs ts)).1 = (abs s).delTs ts ∧ (step s (Op.delTs ts)).2 = Out.ok
    else step s (Op.delTs ts) = (s, Out.keyError) := delTs_refines' s ts h

theorem delPair_refines (s : State P) (ts : Int) (dev : String) (h : Inv s) :
    if ((abs s).entry ts dev).isSome then
      Abs.DelPair (abs s) (abs (step s (Op.delPair ts dev)).1) ts dev ∧ (step s (Op.delPair ts dev)).2 = Out.ok
    else step s (Op.delPair ts dev) = (s, Out.keyError) := delPair_refines' s ts dev h

/-- queries never change the content (some refresh the cache) -/
theorem query_keeps_content (s : State P) (op : Op P) (hq : isQuery op = true) :
    abs (step s op).1 = abs s := query_keeps_content' s op hq

/-- membership and lookup answer from the content -/
theorem hasPair_spec (s : State P) (ts : Int) (dev : String) :
    (step s (Op.hasPair ts dev)).2 = Out.bool ((abs s).entry ts dev).isSome := hasPair_spec' s ts dev

theorem hasTs_spec (s : State P) (ts : Int) :
    (step s (Op.hasTs ts)).2 = Out.bool ((abs s).present ts) := hasTs_spec' s ts

theorem getPair_spec (s : State P) (ts : Int) (dev : String) :
    (step s (Op.getPair ts dev)).2 = (match (abs s).entry ts dev with | some p => Out.pose p | none => Out.keyError) :=
  getPair_spec' s ts dev

/-- `key_pairs` lists exactly the stored (timestamp, device) pairs, each once -/
theorem keyPairs_spec (s : State P) (h : Inv s) :
    ∃ l, (step s Op.keyPairs).2 = Out.pairs l ∧ l.Nodup ∧ ∀ t d, (t, d) ∈ l ↔ ((abs s).entry t d).isSome = true :=
  ⟨keyPairsOf s.data, rfl, keyPairsOf_nodup s.data h.1 h.2.1, fun t d => keyPairsOf_mem s.data h.1 t d⟩

/-- the sorted-timestamp list is the strictly increasing list of the timestamps present, whatever the cache held -/
theorem sortedList_spec (s : State P) (h : Inv s) :
    ∃ l, (step s Op.sortedList).2 = Out.ints l ∧ SortedKeys (abs s) l :=
  ⟨isort (Dict.keys s.data), congrArg Out.ints (refresh_cache s h), sortedKeys_isort s h⟩

/-- a content has exactly one sorted key list -/
theorem sortedKeys_unique (a : Abs P) (l₁ l₂ : List Int) (h₁ : SortedKeys a l₁) (h₂ : SortedKeys a l₂) : l₁ = l₂ :=
  sortedKeys_unique' a l₁ l₂ h₁ h₂

/-- interpolation: the stored pose when one exists, otherwise the interpolant of the two nearest poses of that
  device when both lie within the allowed interval, otherwise nothing -/
theorem interp_spec (s : State P) (ts : Int) (dev : String) (maxI : Int) (l : List Int) (h : Inv s)
    (hl : SortedKeys (abs s) l) :
    (step s (Op.interp ts dev maxI)).2 = interpSpec (abs s) l ts dev maxI := interp_spec' s ts dev maxI l h hl

/-- ... and never fails -/
theorem interp_total (s : State P) (ts : Int) (dev : String) (maxI : Int) (h : Inv s) :
    (step s (Op.interp ts dev maxI)).2 ≠ Out.keyError ∧ (step s (Op.interp ts dev maxI)).2 ≠ Out.indexError :=
  interp_total' s ts dev maxI h

/-- the reference digit count is the usual one: d digits means 10^(d-1) ≤ n < 10^d -/
theorem digitsRef_bounds (n : Nat) (h : 0 < n) : 10 ^ (digitsRef n - 1) ≤ n ∧ n < 10 ^ digitsRef n :=
  digitsRef_bounds' n h

/-- `num_digits` (generated from the source) counts decimal digits of |n| -/
theorem numDigits_spec (n : Int) : Gen.NumDigits.numDigits n = (digitsRef n.natAbs : Int) := numDigits_spec' n

/-- timestamp length on non-negative timestamps: the common digit count or -1 (sampling 9 positions of a sorted list
  is enough because the digit count is monotone) -/
theorem tsLength_spec (s : State P) (l : List Int) (h : Inv s) (hl : SortedKeys (abs s) l) (hpos : ∀ t ∈ l, 0 ≤ t) :
    (step s Op.tsLength).2 = tsLengthSpec l := tsLength_spec' s l h hl hpos

/-- history independence, one step: two states with the same content answer every order-free query alike,
  and every operation leaves them with the same content -/
theorem same_content_same_answers (s₁ s₂ : State P) (op : Op P) (h₁ : Inv s₁) (h₂ : Inv s₂) (e : abs s₁ = abs s₂) :
    abs (step s₁ op).1 = abs (step s₂ op).1 ∧ (isOrderFreeQuery op = true ∨ isQuery op = false → (step s₁ op).2 = (step s₂ op).2) :=
  same_content_same_answers' s₁ s₂ op h₁ h₂ e

/-- history independence, whole histories: whatever two edit/query histories led to the same content,
  every continuation made of order-free operations produces the same outputs -/
theorem history_independent (h₁ h₂ cont : List (Op P))
    (e : abs (run (init : State P) h₁).1 = abs (run (init : State P) h₂).1)
    (hc : ∀ op ∈ cont, isOrderFreeQuery op = true ∨ isQuery op = false) :
    (run (run (init : State P) h₁).1 cont).2 = (run (run (init : State P) h₂).1 cont).2 :=
  run_same_outputs _ _ cont (inv_reachable h₁) (inv_reachable h₂) e hc

-- non-vacuity: a reachable state with a warm cache, an empty timestamp and a stored pose
example : ∃ s : State Nat, Inv s ∧ s.cache ≠ [] ∧ (abs s).present 20 = true ∧ (abs s).entry 10 "a" = some 1 :=
  ⟨(run init [Op.setPair 10 "a" 1, Op.setTs 20 [], Op.sortedList]).1, inv_reachable _, by decide, by decide, by decide⟩

end Kapture.C07
