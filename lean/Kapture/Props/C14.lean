/-
  Props/C14.lean — property theorems for C14 (OpenMVG export then import preserves images, poses, structure and matches).
  Property theorems ONLY; definitions of the specification side and helper lemmas live in Lemmas/C14.lean.
  Every statement is universally quantified: any field `K` (poses, intrinsics), any quaternion of non-zero norm, any
  number of images / cameras / points / observations / match rows, any image names.
-/
import Kapture.Lemmas.C14
import Kapture.Lemmas.C14Gen

set_option linter.unusedSectionVars false
set_option linter.unusedVariables false

namespace Kapture.C14
open Kapture Kapture.C05 Kapture.Gen.RotMat

/-! ## poses -/
section pose
variable {K : Type} [Field K] [DecidableEq K]

/-- what export writes as "center" is the camera centre: the world point the pose sends to the origin.  This fixes the
  centre-versus-translation convention independently of any golden file. -/
theorem centre_is_camera_centre (p : Pose K) (h : qnorm p.r ≠ 0) : transform p (exportCentre p) = V3.zero := by
  have := transform_compose2 p (inverse p) V3.zero h (by simpa [inverse] using qnorm_inv_ne _ h)
  rw [compose_inverse_right p h] at this
  have hz : transform (inverse p) (V3.zero : V3 K) = exportCentre p := by
    simp only [transform, exportCentre]
    exact add_mulVec_zero _ _
  rw [hz] at this
  rw [← this]
  simp only [transform, identity, rot_eq_norm, rotNorm, Quat.one, qnorm, M3.mulVec, V3.add, V3.zero]
  simp

/-- the translation survives the loop exactly: `-1 * (R (inverse(pose).t)) = t`, i.e. `-R(-Rᵀ t) = t` -/
theorem centre_roundtrip (p : Pose K) (h : qnorm p.r ≠ 0) : importT (exportRotation p) (exportCentre p) = p.t := by
  rw [importT_eq]
  simp only [exportRotation, exportCentre, inverse]
  rw [← mulVec_mul, rot_mul_rot_inv _ h, mulVec_one]
  exact mulNegOne_mulNegOne _

/-- the whole pose survives as a rigid transform, whatever quaternion the library picks for the exported matrix, as
  long as it has that matrix (sign and scale of the quaternion are irrelevant) -/
theorem pose_roundtrip (p : Pose K) (q' : Quat K) (h : qnorm p.r ≠ 0) (hq : rot q' = exportRotation p) (x : V3 K) :
    transform ⟨q', importT (exportRotation p) (exportCentre p)⟩ x = transform p x := by
  rw [centre_roundtrip p h]
  simp only [transform, hq, exportRotation]

/-- in particular for every non-zero multiple of the original quaternion (`-q`, or an un-normalised `q`) -/
theorem pose_roundtrip_sign_scale (p : Pose K) (c : K) (hc : c ≠ 0) (h : qnorm p.r ≠ 0) (x : V3 K) :
    transform ⟨Quat.smul c p.r, importT (exportRotation p) (exportCentre p)⟩ x = transform p x :=
  pose_roundtrip p _ h (by simpa [exportRotation] using rot_scale_invariant c p.r hc h) x

end pose

/-! ## intrinsics -/
section intr
section gen
variable {K : Type} [Add K] [Div K] [OfNat K 0] [OfNat K 2]

/-- the hand-written intrinsics export of Model/C14.lean IS what the GENERATED branch table says (Gen/MvgIntrinsics.lean, translated
  on every run from `_export_openmvg_intrinsics` — camera types per branch, OpenMVG model, getter, the `faked_params` expressions —
  and from the `_get_intrinsic_*` getters — distortion indexes, value0 nesting): whenever the model exports a camera, reading
  the generated table gives the same intrinsic, for every camera type, parameter list and both layouts -/
theorem generated_intrinsics_is_the_model (v2 : Bool) (c : Cam K) (i : Intrinsic K) (h : exportCam v2 c = some i) :
    genExportCam v2 c = some i := by
  obtain ⟨t, w, hh, ps⟩ := c
  unfold exportCam at h
  cases t <;> simp only at h
  · match ps, h with
    | f :: cx :: cy :: rest, h =>
      simp only [Option.some.injEq] at h; subst h
      simp [genExportCam, Gen.MvgIntrinsics.branches, Gen.MvgIntrinsics.getters, camTypeName, mvgModelOf]
  · match ps, h with
    | fx :: fy :: cx :: cy :: rest, h =>
      simp only [Option.some.injEq] at h; subst h
      simp [genExportCam, Gen.MvgIntrinsics.branches, Gen.MvgIntrinsics.getters, camTypeName, mvgModelOf]
  · match ps, h with
    | f :: cx :: cy :: k :: rest, h =>
      simp only [Option.some.injEq] at h; subst h
      simp [genExportCam, Gen.MvgIntrinsics.branches, Gen.MvgIntrinsics.getters, camTypeName, mvgModelOf]
  · match ps, h with
    | f :: cx :: cy :: k1 :: k2 :: rest, h =>
      simp only [Option.some.injEq] at h; subst h
      simp [genExportCam, Gen.MvgIntrinsics.branches, Gen.MvgIntrinsics.getters, camTypeName, mvgModelOf]
  · match ps, h with
    | fx :: fy :: cx :: cy :: k1 :: k2 :: p1 :: p2 :: [], h =>
      simp only [Option.some.injEq] at h; subst h
      cases v2 <;> simp [genExportCam, Gen.MvgIntrinsics.branches, Gen.MvgIntrinsics.getters, camTypeName, mvgModelOf, layout]
    | fx :: fy :: cx :: cy :: k1 :: k2 :: p1 :: p2 :: k3 :: rest, h =>
      simp only [Option.some.injEq] at h; subst h
      cases v2 <;> simp [genExportCam, Gen.MvgIntrinsics.branches, Gen.MvgIntrinsics.getters, camTypeName, mvgModelOf, layout]
  · match ps, h with
    | fx :: fy :: cx :: cy :: k1 :: k2 :: p1 :: p2 :: [], h =>
      simp only [Option.some.injEq] at h; subst h
      cases v2 <;> simp [genExportCam, Gen.MvgIntrinsics.branches, Gen.MvgIntrinsics.getters, camTypeName, mvgModelOf, layout]
    | fx :: fy :: cx :: cy :: k1 :: k2 :: p1 :: p2 :: k3 :: rest, h =>
      simp only [Option.some.injEq] at h; subst h
      cases v2 <;> simp [genExportCam, Gen.MvgIntrinsics.branches, Gen.MvgIntrinsics.getters, camTypeName, mvgModelOf, layout]
  · match ps, h with
    | fx :: fy :: cx :: cy :: rest, h =>
      simp only [Option.some.injEq] at h; subst h
      cases v2 <;> simp [genExportCam, Gen.MvgIntrinsics.branches, Gen.MvgIntrinsics.getters, camTypeName, mvgModelOf, layout]
  · match ps, h with
    | f :: cx :: cy :: rest, h =>
      simp only [Option.some.injEq] at h; subst h
      cases v2 <;> simp [genExportCam, Gen.MvgIntrinsics.branches, Gen.MvgIntrinsics.getters, camTypeName, mvgModelOf, layout]
  · match ps, h with
    | f :: cx :: cy :: rest, h =>
      simp only [Option.some.injEq] at h; subst h
      cases v2 <;> simp [genExportCam, Gen.MvgIntrinsics.branches, Gen.MvgIntrinsics.getters, camTypeName, mvgModelOf, layout]

/-- in every generated `faked_params` list the first two entries are camera_params[0] and camera_params[1] (width, height), and the
  only camera type whose branch the translator does not render is UNKNOWN_CAMERA (outside the model) -/
theorem generated_intrinsics_width_height :
    (∀ b ∈ Gen.MvgIntrinsics.branches 12 (fun i => (i : Int)), ∀ l, b.2.2.2 = some l → l.take 2 = [0, 1]) ∧
    Gen.MvgIntrinsics.untranslated = ["UNKNOWN_CAMERA"] := by
  decide

end gen

section geni
variable {K : Type} [OfNat K 0] [DecidableEq K]

/-- the same for the import side: whenever the model imports an intrinsic, reading the GENERATED table of `_import_openmvg_cameras`
  (OpenMVG model, the guard on disto_t2[2], kapture camera type, value0-or-data versus data-only reads, the parameter list of
  every kapture.Camera(...) call) gives the same camera -/
theorem generated_import_is_the_model (i : Intrinsic K) (c : Cam K) (h : importCam i = some c) : genImportCam i = some c := by
  obtain ⟨m, d⟩ := i
  unfold importCam at h
  cases m <;> simp only at h
  · -- pinhole
    match d, h with
    | IntrData.flat cm ds, h =>
      simp only [Option.some.injEq] at h; subst h
      simp [genImportCam, Gen.MvgIntrinsics.imports, mvgModelName, camTypeOf, unnest]
  · match d, h with
    | IntrData.flat cm (k :: ds), h =>
      simp only [Option.some.injEq] at h; subst h
      simp [genImportCam, Gen.MvgIntrinsics.imports, mvgModelName, camTypeOf, unnest]
  · match d, h with
    | IntrData.flat cm (k1 :: k2 :: ds), h =>
      simp only [Option.some.injEq] at h; subst h
      simp [genImportCam, Gen.MvgIntrinsics.imports, mvgModelName, camTypeOf, unnest]
  · -- pinhole_brown_t2: both layouts, k3 zero or not
    cases d with
    | flat cm ds =>
      match ds, h with
      | k1 :: k2 :: k3 :: t1 :: t2 :: rest, h =>
        simp only [unnest] at h
        by_cases hk : k3 = 0
        · simp only [hk, ne_eq, not_true_eq_false, if_false, Option.some.injEq] at h; subst h
          simp [genImportCam, Gen.MvgIntrinsics.imports, mvgModelName, camTypeOf, unnest, hk]
        · simp only [ne_eq, hk, not_false_eq_true, if_true, Option.some.injEq] at h; subst h
          simp [genImportCam, Gen.MvgIntrinsics.imports, mvgModelName, camTypeOf, unnest, hk]
    | nested cm ds =>
      match ds, h with
      | k1 :: k2 :: k3 :: t1 :: t2 :: rest, h =>
        simp only [unnest] at h
        by_cases hk : k3 = 0
        · simp only [hk, ne_eq, not_true_eq_false, if_false, Option.some.injEq] at h; subst h
          simp [genImportCam, Gen.MvgIntrinsics.imports, mvgModelName, camTypeOf, unnest, hk]
        · simp only [ne_eq, hk, not_false_eq_true, if_true, Option.some.injEq] at h; subst h
          simp [genImportCam, Gen.MvgIntrinsics.imports, mvgModelName, camTypeOf, unnest, hk]
  · -- fisheye
    simp only [Option.some.injEq] at h; subst h
    cases d <;> simp [genImportCam, Gen.MvgIntrinsics.imports, mvgModelName, camTypeOf, unnest]

/-- every generated parameter list starts with width and height -/
theorem generated_import_width_height :
    ∀ b ∈ Gen.MvgIntrinsics.imports (⟨0, 0, 0⟩ : Gen.MvgIntrinsics.ImpCommon Int) [], ∃ rest,
      b.2.2.2.2 = Gen.MvgIntrinsics.ImpEntry.width :: Gen.MvgIntrinsics.ImpEntry.height :: rest := by
  intro b hb
  simp only [Gen.MvgIntrinsics.imports, List.mem_cons, List.not_mem_nil, or_false] at hb
  rcases hb with rfl | rfl | rfl | rfl | rfl | rfl <;> exact ⟨_, rfl⟩

end geni

variable {K : Type} [Field K] [DecidableEq K]

/-- export then import of a representable camera gives `canon` of it, for both intrinsic layouts -/
theorem intrinsics_roundtrip (v2 : Bool) (c : Cam K) (h2 : (2 : K) ≠ 0) (hr : Representable c) :
    (exportCam v2 c).bind importCam = some (canon c) := by
  cases hr with
  | simplePinhole w h f cx cy => simp [exportCam, importCam, canon]
  | pinhole w h f cx cy => simp [exportCam, importCam, canon, half_double f h2]
  | simpleRadial w h f cx cy k => simp [exportCam, importCam, canon]
  | radial w h f cx cy k1 k2 => simp [exportCam, importCam, canon]
  | opencv w h f cx cy k1 k2 p1 p2 =>
    cases v2 <;> simp [exportCam, importCam, canon, layout, unnest, half_double f h2]
  | fullOpencv w h f cx cy k1 k2 p1 p2 k3 =>
    by_cases hk : k3 = 0 <;> cases v2 <;> simp [exportCam, importCam, canon, layout, unnest, half_double f h2, hk]

/-- on SIMPLE_PINHOLE, SIMPLE_RADIAL, RADIAL, OPENCV and FULL_OPENCV (k3 ≠ 0) the loop is the identity on the parameter list -/
theorem intrinsics_identity (v2 : Bool) (c : Cam K) (h2 : (2 : K) ≠ 0) (hr : Representable c)
    (ht : c.type ≠ CamType.PINHOLE) (hk : c.type = CamType.FULL_OPENCV → c.params[8]? ≠ some 0) :
    (exportCam v2 c).bind importCam = some c := by
  rw [intrinsics_roundtrip v2 c h2 hr]
  cases hr with
  | simplePinhole w h f cx cy => simp [canon]
  | pinhole w h f cx cy => simp at ht
  | simpleRadial w h f cx cy k => simp [canon]
  | radial w h f cx cy k1 k2 => simp [canon]
  | opencv w h f cx cy k1 k2 p1 p2 => simp [canon]
  | fullOpencv w h f cx cy k1 k2 p1 p2 k3 =>
    have : k3 ≠ 0 := by simpa using hk rfl
    simp [canon, this]

/-- in every case the camera that comes back has the same image size and the same Brown parameters: the same projection -/
theorem intrinsics_same_projection (v2 : Bool) (c : Cam K) (h2 : (2 : K) ≠ 0) (hr : Representable c) :
    ∃ c', (exportCam v2 c).bind importCam = some c' ∧ c'.w = c.w ∧ c'.h = c.h ∧ brown c' = brown c ∧ (brown c).isSome := by
  refine ⟨canon c, intrinsics_roundtrip v2 c h2 hr, ?_⟩
  cases hr with
  | simplePinhole w h f cx cy => simp [canon, brown]
  | pinhole w h f cx cy => simp [canon, brown]
  | simpleRadial w h f cx cy k => simp [canon, brown]
  | radial w h f cx cy k1 k2 => simp [canon, brown]
  | opencv w h f cx cy k1 k2 p1 p2 => simp [canon, brown]
  | fullOpencv w h f cx cy k1 k2 p1 p2 k3 =>
    by_cases hk : k3 = 0 <;> simp [canon, brown, hk]

end intr

/-! ## identifiers -/

/-- view ids and camera ids are 0, 1, 2, ... in order of first appearance, without repeated keys -/
theorem ids_dense (recs : List Rec) : Dense (viewIds recs) ∧ Dense (camIds recs) := by
  rw [viewIds_eq, camIds_eq]; exact ⟨dense_idTable _, dense_idTable _⟩

/-- every image and every camera of records_camera gets an id -/
theorem ids_complete (recs : List Rec) (r : Rec) (h : r ∈ recs) :
    (∃ i, Dict.get? r.name (viewIds recs) = some i ∧ i < (viewIds recs).length) ∧
    (∃ c, Dict.get? r.cam (camIds recs) = some c ∧ c < (camIds recs).length) := by
  rw [viewIds_eq, camIds_eq]
  refine ⟨?_, ?_⟩
  · obtain ⟨i, hi⟩ := has_foldl_of_mem (recs.map (·.name)) [] r.name (List.mem_map.mpr ⟨r, h, rfl⟩)
    exact ⟨i, hi, dense_lt _ (dense_idTable _) _ _ hi⟩
  · obtain ⟨i, hi⟩ := has_foldl_of_mem (recs.map (·.cam)) [] r.cam (List.mem_map.mpr ⟨r, h, rfl⟩)
    exact ⟨i, hi, dense_lt _ (dense_idTable _) _ _ hi⟩

/-- the id assignment is injective: two image names (two cameras) never share an id -/
theorem ids_injective (recs : List Rec) (a b : Str) (i : Nat) :
    (Dict.get? a (viewIds recs) = some i → Dict.get? b (viewIds recs) = some i → a = b) ∧
    (Dict.get? a (camIds recs) = some i → Dict.get? b (camIds recs) = some i → a = b) :=
  ⟨dense_injective _ (ids_dense recs).1 a b i, dense_injective _ (ids_dense recs).2 a b i⟩

/-! ## image names -/

/-- an image name is the common image directory followed by a non-empty relative name -/
theorem name_decomposition (recs : List Rec) (r : Rec) (h : r ∈ recs) :
    joinSlash (subRoot recs ++ relOf (subRoot recs) r.name) = r.name ∧ relOf (subRoot recs) r.name ≠ [] := by
  obtain ⟨h1, h2⟩ := relOf_decompose _ _ (subRoot_prefix recs r h)
  rw [h1, joinSlash_splitSlash]
  exact ⟨rfl, h2⟩

/-- the name import gives to the view of an image: the directory name of root_path, then the relative name (flattened
  or not).  Together with `name_decomposition`: the same image names up to the common image-root prefix. -/
theorem imported_name (flatten : Bool) (recs : List Rec) (cams views : List (Str × Nat)) (r : Rec) (v : View) (dir : Str)
    (h : r ∈ recs) (hne : ∀ c ∈ splitSlash r.name, c ≠ [])
    (hv : exportView flatten (subRoot recs) cams views r = some v) :
    importName dir v = dir ++ '/' :: (if flatten then flattenStr (joinSlash (relOf (subRoot recs) r.name))
                                      else joinSlash (relOf (subRoot recs) r.name)) := by
  obtain ⟨c, i, _, _, rfl⟩ := exportView_eq _ _ _ _ _ _ hv
  obtain ⟨hp, hc⟩ := mvgPath_good flatten _ (name_decomposition recs r h).2 (rel_comps_ne _ _ hne)
  simp only [importName]
  rw [join_dropLast_getLast _ hp hc, joinSlash_mvgPath]

/-- without flattening distinct images keep distinct names -/
theorem imported_names_distinct (recs : List Rec) (cams views : List (Str × Nat)) (r1 r2 : Rec) (v1 v2 : View) (dir : Str)
    (h1 : r1 ∈ recs) (h2 : r2 ∈ recs) (hne1 : ∀ c ∈ splitSlash r1.name, c ≠ []) (hne2 : ∀ c ∈ splitSlash r2.name, c ≠ [])
    (hv1 : exportView false (subRoot recs) cams views r1 = some v1)
    (hv2 : exportView false (subRoot recs) cams views r2 = some v2)
    (e : importName dir v1 = importName dir v2) : r1.name = r2.name := by
  rw [imported_name false recs cams views r1 v1 dir h1 hne1 hv1,
    imported_name false recs cams views r2 v2 dir h2 hne2 hv2] at e
  have e' : joinSlash (relOf (subRoot recs) r1.name) = joinSlash (relOf (subRoot recs) r2.name) := by
    simpa using e
  obtain ⟨d1, n1⟩ := name_decomposition recs r1 h1
  obtain ⟨d2, n2⟩ := name_decomposition recs r2 h2
  by_cases hs : subRoot recs = []
  · rw [hs] at d1 d2 e'
    simp only [List.nil_append] at d1 d2
    rw [← d1, ← d2, e']
  · rw [joinSlash_append _ _ hs n1] at d1
    rw [joinSlash_append _ _ hs n2] at d2
    rw [← d1, ← d2, e']

/-- with flattening two images get the same name exactly when their relative names differ only by '/' versus '_' -/
theorem imported_names_collide_iff (recs : List Rec) (cams views : List (Str × Nat)) (r1 r2 : Rec) (v1 v2 : View) (dir : Str)
    (h1 : r1 ∈ recs) (h2 : r2 ∈ recs) (hne1 : ∀ c ∈ splitSlash r1.name, c ≠ []) (hne2 : ∀ c ∈ splitSlash r2.name, c ≠ [])
    (hv1 : exportView true (subRoot recs) cams views r1 = some v1)
    (hv2 : exportView true (subRoot recs) cams views r2 = some v2) :
    importName dir v1 = importName dir v2 ↔
      sameUpToSep (joinSlash (relOf (subRoot recs) r1.name)) (joinSlash (relOf (subRoot recs) r2.name)) := by
  rw [imported_name true recs cams views r1 v1 dir h1 hne1 hv1,
    imported_name true recs cams views r2 v2 dir h2 hne2 hv2, ← flattenStr_eq_iff_aux]
  simp

/-- flattening identifies two strings exactly when they differ only by '/' versus '_' -/
theorem flatten_eq_iff (a b : Str) : flattenStr a = flattenStr b ↔ sameUpToSep a b := flattenStr_eq_iff_aux a b

/-- in particular flattening is injective on names that contain no underscore -/
theorem flatten_injective (a b : Str) (ha : '_' ∉ a) (hb : '_' ∉ b) (e : flattenStr a = flattenStr b) : a = b := by
  rw [← flattenStr_unflatten a ha, ← flattenStr_unflatten b hb, e]

/-- without flattening the order of any two image names is unchanged (so the pairs of `matches` stay in order) -/
theorem order_preserved (recs : List Rec) (cams views : List (Str × Nat)) (r1 r2 : Rec) (v1 v2 : View) (dir : Str)
    (h1 : r1 ∈ recs) (h2 : r2 ∈ recs) (hne1 : ∀ c ∈ splitSlash r1.name, c ≠ []) (hne2 : ∀ c ∈ splitSlash r2.name, c ≠ [])
    (hv1 : exportView false (subRoot recs) cams views r1 = some v1)
    (hv2 : exportView false (subRoot recs) cams views r2 = some v2) :
    strLt (importName dir v1) (importName dir v2) = strLt r1.name r2.name := by
  rw [imported_name false recs cams views r1 v1 dir h1 hne1 hv1,
    imported_name false recs cams views r2 v2 dir h2 hne2 hv2]
  obtain ⟨d1, n1⟩ := name_decomposition recs r1 h1
  obtain ⟨d2, n2⟩ := name_decomposition recs r2 h2
  have key : ∀ (p x y : Str), strLt (p ++ '/' :: x) (p ++ '/' :: y) = strLt x y := by
    intro p x y
    have := strLt_append_left (p ++ ['/']) x y
    simpa using this
  simp only [Bool.false_eq_true, if_false]
  rw [key]
  by_cases hs : subRoot recs = []
  · rw [hs] at d1 d2
    simp only [List.nil_append] at d1 d2
    rw [hs, d1, d2]
  · rw [joinSlash_append _ _ hs n1] at d1
    rw [joinSlash_append _ _ hs n2] at d2
    conv => rhs; rw [← d1, ← d2]
    rw [key]

/-! ## views -/

/-- every image of records_camera gets a view (export does not fail on ids) -/
theorem views_exported (flatten : Bool) (recs : List Rec) :
    ∃ vs, exportViews flatten (subRoot recs) (camIds recs) (viewIds recs) recs = some vs ∧
      ∀ r ∈ recs, ∃ v ∈ vs, exportView flatten (subRoot recs) (camIds recs) (viewIds recs) r = some v := by
  apply exportViews_total
  intro r hr
  obtain ⟨⟨i, hi, _⟩, ⟨c, hc, _⟩⟩ := ids_complete recs r hr
  have : (exportView flatten (subRoot recs) (camIds recs) (viewIds recs) r).isSome = true := by
    simp [exportView, hi, hc]
  exact Option.isSome_iff_exists.mp this

/-- looking a view id up after import gives the (renamed) image it was assigned to on export -/
theorem view_lookup_roundtrip (flatten : Bool) (recs : List Rec) (vs : List View) (dir : Str)
    (hvs : exportViews flatten (subRoot recs) (camIds recs) (viewIds recs) recs = some vs) (r : Rec) (v : View) (hv : v ∈ vs)
    (hr : exportView flatten (subRoot recs) (camIds recs) (viewIds recs) r = some v) :
    Dict.get? r.name (viewIds recs) = some v.idView ∧
    Dict.get? v.idView (importViews dir vs) = some (importName dir v) := by
  obtain ⟨c, i, _, hi, hveq⟩ := exportView_eq _ _ _ _ _ _ hr
  have hid : v.idView = i := by rw [hveq]
  refine ⟨by rw [hid]; exact hi, ?_⟩
  unfold importViews
  have hfold : vs.foldl (fun t v => Dict.set v.idView (importName dir v) t) ([] : List (Nat × Str))
      = (vs.map (fun v => (v.idView, importName dir v))).foldl (fun t kv => Dict.set kv.1 kv.2 t) [] := by
    rw [List.foldl_map]
  rw [hfold]
  apply get?_foldl_set
  · intro kv hkv e
    obtain ⟨w, hw, rfl⟩ := List.mem_map.mp hkv
    simp only at e ⊢
    obtain ⟨r', _, hr'⟩ := exportViews_mem _ _ _ _ _ _ hvs w hw
    obtain ⟨c', i', _, hi', hweq⟩ := exportView_eq _ _ _ _ _ _ hr'
    have hwid : w.idView = i' := by rw [hweq]
    have hnames : r'.name = r.name :=
      (ids_injective recs r'.name r.name i).1 (by rw [← hid, ← e, hwid]; exact hi') hi
    rw [hweq, hveq, hnames]
    simp only [importName]
  · left
    exact ⟨(v.idView, importName dir v), List.mem_map.mpr ⟨v, hv, rfl⟩, rfl⟩

/-- import looks for the region files under exactly the base name export gave them (with and without flattening) -/
theorem regions_found (flatten : Bool) (recs : List Rec) (cams views : List (Str × Nat)) (r : Rec) (v : View) (dir : Str)
    (h : r ∈ recs) (hne : ∀ c ∈ splitSlash r.name, c ≠ [])
    (hv : exportView flatten (subRoot recs) cams views r = some v) :
    regionBaseImport (importName dir v) = regionBaseExport flatten (subRoot recs) r.name := by
  rw [imported_name flatten recs cams views r v dir h hne hv]
  unfold regionBaseImport regionBaseExport
  rw [getLastD_splitSlash_append]
  cases flatten with
  | true =>
    simp only [if_true, mvgPath]
    rw [splitSlash_of_no_slash _ (flattenStr_no_slash _)]
  | false =>
    simp only [Bool.false_eq_true, if_false, mvgPath]
    rw [splitSlash_joinSlash _ (name_decomposition recs r h).2 (rel_comps_no_slash _ _)]

/-! ## structure -/

/-- points come back in the same order with the same coordinates, and every observation comes back on the same point
  index, the renamed image and the same feature index — for any number of points and observations -/
theorem structure_roundtrip {α : Type} (views : List (Str × Nat)) (names : List (Nat × Str)) (ρ : Str → Str) (empty : α)
    (pts : List (α × PointObs)) (hne : pts ≠ []) (h : ∀ p ∈ pts, ObsResolved views names ρ p.2) :
    ∃ st, exportStructure views pts = some st ∧
      importStructure names empty st = Except.ok (some (pts.map (·.1)), renamedObs ρ 0 pts) := by
  obtain ⟨st, h1, h2, h3, h4⟩ := points_loop views names ρ 0 pts h
  refine ⟨st, h1, ?_⟩
  have hlen : st.length = pts.length := by
    have := congrArg List.length h2
    simpa using this
  have hpos : 0 < pts.length := List.length_pos_iff.mpr hne
  have hst : st.isEmpty = false := by
    cases st with
    | nil => simp at hlen; omega
    | cons _ _ => rfl
  have hk : st.map (·.1) = List.range' 0 ((pts.length - 1) + 1) := by
    rw [h2]; congr 1; omega
  simp [importStructure, hst, h4, importPoints_dense empty st _ hk, h3]

/-- the observations that come back are exactly the renamed ones: nothing lost, nothing invented -/
theorem observations_exact {α : Type} (ρ : Str → Str) (pts : List (α × PointObs)) (x : Nat × Str × Nat) :
    x ∈ renamedObs ρ 0 pts ↔ ∃ j p, pts[j]? = some p ∧ ∃ o ∈ p.2, x = (j, ρ o.1, o.2) := by
  simpa using mem_renamedObs ρ 0 pts x

/-- an empty cloud is exported as an empty structure and comes back as "no points" -/
theorem structure_empty {α : Type} (views : List (Str × Nat)) (names : List (Nat × Str)) (empty : α) :
    exportStructure views ([] : List (α × PointObs)) = some [] ∧
    importStructure names empty ([] : List (Nat × α × List (Nat × Nat))) = Except.ok (none, []) := ⟨rfl, rfl⟩

/-! ## matches -/

/-- every pair goes out under its two view ids and comes back under the two renamed images, with the index columns swapped
  exactly when the renamed names are in the other order — for any number of pairs and rows -/
theorem matches_roundtrip (views : List (Str × Nat)) (names : List (Nat × Str)) (ρ : Str → Str)
    (ms : List ((Str × Str) × List (Nat × Nat))) (h : ∀ m ∈ ms, PairResolved views names ρ m) :
    ∃ bs, exportMatches views ms = some bs ∧ importMatches names bs = Except.ok (ms.map (renamedBlock ρ)) := by
  induction ms with
  | nil => exact ⟨[], rfl, rfl⟩
  | cons m r ih =>
    obtain ⟨bs, h1, h2⟩ := ih (fun x hx => h x (List.mem_cons_of_mem _ hx))
    obtain ⟨⟨i, hi1, hi2⟩, ⟨j, hj1, hj2⟩⟩ := h m (by simp)
    refine ⟨((i, j), m.2) :: bs, by simp [exportMatches, hi1, hj1, h1], ?_⟩
    by_cases hs : strLt (ρ m.1.2) (ρ m.1.1) = true <;>
      simp [importMatches, importMatchBlock, hi2, hj2, h2, renamedBlock, hs]

/-- the same index pairs per image pair: feature x of image a is matched with feature y of image b before the loop exactly
  when feature x of the renamed a is matched with feature y of the renamed b after it (whichever way the block is stored) -/
theorem match_pairs_preserved (ρ : Str → Str) (m : (Str × Str) × List (Nat × Nat)) (hab : ρ m.1.1 ≠ ρ m.1.2) (x y : Nat) :
    pairedIn (renamedBlock ρ m) (ρ m.1.1) x (ρ m.1.2) y ↔ (x, y) ∈ m.2 := by
  unfold pairedIn renamedBlock
  split
  · simp [hab, Ne.symm hab]
  · simp [hab, Ne.symm hab]

/-! ## non-vacuity -/

-- a concrete posed image over ℚ: 120 degree rotation, centre (-3, 1, 2), and the translation comes back
example : qnorm ((⟨⟨1/2, 1/2, -1/2, 1/2⟩, ⟨1, 2, 3⟩⟩ : Pose ℚ)).r ≠ 0 := by simp only [qnorm]; norm_num
example : exportCentre (⟨⟨1/2, 1/2, -1/2, 1/2⟩, ⟨1, 2, 3⟩⟩ : Pose ℚ) = ⟨-3, 1, 2⟩ := by decide +kernel
-- a representable camera exists for every constructor, e.g. a FULL_OPENCV one with k3 ≠ 0
example : Representable (⟨CamType.FULL_OPENCV, 640, 480, [500, 500, 320, 240, 1, 2, 3, 4, 5, 0, 0, 0]⟩ : Cam ℚ) :=
  Representable.fullOpencv 640 480 500 320 240 1 2 3 4 5
-- two images under a common directory, flattened: ids, sub root, names
example : subRoot [⟨10, "c".toList, "a/s/x.jpg".toList⟩, ⟨11, "c".toList, "a/y.jpg".toList⟩] = ["a".toList] := by decide
example : (exportView true ["a".toList] [("c".toList, 0)] [("a/s/x.jpg".toList, 0)] ⟨10, "c".toList, "a/s/x.jpg".toList⟩).map
    (importName "a".toList) = some "a/s_x.jpg".toList := by decide
-- the hypotheses of structure_roundtrip / matches_roundtrip are met by the tables of that export
example : ObsResolved [("a/s/x.jpg".toList, 0)] [(0, "a/s_x.jpg".toList)] (fun _ => "a/s_x.jpg".toList) [("a/s/x.jpg".toList, 7)] := by
  intro o ho
  simp only [List.mem_singleton] at ho
  subst ho
  exact ⟨0, by decide, by decide, by decide⟩
-- a flip: "a/z" < "aB" but "a_z" > "aB", so the columns of that pair are swapped
example : strLt "a/z".toList "aB".toList = true ∧ strLt (flattenStr "aB".toList) (flattenStr "a/z".toList) = true := by decide

end Kapture.C14
