/-
  Props/C14.lean — property theorems for C14 (OpenMVG export then import preserves images, poses, structure and matches).
  Property theorems ONLY; definitions of the specification side and helper lemmas live in Lemmas/C14.lean.
  Every statement is universally quantified: any field `K` (poses, intrinsics), any quaternion of non-zero norm, any
  number of images / cameras / points / observations / match rows, any image names.
-/
import Kapture.Lemmas.C14

set_option linter.unusedSectionVars false
set_option linter.unusedVariables false

namespace Kapture.C14
open Kapture Kapture.C05 Kapture.Gen.RotMat

/-! ## poses -/
section pose
variable {K : Type} [Field K] [DecidableEq K]

/-- what export writes as "center" is the camera centre: the world point the pose sends to the origin.  This fixes the
  centre-versus-translation convention independently of any golden file. -/
theorem centre_is_camera_centre (p : Pose K) (h : qnorm p.r ≠ 0) : transform p (exportCentre p) = V3.zero := by
  have := transform_compose2 p (inverse p) V3.zero h (by simpa [inverse] using qnorm_inv_ne _ h)
  rw [compose_inverse_right p h] at this
  have hz : transform (inverse p) (V3.zero : V3 K) = exportCentre p := by
    simp only [transform, exportCentre]
    exact add_mulVec_zero _ _
  rw [hz] at this
  rw [← this]
  simp only [transform, identity, rot_eq_norm, rotNorm, Quat.one, qnorm, M3.mulVec, V3.add, V3.zero]
  simp

/-- the translation survives the loop exactly: `-1 * (R (inverse(pose).t)) = t`, i.e. `-R(-Rᵀ t) = t` -/
theorem centre_roundtrip (p : Pose K) (h : qnorm p.r ≠ 0) : importT (exportRotation p) (exportCentre p) = p.t := by
  rw [importT_eq]
  simp only [exportRotation, exportCentre, inverse]
  rw [← mulVec_mul, rot_mul_rot_inv _ h, mulVec_one]
  exact mulNegOne_mulNegOne _

/-- the whole pose survives as a rigid transform, whatever quaternion the library picks for the exported matrix, as
  long as it has that matrix (sign and scale of the quaternion are irrelevant) -/
theorem pose_roundtrip (p : Pose K) (q' : Quat K) (h : qnorm p.r ≠ 0) (hq : rot q' = exportRotation p) (x : V3 K) :
    transform ⟨q', importT (exportRotation p) (exportCentre p)⟩ x = transform p x := by
  rw [centre_roundtrip p h]
  simp only [transform, hq, exportRotation]

/-- in particular for every non-zero multiple of the original quaternion (`-q`, or an un-normalised `q`) -/
theorem pose_roundtrip_sign_scale (p : Pose K) (c : K) (hc : c ≠ 0) (h : qnorm p.r ≠ 0) (x : V3 K) :
    transform ⟨Quat.smul c p.r, importT (exportRotation p) (exportCentre p)⟩ x = transform p x :=
  pose_roundtrip p _ h (by simpa [exportRotation] using rot_scale_invariant c p.r hc h) x

end pose

/-! ## intrinsics -/
section intr
variable {K : Type} [Field K] [DecidableEq K]

/-- export then import of a representable camera gives `canon` of it, for both intrinsic layouts -/
theorem intrinsics_roundtrip (v2 : Bool) (c : Cam K) (h2 : (2 : K) ≠ 0) (hr : Representable c) :
    (exportCam v2 c).bind importCam = some (canon c) := by
  cases hr with
  | simplePinhole w h f cx cy => simp [exportCam, importCam, canon]
  | pinhole w h f cx cy => simp [exportCam, importCam, canon, half_double f h2]
  | simpleRadial w h f cx cy k => simp [exportCam, importCam, canon]
  | radial w h f cx cy k1 k2 => simp [exportCam, importCam, canon]
  | opencv w h f cx cy k1 k2 p1 p2 =>
    cases v2 <;> simp [exportCam, importCam, canon, layout, unnest, half_double f h2]
  | fullOpencv w h f cx cy k1 k2 p1 p2 k3 =>
    by_cases hk : k3 = 0 <;> cases v2 <;> simp [exportCam, importCam, canon, layout, unnest, half_double f h2, hk]

/-- on SIMPLE_PINHOLE, SIMPLE_RADIAL, RADIAL, OPENCV and FULL_OPENCV (k3 ≠ 0) the loop is the identity on the parameter list -/
theorem intrinsics_identity (v2 : Bool) (c : Cam K) (h2 : (2 : K) ≠ 0) (hr : Representable c)
    (ht : c.type ≠ CamType.PINHOLE) (hk : c.type = CamType.FULL_OPENCV → c.params[8]? ≠ some 0) :
    (exportCam v2 c).bind importCam = some c := by
  rw [intrinsics_roundtrip v2 c h2 hr]
  cases hr with
  | simplePinhole w h f cx cy => simp [canon]
  | pinhole w h f cx cy => simp at ht
  | simpleRadial w h f cx cy k => simp [canon]
  | radial w h f cx cy k1 k2 => simp [canon]
  | opencv w h f cx cy k1 k2 p1 p2 => simp [canon]
  | fullOpencv w h f cx cy k1 k2 p1 p2 k3 =>
    have : k3 ≠ 0 := by simpa using hk rfl
    simp [canon, this]

/-- in every case the camera that comes back has the same image size and the same Brown parameters: the same projection -/
theorem intrinsics_same_projection (v2 : Bool) (c : Cam K) (h2 : (2 : K) ≠ 0) (hr : Representable c) :
    ∃ c', (exportCam v2 c).bind importCam = some c' ∧ c'.w = c.w ∧ c'.h = c.h ∧ brown c' = brown c ∧ (brown c).isSome := by
  refine ⟨canon c, intrinsics_roundtrip v2 c h2 hr, ?_⟩
  cases hr with
  | simplePinhole w h f cx cy => simp [canon, brown]
  | pinhole w h f cx cy => simp [canon, brown]
  | simpleRadial w h f cx cy k => simp [canon, brown]
  | radial w h f cx cy k1 k2 => simp [canon, brown]
  | opencv w h f cx cy k1 k2 p1 p2 => simp [canon, brown]
  | fullOpencv w h f cx cy k1 k2 p1 p2 k3 =>
    by_cases hk : k3 = 0 <;> simp [canon, brown, hk]

end intr

end Kapture.C14
