/-
  Props/C11.lean — property theorems for C11 (merged reconstructions keep each observation on the same 3-D point and feature).
  Property theorems ONLY.  For ANY number of reconstructions with any number of points and observations.
-/
import Kapture.Lemmas.C11
import Kapture.Gen.MergePoints

namespace Kapture.C11

/-- the merge succeeds whenever the clouds have one width (coloured or colour-less alike) -/
theorem merge_succeeds (rs : List Recon) (h : sameWidth rs) : ∃ out, mergePointsObs rs = Except.ok out := by
  obtain ⟨a, ha⟩ := fold_succeeds rs { started := false, cols := 6, points := [], obs := [] } h (fun hst => by cases hst)
  exact ⟨(a.cols, a.points, a.obs), by unfold mergePointsObs; rw [ha]⟩

/-- the merged cloud is the concatenation of the inputs' clouds in input order -/
theorem points_concatenated (rs : List Recon) (c : Nat) (pts : List Row) (obs : List Obs)
    (h : mergePointsObs rs = Except.ok (c, pts, obs)) : pts = (clouds rs).flatten := (merge_spec h).1

/-- every point keeps its coordinates: point i of input n is point i + offset of the merge -/
theorem point_preserved (rs : List Recon) (c : Nat) (pts : List Row) (obs : List Obs)
    (h : mergePointsObs rs = Except.ok (c, pts, obs))
    (n : Nat) (r : Recon) (p : List Row) (hr : rs[n]? = some r) (hp : r.points = some p) (i : Nat) (hi : i < p.length) :
    pts[i + offsetBefore rs n]? = p[i]? := by
  rw [(merge_spec h).1]
  exact flatten_getElem?_offset rs n r p hr hp i hi

/-- every observation of every input (that has points) is in the merge, on the shifted index, with the same keypoints type,
  image and feature index -/
theorem observation_preserved (rs : List Recon) (c : Nat) (pts : List Row) (obs : List Obs)
    (h : mergePointsObs rs = Except.ok (c, pts, obs))
    (n : Nat) (r : Recon) (p : List Row) (os : List Obs) (hr : rs[n]? = some r) (hp : r.points = some p)
    (ho : r.obs = some os) (o : Obs) (hm : o ∈ os) :
    (o.1 + offsetBefore rs n, o.2) ∈ obs := by
  rw [(merge_spec h).2.1]
  simpa using mem_shiftedFrom_of_mem rs 0 n r p os hr hp ho o hm

/-- conversely nothing is invented: every merged observation is the shift of an observation of some input -/
theorem observation_origin (rs : List Recon) (c : Nat) (pts : List Row) (obs : List Obs)
    (h : mergePointsObs rs = Except.ok (c, pts, obs)) (o : Obs) (hm : o ∈ obs) :
    ∃ n r p os o', rs[n]? = some r ∧ r.points = some p ∧ r.obs = some os ∧ o' ∈ os ∧
      o = (o'.1 + offsetBefore rs n, o'.2) := by
  rw [(merge_spec h).2.1] at hm
  simpa using origin_of_mem_shiftedFrom rs 0 o hm

/-- observation counts add up (over the inputs that have points) -/
theorem observation_count (rs : List Recon) (c : Nat) (pts : List Row) (obs : List Obs)
    (h : mergePointsObs rs = Except.ok (c, pts, obs)) :
    obs.length = ((rs.filter (fun r => r.points.isSome)).map (fun r => (r.obs.getD []).length)).sum := by
  rw [(merge_spec h).2.1]
  exact length_shiftedFrom rs 0

/-- an observation of input n that designated an existing point still designates the same coordinates -/
theorem observation_same_coordinates (rs : List Recon) (c : Nat) (pts : List Row) (obs : List Obs)
    (h : mergePointsObs rs = Except.ok (c, pts, obs))
    (n : Nat) (r : Recon) (p : List Row) (os : List Obs) (hr : rs[n]? = some r) (hp : r.points = some p)
    (ho : r.obs = some os) (o : Obs) (hm : o ∈ os) (hi : o.1 < p.length) :
    (o.1 + offsetBefore rs n, o.2) ∈ obs ∧ pts[o.1 + offsetBefore rs n]? = p[o.1]? := by
  refine ⟨?_, ?_⟩
  · rw [(merge_spec h).2.1]
    simpa using mem_shiftedFrom_of_mem rs 0 n r p os hr hp ho o hm
  · rw [(merge_spec h).1]
    exact flatten_getElem?_offset rs n r p hr hp o.1 hi

/-- the width of the merge is the common width; without any cloud the result is the default empty coloured cloud -/
theorem width_preserved (rs : List Recon) (c : Nat) (pts : List Row) (obs : List Obs)
    (h : mergePointsObs rs = Except.ok (c, pts, obs)) :
    (∀ r ∈ rs, r.points.isSome = true → r.cols = c) ∧ (clouds rs = [] → c = 6 ∧ pts = [] ∧ obs = []) := ⟨(merge_spec h).2.2.1, (merge_spec h).2.2.2⟩

-- non-vacuity: a colour-less cloud after an input without points, then a second cloud
example : mergePointsObs [⟨none, 6, some [(0, "sift", "a.jpg", 1)]⟩, ⟨some [["1", "2", "3"]], 3, some [(0, "sift", "a.jpg", 7)]⟩,
                          ⟨some [["4", "5", "6"], ["7", "8", "9"]], 3, some [(1, "r2d2", "b.jpg", 2)]⟩]
    = Except.ok (3, [["1", "2", "3"], ["4", "5", "6"], ["7", "8", "9"]], [(0, "sift", "a.jpg", 7), (2, "r2d2", "b.jpg", 2)]) := by rfl

/-- the loop of merge_points3d_and_observations is, statement for statement, the one Model/C11.lean transcribes: the translator
  (Gen/MergePoints.lean) recognises exactly that loop on every run and refuses anything else -/
theorem merge_code_is_the_model :
    Gen.MergePoints.skipsInputsWithoutPoints = true ∧ Gen.MergePoints.offsetIsCountMergedBefore = true ∧
    Gen.MergePoints.stacksInInputOrder = true ∧ Gen.MergePoints.observationsStartFresh = true ∧
    Gen.MergePoints.shiftsOnlyThePointIndex = true := by
  decide

end Kapture.C11
