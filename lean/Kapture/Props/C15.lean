/-
  Props/C15.lean — property theorems for C15 (OpenSfM export then import preserves shots, poses, cameras, points, matches).
  Property theorems ONLY.  Every statement is for ANY number of cameras / images / points / pairs (no size bound): in
  particular the point theorems cover clouds of more than 10, 100, 1000, ... points.
  PARTIAL: what is proved is the converter's discrete plumbing and exact arithmetic (Model/C15.lean); JSON / npz / pickle /
  csv serialisation, os.walk, the rotation vector <-> quaternion maps of numpy-quaternion and IEEE rounding are exercised
  by the full export -> import loops of harness/c15.py, not proved.
-/
import Kapture.Lemmas.C15

namespace Kapture.C15
open Kapture

/-! ### cameras -/

/-- the focal divided by the largest side and multiplied back is the focal, for all positive sizes (rationals) -/
theorem focal_roundtrip (f w h : Rat) (hw : 0 < w) (hh : 0 < h) : exportFocal f w h * largest w h = f :=
  exportFocal_mul_largest f hw hh

/-- the hand-written camera conversion of Model/C15.lean reads what the GENERATED definitions (Gen/OsfmCamera.lean, translated
  from export_opensfm_camera and import_camera on every run) say: the accepted camera types, where k1 / k2 are read, the
  width / height entries, the focal expressions of both directions, the type and the parameter list the importer builds -/
theorem generated_camera_code_is_the_model :
    (∀ t, Gen.OsfmCamera.perspectiveTypes.contains (typeName t) = (t != .other)) ∧
    Gen.OsfmCamera.k1Index = 5 ∧ Gen.OsfmCamera.k2Index = 6 ∧ Gen.OsfmCamera.importType = "RADIAL" ∧
    Gen.OsfmCamera.projectionType = "perspective" ∧
    (∀ mx p, Gen.OsfmCamera.exportWidth mx p = p 0 ∧ Gen.OsfmCamera.exportHeight mx p = p 1 ∧
      Gen.OsfmCamera.exportFocal mx p = p 2 / mx (p 0) (p 1)) ∧
    (∀ mx w h f k1 k2, Gen.OsfmCamera.importParams mx w h f k1 k2 = [w, h, f * mx w h, w / 2, h / 2, k1, k2]) := by
  refine ⟨fun t => by cases t <;> decide, rfl, rfl, rfl, rfl, fun mx p => ⟨rfl, rfl, rfl⟩, fun mx w h f k1 k2 => rfl⟩

/-- the same through the importer's own computation of the largest side from the integer width and height -/
theorem focal_roundtrip_pixels (f : Rat) (W H : Int) (hW : 0 < W) (hH : 0 < H) :
    importFocal (exportFocal f (W : Rat) (H : Rat)) W H = f :=
  importFocal_exportFocal f hW hH

/-- a SIMPLE_PINHOLE / SIMPLE_RADIAL / RADIAL camera with integer positive image size and centred principal point
  comes back as the same camera written as RADIAL (absent distortion coefficients are 0) -/
theorem camera_roundtrip (c : Camera) (W H : Int) (ht : c.type ≠ CamType.other) (hw : c.w = (W : Rat))
    (hh : c.h = (H : Rat)) (hW : 0 < W) (hH : 0 < H) (hc : centred c = true) :
    loopCamera c = Except.ok (asRadial c) :=
  loopCamera_eq c W H ht hw hh hW hH hc

/-- every other camera type is refused by the export (ValueError), never silently converted -/
theorem camera_other_rejected (c : Camera) (ht : c.type = CamType.other) : loopCamera c = Except.error "ValueError" := by
  simp [loopCamera, exportCamera, ht]

/-! ### 3-D points -/

/-- all the keys of one export have the same length -/
theorem point_keys_same_length (n i : Nat) (h : i < n) : (pointKey n i).length = nbDigits n := length_pointKey h

/-- the key function is strictly monotone from the index order to the order the importer sorts by (Python `str` order),
  whatever the number of points -/
theorem point_key_strict_mono (n i j : Nat) (hij : i < j) (hj : j < n) : pointKey n i < pointKey n j := pointKey_lt hij hj

/-- the exported dict lists its keys in strictly increasing `str` order: `sorted()` leaves them in place -/
theorem point_keys_sorted {P : Type} (pts : List P) : (Dict.keys (exportPoints pts)).Pairwise (· < ·) := by
  rw [exportPoints_eq, exportPoints_keys]
  exact keys_pairwise_lt _

/-- the point sequence survives: reading the exported dict back in the importer's iteration order yields the same
  sequence of points, for every list of points of any length -/
theorem points_roundtrip {P : Type} (pts : List P) : importPoints (exportPoints pts) = pts := importPoints_exportPoints pts

/-! ### shots -/

/-- with distinct image names and every image posed, the i-th record comes back as the shot of timestamp i bound to the
  same camera identifier, the same image name and the same pose; nothing is added or lost -/
theorem shots_roundtrip {P : Type} (records : List (Int × String × Name)) (traj : List ((Int × String) × P))
    (hn : (records.map (fun r => r.2.2)).Nodup)
    (hp : ∀ r ∈ records, (Dict.get? (r.1, r.2.1) traj).isSome = true) :
    ∃ out, importShots (exportShots records traj) = Except.ok out ∧ out.length = records.length ∧
      ∀ (i : Nat) (r : Int × String × Name), records[i]? = some r →
        ∃ p, Dict.get? (r.1, r.2.1) traj = some p ∧ out[i]? = some (i, r.2.1, r.2.2, p) := by
  rw [exportShots_eq records traj hn]
  obtain ⟨out, h1, h2, h3⟩ := importShotsFrom_map traj records 0 hp
  refine ⟨out, h1, h2, ?_⟩
  intro i r hr
  obtain ⟨p, hp1, hp2⟩ := h3 i r hr
  exact ⟨p, hp1, by simpa using hp2⟩

/-- every record's (camera, image, pose) binding is found in the result -/
theorem shot_binding_preserved {P : Type} (records : List (Int × String × Name)) (traj : List ((Int × String) × P))
    (hn : (records.map (fun r => r.2.2)).Nodup)
    (hp : ∀ r ∈ records, (Dict.get? (r.1, r.2.1) traj).isSome = true)
    (out : List (Nat × String × Name × P)) (ho : importShots (exportShots records traj) = Except.ok out)
    (r : Int × String × Name) (hr : r ∈ records) :
    ∃ i p, Dict.get? (r.1, r.2.1) traj = some p ∧ (i, r.2.1, r.2.2, p) ∈ out := by
  obtain ⟨out', h1, _, h3⟩ := shots_roundtrip records traj hn hp
  rw [ho] at h1
  cases h1
  obtain ⟨i, hi⟩ := List.getElem?_of_mem hr
  obtain ⟨p, hp1, hp2⟩ := h3 i r hi
  exact ⟨i, p, hp1, List.mem_of_getElem? hp2⟩

/-- conversely every imported shot is the image of a record: no binding is invented -/
theorem shot_binding_origin {P : Type} (records : List (Int × String × Name)) (traj : List ((Int × String) × P))
    (hn : (records.map (fun r => r.2.2)).Nodup)
    (hp : ∀ r ∈ records, (Dict.get? (r.1, r.2.1) traj).isSome = true)
    (out : List (Nat × String × Name × P)) (ho : importShots (exportShots records traj) = Except.ok out)
    (x : Nat × String × Name × P) (hx : x ∈ out) :
    ∃ r ∈ records, Dict.get? (r.1, r.2.1) traj = some x.2.2.2 ∧ x.2.1 = r.2.1 ∧ x.2.2.1 = r.2.2 := by
  obtain ⟨out', h1, h2, h3⟩ := shots_roundtrip records traj hn hp
  rw [ho] at h1
  cases h1
  obtain ⟨i, hi⟩ := List.getElem?_of_mem hx
  have hlt : i < records.length := by
    rw [← h2]
    exact (List.getElem?_eq_some_iff.1 hi).1
  obtain ⟨p, hp1, hp2⟩ := h3 i records[i] (List.getElem?_eq_getElem hlt)
  rw [hi] at hp2
  cases hp2
  exact ⟨records[i], List.getElem_mem hlt, hp1, rfl, rfl⟩

/-! ### features and matches -/

/-- the image name is recovered from a features / matches file name -/
theorem file_name_roundtrip (suffix : List Char) (name : Name) : stripSuffix suffix (addSuffix suffix name) = name :=
  stripSuffix_addSuffix suffix name

/-- distinct images are written to distinct files -/
theorem file_name_injective (suffix : List Char) (a b : Name) (h : addSuffix suffix a = addSuffix suffix b) : a = b :=
  addSuffix_inj suffix h

/-- every exported file is found again by the importer's suffix filter -/
theorem file_name_recognised (suffix : List Char) (name : Name) : hasSuffix suffix (addSuffix suffix name) = true :=
  hasSuffix_addSuffix suffix name

/-- the images that have features come back, in order -/
theorem feature_names_roundtrip (images : List Name) : importFeatureNames (exportFeatureFiles images) = images :=
  importFeatureNames_export images

/-- match pair naming round-trips: the imported pairs are exactly the exported pairs whose first image is a record,
  under their own (image 1, image 2) names, with the rows the export / import column maps produce -/
theorem matches_roundtrip (images : List Name) (pairs : List ((Name × Name) × List Row))
    (hn : (pairs.map (·.1)).Nodup) (x : (Name × Name) × List Row) :
    x ∈ importMatches (exportMatches images pairs) ↔
      ∃ p ∈ pairs, p.1.1 ∈ images ∧ x = (p.1, (p.2.map exportRow).map importRow) :=
  mem_importMatches_exportMatches images pairs hn x

/-- integer-valued match indices are preserved by the column maps (the score becomes 1) -/
theorem match_indices_preserved (a b : Int) (s : Rat) :
    importRow (exportRow ((a : Rat), (b : Rat), s)) = ((a : Rat), (b : Rat), 1) :=
  importRow_exportRow_int a b s

/-! ### non-vacuity -/

-- twelve points: two-digit zero-padded keys, and the cloud comes back in order
example : (exportPoints ["a", "b", "c", "d", "e", "f", "g", "h", "i", "j", "k", "l"]).map (fun kv => String.ofList kv.1)
    = ["00", "01", "02", "03", "04", "05", "06", "07", "08", "09", "10", "11"] := by decide

-- the keys before the fix (plain decimal) are NOT monotone: "10" sorts before "2"
example : plainKey 12 10 < plainKey 12 2 := by decide

-- a SIMPLE_RADIAL 640 x 480 camera satisfies the hypotheses of `camera_roundtrip`: focal 500.5 is exported as
-- 500.5 / 640 and comes back; the unused k2 slot comes back as 0
example : loopCamera { type := .simpleRadial, w := 640, h := 480, f := 1001 / 2, cx := 320, cy := 240, k1 := 1 / 10, k2 := 7 }
    = Except.ok { type := .radial, w := 640, h := 480, f := 1001 / 2, cx := 320, cy := 240, k1 := 1 / 10, k2 := 0 } :=
  camera_roundtrip _ 640 480 (by decide) (by decide) (by decide) (by decide) (by decide)
    (by simp only [centred, Bool.and_eq_true, beq_iff_eq]; constructor <;> grind)

-- two records sharing a timestamp on two cameras
example : importShots (exportShots [(5, "cam0", "a.jpg".toList), (5, "cam1", "b.jpg".toList)]
      [((5, "cam0"), "p0"), ((5, "cam1"), "p1")])
    = Except.ok [(0, "cam0", "a.jpg".toList, "p0"), (1, "cam1", "b.jpg".toList, "p1")] := by rfl

-- one pair with integer-valued indices: the pair keeps its names, the indices are kept, the score becomes 1
example : importMatches (exportMatches ["a".toList, "b".toList] [(("a".toList, "b".toList), [(3, 7, 1 / 2)])])
    = [(("a".toList, "b".toList), [(3, 7, 1)])] := by decide

end Kapture.C15
