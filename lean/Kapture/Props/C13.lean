/-
  Props/C13.lean — property theorems for C13 (COLMAP export then import preserves cameras, poses, features and structure).
  Property theorems ONLY; helper lemmas live in Lemmas/C13.lean.

  PARTIAL: these theorems cover the converter's discrete plumbing and arithmetic core (Model/C13.lean): the camera model
  table, identifier assignment, the GENERATED pair-id arithmetic, the match column swap, the points / tracks text and the
  world pose of rig-mounted cameras.  Every statement is for ALL inputs: any number of images, matches, rows, points and
  observations; the only bound is the one the code has (`MAX_IMAGE_ID`, a hypothesis).  SQLite, text files, numpy blobs
  and float printing are exercised by the export -> import loops of harness/c13.py, not proved.
  The TEXT layer of the reconstruction files (tokens joined by single blanks, tokenised by `[^,\s]+`, image names of
  several words, the two-lines-per-image layout of images.txt) is Model/C13Text.lean and the last theorems of this file.
-/
import Kapture.Lemmas.C13
import Kapture.Lemmas.C13Text
import Kapture.Props.Csv
import Kapture.Props.C05
import Kapture.Props.C06

set_option linter.unusedSectionVars false
set_option linter.unusedVariables false

namespace Kapture.C13
open Kapture Kapture.Gen.PairId

/-! ## pair id (generated arithmetic) -/

/-- decoding the pair id of two valid image ids gives the two ids back, smaller first -/
theorem pairId_roundtrip (a b : Int) (ha : 0 ≤ a) (hb : 0 ≤ b) (ha' : a < maxImageId) (hb' : b < maxImageId) :
    ofPairId (toPairId a b) = (min a b, max a b) := by
  rcases Int.le_total a b with h | h
  · rw [toPairId_of_le a b h, ofPairId_encode a b hb hb', Int.min_eq_left h, Int.max_eq_right h]
  · rcases Int.lt_or_eq_of_le h with hlt | heq
    · rw [toPairId_of_gt a b hlt, ofPairId_encode b a ha ha', Int.min_eq_right h, Int.max_eq_left h]
    · subst heq
      rw [toPairId_of_le b b (Int.le_refl b), ofPairId_encode b b hb hb', Int.min_self, Int.max_self]

/-- the pair id does not depend on the order of the two ids -/
theorem pairId_symmetric (a b : Int) : toPairId a b = toPairId b a := by
  rcases Int.lt_trichotomy a b with h | h | h
  · rw [toPairId_of_le a b (Int.le_of_lt h), toPairId_of_gt b a h]
  · subst h; rfl
  · rw [toPairId_of_gt a b h, toPairId_of_le b a (Int.le_of_lt h)]

/-- two unordered pairs of valid ids with the same pair id are the same pair: no two image pairs share a row key -/
theorem pairId_injective (a b c d : Int) (ha : 0 ≤ a) (hb : 0 ≤ b) (hc : 0 ≤ c) (hd : 0 ≤ d)
    (ha' : a < maxImageId) (hb' : b < maxImageId) (hc' : c < maxImageId) (hd' : d < maxImageId)
    (h : toPairId a b = toPairId c d) : (min a b, max a b) = (min c d, max c d) := by
  rw [← pairId_roundtrip a b ha hb ha' hb', ← pairId_roundtrip c d hc hd hc' hd', h]

/-! ## image identifiers -/

/-- images with distinct names get distinct identifiers 1..n, whatever the order of the records -/
theorem image_ids_distinct (records : List Record) (h : (records.map (fun r => r.2.2)).Nodup) :
    NamesNodup (imageIds records) ∧ IdsNodup (imageIds records) ∧
    ∀ e ∈ imageIds records, 1 ≤ e.2 ∧ e.2 ≤ records.length := by
  refine ⟨assignIds_namesNodup _ (imageOrder_nodup records h), assignIds_idsNodup _, ?_⟩
  intro e he
  have := assignIds_bounds _ e he
  rw [imageOrder_length] at this
  exact this

/-- every image gets an identifier, and name -> id -> name is the identity (what the import relies on to name the
  keypoints, descriptors, matches and observations it reads) -/
theorem image_name_id_name (records : List Record) (r : Record) (hr : r ∈ records) :
    ∃ i, idOf? (imageIds records) r.2.2 = some i ∧ nameOf? (imageIds records) i = some r.2.2 := by
  have hm : r.2.2 ∈ (imageIds records).map Prod.fst := by
    unfold imageIds
    rw [assignIds_names, mem_imageOrder]
    exact List.mem_map.2 ⟨r, hr, rfl⟩
  obtain ⟨i, hi⟩ := idOf?_isSome_of_mem _ _ hm
  exact ⟨i, hi, nameOf?_idOf? _ (assignIds_idsNodup _) _ _ hi⟩

/-- id -> name -> id is the identity for images with distinct names -/
theorem image_id_name_id (records : List Record) (h : (records.map (fun r => r.2.2)).Nodup) (i : Int) (n : String)
    (hn : nameOf? (imageIds records) i = some n) : idOf? (imageIds records) n = some i :=
  idOf?_nameOf? _ (image_ids_distinct records h).1 n i hn

/-! ## matches -/

/-- swapping the two index columns twice is the identity, for every list of index pairs -/
theorem swap_twice (rows : MatchRows) : swapCols (swapCols rows) = rows := swapCols_swapCols rows

/-- one pair of images: the rows written to the database (columns swapped when the id order differs from the name
  order) and read back (columns swapped when the name order differs from the id order) are the rows of the pair, under
  the same pair of names — for ANY table of distinct in-range identifiers, any rows -/
theorem match_loop_any_ids (ids : List (String × Int)) (hn : IdsNodup ids) (hr : IdsInRange ids)
    (a b : String) (hab : a < b) (rows : MatchRows) (ia ib : Int)
    (ha : idOf? ids a = some ia) (hb : idOf? ids b = some ib) :
    (exportMatch ids ((a, b), rows)).bind (importMatch ids) = some ((a, b), rows) :=
  match_loop_general ids hn hr a b hab rows ia ib ha hb

/-- the same for the identifiers the export assigns: any records with fewer than MAX_IMAGE_ID images, any two of them
  in lexical order (kapture's normal form of a pair), any rows -/
theorem match_loop (records : List Record) (hlen : (records.length : Int) < maxImageId)
    (ra rb : Record) (ha : ra ∈ records) (hb : rb ∈ records) (hab : ra.2.2 < rb.2.2) (rows : MatchRows) :
    (exportMatch (imageIds records) ((ra.2.2, rb.2.2), rows)).bind (importMatch (imageIds records))
      = some ((ra.2.2, rb.2.2), rows) := by
  obtain ⟨ia, hia, _⟩ := image_name_id_name records ra ha
  obtain ⟨ib, hib, _⟩ := image_name_id_name records rb hb
  have hrange : IdsInRange (imageIds records) := by
    apply assignIds_inRange
    rw [imageOrder_length]; exact hlen
  exact match_loop_general _ (assignIds_idsNodup _) hrange _ _ hab rows ia ib hia hib

/-- all matches of a dataset: exporting then importing gives back the same list of (pair, rows) -/
theorem matches_loop (records : List Record) (hlen : (records.length : Int) < maxImageId)
    (ms : List ((String × String) × MatchRows))
    (h : ∀ m ∈ ms, m.1.1 < m.1.2 ∧ (∃ r ∈ records, r.2.2 = m.1.1) ∧ (∃ r ∈ records, r.2.2 = m.1.2)) :
    importMatches (imageIds records) (exportMatches (imageIds records) ms) = ms := by
  induction ms with
  | nil => rfl
  | cons m ms ih =>
    obtain ⟨hlt, ⟨ra, hra, ea⟩, ⟨rb, hrb, eb⟩⟩ := h m List.mem_cons_self
    have hl := match_loop records hlen ra rb hra hrb (by rw [ea, eb]; exact hlt) m.2
    rw [ea, eb] at hl
    have ih' := ih (fun m' hm' => h m' (List.mem_cons_of_mem _ hm'))
    unfold importMatches exportMatches at ih' ⊢
    cases he : exportMatch (imageIds records) m with
    | none =>
      have : exportMatch (imageIds records) ((m.1.1, m.1.2), m.2) = none := he
      rw [this] at hl; cases hl
    | some row =>
      have he' : exportMatch (imageIds records) ((m.1.1, m.1.2), m.2) = some row := he
      rw [he'] at hl
      simp only [Option.bind_some] at hl
      rw [List.filterMap_cons_some he, List.filterMap_cons_some hl, ih']

/-! ## cameras -/

/-- the camera model table is a bijection between names and ids on every entry, with its parameter count -/
theorem camera_table_lookup : ∀ e ∈ cameraModels,
    modelId? e.1 = some e.2.1 ∧ modelName? e.2.1 = some e.1 ∧ paramCount? e.1 = some e.2.2 := cameraModels_lookup

/-- a camera of any model COLMAP knows, with any image size and any parameters, comes back with the same model name and
  the same parameters; the number of parameters written is the model's count -/
theorem camera_loop : ∀ e ∈ cameraModels, ∀ (w h : String) (params : List String), params.length = e.2.2 →
    ∃ c, exportCamera { model := e.1, params := w :: h :: params } = Except.ok c ∧
      c.modelId = e.2.1 ∧ c.params = params ∧ paramCount? e.1 = some c.params.length ∧
      importCamera c = { model := e.1, params := w :: h :: params } := by
  intro e he w h params hlen
  obtain ⟨h1, h2, h3⟩ := cameraModels_lookup e he
  have hu := cameraModels_not_unknown e he
  refine ⟨{ modelId := e.2.1, width := w, height := h, params := params }, ?_, rfl, rfl, ?_, ?_⟩
  · simp [exportCamera, hu, h1]
  · rw [h3, hlen]
  · simp [importCamera, h2]

/-- cameras (sensors with distinct identifiers) get distinct colmap camera ids and sensor -> id -> sensor is the
  identity: every image finds the camera of its sensor again -/
theorem camera_ids_loop (sensorIds : List String) (s : String) (hs : s ∈ sensorIds) :
    ∃ i, idOf? (cameraIds sensorIds) s = some i ∧ nameOf? (cameraIds sensorIds) i = some s := by
  have hm : s ∈ (cameraIds sensorIds).map Prod.fst := by
    unfold cameraIds; rw [assignIds_names]; exact hs
  obtain ⟨i, hi⟩ := idOf?_isSome_of_mem _ _ hm
  exact ⟨i, hi, nameOf?_idOf? _ (assignIds_idsNodup _) _ _ hi⟩

/-! ## points and tracks -/

/-- the (coordinates, image name, feature index) relation survives ANY renumbering of images by distinct identifiers:
  points come back in the same order with the same coordinates (and colour, black for colour-less points), every track
  with the same image names and feature indices; the written point ids are 0, 1, 2, ... (so re-indexing the lines by
  position on import changes nothing).  Hypothesis: observed images are registered and have a pose (an image without
  pose has no line in images.txt, see `track_of_unposed_image_is_unknown`). -/
theorem points_tracks_loop (ids : List (String × Int)) (hn : IdsNodup ids) (posed : List String)
    (pts : List (Row × List (String × Nat)))
    (h : ∀ p ∈ pts, ∀ o ∈ p.2, o.1 ∈ posed ∧ ∃ i, idOf? ids o.1 = some i) :
    ∃ lines, exportPoints ids pts = some lines ∧
      importPoints (posedIds ids posed) lines = pts.map (fun p => (canon6 p.1, p.2)) ∧
      lines.map (fun l => l.id) = List.range pts.length := by
  obtain ⟨lines, h1, h2, h3⟩ := exportPointsFrom_loop ids hn posed pts 0 h
  refine ⟨lines, h1, h2, ?_⟩
  rw [h3]
  simp

/-- the same for the identifiers the export assigns to the images of any records -/
theorem points_tracks_loop_images (records : List Record) (posed : List String)
    (pts : List (Row × List (String × Nat)))
    (h : ∀ p ∈ pts, ∀ o ∈ p.2, o.1 ∈ posed ∧ ∃ r ∈ records, r.2.2 = o.1) :
    ∃ lines, exportPoints (imageIds records) pts = some lines ∧
      importPoints (posedIds (imageIds records) posed) lines = pts.map (fun p => (canon6 p.1, p.2)) ∧
      lines.map (fun l => l.id) = List.range pts.length := by
  apply points_tracks_loop _ (assignIds_idsNodup _)
  intro p hp o ho
  obtain ⟨h1, r, hr, e⟩ := h p hp o ho
  obtain ⟨i, hi, _⟩ := image_name_id_name records r hr
  exact ⟨h1, i, by rw [← e]; exact hi⟩

/-- coordinates are kept for 3- and 6-column points alike, and a coloured point is kept entirely -/
theorem point_coordinates_preserved (row : Row) (h : 3 ≤ row.length) :
    (canon6 row).take 3 = row.take 3 ∧ (row.length = 6 → canon6 row = row) :=
  ⟨canon6_take3 row h, canon6_of_length6 row⟩

/-- boundary of the statement: an observation by a registered image WITHOUT pose is read back under the name 'unknown'
  (import_colmap.py:149-150 builds the id -> name table from images.txt only) -/
theorem track_of_unposed_image_is_unknown (ids : List (String × Int)) (hn : IdsNodup ids) (posed : List String)
    (n : String) (i : Int) (hi : idOf? ids n = some i) (hp : n ∉ posed) (k : Nat) :
    (importPoint (posedIds ids posed) { id := 0, xyz := [], rgb := [], track := [(i, k)] }).2 = [("unknown", k)] := by
  have hnone : nameOf? (posedIds ids posed) i = none := by
    cases hq : nameOf? (posedIds ids posed) i with
    | none => rfl
    | some m =>
      exfalso
      have hm := mem_of_nameOf? _ m i hq
      have hm' : (m, i) ∈ ids := by
        unfold posedIds at hm; exact (List.mem_filter.1 hm).1
      have e1 := nameOf?_of_mem ids hn m i hm'
      have e2 := nameOf?_idOf? ids hn n i hi
      rw [e1] at e2
      have : m = n := Option.some.inj e2
      subst this
      exact not_mem_posedIds ids posed m i hp hm
  simp [importPoint, hnone]

/-! ## rig-mounted cameras -/

section rigs
open Kapture.C05 Kapture.C06 Kapture.Gen.RotMat
variable {K : Type} [Field K] [DecidableEq K]

/-- a camera mounted on a rig that has a pose comes out at `camera_from_rig ∘ rig_from_world`: as a pose
  (`compose2`), and as the map on points it denotes (world point -> rig frame -> camera frame) -/
theorem rig_camera_world_pose (rigs : Rigs (Pose K)) (traj : Traj K) (e : Entry (Pose K)) (he : e ∈ traj)
    (members : List (String × Pose K)) (hm : membersOf rigs e.dev = some members)
    (cam : String) (camFromRig : Pose K) (hc : (cam, camFromRig) ∈ members) (hcam : ¬ isRig rigs cam)
    (hd : DepthLE rigs 10 e.dev) :
    ∃ e' ∈ exportTrajectory rigs traj, e'.ts = e.ts ∧ e'.dev = cam ∧ e'.g = compose2 camFromRig e.g ∧
      (qnorm camFromRig.r ≠ 0 → qnorm e.g.r ≠ 0 →
        ∀ x, transform e'.g x = transform camFromRig (transform e.g x)) := by
  have hmount : Mounted compose2 rigs (e.dev, e.g) (cam, compose2 camFromRig e.g) :=
    Mounted.step e.dev e.g members cam camFromRig cam _ hm hc (Mounted.here _ _)
  obtain ⟨e', he', h1, h2, h3⟩ := remove_complete compose2 rigs 10 traj e cam _ he hd hmount hcam
  refine ⟨e', he', h1, h2, h3, ?_⟩
  intro hq1 hq2 x
  rw [h3]
  exact transform_compose2 camFromRig e.g x hq1 hq2

/-- rigs of any shape (rigs mounted on rigs, within the pass budget of the code): every camera below a posed rig gets
  exactly the pose implied by the chain of mountings -/
theorem nested_rig_camera_world_pose (rigs : Rigs (Pose K)) (traj : Traj K) (e : Entry (Pose K)) (he : e ∈ traj)
    (cam : String) (g : Pose K) (hmount : Mounted compose2 rigs (e.dev, e.g) (cam, g)) (hcam : ¬ isRig rigs cam)
    (hd : DepthLE rigs 10 e.dev) :
    ∃ e' ∈ exportTrajectory rigs traj, e'.ts = e.ts ∧ e'.dev = cam ∧ e'.g = g :=
  remove_complete compose2 rigs 10 traj e cam g he hd hmount hcam

/-- a camera posed directly keeps its pose, and nothing but implied poses is written -/
theorem free_camera_pose_kept (rigs : Rigs (Pose K)) (traj : Traj K) (e : Entry (Pose K)) (he : e ∈ traj)
    (hf : ¬ isRig rigs e.dev) : e ∈ exportTrajectory rigs traj :=
  remove_keeps_free_entries compose2 rigs 10 traj e he hf

/-- the pose written to images.txt for the image of a rig-mounted camera is that world pose, when no other source
  poses the same camera at the same timestamp (the property's reading of "the pose of an image") -/
theorem rig_camera_pose_written (rigs : Rigs (Pose K)) (traj : Traj K) (e : Entry (Pose K)) (he : e ∈ traj)
    (members : List (String × Pose K)) (hm : membersOf rigs e.dev = some members)
    (cam : String) (camFromRig : Pose K) (hc : (cam, camFromRig) ∈ members) (hcam : ¬ isRig rigs cam)
    (hd : DepthLE rigs 10 e.dev)
    (huniq : ∀ e1 ∈ exportTrajectory rigs traj, e1.ts = e.ts → e1.dev = cam → e1.g = compose2 camFromRig e.g) :
    poseOf? (exportTrajectory rigs traj) e.ts cam = some (compose2 camFromRig e.g) := by
  obtain ⟨e', he', h1, h2, _⟩ := rig_camera_world_pose rigs traj e he members hm cam camFromRig hc hcam hd
  exact poseOf?_of_mem_unique _ _ _ _ huniq ⟨e', he', h1, h2⟩

end rigs

/-! ## non-vacuity -/

-- ids in non-lexical order: "b.jpg" is image 1, "a.jpg" image 2; the pair (a, b) is stored under ids (1, 2) with
-- swapped columns and comes back as written
example : imageIds [(5, "cam", "a.jpg"), (2, "cam", "b.jpg")] = [("b.jpg", 1), ("a.jpg", 2)] := by decide
example : exportMatch [("b.jpg", 1), ("a.jpg", 2)] (("a.jpg", "b.jpg"), [(0, 7), (3, 4)])
    = some (1 * maxImageId + 2, [(7, 0), (4, 3)]) := by decide
example : importMatch [("b.jpg", 1), ("a.jpg", 2)] (1 * maxImageId + 2, [(7, 0), (4, 3)])
    = some (("a.jpg", "b.jpg"), [(0, 7), (3, 4)]) := by decide
example : ofPairId (toPairId 7 3) = (3, 7) := by decide
example : (exportCamera ⟨"OPENCV", ["640", "480", "a", "b", "c", "d", "e", "f", "g", "h"]⟩).toOption.map importCamera
    = some ⟨"OPENCV", ["640", "480", "a", "b", "c", "d", "e", "f", "g", "h"]⟩ := by decide
example : (exportPoints [("b.jpg", 1), ("a.jpg", 2)] [(["x", "y", "z"], [("a.jpg", 4)])]).map
    (importPoints (posedIds [("b.jpg", 1), ("a.jpg", 2)] ["a.jpg"]))
    = some [(["x", "y", "z", zeroTok, zeroTok, zeroTok], [("a.jpg", 4)])] := by decide

end Kapture.C13

namespace Kapture.C13Text
open Kapture.Csv

/-- TEXT LAYER, one line: any list of tokens (non-empty, without comma or blank) written with single blanks between them is
  tokenised back to itself by the importer's `re.findall(r'[^,\s]+', line)` — this covers every line of cameras.txt and
  points3D.txt -/
theorem line_tokens_roundtrip (fields : List Str) (h : ∀ f ∈ fields, TokenOK f) : tokens (spaceJoin fields) = fields :=
  tokens_spaceJoin fields h

/-- TEXT LAYER, points3D.txt: the line of a point is tokenised to its fields: id, coordinates, colour, the error field, then
  the (image id, feature index) pairs of the track in order -/
theorem point_line_tokens (i : Nat) (xyz rgb : List Str) (track : List (Int × Int))
    (h : ∀ f ∈ xyz ++ rgb, TokenOK f) :
    tokens (pointLine i xyz rgb track) =
      [showInt (Int.ofNat i)] ++ xyz ++ rgb ++ [['0']] ++ track.flatMap (fun p => [showInt p.1, showInt p.2]) := by
  apply tokens_spaceJoin
  intro f hf
  simp only [List.mem_append, List.mem_cons, List.not_mem_nil, or_false, List.mem_flatMap] at hf
  rcases hf with (((rfl | hf) | hf) | rfl) | ⟨p, _, rfl | rfl⟩
  · exact tokenOK_showInt _
  · exact h f (List.mem_append_left _ hf)
  · exact h f (List.mem_append_right _ hf)
  · exact ⟨by simp, by decide⟩
  · exact tokenOK_showInt _
  · exact tokenOK_showInt _

/-- TEXT LAYER, cameras.txt -/
theorem camera_line_tokens (id : Int) (model w h : Str) (params : List Str)
    (hm : TokenOK model) (hw : TokenOK w) (hh : TokenOK h) (hp : ∀ f ∈ params, TokenOK f) :
    tokens (cameraLine id model w h params) = [showInt id, model, w, h] ++ params := by
  apply tokens_spaceJoin
  intro f hf
  simp only [List.mem_append, List.mem_cons, List.not_mem_nil, or_false] at hf
  rcases hf with (rfl | rfl | rfl | rfl) | hf
  · exact tokenOK_showInt _
  · exact hm
  · exact hw
  · exact hh
  · exact hp f hf

/-- TEXT LAYER, images.txt, one image: identifier, the seven pose tokens, camera identifier and the NAME come back — a name of
  several words separated by single blanks included (`' '.join(fields[9:])`) -/
theorem image_line_roundtrip (id cam : Int) (pose : List Str) (name : Str)
    (hp : pose.length = 7) (hpt : ∀ f ∈ pose, TokenOK f) (hn : NameOK name) :
    decodeImageLine (imageLine id pose cam name) = some (id, pose, cam, name) := by
  obtain ⟨words, hw, hwt, rfl⟩ := hn
  have hline : imageLine id pose cam (spaceJoin words) = spaceJoin ([showInt id] ++ pose ++ [showInt cam] ++ words) := by
    unfold imageLine
    have := spaceJoin_append_words ([showInt id] ++ pose ++ [showInt cam]) words hw
    simpa [List.append_assoc] using this
  have hall : ∀ f ∈ [showInt id] ++ pose ++ [showInt cam] ++ words, TokenOK f := by
    intro f hf
    simp only [List.mem_append, List.mem_cons, List.not_mem_nil, or_false] at hf
    rcases hf with ((rfl | hf) | rfl) | hf
    · exact tokenOK_showInt _
    · exact hpt f hf
    · exact tokenOK_showInt _
    · exact hwt f hf
  obtain ⟨wi, lastw, rfl⟩ : ∃ wi lastw, words = wi ++ [lastw] := by
    rcases List.eq_nil_or_concat words with e | ⟨l, c, e⟩
    · exact absurd e hw
    · exact ⟨l, c, by simpa using e⟩
  have hrs : rstrip (spaceJoin ([showInt id] ++ pose ++ [showInt cam] ++ (wi ++ [lastw]))) =
      spaceJoin ([showInt id] ++ pose ++ [showInt cam] ++ (wi ++ [lastw])) := by
    rw [← List.append_assoc]
    exact rstrip_spaceJoin _ lastw (hwt lastw (by simp))
  unfold decodeImageLine
  rw [hline, hrs, tokens_spaceJoin _ hall]
  obtain ⟨q0, q1, q2, q3, q4, q5, q6, rfl⟩ : ∃ a b c d e f g, pose = [a, b, c, d, e, f, g] := by
    match pose, hp with
    | [a, b, c, d, e, f, g], _ => exact ⟨a, b, c, d, e, f, g, rfl⟩
  simp [readInt_showInt' id, readInt_showInt' cam]

/-- TEXT LAYER, images.txt, the whole file: the first pass of the importer over the file the exporter writes finds exactly the
  posed images, in order, each with its identifier, pose tokens, camera and name — for any number of images, with or without
  a POINTS2D line (an image without keypoints has an EMPTY second line, which keeps the parity of the lines) -/
theorem images_first_pass (n : Nat) (es : List ImageEntry)
    (h : ∀ e ∈ es, e.pose.length = 7 ∧ (∀ f ∈ e.pose, TokenOK f) ∧ NameOK e.name ∧
      ∀ p ∈ e.p2d, TokenOK p.1 ∧ TokenOK p.2.1 ∧ TokenOK p.2.2 ∧ p.1.head? ≠ some '#') :
    imagesFirstPass (imagesTxt n es) = es.map (fun e => some (e.id, e.pose, e.cam, e.name)) := by
  -- every line is free of '\n'
  have hp2tok : ∀ e ∈ es, ∀ f ∈ e.p2d.flatMap (fun p => [p.1, p.2.1, p.2.2]), TokenOK f := by
    intro e he f hf
    obtain ⟨p, hp, hfp⟩ := List.mem_flatMap.1 hf
    obtain ⟨h1, h2, h3, _⟩ := (h e he).2.2.2 p hp
    simp only [List.mem_cons, List.not_mem_nil, or_false] at hfp
    rcases hfp with rfl | rfl | rfl <;> assumption
  have himg_tokens : ∀ e ∈ es, ∃ fields, (∀ f ∈ fields, TokenOK f) ∧ imageLine e.id e.pose e.cam e.name = spaceJoin (showInt e.id :: fields) := by
    intro e he
    obtain ⟨_, hpt, ⟨words, hw, hwt, hname⟩, _⟩ := h e he
    refine ⟨e.pose ++ [showInt e.cam] ++ words, ?_, ?_⟩
    · intro f hf
      simp only [List.mem_append, List.mem_cons, List.not_mem_nil, or_false] at hf
      rcases hf with (hf | rfl) | hf
      · exact hpt f hf
      · exact tokenOK_showInt _
      · exact hwt f hf
    · unfold imageLine
      rw [hname]
      have := spaceJoin_append_words ([showInt e.id] ++ e.pose ++ [showInt e.cam]) words hw
      simpa [List.append_assoc] using this
  have hnl : ∀ l ∈ imagesHeaderLines n ++ es.flatMap (fun e => [imageLine e.id e.pose e.cam e.name, points2dLine e.p2d]), '\n' ∉ l := by
    intro l hl
    rcases List.mem_append.1 hl with hl | hl
    · simp only [imagesHeaderLines, List.mem_cons, List.not_mem_nil, or_false] at hl
      rcases hl with rfl | rfl | rfl | rfl
      · decide
      · decide
      · decide
      · intro hm
        rcases List.mem_append.1 hm with hm | hm
        · revert hm; decide
        · have := ((showInt_chars _ _ hm).facts).2.1
          exact this rfl
    · obtain ⟨e, he, hle⟩ := List.mem_flatMap.1 hl
      simp only [List.mem_cons, List.not_mem_nil, or_false] at hle
      rcases hle with rfl | rfl
      · obtain ⟨fields, hf, heq⟩ := himg_tokens e he
        rw [heq]
        apply no_newline_of_tokens
        intro p hp
        rcases List.mem_cons.1 hp with rfl | hp
        · exact (tokenOK_showInt _).2
        · exact (hf p hp).2
      · exact no_newline_of_tokens _ (fun p hp => (hp2tok e he p hp).2)
  unfold imagesFirstPass imagesTxt
  rw [linesOf_unlines _ hnl, List.filter_append]
  have hhdr : (imagesHeaderLines n).filter (fun l => !isComment l) = [] := by
    simp [imagesHeaderLines, isComment]
  rw [hhdr, List.nil_append]
  -- the data lines all survive the comment filter, and every other one is an image line
  clear hnl hhdr
  induction es with
  | nil => rfl
  | cons e t ih =>
    have he := h e (by simp)
    have hkeep1 : isComment (imageLine e.id e.pose e.cam e.name) = false := by
      obtain ⟨fields, _, heq⟩ := himg_tokens e (by simp)
      rw [heq]
      unfold isComment
      rw [head_spaceJoin_cons _ _ (showInt_ne_nil _)]
      have := (showInt_fieldOK' e.id).2.2
      cases hh : (showInt e.id).head? with
      | none => rfl
      | some c => simp; intro e'; rw [e'] at hh; exact this hh
    have hkeep2 : isComment (points2dLine e.p2d) = false := by
      unfold isComment points2dLine
      cases hp : e.p2d with
      | nil => rfl
      | cons p ps =>
        have := (he.2.2.2 p (by rw [hp]; simp))
        simp only [List.flatMap_cons, List.cons_append]
        rw [head_spaceJoin_cons _ _ this.1.1]
        cases hh : p.1.head? with
        | none => rfl
        | some c => simp; intro e'; rw [e'] at hh; exact this.2.2.2 hh
    simp only [List.flatMap_cons, List.cons_append, List.nil_append, List.filter_cons, hkeep1, hkeep2, Bool.not_false, if_true,
      everyOther, List.map_cons]
    rw [ih (fun e' he' => h e' (List.mem_cons_of_mem _ he')) (fun e' he' => hp2tok e' (List.mem_cons_of_mem _ he'))
      (fun e' he' => himg_tokens e' (List.mem_cons_of_mem _ he'))]
    rw [image_line_roundtrip e.id e.cam e.pose e.name he.1 he.2.1 he.2.2.1]

-- non-vacuity: a name of two words, an image without keypoints followed by one with keypoints
example : imagesFirstPass (imagesTxt 2
    [{ id := 1, pose := ["1.0", "0.0", "0.0", "0.0", "0.5", "-2.0", "1e-07"].map String.toList, cam := 1, name := "seq a/img 1.jpg".toList, p2d := [] },
     { id := 2, pose := ["1.0", "0.0", "0.0", "0.0", "0.5", "-2.0", "3.0"].map String.toList, cam := 1, name := "b.jpg".toList,
       p2d := [("1.5".toList, "2.5".toList, "-1".toList)] }])
    = [some (1, ["1.0", "0.0", "0.0", "0.0", "0.5", "-2.0", "1e-07"].map String.toList, 1, "seq a/img 1.jpg".toList),
       some (2, ["1.0", "0.0", "0.0", "0.0", "0.5", "-2.0", "3.0"].map String.toList, 1, "b.jpg".toList)] := by decide +kernel

end Kapture.C13Text
