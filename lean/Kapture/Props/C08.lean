/-
  Props/C08.lean — property theorems for C08 (dataset comparison is a true equality: symmetric and sensitive to every part).
  Property theorems ONLY.  For ALL datasets; `close` is any closeness relation with the stated hypotheses.
-/
import Kapture.Lemmas.C08

namespace Kapture.C08

/-- exact characterisation of the table comparison: equal iff both absent, or both present with the SAME key list and
  pairwise close values — so ANY added, removed or re-keyed entry, and any value altered beyond closeness, is seen -/
theorem equalTable_iff (close : String → String → Bool) (a b : Option Table) :
    equalTable close a b = true ↔
      (a = none ∧ b = none) ∨
      (∃ x y, a = some x ∧ b = some y ∧ x.map (·.1) = y.map (·.1) ∧
        ∀ (i : Nat) (p q : Key × String), x[i]? = some p → y[i]? = some q → close p.2 q.2 = true) := by
  cases a with
  | none =>
    cases b with
    | none => simp [equalTable_none_none]
    | some y => simp [equalTable_none_some]
  | some x =>
    cases b with
    | none => simp [equalTable_some_none]
    | some y =>
      rw [equalTable_some_iff]
      constructor
      · intro h
        exact Or.inr ⟨x, y, rfl, rfl, h.1, h.2⟩
      · rintro (⟨h, _⟩ | ⟨x', y', hx, hy, hk, hv⟩)
        · cases h
        · cases hx; cases hy
          exact ⟨hk, hv⟩

/-- sensitivity, spelled out: altering one value beyond closeness -/
theorem table_sensitive_alter (close : String → String → Bool) (pre post : Table) (k : Key) (v v' : String)
    (h : close v v' = false) :
    equalTable close (some (pre ++ (k, v) :: post)) (some (pre ++ (k, v') :: post)) = false := by
  rw [← Bool.not_eq_true]
  intro ht
  rw [equalTable_some_iff] at ht
  have := ht.2 pre.length (k, v) (k, v') (by simp) (by simp)
  simp only at this
  rw [h] at this
  cases this

/-- sensitivity: removing (or, read right to left, adding) one entry -/
theorem table_sensitive_remove (close : String → String → Bool) (pre post : Table) (e : Key × String) :
    equalTable close (some (pre ++ e :: post)) (some (pre ++ post)) = false ∧
    equalTable close (some (pre ++ post)) (some (pre ++ e :: post)) = false := by
  constructor
  · apply equalTable_length_ne
    simp only [List.length_append, List.length_cons]
    omega
  · apply equalTable_length_ne
    simp only [List.length_append, List.length_cons]
    omega

/-- sensitivity: a part present on one side only -/
theorem table_sensitive_presence (close : String → String → Bool) (x : Table) :
    equalTable close (some x) none = false ∧ equalTable close none (some x) = false := ⟨rfl, rfl⟩

/-- reflexive and symmetric when closeness is -/
theorem equalTable_refl (close : String → String → Bool) (hr : ∀ v, close v v = true) (a : Option Table) :
    equalTable close a a = true := by
  cases a with
  | none => rfl
  | some x =>
    rw [equalTable_some_iff]
    refine ⟨rfl, fun i p q hp hq => ?_⟩
    rw [hp] at hq
    cases hq
    exact hr _

theorem equalTable_symm (close : String → String → Bool) (hs : ∀ v w, close v w = close w v) (a b : Option Table) :
    equalTable close a b = equalTable close b a := by
  rw [Bool.eq_iff_iff]
  exact ⟨equalTable_imp_symm close hs a b, equalTable_imp_symm close hs b a⟩

/-- the generated equal_sets tests the symmetric difference ... -/
theorem set_shape_is_symmetric : Gen.ComparedParts.setShape = "symmetric_difference" := rfl

/-- ... so it is set equality (both inclusions) -/
theorem equalSets_iff (a b : List String) :
    equalSets Gen.ComparedParts.setShape a b = true ↔ SameMembers a b := by
  rw [set_shape_is_symmetric]
  exact equalSets_symmdiff_iff a b

/-- collections: equal iff both absent, or both present with the same type names and, type by type, the same
  configuration and the same members -/
theorem equalColl_iff (a b : Option Coll) (ha : ∀ x, a = some x → (x.map (·.1)).Nodup)
    (hb : ∀ y, b = some y → (y.map (·.1)).Nodup) :
    equalColl Gen.ComparedParts.setShape a b = true ↔
      (a = none ∧ b = none) ∨
      (∃ x y, a = some x ∧ b = some y ∧ SameMembers (x.map (·.1)) (y.map (·.1)) ∧
        ∀ ty cfg ms, lookupColl x ty = some (cfg, ms) →
          ∃ ms', lookupColl y ty = some (cfg, ms') ∧ SameMembers ms ms') := by
  rw [set_shape_is_symmetric]
  cases a with
  | none =>
    cases b with
    | none => simp [equalColl]
    | some y => simp [equalColl]
  | some x =>
    cases b with
    | none => simp [equalColl]
    | some y =>
      rw [equalColl_some_iff x y (ha x rfl)]
      constructor
      · intro h
        exact Or.inr ⟨x, y, rfl, rfl, h.1, h.2⟩
      · rintro (⟨h, _⟩ | ⟨x', y', hx, hy, hk, hv⟩)
        · cases h
        · cases hx; cases hy
          exact ⟨hk, hv⟩

theorem equalColl_symm (a b : Option Coll) (ha : ∀ x, a = some x → (x.map (·.1)).Nodup)
    (hb : ∀ y, b = some y → (y.map (·.1)).Nodup) :
    equalColl Gen.ComparedParts.setShape a b = equalColl Gen.ComparedParts.setShape b a := by
  rw [set_shape_is_symmetric, Bool.eq_iff_iff]
  exact ⟨equalColl_imp_symm a b ha hb, equalColl_imp_symm b a hb ha⟩

/-- the whole comparison is the conjunction over the compared attributes -/
theorem equalKapture_iff (close : String → String → Bool) (a b : Dataset) :
    equalKapture close a b = true ↔
      ∀ p ∈ Gen.ComparedParts.comparedParts, equalPart Gen.ComparedParts.setShape close (a p) (b p) = true := by
  unfold equalKapture equalKaptureWith
  rw [List.all_eq_true]

/-- hence a difference inside any compared attribute makes the answer false -/
theorem kapture_sensitive (close : String → String → Bool) (a b : Dataset) (p : String)
    (hp : p ∈ Gen.ComparedParts.comparedParts)
    (hd : equalPart Gen.ComparedParts.setShape close (a p) (b p) = false) : equalKapture close a b = false := by
  rw [← Bool.not_eq_true] at hd ⊢
  intro h
  exact hd ((equalKapture_iff close a b).1 h p hp)

/-- which attributes are compared: every part of a dataset except (at most) records_depth — known finding D6;
  the statement stays true if upstream adds it -/
theorem compared_parts_cover : ∀ p ∈ allParts, p ∈ Gen.ComparedParts.comparedParts ∨ p = "records_depth" := by decide

/-- and nothing else than dataset parts is compared -/
theorem compared_parts_are_parts : ∀ p ∈ Gen.ComparedParts.comparedParts, p ∈ allParts := by decide

-- non-vacuity
example : equalTable (fun v w => v == w) (some [(["1", "cam"], "a.jpg")]) (some [(["1", "cam"], "b.jpg")]) = false := by decide
example : equalColl Gen.ComparedParts.setShape (some [("sift", "f32x4", ["a", "b"])]) (some [("sift", "f32x4", ["b", "a", "a"])]) = true := by decide

end Kapture.C08
