/-
  Model/C12.lean — kapture/io/tar.py: a feature archive as an append-only log of (member name, bytes).

  TarHandler keeps `content = {name: member}` built from `getmembers()` in archive order, so a name read back is its
  LAST occurrence; `add_array_to_tar` appends one member (512-byte header + data padded to 512) and flushes.
  A writer killed after k completed appends leaves the first k members (no end-of-archive marker, which readers do not
  need).  The directory form of the same store is the last-wins dictionary of the log.
-/
import Kapture.Base.Dict

namespace Kapture.C12
open Kapture

abbrev Blob := List Nat
abbrev Archive := List (String × Blob)

/-- TarHandler.content[name] then extractfile: the last member with that name -/
def read (a : Archive) (n : String) : Option Blob := (a.reverse.find? (fun e => e.1 == n)).map (·.2)

/-- the directory form: one file per name, holding the latest version -/
def toDir (a : Archive) : List (String × Blob) := a.foldl (fun d e => Dict.set e.1 e.2 d) []

/-- list_files_in_tar: the keys of `content` -/
def names (a : Archive) : List String := Dict.keys (toDir a)

/-- `tar cf`: one member per file, in listing order -/
def pack (files : List (String × Blob)) : Archive := files

def roundUp512 (n : Nat) : Nat := ((n + 511) / 512) * 512

/-- bytes one member occupies: header block + padded data -/
def memberBytes (b : Blob) : Nat := 512 + roundUp512 b.length

/-- length of the archive file while the writer is still open (no end-of-archive blocks yet) -/
def lengthBytes (a : Archive) : Nat := (a.map (fun e => memberBytes e.2)).sum

/-- what is on disk when the writer is killed after its k-th completed append -/
def crashAfter (k : Nat) (a : Archive) : Archive := a.take k

end Kapture.C12
