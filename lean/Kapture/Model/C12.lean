/-
  Model/C12.lean — kapture/io/tar.py: a feature archive as an append-only log of (member name, bytes).

  TarHandler keeps `content = {name: member}` built from `getmembers()` in archive order, so a name read back is its
  LAST occurrence; `add_array_to_tar` appends one member (512-byte header + data padded to 512) and flushes.
  A writer killed after k completed appends leaves the first k members (no end-of-archive marker, which readers do not
  need).  The directory form of the same store is the last-wins dictionary of the log.
-/
import Kapture.Base.Dict

namespace Kapture.C12
open Kapture

abbrev Blob := List Nat
abbrev Archive := List (String × Blob)

/-- TarHandler.content[name] then extractfile: the last member with that name -/
def read (a : Archive) (n : String) : Option Blob := (a.reverse.find? (fun e => e.1 == n)).map (·.2)

/-- the directory form: one file per name, holding the latest version -/
def toDir (a : Archive) : List (String × Blob) := a.foldl (fun d e => Dict.set e.1 e.2 d) []

/-- list_files_in_tar: the keys of `content` -/
def names (a : Archive) : List String := Dict.keys (toDir a)

/-- `tar cf`: one member per file, in listing order -/
def pack (files : List (String × Blob)) : Archive := files

def roundUp512 (n : Nat) : Nat := ((n + 511) / 512) * 512

/-- bytes one member occupies: header block + padded data -/
def memberBytes (b : Blob) : Nat := 512 + roundUp512 b.length

/-- length of the archive file while the writer is still open (no end-of-archive blocks yet) -/
def lengthBytes (a : Archive) : Nat := (a.map (fun e => memberBytes e.2)).sum

/-- what is on disk when the writer is killed after its k-th completed append -/
def crashAfter (k : Nat) (a : Archive) : Archive := a.take k

-- archives made by `tar` / tarfile.add rather than by add_array_to_tar -------------------------------------------------------

/-- a member: data, or a link (two names of one inode are stored once, the second as LNKTYPE naming the first; a symbolic link is
  stored as SYMTYPE).  `hard t`: the bytes are those of the latest member named `t` BEFORE this one; `sym t`: of the latest member
  named `t` in the WHOLE archive (`t` = the link name seen from the link's folder, normalised: the harness does that join).
  `findLatest` is TarFile._getmember, `resolve` is TarFile.extractfile (a search that fails is a KeyError, one that goes round in
  circles a RecursionError: nothing is read), `readL` is TarHandler.get_array_from_tar on the LAST member of the name. -/
inductive Member where
  | data (b : Blob)
  | hard (target : String)
  | sym (target : String)
deriving Repr, DecidableEq

abbrev LArchive := List (String × Member)

def findLatestRev : List (String × Member) → String → Option (Nat × Member)
  | [], _ => none
  | e :: older, n => if e.1 == n then some (older.length, e.2) else findLatestRev older n

def findLatest (a : LArchive) (bound : Nat) (n : String) : Option (Nat × Member) := findLatestRev (a.take bound).reverse n

def resolve (a : LArchive) : Nat → Nat × Member → Option Blob
  | 0, _ => none
  | _ + 1, (_, Member.data b) => some b
  | fuel + 1, (i, Member.hard t) => (findLatest a i t).bind (resolve a fuel)
  | fuel + 1, (_, Member.sym t) => (findLatest a a.length t).bind (resolve a fuel)

def readL (a : LArchive) (n : String) : Option Blob := (findLatest a a.length n).bind (resolve a (a.length + 1))

def plain (a : Archive) : LArchive := a.map (fun e => (e.1, Member.data e.2))


/-- `tar` on a folder whose files are (name, inode): the first name of an inode is stored with the data, every later name of the
  same inode as a hard link to that first name (`seen` : inode ↦ first name) -/
def packStep (content : Nat → Blob) (st : LArchive × List (Nat × String)) (f : String × Nat) : LArchive × List (Nat × String) :=
  match st.2.find? (fun s => s.1 == f.2) with
  | some s => (st.1 ++ [(f.1, Member.hard s.2)], st.2)
  | none => (st.1 ++ [(f.1, Member.data (content f.2))], (f.2, f.1) :: st.2)

def packInodes (content : Nat → Blob) (files : List (String × Nat)) : LArchive := (files.foldl (packStep content) ([], [])).1


end Kapture.C12
