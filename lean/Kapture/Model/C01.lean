/-
  Model/C01.lean — kapture/io/csv.py: kapture_to_dir and every `*_to_file` writer, from a dataset whose leaves are
  already tokens (strings exactly as `str(x)` / `'%.10f' % x` renders them; integers that take part in sorting are `Int`).

  What the model adds to the text layer (Base/Csv.lean): which file each part goes to, the header line, the padding, the
  row order (dict order, or sorted by (timestamp, device) / (point index, keypoints type)) and how nested records are
  flattened into rows.  File names, headers and paddings come from Gen/Headers.lean and Gen/FileNames.lean.
-/
import Kapture.Base.Csv
import Kapture.Gen.Headers
import Kapture.Gen.FileNames

namespace Kapture.C01
open Kapture.Csv

/-- Python's `<=` on str: lexicographic on code points -/
def strLe : Str → Str → Bool
  | [], _ => true
  | _ :: _, [] => false
  | a :: as, b :: bs => a.toNat < b.toNat || (a == b && strLe as bs)

/-- `(ts1, id1) <= (ts2, id2)` on tuples -/
def keyLe (a b : Int × Str) : Bool := a.1 < b.1 || (a.1 == b.1 && strLe a.2 b.2)

def insertBy {α : Type} (le : α → α → Bool) (x : α) : List α → List α
  | [] => [x]
  | y :: ys => if le x y then x :: y :: ys else y :: insertBy le x ys

/-- `sorted(...)` (stable; keys are distinct in a dict, so stability is not observable) -/
def sortBy {α : Type} (le : α → α → Bool) (l : List α) : List α := l.foldr (insertBy le) []

structure Wifi where
  ts : Int
  dev : Str
  signals : List (Str × List Str)     -- BSSID / address ↦ the signal's fields, in dict order

structure Obs where
  idx : Int
  kt : Str
  pairs : List (Str × Str)            -- (image, feature index token), in list order

structure TData where
  sensors : Option (List (List Str))                    -- [id, name or "", type, params...] in dict order
  rigs : Option (List (List Str))                       -- [rig, device, qw..tz] in dict order
  trajectories : Option (List (Int × Str × List Str))   -- (timestamp, device, [qw..tz])
  recordsFile : List (String × List (Int × Str × Str))  -- records_camera / _depth / _lidar ↦ (timestamp, device, path)
  recordsGeneric : List (String × List (Int × Str × List Str))   -- gnss / accelerometer / gyroscope / magnetic
  wifi : Option (List Wifi)
  bluetooth : Option (List Wifi)
  features : List (String × List (String × List Str))   -- keypoints / descriptors / global_features ↦ type ↦ config row
  observations : Option (List Obs)
  points : Option (Bool × List (List Str))              -- (has colours, rows of '%.10f' tokens)

def S (s : String) : Str := s.toList

def headerOf (file : String) : Str :=
  match Gen.Headers.columns.find? (fun e => e.1 == file) with
  | some e => S "# " ++ joinWith commaSpace (e.2.map S)
  | none => S "#"

def paddingOf (file : String) : Option (List Nat) := (Gen.Headers.paddings.find? (fun e => e.1 == file)).map (·.2)

def csvPath (ty : String) : String := ((Gen.FileNames.csvFiles.find? (fun e => e.1 == ty)).map (·.2)).getD ""

def textFile (file : String) (rows : List (List Str)) : Str :=
  renderFile (S Gen.Headers.formatLine) (headerOf file) (paddingOf file) rows

def trajectoryRows (t : List (Int × Str × List Str)) : List (List Str) :=
  (sortBy (fun a b => keyLe (a.1, a.2.1) (b.1, b.2.1)) t).map (fun e => showInt e.1 :: e.2.1 :: e.2.2)

def fileRecordRows (t : List (Int × Str × Str)) : List (List Str) :=
  (sortBy (fun a b => keyLe (a.1, a.2.1) (b.1, b.2.1)) t).map (fun e => [showInt e.1, e.2.1, e.2.2])

def genericRecordRows (t : List (Int × Str × List Str)) : List (List Str) :=
  (sortBy (fun a b => keyLe (a.1, a.2.1) (b.1, b.2.1)) t).map (fun e => showInt e.1 :: e.2.1 :: e.2.2)

def wifiRows (t : List Wifi) : List (List Str) :=
  (sortBy (fun a b => keyLe (a.ts, a.dev) (b.ts, b.dev)) t).flatMap (fun w =>
    w.signals.map (fun s => showInt w.ts :: w.dev :: s.1 :: s.2))

def observationRows (t : List Obs) : List (List Str) :=
  (sortBy (fun a b => keyLe (a.idx, a.kt) (b.idx, b.kt)) t).map (fun o =>
    showInt o.idx :: o.kt :: o.pairs.flatMap (fun p => [p.1, p.2]))

/-- points3d_to_file through numpy.savetxt(fmt='%.10f', delimiter=',', header=...) -/
def pointsFile (colour : Bool) (rows : List (List Str)) : Str :=
  let cols := if colour then Gen.Headers.pointsColumns else Gen.Headers.pointsColumns.take 3
  S Gen.Headers.formatLine ++ nl ++ S "# " ++ joinWith commaSpace (cols.map S) ++ nl ++
    (rows.map (fun r => joinWith [','] r ++ nl)).flatten

def recordType : String → String
  | "records_camera" => "RecordsCamera"
  | "records_depth" => "RecordsDepth"
  | "records_lidar" => "RecordsLidar"
  | "records_gnss" => "RecordsGnss"
  | "records_accelerometer" => "RecordsAccelerometer"
  | "records_gyroscope" => "RecordsGyroscope"
  | "records_magnetic" => "RecordsMagnetic"
  | _ => ""

def baseName (p : String) : String := (p.splitOn "/").getLast!

/-- kapture_to_dir (csv.py:1427-1452): (relative path, content) of every text file written -/
def save (d : TData) : List (String × Str) :=
  let simple (ty : String) (rows : Option (List (List Str))) : List (String × Str) :=
    match rows with
    | none => []
    | some r => [(csvPath ty, textFile (baseName (csvPath ty)) r)]
  simple "Sensors" d.sensors ++ simple "Rigs" d.rigs ++ simple "Trajectories" (d.trajectories.map trajectoryRows) ++
  d.recordsFile.flatMap (fun kr => simple (recordType kr.1) (some (fileRecordRows kr.2))) ++
  simple "RecordsWifi" (d.wifi.map wifiRows) ++ simple "RecordsBluetooth" (d.bluetooth.map wifiRows) ++
  d.recordsGeneric.flatMap (fun kr => simple (recordType kr.1) (some (genericRecordRows kr.2))) ++
  d.features.flatMap (fun kf =>
    kf.2.map (fun tc =>
      let p := ((Gen.FileNames.featureCsvFiles.find? (fun e => e.1 == kf.1)).map (·.2)).getD ""
      (p.replace "/T/" ("/" ++ tc.1 ++ "/"), textFile (baseName p) [tc.2]))) ++
  (match d.points with
   | none => []
   | some (c, rows) => [(csvPath "Points3d", pointsFile c rows)]) ++
  simple "Observations" (d.observations.map observationRows)

end Kapture.C01
