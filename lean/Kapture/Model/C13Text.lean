/-
  Model/C13Text.lean — the TEXT layer of the COLMAP reconstruction files written by
  kapture/converter/colmap/export_colmap_reconstruction.py (cameras.txt, images.txt, points3D.txt) and read back by
  import_colmap_reconstruction.py: lines of blank-separated tokens, tokenised on import by
  `re.findall(r'[^,\s]+', line)`; the image name is the only field that may contain blanks (`' '.join(fields[9:])`).
  Numbers are tokens here (`str(x)` of whatever the exporter holds); what they denote is Model/C13.lean's business.
-/
import Kapture.Base.Csv

namespace Kapture.C13Text
open Kapture.Csv

/-- a character `[^,\s]` does NOT match: a comma or a blank (`\s` on str patterns = str.isspace) -/
def isSep (c : Char) : Bool := c == ',' || isPySpace c

/-- split at EVERY separator character (pieces may be empty) -/
def splitSep : Str → List Str
  | [] => [[]]
  | x :: xs =>
    if isSep x then [] :: splitSep xs
    else match splitSep xs with
      | h :: t => (x :: h) :: t
      | [] => [[x]]

/-- `re.findall(r'[^,\s]+', s)`: the maximal runs of non-separator characters -/
def tokens (s : Str) : List Str := (splitSep s).filter (fun p => !p.isEmpty)

/-- `' '.join(l)` -/
def spaceJoin (l : List Str) : Str := joinWith [' '] l

/-- the first line of an image in images.txt (export_colmap_reconstruction.py:98-99):
  IMAGE_ID QW QX QY QZ TX TY TZ CAMERA_ID NAME -/
def imageLine (id : Int) (pose : List Str) (cam : Int) (name : Str) : Str :=
  spaceJoin ([showInt id] ++ pose ++ [showInt cam, name])

/-- the second line: POINTS2D[] as (X, Y, POINT3D_ID), possibly empty -/
def points2dLine (p2d : List (Str × Str × Str)) : Str := spaceJoin (p2d.flatMap (fun p => [p.1, p.2.1, p.2.2]))

structure ImageEntry where
  id : Int
  pose : List Str        -- qw qx qy qz tx ty tz
  cam : Int
  name : Str
  p2d : List (Str × Str × Str)

/-- every line followed by '\n' -/
def unlines (ls : List Str) : Str := ls.flatMap (fun l => l ++ ['\n'])

def imagesHeaderLines (n : Nat) : List Str :=
  ["# Image list with two lines of data per image:".toList,
   "#   IMAGE_ID, QW, QX, QY, QZ, TX, TY, TZ, CAMERA_ID, NAME".toList,
   "#   POINTS2D[] as (X, Y, POINT3D_ID)".toList,
   "# NB IMAGES : ".toList ++ showInt (Int.ofNat n)]

/-- images.txt: `n` is the number of image records (posed or not), `es` the posed ones, two lines each -/
def imagesTxt (n : Nat) (es : List ImageEntry) : Str :=
  unlines (imagesHeaderLines n ++ es.flatMap (fun e => [imageLine e.id e.pose e.cam e.name, points2dLine e.p2d]))

/-- the lines `readlines()` yields, without their terminator: the exporter writes '\n' only -/
def linesOf (text : Str) : List Str :=
  match (splitOnChar '\n' text).reverse with
  | [] :: rest => rest.reverse        -- the text ends with '\n': no empty last line
  | _ => splitOnChar '\n' text

def isComment (l : Str) : Bool := l.head? == some '#'

def everyOther : List Str → List Str
  | [] => []
  | [a] => [a]
  | a :: _ :: rest => a :: everyOther rest

/-- first pass of import_from_colmap_images_txt (import_colmap_reconstruction.py:76-96) on one line:
  fields[0:9] + [' '.join(fields[9:])] -/
def decodeImageLine (line : Str) : Option (Int × List Str × Int × Str) :=
  let f := tokens (rstrip line)
  if f.length < 9 then none else
  match readInt (f.getD 0 []), readInt (f.getD 8 []) with
  | some id, some cam => some (id, (f.drop 1).take 7, cam, spaceJoin (f.drop 9))
  | _, _ => none

def imagesFirstPass (text : Str) : List (Option (Int × List Str × Int × Str)) :=
  (everyOther ((linesOf text).filter (fun l => !isComment l))).map decodeImageLine

/-- a line of points3D.txt (export_colmap_reconstruction.py:158-172): id x y z r g b 0 then the track -/
def pointLine (i : Nat) (xyz : List Str) (rgb : List Str) (track : List (Int × Int)) : Str :=
  spaceJoin ([showInt (Int.ofNat i)] ++ xyz ++ rgb ++ [['0']] ++ track.flatMap (fun p => [showInt p.1, showInt p.2]))

/-- a line of cameras.txt (export_colmap_reconstruction.py:46-50): CAMERA_ID MODEL WIDTH HEIGHT PARAMS[] -/
def cameraLine (id : Int) (model : Str) (w h : Str) (params : List Str) : Str :=
  spaceJoin ([showInt id, model, w, h] ++ params)

end Kapture.C13Text
