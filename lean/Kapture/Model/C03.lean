/-
  Model/C03.lean — kapture/io/binary.py (array_to_file / array_from_file), kapture/io/tar.py (add_array_to_tar /
  get_array_from_tar) and the path arithmetic of kapture/io/features.py.

  An array is its shape and the list of its elements' BIT PATTERNS in row-major order (so NaN payloads, -0.0 and
  integers are all just naturals below 2^(8·item)); the file is the little-endian dump the format specifies.
  Names and paths are `List Char` so that the inverse maps are plain `take`/`drop`.
-/
import Kapture.Gen.FileNames
import Kapture.Gen.SpecPaths

namespace Kapture.C03

/-- the `item` bytes of one element, least significant first -/
def encodeElem : Nat → Nat → List Nat
  | 0, _ => []
  | k + 1, v => (v % 256) :: encodeElem k (v / 256)

/-- `ndarray.astype('<..').tofile` / `.tobytes()`: row-major, little-endian, no header -/
def encode (item : Nat) (elems : List Nat) : List Nat := elems.flatMap (encodeElem item)

def decodeElem : List Nat → Nat
  | [] => 0
  | b :: bs => b + 256 * decodeElem bs

/-- cut a byte list into `item`-sized elements (`np.fromfile` / `np.frombuffer` with a dtype); fuel = length -/
def chunks (item : Nat) : Nat → List Nat → List (List Nat)
  | 0, _ => []
  | fuel + 1, bs => if bs.isEmpty || item = 0 then [] else bs.take item :: chunks item fuel (bs.drop item)

/-- `np.fromfile(file, dtype)`: a trailing partial element is silently dropped by numpy.fromfile; frombuffer raises.
  Both are modelled as `none` (the writer never produces such a file). -/
def decode (item : Nat) (bytes : List Nat) : Option (List Nat) :=
  if item = 0 then none
  else if bytes.length % item ≠ 0 then none
  else some ((chunks item bytes.length bytes).map decodeElem)

/-- `.reshape((-1, dsize))`: number of rows, or `none` for numpy's ValueError -/
def reshapeRows (dsize : Nat) (n : Nat) : Option Nat :=
  if dsize = 0 then none else if n % dsize ≠ 0 then none else some (n / dsize)

structure Arr where
  item : Nat          -- bytes per element
  rows : Nat
  cols : Nat
  bits : List Nat     -- rows * cols bit patterns, row-major
deriving DecidableEq, Repr

/-- array_to_file -/
def toFile (a : Arr) : List Nat := encode a.item a.bits

/-- array_from_file(filepath, dtype, dsize) -/
def fromFile (item dsize : Nat) (bytes : List Nat) : Option Arr :=
  match decode item bytes with
  | none => none
  | some els =>
    match reshapeRows dsize els.length with
    | none => none
    | some r => some { item := item, rows := r, cols := dsize, bits := els }

-- paths ---------------------------------------------------------------------------------------------------------------

abbrev Str := List Char

def sl : Str := ['/']

/-- get_features_fullpath(kind, type, root, image): root/<dir>/<type>/<image><ext> (all parts already normalised) -/
def featurePath (root dir ty image ext : Str) : Str := root ++ sl ++ dir ++ sl ++ ty ++ sl ++ image ++ ext

/-- the member name inside keypoints.tar etc.: <image><ext> -/
def tarMember (image ext : Str) : Str := image ++ ext

/-- image_ids_from_feature_dirpath: path relative to root/<dir>/<type>, extension cut by length -/
def imageOfRelative (rel ext : Str) : Str := rel.take (rel.length - ext.length)

def relativeOf (root dir ty path : Str) : Str := path.drop ((root ++ sl ++ dir ++ sl ++ ty ++ sl).length)

/-- get_matches_fullpath: <a><sep>/<b><ext> under root/<dir>/<keypoints type> -/
def matchRelative (a b sep ext : Str) : Str := a ++ sep ++ sl ++ b ++ ext

/-- first position at which `pat` occurs in `s` (fuel = length) -/
def findSub (pat : Str) : Nat → Str → Option Nat
  | 0, s => if pat.isPrefixOf s then some 0 else none
  | fuel + 1, s =>
    if pat.isPrefixOf s then some 0 else
    match s with
    | [] => none
    | _ :: t => (findSub pat fuel t).map (· + 1)

/-- `str.split(sep)`: all pieces between non-overlapping occurrences, scanning left to right (fuel = length) -/
def splitOn (pat : Str) : Nat → Str → List Str
  | 0, s => [s]
  | fuel + 1, s =>
    if pat.isEmpty then [s] else
    match findSub pat s.length s with
    | none => [s]
    | some i => s.take i :: splitOn pat fuel (s.drop (i + pat.length))

/-- _matches_filenames_remove_extensions_and_cut: cut the extension by length, split on `<sep>/`, keep 2-piece results -/
def pairOfRelative (rel sep ext : Str) : Option (Str × Str) :=
  let stem := rel.take (rel.length - ext.length)
  match splitOn (sep ++ sl) stem.length stem with
  | [a, b] => some (a, b)
  | _ => none

end Kapture.C03
