/-
  Model/C01Points.lean — the number format of reconstruction/points3d.txt: every coordinate and colour is written by
  numpy.savetxt with fmt '%.<d>f' (d = Gen.Headers.pointsDecimals, regenerated from points3d_to_file) and read back by
  numpy.loadtxt.  A written number is a whole count n of 10^-d units NEAREST to the value (whatever the tie rule); reading gives
  n / 10^d.  Exact rationals: every finite double IS a rational; the double nearest to n / 10^d which loadtxt returns is not
  modelled (a relative 2^-53 on top of the 10^-d grid, see TRUSTED of harness/c01.py).  No Mathlib here: the driver runs this.
-/
import Kapture.Base.Csv
import Kapture.Gen.Headers

namespace Kapture.C01
open Kapture.Csv

/-- 10^d as a rational -/
def scale (d : Nat) : Rat := ((10 ^ d : Nat) : Rat)

/-- `n` is AN integer nearest to `x · 10^d` (ties may go either way: the statement does not depend on the rounding rule) -/
def Nearest (d : Nat) (x : Rat) (n : Int) : Prop := -(1 / 2 : Rat) ≤ x * scale d - (n : Rat) ∧ x * scale d - (n : Rat) ≤ 1 / 2

instance (d : Nat) (x : Rat) (n : Int) : Decidable (Nearest d x n) := by unfold Nearest; exact inferInstance

/-- the value a written count of units reads back to -/
def readUnits (d : Nat) (n : Int) : Rat := (n : Rat) / scale d

/-- a token `[-]III.FFF` with exactly `d` digits after the point, as its count of 10^-d units -/
def unitsOfToken (d : Nat) (tok : Str) : Option Int :=
  let neg := tok.head? == some '-'
  let body := if neg then tok.drop 1 else tok
  match splitOnChar '.' body with
  | [i, f] =>
    if f.length = d then
      match readNat i, readNat f with
      | some a, some b => some (if neg then -((a * 10 ^ d + b : Nat) : Int) else ((a * 10 ^ d + b : Nat) : Int))
      | _, _ => none
    else none
  | _ => none

/-- is `tok` an acceptable rendering of `x` with the generated number of decimals? (what the driver answers) -/
def tokenNearest (x : Rat) (tok : Str) : Bool :=
  match unitsOfToken Gen.Headers.pointsDecimals tok with
  | some n => decide (Nearest Gen.Headers.pointsDecimals x n)
  | none => false

end Kapture.C01
