/-
  Model/C04.lean — kapture/io/csv.py: kapture_from_dir and the filters of the per-file readers, on parsed rows.

  Input: what the directory holds after the text layer (Base/Csv.lean): the version found on the first line of
  sensors.txt, the rows of each text file (as the typed tuples the readers destructure), and for each feature kind the
  types that have a descriptor file together with the data files present on disk (or listed in the tar).
  Output: the loaded dataset, or the exception class.
  Payloads (poses, record values, configurations) are opaque tokens.  Files are assumed to hold each key once
  (a repeated key is a dict overwrite in the code: the last row wins; outside this model).
-/
import Kapture.Gen.Headers

namespace Kapture.C04

abbrev Tok := String

structure Dir where
  version : Option String                                  -- get_version_from_csv_file(sensors.txt)
  sensors : List (String × String × Tok)                   -- (sensor_id, sensor_type, rest of the row)
  rigs : Option (List (String × String × Tok))             -- (rig_id, member, pose)          none = file absent
  trajectories : Option (List (Int × String × Tok))        -- (timestamp, device, pose)
  records : List (String × List (Int × String × Tok))      -- records file kind ↦ rows; a missing kind = file absent
  keypoints : Option (List (String × Tok × List String))   -- type ↦ (config, images having a data file)   none = no folder
  descriptors : Option (List (String × Tok × List String))
  globalFeatures : Option (List (String × Tok × List String))
  matchSets : Option (List (String × List (String × String)))   -- keypoints type ↦ pairs found on disk
  points3d : Option Tok
  observations : Option (List (Int × String × String × Int))  -- (point index, keypoints type, image, feature index)

structure Loaded where
  version : String
  sensors : List (String × String × Tok)
  rigs : Option (List (String × String × Tok))
  trajectories : Option (List (Int × String × Tok))
  records : List (String × List (Int × String × Tok))
  keypoints : Option (List (String × Tok × List String))
  descriptors : Option (List (String × Tok × List String))
  globalFeatures : Option (List (String × Tok × List String))
  matchSets : Option (List (String × List (String × String)))
  points3d : Option Tok
  observations : Option (List (Int × String × String × Int))

inductive Err where
  | typeError          -- float(None): sensors.txt has no version line
  | newerVersion       -- "unable to load version over ..." (raised as FileNotFoundError)
  | collision          -- a rig id is also a sensor id (ValueError)
  | assertion          -- features without records_camera, observations without keypoints / points3d
deriving DecidableEq, Repr

/-- the sensor_type a records file is filtered with (csv.py:1599-1680) -/
def kindOfRecords : List (String × String) :=
  [("records_camera", "camera"), ("records_depth", "depth"), ("records_lidar", "lidar"), ("records_wifi", "wifi"),
   ("records_bluetooth", "bluetooth"), ("records_gnss", "gnss"), ("records_accelerometer", "accelerometer"),
   ("records_gyroscope", "gyroscope"), ("records_magnetic", "magnetic")]

/-- "major.minor" as (major, minor digits) for the decimal comparison `float(v) > float(current)` -/
def parseVersion (v : String) : Option (Nat × List Nat) :=
  match v.splitOn "." with
  | [a, b] => do
      let ma ← a.toNat?
      if b.isEmpty || !b.all Char.isDigit then none else
      some (ma, b.toList.map (fun c => c.toNat - 48))
  | _ => none

/-- compare two digit lists as decimal fractions 0.d1d2... -/
def fracGt : List Nat → List Nat → Bool
  | [], _ => false
  | x :: xs, [] => x > 0 || fracGt xs []
  | x :: xs, y :: ys => x > y || (x == y && fracGt xs ys)

def versionGt (v cur : String) : Bool :=
  match parseVersion v, parseVersion cur with
  | some (a, fa), some (b, fb) => a > b || (a == b && fracGt fa fb)
  | _, _ => false

def sensorIds (d : Dir) : List String := d.sensors.map (·.1)

def idsOfType (d : Dir) (ty : String) : List String := (d.sensors.filter (fun s => s.2.1 == ty)).map (·.1)

/-- rigs_from_file (csv.py:332-366): collision check, then members that are neither sensors nor rigs are dropped -/
def loadRigs (d : Dir) (rows : List (String × String × Tok)) : Except Err (List (String × String × Tok)) :=
  if rows.any (fun r => (sensorIds d).contains r.1) then Except.error Err.collision else
  let rigIds := rows.map (·.1)
  Except.ok (rows.filter (fun r => (sensorIds d).contains r.2.1 || rigIds.contains r.2.1))

def filterDevices (ids : List String) (rows : List (Int × String × Tok)) : List (Int × String × Tok) :=
  rows.filter (fun r => ids.contains r.2.1)

/-- _load_all_records: each file is filtered with the sensors of its own type; GNSS records are dropped
  altogether (the part stays unset) when no gnss sensor is declared -/
def loadRecords (d : Dir) : List (String × List (Int × String × Tok)) :=
  d.records.filterMap (fun kr =>
    match kindOfRecords.find? (fun e => e.1 == kr.1) with
    | none => none
    | some e =>
      let ids := idsOfType d e.2
      if kr.1 == "records_gnss" && ids.isEmpty then none else some (kr.1, filterDevices ids kr.2))

/-- keypoints_from_dir etc. with images_paths = the loaded image names: keep the listed images having a data file -/
def loadFeatures (images : List String) (c : Option (List (String × Tok × List String))) :
    Option (List (String × Tok × List String)) :=
  match c with
  | none => none
  | some [] => none                 -- folder without any described type: attribute stays unset
  | some ts => some (ts.map (fun t => (t.1, t.2.1, t.2.2.filter (fun n => images.contains n))))

def loadMatches (images : List String) (c : Option (List (String × List (String × String)))) :
    Option (List (String × List (String × String))) :=
  match c with
  | none => none
  | some [] => none
  | some ts => some (ts.map (fun t => (t.1, t.2.filter (fun p => images.contains p.1 && images.contains p.2))))

/-- observations_from_file with loaded_keypoints: the type must be loaded with a non-empty image set containing the image -/
def loadObservations (kps : List (String × Tok × List String)) (rows : List (Int × String × String × Int)) :
    List (Int × String × String × Int) :=
  rows.filter (fun o =>
    match kps.find? (fun t => t.1 == o.2.1) with
    | none => false
    | some t => !t.2.2.isEmpty && t.2.2.contains o.2.2.1)

/-- kapture_from_dir (csv.py:1480-1578) -/
def loadDir (cur : String) (d : Dir) : Except Err Loaded :=
  match d.version with
  | none => Except.error Err.typeError
  | some v =>
    if versionGt v cur then Except.error Err.newerVersion else
    match (match d.rigs with
      | none => Except.ok none
      | some rows => (loadRigs d rows).map some) with
    | Except.error e => Except.error e
    | Except.ok rigs =>
      -- `sensor_ids.update(kapture_data.rigs.keys())`: a rig keeps its key even when all its members were dropped
      let rigIds := (d.rigs.getD []).map (·.1)
      let deviceIds := sensorIds d ++ rigIds
      let traj := d.trajectories.map (filterDevices deviceIds)
      let recs := loadRecords d
      let base : Loaded := { version := v, sensors := d.sensors, rigs := rigs, trajectories := traj, records := recs,
                             keypoints := none, descriptors := none, globalFeatures := none, matchSets := none,
                             points3d := none, observations := none }
      if v != cur then Except.ok base else
      let camera := (recs.find? (fun kr => kr.1 == "records_camera")).map (·.2)
      let needsCamera := d.keypoints.isSome || d.descriptors.isSome || d.globalFeatures.isSome || d.matchSets.isSome
      if needsCamera && camera.isNone then Except.error Err.assertion else
      let images := (camera.getD []).map (·.2.2)
      let kps := loadFeatures images d.keypoints
      let withFeat : Loaded := { base with keypoints := kps, descriptors := loadFeatures images d.descriptors,
                                           globalFeatures := loadFeatures images d.globalFeatures,
                                           matchSets := loadMatches images d.matchSets, points3d := d.points3d }
      match d.observations with
      | none => Except.ok withFeat
      | some rows =>
        match kps, d.points3d with
        | some k, some _ => Except.ok { withFeat with observations := some (loadObservations k rows) }
        | _, _ => Except.error Err.assertion

end Kapture.C04
