/-
  Model/C20.lean — kapture/utils/upgrade.py (upgrade_1_0_to_1_1_inplace) and tools/kapture_upgrade_1_0_to_1_1.py
  (upgrade_1_0_to_1_1, the copy route) as file-tree transformers.

  A tree is a list of (relative path, content); text files are lists of lines, data files opaque blob ids.
  Both routes share `targets`: which files the 1.1 dataset must hold and with what content.  The copy route writes them
  into an empty directory; the in-place route rewrites text files where they are and MOVES data files one by one into the
  `<type>/` sub-folder of their own folder — deepest paths first (the D20 fix), so that a moved file never lands on a
  file that is still to be moved.
-/
import Kapture.Base.Dict
import Kapture.Base.Csv
import Kapture.Gen.Headers
import Kapture.Gen.DtypeNames

namespace Kapture.C20
open Kapture

inductive Content where
  | text (lines : List String)
  | blob (id : Nat)
deriving DecidableEq, Repr

abbrev Tree := List (String × Content)

structure Params where
  kp : Option String
  desc : Option String
  gf : Option String
  descMetric : String
  gfMetric : String

/-- CSV_FILENAMES_1_0 (upgrade.py:21-34) -/
def tables10 : List String :=
  ["sensors/sensors.txt", "sensors/trajectories.txt", "sensors/rigs.txt", "sensors/records_camera.txt",
   "sensors/records_depth.txt", "sensors/records_lidar.txt", "sensors/records_wifi.txt", "sensors/records_bluetooth.txt",
   "sensors/records_gnss.txt", "sensors/records_accelerometer.txt", "sensors/records_gyroscope.txt",
   "sensors/records_magnetic.txt", "reconstruction/points3d.txt"]

/-- get_version_from_header on a first line: `# kapture format: <digits>.<digits>` -/
def isVersionLine (l : String) : Bool :=
  l.startsWith "# kapture format:" &&
    (let v := (l.drop "# kapture format:".length).trimAscii.toString
     match v.splitOn "." with
     | a :: b :: _ => !a.isEmpty && a.all Char.isDigit && !(b.takeWhile Char.isDigit).isEmpty
     | _ => false)

/-- the unchanged tables: the version line (when there is one) is replaced, everything else is kept (upgrade.py:64-77) -/
def upgradeTable (lines : List String) : List String :=
  match lines with
  | l :: rest => if isVersionLine l then Gen.Headers.formatLine :: rest else Gen.Headers.formatLine :: l :: rest
  | [] => [Gen.Headers.formatLine]

def count (c : Char) (s : String) : Nat := (s.toList.filter (· == c)).length

/-- first data row of a descriptor file (table_from_file, first row) -/
def firstRow (lines : List String) : Option (List String) :=
  ((lines.filter (fun l => !(Csv.strip l.toList).isEmpty && !l.startsWith "#")).head?).map
    (fun l => (Csv.parseLine l.toList).map String.ofList)

/-- dtype_from_name, as the generated finite table -/
def dtypeName (s : String) : Option String := (Gen.DtypeNames.accepted.find? (fun e => e.1 == s)).map (·.2)

/-- read_old_image_features_csv (after the D22 fix): the name must be a single path component -/
def nameOK (n : String) : Bool := !(n.contains '/') && !(n.contains '\\') && n != "." && n != ".."

def cfgLines (header : String) (row : List String) : List String :=
  [Gen.Headers.formatLine, header, ", ".intercalate row]

structure Move where
  src : String
  dst : String
deriving Repr

/-- the data files of one folder, deepest first (upgrade.py: `filenames.sort(key=lambda f: f.count('/'), reverse=True)`) -/
def insertByDepth (m : String) : List String → List String
  | [] => [m]
  | x :: xs => if count '/' m ≥ count '/' x then m :: x :: xs else x :: insertByDepth m xs

def deepestFirst (rels : List String) : List String := rels.foldr insertByDepth []

/-- files of `t` under `dir/` with extension `ext`, as paths relative to `dir` -/
def filesUnder (t : Tree) (dir ext : String) : List String :=
  t.filterMap (fun e => if e.1.startsWith (dir ++ "/") && e.1.endsWith ext then some (e.1.drop (dir.length + 1)).toString else none)

/-- one feature folder: new descriptor file + the moves of its data files -/
structure FolderPlan where
  newCfg : Option (String × List String)     -- path and lines of the 1.1 descriptor file
  oldCfg : Option String                      -- the 1.0 descriptor file to remove
  moves : List Move
  side : List Move := []                      -- side files the in-place route moves along (extract_*.json, run_matching.json)

/-- the rows of the 1.0 observations file as (point index, [image, feature, image, feature, ...]): rows with fewer than two
  fields after the index carry no observation (`if len(pairs) > 1`), a trailing unpaired field is dropped by `zip` -/
def observationEntries (lines : List String) : List (Int × List String) :=
  let rows := (lines.filter (fun l => !(Csv.strip l.toList).isEmpty && !l.startsWith "#")).map
    (fun l => (Csv.parseLine l.toList).map String.ofList)
  rows.filterMap (fun r =>
    match r with
    | idx :: pairs =>
      match (Csv.readInt idx.toList) with
      | some i => if pairs.length > 1 then some (i, pairs.take (2 * (pairs.length / 2))) else none
      | none => none
    | [] => none)

/-- `observations.add(point, type, image, feature)` row after row: the pairs of a point accumulate in file order -/
def groupStep (acc : List (Int × List String)) (e : Int × List String) : List (Int × List String) :=
  match Dict.get? e.1 acc with
  | some ps => Dict.set e.1 (ps ++ e.2) acc
  | none => Dict.set e.1 e.2 acc

def groupEntries (entries : List (Int × List String)) : List (Int × List String) := entries.foldl groupStep []

def insertGroup (g : Int × List String) : List (Int × List String) → List (Int × List String)
  | [] => [g]
  | h :: t => if g.1 ≤ h.1 then g :: h :: t else h :: insertGroup g t

/-- observations_to_file writes the points sorted by index -/
def sortGroups (l : List (Int × List String)) : List (Int × List String) := l.foldr insertGroup []

def renderGroup (ty : String) (g : Int × List String) : String :=
  ", ".intercalate ((String.ofList (Csv.showInt g.1)) :: ty :: g.2)

/-- observations.txt: rows `idx, [image, feature]*` regrouped by point index, labelled with the keypoints type, written
  sorted by index (observations_to_file) -/
def relabelObservations (ty : String) (lines : List String) : List String :=
  [Gen.Headers.formatLine, "# point3d_id, keypoints_type, [image_path, feature_id]*"] ++
    (sortGroups (groupEntries (observationEntries lines))).map (renderGroup ty)

inductive Err where
  | assertion (what : String)
  | valueError (what : String)
deriving Repr

structure Plan where
  tables : List (String × List String)           -- rewritten text files (path, lines)
  folders : List FolderPlan                      -- keypoints, descriptors, matches, global features (in that order)
  observations : Option (List String)

def textOf (t : Tree) (p : String) : Option (List String) :=
  match Dict.get? p t with
  | some (Content.text ls) => some ls
  | _ => none

def hasDir (t : Tree) (dir : String) : Bool := t.any (fun e => e.1.startsWith (dir ++ "/"))

/-- what both routes compute from the 1.0 tree -/
def plan (p : Params) (t : Tree) : Except Err Plan := do
  let tables := tables10.filterMap (fun f => (textOf t f).map (fun ls => (f, upgradeTable ls)))
  -- keypoints
  let kdir := "reconstruction/keypoints"
  let (kpType, kplan) ← (match textOf t (kdir ++ "/keypoints.txt") with
    | none => pure (p.kp, (none : Option FolderPlan))
    | some ls =>
      match firstRow ls with
      | some [name, dt, ds] =>
        if !nameOK name then throw (Err.valueError name) else
        match dtypeName dt with
        | none => throw (Err.valueError dt)
        | some dtn =>
          let ty := p.kp.getD name
          if p.kp.isNone && name.isEmpty then throw (Err.assertion "name") else
          pure (some ty, some { newCfg := some (kdir ++ "/" ++ ty ++ "/keypoints.txt", cfgLines "# name, dtype, dsize" [name, dtn, ds]),
                                oldCfg := some (kdir ++ "/keypoints.txt"),
                                moves := (deepestFirst (filesUnder t kdir ".kpt")).map (fun r => ⟨kdir ++ "/" ++ r, kdir ++ "/" ++ ty ++ "/" ++ r⟩),
                                side := [⟨kdir ++ "/extract_local_features.json", kdir ++ "/" ++ ty ++ "/extract_local_features.json"⟩] })
      | _ => throw (Err.assertion "keypoints.txt row"))
  -- descriptors
  let ddir := "reconstruction/descriptors"
  let dplan ← (match textOf t (ddir ++ "/descriptors.txt") with
    | none => pure (none : Option FolderPlan)
    | some ls =>
      match kpType, firstRow ls with
      | none, _ => throw (Err.assertion "keypoints_type")
      | some kt, some [name, dt, ds] =>
        if !nameOK name then throw (Err.valueError name) else
        match dtypeName dt with
        | none => throw (Err.valueError dt)
        | some dtn =>
          let ty := p.desc.getD name
          if p.desc.isNone && name.isEmpty then throw (Err.assertion "name") else
          pure (some { newCfg := some (ddir ++ "/" ++ ty ++ "/descriptors.txt",
                                       cfgLines "# name, dtype, dsize, keypoints_type, metric_type" [name, dtn, ds, kt, p.descMetric]),
                       oldCfg := some (ddir ++ "/descriptors.txt"),
                       moves := (deepestFirst (filesUnder t ddir ".desc")).map (fun r => ⟨ddir ++ "/" ++ r, ddir ++ "/" ++ ty ++ "/" ++ r⟩) })
      | _, _ => throw (Err.assertion "descriptors.txt row"))
  -- matches
  let mdir := "reconstruction/matches"
  let mplan ← (if hasDir t mdir then
      match kpType with
      | none => throw (Err.assertion "keypoints_type")
      | some kt => pure (some ({ newCfg := none, oldCfg := none,
                                 moves := (deepestFirst (filesUnder t mdir ".matches")).map (fun r => ⟨mdir ++ "/" ++ r, mdir ++ "/" ++ kt ++ "/" ++ r⟩),
                                 side := [⟨mdir ++ "/run_matching.json", mdir ++ "/" ++ kt ++ "/run_matching.json"⟩] } : FolderPlan))
    else pure none)
  -- global features
  let gdir := "reconstruction/global_features"
  let gplan ← (match textOf t (gdir ++ "/global_features.txt") with
    | none => pure (none : Option FolderPlan)
    | some ls =>
      match firstRow ls with
      | some [name, dt, ds] =>
        if !nameOK name then throw (Err.valueError name) else
        match dtypeName dt with
        | none => throw (Err.valueError dt)
        | some dtn =>
          let ty := p.gf.getD name
          if p.gf.isNone && name.isEmpty then throw (Err.assertion "name") else
          pure (some { newCfg := some (gdir ++ "/" ++ ty ++ "/global_features.txt",
                                       cfgLines "# name, dtype, dsize, metric_type" [name, dtn, ds, p.gfMetric]),
                       oldCfg := some (gdir ++ "/global_features.txt"),
                       moves := (deepestFirst (filesUnder t gdir ".gfeat")).map (fun r => ⟨gdir ++ "/" ++ r, gdir ++ "/" ++ ty ++ "/" ++ r⟩),
                       side := [⟨gdir ++ "/extract_global_features.json", gdir ++ "/" ++ ty ++ "/extract_global_features.json"⟩] })
      | _ => throw (Err.assertion "global_features.txt row"))
  let obs ← (match textOf t "reconstruction/observations.txt" with
    | none => pure none
    | some ls =>
      match kpType with
      | none => throw (Err.assertion "keypoints_type")
      | some kt => pure (some (relabelObservations kt ls)))
  pure { tables := tables, folders := [kplan, dplan, mplan, gplan].filterMap id, observations := obs }

/-- shutil.move of one file inside the tree: the source disappears, the destination is created or replaced -/
def moveFile (t : Tree) (m : Move) : Tree :=
  match Dict.get? m.src t with
  | some c => Dict.set m.dst c (Dict.erase m.src t)
  | none => t

def putText (t : Tree) (p : String) (ls : List String) : Tree := Dict.set p (Content.text ls) t

/-- upgrade_1_0_to_1_1_inplace -/
def upgradeInplace (p : Params) (t : Tree) : Except Err Tree := do
  let pl ← plan p t
  let t := pl.tables.foldl (fun t e => putText t e.1 e.2) t
  let t := pl.folders.foldl (fun t f =>
    let t := match f.oldCfg with
      | some c => Dict.erase c t
      | none => t
    let t := match f.newCfg with
      | some c => putText t c.1 c.2
      | none => t
    (f.side ++ f.moves).foldl moveFile t) t
  pure (match pl.observations with
    | some ls => putText t "reconstruction/observations.txt" ls
    | none => t)

/-- upgrade_1_0_to_1_1 into an empty output directory (records data are handled by the transfer strategy, outside) -/
def upgradeCopy (p : Params) (t : Tree) : Except Err Tree := do
  let pl ← plan p t
  let out : Tree := pl.tables.foldl (fun o e => putText o e.1 e.2) []
  let out := pl.folders.foldl (fun o f =>
    let o := match f.newCfg with
      | some c => putText o c.1 c.2
      | none => o
    f.moves.foldl (fun o m => match Dict.get? m.src t with
      | some c => Dict.set m.dst c o
      | none => o) o) out
  pure (match pl.observations with
    | some ls => putText out "reconstruction/observations.txt" ls
    | none => out)

end Kapture.C20
