/-
  Model/C18.lean — kapture/converter/downloader/archives.py: untar_file, i.e. `TarFile.extract(member, path,
  set_attrs=False, filter='data')` member by member (the D15 fix), on a file tree with symbolic links.

  Paths are lists of components.  `dest` is the absolute path of the install directory; only the tree below `dest` is
  modelled (everything above it consists of plain directories).  `realpath` follows the links of the modelled tree
  (fuel-bounded, like the kernel's ELOOP limit).  The filter rules are those of tarfile._get_filtered_attrs (CPython 3.12):
  leading '/' stripped, resolved destination inside `dest`, no special files, link targets relative and resolving inside.
  Before the filter, untar_file refuses any member name with a `..` component (the D29 fix).

  WRITES.  Every site where the real code creates or replaces a file-system entry computes the PHYSICAL absolute path the
  kernel would use (independently of what the filter vetted) and goes through `writeAt`: a path that is not strictly
  below `dest` yields `Verdict.escaped` — the model then stops, it does not describe the world outside `dest` (where only
  the ancestors of `dest` exist, as plain directories).  Props/C18.lean proves that `escaped` is unreachable.
-/
namespace Kapture.C18

inductive Node where
  | file (id : Nat)
  | dir
  | link (target : String)
deriving DecidableEq, Repr

abbrev Path := List String
abbrev FS := List (Path × Node)        -- paths relative to dest; dest itself is the empty path (a directory)

inductive Kind where
  | file | dir | sym | hard | special
deriving DecidableEq, Repr

structure Member where
  kind : Kind
  name : String
  linkname : String
  content : Nat
deriving Repr

def split (s : String) : List String := s.splitOn "/"

def lookup (fs : FS) (p : Path) : Option Node := if p.isEmpty then some Node.dir else (fs.find? (fun e => e.1 == p)).map (·.2)

def isPrefix (a b : Path) : Bool := a.length ≤ b.length && b.take a.length == a

/-- os.path.realpath (strict=False) of an absolute path given as (already resolved prefix, components still to process) -/
def realpath (dest : Path) (fs : FS) : Nat → Path → List String → Option Path
  | 0, _, _ => none                                       -- too many levels of symbolic links
  | _ + 1, cur, [] => some cur
  | fuel + 1, cur, c :: rest =>
    if c == "" || c == "." then realpath dest fs fuel cur rest
    else if c == ".." then realpath dest fs fuel (cur.dropLast) rest
    else
      let p := cur ++ [c]
      let node := if isPrefix dest p then lookup fs (p.drop dest.length) else none
      match node with
      | some (Node.link t) =>
        if t.startsWith "/" then realpath dest fs fuel [] (split t ++ rest)
        else realpath dest fs fuel cur (split t ++ rest)
      | _ => realpath dest fs fuel p rest

def FUEL : Nat := 200

/-- the kernel's path walk (what os.path.exists / open follow): every component must exist; `..` is the parent of the
  directory actually reached; ancestors of dest are plain directories -/
def kresolve (dest : Path) (fs : FS) : Nat → Path → List String → Option Path
  | 0, _, _ => none
  | _ + 1, cur, [] => some cur
  | fuel + 1, cur, c :: rest =>
    if c == "" || c == "." then kresolve dest fs fuel cur rest
    else if c == ".." then kresolve dest fs fuel cur.dropLast rest
    else
      let p := cur ++ [c]
      if !isPrefix dest p then (if isPrefix p dest then kresolve dest fs fuel p rest else none)
      else match lookup fs (p.drop dest.length) with
        | none => none
        | some (Node.link t) =>
          if t.startsWith "/" then kresolve dest fs fuel [] (split t ++ rest) else kresolve dest fs fuel cur (split t ++ rest)
        | some Node.dir => kresolve dest fs fuel p rest
        | some (Node.file _) => if rest.all (fun x => x == "" || x == ".") then kresolve dest fs fuel p rest else none

inductive Verdict where
  | ok (fs : FS)
  | filterError (why : String)      -- tarfile.FilterError: extraction stops with an exception, nothing touched
  | osError (fs : FS) (why : String)   -- a fatal OSError / KeyError: extraction stops; directories already made stay
  | skipped (fs : FS)               -- a non-fatal ExtractError (unresolvable hard link): logged, extraction goes on
  | unmodelled                      -- hard-link fallbacks of tarfile that this model does not describe
  | escaped (p : Path)              -- an entry would be created or replaced at `p`, which is not strictly below dest
deriving Repr, DecidableEq

def setNode (fs : FS) (p : Path) (n : Node) : FS :=
  if fs.any (fun e => e.1 == p) then fs.map (fun e => if e.1 == p then (p, n) else e) else fs ++ [(p, n)]

def eraseNode (fs : FS) (p : Path) : FS := fs.filter (fun e => e.1 != p)

def stripSlashes (s : String) : String := (s.dropWhile (· == '/')).toString

def rel (dest p : Path) : Path := p.drop dest.length

/-- does the (resolved, absolute) path exist as a directory?  Ancestors of dest are plain directories. -/
def isDirAt (dest : Path) (fs : FS) (p : Path) : Bool :=
  if isPrefix dest p then lookup fs (rel dest p) == some Node.dir else isPrefix p dest

/-- strictly below dest -/
def strictInside (dest p : Path) : Bool := isPrefix dest p && decide (dest.length < p.length)

/-- what stands at an absolute path: the modelled tree below dest, plain directories for the ancestors of dest, nothing
  elsewhere -/
def existsAbs (dest : Path) (fs : FS) (p : Path) : Option Node :=
  if isPrefix dest p then lookup fs (rel dest p) else if isPrefix p dest then some Node.dir else none

/-- create or replace the entry at the absolute path `q` -/
def writeAt (dest : Path) (fs : FS) (q : Path) (n : Node) : Verdict :=
  if strictInside dest q then Verdict.ok (setNode fs (rel dest q) n) else Verdict.escaped q

inductive WalkErr where
  | os (fs : FS) (why : String)
  | escaped (p : Path)

structure Walk where
  fs : FS
  cur : Path            -- resolved absolute path reached so far
  creating : Bool       -- os.makedirs has started creating directories

/-- `os.makedirs(upperdirs)` as tarfile calls it (only when upperdirs does not exist), component by component on the
  LITERAL path: an existing directory (or link to one) is entered, a missing component is created, `..` after a created
  component is the FileExistsError of `mkdir('a/..')`, a file or a dangling link in the way is an error -/
def walkStep (dest : Path) (w : Walk) (c : String) : Except WalkErr Walk :=
  if c == "" || c == "." then Except.ok w
  else if c == ".." then
    if w.creating then Except.error (WalkErr.os w.fs "FileExistsError") else Except.ok { w with cur := w.cur.dropLast }
  else
    let lit := w.cur ++ [c]
    match existsAbs dest w.fs lit with
    | none =>
      -- mkdir: the one place where directories are made on the way to a member
      if strictInside dest lit then Except.ok { fs := setNode w.fs (rel dest lit) Node.dir, cur := lit, creating := true }
      else Except.error (WalkErr.escaped lit)
    | some Node.dir => Except.ok { w with cur := lit }
    | some (Node.file _) => Except.error (WalkErr.os w.fs "NotADirectoryError")
    | some (Node.link _) =>
      match kresolve dest w.fs FUEL w.cur [c] with
      | some p => if isDirAt dest w.fs p then Except.ok { w with cur := p } else Except.error (WalkErr.os w.fs "NotADirectoryError")
      | none => Except.error (WalkErr.os w.fs "FileExistsError")        -- dangling link: exists() is false, mkdir finds the link

/-- where `open(path, O_WRONLY|O_CREAT|O_TRUNC)` lands when the last component may be a symbolic link: the kernel resolves
  every component but the last strictly (each must exist), follows a link in last position, and creates the file in the
  directory reached.  (Python's lexical `realpath` collapses `missing/..`; the kernel does not: ENOENT.) -/
def kopen (dest : Path) (fs : FS) : Nat → Path → List String → Except String Path
  | 0, _, _ => Except.error "ELOOP"
  | fuel + 1, cur, comps =>
    let last := comps.getLast?.getD ""
    match kresolve dest fs FUEL cur comps.dropLast with
    | none => Except.error "FileNotFoundError"
    | some p =>
      if !isDirAt dest fs p then Except.error "NotADirectoryError"
      else if last == "" || last == "." || last == ".." then Except.error "IsADirectoryError"
      else
        let q := p ++ [last]
        match existsAbs dest fs q with
          | none => Except.ok q                      -- O_CREAT: the file is created where the walk ended
          | some (Node.file _) => Except.ok q
          | some Node.dir => Except.error "IsADirectoryError"
          | some (Node.link t) => if t.startsWith "/" then kopen dest fs fuel [] (split t) else kopen dest fs fuel p (split t)

def walkParent (dest : Path) (fs : FS) (comps : List String) : Except WalkErr Walk :=
  comps.foldlM (walkStep dest) { fs := fs, cur := dest, creating := false }

/-- upperdirs of a member: entered when it exists (the kernel's walk succeeds), made by `os.makedirs` otherwise -/
def walkUpper (dest : Path) (fs : FS) (dl : List String) : Except WalkErr Walk :=
  match kresolve dest fs FUEL dest dl with
  | some p => Except.ok { fs := fs, cur := p, creating := false }        -- upperdirs exists: nothing to make
  | none => walkParent dest fs dl

/-- the archive being extracted and the position of the member at hand: the copy fallbacks of `TarFile.makelink` look other
  members up (a hard link among those before it, a symbolic link in the whole archive) -/
structure Arch where
  all : List Member
  pos : Nat
deriving Repr

def Arch.next (a : Arch) : Arch := { a with pos := a.pos + 1 }

/-- what `TarFile._extract_member(member, targetpath)` makes at `here` (= `cur`/`last`) for a regular file, a directory or a
  symbolic link with the given payload, when `cur` is a directory -/
def placePayload (dest : Path) (fs : FS) (kind : Kind) (content : Nat) (linkname : String) (cur : Path) (last : String) : Verdict :=
  let literalDir := last == "" || last == "." || last == ".."
  let here : Path := if last == "" || last == "." then cur else if last == ".." then cur.dropLast else cur ++ [last]
  match kind with
  | Kind.dir =>
    match existsAbs dest fs here with
    | none => writeAt dest fs here Node.dir
    | some _ => Verdict.ok fs                       -- FileExistsError is ignored by makedir
  | Kind.file =>
    if literalDir then Verdict.osError fs "IsADirectoryError" else
    match existsAbs dest fs here with
    | some Node.dir => Verdict.osError fs "IsADirectoryError"
    | some (Node.link _) =>
      -- open(.., 'wb') follows the link the way the kernel does
      match kopen dest fs FUEL cur [last] with
      | Except.error why => Verdict.osError fs why
      | Except.ok q => writeAt dest fs q (Node.file content)
    | _ => writeAt dest fs here (Node.file content)
  | Kind.sym =>
    if literalDir then Verdict.osError fs "IsADirectoryError" else
    match existsAbs dest fs here with
    | some Node.dir => Verdict.osError fs "IsADirectoryError"
    | _ => writeAt dest fs here (Node.link linkname)     -- an existing file or link is unlinked first
  | _ => Verdict.unmodelled

/-- os.path.normpath of a member name or link name, as what identifies it: the leading slashes that count and the components
  kept (`.` and empty ones dropped, `..` cancelling the component before it) -/
def normKey (s : String) : Nat × List String :=
  let lead := if s.startsWith "///" then 1 else if s.startsWith "//" then 2 else if s.startsWith "/" then 1 else 0
  (lead, (split s).foldl (fun acc c =>
    if c == "" || c == "." then acc
    else if c != ".." || (lead == 0 && acc.isEmpty) || acc.getLast? == some ".." then acc ++ [c]
    else acc.dropLast) [])

/-- `TarFile._getmember(name, tarinfo=limit, normalize=True)`: the LATEST member among the first `bound` ones whose normalised
  name is `key` -/
def findBefore (all : List Member) (bound : Nat) (key : Nat × List String) : Option Nat :=
  (List.range (min bound all.length)).reverse.find? (fun j =>
    match all[j]? with
    | some e => normKey e.name == key
    | none => false)

/-- os.path.dirname -/
def dirname (s : String) : String :=
  let cs := split s
  let head := "/".intercalate cs.dropLast
  if cs.length ≤ 1 then "" else
  if head.all (· == '/') then (if head.isEmpty then "/" else head ++ "/") else
    String.ofList (head.toList.reverse.dropWhile (· == '/')).reverse

/-- the name `_find_link_target` searches for a symbolic link: its link name seen from the directory of its own name -/
def symKey (e : Member) : Nat × List String :=
  let d := dirname e.name
  normKey (if d.isEmpty then e.linkname else if e.linkname.isEmpty then d else d ++ "/" ++ e.linkname)

/-- what stands where the member is to be made -/
inductive Ground where
  | free        -- the parent is a directory and the place is empty or holds a file or a link
  | dirThere    -- the place IS a directory (or the name ends in `.`): nothing can be put there
  | notDir      -- the parent is not a directory: nothing can be put below it
deriving DecidableEq, Repr

/-- `TarFile._extract_member(all[j], targetpath)` as the copy fallback of `makelink` calls it, `targetpath` being the place of the
  member at hand.  The member found is extracted THERE: a file, a directory or a symbolic link is made if the ground allows;
  a symbolic link that cannot be made (the place is a directory: `unlink` fails) falls back in turn to the member ITS target
  names, searched in the whole archive; a hard link found has no prepared target (AttributeError) and falls back to the member
  its link name names among those before it.  A search that fails is a logged ExtractError; any OSError on the way is fatal; a
  search that goes round in circles ends in RecursionError. -/
def chain (dest : Path) (fs : FS) (all : List Member) (cur : Path) (last : String) (g : Ground) : Nat → Nat → Verdict
  | 0, _ => Verdict.osError fs "RecursionError"
  | fuel + 1, j =>
    match all[j]? with
    | none => Verdict.unmodelled
    | some e =>
      match e.kind with
      | Kind.hard =>
        match findBefore all j (normKey e.linkname) with
        | none => Verdict.skipped fs
        | some k => chain dest fs all cur last g fuel k
      | Kind.sym =>
        match g with
        | Ground.free => placePayload dest fs Kind.sym e.content e.linkname cur last
        | _ =>
          match findBefore all all.length (symKey e) with
          | none => Verdict.skipped fs
          | some k => chain dest fs all cur last g fuel k
      | Kind.file =>
        match g with
        | Ground.free => placePayload dest fs Kind.file e.content e.linkname cur last
        | Ground.dirThere => Verdict.osError fs "IsADirectoryError"
        | Ground.notDir => Verdict.osError fs "NotADirectoryError"
      | Kind.dir =>
        match g with
        | Ground.free => placePayload dest fs Kind.dir e.content e.linkname cur last
        | Ground.dirThere => Verdict.ok fs             -- mkdir: FileExistsError is ignored
        | Ground.notDir => Verdict.osError fs "NotADirectoryError"
      | Kind.special =>
        match g with
        | Ground.free => Verdict.unmodelled        -- a fifo would be made: never reached (Props: untar_never_unmodelled)
        | Ground.dirThere => Verdict.osError fs "FileExistsError"
        | Ground.notDir => Verdict.osError fs "NotADirectoryError"

/-- what `os.link(dest/linkname, ..)` would link: the kernel walks every component but the last, and does NOT follow a link in
  last position; `none` when `os.path.exists(dest/linkname)` is false (something on the way, or the end, does not exist) -/
def linkSource (dest : Path) (fs : FS) (comps : List String) : Option Node :=
  match kresolve dest fs FUEL dest comps with
  | none => none
  | some r =>
    let last := comps.getLast?.getD ""
    if last == "" || last == "." || last == ".." then (if isDirAt dest fs r then some Node.dir else none)
    else
      match kresolve dest fs FUEL dest comps.dropLast with
      | none => none
      | some p => existsAbs dest fs (p ++ [last])

/-- the place of the entry: the parent itself when the name ends in `.` -/
def hereOf (cur : Path) (last : String) : Path :=
  if last == "" || last == "." then cur else if last == ".." then cur.dropLast else cur ++ [last]

/-- the ground a member is placed on -/
def groundOf (dest : Path) (fs : FS) (cur : Path) (last : String) (curIsDir : Bool) : Ground :=
  if !curIsDir then Ground.notDir
  else if (last == "" || last == "." || last == "..") || existsAbs dest fs (hereOf cur last) == some Node.dir then Ground.dirThere
  else Ground.free

/-- the entry itself, `last` being the last component of the member's name, `cur` what was reached for its parent and
  `curIsDir` whether that is a directory -/
def placeFinal (dest : Path) (fs : FS) (arch : Arch) (m : Member) (cur : Path) (last : String) (curIsDir : Bool) : Verdict :=
  let here : Path := hereOf cur last
  let g : Ground := groundOf dest fs cur last curIsDir
  let fuel := arch.all.length + 1
  match m.kind with
  | Kind.special => Verdict.filterError "SpecialFileError"
  | Kind.hard =>
    -- TarFile.makelink: os.link when the target exists, else (or when os.link fails: EEXIST, EPERM on a directory, ENOTDIR)
    -- the copy of the member the link name names among those before
    match linkSource dest fs (split m.linkname) with
    | none =>
      match findBefore arch.all arch.pos (normKey m.linkname) with
      | none => Verdict.osError fs "KeyError"
      | some k => chain dest fs arch.all cur last g fuel k
    | some src =>
      if g == Ground.free && (existsAbs dest fs here).isNone && src != Node.dir then
        writeAt dest fs here src                         -- a second name for the same file or symbolic link
      else
        match findBefore arch.all arch.pos (normKey m.linkname) with
        | none => Verdict.skipped fs
        | some k => chain dest fs arch.all cur last g fuel k
  | Kind.sym =>
    match g with
    | Ground.free => placePayload dest fs Kind.sym m.content m.linkname cur last
    | _ =>
      match findBefore arch.all arch.all.length (symKey m) with
      | none => Verdict.skipped fs
      | some k => chain dest fs arch.all cur last g fuel k
  | Kind.file =>
    match g with
    | Ground.free => placePayload dest fs Kind.file m.content m.linkname cur last
    | Ground.dirThere => Verdict.osError fs "IsADirectoryError"
    | Ground.notDir => Verdict.osError fs "NotADirectoryError"
  | Kind.dir =>
    match g with
    | Ground.free => placePayload dest fs Kind.dir m.content m.linkname cur last
    | Ground.dirThere => Verdict.ok fs
    | Ground.notDir => Verdict.osError fs "NotADirectoryError"

/-- `targetpath.rstrip("/")` on components: the empty components a name ends with are dropped -/
def trimEmpty : List String → List String
  | [] => []
  | c :: cs =>
    match trimEmpty cs with
    | [] => if c == "" then [] else [c]
    | r => c :: r

/-- TarFile._extract_member for a vetted member whose name splits into `comps`: make the missing parent directories
  (os.makedirs on the literal path), then create the entry where the kernel's walk of the parent ended -/
def placeMember (dest : Path) (fs : FS) (arch : Arch) (m : Member) (comps : List String) : Verdict :=
  match walkUpper dest fs comps.dropLast with
  | Except.error (WalkErr.os fs' why) => Verdict.osError fs' why
  | Except.error (WalkErr.escaped p) => Verdict.escaped p
  | Except.ok w =>
    -- upperdirs "exists" also when it is (a link to) a regular file: whatever is tried below it is ENOTDIR
    placeFinal dest w.fs arch m w.cur (comps.getLast?.getD "") (isDirAt dest w.fs w.cur)

/-- untar_file's own guard (names with a `..` component are refused), then the `data` filter
  (tarfile._get_filtered_attrs) followed by TarFile._extract_member (`placeMember`).
  The guard of the code looks at the raw member name; the components of the name without its leading slashes are a
  suffix of those (the dropped ones are empty), so the second test below never changes the answer: it is there because the
  theorems are about the components that are walked.
  `arch` = the archive and the position of `m` in it (the copy fallbacks of links look other members up) -/
def extractMember (dest : Path) (fs : FS) (arch : Arch) (m : Member) : Verdict :=
  let name := stripSlashes m.name
  if (split m.name).contains ".." || (split name).contains ".." then Verdict.filterError "OutsideDestinationError" else
  match realpath dest fs FUEL dest (split name) with
  | none => Verdict.osError fs "ELOOP"
  | some target =>
    if !isPrefix dest target then Verdict.filterError "OutsideDestinationError" else
    if m.kind == Kind.special then Verdict.filterError "SpecialFileError" else
    let linkCheck : Option String :=
      if m.kind == Kind.sym || m.kind == Kind.hard then
        if m.linkname.startsWith "/" then some "AbsoluteLinkError" else
        let start := if m.kind == Kind.sym then (split name).dropLast else []
        match realpath dest fs FUEL dest (start ++ split m.linkname) with
        | none => some "ELOOP"
        | some t => if isPrefix dest t then none else some "LinkOutsideDestinationError"
      else none
    match linkCheck with
    | some "ELOOP" => Verdict.osError fs "ELOOP"
    | some why => Verdict.filterError why
    | none => placeMember dest fs arch m (trimEmpty (split name))

/-- why an extraction stopped -/
inductive Stop where
  | filter (why : String)       -- tarfile.FilterError
  | os (why : String)           -- a fatal OSError / KeyError
  | unmodelled
  | escaped (p : Path)          -- an entry would have been created at `p`, not strictly below dest
deriving Repr, DecidableEq

def Stop.name : Stop → String
  | Stop.filter why => why
  | Stop.os why => why
  | Stop.unmodelled => "unmodelled"
  | Stop.escaped _ => "escaped"

/-- untar_file: members in archive order; the first fatal error stops the extraction -/
def untarFrom (dest : Path) (fs : FS) (arch : Arch) : List Member → FS × Option Stop
  | [] => (fs, none)
  | m :: ms =>
    match extractMember dest fs arch m with
    | Verdict.ok fs' => untarFrom dest fs' arch.next ms
    | Verdict.skipped fs' => untarFrom dest fs' arch.next ms
    | Verdict.filterError why => (fs, some (Stop.filter why))
    | Verdict.osError fs' why => (fs', some (Stop.os why))
    | Verdict.unmodelled => (fs, some Stop.unmodelled)
    | Verdict.escaped p => (fs, some (Stop.escaped p))

def untar (dest : Path) (fs : FS) (ms : List Member) : FS × Option Stop := untarFrom dest fs { all := ms, pos := 0 } ms

end Kapture.C18
