/-
  Model/C01Typed.lean — the TYPED layer of kapture/io/csv.py on top of the token layer of Model/C01.lean: how values become
  tokens (`str(x)`, `pose_to_list`) and how the readers turn tokens back into values (`int()`, `float()`, empty → None,
  `RecordArray.__post_init__` casting every field to its declared type).

  Floats are abstract: `Codec F` is `(str, float)` on a type `F` of floats.  The laws the theorems need of it (Lawful) are the
  CPython facts `float(repr(x)) == x`, "a float's repr is a non-empty token without blanks or commas" and `float('')` raises.
  The declared field types come from Gen/RecordSchemas.lean (dataclasses.fields of the live classes).
-/
import Kapture.Model.C01
import Kapture.Gen.RecordSchemas

namespace Kapture.C01
open Kapture.Csv Kapture.Gen.RecordSchemas

structure Codec (F : Type) where
  render : F → Str            -- str(x)
  parse : Str → Option F      -- float(token), none when it raises ValueError

structure Pose (F : Type) where
  r : Option (F × F × F × F)
  t : Option (F × F × F)

variable {F : Type}

/-- pose_to_list (csv.py:267-277): 4 + 3 tokens, empty ones for a missing part -/
def poseToList (c : Codec F) (p : Pose F) : List Str :=
  (match p.r with
   | some (w, x, y, z) => [c.render w, c.render x, c.render y, c.render z]
   | none => [[], [], [], []]) ++
  (match p.t with
   | some (x, y, z) => [c.render x, c.render y, c.render z]
   | none => [[], [], []])

inductive DecodeErr where
  | arity        -- the tuple unpacking of the row fails (ValueError: not enough / too many values)
  | value        -- int() / float() raises ValueError
deriving DecidableEq, Repr

/-- the fields of an incomplete group must still be numbers (the D31 fix): ValueError at the first one that is given and is not -/
def givenAreFloats (c : Codec F) (toks : List Str) : Bool :=
  toks.all (fun t => t == [] || (c.parse t).isSome)

/-- the rotation of a trajectory row -/
def trajRotOfFields (c : Codec F) (qw qx qy qz : Str) : Except DecodeErr (Option (F × F × F × F)) :=
  if qw ≠ [] ∧ qx ≠ [] ∧ qy ≠ [] ∧ qz ≠ [] then
    match c.parse qw, c.parse qx, c.parse qy, c.parse qz with
    | some a, some b, some c', some d => Except.ok (some (a, b, c', d))
    | _, _, _, _ => Except.error DecodeErr.value
  else if givenAreFloats c [qw, qx, qy, qz] then Except.ok none else Except.error DecodeErr.value

/-- the translation of a trajectory row -/
def trajTransOfFields (c : Codec F) (tx ty tz : Str) : Except DecodeErr (Option (F × F × F)) :=
  if tx ≠ [] ∧ ty ≠ [] ∧ tz ≠ [] then
    match c.parse tx, c.parse ty, c.parse tz with
    | some a, some b, some c' => Except.ok (some (a, b, c'))
    | _, _, _ => Except.error DecodeErr.value
  else if givenAreFloats c [tx, ty, tz] then Except.ok none else Except.error DecodeErr.value

/-- trajectories_from_file (csv.py:429-449): a part is present when ALL its tokens are non-empty, and then every token must
  be a float; when it is not present, the tokens that ARE given must be floats all the same -/
def trajPoseOfFields (c : Codec F) : List Str → Except DecodeErr (Pose F)
  | [qw, qx, qy, qz, tx, ty, tz] =>
    match trajRotOfFields c qw qx qy qz, trajTransOfFields c tx ty tz with
    | Except.ok r, Except.ok t => Except.ok { r := r, t := t }
    | Except.error e, _ => Except.error e
    | _, Except.error e => Except.error e
  | _ => Except.error DecodeErr.arity

/-- float_safe (csv.py): the float a token denotes; NO value for a blank token; anything else is an error (the D30 fix: it used to
  be "no value" too, so that a mistyped number silently removed the rotation or the translation of a rig) -/
def floatSafe (c : Codec F) (tok : Str) : Except DecodeErr (Option F) :=
  match c.parse tok with
  | some x => Except.ok (some x)
  | none => if strip tok = [] then Except.ok none else Except.error DecodeErr.value

/-- float_array_or_none: every token through float_safe (the first error wins), then None as soon as ONE token has no value -/
def floatArrayOrNone (c : Codec F) : List Str → Except DecodeErr (Option (List F))
  | [] => Except.ok (some [])
  | t :: ts =>
    match floatSafe c t with
    | Except.error e => Except.error e
    | Except.ok v =>
      match floatArrayOrNone c ts with
      | Except.error e => Except.error e
      | Except.ok vs =>
        Except.ok (match v, vs with
          | some x, some xs => some (x :: xs)
          | _, _ => none)

/-- rigs_from_file (csv.py:366-373) -/
def rigPoseOfFields (c : Codec F) : List Str → Except DecodeErr (Pose F)
  | [qw, qx, qy, qz, tx, ty, tz] =>
    match floatArrayOrNone c [qw, qx, qy, qz], floatArrayOrNone c [tx, ty, tz] with
    | Except.ok r, Except.ok t =>
      Except.ok { r := match r with
                    | some [a, b, c', d] => some (a, b, c', d)
                    | _ => none,
                  t := match t with
                    | some [a, b, c'] => some (a, b, c')
                    | _ => none }
    | Except.error e, _ => Except.error e
    | _, Except.error e => Except.error e
  | _ => Except.error DecodeErr.arity

/-- a typed field value -/
inductive Val (F : Type) where
  | int (i : Int)
  | flt (x : F)
  | str (s : Str)

def Val.ty : Val F → Ty
  | Val.int _ => Ty.int
  | Val.flt _ => Ty.flt
  | Val.str _ => Ty.str

def renderVal (c : Codec F) : Val F → Str
  | Val.int i => showInt i
  | Val.flt x => c.render x
  | Val.str s => s

/-- `field.type(value)` of RecordArray.__post_init__ -/
def decodeVal (c : Codec F) : Ty → Str → Option (Val F)
  | Ty.int, s => (readInt s).map Val.int
  | Ty.flt, s => (c.parse s).map Val.flt
  | Ty.str, s => some (Val.str s)

def decodeFields (c : Codec F) : List Ty → List Str → Except DecodeErr (List (Val F))
  | [], [] => Except.ok []
  | ty :: tys, s :: ss =>
    match decodeVal c ty s with
    | none => Except.error DecodeErr.value
    | some v => (decodeFields c tys ss).map (v :: ·)
  | _, _ => Except.error DecodeErr.arity

/-- a typed trajectory / rig entry and its row -/
def trajEntryTokens (c : Codec F) (e : Int × Str × Pose F) : Int × Str × List Str := (e.1, e.2.1, poseToList c e.2.2)

def decodeTrajRow (c : Codec F) : List Str → Except DecodeErr (Int × Str × Pose F)
  | ts :: dev :: rest =>
    match readInt ts with
    | none => Except.error DecodeErr.value
    | some i => (trajPoseOfFields c rest).map (fun p => (i, dev, p))
  | _ => Except.error DecodeErr.arity

def rigRow (c : Codec F) (e : Str × Str × Pose F) : List Str := e.1 :: e.2.1 :: poseToList c e.2.2

def decodeRigRow (c : Codec F) : List Str → Except DecodeErr (Str × Str × Pose F)
  | rig :: dev :: rest => (rigPoseOfFields c rest).map (fun p => (rig, dev, p))
  | _ => Except.error DecodeErr.arity

/-- a typed generic record (gnss, accelerometer, gyroscope, magnetic) and its row -/
def recordEntryTokens (c : Codec F) (e : Int × Str × List (Val F)) : Int × Str × List Str := (e.1, e.2.1, e.2.2.map (renderVal c))

def decodeRecordRow (c : Codec F) (tys : List Ty) : List Str → Except DecodeErr (Int × Str × List (Val F))
  | ts :: dev :: rest =>
    match readInt ts with
    | none => Except.error DecodeErr.value
    | some i => (decodeFields c tys rest).map (fun vs => (i, dev, vs))
  | _ => Except.error DecodeErr.arity

/-- one radio signal row: timestamp, device, BSSID / address, then the signal's fields -/
def decodeSignalRow (c : Codec F) (tys : List Ty) : List Str → Except DecodeErr (Int × Str × Str × List (Val F))
  | ts :: dev :: addr :: rest =>
    match readInt ts with
    | none => Except.error DecodeErr.value
    | some i => (decodeFields c tys rest).map (fun vs => (i, dev, addr, vs))
  | _ => Except.error DecodeErr.arity

/-- records stored as files: timestamp, device, path -/
def decodeFileRecordRow : List Str → Except DecodeErr (Int × Str × Str)
  | [ts, dev, p] =>
    match readInt ts with
    | none => Except.error DecodeErr.value
    | some i => Except.ok (i, dev, p)
  | _ => Except.error DecodeErr.arity

/-- observations_from_file: point index, keypoints type, then (image, feature index) pairs -/
def decodePairs : List Str → Except DecodeErr (List (Str × Int))
  | [] => Except.ok []
  | img :: k :: rest =>
    match readInt k with
    | none => Except.error DecodeErr.value
    | some i => (decodePairs rest).map ((img, i) :: ·)
  | [_] => Except.error DecodeErr.arity

def decodeObservationRow : List Str → Except DecodeErr (Int × Str × List (Str × Int))
  | idx :: kt :: rest =>
    match readInt idx with
    | none => Except.error DecodeErr.value
    | some i => (decodePairs rest).map (fun ps => (i, kt, ps))
  | _ => Except.error DecodeErr.arity

def schemaOf (file : String) : List Ty := (((generic.find? (fun e => e.1 == file)).map (·.2)).getD []).map (·.2)

end Kapture.C01
