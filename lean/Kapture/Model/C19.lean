/-
  Model/C19.lean — kapture/io/structure.py: delete_existing_kapture_files, as a decision function.
  Types are their class names; the tables come from Gen/DeleteRules.lean (read from the live modules on every run).
  The filesystem is seen through `kind : path → Kind` for the candidate paths (lexists / islink / isfile).
-/
import Kapture.Gen.DeleteRules

namespace Kapture.C19

structure Tables where
  csvFiles : List (String × String)
  featDirs : List (String × String)
  recordsDir : String
  storesFiles : List String

def genTables : Tables :=
  { csvFiles := Gen.DeleteRules.csvFiles, featDirs := Gen.DeleteRules.featDirs,
    recordsDir := Gen.DeleteRules.recordsDir, storesFiles := Gen.DeleteRules.storesFiles }

structure Args where
  only : List String      -- `None` and `[]` are the same to the code (`if only:`)
  skip : List String
  force : Bool
  answer : String         -- what `input()` returns when asked

inductive Kind where
  | absent | file | dir | linkFile | linkDir | linkDangling
deriving DecidableEq, Repr

def Kind.lexists : Kind → Bool
  | Kind.absent => false
  | _ => true

inductive Action where
  | unlink    -- os.remove
  | rmtree    -- shutil.rmtree
deriving DecidableEq, Repr

/-- `if path.islink(p) or path.isfile(p): os.remove(p) else: rmtree(p)` (isfile follows links) -/
def Kind.action : Kind → Action
  | Kind.dir => Action.rmtree
  | Kind.absent => Action.rmtree    -- not reachable: only existing paths are visited
  | _ => Action.unlink

def csvTypes (T : Tables) : List String := T.csvFiles.map (·.1)
def featTypes (T : Tables) : List String := T.featDirs.map (·.1)

/-- structure.py:38-45 (`if skip:` then `if only:` which overrides) -/
def keepCsv (T : Tables) (a : Args) : List String :=
  if !a.only.isEmpty then (csvTypes T).filter (fun t => !a.only.contains t)
  else if !a.skip.isEmpty then a.skip.filter (fun t => !(featTypes T).contains t)
  else []

def keepFeat (T : Tables) (a : Args) : List String :=
  if !a.only.isEmpty then (featTypes T).filter (fun t => !a.only.contains t)
  else if !a.skip.isEmpty then a.skip.filter (fun t => !(csvTypes T).contains t)
  else []

/-- structure.py:47-48 -/
def mustKeep (T : Tables) (a : Args) : Bool :=
  (keepCsv T a ++ keepFeat T a).any (fun t => T.storesFiles.contains t)

/-- structure.py:50-58: csv_filepaths + features_dirpaths + [records_dirpath] (relative to the root) -/
def candidates (T : Tables) (a : Args) : List String :=
  (T.csvFiles.filter (fun e => !(keepCsv T a).contains e.1)).map (·.2)
  ++ (T.featDirs.filter (fun e => !(keepFeat T a).contains e.1)).map (·.2)
  ++ [T.recordsDir]

/-- sorted set of strings: insertion into an ascending list, dropping duplicates -/
def insertS (x : String) : List String → List String
  | [] => [x]
  | y :: ys => if x = y then y :: ys else if x < y then x :: y :: ys else y :: insertS x ys

def sortS (l : List String) : List String := l.foldr insertS []

/-- structure.py:60-62: `list(reversed(sorted({p for p in ... if path.lexists(p)})))` -/
def existing (T : Tables) (a : Args) (kind : String → Kind) : List String :=
  (sortS ((candidates T a).filter (fun p => (kind p).lexists))).reverse

/-- structure.py:63-64 (with the D16 fix: remove only if present) -/
def toDelete (T : Tables) (a : Args) (kind : String → Kind) : List String :=
  let e := existing T a kind
  if mustKeep T a && e.contains T.recordsDir then e.erase T.recordsDir else e

inductive Outcome where
  | nothing                                   -- nothing to delete: returns silently
  | refused (paths : List String)             -- asked, answer was not y/Y: ValueError, nothing touched
  | deleted (plan : List (String × Action))   -- the paths removed, in order, and how
deriving DecidableEq, Repr

def consent (a : Args) : Bool := a.force || a.answer == "y" || a.answer == "Y"

/-- structure.py:66-82 -/
def outcome (T : Tables) (a : Args) (kind : String → Kind) : Outcome :=
  let d := toDelete T a kind
  if d.isEmpty then Outcome.nothing
  else if consent a then Outcome.deleted (d.map (fun p => (p, (kind p).action)))
  else Outcome.refused d

end Kapture.C19
