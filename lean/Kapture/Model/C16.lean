/-
  Model/C16.lean — loading and upgrading as data-only operations.

  * The element-type field of a descriptor file goes through `dtype_from_name`, which the translator reduces to a finite
    table (Gen/DtypeNames.lean is produced by RUNNING the function on every public numpy name and the builtins, and the
    translator refuses a source in which the readers call eval/exec or bypass the lookup).
  * The loader is a pure function of the rows (Model/C04.lean); the only effects are reads of the files it parses.
  * The upgrade's effects are those of its plan (Model/C20.lean): text rewrites, one descriptor file per kind, moves.
  Paths are relative to the dataset root; `inside` = stays under the root (not absolute, no `..` component).
-/
import Kapture.Model.C20
import Kapture.Gen.FileNames

namespace Kapture.C16
open Kapture Kapture.C20

/-- dtype_from_name: an accepted name resolves to a type (its __name__), anything else is a ValueError -/
def parseDtype (s : String) : Except String String :=
  match Gen.DtypeNames.accepted.find? (fun e => e.1 == s) with
  | some e => Except.ok e.2
  | none => Except.error "ValueError"

inductive Effect where
  | read (p : String)
  | write (p : String)
  | remove (p : String)
  | move (src dst : String)
deriving Repr, DecidableEq

def inside (p : String) : Bool := !p.startsWith "/" && !(p.splitOn "/").contains ".." && !p.isEmpty

def Effect.inside : Effect → Bool
  | Effect.read p => C16.inside p
  | Effect.write p => C16.inside p
  | Effect.remove p => C16.inside p
  | Effect.move s d => C16.inside s && C16.inside d

def Effect.isRead : Effect → Bool
  | Effect.read _ => true
  | _ => false

/-- the text files kapture_from_dir opens: the top-level tables that exist and, for the current version, the descriptor
  file of every feature type, points3d.txt and observations.txt -/
def loadReads (present : List String) (current : Bool) : List Effect :=
  let top := (Gen.FileNames.csvFiles.map (·.2)).filter (fun f =>
    present.contains f && (current || f.startsWith "sensors/"))
  let cfg := if current then present.filter (fun f =>
      Gen.FileNames.featureCsvFiles.any (fun k =>
        let dir := (k.2.splitOn "/T/").headD ""
        let leaf := (k.2.splitOn "/T/").getLastD ""
        f.startsWith (dir ++ "/") && f.endsWith ("/" ++ leaf) && (f.splitOn "/").length == 4))
    else []
  (top ++ cfg).map Effect.read

/-- the file-system effects of the in-place upgrade, read off its plan -/
def upgradeEffects (p : Params) (t : Tree) : Except Err (List Effect) := do
  let pl ← plan p t
  let tables := pl.tables.flatMap (fun e => [Effect.read e.1, Effect.write e.1])
  let folders := pl.folders.flatMap (fun f =>
    (match f.oldCfg with
      | some c => [Effect.read c, Effect.remove c]
      | none => []) ++
    (match f.newCfg with
      | some c => [Effect.write c.1]
      | none => []) ++
    ((f.side.filter (fun m => (Dict.get? m.src t).isSome)) ++ f.moves).map (fun m => Effect.move m.src m.dst))
  let obs := match pl.observations with
    | some _ => [Effect.read "reconstruction/observations.txt", Effect.write "reconstruction/observations.txt"]
    | none => []
  pure (tables ++ folders ++ obs)

end Kapture.C16
