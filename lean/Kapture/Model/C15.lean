/-
  Model/C15.lean — the discrete / arithmetic core of kapture/converter/opensfm/{export_opensfm,import_opensfm}.py.

  Modelled (exact, total, executable):
    * camera conversion: focal normalised by the largest image side on export and multiplied back on import,
      `int(width)`, principal point re-created at the image centre, k1/k2 by camera type;
    * 3-D points: the dict keyed by the zero-padded decimal index on export, `sorted(keys)` (Python `str` order =
      code-point lexicographic order on the characters) and lookup on import;
    * shots: the dict image name -> (camera id, pose) on export, `enumerate(shots.items())` on import;
    * features / matches: file naming by suffix, suffix stripping, grouping of the pairs by first image,
      `[:, 0:2].astype(int)` then `astype(float64)` + a column of ones.
  NOT modelled (exercised by full export -> import loops only, harness/c15.py): JSON / npz / gzip-pickle / csv
  serialisation, os.walk, numpy-quaternion's rotation vector <-> quaternion maps, IEEE rounding.

  Strings that are taken apart (keys, file names) are `List Char`; Python compares `str` by code point, which is the
  lexicographic order of `List Char`.  No Mathlib.
-/
import Kapture.Base.Dict
import Kapture.Gen.OsfmCamera

namespace Kapture.C15
open Kapture

/-! ### cameras -/

/-- the kapture camera types: the three OpenSfM "perspective" can express, and everything else -/
inductive CamType where
  | simplePinhole | simpleRadial | radial | other
deriving DecidableEq, Repr

/-- a kapture camera `[w, h, f, cx, cy, k1?, k2?]` (k1 / k2 are read only for the types that have them) -/
structure Camera where
  type : CamType
  w : Rat
  h : Rat
  f : Rat
  cx : Rat
  cy : Rat
  k1 : Rat
  k2 : Rat
deriving DecidableEq, Repr

/-- an OpenSfM perspective camera (export_opensfm.py:172-180) -/
structure OsfmCamera where
  width : Int
  height : Int
  focal : Rat
  k1 : Rat
  k2 : Rat
deriving DecidableEq, Repr

/-- Python `max(a, b)` on two numbers: `b` when `b > a`, else `a` (export_opensfm.py:171) -/
def largest (a b : Rat) : Rat := if a < b then b else a

/-- Python `int(x)` / numpy `astype(int)` on a float: truncation toward zero (export_opensfm.py:174-175, 279) -/
def truncInt (x : Rat) : Int := Int.tdiv x.num x.den

/-- the name of a camera type in `kapture.CameraType` -/
def typeName : CamType → String
  | .simplePinhole => "SIMPLE_PINHOLE"
  | .simpleRadial => "SIMPLE_RADIAL"
  | .radial => "RADIAL"
  | .other => "OTHER"

/-- `'focal': camera_params[2] / largest_side_in_pixels` (export_opensfm.py:171,177): the expression is GENERATED from the
  source (Gen/OsfmCamera.lean), applied to camera_params = [w, h, f, ...] and Python's max -/
def exportFocal (f w h : Rat) : Rat := Gen.OsfmCamera.exportFocal largest (fun i => [w, h, f].getD i 0)

/-- `opensfm_camera['focal'] * float(max(width, height))` (import_opensfm.py:112,117): the third entry of the GENERATED
  parameter list of import_camera -/
def importFocal (focal : Rat) (width height : Int) : Rat :=
  (Gen.OsfmCamera.importParams largest (width : Rat) (height : Rat) focal 0 0).getD 2 0

/-- `camera_type in [SIMPLE_RADIAL, RADIAL]` (export_opensfm.py:183), the list being generated -/
def hasK1 (t : CamType) : Bool := Gen.OsfmCamera.k1Types.contains (typeName t)

/-- `camera_type == RADIAL` (export_opensfm.py:186), generated -/
def hasK2 (t : CamType) : Bool := Gen.OsfmCamera.k2Types.contains (typeName t)

/-- export_opensfm_camera (export_opensfm.py:134-189) -/
def exportCamera (c : Camera) : Except String OsfmCamera :=
  if c.type = .other then Except.error "ValueError"                    -- :163-164
  else Except.ok
    { width := truncInt c.w, height := truncInt c.h,                   -- :174-175
      focal := exportFocal c.f c.w c.h,                                -- :177
      k1 := if hasK1 c.type then c.k1 else 0,                          -- :178, 183-184
      k2 := if hasK2 c.type then c.k2 else 0 }                         -- :179, 186-187

/-- import_camera for 'perspective' (import_opensfm.py:109-123): always a RADIAL camera, principal point at the centre -/
def importCamera (o : OsfmCamera) : Camera :=
  { type := .radial, w := (o.width : Rat), h := (o.height : Rat),
    f := importFocal o.focal o.width o.height,
    cx := (o.width : Rat) / 2, cy := (o.height : Rat) / 2,
    k1 := o.k1, k2 := o.k2 }

/-- the principal point is at the image centre (the part of the camera OpenSfM's model keeps) -/
def centred (c : Camera) : Bool := c.cx == c.w / 2 && c.cy == c.h / 2

/-- the same camera written as a RADIAL one (absent distortion coefficients are 0) -/
def asRadial (c : Camera) : Camera :=
  { c with type := .radial, k1 := if hasK1 c.type then c.k1 else 0, k2 := if hasK2 c.type then c.k2 else 0 }

/-- export then import of one camera -/
def loopCamera (c : Camera) : Except String Camera :=
  match exportCamera c with
  | Except.ok o => Except.ok (importCamera o)
  | Except.error e => Except.error e

/-! ### 3-D points keyed by index -/

abbrev Key := List Char

/-- Python `str(i)` for `i >= 0`: the decimal digits (this is what `Nat.repr` produces too) -/
def str (i : Nat) : Key := Nat.toDigits 10 i

/-- Python `s.zfill(width)` for a string without sign: left padding with '0', never truncating -/
def zfill (width : Nat) (s : Key) : Key := List.replicate (width - s.length) '0' ++ s

/-- `nb_digits = len(str(max(len(points3d) - 1, 0)))` (export_opensfm.py:363); `n - 1` on `Nat` is `max(n - 1, 0)` -/
def nbDigits (n : Nat) : Nat := (str (n - 1)).length

/-- `str(i).zfill(nb_digits)` (export_opensfm.py:365) -/
def pointKey (n i : Nat) : Key := zfill (nbDigits n) (str i)

/-- the key before the fix ab7439c: the int `i`, which `json.dump` writes as `str(i)` -/
def plainKey (_n i : Nat) : Key := str i

/-- `for i, p in enumerate(points3d): points[key(i)] = p` (export_opensfm.py:361-368), dict in insertion order -/
def exportPointsWith {P : Type} (key : Nat → Nat → Key) (pts : List P) : List (Key × P) :=
  Dict.ofList (pts.zipIdx.map (fun pi => (key pts.length pi.2, pi.1)))

def exportPoints {P : Type} (pts : List P) : List (Key × P) := exportPointsWith pointKey pts

/-- Python `a <= b` on `str` -/
def keyLe (a b : Key) : Bool := decide (a ≤ b)

/-- `sorted(opensfm_points)` (import_opensfm.py:350): the keys, by a stable merge sort, in `str` order -/
def sortedKeys {P : Type} (d : List (Key × P)) : List Key := (Dict.keys d).mergeSort keyLe

/-- `for point_id in sorted(points): points_data.append(points[point_id])` (import_opensfm.py:349-353) -/
def importPoints {P : Type} (d : List (Key × P)) : List P :=
  (sortedKeys d).filterMap (fun k => Dict.get? k d)

/-! ### shots: image name -> camera id and pose -/

abbrev Name := List Char

/-- one entry of `opensfm_shots` (export_opensfm.py:320-331): the camera id, and the pose when there is one -/
structure Shot (P : Type) where
  camera : String
  pose : Option P
deriving Repr

/-- export_opensfm.py:314-332: `records` is `flatten(records_camera)` = (timestamp, camera id, image name) in container
  order; `traj` the trajectories keyed by (timestamp, camera id).  `opensfm_shots[image_filename] = shot`. -/
def exportShots {P : Type} (records : List (Int × String × Name)) (traj : List ((Int × String) × P)) :
    List (Name × Shot P) :=
  records.foldl (fun d r => Dict.set r.2.2 { camera := r.2.1, pose := Dict.get? (r.1, r.2.1) traj } d) []

/-- import_opensfm.py:315-326 from shot number `i` on: `timestamp = i`, `shot['rotation']` is a KeyError without pose;
  result rows are (timestamp, camera id, image name, pose) -/
def importShotsFrom {P : Type} : Nat → List (Name × Shot P) → Except String (List (Nat × String × Name × P))
  | _, [] => Except.ok []
  | i, (img, s) :: rest =>
    match s.pose with
    | none => Except.error "KeyError"
    | some p =>
      match importShotsFrom (i + 1) rest with
      | Except.ok r => Except.ok ((i, s.camera, img, p) :: r)
      | Except.error e => Except.error e

/-- `for timestamp, (image_filename, shot) in enumerate(shots.items())` -/
def importShots {P : Type} (shots : List (Name × Shot P)) : Except String (List (Nat × String × Name × P)) :=
  importShotsFrom 0 shots

/-! ### features and matches: file naming, grouping, index columns -/

/-- `'.features.npz'` (export_opensfm.py:203, import_opensfm.py:186) -/
def featuresSuffix : List Char := ".features.npz".toList

/-- `'_matches.pkl.gz'` (export_opensfm.py:259, import_opensfm.py:238) -/
def matchesSuffix : List Char := "_matches.pkl.gz".toList

/-- `image_filename + suffix` (export_opensfm.py:250, 269), relative to the features / matches directory -/
def addSuffix (suffix : List Char) (name : Name) : Name := name ++ suffix

/-- `filepath.endswith(suffix)` (import_opensfm.py:193, 246) -/
def hasSuffix (suffix : List Char) (path : Name) : Bool := suffix.isSuffixOf path

/-- `relpath[:-len(suffix)]` (import_opensfm.py:195-196, 249-250); the suffixes are not empty -/
def stripSuffix (suffix : List Char) (path : Name) : Name := path.take (path.length - suffix.length)

/-- a row of a kapture matches file: (index in image 1, index in image 2, score) -/
abbrev Row := Rat × Rat × Rat

/-- `kapture_matches[:, 0:2].astype(int)` (export_opensfm.py:279) -/
def exportRow (r : Row) : Int × Int := (truncInt r.1, truncInt r.2.1)

/-- `hstack([m.astype(float64), ones])` (import_opensfm.py:263-266) -/
def importRow (r : Int × Int) : Row := ((r.1 : Rat), (r.2 : Rat), 1)

/-- one `<image1>_matches.pkl.gz`: its relative path and the pickled dict image2 -> index pairs -/
abbrev MatchFile := Name × List (Name × List (Int × Int))

/-- export_opensfm.py:263-283: for every image (records order) one pickle holding, for the pairs whose first image it
  is (`opensfm_pairs`), `opensfm_matches[image2] = rows` -/
def exportMatches (images : List Name) (pairs : List ((Name × Name) × List Row)) : List MatchFile :=
  images.map (fun im1 =>
    (addSuffix matchesSuffix im1,
     Dict.ofList ((pairs.filter (fun p => p.1.1 = im1)).map (fun p => (p.1.2, p.2.map exportRow)))))

/-- import_opensfm.py:242-267: every file with the suffix gives the pairs (stripped name, image2) -/
def importMatches (files : List MatchFile) : List ((Name × Name) × List Row) :=
  (files.filter (fun f => hasSuffix matchesSuffix f.1)).flatMap (fun f =>
    f.2.map (fun e => ((stripSuffix matchesSuffix f.1, e.1), e.2.map importRow)))

/-- export_opensfm.py:249-253: one `.features.npz` per image that has keypoints or descriptors -/
def exportFeatureFiles (images : List Name) : List Name := images.map (addSuffix featuresSuffix)

/-- import_opensfm.py:189-196: the image names recovered from the feature files -/
def importFeatureNames (files : List Name) : List Name :=
  (files.filter (hasSuffix featuresSuffix)).map (stripSuffix featuresSuffix)

end Kapture.C15
