/-
  Model/C11.lean — kapture/algo/merge_reconstruction.py: merge_points3d_and_observations and merge_points3d
  (after the D10 fix: the result starts from the first cloud instead of an empty N x 6 array).

  A cloud is a list of rows, a row a list of column tokens (3 or 6 of them); `np.vstack` of clouds with different
  widths is a ValueError.  Observations are (point index, keypoints type, image name, feature index) in flatten order.
-/
namespace Kapture.C11

abbrev Row := List String
abbrev Obs := Nat × String × String × Nat

structure Recon where
  points : Option (List Row)     -- `none` = no points3d part
  cols : Nat                     -- width of the cloud (3 or 6); meaningful when points is `some` (a cloud may be empty)
  obs : Option (List Obs)

structure Acc where
  started : Bool                 -- merged_points3d is not None
  cols : Nat
  points : List Row
  obs : List Obs

/-- one iteration of the loop (merge_reconstruction.py:319-331) -/
def stepRecon (a : Acc) (r : Recon) : Except String Acc :=
  match r.points with
  | none => Except.ok a                                  -- `if points3d is None: continue` (its observations are dropped)
  | some pts =>
    if a.started && a.cols != r.cols then Except.error "ValueError" else      -- np.vstack width mismatch
    let off := if a.started then a.points.length else 0
    let newObs := match r.obs with
      | none => []
      | some os => os.map (fun o => (o.1 + off, o.2))
    Except.ok { started := true, cols := r.cols, points := a.points ++ pts, obs := a.obs ++ newObs }

/-- merge_points3d_and_observations: `none`-started result is the default empty N x 6 cloud -/
def mergePointsObs (rs : List Recon) : Except String (Nat × List Row × List Obs) :=
  match rs.foldlM stepRecon { started := false, cols := 6, points := [], obs := [] } with
  | Except.ok a => Except.ok (a.cols, a.points, a.obs)
  | Except.error e => Except.error e

/-- merge_points3d -/
def mergePoints (ps : List (Option (Nat × List Row))) : Except String (Nat × List Row) :=
  match (ps.map (fun p => match p with
      | none => ({ points := none, cols := 6, obs := none } : Recon)
      | some (c, rows) => { points := some rows, cols := c, obs := none })).foldlM stepRecon
      { started := false, cols := 6, points := [], obs := [] } with
  | Except.ok a => Except.ok (a.cols, a.points)
  | Except.error e => Except.error e

end Kapture.C11
