/-
  Model/C14.lean — kapture/converter/openmvg/export_openmvg.py and import_openmvg.py: the arithmetic, indexing, naming and
  ordering core of the OpenMVG export -> import loop.  No Mathlib.

  What is modelled (each definition cites the lines it mirrors):
    * the centre / translation convention over the pose algebra of Model/C05 (export writes `center = inverse(pose).t`
      and `rotation = matrix(r)`; import computes `t = -1 * (R c)`),
    * the intrinsics mapping both ways, as parameter-list shuffles, for both intrinsic layouts (`value0` nesting or flat),
    * `_compute_openmvg_id` and the camera / view id tables,
    * image naming: common image directory (`sub_root_path`), relative name, path flattening, `local_path`/`filename`
      split on export and the joins of import; the base names of the region files on both sides,
    * structure (points re-indexed through a dict and `range(0, max+1)`, observations through view ids),
    * matches (view ids out, names back, column swap when the imported names are in the other order).

  What is NOT modelled: JSON / text / binary file formats, `os.path` on non-normalised names (image names are normalised
  relative paths: components are non-empty and are neither `.` nor `..`), numpy-quaternion's
  `from_rotation_matrix` (a third-party call: the theorems assume it returns some quaternion with the same matrix).
  Strings are lists of characters.
-/
import Kapture.Base.Dict
import Kapture.Model.C05

namespace Kapture.C14
open Kapture Kapture.C05

abbrev Str := List Char

/-! ## poses -/
section pose
variable {K : Type} [Add K] [Sub K] [Mul K] [Div K] [Neg K] [OfNat K 0] [OfNat K 1] [OfNat K 2] [DecidableEq K]

/-- `prior_t = pose_tr.inverse().t_raw`, written as "center" (export_openmvg.py:352-353 and 399-400) -/
def exportCentre (p : Pose K) : V3 K := (inverse p).t

/-- `quaternion.as_rotation_matrix(prior_q)`, written as "rotation" (export_openmvg.py:354, 401).  The library normalises
  by the squared norm like `_as_rotation_matrix_njit` does; both are `C05.rot` (checked by the correspondence). -/
def exportRotation (p : Pose K) : M3 K := rot p.r

/-- `kap_translation = -1 * np.matmul(rotation, center)` (import_openmvg.py:357) -/
def importT (R : M3 K) (c : V3 K) : V3 K :=
  let v := M3.mulVec R c
  ⟨(-1) * v.x, (-1) * v.y, (-1) * v.z⟩

end pose

/-! ## intrinsics -/

inductive CamType where
  | SIMPLE_PINHOLE | PINHOLE | SIMPLE_RADIAL | RADIAL | OPENCV | FULL_OPENCV
  | OPENCV_FISHEYE | RADIAL_FISHEYE | SIMPLE_RADIAL_FISHEYE
deriving DecidableEq, Repr

/-- a kapture camera: `camera_params = [w, h] ++ params`.  Width and height are integers (the converter applies `int()`
  to them, the identity on integral values; OpenMVG stores them as integers). -/
structure Cam (K : Type) where
  type : CamType
  w : Int
  h : Int
  params : List K
deriving DecidableEq, Repr

inductive MvgModel where
  | pinhole | pinhole_radial_k1 | pinhole_radial_k3 | pinhole_brown_t2 | fisheye
deriving DecidableEq, Repr

/-- `_get_camera_common_data` (export_openmvg.py:71-78): width, height, focal_length, principal_point -/
structure Common (K : Type) where
  w : Int
  h : Int
  f : K
  cx : K
  cy : K
deriving DecidableEq, Repr

/-- the "data" object of an intrinsic: flat (`disto_*` next to the common fields) or nested (`value0` holds the common
  fields: the v1 layout of pinhole_brown_t2 and fisheye, export_openmvg.py:100-120) -/
inductive IntrData (K : Type) where
  | flat (c : Common K) (disto : List K)
  | nested (value0 : Common K) (disto : List K)
deriving DecidableEq, Repr

structure Intrinsic (K : Type) where
  model : MvgModel
  data : IntrData K
deriving DecidableEq, Repr

section intr
variable {K : Type} [Add K] [Div K] [OfNat K 0] [OfNat K 2] [DecidableEq K]

/-- `_get_intrinsic_pinhole_brown_t2` / `_get_intrinsic_fisheye` layout switch (export_openmvg.py:100-120) -/
def layout (v2 : Bool) (c : Common K) (disto : List K) : IntrData K :=
  if v2 then IntrData.flat c disto else IntrData.nested c disto

/-- `_export_openmvg_intrinsics`, the per-camera branch (export_openmvg.py:183-242).  `none` = IndexError (too few
  parameters).  Extra parameters are ignored exactly where the Python indexing ignores them.  UNKNOWN_CAMERA and the
  unsupported models are outside this model. -/
def exportCam (v2 : Bool) (c : Cam K) : Option (Intrinsic K) :=
  match c.type, c.params with
  | CamType.SIMPLE_PINHOLE, f :: cx :: cy :: _ =>                                     -- :185-188
    some ⟨MvgModel.pinhole, IntrData.flat ⟨c.w, c.h, f, cx, cy⟩ []⟩
  | CamType.PINHOLE, fx :: fy :: cx :: cy :: _ =>                                     -- :189-195
    some ⟨MvgModel.pinhole, IntrData.flat ⟨c.w, c.h, (fx + fy) / 2, cx, cy⟩ []⟩
  | CamType.SIMPLE_RADIAL, f :: cx :: cy :: k :: _ =>                                 -- :196-199
    some ⟨MvgModel.pinhole_radial_k1, IntrData.flat ⟨c.w, c.h, f, cx, cy⟩ [k]⟩
  | CamType.RADIAL, f :: cx :: cy :: k1 :: k2 :: _ =>                                 -- :200-208
    some ⟨MvgModel.pinhole_radial_k3, IntrData.flat ⟨c.w, c.h, f, cx, cy⟩ [k1, k2, 0]⟩
  | CamType.OPENCV, fx :: fy :: cx :: cy :: k1 :: k2 :: p1 :: p2 :: rest =>           -- :209-219
    let k3 := match rest with
      | k3 :: _ => k3
      | [] => 0
    some ⟨MvgModel.pinhole_brown_t2, layout v2 ⟨c.w, c.h, (fx + fy) / 2, cx, cy⟩ [k1, k2, k3, p1, p2]⟩
  | CamType.FULL_OPENCV, fx :: fy :: cx :: cy :: k1 :: k2 :: p1 :: p2 :: rest =>      -- :209-219
    let k3 := match rest with
      | k3 :: _ => k3
      | [] => 0
    some ⟨MvgModel.pinhole_brown_t2, layout v2 ⟨c.w, c.h, (fx + fy) / 2, cx, cy⟩ [k1, k2, k3, p1, p2]⟩
  | CamType.OPENCV_FISHEYE, fx :: fy :: cx :: cy :: _ =>                              -- :220-230
    some ⟨MvgModel.fisheye, layout v2 ⟨c.w, c.h, (fx + fy) / 2, cx, cy⟩ [0, 0, 0, 0]⟩
  | CamType.RADIAL_FISHEYE, f :: cx :: cy :: _ =>                                     -- :231-242
    some ⟨MvgModel.fisheye, layout v2 ⟨c.w, c.h, f, cx, cy⟩ [0, 0, 0, 0]⟩
  | CamType.SIMPLE_RADIAL_FISHEYE, f :: cx :: cy :: _ =>
    some ⟨MvgModel.fisheye, layout v2 ⟨c.w, c.h, f, cx, cy⟩ [0, 0, 0, 0]⟩
  | _, _ => none

/-- `value0 = camera_data["value0"] if "value0" in camera_data else camera_data` (import_openmvg.py:193-196, 210-213,
  228-231) and `camera_data["disto_t2"]` -/
def unnest : IntrData K → Common K × List K
  | IntrData.flat c d => (c, d)
  | IntrData.nested c d => (c, d)

/-- `_import_openmvg_cameras`, the per-sensor branch (import_openmvg.py:157-240).  `none` = KeyError / IndexError
  (pinhole, radial_k1 and radial_k3 read the common fields directly from "data": a nested layout is a KeyError). -/
def importCam (i : Intrinsic K) : Option (Cam K) :=
  match i.model, i.data with
  | MvgModel.pinhole, IntrData.flat c _ =>                                           -- :157-165
    some ⟨CamType.SIMPLE_PINHOLE, c.w, c.h, [c.f, c.cx, c.cy]⟩
  | MvgModel.pinhole_radial_k1, IntrData.flat c (k :: _) =>                          -- :166-175
    some ⟨CamType.SIMPLE_RADIAL, c.w, c.h, [c.f, c.cx, c.cy, k]⟩
  | MvgModel.pinhole_radial_k3, IntrData.flat c (k1 :: k2 :: _) =>                   -- :176-187 (k3 ignored)
    some ⟨CamType.RADIAL, c.w, c.h, [c.f, c.cx, c.cy, k1, k2]⟩
  | MvgModel.pinhole_brown_t2, d =>                                                  -- :188-222
    match unnest d with
    | (c, k1 :: k2 :: k3 :: t1 :: t2 :: _) =>
      if k3 ≠ 0 then some ⟨CamType.FULL_OPENCV, c.w, c.h, [c.f, c.f, c.cx, c.cy, k1, k2, t1, t2, k3, 0, 0, 0]⟩
      else some ⟨CamType.OPENCV, c.w, c.h, [c.f, c.f, c.cx, c.cy, k1, k2, t1, t2]⟩
    | _ => none
  | MvgModel.fisheye, d =>                                                           -- :223-238
    let c := (unnest d).1
    some ⟨CamType.SIMPLE_RADIAL_FISHEYE, c.w, c.h, [c.f, c.cx, c.cy, 0]⟩
  | _, _ => none

end intr

/-! ## identifiers -/

/-- `max(values) + 1`, or 0 for an empty table (`last_known_openmvg_id = ... else -1`, export_openmvg.py:132-134) -/
def nextId : List (Str × Nat) → Nat
  | [] => 0
  | (_, v) :: r => Nat.max (v + 1) (nextId r)

/-- `_compute_openmvg_id` (export_openmvg.py:123-136) -/
def computeId (k : Str) (tbl : List (Str × Nat)) : List (Str × Nat) :=
  if Dict.has k tbl then tbl else Dict.set k (nextId tbl) tbl

/-- a row of records_camera in the order `records_camera.items()` x `image_data.items()` yields it -/
structure Rec where
  ts : Int
  cam : Str
  name : Str
deriving DecidableEq, Repr

/-- the id loop (export_openmvg.py:540-545): camera ids -/
def camIds (recs : List Rec) : List (Str × Nat) := recs.foldl (fun t r => computeId r.cam t) []

/-- the id loop (export_openmvg.py:540-545): view ids, by image name -/
def viewIds (recs : List Rec) : List (Str × Nat) := recs.foldl (fun t r => computeId r.name t) []

/-! ## image names -/

/-- `s.split('/')` -/
def splitSlash : Str → List Str
  | [] => [[]]
  | c :: r =>
    if c = '/' then [] :: splitSlash r
    else match splitSlash r with
      | [] => [[c]]
      | h :: t => (c :: h) :: t

/-- `'/'.join(components)` -/
def joinSlash : List Str → Str
  | [] => []
  | [c] => c
  | c :: r => c ++ '/' :: joinSlash r

/-- components of `path.dirname(name)` -/
def dirComps (name : Str) : List Str := (splitSlash name).dropLast

def commonPrefix : List Str → List Str → List Str
  | a :: as, b :: bs => if a = b then a :: commonPrefix as bs else []
  | _, _ => []

/-- `sub_root_path` (`_get_sub_root_path`, export_openmvg.py:139-148, called at :546): `path.commonpath` of the image directories (or the only one), as
  components; `[]` is the empty string -/
def subRoot (recs : List Rec) : List Str :=
  match recs.map (fun r => dirComps r.name) with
  | [] => []
  | d :: ds => ds.foldl commonPrefix d

/-- `path.relpath(kapture_image_name, sub_root_path) if sub_root_path else kapture_image_name` (export_openmvg.py:323-327)
  for a name below `sub`, as components -/
def relOf (sub : List Str) (name : Str) : List Str := (splitSlash name).drop sub.length

/-- `kapture_image_name.replace('/', '_')` (export_openmvg.py:153) -/
def flattenStr (s : Str) : Str := s.map (fun c => if c = '/' then '_' else c)

/-- `_get_openmvg_image_path` (export_openmvg.py:151-153), as components of the result -/
def mvgPath (flatten : Bool) (comps : List Str) : List Str :=
  if flatten then [flattenStr (joinSlash comps)] else comps

/-- a view, the fields the loop depends on (export_openmvg.py:328-337) -/
structure View where
  key : Nat
  idView : Nat
  idIntrinsic : Nat
  idPose : Nat
  localPath : Str
  filename : Str
deriving DecidableEq, Repr

/-- `_export_openmvg_views`, one image (export_openmvg.py:320-337).  `none` = KeyError. -/
def exportView (flatten : Bool) (sub : List Str) (cams views : List (Str × Nat)) (r : Rec) : Option View :=
  match Dict.get? r.cam cams, Dict.get? r.name views with
  | some c, some v =>
    let p := mvgPath flatten (relOf sub r.name)
    some { key := v, idView := v, idIntrinsic := c, idPose := v,
           localPath := joinSlash p.dropLast,               -- path.dirname
           filename := p.getLastD [] }                      -- path.basename
  | _, _ => none

/-- `_export_openmvg_views`, the loop over `kapture_images_data` -/
def exportViews (flatten : Bool) (sub : List Str) (cams views : List (Str × Nat)) : List Rec → Option (List View)
  | [] => some []
  | r :: rs =>
    match exportView flatten sub cams views r, exportViews flatten sub cams views rs with
    | some v, some vs => some (v :: vs)
    | _, _ => none

/-- `openmvg_images_dir = path.basename(data_root_path)` where `root_path = abspath(join(image_root, sub_root_path))`
  (export_openmvg.py:547-548, 605; import_openmvg.py:114): the last component of the common directory, or the base name
  of the image root when there is no common directory -/
def imagesDir (rootBase : Str) (sub : List Str) : Str := sub.getLastD rootBase

/-- `_import_openmvg_image_file` (import_openmvg.py:303-308, 335): the kapture image name of a view -/
def importName (imagesDir : Str) (v : View) : Str :=
  let filename := if v.localPath = [] then v.filename else v.localPath ++ '/' :: v.filename
  imagesDir ++ '/' :: filename

/-- `_import_openmvg_images` (import_openmvg.py:271-290): view id -> image name (`view_ids_to_filename`, also
  `records_camera[view_id]`), pose id -> (timestamp, device) -/
def importViews (imagesDir : Str) (vs : List View) : List (Nat × Str) :=
  vs.foldl (fun t v => Dict.set v.idView (importName imagesDir v) t) []

def poseTable (vs : List View) : List (Nat × Nat × Nat) :=
  vs.foldl (fun t v => Dict.set v.idPose (v.idView, v.idIntrinsic) t) []

/-- base name (before `splitext`) of the region files written for an image (export_openmvg.py:703-707 and 724-728, `_export_openmvg_regions`:
  `_get_openmvg_image_path(relpath(kapture_image_name, sub_root_path) if sub_root_path else kapture_image_name, flatten)`,
  then `path.basename`) — the same relative name the views carry -/
def regionBaseExport (flatten : Bool) (sub : List Str) (name : Str) : Str :=
  (mvgPath flatten (relOf sub name)).getLastD []

/-- base name (before `splitext`) import looks for (import_openmvg.py:442): `path.basename(image_name)` of the imported name -/
def regionBaseImport (importedName : Str) : Str := (splitSlash importedName).getLastD []

/-! ## extrinsics -/

/-- `_import_openmvg_trajectories` (import_openmvg.py:345-359): the key of the pose of extrinsic `poseId`;
  `none` = skipped with a warning -/
def trajectoryKey (tbl : List (Nat × Nat × Nat)) (poseId : Nat) : Option (Nat × Nat) := Dict.get? poseId tbl

/-! ## structure -/

/-- observations of one point for the exported keypoints type, in stored order: (image name, feature index) -/
abbrev PointObs := List (Str × Nat)

/-- the observations of one point through the view ids (export_openmvg.py:449-469, `_export_openmvg_structure`, inner loop);
  `none` = KeyError (an observed image is not in records_camera) -/
def exportObs (views : List (Str × Nat)) : PointObs → Option (List (Nat × Nat))
  | [] => some []
  | o :: r =>
    match Dict.get? o.1 views, exportObs views r with
    | some v, some rest => some ((v, o.2) :: rest)
    | _, _ => none

/-- `_export_openmvg_structure` (export_openmvg.py:439-471): `for point_idx, coords in enumerate(xyz_coordinates)`, key = point index -/
def exportPoints {α : Type} (views : List (Str × Nat)) : Nat → List (α × PointObs) → Option (List (Nat × α × List (Nat × Nat)))
  | _, [] => some []
  | i, (x, obs) :: r =>
    match exportObs views obs, exportPoints views (i + 1) r with
    | some os, some rest => some ((i, x, os) :: rest)
    | _, _ => none

def exportStructure {α : Type} (views : List (Str × Nat)) (pts : List (α × PointObs)) :
    Option (List (Nat × α × List (Nat × Nat))) := exportPoints views 0 pts

/-- `max_point_idx` (import_openmvg.py:371, 377) -/
def maxKey {β : Type} : List (Nat × β) → Nat
  | [] => 0
  | (k, _) :: r => Nat.max k (maxKey r)

/-- the observations of one point (import_openmvg.py:385-392, `_import_openmvg_structure`, inner loop): the image name through
  `view_ids_to_kapture_filename.get`; "ValueError" when the view id is unknown (or its name empty) -/
def importObs (names : List (Nat × Str)) (idx : Nat) : List (Nat × Nat) → Except String (List (Nat × Str × Nat))
  | [] => Except.ok []
  | o :: r =>
    match Dict.get? o.1 names with
    | some n =>
      if n = [] then Except.error "ValueError" else
      match importObs names idx r with
      | Except.ok rest => Except.ok ((idx, n, o.2) :: rest)
      | Except.error e => Except.error e
    | none => Except.error "ValueError"

def importAllObs {α : Type} (names : List (Nat × Str)) : List (Nat × α × List (Nat × Nat)) → Except String (List (Nat × Str × Nat))
  | [] => Except.ok []
  | p :: r =>
    match importObs names p.1 p.2.2 with
    | Except.error e => Except.error e
    | Except.ok a =>
      match importAllObs names r with
      | Except.ok b => Except.ok (a ++ b)
      | Except.error e => Except.error e

/-- `points_3d[point_idx] = X` for every entry, then `[points_3d.get(i) or EMPTY for i in range(0, max_point_idx + 1)]`
  (import_openmvg.py:379, 394-400) -/
def importPoints {α : Type} (empty : α) (st : List (Nat × α × List (Nat × Nat))) : List α :=
  let dict : List (Nat × α) := st.foldl (fun t p => Dict.set p.1 p.2.1 t) []
  (List.range (maxKey st + 1)).map (fun i => (Dict.get? i dict).getD empty)

/-- `_import_openmvg_structure` (import_openmvg.py:363-401).  `names` is `view_ids_to_filename`.  Returns the point list and the observations
  (point, image name, feature) in insertion order.  An empty structure sets nothing (`if structure_data_json:`): `(none, [])`. -/
def importStructure {α : Type} (names : List (Nat × Str)) (empty : α) (st : List (Nat × α × List (Nat × Nat))) :
    Except String (Option (List α) × List (Nat × Str × Nat)) :=
  if st.isEmpty then Except.ok (none, []) else
  match importAllObs names st with
  | Except.error e => Except.error e
  | Except.ok os => Except.ok (some (importPoints empty st), os)

/-! ## matches -/

/-- `_export_openmvg_matches` (export_openmvg.py:762-771): one block per pair: the two view ids, then the index pairs.  `none` = KeyError. -/
def exportMatches (views : List (Str × Nat)) : List ((Str × Str) × List (Nat × Nat)) → Option (List ((Nat × Nat) × List (Nat × Nat)))
  | [] => some []
  | m :: r =>
    match Dict.get? m.1.1 views, Dict.get? m.1.2 views, exportMatches views r with
    | some i, some j, some rest => some (((i, j), m.2) :: rest)
    | _, _, _ => none

/-- Python `str < str` (code points, lexicographic) -/
def strLt : Str → Str → Bool
  | _, [] => false
  | [], _ :: _ => true
  | a :: as, b :: bs => if a.toNat < b.toNat then true else if a = b then strLt as bs else false

/-- `_import_openmvg_matches` (import_openmvg.py:498-549), one block: names through `records_camera[idx]`, columns swapped
  when `image_2 < image_1`.  "ValueError" when an index is not a timestamp of records_camera. -/
def importMatchBlock (names : List (Nat × Str)) (b : (Nat × Nat) × List (Nat × Nat)) :
    Except String ((Str × Str) × List (Nat × Nat)) :=
  match Dict.get? b.1.1 names, Dict.get? b.1.2 names with
  | some n1, some n2 =>
    if strLt n2 n1 then Except.ok ((n2, n1), b.2.map (fun r => (r.2, r.1)))
    else Except.ok ((n1, n2), b.2)
  | _, _ => Except.error "ValueError"

def importMatches (names : List (Nat × Str)) : List ((Nat × Nat) × List (Nat × Nat)) →
    Except String (List ((Str × Str) × List (Nat × Nat)))
  | [] => Except.ok []
  | b :: r =>
    match importMatchBlock names b with
    | Except.error e => Except.error e
    | Except.ok x =>
      match importMatches names r with
      | Except.ok rest => Except.ok (x :: rest)
      | Except.error e => Except.error e

/-! ## the whole export and the whole import, composed from the pieces above -/

structure Dataset (K α : Type) where
  recs : List Rec                                   -- records_camera, iteration order
  cams : List (Str × Cam K)                         -- kapture_data.cameras, iteration order
  poses : List ((Int × Str) × Pose K)               -- trajectories (rigs already removed)
  points : Option (List (α × PointObs))             -- points3d rows (xyz token) with their observations; none = no points3d
  pairs : Option (List ((Str × Str) × List (Nat × Nat)))     -- none = no matches for the keypoints type

structure Sfm (K α : Type) where
  imagesDir : Str                                   -- basename of "root_path"
  intrinsics : List (Nat × Intrinsic K)
  views : List View
  extrinsics : List (Nat × V3 K × M3 K)             -- key, center, rotation
  struct : Option (List (Nat × α × List (Nat × Nat)))
  matchBlocks : Option (List ((Nat × Nat) × List (Nat × Nat)))

structure Imported (K α : Type) where
  cams : List (Nat × Cam K)                         -- sensors, device id = str(key)
  recs : List (Nat × Nat × Str)                     -- timestamp (= view id), device (= intrinsic id), image name
  trajectories : List ((Nat × Nat) × V3 K × M3 K)   -- (timestamp, device) -> translation, rotation matrix
  points : Option (List α)
  observations : List (Nat × Str × Nat)
  pairs : Option (List ((Str × Str) × List (Nat × Nat)))

section whole
variable {K : Type} [Add K] [Sub K] [Mul K] [Div K] [Neg K] [OfNat K 0] [OfNat K 1] [OfNat K 2] [DecidableEq K]
variable {α : Type}

/-- `_export_openmvg_intrinsics` loop (export_openmvg.py:176-266): cameras that no image uses are skipped -/
def exportIntrinsics (v2 : Bool) (camIds : List (Str × Nat)) (cams : List (Str × Cam K)) :
    Except String (List (Nat × Intrinsic K)) :=
  (cams.filterMap (fun (c : Str × Cam K) => (Dict.get? c.1 camIds).map (fun i => (i, c.2)))).mapM
    (fun (ic : Nat × Cam K) =>
      match exportCam v2 ic.2 with
      | some i => Except.ok (ic.1, i)
      | none => Except.error "IndexError")

/-- `_export_openmvg_extrinsics` (export_openmvg.py:385-402), one image: `none` = no entry (no pose at that timestamp);
  a timestamp that has poses but none for this camera trips the `assert` -/
def exportExtrinsic (views : List (Str × Nat)) (poses : List ((Int × Str) × Pose K)) (r : Rec) :
    Except String (Option (Nat × V3 K × M3 K)) :=
  match Dict.get? r.name views with
  | none => Except.ok none
  | some v =>
    if poses.any (fun p => p.1.1 = r.ts) then
      match Dict.get? (r.ts, r.cam) poses with
      | some p => Except.ok (some (v, exportCentre p, exportRotation p))
      | none => Except.error "AssertionError"
    else Except.ok none

def exportExtrinsics (views : List (Str × Nat)) (poses : List ((Int × Str) × Pose K)) (recs : List Rec) :
    Except String (List (Nat × V3 K × M3 K)) :=
  match recs.mapM (exportExtrinsic views poses) with
  | Except.ok l => Except.ok (l.filterMap id)
  | Except.error e => Except.error e

/-- `_export_openmvg_sfm_data` + `_export_openmvg_matches` (export_openmvg.py:536-611, 741-771) -/
def exportSfm (flatten v2 : Bool) (rootBase : Str) (d : Dataset K α) : Except String (Sfm K α) :=
  let cids := camIds d.recs
  let vids := viewIds d.recs
  let sub := subRoot d.recs
  match exportIntrinsics v2 cids d.cams with
  | Except.error e => Except.error e
  | Except.ok intr =>
  match exportViews flatten sub cids vids d.recs with
  | none => Except.error "KeyError"
  | some views =>
  match exportExtrinsics vids d.poses d.recs with
  | Except.error e => Except.error e
  | Except.ok extr =>
  match d.points.mapM (exportStructure vids) with
  | none => Except.error "KeyError"
  | some st =>
  match d.pairs.mapM (exportMatches vids) with
  | none => Except.error "KeyError"
  | some ms =>
    Except.ok { imagesDir := imagesDir rootBase sub, intrinsics := intr, views := views, extrinsics := extr,
                struct := st, matchBlocks := ms }

/-- `_import_openmvg_cameras` loop (import_openmvg.py:139-242) -/
def importIntrinsics (is : List (Nat × Intrinsic K)) : Except String (List (Nat × Cam K)) :=
  match is.mapM (fun (ki : Nat × Intrinsic K) => match importCam ki.2 with
    | some c => Except.ok (ki.1, c)
    | none => Except.error "KeyError") with
  | Except.ok l => Except.ok (l.foldl (fun t (kc : Nat × Cam K) => Dict.set kc.1 kc.2 t) [])
  | Except.error e => Except.error e

/-- `_import_openmvg_trajectories` (import_openmvg.py:345-359) -/
def importExtrinsics (tbl : List (Nat × Nat × Nat)) (es : List (Nat × V3 K × M3 K)) :
    List ((Nat × Nat) × V3 K × M3 K) :=
  es.foldl (fun t e => match trajectoryKey tbl e.1 with
    | some k => Dict.set k (importT e.2.2 e.2.1, e.2.2) t
    | none => t) []

/-- `import_openmvg` (import_openmvg.py:66-80): sfm_data, then matches, then structure -/
def importSfm (empty : α) (s : Sfm K α) : Except String (Imported K α) :=
  match importIntrinsics s.intrinsics with
  | Except.error e => Except.error e
  | Except.ok cams =>
  let names := importViews s.imagesDir s.views
  let recs := s.views.foldl (fun t v => Dict.set (v.idView, v.idIntrinsic) (importName s.imagesDir v) t) []
  let traj := importExtrinsics (poseTable s.views) s.extrinsics
  match s.matchBlocks.mapM (importMatches names) with
  | Except.error e => Except.error e
  | Except.ok ms =>
  match importStructure names empty (s.struct.getD []) with
  | Except.error e => Except.error e
  | Except.ok (pts, obs) =>
    Except.ok { cams := cams, recs := recs.map (fun kv => (kv.1.1, kv.1.2, kv.2)), trajectories := traj,
                points := pts, observations := obs, pairs := ms }

end whole

end Kapture.C14
