/-
  Model/C06.lean — kapture/core/Trajectories.py: rigs_remove(_inplace) and rigs_recover(_inplace).

  Poses are elements of an abstract type `G` with a composition `mul` (PoseTransform.compose([a, b]) = mul a b) and an
  inverse `inv`; C05 proves the group laws for the real pose arithmetic.  A trajectory is the list of its
  (timestamp, device, pose) entries; rigs map a rig id to its (member, pose of member from rig) list.

  The code works on a dict keyed by (timestamp, device): `setdefault(ts, {})[dev] = ...` overwrites and `del` removes.
  Under the property's quantifier (no device gets a pose from two sources at one timestamp) no overwrite happens, and
  the dict is this list up to order; the correspondence compares sorted entries.
-/
import Kapture.Base.Dict

namespace Kapture.C06
open Kapture

structure Entry (G : Type) where
  ts : Int
  dev : String
  g : G
deriving Repr, DecidableEq

abbrev Rigs (G : Type) := List (String × List (String × G))

variable {G : Type}

def membersOf (rigs : Rigs G) (dev : String) : Option (List (String × G)) := Dict.get? dev rigs

/-- one pass of the `for iteration in range(max_depth)` loop of rigs_remove_inplace (Trajectories.py:272-289):
  every entry of a rig is replaced by one entry per member, posed at compose([member_from_rig, rig_from_world]) -/
def removeStep (mul : G → G → G) (rigs : Rigs G) (t : List (Entry G)) : List (Entry G) :=
  t.flatMap (fun e =>
    match membersOf rigs e.dev with
    | some members => members.map (fun m => { ts := e.ts, dev := m.1, g := mul m.2 e.g })
    | none => [e])

def hasRigEntry (rigs : Rigs G) (t : List (Entry G)) : Bool := t.any (fun e => (membersOf rigs e.dev).isSome)

/-- rigs_remove_inplace with max_depth passes, stopping early when no rig entry is left -/
def remove (mul : G → G → G) (rigs : Rigs G) : Nat → List (Entry G) → List (Entry G)
  | 0, t => t
  | n + 1, t => if hasRigEntry rigs t then remove mul rigs n (removeStep mul rigs t) else t

/-- reverse_rig_dict (Trajectories.py:330-333): member ↦ (rig, inverse of the member's pose); a later rig wins -/
def reverseRigs (inv : G → G) (rigs : Rigs G) : List (String × String × G) :=
  rigs.foldl (fun acc r => r.2.foldl (fun acc m => Dict.set m.1 (r.1, inv m.2) acc) acc) []

/-- one pass of rigs_recover_inplace (Trajectories.py:335-362) over the entries in sorted order: a member entry is
  removed; unless filtered by master_sensors or already recovered at that timestamp, it yields the rig entry -/
def recoverStep (mul : G → G → G) (inv : G → G) (rigs : Rigs G) (masters : Option (List String))
    (sorted : List (Entry G)) : List (Entry G) :=
  let rev := reverseRigs inv rigs
  -- the job list is fixed at the start of the pass; each job pops its own entry, then maybe sets the rig entry
  sorted.foldl (fun cur e =>
    match Dict.get? e.dev rev with
    | none => cur
    | some (rig, rigFromSensor) =>
      let cur := cur.filter (fun c => !(c.ts == e.ts && c.dev == e.dev))       -- trajectories[timestamp].pop(sensor_id)
      if (match masters with
          | some ms => !ms.contains e.dev
          | none => false) then cur
      else if cur.any (fun c => c.ts == e.ts && c.dev == rig) then cur
      else cur ++ [{ ts := e.ts, dev := rig, g := mul rigFromSensor e.g }]) sorted

def hasMemberEntry (inv : G → G) (rigs : Rigs G) (t : List (Entry G)) : Bool :=
  t.any (fun e => (Dict.get? e.dev (reverseRigs inv rigs)).isSome)

end Kapture.C06
