/-
  Model/C08.lean — kapture/algo/compare.py: equal_kapture and the per-part comparisons.

  Parts come in two shapes:
  * `tbl`  — the `flatten(x, is_sorted=True)` view: a list of (key tuple, value) sorted by key; compared position by
             position: same keys, values `close` (sensors, rigs, trajectories, every records kind, observations, points3d —
             the harness encodes the array shape as a first entry of the points table);
  * `coll` — feature / match collections: type name ↦ (configuration, set of members); compared with `equal_sets` on the
             type names, then configuration equality and `equal_sets` on the members.
  `close` is a parameter: exact equality for strings/ints/records, the stated tolerances for poses, camera parameters
  and coordinates (the harness supplies it; theorems assume it reflexive / symmetric where needed).
  Which attributes are compared, and the set operation inside equal_sets, come from Gen/ComparedParts.lean.
-/
import Kapture.Gen.ComparedParts

namespace Kapture.C08

abbrev Key := List String
abbrev Table := List (Key × String)
abbrev Coll := List (String × String × List String)     -- type ↦ (config, members)

inductive Part where
  | tbl (t : Option Table)
  | coll (c : Option Coll)

/-- equal_sensors / equal_rigs / equal_trajectories / equal_nested_dict_or_set / equal_points3d on flatten views -/
def equalTable (close : String → String → Bool) (a b : Option Table) : Bool :=
  match a, b with
  | none, none => true
  | some x, some y =>
    x.length == y.length && (x.zip y).all (fun pq => pq.1.1 == pq.2.1 && close pq.1.2 pq.2.2)
  | _, _ => false

/-- equal_sets (compare.py:258): emptiness of `a.difference(b)` or `a.symmetric_difference(b)`, as generated -/
def equalSets (shape : String) (a b : List String) : Bool :=
  if shape == "symmetric_difference" then a.all (fun x => b.contains x) && b.all (fun x => a.contains x)
  else a.all (fun x => b.contains x)

def lookupColl (c : Coll) (ty : String) : Option (String × List String) :=
  (c.find? (fun e => e.1 == ty)).map (·.2)

/-- equal_*_collections: same type names, then per type of `a` the configuration and the member sets -/
def equalColl (shape : String) (a b : Option Coll) : Bool :=
  match a, b with
  | none, none => true
  | some x, some y =>
    equalSets shape (x.map (·.1)) (y.map (·.1)) &&
    x.all (fun e =>
      match lookupColl y e.1 with
      | none => false            -- data_b[type] would be a KeyError: not reachable once the names are equal
      | some f => e.2.1 == f.1 && equalSets shape e.2.2 f.2)
  | _, _ => false

def equalPart (shape : String) (close : String → String → Bool) : Part → Part → Bool
  | Part.tbl a, Part.tbl b => equalTable close a b
  | Part.coll a, Part.coll b => equalColl shape a b
  | _, _ => false

abbrev Dataset := String → Part

/-- equal_kapture (compare.py:631-678): every compared attribute must compare equal -/
def equalKaptureWith (parts : List String) (shape : String) (close : String → String → Bool) (a b : Dataset) : Bool :=
  parts.all (fun p => equalPart shape close (a p) (b p))

def equalKapture (close : String → String → Bool) (a b : Dataset) : Bool :=
  equalKaptureWith Gen.ComparedParts.comparedParts Gen.ComparedParts.setShape close a b

/-- the 18 parts of a dataset (Kapture.__init__) -/
def allParts : List String :=
  ["sensors", "rigs", "trajectories", "records_camera", "records_depth", "records_lidar", "records_wifi",
   "records_bluetooth", "records_gnss", "records_accelerometer", "records_gyroscope", "records_magnetic",
   "keypoints", "descriptors", "global_features", "matches", "observations", "points3d"]

end Kapture.C08
