/-
  Model/C10.lean — kapture/algo/merge_remap.py: fresh identifiers and the renamed table merges.
  Tables are flatten views as in Model/C09.lean.  A fresh identifier is `sensor<n>` / `rig<n>`; it is kept structured
  (`NewId`) in the model and rendered by the driver (decimal rendering is injective — trusted, stated in DESIGN §4).
  Which helper each part uses comes from Gen/MergeDispatch.lean (`remapArity`).
-/
import Kapture.Base.Dict
import Kapture.Gen.MergeDispatch

namespace Kapture.C10
open Kapture

inductive NewId where
  | sensor (n : Nat)     -- f'sensor{n}'
  | rig (n : Nat)        -- f'rig{n}'
deriving DecidableEq, Repr

abbrev Mapping := List (String × NewId)

/-- get_sensors_mapping / get_rigs_mapping (merge_remap.py:20-37): zip(keys, range(offset, offset + len)) -/
def mkMapping (mk : Nat → NewId) (ids : List String) (offset : Nat) : Mapping :=
  ids.zipIdx.map (fun e => (e.1, mk (offset + e.2)))

/-- what _compute_new_ids reads of one input: the sensor ids and the rig ids, in dict order (`none` = part absent) -/
structure InputIds where
  sensors : Option (List String)
  rigs : Option (List String)

/-- _compute_new_ids (merge_remap.py:498-513): one (sensor mapping, rig mapping) per input, running offsets -/
def computeNewIds : List InputIds → Nat → Nat → List (Mapping × Mapping)
  | [], _, _ => []
  | i :: rest, so, ro =>
    let sm := match i.sensors with
      | some ids => mkMapping NewId.sensor ids so
      | none => []
    let so' := match i.sensors with
      | some ids => so + ids.length
      | none => so
    let rm := match i.rigs with
      | some ids => mkMapping NewId.rig ids ro
      | none => []
    let ro' := match i.rigs with
      | some ids => ro + ids.length
      | none => ro
    (sm, rm) :: computeNewIds rest so' ro'

/-- a component of a merged key: an untouched string or a fresh identifier -/
inductive Comp where
  | str (s : String)
  | new (i : NewId)
deriving DecidableEq, Repr

abbrev Key := List String
abbrev Table := List (Key × String)
abbrev OutKey := List Comp
abbrev OutTable := List (OutKey × String)

inductive Err where
  | keyError (id : String)
deriving DecidableEq, Repr

/-- rename the component at position `pos` of a key through a mapping (`mapping[id]`: KeyError when absent) -/
def renameAt (pos : Nat) (m : Mapping) (k : Key) : Except Err OutKey :=
  match k[pos]? with
  | none => Except.error (Err.keyError "")
  | some id =>
    match Dict.get? id m with
    | none => Except.error (Err.keyError id)
    | some n => Except.ok ((k.take pos).map Comp.str ++ [Comp.new n] ++ (k.drop (pos + 1)).map Comp.str)

/-- merge_table_key1 / key2 (overwrite) and key3 (setdefault) of merge_remap.py:40-131, after the D9 fix:
  each table is renamed with the mapping OF ITS OWN INPUT; `None` tables are skipped inside the loop -/
def mergeRenamed (pos : Nat) (firstWins : Bool) (tables : List (Option Table)) (mappings : List Mapping) :
    Except Err OutTable :=
  (tables.zip mappings).foldlM (fun acc tm =>
    match tm.1 with
    | none => Except.ok acc
    | some t => t.foldlM (fun acc kv => do
        let k ← renameAt pos tm.2 kv.1
        if firstWins && Dict.has k acc then pure acc else pure (Dict.set k kv.2 acc)) acc) []

/-- merge_rigs (merge_remap.py:150-175): rig id through the rig mapping, member through the sensor mapping -/
def mergeRigs (tables : List (Option Table)) (maps : List (Mapping × Mapping)) : Except Err OutTable :=
  (tables.zip maps).foldlM (fun acc tm =>
    match tm.1 with
    | none => Except.ok acc
    | some t => t.foldlM (fun acc kv =>
        match kv.1 with
        | [rig, dev] =>
          match Dict.get? rig tm.2.2, Dict.get? dev tm.2.1 with
          | some r, some d => Except.ok (Dict.set [Comp.new r, Comp.new d] kv.2 acc)
          | none, _ => Except.error (Err.keyError rig)
          | _, none => Except.error (Err.keyError dev)
        | _ => Except.error (Err.keyError "")) acc) []

/-- merge_trajectories (merge_remap.py:178-205): the device is renamed as a rig if it is one, else as a sensor -/
def mergeTrajectories (tables : List (Option Table)) (maps : List (Mapping × Mapping)) : Except Err OutTable :=
  (tables.zip maps).foldlM (fun acc tm =>
    match tm.1 with
    | none => Except.ok acc
    | some t => t.foldlM (fun acc kv =>
        match kv.1 with
        | [ts, dev] =>
          match Dict.get? dev tm.2.2 with
          | some r => Except.ok (Dict.set [Comp.str ts, Comp.new r] kv.2 acc)
          | none =>
            match Dict.get? dev tm.2.1 with
            | some d => Except.ok (Dict.set [Comp.str ts, Comp.new d] kv.2 acc)
            | none => Except.error (Err.keyError dev)
        | _ => Except.error (Err.keyError "")) acc) []

end Kapture.C10
