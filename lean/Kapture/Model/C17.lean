/-
  Model/C17.lean — tools/kapture_download_dataset.py (Dataset.prob_status / download / install) and
  kapture/converter/downloader/download.py (get_remote_file_size / download_file / download_file_resume)
  as a state machine against an ARBITRARY server.

  The server is any function from (number of requests made so far, request) to a raw response, so it may answer
  differently every time.  SHA-256 comparison is an abstract predicate `good : Bytes → Bool` ("sha256(b) equals the
  checksum published in the index").
-/
namespace Kapture.C17

abbrev Bytes := List Nat

/-- the Content-Range header of the size probe: missing (or without '/'), ".../n", or ".../junk" (int() raises) -/
inductive SizeAns where
  | absent
  | total (n : Nat)
  | garbage
deriving DecidableEq, Repr

inductive Req where
  | probe                      -- requests.get(url, headers={'Range': 'bytes=0-10'})
  | get (pos : Option Nat)     -- requests.get(url, stream=True, headers={'Range': f'bytes={pos}-'} or None)
deriving DecidableEq, Repr

structure RawResp where
  fail : Bool          -- requests.get raises
  size : SizeAns       -- only read for probes
  body : Bytes         -- bytes delivered by iter_content
  abort : Bool         -- the stream raises after delivering `body`
deriving Repr

def Server := Nat → Req → RawResp

structure World where
  archive : Option Bytes       -- <install dir>/<name>.tar.gz
  installed : Bool             -- name listed in kapture_dataset_installed.yaml
  extracted : List Bytes       -- every untar_file call so far, with the archive content at that moment
  reqs : Nat                   -- number of requests made so far
  log : List Req               -- the requests, in order
deriving Repr

inductive Status where
  | installed | notInstalled | corrupted | incomplete | downloaded
deriving DecidableEq, Repr

inductive Err where
  | valueError | connection
  | zeroDivision      -- download.py:84 formats local/online*100 for the log even when the server announces size 0
deriving DecidableEq, Repr

def request (srv : Server) (w : World) (r : Req) : World × RawResp :=
  ({ w with reqs := w.reqs + 1, log := w.log ++ [r] }, srv w.reqs r)

/-- get_remote_file_size (download.py:13-29) -/
def remoteSize (srv : Server) (w : World) : World × Except Err (Option Nat) :=
  let (w, resp) := request srv w Req.probe
  if resp.fail then (w, Except.error Err.connection) else
  match resp.size with
  | SizeAns.absent => (w, Except.ok none)
  | SizeAns.total n => (w, Except.ok (some n))
  | SizeAns.garbage => (w, Except.error Err.valueError)

/-- Dataset.prob_status(check_online=False) (kapture_download_dataset.py:236-295) -/
def probStatus (srv : Server) (good : Bytes → Bool) (w : World) : World × Except Err Status :=
  if w.installed then (w, Except.ok Status.installed) else
  match w.archive with
  | none => (w, Except.ok Status.notInstalled)
  | some a =>
    match remoteSize srv w with
    | (w, Except.error e) => (w, Except.error e)
    | (w, Except.ok none) => (w, Except.ok Status.corrupted)
    | (w, Except.ok (some n)) =>
      if a.length > n then (w, Except.ok Status.corrupted)
      else if a.length < n then (w, Except.ok Status.incomplete)
      else if good a then (w, Except.ok Status.downloaded)
      else (w, Except.ok Status.corrupted)

/-- download_file_resume (download.py:32-62) -/
def downloadResume (srv : Server) (w : World) (pos : Option Nat) : World × Except Err Unit :=
  match remoteSize srv w with     -- file_size_online: feeds the progress bar only, but its failure propagates
  | (w, Except.error e) => (w, Except.error e)
  | (w, Except.ok _) =>
    let resume : Bool := match pos with     -- `if resume_byte_pos` : None and 0 are both falsy
      | some p => p != 0
      | none => false
    let (w, resp) := request srv w (Req.get (if resume then pos else none))
    if resp.fail then (w, Except.error Err.connection) else
    -- open(filepath, 'ab' if resume else 'wb') then write every chunk
    let old : Bytes := if resume then w.archive.getD [] else []
    let w := { w with archive := some (old ++ resp.body) }
    if resp.abort then (w, Except.error Err.connection) else (w, Except.ok ())

/-- download_file (download.py:65-90) -/
def downloadFile (srv : Server) (w : World) : World × Except Err Unit :=
  match w.archive with
  | some a =>
    match remoteSize srv w with
    | (w, Except.error e) => (w, Except.error e)
    | (w, Except.ok none) => (w, Except.error Err.valueError)
    | (w, Except.ok (some n)) =>
      if n = a.length then (w, Except.ok ())
      else if n = 0 then (w, Except.error Err.zeroDivision)
      else downloadResume srv w (some a.length)
  | none => downloadResume srv w none

/-- the `for attempt in range(nb_attempt)` loop of Dataset.download (kapture_download_dataset.py:313-326) -/
def downloadLoop (srv : Server) (good : Bytes → Bool) : Nat → World → Status → World × Except Err Status
  | 0, w, st => (w, Except.ok st)
  | n + 1, w, st =>
    if st = Status.downloaded then (w, Except.ok st) else
    let w := if st = Status.corrupted then { w with archive := none } else w     -- os.remove(archive)
    match downloadFile srv w with
    | (w, Except.error e) => (w, Except.error e)
    | (w, Except.ok ()) =>
      match probStatus srv good w with
      | (w, Except.error e) => (w, Except.error e)
      | (w, Except.ok st') => downloadLoop srv good n w st'

/-- Dataset.download(previous_status=st) with force_overwrite=False, nb_attempt=2 -/
def download (srv : Server) (good : Bytes → Bool) (w : World) (st : Status) : World × Except Err Status :=
  if st = Status.downloaded then (w, Except.ok st) else downloadLoop srv good 2 w st

/-- Dataset.install(force_overwrite, no_cleaning) without an install script (kapture_download_dataset.py:329-373) -/
def install (srv : Server) (good : Bytes → Bool) (force noClean : Bool) (w : World) : World × Except Err Status :=
  let w := if force then { w with installed := false } else w
  match probStatus srv good w with
  | (w, Except.error e) => (w, Except.error e)
  | (w, Except.ok Status.installed) => (w, Except.ok Status.installed)
  | (w, Except.ok st) =>
    match download srv good w st with
    | (w, Except.error e) => (w, Except.error e)
    | (w, Except.ok st) =>
      if st ≠ Status.downloaded then (w, Except.ok st) else
      match w.archive with
      | none => (w, Except.error Err.valueError)     -- not reachable: 'downloaded' implies the file exists
      | some a =>
        let w := { w with extracted := w.extracted ++ [a] }                  -- untar_file
        let w := if noClean then w else { w with archive := none }           -- os.remove(archive)
        let w := { w with installed := true }                                -- mark_as_installed
        (w, Except.ok Status.installed)                                      -- upgrade(); prob_status()

/-- one invocation of the tool: its flags and the server it talks to (any function, different for every invocation) -/
structure Call where
  force : Bool
  noClean : Bool
  srv : Server

/-- a HISTORY of invocations on the same install directory: each starts from the disk the previous one left (archive,
  marker, everything extracted so far); the request counter and log are per invocation -/
def runCalls (good : Bytes → Bool) : List Call → World → World × List (Except Err Status)
  | [], w => (w, [])
  | c :: cs, w =>
    let (w1, r) := install c.srv good c.force c.noClean { w with reqs := 0, log := [] }
    let (w2, rs) := runCalls good cs w1
    (w2, r :: rs)

end Kapture.C17
